/-
  Scc.Props.C19Rest — C19 for the passes that C19.lean (fun2core) and C19Shrink.lean (shrink) do not
  cover, and the composition over the whole pipeline.

  Property C19 (as given): "The size of every intermediate program and of the emitted code is bounded
  by a low-degree polynomial in the size of the source …".

  Sizes.  Core (S2): `progSize` of Scc.Fun2Core.Size (the measure of `C19_fun2core_full`).
  Focused Core (S3): `fsProgSize` of Scc.Core.SizeFocus, counted the same way (one per node, one per
  binding of an argument list / clause context / operand).

  What is proved here
    * C19_uniquify_size   FULL: `|uniquify p| = |p|` (exactly; only binders are renamed).
    * C19_focus_size      FULL: `|S3| ≤ 4 · |S2|` for `Prog::focus` (= uniquify; focus), all programs:
                          the CPS `bind` calls its continuation exactly once and adds at most one cut,
                          one binder and the focused argument around its result.
    * C19_linearize_size  FULL (S4 → S5, all programs, no typing hypothesis; measures of
                          Scc.AxCut.SizeLin): nodes(S5) ≤ 2·nodes(S4) (at most ONE explicit substitution
                          per statement); every context of S5 has length ≤ B := max over the
                          definitions of 2·(parameters + binders on a path) + longest argument list + 1
                          (`defsBound` of S4); weight(S5) ≤ weight(S4) + nodes(S4)·(1 + 2·B), i.e.
                          quadratic (the substitutions and closure environments that are added are
                          bounded by the contexts).
    * C19_codegen_generic FULL for every backend record `B` with lawful temporaries (`BackendLaw`) whose
                          primitives emit at most `c` codes, `store`/`load` of k fields at most c·(k+1)
                          (`GenCost B c`): |compile B p| ≤ (5 + 5c)·(1 + M)·nodes(p), M = longest
                          context of the linearized program `p` (`defsCap`).  Hypothesis (decidable,
                          `substOkProg`): the new names of every explicit substitution are pairwise
                          distinct — without it `spanning_tree` unfolds a DAG of moves exponentially
                          (Scc/Backend/SizePM.lean); with it the parallel moves of a substitution are
                          at most 1 + 2c·|new| + 2c·|old| instructions (`C19_parallel_moves`).
    * C19_codegen_mock / C19_codegen_x86 / C19_routine_x86: the instances c = 1 (mock: ≤ 10·(1+M)·nodes)
                          and c = 96 (x86-64: ≤ 485·(1+M)·nodes instructions; the routine wrapper adds
                          at most 44 lines).
    * C19_pipeline_stages FULL, unconditional: for every accepted program (`stages p' = .ok st`) with source
                          size N (`funSrcSize`: definitions AND type declarations — a critical pair at a
                          type with d constructors is eta-expanded into d clauses, so the declarations
                          must count): |S2| ≤ P2 N = 3N(2N+4), |S3| ≤ P3 N = 4·P2 N,
                          nodes S4 ≤ P4 N = (N+2)·P3 N, every list of S4 ≤ PW N = P3 N + N + 1,
                          nodes S5 ≤ P5 N = 2·P4 N, every context of S5 ≤ PB N = 2(PW + P4(PW+1)) + PW + 1.
    * C19_pipeline_size   the x86-64 routine of `compileAllX86` has at most
                          PX N = 485·(1 + PB N)·P5 N + 44 instructions (= lines of the text), an explicit
                          polynomial of degree 8 in N (2 from fun2core, 1 from the clauses of shrinking,
                          the rest from the crude bound "contexts ≤ binders on a path ≤ nodes·width").
                          Hypothesis: `C19_wf4 p'` (decidable): S4 passes `wfNonLinearCheck`, the
                          precondition of the linearizer that every run checks (`wfNonLinear4` of
                          C12_linkChecks) — it gives, by `linearizeProg_LinTyped`, the pairwise distinct new
                          names that the bound on the parallel moves needs.
    * C19_backhalf_size   the same from S3 on with the program's own parameters (|S3|, `shrinkFactor`,
                          `progWidth`) instead of polynomials in N — much sharper.
  What remains: nothing of the statement as given is left as a `def : Prop`; the bounds are crude in two
  places (see C19_pipeline_size).  No pass duplicates a continuation: no defect found.
-/
import Scc.Props.C19
import Scc.Props.C19Shrink
import Scc.Core.SizeFocus
import Scc.AxCut.SizeLin
import Scc.Backend.SizeMock
import Scc.Backend.SizeX86
import Scc.Pipeline.SizeCompose
import Scc.Props.C12

namespace Scc.Props
open Scc Scc.Fun2Core

/-! ## 1. uniquify -/

def C19_uniquify_statement : Prop :=
  ∀ p : Core.Prog, progSize (Core.uniquifyProg p) = progSize p

/-- FULL: uniquify preserves the node count exactly -/
theorem C19_uniquify_size : C19_uniquify_statement := Core.SizeUniquify.uniquifyProg_size

/-! ## 2. focus -/

def C19_focus_statement : Prop :=
  ∀ (p : Core.Prog) (q : Core.FsProg), Core.focusProgE p = .ok q →
    Core.SizeFocus.fsProgSize q ≤ 4 * progSize p

/-- FULL: `|S3| ≤ 4 · |S2|` -/
theorem C19_focus_size : C19_focus_statement := fun _ _ h => Core.SizeFocus.focusProgE_size h

/-- the statement-level invariant: focusing a statement from any counter value -/
theorem C19_focus_stmt (s : Core.Stmt) (n : Nat) :
    Core.SizeFocus.fsStmtSize (Core.focusStmt s n).1 ≤ 4 * stmtSize s := Core.SizeFocus.focusStmt_size s n

/-! ## 3. linearize -/

def C19_linearize_statement : Prop :=
  ∀ (p q : AxCut.Prog), AxCut.linearizeProg p = .ok q →
    AxCut.SizeLin.defsNodes q.defs ≤ 2 * AxCut.SizeLin.defsNodes p.defs ∧
    AxCut.SizeLin.defsCap q.defs ≤ AxCut.SizeLin.defsBound p.defs ∧
    AxCut.SizeLin.defsWeight q.defs ≤
      AxCut.SizeLin.defsWeight p.defs + AxCut.SizeLin.defsNodes p.defs * (1 + 2 * AxCut.SizeLin.defsBound p.defs)

/-- FULL: linear in nodes, quadratic in weight, contexts bounded by the scopes of S4 -/
theorem C19_linearize_size : C19_linearize_statement := fun _ _ h =>
  let r := AxCut.SizeLin.linearizeProg_size h
  ⟨r.2.2.1, r.2.2.2.1, r.2.2.2.2⟩

/-- the statement-level invariant, for every fuel and context -/
theorem C19_linearize_stmt {n : Nat} {s : AxCut.Stmt} {Γ : AxCut.Ctx} {m : Nat} {s' : AxCut.Stmt}
    {m' : Nat} (h : AxCut.linearize n s Γ m = .ok (s', m')) :
    s'.size ≤ 2 * s.size ∧ AxCut.SizeLin.ctxCap Γ.length s' ≤ AxCut.SizeLin.bd Γ.length s ∧
    ∀ K, 1 + 2 * AxCut.SizeLin.bd Γ.length s ≤ K → AxCut.SizeLin.weight s' ≤ AxCut.SizeLin.weight s + s.size * K :=
  AxCut.SizeLin.linearize_size h

/-! ## 4. code generation -/

open Scc.Backend.SizeGen Scc.Backend.SizeConns Scc.Backend.SizePM in
/-- FULL, generic in the backend -/
theorem C19_codegen_generic {Code T : Type} {B : Backend.Backend Code T} {c : Nat}
    (L : BackendLaw B) (C : GenCost B c) (hooks : Bool) (ren : Nat → String) (p : AxCut.Prog) (M : Nat)
    (hM : AxCut.SizeLin.defsCap p.defs ≤ M) (hok : substOkProg p = true)
    (k : Nat) (r : List Code × Nat) (k' : Nat)
    (h : (Backend.compileR B hooks ren p).run k = .ok (r, k')) :
    r.1.length ≤ (5 + 5 * c) * (1 + M) * AxCut.SizeLin.defsNodes p.defs :=
  compile_length L C hooks ren p M hM hok k r k' h

open Scc.Backend.SizeGen Scc.Backend.SizeConns Scc.Backend.SizePM in
/-- the parallel moves of one substitution `pairs` in context `Γ`, any lawful backend -/
theorem C19_parallel_moves {Code T : Type} {B : Backend.Backend Code T} {c : Nat}
    (L : BackendLaw B) (hc : MoveCost B c) (pairs : List (AxCut.Binding × AxCut.Ident))
    (Γ newΓ : AxCut.Ctx) (hnew : (pairs.map (·.1.var.id)).Nodup) (k : Nat) (code : List Code) (k' : Nat)
    (h : (Backend.codeExchange B (Backend.transpose pairs Γ) Γ newΓ).run k = .ok (code, k')) :
    code.length ≤ 1 + 2 * c * pairs.length + 2 * c * Γ.length :=
  codeExchange_length L hc pairs Γ newΓ hnew k code k' h

def C19_codegen_x86_statement : Prop :=
  ∀ (hooks : Bool) (p : AxCut.Prog) (M c : Nat) (body : List X86.Code) (nargs : Nat),
    AxCut.SizeLin.defsCap p.defs ≤ M → Backend.SizeGen.substOkProg p = true →
    X86.compileX86 p hooks c = .ok (body, nargs) →
    body.length ≤ 485 * (1 + M) * AxCut.SizeLin.defsNodes p.defs

/-- FULL for the x86-64 backend -/
theorem C19_codegen_x86 : C19_codegen_x86_statement :=
  fun hooks p M c body nargs hM hok h => Backend.SizeX86.x86_compile_length hooks p M hM hok c body nargs h

/-- the routine (what `print_x86_64` prints, one instruction per line) -/
theorem C19_routine_x86 (body : List X86.Code) (nargs : Nat) (routine : List X86.Code)
    (h : X86.intoRoutine body nargs = .ok routine) : routine.length ≤ body.length + 44 :=
  Backend.SizeX86.intoRoutine_length body nargs routine h

/-- FULL for the mock backend of the harness -/
theorem C19_codegen_mock (hooks : Bool) (p : AxCut.Prog) (M c : Nat) (ops : List Backend.MockOp)
    (hM : AxCut.SizeLin.defsCap p.defs ≤ M) (hok : Backend.SizeGen.substOkProg p = true)
    (h : Backend.compileMockSym p hooks c = .ok ops) :
    ops.length ≤ 10 * (1 + M) * AxCut.SizeLin.defsNodes p.defs :=
  Backend.SizeMock.mock_compile_length hooks p M hM hok c ops h

/-! ## 5. the whole pipeline -/

open Scc.Pipeline Scc.Pipeline.SizeCompose in
def C19_pipeline_stages_statement : Prop :=
  ∀ (p' : Fun.CheckedProgram) (st : Stages), stages p' = .ok st →
    progSize st.s2 ≤ P2 (funSrcSize p') ∧
    Core.SizeFocus.fsProgSize st.s3 ≤ P3 (funSrcSize p') ∧
    AxCut.SizeLin.defsNodes st.s4.defs ≤ P4 (funSrcSize p') ∧
    Core2AxCut.SizeWidth.OKdefs (PW (funSrcSize p')) st.s4.defs ∧
    AxCut.SizeLin.defsNodes st.s5.defs ≤ P5 (funSrcSize p') ∧
    AxCut.SizeLin.defsCap st.s5.defs ≤ PB (funSrcSize p')

/-- FULL, unconditional: every intermediate program of an accepted program is polynomial in the source -/
theorem C19_pipeline_stages : C19_pipeline_stages_statement := fun _ _ h =>
  let r := Pipeline.SizeCompose.stages_sizes h
  ⟨r.1, r.2.1, r.2.2.1, r.2.2.2.1, r.2.2.2.2.2.1, r.2.2.2.2.2.2⟩

/-- the (decidable) precondition of the linearizer on S4, checked on every program of a run -/
def C19_wf4 (p' : Fun.CheckedProgram) : Bool :=
  match Pipeline.stages p' with
  | .ok st => AxCut.wfNonLinearCheck st.s4
  | .error _ => false

open Scc.Pipeline Scc.Pipeline.SizeCompose in
def C19_pipeline_statement : Prop :=
  ∀ (hooks : Bool) (c : Nat) (p' : Fun.CheckedProgram) (nargs : Nat) (text : String),
    C19_wf4 p' = true → compileAllX86 hooks c p' = .ok (nargs, text) →
    ∃ routine, text = X86.printProg routine ∧ routine.length ≤ PX (funSrcSize p')

/-- C19 for the whole compiler down to the x86-64 text -/
theorem C19_pipeline_size : C19_pipeline_statement := by
  intro hooks c p' nargs text hwf h
  refine Pipeline.SizeCompose.pipeline_x86 h ?_
  intro st hst
  simpa [C19_wf4, hst] using hwf

/-- the hypothesis is part of the per-program predicate `C12_linkChecks` (= `C01_linkChecks`) that the
    checks C01/C12 evaluate on every accepted program of a run -/
theorem C19_wf4_of_linkChecks {p' : Fun.CheckedProgram} (h : C12_linkChecks p' = true) :
    C19_wf4 p' = true := by
  unfold C12_linkChecks at h
  unfold C19_wf4
  split at h
  · next st hst =>
    simp only [C12_stageChecks, Bool.and_eq_true] at h
    simp only [hst]
    exact h.2
  · cases h

/-- from S3 on, with the parameters of the program -/
theorem C19_backhalf_size {p3 : Core.FsProg} {q4 q5 : AxCut.Prog} {hooks : Bool} {c : Nat}
    {body : List X86.Code} {nargs : Nat}
    (h4 : Core2AxCut.shrinkProg p3 = .ok q4) (h5 : AxCut.linearizeProg q4 = .ok q5)
    (hwf : AxCut.wfNonLinearCheck q4 = true) (hc : X86.compileX86 q5 hooks c = .ok (body, nargs)) :
    body.length ≤ 485 *
      (1 + (2 * (Core2AxCut.SizeWidth.progWidth p3 +
          shrinkFactor p3 * Core.SizeFocus.fsProgSize p3 * (Core2AxCut.SizeWidth.progWidth p3 + 1)) +
        Core2AxCut.SizeWidth.progWidth p3 + 1)) * (2 * (shrinkFactor p3 * Core.SizeFocus.fsProgSize p3)) :=
  Pipeline.SizeCompose.backhalf_x86 h4 h5 hwf hc

/-! ## non-vacuity -/

section examples

/-- S2 of `C19_exProg` (C19.lean) and its focusing: sizes 43 and 55 (≤ 4 · 43).  (`uniquify` is
    defined by well-founded recursion and does not reduce in the kernel; `focusOnly` — the second
    half of `Prog::focus` — is structural.  The harness S3 dump of this program has the same size.) -/
def C19_exStageSizes : Option (Nat × Nat) :=
  match compileProg C19_exProg with
  | .ok q => some (progSize q, Core.SizeFocus.fsProgSize (Core.focusOnly q))
  | .error _ => none

example : C19_exStageSizes = some (43, 55) := by decide

/-- the hypothesis of `C19_focus_size` is satisfiable: focusing of S2 of `C19_exProg` succeeds -/
example : (match compileProg C19_exProg with
    | .ok q => (Core.focusProgE q).toOption.isSome
    | .error _ => false) = true := by decide

/-- S4 and S5 of `C19Example.prog` (C19Shrink.lean): 12 nodes / weight 25 / bound 13 before,
    16 nodes (≤ 24) / weight 36 (≤ 25 + 12·27) / longest context 4 (≤ 13) after -/
def C19_exLinSizes : Option (Nat × Nat × Nat × Nat × Nat × Nat) :=
  match Core2AxCut.shrinkProg C19Example.prog with
  | .ok q =>
    match AxCut.linearizeProg q with
    | .ok q5 => some (AxCut.SizeLin.defsNodes q.defs, AxCut.SizeLin.defsWeight q.defs, AxCut.SizeLin.defsBound q.defs,
        AxCut.SizeLin.defsNodes q5.defs, AxCut.SizeLin.defsWeight q5.defs, AxCut.SizeLin.defsCap q5.defs)
    | .error _ => none
  | .error _ => none

example : C19_exLinSizes = some (12, 25, 13, 16, 36, 4) := by decide

/-- S5 of `C19Example.prog`: 16 nodes, longest context 4, substitutions fine; 70 mock instructions
    (≤ 10·5·16), 322 x86-64 instructions (≤ 485·5·16) -/
def C19_exCodeSizes : Option (Nat × Nat × Bool × Nat × Nat) :=
  match Core2AxCut.shrinkProg C19Example.prog with
  | .ok q =>
    match AxCut.linearizeProg q with
    | .ok q5 => some (AxCut.SizeLin.defsNodes q5.defs, AxCut.SizeLin.defsCap q5.defs,
        Backend.SizeGen.substOkProg q5,
        (match Backend.compileMockSym q5 true 0 with | .ok b => b.length | .error _ => 0),
        (match X86.compileX86 q5 true 0 with | .ok (b, _) => b.length | .error _ => 0))
    | .error _ => none
  | .error _ => none

example : C19_exCodeSizes = some (16, 4, true, 70, 322) := by decide +kernel

/-- the hypotheses of `C19_backhalf_size` hold of `C19Example.prog`: |S3| = 14, factor 3, width 14, S4
    passes the check; the bound is 485·(1 + 2·(14 + 42·15) + 15)·84 for 322 instructions -/
example : (match Core2AxCut.shrinkProg C19Example.prog with
    | .ok q4 => AxCut.wfNonLinearCheck q4
    | .error _ => false) = true := by decide +kernel
example : Core.SizeFocus.fsProgSize C19Example.prog = 14 ∧ shrinkFactor C19Example.prog = 3 ∧
    Core2AxCut.SizeWidth.progWidth C19Example.prog = 14 := by decide

/-- the source size of `C19_exProg` (no declarations): 21.  (`stages` runs `uniquify`, which is defined by
    well-founded recursion and does not reduce in the kernel; evaluated with `#eval`: the stages have
    43 / 55 / 18 / 23 nodes, the longest context of S5 is 4, `C19_wf4` holds, the routine has 129 lines.) -/
example : Pipeline.SizeCompose.funSrcSize C19_exProg = 21 := by decide

end examples

#print axioms C19_uniquify_size
#print axioms C19_focus_size
#print axioms C19_focus_stmt
#print axioms C19_linearize_size
#print axioms C19_linearize_stmt
#print axioms C19_codegen_generic
#print axioms C19_parallel_moves
#print axioms C19_codegen_x86
#print axioms C19_routine_x86
#print axioms C19_codegen_mock
#print axioms C19_pipeline_stages
#print axioms C19_pipeline_size
#print axioms C19_backhalf_size
#print axioms C19_wf4_of_linkChecks

end Scc.Props
