/-
  Scc.Props.C19Rest — C19 for the passes that C19.lean (fun2core) and C19Shrink.lean (shrink) do not
  cover, and the composition over the whole pipeline.

  Property C19 (as given): "The size of every intermediate program and of the emitted code is bounded
  by a low-degree polynomial in the size of the source …".

  Sizes.  Core (S2): `progSize` of Scc.Fun2Core.Size (the measure of `C19_fun2core_full`).
  Focused Core (S3): `fsProgSize` of Scc.Core.SizeFocus, counted the same way (one per node, one per
  binding of an argument list / clause context / operand).

  What is proved here
    * C19_uniquify_size   FULL: `|uniquify p| = |p|` (exactly; only binders are renamed).
    * C19_focus_size      FULL: `|S3| ≤ 4 · |S2|` for `Prog::focus` (= uniquify; focus), all programs:
                          the CPS `bind` calls its continuation exactly once and adds at most one cut,
                          one binder and the focused argument around its result.
    * C19_linearize_size  FULL (S4 → S5, all programs, no typing hypothesis; measures of
                          Scc.AxCut.SizeLin): nodes(S5) ≤ 2·nodes(S4) (at most ONE explicit substitution
                          per statement); every context of S5 has length ≤ B := max over the
                          definitions of 2·(parameters + binders on a path) + longest argument list + 1
                          (`defsBound` of S4); weight(S5) ≤ weight(S4) + nodes(S4)·(1 + 2·B), i.e.
                          quadratic (the substitutions and closure environments that are added are
                          bounded by the contexts).
-/
import Scc.Props.C19
import Scc.Props.C19Shrink
import Scc.Core.SizeFocus
import Scc.AxCut.SizeLin

namespace Scc.Props
open Scc Scc.Fun2Core

/-! ## 1. uniquify -/

def C19_uniquify_statement : Prop :=
  ∀ p : Core.Prog, progSize (Core.uniquifyProg p) = progSize p

/-- FULL: uniquify preserves the node count exactly -/
theorem C19_uniquify_size : C19_uniquify_statement := Core.SizeUniquify.uniquifyProg_size

/-! ## 2. focus -/

def C19_focus_statement : Prop :=
  ∀ (p : Core.Prog) (q : Core.FsProg), Core.focusProgE p = .ok q →
    Core.SizeFocus.fsProgSize q ≤ 4 * progSize p

/-- FULL: `|S3| ≤ 4 · |S2|` -/
theorem C19_focus_size : C19_focus_statement := fun _ _ h => Core.SizeFocus.focusProgE_size h

/-- the statement-level invariant: focusing a statement from any counter value -/
theorem C19_focus_stmt (s : Core.Stmt) (n : Nat) :
    Core.SizeFocus.fsStmtSize (Core.focusStmt s n).1 ≤ 4 * stmtSize s := Core.SizeFocus.focusStmt_size s n

/-! ## 3. linearize -/

def C19_linearize_statement : Prop :=
  ∀ (p q : AxCut.Prog), AxCut.linearizeProg p = .ok q →
    AxCut.SizeLin.defsNodes q.defs ≤ 2 * AxCut.SizeLin.defsNodes p.defs ∧
    AxCut.SizeLin.defsCap q.defs ≤ AxCut.SizeLin.defsBound p.defs ∧
    AxCut.SizeLin.defsWeight q.defs ≤
      AxCut.SizeLin.defsWeight p.defs + AxCut.SizeLin.defsNodes p.defs * (1 + 2 * AxCut.SizeLin.defsBound p.defs)

/-- FULL: linear in nodes, quadratic in weight, contexts bounded by the scopes of S4 -/
theorem C19_linearize_size : C19_linearize_statement := fun _ _ h =>
  let r := AxCut.SizeLin.linearizeProg_size h
  ⟨r.2.2.1, r.2.2.2.1, r.2.2.2.2⟩

/-- the statement-level invariant, for every fuel and context -/
theorem C19_linearize_stmt {n : Nat} {s : AxCut.Stmt} {Γ : AxCut.Ctx} {m : Nat} {s' : AxCut.Stmt}
    {m' : Nat} (h : AxCut.linearize n s Γ m = .ok (s', m')) :
    s'.size ≤ 2 * s.size ∧ AxCut.SizeLin.ctxCap Γ.length s' ≤ AxCut.SizeLin.bd Γ.length s ∧
    ∀ K, 1 + 2 * AxCut.SizeLin.bd Γ.length s ≤ K → AxCut.SizeLin.weight s' ≤ AxCut.SizeLin.weight s + s.size * K :=
  AxCut.SizeLin.linearize_size h

/-! ## non-vacuity -/

section examples

/-- S2 of `C19_exProg` (C19.lean) and its focusing: sizes 43 and 55 (≤ 4 · 43).  (`uniquify` is
    defined by well-founded recursion and does not reduce in the kernel; `focusOnly` — the second
    half of `Prog::focus` — is structural.  The harness S3 dump of this program has the same size.) -/
def C19_exStageSizes : Option (Nat × Nat) :=
  match compileProg C19_exProg with
  | .ok q => some (progSize q, Core.SizeFocus.fsProgSize (Core.focusOnly q))
  | .error _ => none

example : C19_exStageSizes = some (43, 55) := by decide

/-- the hypothesis of `C19_focus_size` is satisfiable: focusing of S2 of `C19_exProg` succeeds -/
example : (match compileProg C19_exProg with
    | .ok q => (Core.focusProgE q).toOption.isSome
    | .error _ => false) = true := by decide

/-- S4 and S5 of `C19Example.prog` (C19Shrink.lean): 12 nodes / weight 25 / bound 13 before,
    16 nodes (≤ 24) / weight 36 (≤ 25 + 12·27) / longest context 4 (≤ 13) after -/
def C19_exLinSizes : Option (Nat × Nat × Nat × Nat × Nat × Nat) :=
  match Core2AxCut.shrinkProg C19Example.prog with
  | .ok q =>
    match AxCut.linearizeProg q with
    | .ok q5 => some (AxCut.SizeLin.defsNodes q.defs, AxCut.SizeLin.defsWeight q.defs, AxCut.SizeLin.defsBound q.defs,
        AxCut.SizeLin.defsNodes q5.defs, AxCut.SizeLin.defsWeight q5.defs, AxCut.SizeLin.defsCap q5.defs)
    | .error _ => none
  | .error _ => none

example : C19_exLinSizes = some (12, 25, 13, 16, 36, 4) := by decide

end examples

#print axioms C19_uniquify_size
#print axioms C19_focus_size
#print axioms C19_focus_stmt
#print axioms C19_linearize_size
#print axioms C19_linearize_stmt

end Scc.Props
