/-
  C20 for the CURRENT sources: the runtime model instantiated with the constants that bin/regen
  extracted from /repo on this run (Scc/Generated/Runtime.lean).  If io.c or generate_c_driver
  regress (buffer too small, signed negation, atoi), these theorems stop compiling.
-/
import Scc.Props.C20
import Scc.Runtime.Current

namespace Scc.Props
open Scc.Runtime Scc.Generated

/-- C20, print and argument clauses, about the code as it is now. -/
def C20_current_statement : Prop :=
  (∀ v : BitVec 64, printI64Cur v = .ok (decSpec v.toInt)
      ∧ printlnI64Cur v = .ok (decSpec v.toInt ++ [10])) ∧
  (∀ v : Int, -2^63 ≤ v → v < 2^63 → argToParamCur (decSpec v) = v)

/-- the buffer of io.c is large enough (generated constant). -/
theorem C20_cap_sufficient : 20 ≤ maxDigitsIntSrc := by decide

/-- what holds of the current sources even with signed negation and `atoi`: everything except
`INT64_MIN` prints exactly, every argument in the 32-bit range arrives unchanged. -/
theorem C20_current_partial :
    (∀ v : BitVec 64, v ≠ INT64_MIN → printI64Cur v = .ok (decSpec v.toInt)
      ∧ printlnI64Cur v = .ok (decSpec v.toInt ++ [10])) ∧
    (∀ v : Int, -2^31 ≤ v → v < 2^31 → argToParamCur (decSpec v) = v) := by
  refine ⟨fun v hv => ?_, fun v h1 h2 => ?_⟩
  · unfold printI64Cur printlnI64Cur
    cases negStyle with
    | signed => exact C20_print_partial C20_cap_sufficient v hv
    | unsignedMag => exact C20_print_fixed_full C20_cap_sufficient v
  · unfold argToParamCur
    cases argConv with
    | atoi => exact C20_arg_partial v h1 h2
    | strtoll =>
      exact C20_strtoll_full v (by omega) (by omega)

end Scc.Props
