/-
  Scc.Props.C20 — the C runtime contract (io.c, driver-template.c, generate_c_driver).

  Property C20 (as given): `print_i64`/`println_i64` write exactly the decimal representation of every
  64-bit value (println: plus '\n'); the driver converts every command line argument to the parameter
  it denotes, rejects a wrong argument count with the fixed message and status 1, and exits with the
  low byte of the value returned by `asm_main`.

  What is proved about THE CODE AS IT IS (model: Scc.Runtime.Model):
    * C20_print_partial        all values except INT64_MIN, every capacity ≥ 20            (proved)
    * C20_min_witness / C20_print_statement_false
                               INT64_MIN: `value = -value` is signed overflow = UB        (statement FALSE)
      real io.c, gcc -O0, prints for print_i64(INT64_MIN) the 20 bytes  -'..--).0-*(+,))+(0(
      (hex 2d272e2e2d2d292e302d2a282b2c29292b283028: every "digit" is '0' - d because the remainders are
      negative); gcc -O2 happens to print -9223372036854775808. Either is allowed by UB.
    * C20_cap19_insufficient / C20_cap_iff   MAX_DIGITS_INT = 20 is exactly the least sufficient capacity
    * C20_print_fixed_full     a repaired loop (magnitude in uint64_t): the FULL statement       (proved)
    * C20_arg_partial          arguments in [-2^31, 2^31)                                 (proved)
    * C20_atoi_witness / C20_arg_statement_false
                               `atoi` truncates to `int`: 2147483648 arrives as -2147483648  (statement FALSE)
    * C20_strtoll_full         with `strtoll` instead of `atoi` the round trip would hold on all of int64
    * C20_wrong_argc, C20_exit_status, C20_driver_roundtrip                                (proved)
-/
import Scc.Runtime.Model
import Scc.Runtime.Proofs

namespace Scc.Props
open Scc.Runtime

/-! ## print_i64 / println_i64 -/

/-- C20, printing part, full statement: every 64-bit value. -/
def C20_print_statement (cap : Nat) : Prop :=
  ∀ v : BitVec 64,
    printI64 cap v = .ok (decSpec v.toInt) ∧ printlnI64 cap v = .ok (decSpec v.toInt ++ [10])

/-- Same statement for the repaired functions. -/
def C20_print_fixed_statement (cap : Nat) : Prop :=
  ∀ v : BitVec 64,
    printI64Fixed cap v = .ok (decSpec v.toInt) ∧
    printlnI64Fixed cap v = .ok (decSpec v.toInt ++ [10])

/-- The current code, every capacity ≥ 20, all 2^64 − 1 values other than INT64_MIN (by induction on
the magnitude, no enumeration). `20 ≤ cap` is what excludes the buffer under-run:
`|decSpec v| ≤ 20` including the sign. MISSING w.r.t. `C20_print_statement`: `v = INT64_MIN`, for
which the statement is false (`C20_min_witness`). -/
theorem C20_print_partial {cap : Nat} (hcap : 20 ≤ cap) :
    ∀ v : BitVec 64, v ≠ INT64_MIN →
      printI64 cap v = .ok (decSpec v.toInt) ∧ printlnI64 cap v = .ok (decSpec v.toInt ++ [10]) := by
  intro v hv
  have hlen : (decSpec v.toInt).length ≤ cap := Nat.le_trans (length_decSpec_le_20 v) hcap
  constructor
  · simp only [printI64, printSigned_eq cap [] v hv, if_pos hlen, List.append_nil]
  · simp only [printlnI64, printSigned_eq cap [10] v hv, if_pos hlen]

/-- Exact behaviour for any capacity (v ≠ INT64_MIN): spec output iff it fits, else under-run. -/
theorem C20_print_any_cap (cap : Nat) (v : BitVec 64) (hv : v ≠ INT64_MIN) :
    printI64 cap v =
      if (decSpec v.toInt).length ≤ cap then .ok (decSpec v.toInt) else .ub "buffer-underflow" := by
  simp only [printI64, printSigned_eq cap [] v hv, List.append_nil]

/-- The real defect: negating INT64_MIN is signed overflow. -/
theorem C20_min_witness : printI64 20 INT64_MIN = .ub "neg-overflow" :=
  printSigned_min 20 []

theorem C20_min_witness_any_cap (cap : Nat) :
    printI64 cap INT64_MIN = .ub "neg-overflow" ∧ printlnI64 cap INT64_MIN = .ub "neg-overflow" :=
  ⟨printSigned_min cap [], printSigned_min cap [10]⟩

/-- Hence the full statement is FALSE for the current code (for MAX_DIGITS_INT = 20 and for any other
capacity). -/
theorem C20_print_statement_false (cap : Nat) : ¬ C20_print_statement cap := by
  intro h
  have h1 := (h INT64_MIN).1
  rw [(C20_min_witness_any_cap cap).1] at h1
  exact Out.noConfusion h1

theorem C20_print_statement_false_20 : ¬ C20_print_statement 20 := C20_print_statement_false 20

/-- −10^18 as a 64-bit pattern. -/
def negTenPow18 : BitVec 64 := BitVec.ofInt 64 (-1000000000000000000)

theorem toInt_negTenPow18 : negTenPow18.toInt = -1000000000000000000 := by decide

theorem length_decSpec_negTenPow18 : (decSpec negTenPow18.toInt).length = 20 := by
  rw [toInt_negTenPow18]
  have h1 : ¬ (decNat 1000000000000000000).length ≤ 18 := by
    rw [length_decNat_le_iff (by decide)]; decide
  have h2 : (decNat 1000000000000000000).length ≤ 19 := by
    rw [length_decNat_le_iff (by decide)]; decide
  have : decSpec (-1000000000000000000) = 45 :: decNat 1000000000000000000 := by
    unfold decSpec; rw [if_pos (by decide)]; rfl
  rw [this, List.length_cons]; omega

/-- A 19-byte buffer is not enough: −10^18 has 19 digits and a sign. -/
theorem C20_cap19_insufficient :
    ∃ v : BitVec 64, v ≠ INT64_MIN ∧ printI64 19 v = .ub "buffer-underflow" := by
  refine ⟨negTenPow18, by decide, ?_⟩
  rw [C20_print_any_cap 19 negTenPow18 (by decide), length_decSpec_negTenPow18]
  rfl

/-- `20` is exactly the least capacity for which the partial statement holds. -/
theorem C20_cap_iff (cap : Nat) :
    (∀ v : BitVec 64, v ≠ INT64_MIN → printI64 cap v = .ok (decSpec v.toInt)) ↔ 20 ≤ cap := by
  constructor
  · intro h
    have h1 := h negTenPow18 (by decide)
    rw [C20_print_any_cap cap negTenPow18 (by decide), length_decSpec_negTenPow18] at h1
    by_cases hc : 20 ≤ cap
    · exact hc
    · rw [if_neg hc] at h1; exact Out.noConfusion h1
  · intro h v hv; exact (C20_print_partial h v hv).1

/-- The repaired loop (magnitude computed as `0 - (uint64_t)value`): the FULL statement, all 2^64 values
including INT64_MIN. (To be used once io.c is repaired.) -/
theorem C20_print_fixed_full {cap : Nat} (hcap : 20 ≤ cap) : C20_print_fixed_statement cap := by
  intro v
  have hlen : (decSpec v.toInt).length ≤ cap := Nat.le_trans (length_decSpec_le_20 v) hcap
  constructor
  · simp only [printI64Fixed, printUnsignedMag_eq cap [] v, if_pos hlen, List.append_nil]
  · simp only [printlnI64Fixed, printUnsignedMag_eq cap [10] v, if_pos hlen]

/-- The repaired and the current code agree wherever the current code is defined. -/
theorem C20_fixed_agrees (cap : Nat) (v : BitVec 64) (hv : v ≠ INT64_MIN) :
    printI64Fixed cap v = printI64 cap v ∧ printlnI64Fixed cap v = printlnI64 cap v := by
  simp only [printI64Fixed, printlnI64Fixed, printI64, printlnI64, printUnsignedMag_eq,
    printSigned_eq _ _ v hv, and_self]

/-! ## argument conversion -/

/-- C20, argument part, full statement: every int64 written in decimal arrives unchanged. -/
def C20_arg_statement : Prop :=
  ∀ v : Int, -2 ^ 63 ≤ v → v < 2 ^ 63 → argToParam (decSpec v) = v

/-- The current code (`atoi`): arguments that fit into a C `int`.
MISSING w.r.t. `C20_arg_statement`: 2^31 ≤ |v| (false there, `C20_atoi_witness`). -/
theorem C20_arg_partial : ∀ v : Int, -2 ^ 31 ≤ v → v < 2 ^ 31 → argToParam (decSpec v) = v := by
  intro v h1 h2
  rw [argToParam_decSpec (by omega) (by omega), toInt_ofInt32_of_range h1 h2]

/-- The real defect: `atoi` truncates; "2147483648" is passed as −2147483648. -/
theorem C20_atoi_witness : argToParam (decSpec (2 ^ 31)) ≠ 2 ^ 31 := by
  rw [argToParam_decSpec (by decide) (by decide)]
  decide

theorem C20_atoi_witness_value : argToParam (decSpec (2 ^ 31)) = -2 ^ 31 := by
  rw [argToParam_decSpec (by decide) (by decide)]
  decide

theorem C20_arg_statement_false : ¬ C20_arg_statement := fun h =>
  C20_atoi_witness (h (2 ^ 31) (by decide) (by decide))

/-- What the driver would do with `strtoll` in place of `atoi`: exact on all of int64
(induction over the digits, unbounded parse, then saturation is the identity in range). -/
theorem C20_strtoll_full : ∀ v : Int, -2 ^ 63 ≤ v → v < 2 ^ 63 → strtollModel (decSpec v) = v :=
  fun _ h1 h2 => strtollModel_decSpec h1 h2

/-! ## driver -/

theorem C20_wrong_argc (n : Nat) (argv : List (List UInt8)) (f : List Int → (List UInt8 × Int))
    (h : argv.length ≠ 1 + n) : driverMain n argv f = (errorBytes, 1) := by
  unfold driverMain; rw [if_pos h]

/-- The message is 26 characters and the NUL terminator. -/
theorem C20_errorBytes_length : errorBytes.length = 27 ∧ errorBytes.getLast? = some 0 := by decide

/-- Exit status = low 8 bits of the two's-complement return value (as a number in 0..255; `%` on `Int`
is the non-negative remainder, so −1 gives 255); stdout is what `asm_main` wrote. -/
theorem C20_exit_status (n : Nat) (argv : List (List UInt8)) (f : List Int → (List UInt8 × Int))
    (h : argv.length = 1 + n) :
    (driverMain n argv f).2 = ((f ((argv.drop 1).map argToParam)).2 % 256).toNat ∧
    (driverMain n argv f).1 = (f ((argv.drop 1).map argToParam)).1 := by
  unfold driverMain
  rw [if_neg (by omega)]
  exact ⟨exitStatus_eq _, rfl⟩

theorem C20_exit_status_lt (n : Nat) (argv : List (List UInt8)) (f : List Int → (List UInt8 × Int)) :
    (driverMain n argv f).2 < 256 := by
  unfold driverMain
  split
  · decide
  · exact exitStatus_lt _

/-- End to end for `int`-sized arguments: `prog v1 .. vn` (decimal) calls `asm_main` with `[v1, .., vn]`. -/
theorem C20_driver_roundtrip (prog : List UInt8) (vs : List Int) (f : List Int → (List UInt8 × Int))
    (hvs : ∀ v ∈ vs, -2 ^ 31 ≤ v ∧ v < 2 ^ 31) :
    driverMain vs.length (prog :: vs.map decSpec) f = ((f vs).1, ((f vs).2 % 256).toNat) := by
  have hmap : (vs.map decSpec).map argToParam = vs := by
    rw [List.map_map]
    conv => rhs; rw [← List.map_id vs]
    apply List.map_congr_left
    intro v hv
    exact C20_arg_partial v (hvs v hv).1 (hvs v hv).2
  unfold driverMain
  rw [if_neg (by simp; omega)]
  simp only [List.drop_succ_cons, List.drop_zero, hmap, exitStatus_eq]

/-! ## non-vacuity / concrete instances -/

-- C20_print_partial: the hypotheses are satisfiable (cap = MAX_DIGITS_INT = 20, v = −42) and the
-- conclusion is a concrete byte string.
example : (20 : Nat) ≤ maxDigitsInt ∧ (BitVec.ofInt 64 (-42)) ≠ INT64_MIN := by decide
example : decSpec (BitVec.ofInt 64 (-42)).toInt = [45, 52, 50] := by decide
example : printI64 20 (BitVec.ofInt 64 (-42)) = .ok [45, 52, 50] := by
  rw [(C20_print_partial (Nat.le_refl 20) _ (by decide)).1]; decide
example : printlnI64 20 (BitVec.ofInt 64 (-42)) = .ok [45, 52, 50, 10] := by
  rw [(C20_print_partial (Nat.le_refl 20) _ (by decide)).2]; decide
example : printI64 20 0 = .ok [48] := by
  rw [(C20_print_partial (Nat.le_refl 20) _ (by decide)).1]; decide
-- the longest output: INT64_MIN + 1 needs all 20 bytes
example : (decSpec (INT64_MIN + 1).toInt).length = 20 := by decide
-- C20_print_fixed_full at INT64_MIN
example : printI64Fixed 20 INT64_MIN =
    .ok [45, 57, 50, 50, 51, 51, 55, 50, 48, 51, 54, 56, 53, 52, 55, 55, 53, 56, 48, 56] := by
  rw [(C20_print_fixed_full (Nat.le_refl 20) INT64_MIN).1]; decide
-- C20_print_any_cap / C20_cap_iff: hypothesis instance
example : negTenPow18 ≠ INT64_MIN := by decide
-- C20_arg_partial: −2^31 itself is in range and survives; so does "−7"
example : argToParam (decSpec (-2 ^ 31)) = -2 ^ 31 := C20_arg_partial _ (by decide) (by decide)
example : decSpec (-7) = [45, 55] := by decide
example : argToParam [45, 55] = -7 := by decide
-- atoi details: leading white space, '+', stop at the first non-digit, no digits = 0
example : argToParam [32, 9, 43, 49, 50, 120, 57] = 12 := by decide     -- " \t+12x9"
example : argToParam [45] = 0 := by decide                               -- "-"
example : argToParam [45, 45, 53] = 0 := by decide                       -- "--5"
-- saturation then truncation: "9223372036854775808" -> LONG_MAX -> (int) -1
example : strtollModel (decSpec (2 ^ 63)) = 2 ^ 63 - 1 := by
  rw [strtollModel, parseSigned_decSpec]; decide
example : argToParam (decSpec (2 ^ 63)) = -1 := by
  rw [argToParam, strtollModel, parseSigned_decSpec]; decide
-- C20_strtoll_full: INT64_MIN is in range
example : strtollModel (decSpec (-2 ^ 63)) = -2 ^ 63 := C20_strtoll_full _ (by decide) (by decide)
-- C20_wrong_argc / C20_exit_status: concrete runs (n = 1)
example : driverMain 1 [[112]] (fun _ => ([], 0)) = (errorBytes, 1) :=
  C20_wrong_argc 1 _ _ (by decide)
example : driverMain 1 [[112], [53]] (fun a => ([], a.headD 0 - 6)) = ([], 255) := by decide
example : ([[112], [53]] : List (List UInt8)).length = 1 + 1 := by decide
example : driverMain 2 [[112], [51], [52]] (fun a => ([], 256 * a.sum + 3)) = ([], 3) := by decide
-- C20_driver_roundtrip: hypothesis instance
example : ∀ v ∈ ([5, -6] : List Int), -2 ^ 31 ≤ v ∧ v < 2 ^ 31 := by decide

/-! ## axioms -/

#print axioms C20_print_partial
#print axioms C20_print_any_cap
#print axioms C20_min_witness
#print axioms C20_print_statement_false
#print axioms C20_cap19_insufficient
#print axioms C20_cap_iff
#print axioms C20_print_fixed_full
#print axioms C20_fixed_agrees
#print axioms C20_arg_partial
#print axioms C20_atoi_witness
#print axioms C20_arg_statement_false
#print axioms C20_strtoll_full
#print axioms C20_wrong_argc
#print axioms C20_exit_status
#print axioms C20_exit_status_lt
#print axioms C20_driver_roundtrip

end Scc.Props
