/-
  Scc.Props.C10A64All — property C10 (heap footprint bounded by peak live data) ON CONCRETE AArch64 EXECUTIONS OF
  ALL PROGRAMS — data types AND CLOSURES: the AArch64 counterpart of Props/C10X86All.lean, over the closure-aware
  three-way relation `Scc.A64.Ref.K` of Props/C07A64Full.lean (Scc/A64/ConcK*.lean), with the side hypotheses of
  the composition discharged as in `C07_programs_text` (`C07_setup_of_checks`, Props/C09A64All.lean).

  C10 (fixed text): "Generated code takes fresh memory from the unused part of the heap only when both free
  lists are empty, so at every moment the highest heap address ever written lies at most a small constant
  number of blocks above the peak number of simultaneously reachable blocks. A computation that repeatedly
  builds and drops structures therefore runs in space independent of the number of repetitions."

  NOTIONS (raw machine state): `ConcK.HeapShapeAt c σ below inUse` — the heap of `σ` is consistent (`InvW`) with
  `below` blocks below the allocation frontier, `inUse` of them neither on the reusable nor on the deferred free
  list; `maxHeapWritten` — the machine's own record (`State.maxHeap`) of the highest heap address written;
  `ConcK.withHeapBytes cfg n` — the configuration with the heap region cut down to `n` bytes;
  `ConcK.PeakAtMost … Pk C` — THE PEAK over the statement boundaries `ConcK.BoundaryOf` (boundaries up to `#ctx`
  hooks: Props/C09A64All.lean).
  THE CONSTANT `A + 2`, `A = progMaxAlloc p`: the largest number of fields of a `let` OR OF VARIABLES CAPTURED BY A
  `create` of the program — the environment of a closure is stored by the same `Memory::store` as the fields of
  an object, and the memory contract asks for `A + 1` blocks of room before it.

  PROVED (no `sorry`; axioms propext, Classical.choice, Quot.sound):
  * `C10_a64_frontier_bound_all`  under `PeakAtMost Pk`, in a heap of at least `64·(Pk + A + 2)` bytes, the machine
                              passes through a boundary configuration for every state of the terminating positional
                              run, and at each at most `Pk + 1` blocks lie below the frontier (fresh memory is
                              taken only when both free lists are empty: `FrPk`, also through `create`).
  * `C10_a64_every_prefix_all`    the same for every prefix (any number `fuel` of steps) of every run.
  * `C10_a64_programs`        THEOREM A ∘ B ON THE TEXT under the footprint bound instead of the coarse room
                              hypothesis of `C07_programs_text`: `64·(Pk + A + 2) ≤ heapBytes` and `PeakAtMost Pk`
                              suffice for a run of ANY length (same trace, same result), and the highest heap
                              address written lies inside the heap region.  `C10_a64_programs_lines`: on any lines
                              that are the routine, side hypotheses explicit.
  * `C10_a64_footprint_all`   THE FOOTPRINT, on the text: in ANY heap of at least `64·(Pk + A + 2)` bytes the run
                              ends with the same trace and result and `maxHeapWritten ≤ 64·(Pk + A + 2)`,
                              independent of the length of the run and of the size of the heap.
                              `C10_a64_footprint_all_lines`: on the lines.
  * `C10_a64_size_all`        C10 IN TERMS OF THE SOURCE-LEVEL DATA, ALL RUNS, on the text: let `D` bound the
                              number of fields of the object AND CLOSURE values held by the variables of the
                              positional machine (`valsFields st.env ≤ D` for every reachable state).  Then in ANY
                              heap of at least `64·(D + A + 2)` bytes, for EVERY amount of machine fuel (below
                              `2^64/(M + 1)`), terminating run or not, the result is `outOfFuel` or `done v` and
                              the highest heap address written is at most `D + A + 2` blocks above the heap base.
                              `C10_a64_size_all_lines`: on the lines.
  The run theorems are stated with the monitor `heap` off; the validator `wf` may be on if the routine has fewer
  than 2^18 items (`C14_a64_final`, Props/C14A64Final.lean: the printed routine passes `wfCheck`) (`maxHeapWritten` of a run that the heap monitor
  ends early is that of a prefix).  WHAT REMAINS of a statement with the constant 2 and the peak measured at the
  `#ctx` hooks: as for x86-64 (`C10_x86_statement`, Props/C10X86.lean).
-/
import Scc.Props.C09A64All

namespace Scc.A64
open Scc.AxCut Scc.AxCut.Pos Scc.Backend Scc.Backend.Abs Scc.A64.Ref
open Scc.Props.C06Generic (Reachable CodeFits statesOf)
open Scc.Props.C14Generic (LabelSafe)
open Scc.A64.CC (CfgCC cfgCC_default Lines hkOf)
open Scc.A64.Loader (hookVarsOf)
open Scc.X86.Ref.K (AllocLe progMaxAlloc allocLe_progMaxAlloc)
open Scc.X86.Conc (valsFields stmtSize progMaxSize stmtSize_le_progMaxSize)
open Scc.A64.ConcK (MS StepsN BChain BoundaryOf HeapShapeAt initMS withHeapBytes)

/-- the peak hypothesis is trivial for `Pk = C`: the blocks in use lie below the frontier -/
theorem C10_peak_trivial_all (p : AxCut.Prog) (hooks : Bool) (routine : List Code) (ops : List MockOp)
    (c : MemCfg) (hk : Code → Bool) (P : Prog) (args : List Word) (C : Nat) :
    ConcK.PeakAtMost p hooks routine ops c hk P args C C :=
  ConcK.peakAtMost_trivial p hooks routine ops c hk P args C

/-! ## the frontier bound -/

/-- THE FRONTIER BOUND ON THE MACHINE, all programs (lift of `C10_frontier_bound`): if at no statement boundary
more than `Pk` blocks are in use, then in a heap of `64·(Pk + A + 2)` bytes the machine passes, in order and
without fault, through a boundary configuration for EVERY state of the terminating positional run, and at each of
them the heap is consistent with at most `Pk + 1` blocks below the allocation frontier. -/
theorem C10_a64_frontier_bound_all (p : AxCut.Prog) (args : List Word) (hooks : Bool) (body routine : List Code)
    (nargs : Nat) (d0 : Def) (ops : List MockOp) (c' : Nat)
    (hsafe : LabelSafe p = true) (htp : LinTypedProg p) (hprog : ∀ d ∈ p.types, d.xtors.length ≤ 1024)
    (hcompM : (compile mockSym hooks p).run 0 = .ok ((ops, nargs), c')) (hfit : CodeFits ops)
    (hcompX : compileProg a64Backend p hooks 0 = .ok (body, nargs, routine))
    (hnd : (labs routine).Nodup)
    (hd : p.defs.head? = some d0) (hentry : ∀ b ∈ d0.ctx, b.chi = .ext ∧ b.ty = .i64)
    (hlen : d0.ctx.length = args.length)
    (hcap : ∀ st, Reachable p ⟨d0.ctx, args.map .int, d0.body⟩ st → 2 * st.ctx.length ≤ 280)
    (fuel : Nat) (out : List (Bool × Word)) (v : Word) (hfuel : fuel + 1 < 2 ^ 64)
    (hrun : Pos.run p args fuel = ⟨out, .done v⟩)
    (c : MemCfg) (H : CfgCC c) (hb8 : c.heapBase % 8 = 0) (hb0 : 0 < c.heapBase)
    (Pk : Nat) (hbytes : 64 * (Pk + progMaxAlloc p + 2) ≤ c.heapBytes)
    (hfitX : c.codeBase + 4 * ninstr routine < 2 ^ 64)
    (hkv : String → Option (List (String × Kind))) (ls : List (Nat × PLine)) (hl : Lines hkv ls routine)
    (hP : ConcK.PeakAtMost p hooks routine ops c (hkOf hkv) (layout ls) args Pk (progMaxAlloc p * fuel + 1)) :
    ∃ n0 X0, StepsN (layout ls) c n0 (initMS c (hkOf hkv) routine args) X0 ∧
      BChain (layout ls) c
        (fun st X => BoundaryOf p hooks routine ops c (hkOf hkv) (layout ls) st X ∧
          ∃ below inUse, HeapShapeAt c X.σ below inUse ∧ below ≤ Pk + 1 ∧ inUse ≤ Pk)
        (statesOf p fuel ⟨d0.ctx, args.map .int, d0.body⟩) X0 := by
  obtain ⟨_, _, n0, X0, n, XL, h0, hch, _⟩ := ConcK.programs_run_gen p args hooks body routine nargs d0 ops c' hsafe
    htp hprog hcompM hfit hcompX hnd hd hentry hlen hcap fuel out v hfuel hrun c H hb8 hb0 Pk (progMaxAlloc p)
    (allocLe_progMaxAlloc p) hbytes (Ref.K.holdsB_layout hl) hfitX (ConcK.peakHyp_of_peakAtMost hP)
  exact ⟨n0, X0, h0, ConcK.bchain_shape_peak hP _ X0 n0 h0 hch⟩

/-- THE FRONTIER BOUND FOR EVERY PREFIX OF EVERY RUN (terminating or not), all programs: for ANY number `fuel` of
steps of the positional machine the machine reaches, without fault, a boundary configuration for every state of
the prefix, with at most `Pk + 1` blocks below the frontier at each -/
theorem C10_a64_every_prefix_all (p : AxCut.Prog) (args : List Word) (hooks : Bool) (body routine : List Code)
    (nargs : Nat) (d0 : Def) (ops : List MockOp) (c' : Nat)
    (hsafe : LabelSafe p = true) (htp : LinTypedProg p) (hprog : ∀ d ∈ p.types, d.xtors.length ≤ 1024)
    (hcompM : (compile mockSym hooks p).run 0 = .ok ((ops, nargs), c')) (hfit : CodeFits ops)
    (hcompX : compileProg a64Backend p hooks 0 = .ok (body, nargs, routine))
    (hnd : (labs routine).Nodup)
    (hd : p.defs.head? = some d0) (hentry : ∀ b ∈ d0.ctx, b.chi = .ext ∧ b.ty = .i64)
    (hlen : d0.ctx.length = args.length)
    (hcap : ∀ st, Reachable p ⟨d0.ctx, args.map .int, d0.body⟩ st → 2 * st.ctx.length ≤ 280)
    (fuel : Nat) (hfuel : fuel + 1 < 2 ^ 64)
    (c : MemCfg) (H : CfgCC c) (hb8 : c.heapBase % 8 = 0) (hb0 : 0 < c.heapBase)
    (Pk : Nat) (hbytes : 64 * (Pk + progMaxAlloc p + 2) ≤ c.heapBytes)
    (hfitX : c.codeBase + 4 * ninstr routine < 2 ^ 64)
    (hkv : String → Option (List (String × Kind))) (ls : List (Nat × PLine)) (hl : Lines hkv ls routine)
    (hP : ConcK.PeakAtMost p hooks routine ops c (hkOf hkv) (layout ls) args Pk (progMaxAlloc p * fuel + 1)) :
    ∃ n0 X0, StepsN (layout ls) c n0 (initMS c (hkOf hkv) routine args) X0 ∧
      X0.σ.maxHeap ≤ c.heapBytes ∧
      BChain (layout ls) c
        (fun st X => BoundaryOf p hooks routine ops c (hkOf hkv) (layout ls) st X ∧
          ∃ below inUse, HeapShapeAt c X.σ below inUse ∧ below ≤ Pk + 1 ∧ inUse ≤ Pk)
        (statesOf p fuel ⟨d0.ctx, args.map .int, d0.body⟩) X0 := by
  obtain ⟨_, _, n0, X0, h0, hch⟩ := ConcK.programs_prefix_gen p args hooks body routine nargs d0 ops c' hsafe
    htp hprog hcompM hfit hcompX hnd hd hentry hlen hcap fuel hfuel c H hb8 hb0 Pk (progMaxAlloc p)
    (allocLe_progMaxAlloc p) hbytes (Ref.K.holdsB_layout hl) hfitX (ConcK.peakHyp_of_peakAtMost hP)
  exact ⟨n0, X0, h0, ConcK.mstepsN_mhw h0 (ConcK.mhwOK_entry c args), ConcK.bchain_shape_peak hP _ X0 n0 h0 hch⟩

/-! ## the run under the footprint bound -/

/-- THEOREM A ∘ THEOREM B FOR ALL PROGRAMS UNDER THE FOOTPRINT BOUND, on the program laid out from any lines that
are the routine, side hypotheses explicit: `C07_programs` with its room hypothesis `128 + 64·141·fuel ≤ heapBytes`
replaced by `64·(Pk + A + 2) ≤ heapBytes` and the peak hypothesis — a heap that holds the peak is enough for a run
of any length; and the machine's record of the highest heap address written stays inside the heap region. -/
theorem C10_a64_programs_lines (p : AxCut.Prog) (args : List Word) (hooks : Bool) (body routine : List Code)
    (nargs : Nat) (d0 : Def) (ops : List MockOp) (c' : Nat)
    (hsafe : LabelSafe p = true) (htp : LinTypedProg p) (hprog : ∀ d ∈ p.types, d.xtors.length ≤ 1024)
    (hcompM : (compile mockSym hooks p).run 0 = .ok ((ops, nargs), c')) (hfit : CodeFits ops)
    (hcompX : compileProg a64Backend p hooks 0 = .ok (body, nargs, routine))
    (hnd : (labs routine).Nodup)
    (hd : p.defs.head? = some d0) (hentry : ∀ b ∈ d0.ctx, b.chi = .ext ∧ b.ty = .i64)
    (hlen : d0.ctx.length = args.length)
    (hcap : ∀ st, Reachable p ⟨d0.ctx, args.map .int, d0.body⟩ st → 2 * st.ctx.length ≤ 280)
    (fuel : Nat) (out : List (Bool × Word)) (v : Word) (hfuel : fuel + 1 < 2 ^ 64)
    (hrun : Pos.run p args fuel = ⟨out, .done v⟩)
    (cfg : MonCfg) (H : CfgCC cfg.mem) (hheap : cfg.heap = false)
    (hb8 : cfg.mem.heapBase % 8 = 0) (hb0 : 0 < cfg.mem.heapBase)
    (Pk : Nat) (hbytes : 64 * (Pk + progMaxAlloc p + 2) ≤ cfg.mem.heapBytes)
    (hfitX : cfg.mem.codeBase + 4 * ninstr routine < 2 ^ 64)
    (hkv : String → Option (List (String × Kind))) (ls : List (Nat × PLine)) (hl : Lines hkv ls routine)
    (hP : ConcK.PeakAtMost p hooks routine ops cfg.mem (hkOf hkv) (layout ls) args Pk
      (progMaxAlloc p * fuel + 1)) :
    ∃ fuel', (runProg (layout ls) args fuel' cfg).out = out ∧ (runProg (layout ls) args fuel' cfg).res = .done v ∧
      (runProg (layout ls) args fuel' cfg).maxHeapWritten ≤ cfg.mem.heapBytes := by
  obtain ⟨N, _, h2⟩ := ConcK.programs_done_gen p args hooks body routine nargs d0 ops c' hsafe htp hprog hcompM hfit
    hcompX hnd hd hentry hlen hcap fuel out v hfuel hrun cfg H hheap hb8 hb0 Pk (progMaxAlloc p)
    (allocLe_progMaxAlloc p) hbytes (Ref.K.holdsB_layout hl) hfitX (ConcK.peakHyp_of_peakAtMost hP)
  exact ⟨N + 1, (h2 (N + 1) (by omega)).1, (h2 (N + 1) (by omega)).2, ConcK.runProg_mhw _ args _ cfg hheap⟩

/-- C10, THE FOOTPRINT ON THE MACHINE, all programs, on the lines: let at no statement boundary of the run in a
heap of `64·(Pk + A + 2)` bytes more than `Pk` blocks be in use.  Then in ANY heap at least that large the run
reproduces the trace and the result of the positional machine, and the highest heap address ever written lies
at most `Pk + A + 2` blocks above the heap base — independent of the length of the run and of the size of the
heap. -/
theorem C10_a64_footprint_all_lines (p : AxCut.Prog) (args : List Word) (hooks : Bool) (body routine : List Code)
    (nargs : Nat) (d0 : Def) (ops : List MockOp) (c' : Nat)
    (hsafe : LabelSafe p = true) (htp : LinTypedProg p) (hprog : ∀ d ∈ p.types, d.xtors.length ≤ 1024)
    (hcompM : (compile mockSym hooks p).run 0 = .ok ((ops, nargs), c')) (hfit : CodeFits ops)
    (hcompX : compileProg a64Backend p hooks 0 = .ok (body, nargs, routine))
    (hnd : (labs routine).Nodup)
    (hd : p.defs.head? = some d0) (hentry : ∀ b ∈ d0.ctx, b.chi = .ext ∧ b.ty = .i64)
    (hlen : d0.ctx.length = args.length)
    (hcap : ∀ st, Reachable p ⟨d0.ctx, args.map .int, d0.body⟩ st → 2 * st.ctx.length ≤ 280)
    (fuel : Nat) (out : List (Bool × Word)) (v : Word) (hfuel : fuel + 1 < 2 ^ 64)
    (hrun : Pos.run p args fuel = ⟨out, .done v⟩)
    (cfg : MonCfg) (H : CfgCC cfg.mem) (hheap : cfg.heap = false)
    (hb8 : cfg.mem.heapBase % 8 = 0) (hb0 : 0 < cfg.mem.heapBase)
    (Pk : Nat) (hbytes : 64 * (Pk + progMaxAlloc p + 2) ≤ cfg.mem.heapBytes)
    (hfitX : cfg.mem.codeBase + 4 * ninstr routine < 2 ^ 64)
    (hkv : String → Option (List (String × Kind))) (ls : List (Nat × PLine)) (hl : Lines hkv ls routine)
    (hP : ConcK.PeakAtMost p hooks routine ops (withHeapBytes cfg (64 * (Pk + progMaxAlloc p + 2))).mem (hkOf hkv)
      (layout ls) args Pk (progMaxAlloc p * fuel + 1)) :
    ∃ fuel', (runProg (layout ls) args fuel' cfg).out = out ∧ (runProg (layout ls) args fuel' cfg).res = .done v ∧
      (runProg (layout ls) args fuel' cfg).maxHeapWritten ≤ 64 * (Pk + progMaxAlloc p + 2) := by
  obtain ⟨fuel', h1, h2, h3⟩ := C10_a64_programs_lines p args hooks body routine nargs d0 ops c' hsafe htp
    hprog hcompM hfit hcompX hnd hd hentry hlen hcap fuel out v hfuel hrun
    (withHeapBytes cfg (64 * (Pk + progMaxAlloc p + 2))) (ConcK.cfgCC_withHeapBytes H hbytes) hheap hb8 hb0 Pk
    (Nat.le_refl _) hfitX hkv ls hl hP
  have e := ConcK.runProg_larger_heap (P := layout ls) (ConcK.sub_withHeapBytes H hbytes) hheap hheap args fuel'
    (Or.inr ⟨v, h2⟩)
  exact ⟨fuel', by rw [e]; exact h1, by rw [e]; exact h2, by rw [e]; exact h3⟩

/-- THEOREM A ∘ THEOREM B FOR ALL PROGRAMS UNDER THE FOOTPRINT BOUND, ON THE TEXT OF THE ROUTINE, side hypotheses
discharged: the hypotheses of `C07_programs_text` with the room hypothesis replaced by the footprint bound (the
peak hypothesis for the mock code and the lines of the text; `fuel + 1 < 2^64`) -/
theorem C10_a64_programs (p : AxCut.Prog) (args : List Word) (hooks : Bool) (body routine : List Code)
    (nargs : Nat) (d0 : Def)
    (hsafe : LabelSafe p = true) (htp : LinTypedProg p) (hchk : C07_a64Checks p = true)
    (hcompX : compileProg a64Backend p hooks 0 = .ok (body, nargs, routine))
    (hd : p.defs.head? = some d0) (hargs : args.length = nargs)
    (fuel : Nat) (out : List (Bool × Word)) (v : Word) (hfuel : fuel + 1 < 2 ^ 64)
    (hrun : Pos.run p args fuel = ⟨out, .done v⟩)
    (cfg : MonCfg) (H : CfgCC cfg.mem) (hheap : cfg.heap = false) (hwf : cfg.wf = true → routine.length < 262144)
    (hb8 : cfg.mem.heapBase % 8 = 0) (hb0 : 0 < cfg.mem.heapBase)
    (Pk : Nat) (hbytes : 64 * (Pk + progMaxAlloc p + 2) ≤ cfg.mem.heapBytes)
    (hfitX : cfg.mem.codeBase + 4 * ninstr routine < 2 ^ 64)
    (hP : ∀ ops c' ls, (compile mockSym hooks p).run 0 = .ok ((ops, nargs), c') →
      parseText (printProg routine) = .ok ls →
      ConcK.PeakAtMost p hooks routine ops cfg.mem (hkOf hookVarsOf) (layout ls) args Pk
        (progMaxAlloc p * fuel + 1)) :
    ∃ fuel', (run (printProg routine) args fuel' cfg).out = out ∧
      (run (printProg routine) args fuel' cfg).res = .done v ∧
      (run (printProg routine) args fuel' cfg).maxHeapWritten ≤ cfg.mem.heapBytes := by
  obtain ⟨ops, c', ls, S⟩ := C07_setup_of_checks p args hooks body routine nargs d0 hsafe htp hchk hcompX hd
  obtain ⟨fuel', h1, h2, h3⟩ := C10_a64_programs_lines p args hooks body routine nargs d0 ops c' hsafe htp S.progOK
    S.compM S.fit hcompX S.nd hd S.entry (by rw [← S.nargs, hargs]) S.cap fuel out v hfuel hrun cfg H hheap hb8 hb0
    Pk hbytes hfitX hookVarsOf ls S.lines (hP ops c' ls S.compM S.parse)
  have e := C09_run_eq_runProg S.parse (C09_wf_ok hsafe htp hchk hcompX hwf) args fuel'
  exact ⟨fuel', by rw [e]; exact h1, by rw [e]; exact h2, by rw [e]; exact h3⟩

/-- C10, THE FOOTPRINT, ALL PROGRAMS, ON THE TEXT OF THE ROUTINE: the machine's entry point `run` on the printed
routine reproduces trace and result and never writes above `Pk + A + 2` blocks of its heap -/
theorem C10_a64_footprint_all (p : AxCut.Prog) (args : List Word) (hooks : Bool) (body routine : List Code)
    (nargs : Nat) (d0 : Def)
    (hsafe : LabelSafe p = true) (htp : LinTypedProg p) (hchk : C07_a64Checks p = true)
    (hcompX : compileProg a64Backend p hooks 0 = .ok (body, nargs, routine))
    (hd : p.defs.head? = some d0) (hargs : args.length = nargs)
    (fuel : Nat) (out : List (Bool × Word)) (v : Word) (hfuel : fuel + 1 < 2 ^ 64)
    (hrun : Pos.run p args fuel = ⟨out, .done v⟩)
    (cfg : MonCfg) (H : CfgCC cfg.mem) (hheap : cfg.heap = false) (hwf : cfg.wf = true → routine.length < 262144)
    (hb8 : cfg.mem.heapBase % 8 = 0) (hb0 : 0 < cfg.mem.heapBase)
    (Pk : Nat) (hbytes : 64 * (Pk + progMaxAlloc p + 2) ≤ cfg.mem.heapBytes)
    (hfitX : cfg.mem.codeBase + 4 * ninstr routine < 2 ^ 64)
    (hP : ∀ ops c' ls, (compile mockSym hooks p).run 0 = .ok ((ops, nargs), c') →
      parseText (printProg routine) = .ok ls →
      ConcK.PeakAtMost p hooks routine ops (withHeapBytes cfg (64 * (Pk + progMaxAlloc p + 2))).mem
        (hkOf hookVarsOf) (layout ls) args Pk (progMaxAlloc p * fuel + 1)) :
    ∃ fuel', (run (printProg routine) args fuel' cfg).out = out ∧
      (run (printProg routine) args fuel' cfg).res = .done v ∧
      (run (printProg routine) args fuel' cfg).maxHeapWritten ≤ 64 * (Pk + progMaxAlloc p + 2) := by
  obtain ⟨ops, c', ls, S⟩ := C07_setup_of_checks p args hooks body routine nargs d0 hsafe htp hchk hcompX hd
  obtain ⟨fuel', h1, h2, h3⟩ := C10_a64_footprint_all_lines p args hooks body routine nargs d0 ops c' hsafe htp
    S.progOK S.compM S.fit hcompX S.nd hd S.entry (by rw [← S.nargs, hargs]) S.cap fuel out v hfuel hrun cfg H hheap
    hb8 hb0 Pk hbytes hfitX hookVarsOf ls S.lines (hP ops c' ls S.compM S.parse)
  have e := C09_run_eq_runProg S.parse (C09_wf_ok hsafe htp hchk hcompX hwf) args fuel'
  exact ⟨fuel', by rw [e]; exact h1, by rw [e]; exact h2, by rw [e]; exact h3⟩

/-- with `Pk = A·fuel + 1` the peak hypothesis is trivial: the footprint of a terminating run of ANY program in
terms of its length -/
theorem C10_a64_coarse_all (p : AxCut.Prog) (args : List Word) (hooks : Bool) (body routine : List Code)
    (nargs : Nat) (d0 : Def)
    (hsafe : LabelSafe p = true) (htp : LinTypedProg p) (hchk : C07_a64Checks p = true)
    (hcompX : compileProg a64Backend p hooks 0 = .ok (body, nargs, routine))
    (hd : p.defs.head? = some d0) (hargs : args.length = nargs)
    (fuel : Nat) (out : List (Bool × Word)) (v : Word) (hfuel : fuel + 1 < 2 ^ 64)
    (hrun : Pos.run p args fuel = ⟨out, .done v⟩)
    (cfg : MonCfg) (H : CfgCC cfg.mem) (hheap : cfg.heap = false) (hwf : cfg.wf = true → routine.length < 262144)
    (hb8 : cfg.mem.heapBase % 8 = 0) (hb0 : 0 < cfg.mem.heapBase)
    (hbytes : 64 * (progMaxAlloc p * fuel + 1 + progMaxAlloc p + 2) ≤ cfg.mem.heapBytes)
    (hfitX : cfg.mem.codeBase + 4 * ninstr routine < 2 ^ 64) :
    ∃ fuel', (run (printProg routine) args fuel' cfg).out = out ∧
      (run (printProg routine) args fuel' cfg).res = .done v ∧
      (run (printProg routine) args fuel' cfg).maxHeapWritten ≤
        64 * (progMaxAlloc p * fuel + 1 + progMaxAlloc p + 2) :=
  C10_a64_footprint_all p args hooks body routine nargs d0 hsafe htp hchk hcompX hd hargs fuel out v hfuel hrun cfg
    H hheap hwf hb8 hb0 (progMaxAlloc p * fuel + 1) hbytes hfitX
    (fun _ _ _ _ _ => C10_peak_trivial_all _ _ _ _ _ _ _ _ _)

/-! ## C10 in terms of the source-level data -/

/-- C10, ALL RUNS OF ALL PROGRAMS, IN TERMS OF THE DATA OF THE POSITIONAL MACHINE, on the lines, side hypotheses
explicit: if the object and closure values held by the variables never have more than `D` fields in total (over
all reachable states of the AxCut positional machine), then in any heap of at least `64·(D + A + 2)` bytes the
machine, for every amount of fuel (below `2^64 / (M + 1)`, `M = progMaxSize p`), is still running or has returned
the result of the positional machine, and has never written above `D + A + 2` blocks of its heap. -/
theorem C10_a64_size_all_lines (p : AxCut.Prog) (args : List Word) (hooks : Bool) (body routine : List Code)
    (nargs : Nat) (d0 : Def) (ops : List MockOp) (c' : Nat)
    (hsafe : LabelSafe p = true) (htp : LinTypedProg p) (hprog : ∀ d ∈ p.types, d.xtors.length ≤ 1024)
    (hcompM : (compile mockSym hooks p).run 0 = .ok ((ops, nargs), c')) (hfit : CodeFits ops)
    (hcompX : compileProg a64Backend p hooks 0 = .ok (body, nargs, routine))
    (hnd : (labs routine).Nodup)
    (hd : p.defs.head? = some d0) (hentry : ∀ b ∈ d0.ctx, b.chi = .ext ∧ b.ty = .i64)
    (hlen : d0.ctx.length = args.length)
    (hcap : ∀ st, Reachable p ⟨d0.ctx, args.map .int, d0.body⟩ st → 2 * st.ctx.length ≤ 280)
    (hnostuck : ∀ fuel w, (Pos.run p args fuel).res ≠ .stuck w)
    (D : Nat) (hD : ∀ st, Reachable p ⟨d0.ctx, args.map .int, d0.body⟩ st → valsFields st.env ≤ D)
    (cfg : MonCfg) (H : CfgCC cfg.mem) (hheap : cfg.heap = false)
    (hb8 : cfg.mem.heapBase % 8 = 0) (hb0 : 0 < cfg.mem.heapBase)
    (hbytes : 64 * (D + progMaxAlloc p + 2) ≤ cfg.mem.heapBytes)
    (hfitX : cfg.mem.codeBase + 4 * ninstr routine < 2 ^ 64)
    (hkv : String → Option (List (String × Kind))) (ls : List (Nat × PLine)) (hl : Lines hkv ls routine)
    (fuel' : Nat) (hf : fuel' * (progMaxSize p + 1) + stmtSize d0.body + 1 < 2 ^ 64) :
    ((runProg (layout ls) args fuel' cfg).res = .outOfFuel ∨
      ∃ v out, Pos.run p args (fuel' * (progMaxSize p + 1) + stmtSize d0.body) = ⟨out, .done v⟩ ∧
        (runProg (layout ls) args fuel' cfg).res = .done v) ∧
    (runProg (layout ls) args fuel' cfg).maxHeapWritten ≤ 64 * (D + progMaxAlloc p + 2) :=
  ConcK.programs_dsize_all p args hooks body routine nargs d0 ops c' hsafe htp hprog hcompM hfit hcompX hnd hd
    hentry hlen hcap hnostuck D hD cfg H hheap hb8 hb0 (progMaxAlloc p) (progMaxSize p) (allocLe_progMaxAlloc p)
    (stmtSize_le_progMaxSize p) hbytes (Ref.K.holdsB_layout hl) hfitX fuel' hf

/-- … ON THE TEXT OF THE ROUTINE, side hypotheses discharged -/
theorem C10_a64_size_all (p : AxCut.Prog) (args : List Word) (hooks : Bool) (body routine : List Code)
    (nargs : Nat) (d0 : Def)
    (hsafe : LabelSafe p = true) (htp : LinTypedProg p) (hchk : C07_a64Checks p = true)
    (hcompX : compileProg a64Backend p hooks 0 = .ok (body, nargs, routine))
    (hd : p.defs.head? = some d0) (hargs : args.length = nargs)
    (hnostuck : ∀ fuel w, (Pos.run p args fuel).res ≠ .stuck w)
    (D : Nat) (hD : ∀ st, Reachable p ⟨d0.ctx, args.map .int, d0.body⟩ st → valsFields st.env ≤ D)
    (cfg : MonCfg) (H : CfgCC cfg.mem) (hheap : cfg.heap = false) (hwf : cfg.wf = true → routine.length < 262144)
    (hb8 : cfg.mem.heapBase % 8 = 0) (hb0 : 0 < cfg.mem.heapBase)
    (hbytes : 64 * (D + progMaxAlloc p + 2) ≤ cfg.mem.heapBytes)
    (hfitX : cfg.mem.codeBase + 4 * ninstr routine < 2 ^ 64)
    (fuel' : Nat) (hf : fuel' * (progMaxSize p + 1) + stmtSize d0.body + 1 < 2 ^ 64) :
    ((run (printProg routine) args fuel' cfg).res = .outOfFuel ∨
      ∃ v out, Pos.run p args (fuel' * (progMaxSize p + 1) + stmtSize d0.body) = ⟨out, .done v⟩ ∧
        (run (printProg routine) args fuel' cfg).res = .done v) ∧
    (run (printProg routine) args fuel' cfg).maxHeapWritten ≤ 64 * (D + progMaxAlloc p + 2) := by
  obtain ⟨ops, c', ls, S⟩ := C07_setup_of_checks p args hooks body routine nargs d0 hsafe htp hchk hcompX hd
  rw [C09_run_eq_runProg S.parse (C09_wf_ok hsafe htp hchk hcompX hwf)]
  exact C10_a64_size_all_lines p args hooks body routine nargs d0 ops c' hsafe htp S.progOK S.compM S.fit hcompX
    S.nd hd S.entry (by rw [← S.nargs, hargs]) S.cap hnostuck D hD cfg H hheap hb8 hb0 hbytes hfitX hookVarsOf ls
    S.lines fuel' hf

/-! ### the positional machine: a run that ends with `done v` determines the result -/

/-- a run of the positional machine that has ended (not `outOfFuel`) gives the same behaviour with more fuel -/
theorem C10_runState_mono (prog : AxCut.Prog) : ∀ (fuel : Nat) (st : Pos.State) (acc : List (Bool × Word)),
    (Pos.runState prog fuel st acc).res ≠ .outOfFuel →
    ∀ k, Pos.runState prog (fuel + k) st acc = Pos.runState prog fuel st acc
  | 0, _, _, h, _ => by simp [Pos.runState] at h
  | fuel + 1, st, acc, h, k => by
    rw [show fuel + 1 + k = (fuel + k) + 1 by omega]
    simp only [Pos.runState] at h ⊢
    cases hst : Pos.step prog st with
    | stuck w => rfl
    | done v' => rfl
    | next st' o =>
      rw [hst] at h
      simp only
      exact C10_runState_mono prog fuel st' _ h k

theorem C10_run_mono (p : AxCut.Prog) (args : List Word) (f : Nat) (h : (Pos.run p args f).res ≠ .outOfFuel)
    (k : Nat) : Pos.run p args (f + k) = Pos.run p args f := by
  unfold Pos.run at h ⊢
  cases hdefs : p.defs with
  | nil => rfl
  | cons d ds =>
    rw [hdefs] at h
    simp only at h ⊢
    split
    · rfl
    · rename_i hl
      rw [if_neg hl] at h
      exact C10_runState_mono p f _ [] h k

/-- a run that ends with `done v` for some fuel never gets stuck, and `v` is its only result -/
theorem C10_done_unique {p : AxCut.Prog} {args : List Word} {f0 : Nat} {out0 : List (Bool × Word)} {v0 : Word}
    (h0 : Pos.run p args f0 = ⟨out0, .done v0⟩) :
    (∀ f w, (Pos.run p args f).res ≠ .stuck w) ∧
    (∀ f out v, Pos.run p args f = ⟨out, .done v⟩ → v = v0) := by
  have key : ∀ f, (Pos.run p args f).res ≠ .outOfFuel → Pos.run p args f = Pos.run p args f0 := by
    intro f hne
    have h1 := C10_run_mono p args f hne f0
    have h2 := C10_run_mono p args f0 (by rw [h0]; intro e; cases e) f
    rw [Nat.add_comm] at h2
    rw [← h1, h2]
  constructor
  · intro f w h
    have := key f (by rw [h]; intro e; cases e)
    rw [this, h0] at h
    cases h
  · intro f out v h
    have := key f (by rw [h]; intro e; cases e)
    rw [h, h0] at this
    injection this with _ e
    injection e

/-- the bound on the data of the environments, checked along a run that stops -/
theorem C10_dataSize_of_run (prog : AxCut.Prog) (fuel : Nat) (st0 : Pos.State) (D : Nat)
    (hstop : Scc.Props.C06Generic.stopsWithin prog fuel st0 = true)
    (hall : (Scc.Props.C06Generic.statesOf prog fuel st0).all (fun st => decide (valsFields st.env ≤ D)) = true) :
    ∀ st, Reachable prog st0 st → valsFields st.env ≤ D := by
  intro st hr
  have := Scc.Props.C06Generic.reachable_mem_statesOf prog fuel st0 st hstop hr
  rw [List.all_eq_true] at hall
  simpa using hall st this

/-! ### non-vacuity: the closure program of Props/C07A64Full.lean in the default configuration (a 32 MiB heap) -/

theorem C07_cloProg_consts : progMaxAlloc C07_cloProg = 1 ∧ progMaxSize C07_cloProg = 14 ∧
    stmtSize C07_cloMain.body = 14 := by decide

theorem C07_cloProg_compiles : ∃ b n, compileProg a64Backend C07_cloProg true 0 = .ok (b, n, C07_cloRoutine) :=
  ⟨_, _, rfl⟩

set_option maxRecDepth 100000 in
theorem C07_cloRoutine_fits : defaultMem.codeBase + 4 * ninstr C07_cloRoutine < 2 ^ 64 := by decide

theorem C07_cloProg_nargs {body : List Code} {nargs : Nat}
    (hcomp : compileProg a64Backend C07_cloProg true 0 = .ok (body, nargs, C07_cloRoutine)) :
    ([37] : List Word).length = nargs := by
  obtain ⟨c1, hcompA, _⟩ := compileProg_ok hcomp
  obtain ⟨_, _, _, _, _, _, hn2⟩ := Ref.K.compile_a64_entry hcompA (d0 := C07_cloMain) rfl
  rw [hn2]; rfl

set_option maxRecDepth 100000 in
/-- every hypothesis of `C10_a64_coarse_all` holds for the closure program started with x = 37 (one variable per
closure environment, the trivial peak `1·20 + 1`): the machine on the text of the routine prints 42, returns 42,
and never writes above 64·24 bytes of its heap -/
example : ∃ fuel',
    (run (printProg C07_cloRoutine) [37] fuel' {}).out = [(true, 42)] ∧
    (run (printProg C07_cloRoutine) [37] fuel' {}).res = .done 42 ∧
    (run (printProg C07_cloRoutine) [37] fuel' {}).maxHeapWritten ≤ 64 * (1 * 20 + 1 + 1 + 2) := by
  obtain ⟨body, nargs, hcomp⟩ := C07_cloProg_compiles
  have hrun : Pos.run C07_cloProg [37] 20 = ⟨[(true, 42)], .done 42⟩ := by decide
  have e1 := C07_cloProg_consts.1
  have key := C10_a64_coarse_all C07_cloProg [37] true body C07_cloRoutine nargs C07_cloMain
    (by decide) (linTypedCheck_sound C07_cloProg rfl) C07_cloProg_checks hcomp rfl (C07_cloProg_nargs hcomp)
    20 _ _ (by decide) hrun {} cfgCC_default rfl (fun h => nomatch h) (by decide) (by decide) (by rw [e1]; decide)
    C07_cloRoutine_fits
  rw [e1] at key
  exact key

set_option maxRecDepth 100000 in
/-- THE CLOSURE PROGRAM IN FIVE BLOCKS: for EVERY fuel below 2^58 the machine on the text of the routine is still
running or has returned 42, and it never writes above 320 bytes of its heap (`D = 2`: at no state do the
variables hold more than two fields of closure data — `g` captures `f`, which captures `x`) -/
theorem C10A_cloProg_footprint (fuel' : Nat) (hf : fuel' < 2 ^ 58) :
    ((run (printProg C07_cloRoutine) [37] fuel' {}).res = .outOfFuel ∨
      (run (printProg C07_cloRoutine) [37] fuel' {}).res = .done 42) ∧
    (run (printProg C07_cloRoutine) [37] fuel' {}).maxHeapWritten ≤ 320 := by
  obtain ⟨body, nargs, hcomp⟩ := C07_cloProg_compiles
  have hrun : Pos.run C07_cloProg [37] 20 = ⟨[(true, 42)], .done 42⟩ := by decide
  obtain ⟨e1, e2, e3⟩ := C07_cloProg_consts
  obtain ⟨hnostuck, huniq⟩ := C10_done_unique hrun
  have key := C10_a64_size_all C07_cloProg [37] true body C07_cloRoutine nargs C07_cloMain
    (by decide) (linTypedCheck_sound C07_cloProg rfl) C07_cloProg_checks hcomp rfl (C07_cloProg_nargs hcomp) hnostuck 2
    (C10_dataSize_of_run C07_cloProg 20 _ 2 (by decide) (by decide))
    {} cfgCC_default rfl (fun h => nomatch h) (by decide) (by decide) (by rw [e1]; decide) C07_cloRoutine_fits
    fuel' (by rw [e2, e3]; omega)
  rw [e1] at key
  refine ⟨?_, key.2⟩
  rcases key.1 with h | ⟨v, out, hdone, h⟩
  · exact Or.inl h
  · right
    rw [huniq _ out v hdone] at h
    exact h

theorem C13A_cloLoop_nargs {body : List Code} {nargs : Nat}
    (hcomp : compileProg a64Backend C13A_cloLoopProg true 0 = .ok (body, nargs, C13A_cloLoopRoutine)) :
    ([5] : List Word).length = nargs := by
  obtain ⟨c1, hcompA, _⟩ := compileProg_ok hcomp
  obtain ⟨_, _, _, _, _, _, hn2⟩ := Ref.K.compile_a64_entry hcompA (d0 := C13A_cloLoopMain) rfl
  rw [hn2]; rfl

/-- THE CLOSURE LOOP RUNS FOREVER IN FOUR BLOCKS: `main(x) { create f = (x){ Ap(a) => main(a) }; lit n <- 5;
invoke f Ap(n) }` (Props/C09A64All.lean), started with x = 5 in the default configuration (a 32 MiB heap): for
EVERY fuel below 2^59 the machine on the TEXT of the routine is still running (`outOfFuel`: it never faults and
never returns) and the highest heap address it has written lies at most 256 bytes above the heap base — the
environment block of the closure is reused in every round: space independent of the number of repetitions. -/
theorem C10A_cloLoop_constant_space (fuel' : Nat) (hf : fuel' < 2 ^ 59) :
    (run (printProg C13A_cloLoopRoutine) [5] fuel' {}).res = .outOfFuel ∧
    (run (printProg C13A_cloLoopRoutine) [5] fuel' {}).maxHeapWritten ≤ 256 := by
  obtain ⟨body, nargs, hcomp⟩ := C13A_cloLoop_compiles
  obtain ⟨e1, e2, e3⟩ := C13A_cloLoop_consts
  have key := C10_a64_size_all C13A_cloLoopProg [5] true body C13A_cloLoopRoutine nargs C13A_cloLoopMain
    (by decide) (linTypedCheck_sound C13A_cloLoopProg rfl) C13A_cloLoopProg_checks hcomp rfl (C13A_cloLoop_nargs hcomp)
    C13A_cloLoop_nostuck 1 C13A_cloLoop_size
    {} cfgCC_default rfl (fun h => nomatch h) (by decide) (by decide) (by rw [e1]; decide) C13A_cloLoopRoutine_fits
    fuel' (by rw [e2, e3]; omega)
  rw [e1] at key
  refine ⟨?_, key.2⟩
  rcases key.1 with h | ⟨v, out, hdone, _⟩
  · exact h
  · exfalso
    have hrs : Pos.run C13A_cloLoopProg [5] (fuel' * (progMaxSize C13A_cloLoopProg + 1) + stmtSize C13A_cloLoopMain.body) =
        Pos.runState C13A_cloLoopProg _ C13A_cloS0 [] := Scc.X86.Conc.run_eq_runState rfl rfl _
    have := (C13A_cloLoop_runs (fuel' * (progMaxSize C13A_cloLoopProg + 1) + stmtSize C13A_cloLoopMain.body) []).1
    rw [← hrs, hdone] at this
    cases this

end Scc.A64

#print axioms Scc.A64.C10_peak_trivial_all
#print axioms Scc.A64.C10_a64_frontier_bound_all
#print axioms Scc.A64.C10_a64_every_prefix_all
#print axioms Scc.A64.C10_a64_programs_lines
#print axioms Scc.A64.C10_a64_footprint_all_lines
#print axioms Scc.A64.C10_a64_programs
#print axioms Scc.A64.C10_a64_footprint_all
#print axioms Scc.A64.C10_a64_coarse_all
#print axioms Scc.A64.C10_a64_size_all_lines
#print axioms Scc.A64.C10_a64_size_all
#print axioms Scc.A64.C10A_cloProg_footprint
#print axioms Scc.A64.C10A_cloLoop_constant_space
