/-
  Scc.Props.C04Sem — the semantic part of C04 with the focused-Core machine of `Scc/Core/Sem.lean`
  plugged in.

  * `C04_sem`  (THEOREM, = `C04_sem_statement`)  shrinking preserves behaviour: for every focused Core
      program accepted by `wtFsScopedCheck`, `uniqueIdsCheck`, `idsBoundedCheck`, `mainIntParams` whose first
      definition is `main`, every argument list and all fuel, `Core.fsRun` on the program and
      `AxCut.Named.run` on its image under `shrinkProg` have the same trace and result (`SameBehaviour`, both
      directions; stuck states and arithmetic faults correspond).  Covers all arms of `FsCut::shrink`
      including the lifting of critical pairs and the sharing of leaf statements.
      Proof files: `Scc/Core2AxCut/Sem{Rel,Run,Lemmas,Sim,SimCut,Subst,Ren,Fv,Tr,Lift,TrCut,Prog}.lean`.
  * `C04_sem_nolift`  (THEOREM)  the fragment without lifting (`noLiftCheck`), delivered first.
  * `C04_full_statement`  (`def … : Prop`, kept visible) is FALSE as it stands: `C04_full_statement_false`.
      It lacks exactly the two side conditions added in `C04_sem_statement`, both decidable, both satisfied
      by every S3 dump of the corpus (238 programs, evaluated):
        - `idsBoundedCheck`: parameter and binder ids `≤ p.maxId` (counterexample `C04SemCounter.prog2`);
        - `mainIntParams`: the parameters of `main` are integer producers (counterexample `C04Example.prog`
          with the argument list `[5]`).
      Neither is a defect of /repo: the dumps of the real pipeline satisfy both.
  Earlier evidence (testing): `Core.fsRun` on the S3 dump and `AxCut.Named.run` on the model's S4 agree on
  157 runs over the 29 corpus programs that have a `main` (tools/semcmp.py), and S4 = harness S4 on all.
-/
import Scc.Props.C04
import Scc.Core.Sem
import Scc.Core2AxCut.SemProg

namespace Scc.Props
open Scc.Core2AxCut

/-- the behaviour of the Core machine in the vocabulary of the AxCut machine -/
def coreBehaviour (b : Core.Behaviour) : AxCut.Named.Behaviour :=
  ⟨b.out, match b.res with
    | .done v => .done v
    | .stuck w => .stuck w.render
    | .outOfFuel => .outOfFuel⟩

def coreFsRun (p : Core.FsProg) (args : List (BitVec 64)) (fuel : Nat) : AxCut.Named.Behaviour :=
  coreBehaviour (Core.fsRun p args fuel)

/-- C04, full statement: for every well-typed focused Core program with unique binder ids whose first
    definition is `main`, the Core machine on the program and the named AxCut machine on its image under
    shrinking have the same behaviour (same trace and result whenever either of them finishes). -/
def C04_full_statement : Prop := C04_statement coreFsRun

/-! ## an instance, checked by evaluation: `main() { ⟨ μb.⟨Nil | b⟩ | μ~l. print x… ⟩ }` needs
parameters, so a closed variant is used: `⟨5 | μ~x. ⟨ μb.⟨Nil|b⟩ | μ~l. print x; exit x ⟩ ⟩` -/

namespace C04SemExample
open Scc

def x1 : Core.Ident := ⟨"x", 1⟩
def l3 : Core.Ident := ⟨"l", 3⟩
def b4 : Core.Ident := ⟨"b", 4⟩
def listTy : Core.Ty := .decl ⟨"List", 0⟩
def listDecl : Core.TypeDecl :=
  ⟨⟨"List", 0⟩, [⟨⟨"Nil", 0⟩, []⟩, ⟨⟨"Cons", 0⟩, [⟨⟨"x", 0⟩, .prd, .i64⟩, ⟨⟨"xs", 0⟩, .prd, listTy⟩]⟩]⟩
def body : Core.FsStmt :=
  .cut .i64 (.lit 5) (.mu .cns x1 .i64
    (.cut listTy (.mu .prd b4 listTy (.cut listTy (.xtor .prd ⟨"Nil", 0⟩ [] listTy) (.var .cns b4 listTy)))
      (.mu .cns l3 listTy (.print true x1 (.exit x1)))))
def prog : Core.FsProg := ⟨[⟨⟨"main", 0⟩, [], body⟩], [listDecl], [], 4⟩

example : wtFsScopedCheck prog = true ∧ uniqueIdsCheck prog = true := by decide
example : ∃ d ds, prog.defs = d :: ds ∧ d.name.name = "main" := ⟨_, _, rfl, rfl⟩
example : (shrinkProg prog).toOption.map (fun q => q.defs.length) = some 2 := by decide
-- both machines print 5 and finish with 5 (the critical pair at `List` is lifted to `lift_main_`)
example : (coreFsRun prog [] 50).out = [(true, 5#64)] := by decide
example : (shrinkProg prog).toOption.map (fun q => (AxCut.Named.run q [] 50).out) = some [(true, 5#64)] := by
  decide

end C04SemExample

/-! ## the semantic theorem -/

/-- C04, semantic statement as proved: `C04_full_statement` with two further decidable hypotheses that
    every program of the pipeline satisfies and without which the statement is false
    (`C04_full_statement_false`):
    * `idsBoundedCheck p`: the parameter and binder ids of `p` are `≤ p.maxId` (`uniqueIdsCheck` only says
      that they are pairwise distinct; `fresh_identifier` draws `max_id + 1`, so a counter that is too small
      makes the fresh names of `shrink_literal_var` etc. capture program variables);
    * `mainIntParams p`: the parameters of `main` are integer producers (the Core machine binds a consumer
      parameter of `main` to `halt` without taking an argument, the AxCut machine expects one argument per
      parameter). -/
def C04_sem_statement : Prop :=
  ∀ (p : Core.FsProg) (q : AxCut.Prog) (args : List (BitVec 64)),
    wtFsScopedCheck p = true → uniqueIdsCheck p = true → idsBoundedCheck p = true → mainIntParams p = true →
    (∃ d ds, p.defs = d :: ds ∧ d.name.name = "main") → shrinkProg p = .ok q →
    SameBehaviour (coreFsRun p args) (AxCut.Named.run q args)

/-- from the run-level correspondence of `Scc/Core2AxCut/SemProg.lean` to `SameBehaviour` -/
theorem sameBehaviour_of_runs {p : Core.FsProg} {q : AxCut.Prog} {args : List (BitVec 64)}
    (h1 : ∀ n, Sem.CFin (Core.fsRun p args n).res →
      ∃ m, (AxCut.Named.run q args m).out = (Core.fsRun p args n).out ∧
        Sem.ResMatch (Core.fsRun p args n).res (AxCut.Named.run q args m).res)
    (h2 : ∀ m, Sem.Fin (AxCut.Named.run q args m).res →
      ∃ n, (Core.fsRun p args n).out = (AxCut.Named.run q args m).out ∧
        Sem.ResMatch (Core.fsRun p args n).res (AxCut.Named.run q args m).res) :
    SameBehaviour (coreFsRun p args) (AxCut.Named.run q args) := by
  constructor
  · intro n hfin
    have hc : Sem.CFin (Core.fsRun p args n).res := by
      simp only [coreFsRun, coreBehaviour] at hfin
      cases hr : (Core.fsRun p args n).res with
      | done v => exact .inl ⟨v, rfl⟩
      | stuck w => exact .inr ⟨w, rfl⟩
      | outOfFuel => simp [hr] at hfin
    obtain ⟨m, ho, hm⟩ := h1 n hc
    refine ⟨m, by simpa [coreFsRun, coreBehaviour] using ho, ?_⟩
    simp only [coreFsRun, coreBehaviour]
    cases hr : (Core.fsRun p args n).res with
    | done v =>
      rw [hr] at hm
      exact .inl ⟨v, rfl, hm⟩
    | stuck w =>
      rw [hr] at hm
      exact .inr ⟨⟨_, rfl⟩, hm⟩
    | outOfFuel => rw [hr] at hm; cases hm
  · intro m hfin
    obtain ⟨n, ho, hm⟩ := h2 m hfin
    refine ⟨n, by simpa [coreFsRun, coreBehaviour] using ho, ?_⟩
    simp only [coreFsRun, coreBehaviour]
    cases hr : (Core.fsRun p args n).res with
    | done v =>
      rw [hr] at hm
      exact .inl ⟨v, hm, rfl⟩
    | stuck w =>
      rw [hr] at hm
      exact .inr ⟨hm, ⟨_, rfl⟩⟩
    | outOfFuel => rw [hr] at hm; cases hm

/-- C04_sem: semantic preservation of shrinking (`C04_sem_statement`), for all programs, arguments and
    fuel: on every well-typed, well-scoped focused Core program with unique binder ids bounded by `maxId`
    whose first definition is `main` with integer parameters, the focused Core machine on `p` and the named
    AxCut machine on `shrinkProg p` have the same trace and result, in both directions.
    Proof: a forward simulation (`Scc/Core2AxCut/SemSimCut.lean: sim_tr`) for the translation judgment `Tr`
    (one Core step is matched by `k ≥ 0` AxCut steps; `k = 0` only for renaming and known cuts, which make the
    statement smaller), `shrinkStmt ⊆ Tr` (`SemTrCut.lean: shrinkStmt_tr`, including the lifting of critical
    pairs, `SemLift.lean: lift_tr`, and the closure of `Tr` under the AxCut-side substitution of
    `criticalClauses`, `SemSubst.lean: Tr.axSubst`), determinism of both machines (`SemRun.lean`). -/
theorem C04_sem : C04_sem_statement := by
  intro p q args hwt hu hb hint hmain h
  obtain ⟨h1, h2⟩ := Sem.sem_runs args hwt hu hb hint hmain h
  exact sameBehaviour_of_runs h1 h2

/-- C04_sem_nolift: the fragment WITHOUT lifting (delivered first; now a corollary of `C04_sem`) — programs in
    which every critical pair `⟨μa.s1 | μ~x.s2⟩` at a declared type satisfies the sharing condition of
    `shrink_critical_pairs` (at most one xtor, or the expanded side is a leaf), so that `lift` is never
    called (`noLiftCheck`). -/
theorem C04_sem_nolift (p : Core.FsProg) (q : AxCut.Prog) (args : List (BitVec 64))
    (hwt : wtFsScopedCheck p = true) (hu : uniqueIdsCheck p = true) (hb : idsBoundedCheck p = true)
    (hint : mainIntParams p = true) (_hnl : noLiftCheck p = true)
    (hmain : ∃ d ds, p.defs = d :: ds ∧ d.name.name = "main") (h : shrinkProg p = .ok q) :
    SameBehaviour (coreFsRun p args) (AxCut.Named.run q args) :=
  C04_sem p q args hwt hu hb hint hmain h

/-! ### non-vacuity of `C04_sem`: `C04SemExample.prog` (the critical pair at `List` is lifted to
`lift_main__6`, which receives the free variable `x` as its parameter `x_5`) satisfies all hypotheses -/

example : wtFsScopedCheck C04SemExample.prog = true ∧ uniqueIdsCheck C04SemExample.prog = true ∧
    idsBoundedCheck C04SemExample.prog = true ∧ mainIntParams C04SemExample.prog = true ∧
    noLiftCheck C04SemExample.prog = false := by decide
example : (shrinkProg C04SemExample.prog).toOption.map (fun q => q.defs.map (·.ctx.length)) = some [0, 1] := by
  decide

/-! ### non-vacuity of `C04_sem_nolift`: a critical pair at the two-constructor type `List` whose
expanded side is the leaf `exit x` (shared, not lifted), inside a `μ~` that binds an integer -/

namespace C04SemNoLiftExample
open Scc C04SemExample

def body : Core.FsStmt :=
  .cut .i64 (.lit 5) (.mu .cns x1 .i64
    (.cut listTy (.mu .prd b4 listTy (.cut listTy (.xtor .prd ⟨"Nil", 0⟩ [] listTy) (.var .cns b4 listTy)))
      (.mu .cns l3 listTy (.exit x1))))
def prog : Core.FsProg := ⟨[⟨⟨"main", 0⟩, [], body⟩], [listDecl], [], 4⟩

example : wtFsScopedCheck prog = true ∧ uniqueIdsCheck prog = true ∧ idsBoundedCheck prog = true ∧
    mainIntParams prog = true ∧ noLiftCheck prog = true := by decide
example : ∃ d ds, prog.defs = d :: ds ∧ d.name.name = "main" := ⟨_, _, rfl, rfl⟩
example : (shrinkProg prog).toOption.map (fun q => q.defs.length) = some 1 := by decide
example : (coreFsRun prog [] 50).out = [] ∧ (Core.fsRun prog [] 50).res = .done 5#64 := by decide

end C04SemNoLiftExample

/-! ## the full statement is false as it stands -/

/-- `C04_full_statement` does not hold: `C04Example.prog` (`main(x; a)` with a consumer parameter `a`)
    satisfies its hypotheses; on the argument list `[5]` the Core machine binds `a` to `halt`, prints 5 and
    finishes with 5, while the AxCut machine refuses to start (`main: arity`: two parameters, one argument).
    A second counterexample, with `main()` closed but `maxId = 0` smaller than the ids in use, is
    `C04SemCounter.prog2` below (checked by evaluation). -/
theorem C04_full_statement_false : ¬ C04_full_statement := by
  intro hfull
  obtain ⟨q, hq⟩ := C04_no_panic C04Example.prog (by decide)
  have hsame := hfull C04Example.prog q [5#64] (by decide) (by decide) ⟨_, _, rfl, rfl⟩ hq
  have hres : (Core.fsRun C04Example.prog [5#64] 50).res = .done 5#64 := by decide
  have hout : (Core.fsRun C04Example.prog [5#64] 50).out = [(true, 5#64)] := by decide
  obtain ⟨m, ho, _⟩ := hsame.1 50 (.inl ⟨5#64, by simp [coreFsRun, coreBehaviour, hres]⟩)
  have hl : q.defs.head?.map (fun d => d.ctx.length) = some 2 := by
    have : (shrinkProg C04Example.prog).toOption.map (fun q => q.defs.head?.map (fun d => d.ctx.length)) =
        some (some 2) := by decide
    rw [hq] at this
    simpa [Except.toOption] using this
  have hax : (AxCut.Named.run q [5#64] m).out = [] := by
    simp only [AxCut.Named.run]
    cases hd : q.defs with
    | nil => rfl
    | cons d' rest =>
      simp only [hd, List.head?_cons, Option.map_some, Option.some.injEq] at hl
      simp only
      rw [Sem.bindParams_none d'.ctx _ (by simp [hl])]
  rw [hax] at ho
  simp [coreFsRun, coreBehaviour, hout] at ho

namespace C04SemCounter
open Scc

def a1 : Core.Ident := ⟨"a", 1⟩
def x2 : Core.Ident := ⟨"x", 2⟩
/-- `main() { ⟨ μa1.⟨3 | a1⟩ | μ~x2. exit x2 ⟩ }` with `maxId = 0`: `shrink_literal_var` draws the fresh
    variable `x_1`, which has the id of `a1` -/
def body2 : Core.FsStmt :=
  .cut .i64 (.mu .prd a1 .i64 (.cut .i64 (.lit 3) (.var .cns a1 .i64))) (.mu .cns x2 .i64 (.exit x2))
def prog2 : Core.FsProg := ⟨[⟨⟨"main", 0⟩, [], body2⟩], [], [], 0⟩

example : wtFsScopedCheck prog2 = true ∧ uniqueIdsCheck prog2 = true ∧ idsBoundedCheck prog2 = false := by decide
example : (Core.fsRun prog2 [] 50).res = .done 3#64 := by decide
-- the AxCut machine is stuck (`invoke: not a closure`): its trace is empty and it never prints or finishes
example : (shrinkProg prog2).toOption.map (fun q => (AxCut.Named.run q [] 50).out) = some [] := by decide

end C04SemCounter

end Scc.Props

#print axioms Scc.Props.C04_sem
#print axioms Scc.Props.C04_sem_nolift
#print axioms Scc.Props.C04_full_statement_false
