/-
  Scc.Props.C04Sem — the full statement of C04 with the focused-Core machine of `Scc/Core/Sem.lean`
  plugged in (`C04_full_statement`).  Not proved.  Evidence: `Core.fsRun` on the S3 dump and
  `AxCut.Named.run` on the model's S4 agree (trace, result, kind of stuck state) on 157 runs over the
  29 corpus programs that have a `main` (tools/semcmp.py), and S4 = harness S4 on all of them.
-/
import Scc.Props.C04
import Scc.Core.Sem

namespace Scc.Props
open Scc.Core2AxCut

/-- the behaviour of the Core machine in the vocabulary of the AxCut machine -/
def coreBehaviour (b : Core.Behaviour) : AxCut.Named.Behaviour :=
  ⟨b.out, match b.res with
    | .done v => .done v
    | .stuck w => .stuck w.render
    | .outOfFuel => .outOfFuel⟩

def coreFsRun (p : Core.FsProg) (args : List (BitVec 64)) (fuel : Nat) : AxCut.Named.Behaviour :=
  coreBehaviour (Core.fsRun p args fuel)

/-- C04, full statement: for every well-typed focused Core program with unique binder ids whose first
    definition is `main`, the Core machine on the program and the named AxCut machine on its image under
    shrinking have the same behaviour (same trace and result whenever either of them finishes). -/
def C04_full_statement : Prop := C04_statement coreFsRun

/-! ## an instance, checked by evaluation: `main() { ⟨ μb.⟨Nil | b⟩ | μ~l. print x… ⟩ }` needs
parameters, so a closed variant is used: `⟨5 | μ~x. ⟨ μb.⟨Nil|b⟩ | μ~l. print x; exit x ⟩ ⟩` -/

namespace C04SemExample
open Scc

def x1 : Core.Ident := ⟨"x", 1⟩
def l3 : Core.Ident := ⟨"l", 3⟩
def b4 : Core.Ident := ⟨"b", 4⟩
def listTy : Core.Ty := .decl ⟨"List", 0⟩
def listDecl : Core.TypeDecl :=
  ⟨⟨"List", 0⟩, [⟨⟨"Nil", 0⟩, []⟩, ⟨⟨"Cons", 0⟩, [⟨⟨"x", 0⟩, .prd, .i64⟩, ⟨⟨"xs", 0⟩, .prd, listTy⟩]⟩]⟩
def body : Core.FsStmt :=
  .cut .i64 (.lit 5) (.mu .cns x1 .i64
    (.cut listTy (.mu .prd b4 listTy (.cut listTy (.xtor .prd ⟨"Nil", 0⟩ [] listTy) (.var .cns b4 listTy)))
      (.mu .cns l3 listTy (.print true x1 (.exit x1)))))
def prog : Core.FsProg := ⟨[⟨⟨"main", 0⟩, [], body⟩], [listDecl], [], 4⟩

example : wtFsScopedCheck prog = true ∧ uniqueIdsCheck prog = true := by decide
example : ∃ d ds, prog.defs = d :: ds ∧ d.name.name = "main" := ⟨_, _, rfl, rfl⟩
example : (shrinkProg prog).toOption.map (fun q => q.defs.length) = some 2 := by decide
-- both machines print 5 and finish with 5 (the critical pair at `List` is lifted to `lift_main_`)
example : (coreFsRun prog [] 50).out = [(true, 5#64)] := by decide
example : (shrinkProg prog).toOption.map (fun q => (AxCut.Named.run q [] 50).out) = some [(true, 5#64)] := by
  decide

end C04SemExample

end Scc.Props
