/-
  Scc.Props.C13X86Div — property C13 (calling convention), DYNAMIC part, for ALL PROGRAMS on x86-64, WITHOUT THE
  HYPOTHESIS THAT THE POSITIONAL MACHINE DOES NOT GET STUCK: the extension of Props/C13X86All.lean to runs that
  divide by zero or overflow a division (the port of Props/C13A64Div.lean; AUDIT.md, entry C13_cc_never_fires_all (a)).

  `C13_allowed` (Props/C13X86.lean) permits, besides `done v` and `outOfFuel`, the faults `div-by-zero` and
  `div-overflow`.  The theorems of Props/C13X86All.lean assume `hnostuck : ∀ fuel w, (Pos.run p args fuel).res ≠
  .stuck w` — which excludes division by zero and MIN / −1, and these do NOT follow from typing.  Here that
  hypothesis is REMOVED: the positional machine of a linearly typed program gets stuck only at an `op` whose operator
  is undefined (`Pos.runState_safe`, `Pos.stuck_op`); the x86-64 machine runs — without any fault — through the
  backup dance of code.rs `div` / `rem` (`mov rcx, rdx; mov t, rax; mov rax, s1; cqo`) to the `idiv` of that `op`
  (`op_fault`, Scc/X86/ConcKDiv.lean: every placement of target and operands in registers and spill slots, the
  divisor in rdx included), and the `idiv` faults with `div-by-zero` resp. `div-overflow` (`Ref.K.step3_stuck`,
  `ConcK.run3_stuck`, `ConcK.programs_all_fuel_div`, Scc/X86/ConcKStuck.lean).

  PROVED (axioms propext, Classical.choice, Quot.sound):
  * `C13_x86_outcome_div`   under the hypotheses of `C13_cc_never_fires_all` WITHOUT `hnostuck`: for EVERY machine
        fuel (below `2^64 / (M + 1)`) and EVERY setting of the heap monitor, `run (printProg routine)` ends in
        `outOfFuel`, `done v`, `fault div-by-zero`, `fault div-overflow`, or (heap monitor on) a report of the heap
        monitor — NOTHING ELSE (no `cc-violation`, `misaligned-call`, `ret-to-non-sentinel`, `read-undefined …`,
        `idiv-rdx-not-sign-extension`, …).  `C13_x86_outcome_div_size`: the heap hypothesis on the source program
        (hypotheses of `C13_cc_never_fires_all_size` without `hnostuck`).
  * `C13_x86_cc_never_fires_div`, `C13_x86_cc_never_fires_div_size`   hence the calling-convention monitor never
        fires (`CCSafe`), and with the heap monitor off the result is an outcome `C13_allowed` permits.
  * `C13_x86_div_agrees`, `C13_x86_div_agrees_size`   with the heap monitor off the machine's outcome is that of the
        positional machine: `done v` only if the positional machine returns `v`, a division fault only if it is
        stuck on that division, with the SAME kind (`divByZero` ↦ `div-by-zero`, `overflow` ↦ `div-overflow`).
  * NON-VACUITY: `C13X_divProg` (main(x) { lit z <- 0; q <- x / z; exit q }) — for every fuel below 2^58 the machine
        is out of fuel or ends in `fault div-by-zero`, never in `done` (`C13X_div_faults`; `#eval`: the fault, at line 38 of
        the text, after 16 instructions); every hypothesis of the
        theorems holds for it, heap monitor on (`example`).
  WHAT REMAINS of `C13_statement`: machine fuel beyond `2^64 / (M + 1)`, the hypotheses `LabelSafe` and
  `C06_x86Checks`, the sane machine configurations, and the peak / data-size hypothesis.
-/
import Scc.Props.C13X86All
import Scc.X86.ConcKStuck

namespace Scc.X86
open Scc.AxCut Scc.AxCut.Pos Scc.Backend Scc.Backend.Abs Scc.Backend.Sim Scc.X86.Ref
open Scc.X86.CC (CCSafe)
open Scc.Props.C06Generic (Reachable CodeFits)
open Scc.Props.C14Generic (LabelSafe)
open Scc.X86.Ref.K (AllocLe progMaxAlloc allocLe_progMaxAlloc)
open Scc.X86.Conc (stmtSize progMaxSize stmtSize_le_progMaxSize valsFields monOff runItems_monitor_indep)

/-- the outcomes of the machine, whatever the positional machine does -/
def C13_x86_divOutcome (heap : Bool) (r : Res) : Prop :=
  r = .outOfFuel ∨ (∃ v, r = .done v) ∨ (∃ ln, r = .fault "div-by-zero" ln) ∨ (∃ ln, r = .fault "div-overflow" ln) ∨
    ∃ what ln, heap = true ∧ r = .invFail what ln

theorem C13_x86_safe_of_divOutcome {heap : Bool} {r : Res} (h : C13_x86_divOutcome heap r) :
    CCSafe r ∧ (heap = false → C13_allowed r) := by
  rcases h with h | ⟨v, h⟩ | ⟨ln, h⟩ | ⟨ln, h⟩ | ⟨e, ln, hh, h⟩
  · rw [h]; exact ⟨trivial, fun _ => trivial⟩
  · rw [h]; exact ⟨trivial, fun _ => trivial⟩
  · rw [h]; exact ⟨⟨by decide, by decide⟩, fun _ => Or.inl rfl⟩
  · rw [h]; exact ⟨⟨by decide, by decide⟩, fun _ => Or.inr (Or.inl rfl)⟩
  · rw [h]; exact ⟨trivial, fun h0 => by rw [hh] at h0; cases h0⟩

/-- the three-way outcome, relative to the positional machine -/
def C13_x86_agrees (p : AxCut.Prog) (args : List Word) (n : Nat) (r : Res) : Prop :=
  r = .outOfFuel ∨
    (∃ v out, Pos.run p args n = ⟨out, .done v⟩ ∧ r = .done v) ∨
    ∃ w out ln, Pos.run p args n = ⟨out, .stuck w⟩ ∧ (w = .divByZero ∨ w = .overflow) ∧ r = .fault (divFault w) ln

/-- the outcome of a run with an arbitrary heap-monitor flag from the outcome with the monitor off -/
theorem C13_x86_div_of_monOff {p : AxCut.Prog} {n : Nat} {items : List (Code × Nat)} {args : List Word} {fuel' : Nat}
    {cfg : MonCfg} (hoff : C13_x86_agrees p args n (runItems items args fuel' (monOff cfg)).res) :
    C13_x86_divOutcome cfg.heap (runItems items args fuel' cfg).res := by
  have hoff' : C13_x86_divOutcome false (runItems items args fuel' (monOff cfg)).res := by
    rcases hoff with h | ⟨v, _, _, h⟩ | ⟨w, _, ln, _, hw, h⟩
    · exact Or.inl h
    · exact Or.inr (Or.inl ⟨v, h⟩)
    · rcases hw with rfl | rfl
      · exact Or.inr (Or.inr (Or.inl ⟨ln, h⟩))
      · exact Or.inr (Or.inr (Or.inr (Or.inl ⟨ln, h⟩)))
  cases hh : cfg.heap with
  | false =>
    have e : monOff cfg = cfg := by
      cases cfg; simp only [monOff] at *; rw [hh]
    rw [e] at hoff'
    exact hoff'
  | true =>
    rcases runItems_monitor_indep items args fuel' cfg with h1 | ⟨e, ln, h1⟩
    · rw [h1]
      rcases hoff' with h | h | h | h | ⟨_, _, h, _⟩
      · exact Or.inl h
      · exact Or.inr (Or.inl h)
      · exact Or.inr (Or.inr (Or.inl h))
      · exact Or.inr (Or.inr (Or.inr (Or.inl h)))
      · cases h
    · exact Or.inr (Or.inr (Or.inr (Or.inr ⟨e, ln, rfl, h1⟩)))

/-! ## the footprint form: the hypotheses of `C13_cc_never_fires_all` without `hnostuck` -/

/-- WITH THE HEAP MONITOR OFF, ALL PROGRAMS, ALL RUNS, WHATEVER THE POSITIONAL MACHINE DOES, on the text: the
machine's outcome is that of the positional machine — out of fuel, the result, or the division fault of the same
kind -/
theorem C13_x86_div_agrees (p : AxCut.Prog) (args : List Word) (hooks : Bool) (body routine : List Code)
    (nargs : Nat) (d0 : Def)
    (hsafe : LabelSafe p = true) (htp : LinTypedProg p) (hchk : C06_x86Checks p = true)
    (hcompX : compileX86 p hooks 0 = .ok (body, nargs)) (hrout : intoRoutine body nargs = .ok routine)
    (hd : p.defs.head? = some d0) (hargs : args.length = nargs)
    (cfg : MonCfg) (MO : MachOK cfg.mach) (hk : cfg.consts = consts) (hheap : cfg.heap = false)
    (hb8 : cfg.mach.heapBase % 8 = 0) (hb0 : 0 < cfg.mach.heapBase)
    (Pk : Nat) (hbytes : 64 * (Pk + progMaxAlloc p + 2) ≤ cfg.mach.heapBytes)
    (hfitX : addrAt cfg.mach.codeBase routine routine.length < 2 ^ 64)
    (fuel' : Nat) (hf : fuel' * (progMaxSize p + 1) + stmtSize d0.body + 1 < 2 ^ 64)
    (hP : ∀ ops c' items, (compile mockSym hooks p).run 0 = .ok ((ops, nargs), c') →
      parseText (printProg routine) = .ok items → ConcK.PeakAtMost p hooks routine ops cfg items args Pk
        (progMaxAlloc p * (fuel' * (progMaxSize p + 1) + stmtSize d0.body) + 1)) :
    C13_x86_agrees p args (fuel' * (progMaxSize p + 1) + stmtSize d0.body)
      (run (printProg routine) args fuel' cfg).res := by
  obtain ⟨ops, c', items, S⟩ := C06_setup_of_checks p args hooks body routine nargs d0 hsafe htp hchk hcompX hrout hd
  rw [run_eq_runItems S.parse]
  exact ConcK.programs_all_fuel_div p args hooks body routine nargs d0 ops c' hsafe htp S.progOK S.compM S.fit
    hcompX hrout S.nd hd S.entry (by rw [← S.nargs, hargs]) S.cap cfg MO hheap hb8 hb0 Pk (progMaxAlloc p)
    (progMaxSize p) (allocLe_progMaxAlloc p) (stmtSize_le_progMaxSize p) hbytes items S.items hfitX fuel' hf
    (ConcK.peakHyp_of_peakAtMost hk (hP ops c' items S.compM S.parse))

/-- THE OUTCOMES, ALL PROGRAMS, ALL RUNS, EVERY SETTING OF THE HEAP MONITOR, WHATEVER THE POSITIONAL MACHINE DOES:
the hypotheses of `C13_cc_never_fires_all` WITHOUT `hnostuck`.  A stuck positional run is a division fault of the
machine at its `idiv`, nothing else. -/
theorem C13_x86_outcome_div (p : AxCut.Prog) (args : List Word) (hooks : Bool) (body routine : List Code)
    (nargs : Nat) (d0 : Def)
    (hsafe : LabelSafe p = true) (htp : LinTypedProg p) (hchk : C06_x86Checks p = true)
    (hcompX : compileX86 p hooks 0 = .ok (body, nargs)) (hrout : intoRoutine body nargs = .ok routine)
    (hd : p.defs.head? = some d0) (hargs : args.length = nargs)
    (cfg : MonCfg) (MO : MachOK cfg.mach) (hk : cfg.consts = consts)
    (hb8 : cfg.mach.heapBase % 8 = 0) (hb0 : 0 < cfg.mach.heapBase)
    (Pk : Nat) (hbytes : 64 * (Pk + progMaxAlloc p + 2) ≤ cfg.mach.heapBytes)
    (hfitX : addrAt cfg.mach.codeBase routine routine.length < 2 ^ 64)
    (fuel' : Nat) (hf : fuel' * (progMaxSize p + 1) + stmtSize d0.body + 1 < 2 ^ 64)
    (hP : ∀ ops c' items, (compile mockSym hooks p).run 0 = .ok ((ops, nargs), c') →
      parseText (printProg routine) = .ok items → ConcK.PeakAtMost p hooks routine ops cfg items args Pk
        (progMaxAlloc p * (fuel' * (progMaxSize p + 1) + stmtSize d0.body) + 1)) :
    C13_x86_divOutcome cfg.heap (run (printProg routine) args fuel' cfg).res := by
  obtain ⟨ops, c', items, S⟩ := C06_setup_of_checks p args hooks body routine nargs d0 hsafe htp hchk hcompX hrout hd
  rw [run_eq_runItems S.parse]
  have hPoff : ConcK.PeakAtMost p hooks routine ops (monOff cfg) items args Pk
      (progMaxAlloc p * (fuel' * (progMaxSize p + 1) + stmtSize d0.body) + 1) := by
    intro n X st hn hB below inUse hsh hb
    have hn' : stepN cfg (mkProg cfg.mach items) n (initState cfg.mach args 6) = .inl X := by
      rw [← Conc.stepN_monOff]; exact hn
    exact hP ops c' items S.compM S.parse n X st hn' hB below inUse hsh hb
  exact C13_x86_div_of_monOff (ConcK.programs_all_fuel_div p args hooks body routine nargs d0 ops c' hsafe htp
    S.progOK S.compM S.fit hcompX hrout S.nd hd S.entry (by rw [← S.nargs, hargs]) S.cap (monOff cfg) MO rfl hb8 hb0
    Pk (progMaxAlloc p) (progMaxSize p) (allocLe_progMaxAlloc p) (stmtSize_le_progMaxSize p) hbytes items S.items
    hfitX fuel' hf (ConcK.peakHyp_of_peakAtMost (cfg := monOff cfg) hk hPoff))

/-- C13 (b) FOR ALL PROGRAMS, ALL RUNS, WHATEVER THE POSITIONAL MACHINE DOES: `C13_cc_never_fires_all` WITHOUT
`hnostuck`.  The calling-convention monitor never fires, whatever the machine fuel (below `2^64 / (M + 1)`) and the
monitor configuration; with the heap monitor off the result is an outcome `C13_allowed` permits (`done`, `outOfFuel`,
`div-by-zero`, `div-overflow`). -/
theorem C13_x86_cc_never_fires_div (p : AxCut.Prog) (args : List Word) (hooks : Bool) (body routine : List Code)
    (nargs : Nat) (d0 : Def)
    (hsafe : LabelSafe p = true) (htp : LinTypedProg p) (hchk : C06_x86Checks p = true)
    (hcompX : compileX86 p hooks 0 = .ok (body, nargs)) (hrout : intoRoutine body nargs = .ok routine)
    (hd : p.defs.head? = some d0) (hargs : args.length = nargs)
    (cfg : MonCfg) (MO : MachOK cfg.mach) (hk : cfg.consts = consts)
    (hb8 : cfg.mach.heapBase % 8 = 0) (hb0 : 0 < cfg.mach.heapBase)
    (Pk : Nat) (hbytes : 64 * (Pk + progMaxAlloc p + 2) ≤ cfg.mach.heapBytes)
    (hfitX : addrAt cfg.mach.codeBase routine routine.length < 2 ^ 64)
    (fuel' : Nat) (hf : fuel' * (progMaxSize p + 1) + stmtSize d0.body + 1 < 2 ^ 64)
    (hP : ∀ ops c' items, (compile mockSym hooks p).run 0 = .ok ((ops, nargs), c') →
      parseText (printProg routine) = .ok items → ConcK.PeakAtMost p hooks routine ops cfg items args Pk
        (progMaxAlloc p * (fuel' * (progMaxSize p + 1) + stmtSize d0.body) + 1)) :
    CCSafe (run (printProg routine) args fuel' cfg).res ∧
      (cfg.heap = false → C13_allowed (run (printProg routine) args fuel' cfg).res) :=
  C13_x86_safe_of_divOutcome (C13_x86_outcome_div p args hooks body routine nargs d0 hsafe htp hchk hcompX hrout hd
    hargs cfg MO hk hb8 hb0 Pk hbytes hfitX fuel' hf hP)

/-! ## the data-size form: the hypotheses of `C13_cc_never_fires_all_size` without `hnostuck` -/

/-- … heap hypothesis on the SOURCE PROGRAM (heap monitor off): the machine's outcome is the positional machine's -/
theorem C13_x86_div_agrees_size (p : AxCut.Prog) (args : List Word) (hooks : Bool) (body routine : List Code)
    (nargs : Nat) (d0 : Def)
    (hsafe : LabelSafe p = true) (htp : LinTypedProg p) (hchk : C06_x86Checks p = true)
    (hcompX : compileX86 p hooks 0 = .ok (body, nargs)) (hrout : intoRoutine body nargs = .ok routine)
    (hd : p.defs.head? = some d0) (hargs : args.length = nargs)
    (D : Nat) (hD : ∀ st, Reachable p ⟨d0.ctx, args.map .int, d0.body⟩ st → valsFields st.env ≤ D)
    (cfg : MonCfg) (MO : MachOK cfg.mach) (hheap : cfg.heap = false)
    (hb8 : cfg.mach.heapBase % 8 = 0) (hb0 : 0 < cfg.mach.heapBase)
    (hbytes : 64 * (D + progMaxAlloc p + 2) ≤ cfg.mach.heapBytes)
    (hfitX : addrAt cfg.mach.codeBase routine routine.length < 2 ^ 64)
    (fuel' : Nat) (hf : fuel' * (progMaxSize p + 1) + stmtSize d0.body + 1 < 2 ^ 64) :
    C13_x86_agrees p args (fuel' * (progMaxSize p + 1) + stmtSize d0.body)
      (run (printProg routine) args fuel' cfg).res := by
  obtain ⟨ops, c', items, S⟩ := C06_setup_of_checks p args hooks body routine nargs d0 hsafe htp hchk hcompX hrout hd
  rw [run_eq_runItems S.parse]
  exact ConcK.programs_dsize_div p args hooks body routine nargs d0 ops c' hsafe htp S.progOK S.compM S.fit
    hcompX hrout S.nd hd S.entry (by rw [← S.nargs, hargs]) S.cap D hD cfg MO hheap hb8 hb0 (progMaxAlloc p)
    (progMaxSize p) (allocLe_progMaxAlloc p) (stmtSize_le_progMaxSize p) hbytes items S.items hfitX fuel' hf

/-- … the outcomes, every setting of the heap monitor -/
theorem C13_x86_outcome_div_size (p : AxCut.Prog) (args : List Word) (hooks : Bool) (body routine : List Code)
    (nargs : Nat) (d0 : Def)
    (hsafe : LabelSafe p = true) (htp : LinTypedProg p) (hchk : C06_x86Checks p = true)
    (hcompX : compileX86 p hooks 0 = .ok (body, nargs)) (hrout : intoRoutine body nargs = .ok routine)
    (hd : p.defs.head? = some d0) (hargs : args.length = nargs)
    (D : Nat) (hD : ∀ st, Reachable p ⟨d0.ctx, args.map .int, d0.body⟩ st → valsFields st.env ≤ D)
    (cfg : MonCfg) (MO : MachOK cfg.mach)
    (hb8 : cfg.mach.heapBase % 8 = 0) (hb0 : 0 < cfg.mach.heapBase)
    (hbytes : 64 * (D + progMaxAlloc p + 2) ≤ cfg.mach.heapBytes)
    (hfitX : addrAt cfg.mach.codeBase routine routine.length < 2 ^ 64)
    (fuel' : Nat) (hf : fuel' * (progMaxSize p + 1) + stmtSize d0.body + 1 < 2 ^ 64) :
    C13_x86_divOutcome cfg.heap (run (printProg routine) args fuel' cfg).res := by
  obtain ⟨ops, c', items, S⟩ := C06_setup_of_checks p args hooks body routine nargs d0 hsafe htp hchk hcompX hrout hd
  rw [run_eq_runItems S.parse]
  exact C13_x86_div_of_monOff (ConcK.programs_dsize_div p args hooks body routine nargs d0 ops c' hsafe htp S.progOK
    S.compM S.fit hcompX hrout S.nd hd S.entry (by rw [← S.nargs, hargs]) S.cap D hD (monOff cfg) MO rfl hb8 hb0
    (progMaxAlloc p) (progMaxSize p) (allocLe_progMaxAlloc p) (stmtSize_le_progMaxSize p) hbytes items S.items
    hfitX fuel' hf)

/-- C13 (b) FOR ALL PROGRAMS, ALL RUNS, heap hypothesis on the SOURCE PROGRAM, WHATEVER THE POSITIONAL MACHINE DOES:
`C13_cc_never_fires_all_size` WITHOUT `hnostuck` -/
theorem C13_x86_cc_never_fires_div_size (p : AxCut.Prog) (args : List Word) (hooks : Bool)
    (body routine : List Code) (nargs : Nat) (d0 : Def)
    (hsafe : LabelSafe p = true) (htp : LinTypedProg p) (hchk : C06_x86Checks p = true)
    (hcompX : compileX86 p hooks 0 = .ok (body, nargs)) (hrout : intoRoutine body nargs = .ok routine)
    (hd : p.defs.head? = some d0) (hargs : args.length = nargs)
    (D : Nat) (hD : ∀ st, Reachable p ⟨d0.ctx, args.map .int, d0.body⟩ st → valsFields st.env ≤ D)
    (cfg : MonCfg) (MO : MachOK cfg.mach)
    (hb8 : cfg.mach.heapBase % 8 = 0) (hb0 : 0 < cfg.mach.heapBase)
    (hbytes : 64 * (D + progMaxAlloc p + 2) ≤ cfg.mach.heapBytes)
    (hfitX : addrAt cfg.mach.codeBase routine routine.length < 2 ^ 64)
    (fuel' : Nat) (hf : fuel' * (progMaxSize p + 1) + stmtSize d0.body + 1 < 2 ^ 64) :
    CCSafe (run (printProg routine) args fuel' cfg).res ∧
      (cfg.heap = false → C13_allowed (run (printProg routine) args fuel' cfg).res) :=
  C13_x86_safe_of_divOutcome (C13_x86_outcome_div_size p args hooks body routine nargs d0 hsafe htp hchk hcompX hrout
    hd hargs D hD cfg MO hb8 hb0 hbytes hfitX fuel' hf)

/-! ## non-vacuity: a division by zero -/

/-- main(x) { lit z <- 0; q <- x / z; exit q } -/
def C13X_divMain : Def :=
  { name := ⟨"main", 0⟩, ctx := [⟨⟨"x", 1⟩, .ext, .i64⟩],
    body := .lit ⟨"z", 2⟩ 0 (.op ⟨"q", 3⟩ ⟨"x", 1⟩ .div ⟨"z", 2⟩ (.exit ⟨"q", 3⟩) none) none }

def C13X_divProg : AxCut.Prog := { defs := [C13X_divMain], types := [], maxId := 204 }

def C13X_divBody : List Code :=
  match compileX86 C13X_divProg true 0 with
  | .ok (body, _) => body
  | .error _ => []

def C13X_divRoutine : List Code :=
  match intoRoutine C13X_divBody 1 with
  | .ok r => r
  | .error _ => []

/-- the positional machine is stuck on the division -/
theorem C13X_div_stuck : Pos.run C13X_divProg [7] 5 = ⟨[], .stuck .divByZero⟩ := by decide

/-- with at least two units of fuel the positional machine is stuck on the division -/
theorem C13X_div_run (k : Nat) : Pos.run C13X_divProg [7] (k + 2) = ⟨[], .stuck .divByZero⟩ := rfl

set_option maxRecDepth 100000 in
theorem C13X_divProg_checks : C06_x86Checks C13X_divProg = true := by decide +kernel

set_option maxRecDepth 100000 in
theorem C13X_divRoutine_fits :
    addrAt ({} : MachCfg).codeBase C13X_divRoutine C13X_divRoutine.length < 2 ^ 64 := by decide

theorem C13X_div_consts : progMaxAlloc C13X_divProg = 0 ∧ progMaxSize C13X_divProg = 3 ∧
    stmtSize C13X_divMain.body = 3 := by decide

/-- the two states of the run (started with x = 7) hold no object or closure -/
theorem C13X_div_size : ∀ st, Reachable C13X_divProg ⟨C13X_divMain.ctx, [7].map .int, C13X_divMain.body⟩ st →
    valsFields st.env ≤ 0 :=
  C10_dataSize_of_run C13X_divProg 5 _ 0 (by decide) (by decide)

/-- every hypothesis of `C13_x86_cc_never_fires_div_size` holds for the division by zero, heap monitor on -/
example (fuel' : Nat) (hf : fuel' < 2 ^ 58) :
    CCSafe (run (printProg C13X_divRoutine) [7] fuel' { heap := true }).res := by
  obtain ⟨e1, e2, e3⟩ := C13X_div_consts
  exact (C13_x86_cc_never_fires_div_size C13X_divProg [7] true C13X_divBody C13X_divRoutine 1 C13X_divMain
    (by decide) (linTypedCheck_sound C13X_divProg rfl) C13X_divProg_checks rfl rfl rfl rfl 0 C13X_div_size
    { heap := true } machOK_default (by decide) (by decide) (by rw [e1]; decide) C13X_divRoutine_fits
    fuel' (by rw [e2, e3]; omega)).1

/-- THE MACHINE FAULTS WHERE THE POSITIONAL MACHINE IS STUCK: on the TEXT of the routine of `main(x) { z <- 0;
q <- x / z; exit q }`, started with x = 7 in the default configuration, the machine is out of fuel or ends in the
fault `div-by-zero` — for EVERY fuel below 2^58 (never `done`: the positional machine is stuck after two steps) -/
theorem C13X_div_faults (fuel' : Nat) (hf : fuel' < 2 ^ 58) :
    (run (printProg C13X_divRoutine) [7] fuel' {}).res = .outOfFuel ∨
      ∃ ln, (run (printProg C13X_divRoutine) [7] fuel' {}).res = .fault "div-by-zero" ln := by
  obtain ⟨e1, e2, e3⟩ := C13X_div_consts
  rcases C13_x86_div_agrees_size C13X_divProg [7] true C13X_divBody C13X_divRoutine 1 C13X_divMain
    (by decide) (linTypedCheck_sound C13X_divProg rfl) C13X_divProg_checks rfl rfl rfl rfl 0 C13X_div_size
    {} machOK_default rfl (by decide) (by decide) (by rw [e1]; decide) C13X_divRoutine_fits
    fuel' (by rw [e2, e3]; omega) with h | ⟨v, out, hr, _⟩ | ⟨w, out, ln, hr, _, h⟩
  · exact Or.inl h
  · exfalso
    rw [e2, e3, show fuel' * (3 + 1) + 3 = (fuel' * 4 + 1) + 2 by omega, C13X_div_run] at hr
    cases hr
  · right
    rw [e2, e3, show fuel' * (3 + 1) + 3 = (fuel' * 4 + 1) + 2 by omega, C13X_div_run] at hr
    injection hr with _ hr
    injection hr with hr
    subst hr
    exact ⟨ln, h⟩

end Scc.X86

#print axioms Scc.X86.C13_x86_div_agrees
#print axioms Scc.X86.C13_x86_outcome_div
#print axioms Scc.X86.C13_x86_cc_never_fires_div
#print axioms Scc.X86.C13_x86_div_agrees_size
#print axioms Scc.X86.C13_x86_outcome_div_size
#print axioms Scc.X86.C13_x86_cc_never_fires_div_size
#print axioms Scc.X86.C13X_div_faults
