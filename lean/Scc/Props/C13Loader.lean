/-
  Scc.Props.C13Loader — C13 (calling convention) for x86-64 on the TEXT of the routine of an integer
  program WITHOUT the loader hypothesis: `C13_cc_never_fires_int_text` (Props/C13X86.lean) takes
  `TextLoads routine`; by `C14_routine_loads` (Props/C14Loader.lean: the print → parse round trip of
  every routine of the backend model) it follows from `ProgInRange` and the decidable names check
  `C14_namesTextSafe`.
-/
import Scc.Props.C13X86
import Scc.Props.C14Loader

namespace Scc.X86

open Scc.AxCut
open Scc.Props.C06Generic (IntProg)
open Scc.X86.CC (CCSafe CfgCC)

/-- the calling-convention monitors of the x86-64 machine never fire on the printed routine of an integer
    program in range with text-safe names (every amount of fuel, both hook settings, every counter start) -/
theorem C13_cc_never_fires_int_loaded (p : AxCut.Prog) (htp : LinTypedProg p) (hip : IntProg p)
    (hrange : ProgInRange p) (hnames : C14_namesTextSafe p = true) (hooks : Bool)
    (c0 : Nat) (body routine : List Code) (nargs : Nat) (hc : compileX86 p hooks c0 = .ok (body, nargs))
    (hr : intoRoutine body nargs = .ok routine) (cfg : MonCfg) (H : CfgCC cfg.mach)
    (args : List Word) (fuel : Nat) :
    CCSafe (run (printProg routine) args fuel cfg).res :=
  C13_cc_never_fires_int_text p htp hip hooks c0 body routine nargs hc hr cfg H
    (C14_routine_loads hrange hnames hc hr) args fuel

/-- the counting loop of C06X86 satisfies the hypotheses -/
example : ProgInRange C06_loopProg ∧ C14_namesTextSafe C06_loopProg = true :=
  ⟨C06_loopProg_inRange, by decide⟩

end Scc.X86

#print axioms Scc.X86.C13_cc_never_fires_int_loaded
