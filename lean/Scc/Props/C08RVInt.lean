/-
  Scc.Props.C08RVInt — property C08 (RISC-V backend), THEOREM A ∘ THEOREM B FOR INTEGER PROGRAMS:
  the composition of Theorem A (Props/C06Generic.lean: AxCut positional machine ⟶ abstract backend machine on
  the mock code) with a refinement from the abstract backend machine to the RV64 SPEC machine
  (Scc/RV/Machine.lean) on the code that `RV.compileRoutine` emits (Scc/RV/Ref*.lean).

  The relation is THREE-WAY at statement boundaries (Scc/RV/RefDefs.lean: `X3`)
        AxCut positional machine  ⟷  abstract backend machine  ⟷  RV64 machine:
  position i of the abstract machine (temporaries 2i, 2i+1) is held by the registers `X(2i+4)`, `X(2i+5)`
  (there are no spills on RV64), typed by the context (an integer is the same word on both machines; the tag
  of an object is `n` resp. `4·n`, a reference an object id resp. the address of the head block, the word of a
  closure an abstract code address resp. the address `cw i` / `τ id j` of its method table), the
  abstract heap is represented by the machine memory through `HRef` (Props/C09Refine.lean) ∘ `HeapRel`
  (Props/C08RV.lean).  The code at the program counter is the code the generator emits for the current
  statement in the current context from SOME label counter (`KAt`), up to the plain comments that the
  machine's `layout` drops (hook comments are kept as items and do nothing when the heap monitor is off).

  PROVED (no `sorry`, axioms: propext, Classical.choice, Quot.sound):
  * `C08_loaded_layout`   THE LOADER at the level of parsed lines: `layout lines` succeeds unless a hook is
      malformed; the program holds the kept codes, the label table maps a label to its first definition,
      the address table an instruction address to the label standing before it / the instruction, the entry
      is the first label.
  * `C08_init`            rung 1, the initial state: the machine's entry state (`X2 = heapBase`, `X3 = X2 + 64`,
      argument i in `X(2i+5)`, empty memory) is related to the initial configuration of the abstract machine
      and to the initial state of the block-level heap.
  * `C08_lit_rv`, `C08_op_rv`, `C08_ifc_rv`, `C08_call_rv`, `C08_exit_rv`, `C08_subst_rv`   rung 2, the
      three-way simulation of the heap-free statements and of `subst` (on ARBITRARY contexts: erase / share of
      object variables against `HRef`, parallel moves of both registers of every position).
  * `C08_int_programs`    rung 3, END TO END for print-free INTEGER programs with at most 14 live variables,
      on the parsed LINES of the emitted routine: a terminating run `Pos.run … = done v` of the positional
      machine is reproduced by the RV64 machine (`runLines` = `run` after `parseText`): it reaches `cleanup`
      with `v` in `X10`.  `C08_int_programs_text`: the same for `RV.run` on the TEXT, given `C08_TextLoads`.
  KEPT AS `def : Prop`:
  * `C08_loader_statement`  the loader fact AS FIRST STATED: the machine's `parseText` reads the text printed
      by `into_rv64_routine` back, up to the text of comments, without malformed hooks.  REFUTED in
      Props/C14LoaderRV.lean (`C08_loader_statement_false`: the hypothesis `codeTextOK` is too weak — the first
      item must be a label, registers must exist, a label must not start with `//`, a `#ctx [` comment must be a
      well-formed hook).  The corrected statement `C14R_loader_statement` is PROVED there (`C14R_loader`), every
      compiled routine satisfies its hypothesis (`C14R_routine_textOK`), and `C08_programs_text_loaded` is the
      run theorem on the text without any loader hypothesis.
  * `C08_int_programs_statement`  `C08_int_programs` without its decidable side hypotheses (success of the
      mock code generator, `CodeFits`, pairwise distinct labels of the routine, routine below 2^64, `fuel + 1 < 2^64`).
-/
import Scc.RV.RefRun
import Scc.Props.C08RV

namespace Scc.RV

open Scc.AxCut Scc.AxCut.Pos Scc.Backend Scc.Backend.Abs Scc.Backend.Sim Scc.Backend.Sim2 Scc.RV.Ref
open Scc.Heap (HState)
open Scc.Heap.Refine (FrLe Room)
open Scc.Props.C06Generic (Reachable WithinCapacity CodeFits EnoughHeap IntStmt IntProg)
open Scc.Props.C14Generic (LabelSafe)

/-! ## rung 1: the loader on lines, the initial state -/

/-- THE LOADER on parsed lines -/
theorem C08_loaded_layout (lines : List (Nat × Code)) (hb : ∀ x ∈ lines, ¬ badHook x.2) :
    ∃ p, layout lines = .ok p ∧ Loaded p (keptOf lines) :=
  loaded_layout lines hb

/-- rung 1, the initial state -/
theorem C08_init {mc : MonCfg} {cw : Nat → Word} {τ : Nat → Nat → Word} {args : List Word} {regs : Array (Option Word)} {e a : Nat}
    {Γ : Ctx} (hr : entryRegs args = some regs) (hlen : Γ.length = args.length)
    (hext : ∀ b ∈ Γ, b.chi = .ext) (hcap : Γ.length ≤ 14) (htop : heapBase + mc.heapBytes ≤ 2 ^ 63)
    (hl : 128 ≤ mc.heapBytes) (ι : Nat → Nat) :
    X3 mc cw τ Γ (initConfig a args) (Scc.Heap.init heapBase (heapBase + mc.heapBytes)) ι
      { regs := regs, mem := ∅, pc := e } :=
  x3_init hr hlen hext hcap htop hl ι

/-! ## rung 2: the statements -/

section Rung2

variable {mc : MonCfg} {cw : Nat → Word} {τ : Nat → Nat → Word} {p : RV.Program} {ks : List Code} (L : Loaded p ks)
  (hndL : (labs ks).Nodup) (hheap : mc.heap = false)

include L hndL hheap in
/-- THREE-WAY SIMULATION OF `lit` on RV64 -/
theorem C08_lit_rv {P : Abs.Program} {hooks : Bool} {prog : AxCut.Prog} {Γ : Ctx} {ρ : List Value} {x : Ident}
    {n : Int} {next : Stmt} {fv : FV} {cfg : Config}
    (R : RelX P hooks prog ⟨Γ, ρ, .lit x n next fv⟩ cfg)
    (hfresh : ∀ b ∈ Γ, b.var.id ≠ x.id) (hcap : 2 * (Γ.length + 1) + 2 < Mock.T_TEMP)
    {hs : HState} {ι : Nat → Nat} {st : State} (X : X3 mc cw τ Γ cfg hs ι st)
    {kx kx' : Nat} {items : List Code}
    (hrunX : (codeStatementR rvBackend hooks natRen prog.types (.lit x n next fv) Γ).run kx = .ok (items, kx'))
    (hatX : KAt ks st.pc items) :
    ∃ cfg' st', stepsTo P 1 cfg cfg' ∧ Reach p mc st st' ∧
      cfg'.out = cfg.out ∧ cfg'.next = cfg.next ∧ FrameFacts cfg cfg' Γ.length ∧
      RelX P hooks prog ⟨Γ ++ [⟨x, .ext, .i64⟩], ρ ++ [.int (BitVec.ofInt 64 n)], next⟩ cfg' ∧
      X3 mc cw τ (Γ ++ [⟨x, .ext, .i64⟩]) cfg' hs ι st' ∧
      ∃ k1 k1' items', (codeStatementR rvBackend hooks natRen prog.types next
          (Γ ++ [⟨x, .ext, .i64⟩])).run k1 = .ok (items', k1') ∧ KAt ks st'.pc items' :=
  lit_x3 L hndL hheap R hfresh hcap X hrunX hatX

include L hndL hheap in
/-- THREE-WAY SIMULATION OF `op` on RV64 -/
theorem C08_op_rv {P : Abs.Program} {hooks : Bool} {prog : AxCut.Prog} {Γ : Ctx} {ρ : List Value} {x a b : Ident}
    {o : BinOp} {next : Stmt} {fv : FV} {cfg : Config} {va vb v : Word}
    (R : RelX P hooks prog ⟨Γ, ρ, .op x a o b next fv⟩ cfg)
    (hfresh : ∀ b' ∈ Γ, b'.var.id ≠ x.id) (hcap : 2 * (Γ.length + 1) + 2 < Mock.T_TEMP)
    (ha : readInt Γ ρ a = .ok va) (hb : readInt Γ ρ b = .ok vb) (hv : Pos.evalOp o va vb = .ok v)
    {hs : HState} {ι : Nat → Nat} {st : State} (X : X3 mc cw τ Γ cfg hs ι st)
    {kx kx' : Nat} {items : List Code}
    (hrunX : (codeStatementR rvBackend hooks natRen prog.types (.op x a o b next fv) Γ).run kx = .ok (items, kx'))
    (hatX : KAt ks st.pc items) :
    ∃ cfg' st', stepsTo P 1 cfg cfg' ∧ Reach p mc st st' ∧
      cfg'.out = cfg.out ∧ cfg'.next = cfg.next ∧ FrameFacts cfg cfg' Γ.length ∧
      RelX P hooks prog ⟨Γ ++ [⟨x, .ext, .i64⟩], ρ ++ [.int v], next⟩ cfg' ∧
      X3 mc cw τ (Γ ++ [⟨x, .ext, .i64⟩]) cfg' hs ι st' ∧
      ∃ k1 k1' items', (codeStatementR rvBackend hooks natRen prog.types next
          (Γ ++ [⟨x, .ext, .i64⟩])).run k1 = .ok (items', k1') ∧ KAt ks st'.pc items' :=
  op_x3 L hndL hheap R hfresh hcap ha hb hv X hrunX hatX

include L hndL hheap in
/-- THREE-WAY SIMULATION OF `ifc` on RV64 -/
theorem C08_ifc_rv {P : Abs.Program} {hooks : Bool} {prog : AxCut.Prog} {Γ : Ctx} {ρ : List Value} {a : Ident}
    {b : Option Ident} {srt : IfSort} {t e : Stmt} {cfg : Config} {va vb : Word}
    (R : RelX P hooks prog ⟨Γ, ρ, .ifc srt a b t e⟩ cfg) (ha : readInt Γ ρ a = .ok va)
    (hb : match b with | none => vb = 0 | some b' => readInt Γ ρ b' = .ok vb)
    {hs : HState} {ι : Nat → Nat} {st : State} (X : X3 mc cw τ Γ cfg hs ι st)
    {kx kx' : Nat} {items : List Code}
    (hrunX : (codeStatementR rvBackend hooks natRen prog.types (.ifc srt a b t e) Γ).run kx = .ok (items, kx'))
    (hatX : KAt ks st.pc items) :
    ∃ cfg' st', stepsTo P 1 cfg cfg' ∧ Reach p mc st st' ∧
      cfg'.out = cfg.out ∧ cfg'.next = cfg.next ∧ FrameFacts cfg cfg' Γ.length ∧
      RelX P hooks prog ⟨Γ, ρ, if Pos.evalCmp srt va vb then t else e⟩ cfg' ∧ X3 mc cw τ Γ cfg' hs ι st' ∧
      ∃ k1 k1' items', (codeStatementR rvBackend hooks natRen prog.types
          (if Pos.evalCmp srt va vb then t else e) Γ).run k1 = .ok (items', k1') ∧ KAt ks st'.pc items' :=
  ifc_x3 L hndL hheap R ha hb X hrunX hatX

include L hndL hheap in
/-- THREE-WAY SIMULATION OF `call` on RV64 -/
theorem C08_call_rv {P : Abs.Program} {hooks : Bool} {prog : AxCut.Prog} {Γ : Ctx} {ρ : List Value} {l : Ident}
    {args : Ctx} {cfg : Config} {d : Def}
    (R : RelX P hooks prog ⟨Γ, ρ, .call l args⟩ cfg) (D : DefsAt P hooks prog) (DX : KDefsAt ks hooks prog)
    (hd : Pos.findDef prog.defs l = some d) (hchi : Pos.chiTys Γ = Pos.chiTys d.ctx)
    {hs : HState} {ι : Nat → Nat} {st : State} (X : X3 mc cw τ Γ cfg hs ι st)
    {kx kx' : Nat} {items : List Code}
    (hrunX : (codeStatementR rvBackend hooks natRen prog.types (.call l args) Γ).run kx = .ok (items, kx'))
    (hatX : KAt ks st.pc items) :
    ∃ cfg' st', stepsTo P 1 cfg cfg' ∧ Reach p mc st st' ∧
      cfg'.out = cfg.out ∧ cfg'.next = cfg.next ∧ FrameFacts cfg cfg' Γ.length ∧
      RelX P hooks prog ⟨d.ctx, ρ, d.body⟩ cfg' ∧ X3 mc cw τ d.ctx cfg' hs ι st' ∧
      ∃ k1 k1' items', (codeStatementR rvBackend hooks natRen prog.types d.body d.ctx).run k1 = .ok (items', k1') ∧
        KAt ks st'.pc items' :=
  call_x3 L hndL hheap R D DX hd hchi X hrunX hatX

include L hndL hheap in
/-- THREE-WAY SIMULATION OF `exit` on RV64: the machine reaches `cleanup` with the result in `X10` -/
theorem C08_exit_rv {P : Abs.Program} {hooks : Bool} {prog : AxCut.Prog} {Γ : Ctx} {ρ : List Value} {a : Ident}
    {cfg : Config} {v : Word}
    (R : RelX P hooks prog ⟨Γ, ρ, .exit a⟩ cfg) (ha : readInt Γ ρ a = .ok v)
    {hs : HState} {ι : Nat → Nat} {st : State} (X : X3 mc cw τ Γ cfg hs ι st)
    {kx kx' : Nat} {items : List Code}
    (hrunX : (codeStatementR rvBackend hooks natRen prog.types (.exit a) Γ).run kx = .ok (items, kx'))
    (hatX : KAt ks st.pc items) {ic : Nat} (hclean : labIdx ks "cleanup" = some ic) :
    ∃ stL, Reach p mc st stL ∧ ∀ fuel, (runLoop p mc (fuel + 1) stL).res = .done v :=
  exit_x3 L hndL hheap R ha X hrunX hatX hclean

include L hndL hheap in
/-- THREE-WAY SIMULATION OF `subst` on RV64 (arbitrary contexts: erase, share, moves) -/
theorem C08_subst_rv {P : Abs.Program} {hooks : Bool} {prog : AxCut.Prog} {Γ : Ctx} {ρ : List Value}
    {pairs : List (Binding × Ident)} {next : Stmt} {cfg : Config} {vs : List Value}
    (R : RelX P hooks prog ⟨Γ, ρ, .subst pairs next⟩ cfg)
    (hΓ : (Γ.map (·.var.id)).Nodup)
    (hnew : (pairs.map (·.1.var.id)).Nodup)
    (hold : ∀ p ∈ pairs, ∃ b ∈ Γ, b.var.id = p.2.id ∧ b.chi = p.1.chi)
    (hcap : 2 * pairs.length + 2 < Mock.T_TEMP)
    (hvs : Pos.step.build Γ ρ pairs = .ok vs)
    {hsX : HState} {ι : Nat → Nat} {st : State} (X : X3 mc cw τ Γ cfg hsX ι st)
    {kx kx' : Nat} {items : List Code}
    (hrunX : (codeStatementR rvBackend hooks natRen prog.types (.subst pairs next) Γ).run kx = .ok (items, kx'))
    (hatX : KAt ks st.pc items)
    (hcapX : pairs.length ≤ 14)
    {Q : Word → Ctx → Clauses → Prop} (CVh : CVals P hooks prog.types Q cw τ cfg.heap cfg.temps Γ ρ) :
    ∃ k cfg' st' hs', stepsTo P k cfg cfg' ∧ Reach p mc st st' ∧ FrLe hsX hs' 0 ∧
      cfg'.out = cfg.out ∧ cfg'.next = cfg.next ∧
      RelX P hooks prog ⟨pairs.map (·.1), vs, next⟩ cfg' ∧
      X3 mc (cwSubst cw Γ pairs) τ (pairs.map (·.1)) cfg' hs' ι st' ∧
      CVals P hooks prog.types Q (cwSubst cw Γ pairs) τ cfg'.heap cfg'.temps (pairs.map (·.1)) vs ∧
      ∃ k1 k1' items', (codeStatementR rvBackend hooks natRen prog.types next (pairs.map (·.1))).run k1 =
          .ok (items', k1') ∧ KAt ks st'.pc items' :=
  subst_x3 L hndL hheap R hΓ hnew hold hcap hvs X hrunX hatX hcapX CVh

end Rung2

/-! ## rung 3: integer programs -/

mutual
  /-- the statements without `print`: the only statements `step3` (Scc/RV/RefRun.lean) excludes — and it needs
  no hypothesis for that, because the RV64 backend has no code for `print` (kept from the earlier rungs, where
  closures were excluded as well) -/
  def StmtOK : Stmt → Prop
    | .lit _ _ next _ => StmtOK next
    | .op _ _ _ _ next _ => StmtOK next
    | .print _ _ _ _ => False
    | .ifc _ _ _ t e => StmtOK t ∧ StmtOK e
    | .exit _ => True
    | .call _ _ => True
    | .subst _ next => StmtOK next
    | .letS _ _ _ _ next _ => StmtOK next
    | .switch _ _ clauses _ => ClausesOK clauses
    | .create _ _ _ clauses next _ _ => StmtOK next ∧ ClausesOK clauses
    | .invoke _ _ _ _ => True
  def ClausesOK : Clauses → Prop
    | .nil => True
    | .cons _ _ body rest => StmtOK body ∧ ClausesOK rest
end

/-- print-free integer statements contain no `print` -/
theorem stmtOK_of_int : ∀ (s : Stmt), IntStmt s → printFreeStmt s = true → StmtOK s
  | .lit _ _ next _, h, hp => by
    simp only [IntStmt, printFreeStmt] at h hp; simp only [StmtOK]; exact stmtOK_of_int next h hp
  | .op _ _ _ _ next _, h, hp => by
    simp only [IntStmt, printFreeStmt] at h hp; simp only [StmtOK]; exact stmtOK_of_int next h hp
  | .print _ _ _ _, _, hp => by simp [printFreeStmt] at hp
  | .ifc _ _ _ t e, h, hp => by
    simp only [IntStmt, printFreeStmt, Bool.and_eq_true] at h hp
    simp only [StmtOK]
    exact ⟨stmtOK_of_int t h.1 hp.1, stmtOK_of_int e h.2 hp.2⟩
  | .exit _, _, _ => by simp only [StmtOK]
  | .call _ _, _, _ => by simp only [StmtOK]
  | .subst _ next, h, hp => by
    simp only [IntStmt, printFreeStmt] at h hp; simp only [StmtOK]; exact stmtOK_of_int next h hp
  | .letS _ _ _ _ _ _, h, _ => by simp [IntStmt] at h
  | .switch _ _ _ _, h, _ => by simp [IntStmt] at h
  | .create _ _ _ _ _ _ _, h, _ => by simp [IntStmt] at h
  | .invoke _ _ _ _, h, _ => by simp [IntStmt] at h

/-- THEOREM A ∘ THEOREM B FOR INTEGER PROGRAMS (print-free, at most 14 variables at every reachable state), on
the parsed LINES of the emitted routine: a terminating run of the AxCut positional machine with result `v` is
reproduced by the RV64 SPEC machine started at the first label: it reaches `cleanup` with `v` in `X10`.
`lines`: any line list that agrees with the emitted routine (header comments `hdr`, the emitted instructions,
the label `cleanup`) up to the text of comments and has no malformed hook comment.  Side hypotheses (all
decidable on the program, the emitted code or the machine configuration): the mock code generator succeeds
and its code fits the address space (`hcompM`, `hfit`: Theorem A), the labels of the routine are pairwise
distinct (`hnd`), the routine ends below 2^64 (`hfitX`), the heap monitor is off, the heap region lies below 2^63 and has 64·15 bytes per step. -/
theorem C08_int_programs (p : AxCut.Prog) (args : List Word) (hooks : Bool) (instrs hdr : List Code)
    (nargs cX : Nat) (d0 : Def) (ops : List MockOp) (c' : Nat)
    (hsafe : LabelSafe p = true) (htp : LinTypedProg p) (hip : IntProg p) (hpf : PrintFree p)
    (hcompM : (compile mockSym hooks p).run 0 = .ok ((ops, nargs), c')) (hfit : CodeFits ops)
    (hcompX : (compile rvBackend hooks p).run 0 = .ok ((instrs, nargs), cX))
    (hnd : (labs (instrs ++ [Code.LAB "cleanup"])).Nodup) (hfitX : codeBase + 4 * instrs.length < 2 ^ 64)
    (hd : p.defs.head? = some d0) (hentry : ∀ b ∈ d0.ctx, b.chi = .ext ∧ b.ty = .i64)
    (hcap : ∀ st, Reachable p ⟨d0.ctx, args.map .int, d0.body⟩ st → st.ctx.length ≤ maxVariables)
    (fuel : Nat) (v : Word) (hfuel : fuel + 1 < 2 ^ 64)
    (hrun : (Pos.run p args fuel).res = .done v)
    (mc : MonCfg) (hheap : mc.heap = false) (htop : heapBase + mc.heapBytes ≤ 2 ^ 63)
    (hbytes : 128 + 64 * 15 * fuel ≤ mc.heapBytes)
    (lines : List (Nat × Code)) (hhdr : ∀ c ∈ hdr, c.isComment = true)
    (hlines : (lines.map (·.2)).map stripC = (hdr ++ instrs ++ [Code.LAB "cleanup"]).map stripC)
    (hhook : ∀ x ∈ lines, ¬ badHook x.2) :
    ∃ fuel', (runLines lines args fuel' mc).res = .done v :=
  programs_lines p args hooks instrs hdr nargs cX d0 ops c' hsafe htp
    hcompM hfit hcompX hnd hfitX hd hentry hcap fuel v
    hfuel hrun mc hheap htop hbytes lines hhdr hlines hhook

/-- the text of a routine LOADS: the machine's parser reads the printed routine back, up to the text of
comments (the first line is the comment `// actual code`), and no hook comment is malformed -/
def C08_TextLoads (instrs : List Code) : Prop :=
  ∃ lines, parseText (intoRoutine instrs) = .ok lines ∧
    (lines.map (·.2)).map stripC = ([Code.COMMENT "actual code"] ++ instrs ++ [Code.LAB "cleanup"]).map stripC ∧
    ∀ x ∈ lines, ¬ badHook x.2

/-- rung 3 on the TEXT: `RV.run` on the text of `compileRoutine`, given that this text loads -/
theorem C08_int_programs_text (p : AxCut.Prog) (args : List Word) (hooks : Bool) (text : String)
    (nargs : Nat) (d0 : Def) (ops : List MockOp) (c' : Nat)
    (hsafe : LabelSafe p = true) (htp : LinTypedProg p) (hip : IntProg p) (hpf : PrintFree p)
    (hcompM : (compile mockSym hooks p).run 0 = .ok ((ops, nargs), c')) (hfit : CodeFits ops)
    (hcompX : compileRoutine p hooks 0 = .ok (nargs, text))
    (hnd : ∀ instrs, intoRoutine instrs = text → (labs (instrs ++ [Code.LAB "cleanup"])).Nodup ∧
      codeBase + 4 * instrs.length < 2 ^ 64)
    (hload : ∀ instrs, intoRoutine instrs = text → C08_TextLoads instrs)
    (hd : p.defs.head? = some d0) (hentry : ∀ b ∈ d0.ctx, b.chi = .ext ∧ b.ty = .i64)
    (hcap : ∀ st, Reachable p ⟨d0.ctx, args.map .int, d0.body⟩ st → st.ctx.length ≤ maxVariables)
    (fuel : Nat) (v : Word) (hfuel : fuel + 1 < 2 ^ 64)
    (hrun : (Pos.run p args fuel).res = .done v)
    (mc : MonCfg) (hheap : mc.heap = false) (hwf : mc.wf = false) (htop : heapBase + mc.heapBytes ≤ 2 ^ 63)
    (hbytes : 128 + 64 * 15 * fuel ≤ mc.heapBytes) :
    ∃ fuel', (run text args fuel' mc).res = .done v := by
  unfold compileRoutine at hcompX
  cases hx : (compile rvBackend hooks p).run 0 with
  | error e => rw [hx] at hcompX; cases hcompX
  | ok r =>
    obtain ⟨⟨instrs, nargs'⟩, cX⟩ := r
    rw [hx] at hcompX
    simp only [Except.ok.injEq, Prod.mk.injEq] at hcompX
    obtain ⟨rfl, rfl⟩ := hcompX
    obtain ⟨lines, hparse, hlines, hhook⟩ := hload instrs rfl
    obtain ⟨fuel', hf⟩ := C08_int_programs p args hooks instrs [Code.COMMENT "actual code"] nargs' cX d0 ops c'
      hsafe htp hip hpf hcompM hfit hx (hnd instrs rfl).1 (hnd instrs rfl).2 hd hentry hcap fuel v hfuel hrun mc hheap
      htop hbytes
      lines (fun c hc => by simp at hc; subst hc; rfl) hlines hhook
    exact ⟨fuel', by rw [run_eq_runLines hparse args fuel' mc hwf]; exact hf⟩

/-- an item whose printed line parses back to it (up to comment text): registers `X0..X31`, label names
without blanks, colons or line breaks (non-empty), comments without line breaks -/
def codeTextOK (code : Code) : Bool :=
  (match code with
   | .LAB l => !l.isEmpty && l.toList.all (fun c => c != ' ' && c != '\n' && c != '\t' && c != '\r')
   | .COMMENT m => m.toList.all (· != '\n')
   | _ => true) &&
  (match code.labelRef? with
   | some l => !l.isEmpty && l.toList.all (fun c => c != ' ' && c != '\n' && c != '\t' && c != '\r')
   | none => true)

/-- THE LOADER FACT AS FIRST STATED — FALSE (`C08_loader_statement_false`, Props/C14LoaderRV.lean): `codeTextOK`
does not ask for the first item to be a label (`into_rv64_routine` glues `// actual code` and the first printed item
together), for registers `X0..X31`, for labels not starting with `//`, for well-formed hooks.  The corrected
statement is `C14R_loader_statement`, proved as `C14R_loader`; every compiled routine satisfies its hypothesis. -/
def C08_loader_statement : Prop :=
  ∀ instrs : List Code, (∀ code ∈ instrs, codeTextOK code = true) → C08_TextLoads instrs

/-- `C08_int_programs` at full strength: without the side hypotheses that are not yet derived from the
others (all decidable on the program / the emitted code): success of the mock code generator and `CodeFits`,
pairwise distinct labels of the routine, `fuel + 1 < 2^64`. -/
def C08_int_programs_statement : Prop :=
  ∀ (p : AxCut.Prog) (args : List Word) (hooks : Bool) (instrs hdr : List Code) (nargs cX : Nat) (d0 : Def),
    LabelSafe p = true → LinTypedProg p → IntProg p → PrintFree p →
    (compile rvBackend hooks p).run 0 = .ok ((instrs, nargs), cX) →
    p.defs.head? = some d0 → (∀ b ∈ d0.ctx, b.chi = .ext ∧ b.ty = .i64) →
    (∀ st, Reachable p ⟨d0.ctx, args.map .int, d0.body⟩ st → st.ctx.length ≤ maxVariables) →
    ∀ (fuel : Nat) (v : Word), (Pos.run p args fuel).res = .done v →
    ∃ heapBytes, ∀ (mc : MonCfg), mc.heap = false → heapBase + mc.heapBytes ≤ 2 ^ 63 →
      heapBytes ≤ mc.heapBytes →
      ∀ (lines : List (Nat × Code)), (∀ c ∈ hdr, c.isComment = true) →
      (lines.map (·.2)).map stripC = (hdr ++ instrs ++ [Code.LAB "cleanup"]).map stripC →
      (∀ x ∈ lines, ¬ badHook x.2) →
      ∃ fuel', (runLines lines args fuel' mc).res = .done v

/-! ### non-vacuity: the counting loop through `call` -/

/-- `main(n, acc) { if n <= 0 { exit acc } else { one <- 1; n' <- n - one; acc' <- acc + n;
      subst (n := n')(acc := acc'); main(...) } }` -/
def C08_loopDef : Def :=
  { name := ⟨"main", 0⟩, ctx := [⟨⟨"n", 1⟩, .ext, .i64⟩, ⟨⟨"acc", 2⟩, .ext, .i64⟩],
    body := .ifc .le ⟨"n", 1⟩ none
      (.exit ⟨"acc", 2⟩)
      (.lit ⟨"one", 3⟩ 1 (.op ⟨"n", 4⟩ ⟨"n", 1⟩ .sub ⟨"one", 3⟩ (.op ⟨"acc", 5⟩ ⟨"acc", 2⟩ .sum ⟨"n", 1⟩
        (.subst [(⟨⟨"n", 4⟩, .ext, .i64⟩, ⟨"n", 4⟩), (⟨⟨"acc", 5⟩, .ext, .i64⟩, ⟨"acc", 5⟩)]
          (.call ⟨"main", 0⟩ [])) none) none) none) }

def C08_loopProg : AxCut.Prog := { defs := [C08_loopDef], types := [], maxId := 5 }

theorem C08_loopProg_int : IntProg C08_loopProg := by
  intro d hd
  simp only [C08_loopProg, List.mem_singleton] at hd
  subst hd
  refine ⟨?_, ?_⟩
  · intro b hb
    simp only [C08_loopDef, List.mem_cons, List.not_mem_nil, or_false] at hb
    rcases hb with rfl | rfl <;> rfl
  · simp [C08_loopDef, IntStmt]

theorem C08_loopProg_printFree : PrintFree C08_loopProg := by
  intro d hd
  simp only [C08_loopProg, List.mem_singleton] at hd
  subst hd
  rfl

def C08_loopOps : List MockOp :=
  match (compile mockSym true C08_loopProg).run 0 with
  | .ok ((code, _), _) => code
  | .error _ => []

def C08_loopInstrs : List Code :=
  match (compile rvBackend true C08_loopProg).run 0 with
  | .ok ((code, _), _) => code
  | .error _ => []

/-- capacity of all reachable states, checked on the finitely many states of a terminating run -/
theorem C08_capacity_of_run (prog : AxCut.Prog) (fuel : Nat) (st0 : Pos.State)
    (hstop : Scc.Props.C06Generic.stopsWithin prog fuel st0 = true)
    (hall : (Scc.Props.C06Generic.statesOf prog fuel st0).all (fun st => decide (st.ctx.length ≤ maxVariables)) = true) :
    ∀ st, Reachable prog st0 st → st.ctx.length ≤ maxVariables := by
  intro st hr
  have := Scc.Props.C06Generic.reachable_mem_statesOf prog fuel st0 st hstop hr
  rw [List.all_eq_true] at hall
  simpa using hall st this

/-- the canonical lines of a routine: every comment blanked (`stripC`), numbered from 1 -/
def canonLines (hdr instrs : List Code) : List (Nat × Code) :=
  ((hdr ++ instrs ++ [Code.LAB "cleanup"]).map stripC).zipIdx.map fun x => (x.2 + 1, x.1)

theorem stripC_idem (c : Code) : stripC (stripC c) = stripC c := by cases c <;> rfl

theorem canonLines_codes (hdr instrs : List Code) :
    ((canonLines hdr instrs).map (·.2)).map stripC = (hdr ++ instrs ++ [Code.LAB "cleanup"]).map stripC := by
  unfold canonLines
  simp only [List.map_map]
  have : (stripC ∘ (fun x : Nat × Code => x.2) ∘ fun x : Code × Nat => (x.2 + 1, x.1)) =
      (stripC ∘ Prod.fst) := rfl
  rw [this, ← List.map_map, List.zipIdx_map_fst, List.map_map]
  apply List.map_congr_left
  intro c _
  exact stripC_idem c

theorem parseHook_empty : parseHook "" = none := by simp [parseHook]

theorem canonLines_hooks (hdr instrs : List Code) : ∀ x ∈ canonLines hdr instrs, ¬ badHook x.2 := by
  intro x hx
  unfold canonLines at hx
  obtain ⟨y, hy, rfl⟩ := List.mem_map.1 hx
  have hy1 : y.1 ∈ (hdr ++ instrs ++ [Code.LAB "cleanup"]).map stripC := by
    have := List.mem_zipIdx hy
    simp only [Nat.zero_add] at this
    rw [this.2.2]
    exact List.getElem_mem _
  obtain ⟨c, _, hc⟩ := List.mem_map.1 hy1
  simp only
  rw [← hc]
  cases c <;> simp [stripC, badHook, parseHook_empty]

/-- the loop started with n = 3, acc = 0: every hypothesis of `C08_int_programs` holds, so the RV64 machine on
the (canonical) lines of the emitted routine reaches `cleanup` with 6 in `X10` -/
example : ∃ fuel', (runLines (canonLines [Code.COMMENT "actual code"] C08_loopInstrs) [3, 0] fuel' {}).res = .done 6 := by
  have hcompM : ∃ k, (compile mockSym true C08_loopProg).run 0 = .ok ((C08_loopOps, 2), k) := ⟨_, rfl⟩
  obtain ⟨c', hcompM⟩ := hcompM
  have hcompX : ∃ k, (compile rvBackend true C08_loopProg).run 0 = .ok ((C08_loopInstrs, 2), k) := ⟨_, rfl⟩
  obtain ⟨cX, hcompX⟩ := hcompX
  have hrun : (Pos.run C08_loopProg [3, 0] 40).res = .done 6 := by decide
  exact C08_int_programs C08_loopProg [3, 0] true C08_loopInstrs [Code.COMMENT "actual code"] 2 cX C08_loopDef
    C08_loopOps c' (by decide) (linTypedCheck_sound C08_loopProg rfl) C08_loopProg_int C08_loopProg_printFree
    hcompM (by decide) hcompX (by decide) (by decide) rfl (by decide)
    (C08_capacity_of_run C08_loopProg 40 _ (by decide) (by decide)) 40 6 (by decide) hrun {} rfl (by decide)
    (by decide) _ (fun c hc => by simp at hc; subst hc; rfl) (canonLines_codes _ _) (canonLines_hooks _ _)

end Scc.RV

#print axioms Scc.RV.C08_loaded_layout
#print axioms Scc.RV.C08_init
#print axioms Scc.RV.C08_lit_rv
#print axioms Scc.RV.C08_op_rv
#print axioms Scc.RV.C08_ifc_rv
#print axioms Scc.RV.C08_call_rv
#print axioms Scc.RV.C08_exit_rv
#print axioms Scc.RV.C08_subst_rv
#print axioms Scc.RV.C08_int_programs
#print axioms Scc.RV.C08_int_programs_text
