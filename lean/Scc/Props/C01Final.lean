/-
  Scc.Props.C01Final — property C01 (end-to-end correctness for x86-64), RE-COMPOSED with everything that
  is a theorem now (Props/C01.lean is kept as it is; this file supersedes its `C01_composition`).

  New links used here that Props/C01.lean did not have:
    C12  `C12_source_names`, `C12_facts_proved` (Props/C12Fun2CoreStrict.lean): for every source TEXT that
         parser and checker accept, with a valid `main` that is not called, the middle end succeeds and
         every fact `C12_Facts` about its stages holds — the decidable hypothesis `C01_linkChecks` of
         `C01_statement` is GONE (it was the executable stand-in for the typing links of C12);
    C12  `C12_codegenTotal…` / `Backend.Total.mock_compile_ok` (Scc/Backend/TotalMock.lean, new): the mock
         code generator of Theorem A succeeds on every linearly typed program — derived, not evaluated;
    C14  `C14_routine_loads` (Props/C14Loader.lean): the emitted text is read back by the machine's parser,
         from the range check and the NAMES check — no run of the parser;
    C06  `X86.C06_data_programs` (Props/C06X86Heap.lean): Theorem A ∘ Theorem B with the heap, for programs
         without closures;
    C02  `C02_sem_forward_link` / `C02_sem_frag` (Props/C02Sem.lean, C02SemSafe.lean): fun2core on `fragOk`.

  THE STATEMENTS
  * `C01_conclusionH p'`   the conclusion of C01 for one program, HEAP VERSION.  Like `C01_conclusion`
        (Props/C01.lean) — the middle end succeeds; `nargs = mainArity`; for every run of the source
        semantics `srcRun p' args n = ⟨t, done v⟩`: `args.length = nargs`, the x86-64 machine on the emitted
        TEXT produces trace `t` and result `v`, and the linked binary (`nativeRun`, C20) writes the decimal
        rendering of `t` and exits with `v mod 256` — but with the machines and the heap bound EXPLICIT:
        there is a number `n5` of steps of the positional AxCut machine on S5 (`Pos.run st.s5 args n5 =
        ⟨t, done v⟩`) such that the above holds on EVERY machine configuration `cfg` with
        `C01_DataMach cfg` (sane: `MachOK`; heap monitor off; `heapBase` positive and 8-aligned; `codeBase ≤
        2^63`) and `128 + 64·134·n5 ≤ cfg.mach.heapBytes` (the bound of `C06_data_programs`).
        `C01_conclusionH_onMachines`: hence the `C01_onDataMachines` form "there is a heap size such that
        on every such machine with AT LEAST that heap …".  The default configuration `{}` is a `C01_DataMach`.
  * `C01_data_fragment`    **END TO END, NO HYPOTHESIS LEFT** beyond ONE decidable predicate: for every source
        text accepted by parser and checker with a valid `main` and `C01_dataChecks p' = true`
        (Props/C01DataChecks.lean: fun2core's fragment `fragOk ∧ coreClosed`; S5 has no `create`/`invoke`;
        `C01_backChecks`), `C01_conclusionH p'`.  `noMainCall` is part of `fragOk`.
        (`C01_data_fragment_ast`: the same for ASTs, with `programNamesOk` and `C12_noContType`.)
        What is DERIVED rather than assumed: every typing fact of the stages (`C12_Facts`, incl.
        `LinTypedProg S5`), success of the middle end, success of the mock generator and equality of its
        argument count, `CodeFits` from the length check, the entry facts, the capacity of every reachable
        context from `progCap ≤ 133`, `TextLoads` from range + names, `fuel + 1 < 2^64` and the code-address
        bound from the machine configuration.
        What stays a per-program CHECK inside `C01_backChecks` (precise obstacle): `LabelSafe` (necessary:
        C14 collisions); pairwise distinct labels of the x86-64 ROUTINE (`C14Generic.labels_unique` is
        proved for the mock code only; the x86 backend draws further labels inside erase/share/store/load);
        text-safe names (not proved that every accepted program has them at S5); `progCap ≤ 133`, range,
        sizes (genuine capacity conditions).
  * THE TWO GAPS to the full statement, as `def … : Prop`:
      `C01_gap_x86`        = `C01_x86_heap_statement (fun _ => True)`: `X86.C06_data_programs` WITHOUT the
                             hypothesis `DataProg` (closures on x86-64; agent pf-x86full, `C06_programs`).
                             `C01_x86_heap_data : C01_x86_heap_statement X86.DataProg` is the proved instance.
      `C01_gap_fun2core`   fun2core beyond `fragOk` (agent pf-c02codata): clause 1 of
                             `C02_sem_full_statement` (results only) for sequenced accepted programs with a
                             valid `main` that is not called, no name `ς`, no type `_Cont`, arguments as many
                             as `main` has parameters.  `C01_gap_fun2core_of_full`: it follows from
                             `C02_sem_full_statement`.
      `C01_statement_final`  for EVERY source text accepted by parser and checker with a valid `main` that
                             is not called and `C01_backChecks p' = true`: `C01_conclusionH p'`.
      `C01_final_of (hx : C01_gap_x86) (hc : C01_gap_fun2core) : C01_statement_final` — one line when the
                             two theorems land.
        Differences between `C01_statement_final` and `C01_statement` (Props/C01.lean): source text instead
        of an AST with `programNamesOk` (an AST may contain the names `ς` / `_Cont`, on which fun2core is
        wrong at specification level: `C12_link_fun2core_false`); `C01_linkChecks` dropped (theorem);
        `C01_labelSafe` kept inside `C01_backChecks` together with the capacity / range / names / size
        conditions of Theorem B; machines: `C01_DataMach` with at least the heap bound instead of `MachOK`
        with exactly some heap size (alignment and positivity of `heapBase` are needed by the memory
        contracts of C09/C10).
  * FINDING (why the non-vacuity witness has no recursion): `C01_dataChecks` FAILS on every program in
    which `main` calls another definition: fun2core gives every definition but `main` a continuation
    parameter of the codata type `_Cont`, so S5 has a `create` at the call in `main` and an `invoke` at
    every return (`C01_recursion_needs_closures`: the tail-recursive list sum passes `C01_fragChecks` and
    `C01_backChecks` and fails `C01_dataProgB` only).  Recursion at source level therefore needs
    `C01_gap_x86`.  Not a defect of /repo.  The data fragment covers `main`-only programs: integers, data
    types, `let`, nested `case` with shared (lifted) continuations — `C01F_exSrc`.
-/
import Scc.Props.C01
import Scc.Props.C01DataChecks
import Scc.Props.C02SemSafe
import Scc.Props.C06X86Heap
import Scc.Props.C14Loader
import Scc.Props.C12Fun2CoreStrict
import Scc.Props.C12Codegen
import Scc.Backend.TotalMock

namespace Scc.Props

open Scc Scc.Pipeline
open Scc.Fun.Check (checkProgram programNamesOk)
open Scc.Props.C14Generic (LabelSafe)

/-! ## soundness of the executable predicates of Props/C01DataChecks.lean -/

mutual
  theorem C01_dataStmtB_sound : ∀ s : AxCut.Stmt, C01_dataStmtB s = true → X86.Ref.DataStmt s
    | .lit _ _ next _, h => by
      simp only [C01_dataStmtB] at h; simp only [X86.Ref.DataStmt]; exact C01_dataStmtB_sound next h
    | .op _ _ _ _ next _, h => by
      simp only [C01_dataStmtB] at h; simp only [X86.Ref.DataStmt]; exact C01_dataStmtB_sound next h
    | .print _ _ next _, h => by
      simp only [C01_dataStmtB] at h; simp only [X86.Ref.DataStmt]; exact C01_dataStmtB_sound next h
    | .ifc _ _ _ t e, h => by
      simp only [C01_dataStmtB, Bool.and_eq_true] at h
      simp only [X86.Ref.DataStmt]
      exact ⟨C01_dataStmtB_sound t h.1, C01_dataStmtB_sound e h.2⟩
    | .exit _, _ => by simp [X86.Ref.DataStmt]
    | .call _ _, _ => by simp [X86.Ref.DataStmt]
    | .subst _ next, h => by
      simp only [C01_dataStmtB] at h; simp only [X86.Ref.DataStmt]; exact C01_dataStmtB_sound next h
    | .letS _ _ _ _ next _, h => by
      simp only [C01_dataStmtB] at h; simp only [X86.Ref.DataStmt]; exact C01_dataStmtB_sound next h
    | .switch _ _ cl _, h => by
      simp only [C01_dataStmtB] at h; simp only [X86.Ref.DataStmt]; exact C01_dataClausesB_sound cl h
    | .create _ _ _ _ _ _ _, h => by simp [C01_dataStmtB] at h
    | .invoke _ _ _ _, h => by simp [C01_dataStmtB] at h
  theorem C01_dataClausesB_sound : ∀ cl : AxCut.Clauses, C01_dataClausesB cl = true →
      X86.Ref.DataClauses cl
    | .nil, _ => by simp [X86.Ref.DataClauses]
    | .cons _ _ body rest, h => by
      simp only [C01_dataClausesB, Bool.and_eq_true] at h
      simp only [X86.Ref.DataClauses]
      exact ⟨C01_dataStmtB_sound body h.1, C01_dataClausesB_sound rest h.2⟩
end

theorem C01_dataProgB_sound {q : AxCut.Prog} (h : C01_dataProgB q = true) : X86.DataProg q := by
  simp only [C01_dataProgB, List.all_eq_true] at h
  exact fun d hd => C01_dataStmtB_sound d.body (h d hd)

theorem C01_okc_eq : C01_okc = X86.Loader.okcX := by
  funext c
  rfl

/-- the names check of the driver IS the names check of C14 -/
theorem C01_namesTextSafe_eq (q : AxCut.Prog) : C01_namesTextSafe q = X86.C14_namesTextSafe q := by
  unfold C01_namesTextSafe X86.C14_namesTextSafe
  rw [C01_okc_eq]

theorem C01_labsB_eq (cs : List X86.Code) : C01_labsB cs = X86.Ref.labs cs := rfl

theorem C01_instrCount_le : ∀ ops : List Backend.MockOp, Backend.Sim.instrCount ops ≤ ops.length
  | [] => by simp [Backend.Sim.instrCount]
  | op :: r => by
    have := C01_instrCount_le r
    cases op <;> simp only [Backend.Sim.instrCount, List.length_cons] <;> omega

theorem C01_addrAt_end (base : Nat) (cs : List X86.Code) :
    X86.Ref.addrAt base cs cs.length = base + C01_routineBytes cs := by
  simp [X86.Ref.addrAt, C01_routineBytes]

/-! ## the x86-64 link with the heap: the shape of `X86.C06_data_programs`, class of programs as a parameter -/

/-- `X86.C06_data_programs` (Props/C06X86Heap.lean) with the hypothesis `DataProg p` replaced by `Q p`:
    Theorem A ∘ Theorem B on the ITEMS of the emitted routine, for the programs of the class `Q`. -/
def C01_x86_heap_statement (Q : AxCut.Prog → Prop) : Prop :=
  ∀ (p : AxCut.Prog) (args : List Word) (hooks : Bool) (body routine : List X86.Code)
    (nargs : Nat) (d0 : AxCut.Def) (ops : List Backend.MockOp) (c' : Nat),
    LabelSafe p = true → AxCut.LinTypedProg p → Q p → X86.ProgInRange p →
    (Backend.compile Backend.mockSym hooks p).run 0 = .ok ((ops, nargs), c') → C06Generic.CodeFits ops →
    X86.compileX86 p hooks 0 = .ok (body, nargs) → X86.intoRoutine body nargs = .ok routine →
    (X86.Ref.labs routine).Nodup →
    p.defs.head? = some d0 → (∀ b ∈ d0.ctx, b.chi = .ext ∧ b.ty = .i64) →
    (∀ st, C06Generic.Reachable p ⟨d0.ctx, args.map .int, d0.body⟩ st → 2 * st.ctx.length ≤ 266) →
    ∀ (fuel : Nat) (out : List (Bool × Word)) (v : Word), fuel + 1 < 2 ^ 64 →
    AxCut.Pos.run p args fuel = ⟨out, .done v⟩ →
    ∀ (cfg : X86.MonCfg), X86.Ref.MachOK cfg.mach → cfg.heap = false →
    cfg.mach.heapBase % 8 = 0 → 0 < cfg.mach.heapBase →
    128 + 64 * 134 * fuel ≤ cfg.mach.heapBytes →
    ∀ (items : List (X86.Code × Nat)), (items.map (·.1)).map X86.Ref.stripC = routine.map X86.Ref.stripC →
    X86.Ref.addrAt cfg.mach.codeBase routine routine.length < 2 ^ 64 →
    ∃ fuel', (X86.Ref.runItems items args fuel' cfg).out = out ∧ (X86.Ref.runItems items args fuel' cfg).res = .done v

/-- the instance that is a THEOREM: programs with data types, no closures -/
theorem C01_x86_heap_data : C01_x86_heap_statement X86.DataProg := by
  intro p args hooks body routine nargs d0 ops c' hsafe htp hdata hrange hcompM hfit hcompX hrout hnd hd
    hentry hcap fuel out v hfuel hrun cfg MO hheap hb8 hb0 hbytes items hitems hfitX
  exact X86.C06_data_programs p args hooks body routine nargs d0 ops c' hsafe htp hdata hrange hcompM hfit
    hcompX hrout hnd hd hentry hcap fuel out v hfuel hrun cfg MO hheap hb8 hb0 hbytes items hitems hfitX

/-- **GAP 1 — closures on x86-64**: `X86.C06_data_programs` for ALL statement forms (`create`, `invoke`
    included).  Not proved (agent pf-x86full: `C06_programs`). -/
def C01_gap_x86 : Prop := C01_x86_heap_statement fun _ => True

/-! ## machine configurations -/

/-- the machine configurations of the heap theorems: sane (`MachOK`: heap below the stack, addresses
    below 2^63, 16-aligned stack top with room for the frame), heap monitor off, the heap starts at a
    positive 8-aligned address (C09/C10: a block address is never the null reference), and the code is
    loaded in the lower half of the address space -/
structure C01_DataMach (cfg : X86.MonCfg) : Prop where
  ok : X86.Ref.MachOK cfg.mach
  monitorOff : cfg.heap = false
  heapAligned : cfg.mach.heapBase % 8 = 0
  heapPos : 0 < cfg.mach.heapBase
  codeLow : cfg.mach.codeBase ≤ 2 ^ 63

/-- the default configuration (the C driver's: 32 MiB of heap at 0x10000000) is one -/
theorem C01_dataMach_default : C01_DataMach {} :=
  ⟨X86.Ref.machOK_default, rfl, by decide, by decide, by decide⟩

/-- "given enough heap": there is a heap size such that on every `C01_DataMach` with AT LEAST that heap,
    `P cfg m` holds for some fuel `m` (cf. `C01_onMachines`, Props/C01.lean) -/
def C01_onDataMachines (P : X86.MonCfg → Nat → Prop) : Prop :=
  ∃ heapBytes : Nat, ∀ cfg : X86.MonCfg, heapBytes ≤ cfg.mach.heapBytes → C01_DataMach cfg → ∃ m, P cfg m

/-- the heap that a run of `n5` steps of the positional machine needs (`X86.C06_data_programs`): 128 bytes
    and 64·134 bytes per step -/
def C01_heapBound (n5 : Nat) : Nat := 128 + 64 * 134 * n5

/-- a run that fits a sane machine is shorter than 2^64 steps -/
theorem C01_fuel_of_heap {cfg : X86.MonCfg} (M : C01_DataMach cfg) {n5 : Nat}
    (h : C01_heapBound n5 ≤ cfg.mach.heapBytes) : n5 + 1 < 2 ^ 64 := by
  have h1 := M.ok.cfg.heapBelow
  have h2 := M.ok.cfg.top
  have h3 := M.ok.room
  unfold C01_heapBound at h
  omega

/-! ## the x86-64 link at one program, heap version -/

/-- the x86-64 link AT ONE PROGRAM, heap version: every run of the positional AxCut machine on the
    linearized program that ends with a result after `fuel` steps is reproduced by the x86-64 machine on
    the printed routine, on every `C01_DataMach` whose heap has `C01_heapBound fuel` bytes -/
def C01_link_x86H_at (p' : Fun.CheckedProgram) : Prop :=
  ∀ (st : Stages), stages p' = .ok st →
    ∀ (args : List Word) (hooks : Bool) (body routine : List X86.Code) (nargs : Nat),
      X86.compileX86 st.s5 hooks 0 = .ok (body, nargs) → X86.intoRoutine body nargs = .ok routine →
      ∀ (fuel : Nat) (t : List (Bool × Word)) (v : Word),
        AxCut.Pos.run st.s5 args fuel = ⟨t, .done v⟩ →
        ∀ cfg : X86.MonCfg, C01_DataMach cfg → C01_heapBound fuel ≤ cfg.mach.heapBytes →
          ∃ fuel', (X86.run (X86.printProg routine) args fuel' cfg).out = t ∧
            (X86.run (X86.printProg routine) args fuel' cfg).res = .done v

/-- **the x86-64 link from the item-level run theorem**: for the stages of an accepted program with a
    valid `main` (facts `C12_Facts`: theorems) whose linearized program is in the class `Q` of the run
    theorem and passes the decidable `C01_backChecks`.  Every other hypothesis of the run theorem is
    derived here. -/
theorem C01_x86H_of {Q : AxCut.Prog → Prop} (hx : C01_x86_heap_statement Q)
    {p : Fun.Program} {p' : Fun.CheckedProgram} {st : Stages} (F : C12_Facts p p' st)
    (hv : validMain p' = true) (hb : C01_backChecks p' = true) (hQ : Q st.s5) :
    C01_link_x86H_at p' := by
  intro st' hok args hooks body routine nargs hcomp hinto fuel t v hrun cfg M hbytes
  have hst : st' = st := by
    have := F.ok
    rw [hok] at this
    injection this
  subst hst
  -- the decidable checks
  simp only [C01_backChecks, hok, Bool.and_eq_true, decide_eq_true_eq] at hb
  obtain ⟨hls, ⟨⟨⟨⟨⟨⟨hcap, hrange⟩, hnames⟩, hmf1⟩, hmf2⟩, hro1⟩, hro2⟩⟩ := hb
  have hsafe : LabelSafe st'.s5 = true := by
    unfold C01_labelSafe at hls
    rw [hok] at hls
    exact hls
  have hr := C01_progInRangeB_sound hrange
  rw [C01_namesTextSafe_eq] at hnames
  -- the entry
  obtain ⟨_, _, _, m5⟩ := stages_mainHead (validMainK_of_validMain hv) hok
  obtain ⟨d5, ds5, hd5, _, hint5⟩ := m5
  have hhead : st'.s5.defs.head? = some d5 := by rw [hd5]; rfl
  have hmem : d5 ∈ st'.s5.defs := by rw [hd5]; exact List.mem_cons_self ..
  -- the mock code generator succeeds (theorem) with the same number of arguments
  obtain ⟨ops, nargs', c', hM⟩ := Backend.Total.mock_compile_ok hooks st'.s5 F.lin5 (by rw [hd5]; simp) 0
  have hn' : nargs' = nargs := by
    obtain ⟨d, ds, e1, e2⟩ := compile_nargs _ _ _ _ _ _ _ hM
    obtain ⟨d', ds', e1', e2'⟩ := compileX86_nargs hcomp
    rw [e1] at e1'
    injection e1' with e1'
    rw [e2, e2', e1']
  subst hn'
  have hfit : C06Generic.CodeFits ops := by
    have hmf : C01_mockFitsB hooks st'.s5 = true := by cases hooks <;> assumption
    simp only [C01_mockFitsB, hM, decide_eq_true_eq] at hmf
    have := C01_instrCount_le ops
    unfold C06Generic.CodeFits
    omega
  -- the routine: labels defined once, below 2^63 bytes, and its text loads (C14, theorem)
  have hro : C01_routineOkB hooks st'.s5 = true := by cases hooks <;> assumption
  simp only [C01_routineOkB, hcomp, hinto, Bool.and_eq_true, decide_eq_true_eq] at hro
  obtain ⟨hnd, hsize⟩ := hro
  obtain ⟨items, hparse, hitems⟩ := X86.C14_routine_loads hr hnames hcomp hinto
  have hfitX : X86.Ref.addrAt cfg.mach.codeBase routine routine.length < 2 ^ 64 := by
    rw [C01_addrAt_end]
    have := M.codeLow
    omega
  have hcapR : ∀ s, C06Generic.Reachable st'.s5 ⟨d5.ctx, args.map .int, d5.body⟩ s →
      2 * s.ctx.length ≤ 266 := by
    intro s hs
    have := C06Generic.reach_ctx_le st'.s5 d5 hmem args s hs
    omega
  obtain ⟨fuel', h1, h2⟩ := hx st'.s5 args hooks body routine nargs' d5 ops c' hsafe F.lin5 hQ hr hM hfit
    hcomp hinto hnd hhead hint5 hcapR fuel t v (C01_fuel_of_heap M hbytes) hrun cfg M.ok M.monitorOff
    M.heapAligned M.heapPos hbytes items hitems hfitX
  exact ⟨fuel', by rw [X86.Ref.run_eq_runItems hparse]; exact h1, by rw [X86.Ref.run_eq_runItems hparse]; exact h2⟩

/-! ## the conclusion, heap version -/

/-- what the conclusion says about ONE terminating run with trace `t` and result `v`: the positional
    machine on S5 reproduces it in some number `n5` of steps, and on every `C01_DataMach` with
    `C01_heapBound n5` bytes of heap the x86-64 machine on the emitted text and the linked binary do -/
def C01_runsOnX86 (st : Stages) (text : String) (nargs : Nat) (args : List Word)
    (t : List (Bool × Word)) (v : Word) : Prop :=
  ∃ n5, AxCut.Pos.run st.s5 args n5 = ⟨t, .done v⟩ ∧
    ∀ cfg : X86.MonCfg, C01_DataMach cfg → C01_heapBound n5 ≤ cfg.mach.heapBytes →
      ∃ m, (X86.run text args m cfg).out = t ∧ (X86.run text args m cfg).res = .done v ∧
        nativeRun text nargs (argvOf args) m cfg = some (renderTrace t, Runtime.exitStatus v.toInt)

/-- `C01_runsOnX86` in the form "given enough heap" -/
theorem C01_runsOnX86.onMachines {st : Stages} {text : String} {nargs : Nat} {args : List Word}
    {t : List (Bool × Word)} {v : Word} (h : C01_runsOnX86 st text nargs args t v) :
    C01_onDataMachines fun cfg m =>
      (X86.run text args m cfg).out = t ∧ (X86.run text args m cfg).res = .done v ∧
      nativeRun text nargs (argvOf args) m cfg = some (renderTrace t, Runtime.exitStatus v.toInt) := by
  obtain ⟨n5, _, h⟩ := h
  exact ⟨C01_heapBound n5, fun cfg hb M => h cfg M hb⟩

/-- the conclusion of C01 for one checked program, heap version (see the header) -/
def C01_conclusionH (p' : Fun.CheckedProgram) : Prop :=
  ∃ st : Stages, stages p' = .ok st ∧
    ∀ (hooks : Bool) (nargs : Nat) (text : String),
      compileAllX86 hooks 0 p' = .ok (nargs, text) →
      nargs = mainArity p' ∧
      ∀ (args : List Word) (n : Nat) (t : List (Bool × Word)) (v : Word),
        srcRun p' args n = ⟨t, .done v⟩ →
        args.length = nargs ∧ C01_runsOnX86 st text nargs args t v

/-- … with the Core ς-machine on S2 as the source semantics -/
def C01_conclusion_coreH (p' : Fun.CheckedProgram) (st : Stages) : Prop :=
  ∀ (hooks : Bool) (nargs : Nat) (text : String),
    compileAllX86 hooks 0 p' = .ok (nargs, text) →
    nargs = mainArity p' ∧
    ∀ (args : List Word) (n : Nat) (t : List (Bool × Word)) (v : Word),
      Core.run st.s2 args n = ⟨t, .done v⟩ →
      args.length = nargs ∧ C01_runsOnX86 st text nargs args t v

/-- the conclusion in the shape of `C01_conclusion` (Props/C01.lean), with `C01_onDataMachines` -/
theorem C01_conclusionH_onMachines {p' : Fun.CheckedProgram} (h : C01_conclusionH p') :
    (∃ q5, middleEnd p' = .ok q5) ∧
    ∀ (hooks : Bool) (nargs : Nat) (text : String),
      compileAllX86 hooks 0 p' = .ok (nargs, text) →
      nargs = mainArity p' ∧
      ∀ (args : List Word) (n : Nat) (t : List (Bool × Word)) (v : Word),
        srcRun p' args n = ⟨t, .done v⟩ →
        args.length = nargs ∧
        C01_onDataMachines fun cfg m =>
          (X86.run text args m cfg).out = t ∧ (X86.run text args m cfg).res = .done v ∧
          nativeRun text nargs (argvOf args) m cfg = some (renderTrace t, Runtime.exitStatus v.toInt) := by
  obtain ⟨st, hok, h⟩ := h
  refine ⟨⟨st.s5, middleEnd_ok_iff.2 ⟨st, hok, rfl⟩⟩, fun hooks nargs text hall => ?_⟩
  obtain ⟨h1, h2⟩ := h hooks nargs text hall
  refine ⟨h1, fun args n t v hsrc => ?_⟩
  obtain ⟨h3, h4⟩ := h2 args n t v hsrc
  exact ⟨h3, h4.onMachines⟩

/-- **from the Core program on** (cf. `C01_from_core`): C03, C04, C05, C20 are theorems, the stages'
    facts `C12_Facts` are theorems; ONE hypothesis, the x86-64 link at this program. -/
theorem C01_from_core_H {p : Fun.Program} {p' : Fun.CheckedProgram} {st : Stages}
    (F : C12_Facts p p' st) (hv : validMain p' = true) (h6 : C01_link_x86H_at p') :
    C01_conclusion_coreH p' st := by
  obtain ⟨_, _, _, m5⟩ := stages_mainHead (validMainK_of_validMain hv) F.ok
  intro hooks nargs text hall
  -- the back end ran on `st.s5`
  obtain ⟨q5, hme, hbe⟩ := compileAllX86_ok_iff.1 hall
  obtain ⟨st', hst', rfl⟩ := middleEnd_ok_iff.1 hme
  rw [F.ok] at hst'
  injection hst' with hst'
  subst hst'
  obtain ⟨body, routine, hcomp, hinto, rfl⟩ := backEndX86_ok_iff.1 hbe
  -- number of arguments
  obtain ⟨d5, ds5, hd5, hk5, _⟩ := m5
  obtain ⟨d5', ds5', hd5', hnargs⟩ := compileX86_nargs hcomp
  rw [hd5] at hd5'
  injection hd5' with e1 e2
  subst e1
  have hnk : nargs = mainArity p' := by rw [hnargs, hk5]
  refine ⟨hnk, ?_⟩
  intro args n2 t v hA
  -- C03, C04, C05 — theorems
  obtain ⟨n5, hD⟩ := C01_middle_forward F hv hA
  have hlen : args.length = nargs := by rw [hnargs]; exact pos_run_done_arity hd5 hD
  refine ⟨hlen, n5, hD, fun cfg M hbytes => ?_⟩
  -- C06: positional machine on S5 ⟶ x86-64 machine on the routine text
  obtain ⟨m, hout, hres⟩ := h6 st F.ok args hooks body routine nargs hcomp hinto n5 t v hD cfg M hbytes
  refine ⟨m, hout, hres, ?_⟩
  -- C20: the C driver and io.c around the routine
  unfold nativeRun
  have hargv : (argvOf args).length = 1 + nargs := by simp [argvOf, hlen]; omega
  rw [if_neg (by omega)]
  simp only [argv_roundtrip, hres, hout, traceBytes_eq_render]

/-! ## the facts about the stages, from the source text -/

/-- C12 (theorems `C12_source_names`, `C12_facts_proved`): for every source text that parser and checker
    accept, with a valid `main` that is not called, the middle end succeeds and all typing facts hold -/
theorem C01_facts_of_source {mode : Fun.Parse.LiteralMode} {src : String} {p : Fun.Program}
    {p' : Fun.CheckedProgram} (hparse : Fun.Parse.parse mode src = .ok p) (hc : checkProgram p = .ok p')
    (hv : validMain p' = true) (hmc : Fun.noMainCall p' = true) :
    programNamesOk p = true ∧ C02_noSigmaNames p' = true ∧ C12_noContType p' = true ∧
      ∃ st, C12_Facts p p' st := by
  obtain ⟨hn, hs, hcont⟩ := C12_source_names hparse hc
  exact ⟨hn, hs, hcont, C12_facts_proved p p' hn hc hv hmc hs hcont⟩

/-! ## GAP 2: fun2core beyond `fragOk` -/

/-- **GAP 2 — fun2core beyond the fragment** (agent pf-c02codata): clause 1 of `C02_sem_full_statement`
    restricted to results, for accepted `Sequenced` programs with a valid `main` that is not called, no
    name `ς`, no type `_Cont` (all theorems for source texts), and as many arguments as `main` has
    parameters: every run of the Fun machine that ends with a result is reproduced by the Core ς-machine
    on the translation. -/
def C01_gap_fun2core : Prop :=
  ∀ (p : Fun.Program) (p' : Fun.CheckedProgram) (q2 : Core.Prog),
    programNamesOk p = true → checkProgram p = .ok p' → validMain p' = true →
    Fun.noMainCall p' = true → C02_noSigmaNames p' = true → C12_noContType p' = true →
    Fun.Sequenced p' = true → Fun2Core.compileProg p' = .ok q2 →
    ∀ (args : List Word) (n : Nat) (t : List (Bool × Word)) (v : Word),
      args.length = mainArity p' →
      ofFun (Fun.run p' args n) = ⟨t, .done v⟩ → ∃ m, ofCore (Core.run q2 args m) = ⟨t, .done v⟩

/-- the corrected full statement of C02 (Props/C02Sem.lean) implies the gap -/
theorem C01_gap_fun2core_of_full (h : C02_sem_full_statement) : C01_gap_fun2core := by
  intro p p' q2 hn hc hv hmc hs _ hseq e2 args n t v _ hrun
  obtain ⟨m, hm⟩ := (h p p' q2 hn hc hseq hv hmc hs e2 args).1 n (by simp only [hrun]; trivial)
  exact ⟨m, by simp only at hm; rw [hm, hrun]⟩

/-- a run of the Fun machine that ends with a result was started with as many arguments as `main` has
    parameters -/
theorem C01_fun_run_arity {p' : Fun.CheckedProgram} (hv : validMain p' = true) {args : List Word}
    {n : Nat} {t : List (Bool × Word)} {v : Word} (h : ofFun (Fun.run p' args n) = ⟨t, .done v⟩) :
    args.length = mainArity p' := by
  obtain ⟨dm, hfind, hl, _, _⟩ := validMain_find hv
  unfold Fun.run at h
  cases hi : Fun.initState p' args with
  | error w =>
    rw [hi] at h
    simp [ofFun] at h
  | ok s =>
    unfold Fun.initState at hi
    rw [hfind] at hi
    simp only at hi
    cases hb : Fun.bindAll (dm.ctx.map (·.var)) (args.map .int) [] with
    | none => rw [hb] at hi; cases hi
    | some env =>
      have := Fun2Core.Sem.bindAll_length _ _ _ _ hb
      simp only [List.length_map] at this
      omega

/-- source semantics ⟶ Core ς-machine on S2, given the forward semantics of fun2core at this program -/
theorem C01_src_to_core {p : Fun.Program} {p' : Fun.CheckedProgram} {st : Stages}
    (F : C12_Facts p p' st)
    (h2 : Fun.Sequenced p' = true → ∀ (args : List Word) (n : Nat) (t : List (Bool × Word)) (v : Word),
      ofFun (Fun.run p' args n) = ⟨t, .done v⟩ → ∃ m, ofCore (Core.run st.s2 args m) = ⟨t, .done v⟩)
    {args : List Word} {n : Nat} {t : List (Bool × Word)} {v : Word}
    (hsrc : srcRun p' args n = ⟨t, .done v⟩) : ∃ n2, Core.run st.s2 args n2 = ⟨t, .done v⟩ := by
  unfold srcRun at hsrc
  by_cases hseq : Fun.Sequenced p' = true
  · rw [if_pos hseq] at hsrc
    obtain ⟨m, hm⟩ := h2 hseq args n t v hsrc
    exact ⟨m, ofCore_done hm⟩
  · rw [if_neg hseq, F.s2ok] at hsrc
    exact ⟨n, ofCore_done hsrc⟩

/-- the composition for ONE program, from the facts about its stages, the forward semantics of fun2core
    at this program and the x86-64 link at this program -/
theorem C01_compose_H {p : Fun.Program} {p' : Fun.CheckedProgram} {st : Stages}
    (F : C12_Facts p p' st) (hv : validMain p' = true)
    (h2 : Fun.Sequenced p' = true → ∀ (args : List Word) (n : Nat) (t : List (Bool × Word)) (v : Word),
      ofFun (Fun.run p' args n) = ⟨t, .done v⟩ → ∃ m, ofCore (Core.run st.s2 args m) = ⟨t, .done v⟩)
    (h6 : C01_link_x86H_at p') : C01_conclusionH p' := by
  refine ⟨st, F.ok, fun hooks nargs text hall => ?_⟩
  obtain ⟨hnk, hruns⟩ := C01_from_core_H F hv h6 hooks nargs text hall
  refine ⟨hnk, fun args n t v hsrc => ?_⟩
  obtain ⟨n2, hA⟩ := C01_src_to_core F h2 hsrc
  exact hruns args n2 t v hA

/-! ## THE DATA FRAGMENT: end to end, no hypothesis left -/

/-- **C01_data_fragment, for ASTs**: accepted program with `programNamesOk`, valid `main`, no type called
    `_Cont`, and the ONE decidable predicate `C01_dataChecks`. -/
theorem C01_data_fragment_ast (p : Fun.Program) (p' : Fun.CheckedProgram)
    (hn : programNamesOk p = true) (hc : checkProgram p = .ok p') (hv : validMain p' = true)
    (hcont : C12_noContType p' = true) (hd : C01_dataChecks p' = true) : C01_conclusionH p' := by
  simp only [C01_dataChecks, Bool.and_eq_true] at hd
  obtain ⟨⟨hfr, hb⟩, hdata⟩ := hd
  have hfr' := hfr
  simp only [C01_fragChecks, Bool.and_eq_true] at hfr'
  obtain ⟨_, hmc, hs⟩ := C02_fragOk_sequenced hfr'.1
  obtain ⟨st, F⟩ := C12_facts_proved p p' hn hc hv hmc hs hcont
  rw [F.ok] at hdata
  refine C01_compose_H F hv ?_ (C01_x86H_of C01_x86_heap_data F hv hb (C01_dataProgB_sound hdata))
  intro _ args n t v hrun
  exact C01_fun2core_sem_frag p p' st.s2 hn hc hfr F.s2ok args n t v hrun

/-- **C01_data_fragment — END TO END, NO HYPOTHESIS LEFT**: for every source text accepted by parser and
    checker, with a valid `main`, that passes the ONE decidable predicate `C01_dataChecks` (fun2core's
    fragment — which contains `noMainCall` —, no closures in the linearized program, the side conditions
    `C01_backChecks` of the x86-64 link): whenever the source semantics finishes, `srcRun p' args n =
    ⟨t, done v⟩`, the x86-64 machine on the emitted routine TEXT produces trace `t` and result `v`, and the
    linked binary writes the decimal rendering of `t` and exits with status `v mod 256` — on every machine
    configuration `C01_DataMach` whose heap has `128 + 64·134·n5` bytes, `n5` the number of steps of the
    positional machine on S5.
    Every link is a theorem: C16/C15 (names, typing of the source), C12 (every stage typed), C02 (fragment),
    C03, C04, C05, Theorem A, Theorem B with the heap (C06 ∘ C09/C10), C14 (loader), C20. -/
theorem C01_data_fragment (mode : Fun.Parse.LiteralMode) (src : String) (p : Fun.Program)
    (p' : Fun.CheckedProgram) (hparse : Fun.Parse.parse mode src = .ok p)
    (hc : checkProgram p = .ok p') (hv : validMain p' = true) (hd : C01_dataChecks p' = true) :
    C01_conclusionH p' := by
  obtain ⟨hn, _, hcont⟩ := C12_source_names hparse hc
  exact C01_data_fragment_ast p p' hn hc hv hcont hd

/-- … and from the Core program on, for ANY source program (sequenced or not, with codata at source
    level or not) whose linearized program has no closures -/
theorem C01_data_from_core (mode : Fun.Parse.LiteralMode) (src : String) (p : Fun.Program)
    (p' : Fun.CheckedProgram) (hparse : Fun.Parse.parse mode src = .ok p)
    (hc : checkProgram p = .ok p') (hv : validMain p' = true) (hmc : Fun.noMainCall p' = true)
    (hb : C01_backChecks p' = true)
    (hdata : (match stages p' with | .ok st => C01_dataProgB st.s5 | .error _ => false) = true) :
    ∃ st, C12_Facts p p' st ∧ C01_conclusion_coreH p' st := by
  obtain ⟨_, _, _, st, F⟩ := C01_facts_of_source hparse hc hv hmc
  rw [F.ok] at hdata
  exact ⟨st, F, C01_from_core_H F hv (C01_x86H_of C01_x86_heap_data F hv hb (C01_dataProgB_sound hdata))⟩

/-! ## THE FINAL STATEMENT and its composition from the two gaps -/

/-- **C01, final form**: for EVERY source text accepted by parser and checker with a valid `main` that is
    not called, whose linearized program passes the decidable side conditions `C01_backChecks` of the
    x86-64 link (label-safe and text-safe names, capacity, ranges, sizes), the conclusion of C01 holds. -/
def C01_statement_final : Prop :=
  ∀ (mode : Fun.Parse.LiteralMode) (src : String) (p : Fun.Program) (p' : Fun.CheckedProgram),
    Fun.Parse.parse mode src = .ok p → checkProgram p = .ok p' → validMain p' = true →
    Fun.noMainCall p' = true → C01_backChecks p' = true → C01_conclusionH p'

/-- **C01_final_of**: the final statement from the two theorems that are still missing — closures on
    x86-64 and fun2core beyond `fragOk`.  Every other link is a theorem. -/
theorem C01_final_of (hx : C01_gap_x86) (hc : C01_gap_fun2core) : C01_statement_final := by
  intro mode src p p' hparse hck hv hmc hb
  obtain ⟨hn, hs, hcont, st, F⟩ := C01_facts_of_source hparse hck hv hmc
  refine C01_compose_H F hv ?_ (C01_x86H_of hx F hv hb trivial)
  intro hseq args n t v hrun
  exact hc p p' st.s2 hn hck hv hmc hs hcont hseq F.s2ok args n t v (C01_fun_run_arity hv hrun) hrun

/-- with GAP 1 alone: every program of fun2core's fragment (closures allowed in S5: calls of other
    definitions, recursion) -/
theorem C01_frag_of_x86 (hx : C01_gap_x86) (mode : Fun.Parse.LiteralMode) (src : String)
    (p : Fun.Program) (p' : Fun.CheckedProgram) (hparse : Fun.Parse.parse mode src = .ok p)
    (hc : checkProgram p = .ok p') (hv : validMain p' = true) (hfr : C01_fragChecks p' = true)
    (hb : C01_backChecks p' = true) : C01_conclusionH p' := by
  have hfr' := hfr
  simp only [C01_fragChecks, Bool.and_eq_true] at hfr'
  obtain ⟨_, hmc, _⟩ := C02_fragOk_sequenced hfr'.1
  obtain ⟨hn, _, _, st, F⟩ := C01_facts_of_source hparse hc hv hmc
  refine C01_compose_H F hv ?_ (C01_x86H_of hx F hv hb trivial)
  intro _ args n t v hrun
  exact C01_fun2core_sem_frag p p' st.s2 hn hc hfr F.s2ok args n t v hrun

/-- with GAP 2 alone: every program whose linearized program has no closures -/
theorem C01_data_of_fun2core (hc2 : C01_gap_fun2core) (mode : Fun.Parse.LiteralMode) (src : String)
    (p : Fun.Program) (p' : Fun.CheckedProgram) (hparse : Fun.Parse.parse mode src = .ok p)
    (hc : checkProgram p = .ok p') (hv : validMain p' = true) (hmc : Fun.noMainCall p' = true)
    (hb : C01_backChecks p' = true)
    (hdata : (match stages p' with | .ok st => C01_dataProgB st.s5 | .error _ => false) = true) :
    C01_conclusionH p' := by
  obtain ⟨hn, hs, hcont, st, F⟩ := C01_facts_of_source hparse hc hv hmc
  rw [F.ok] at hdata
  refine C01_compose_H F hv ?_ (C01_x86H_of C01_x86_heap_data F hv hb (C01_dataProgB_sound hdata))
  intro hseq args n t v hrun
  exact hc2 p p' st.s2 hn hc hv hmc hs hcont hseq F.s2ok args n t v (C01_fun_run_arity hv hrun) hrun


/-! ## non-vacuity

`C01F_exSrc`: `main` builds a two-element list with `let` and constructors, takes it apart with a nested
`case` whose clauses share a continuation (focusing lifts it to the definitions `share_main_0/1`, reached by
`call`), binds the result with `let`, prints it.  Its linearized program has `let`, `switch`, `subst`
(erasing the unused tail `ys`), `op`, `print`, `call`, `exit`.  EVERY hypothesis of `C01_data_fragment`
holds by kernel evaluation (`decide +kernel`), so its conclusion holds (`C01F_example_conclusion`); the
premise of the inner implication holds on the arguments 4 5 (`C01F_example_run`).  The x86-64 machine keeps
its memory in a `Std.HashMap`, which does not reduce in the kernel: `#eval` of
`X86.run text [4, 5] 100000 {}` gives trace `[(true, 9)]`, result 0, and `runLineNative` the bytes `39 0a`
with status 0 — as the theorem says. -/

def C01F_exSrc : String :=
  "data List[A] { Nil, Cons(x: A, xs: List[A]) }
def main(n: i64, m: i64): i64 { let l: List[i64] = Cons(n, Cons(m, Nil)); let s: i64 = l.case[i64] { Nil => 0, Cons(x, xs) => xs.case[i64] { Nil => x, Cons(y, ys) => x + y } }; println_i64(s); 0 }"

def C01F_ex (f : Fun.Program → Fun.CheckedProgram → Bool) (src : String) : Bool :=
  match frontEnd src with
  | .ok p p' => f p p'
  | _ => false

theorem C01F_ex_elim {f : Fun.Program → Fun.CheckedProgram → Bool} {src : String} {p : Fun.Program}
    {p' : Fun.CheckedProgram} (h : C01F_ex f src = true) (hfe : frontEnd src = .ok p p') :
    f p p' = true := by
  unfold C01F_ex at h
  rw [hfe] at h
  exact h

/-- what `frontEnd src = ok p p'` means -/
theorem C01F_frontEnd_ok {src : String} {p : Fun.Program} {p' : Fun.CheckedProgram}
    (h : frontEnd src = .ok p p') :
    Fun.Parse.parse .diagOnOverflow src = .ok p ∧ checkProgram p = .ok p' := by
  unfold frontEnd at h
  split at h
  · cases h
  · cases h
  · rename_i q hq
    split at h
    · rename_i q' hq'
      injection h with h1 h2
      subst h1 h2
      exact ⟨hq, hq'⟩
    · cases h
    · cases h

/-- the linearized program has no closures -/
def C01F_noClosures (p' : Fun.CheckedProgram) : Bool :=
  match stages p' with
  | .ok st => C01_dataProgB st.s5
  | .error _ => false

theorem C01_dataChecks_eq (p' : Fun.CheckedProgram) :
    C01_dataChecks p' = (C01_fragChecks p' && C01_backChecks p' && C01F_noClosures p') := rfl

set_option maxRecDepth 100000 in
/-- ALL hypotheses of `C01_data_fragment` on the example: accepted (by `frontEnd`), valid `main`, and THE
    predicate `C01_dataChecks`: fragment, no closures, back-end conditions -/
theorem C01F_example_hyps :
    C01F_ex (fun p p' => programNamesOk p && validMain p' && C01_dataChecks p') C01F_exSrc = true := by
  decide +kernel

/-- the premise of the inner implication on the arguments 4 5: the source semantics finishes with trace
    `9\\n` and result 0; the positional machine on S5 agrees (the run that the x86-64 link transports); S5
    is not an integer program (it has `let` / `switch`: outside `C01_int_fragment`) -/
def C01F_exRuns (src : String) : Bool :=
  match frontEnd src with
  | .ok _ p' =>
    match stages p' with
    | .ok st =>
      decide (srcRun p' [4, 5] 200 = ⟨[(true, 9)], .done 0⟩) && decide (mainArity p' = 2) &&
      decide (ofPos (AxCut.Pos.run st.s5 [4, 5] 200) = ⟨[(true, 9)], .done 0⟩) && !C01_intProgB st.s5
    | .error _ => false
  | _ => false

set_option maxRecDepth 100000 in
theorem C01F_example_run : C01F_exRuns C01F_exSrc = true := by decide +kernel

/-- **the theorem applies**: the conclusion of C01 for the example, no hypothesis -/
theorem C01F_example_conclusion (p : Fun.Program) (p' : Fun.CheckedProgram)
    (hfe : frontEnd C01F_exSrc = .ok p p') : C01_conclusionH p' := by
  obtain ⟨hparse, hc⟩ := C01F_frontEnd_ok hfe
  have h1 := C01F_ex_elim C01F_example_hyps hfe
  simp only [Bool.and_eq_true] at h1
  exact C01_data_fragment _ _ p p' hparse hc h1.1.2 h1.2

/-- the front end accepts the example (so `C01F_example_conclusion` is about something) -/
theorem C01F_example_accepted : ∃ p p', frontEnd C01F_exSrc = .ok p p' := by
  have h := C01F_example_hyps
  unfold C01F_ex at h
  split at h
  · rename_i p p' hfe
    exact ⟨p, p', hfe⟩
  · cases h

/-- `C01_DataMach` is not vacuous, and the heap bound of the example's run (fewer than 200 steps) is
    below the default 32 MiB -/
example : C01_DataMach {} ∧ C01_heapBound 200 ≤ ({} : X86.MonCfg).mach.heapBytes :=
  ⟨C01_dataMach_default, by decide⟩

/-- the conclusion's byte string and exit status for the example's run: "9\n", status 0 -/
example : renderTrace [(true, (9 : Word))] = [57, 10] ∧ Runtime.exitStatus (0 : Word).toInt = 0 := by decide

/-! ### recursion needs closures

The tail-recursive list sum: `build` conses `n, n-1, …, 1` onto an accumulator, `sum` adds the elements
with an accumulator through `case`; every call is a tail call.  It is in fun2core's fragment and passes
every back-end condition, but its linearized program is NOT a `DataProg`: `main` passes the continuation
`_Cont` to `build` (`create`), `sum` returns through it (`invoke`). -/

def C01F_recSrc : String :=
  "data List[A] { Nil, Cons(x: A, xs: List[A]) }
def sum(l: List[i64], acc: i64): i64 { l.case[i64] { Nil => println_i64(acc); acc, Cons(x, xs) => let a: i64 = acc + x; sum(xs, a) } }
def build(n: i64, l: List[i64]): i64 { if n == 0 { sum(l, 0) } else { let m: i64 = n - 1; build(m, Cons(n, l)) } }
def main(n: i64): i64 { build(n, Nil) }"

set_option maxRecDepth 100000 in
/-- accepted, in fun2core's fragment, … -/
theorem C01F_rec_frag : C01F_ex (fun _ p' => C01_fragChecks p') C01F_recSrc = true := by decide +kernel

set_option maxRecDepth 100000 in
/-- … every back-end condition holds … -/
theorem C01F_rec_back : C01F_ex (fun _ p' => C01_backChecks p') C01F_recSrc = true := by decide +kernel

set_option maxRecDepth 100000 in
/-- … but S5 has closures; the source semantics on the argument 4 prints 10 and returns 10 -/
theorem C01F_rec_closures :
    C01F_ex (fun _ p' => !C01F_noClosures p' && decide (srcRun p' [4] 300 = ⟨[(true, 10)], .done 10⟩))
      C01F_recSrc = true := by
  decide +kernel

/-- the only conjunct of `C01_dataChecks` that fails on the recursive list sum is `C01_dataProgB`;
    with `C01_gap_x86` the program is covered by `C01_frag_of_x86` -/
theorem C01_recursion_needs_closures (p : Fun.Program) (p' : Fun.CheckedProgram)
    (hfe : frontEnd C01F_recSrc = .ok p p') :
    C01_fragChecks p' = true ∧ C01_backChecks p' = true ∧ C01_dataChecks p' = false := by
  have h1 := C01F_ex_elim C01F_rec_frag hfe
  have h2 := C01F_ex_elim C01F_rec_closures hfe
  simp only [Bool.and_eq_true, Bool.not_eq_true'] at h1 h2
  refine ⟨h1, C01F_ex_elim C01F_rec_back hfe, ?_⟩
  rw [C01_dataChecks_eq, h2.1]
  simp

#print axioms C01_dataProgB_sound
#print axioms C01_x86_heap_data
#print axioms C01_x86H_of
#print axioms C01_from_core_H
#print axioms C01_facts_of_source
#print axioms C01_gap_fun2core_of_full
#print axioms C01_fun_run_arity
#print axioms C01_compose_H
#print axioms C01_conclusionH_onMachines
#print axioms C01_data_fragment_ast
#print axioms C01_data_fragment
#print axioms C01_data_from_core
#print axioms C01_final_of
#print axioms C01_frag_of_x86
#print axioms C01_data_of_fun2core
#print axioms C01F_example_hyps
#print axioms C01F_example_run
#print axioms C01F_rec_frag
#print axioms C01F_rec_back
#print axioms C01F_rec_closures
#print axioms C01F_example_conclusion
#print axioms C01F_example_accepted
#print axioms C01_recursion_needs_closures

end Scc.Props
