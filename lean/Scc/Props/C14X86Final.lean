/-
  Scc.Props.C14X86Final — property C14 (the emitted assembly is well-formed) for the x86-64 backend:
  THE WHOLE-PROGRAM THEOREM.

    `C14_x86_final`   for every `LabelSafe`, linearly typed (`LinTypedProg`) program that passes the decidable
                      per-program checks `C06_x86Checks` (of which `ProgInRange` and `C14_namesTextSafe` are
                      used: `C14_x86_final_min`) and that the code generator compiles (both hook settings, EVERY
                      start value of the label counter):  `wfCheck (printProg routine) = .ok ()`.

  What `wfCheck` (Scc/X86/Machine.lean) tests, and where each clause comes from:
    (v)   the text parses (never `PARSE-ERROR`) and `wfCheck` on the text is `wfItems` on items that agree with
          the routine up to the text of comments        — `C14_wfCheck_items` (Props/C14Loader.lean);
          `wfItems` = the proposition `Wf.WfSpec`, which ignores comment texts — Scc/X86/WfItems.lean;
    (i)   every label defined exactly once               — `labels_unique_x86` (Scc/X86/RefSideLabels.lean);
          the `extern` symbols `print_i64`, `println_i64` are not defined: a generated label is never one of
          them (`Wf.R_ne_ext`);
    (ii)  every label referenced by `jmp`/`jcc`/`lea`/`jmp near` is defined — NEW, `Refs.refs_defined`
          (Scc/Backend/ProofsRefs.lean, an induction over the generic generator for an arbitrary backend)
          with the x86-64 instance `Wf.refOps_x86` (memory methods: local labels only, `Wf.postMW_*`);
          "the callee exists" follows from the typing (`Refs.callsDefined_of_linTyped`); `call` only of the
          two runtime symbols; `global asm_main` is defined by the wrapper;
    (iii) `jmp near` occurs only directly after a label or another `jmp near` (`tableCheck`), i.e. only in
          jump tables, so entry k of a table is 5·k bytes after the table label (`C14_table_stride`,
          Props/C14X86.lean)                             — NEW, `Refs.piece_compileR` with `Wf.pieceOps_x86`;
    (iv)  every register < 16, every 32-bit field in range, `mov r64, imm64` within i64
                                                         — `C14_program_operand_ranges` (Props/C14X86.lean);
          `imul [mem], reg` (rejected by the validator; emitted by `mul` exactly when a spilled target is
          also a source) does not occur: the target variable of an `op` is fresh (`Refs.opFresh_of_linTyped`)
          and different variables of one context have different temporaries (`x86_vt_inj`).

  `wfCheck` vs. the pieces: `wfCheck` is exactly the conjunction (i)-(v) (`Wf.wfItems_of_spec` is proved as an
  implication; the converse for (i) is `Wf.wfItems_nodup`).  It is WEAKER than C14-T1 of C14Generic
  (`table_stride`) in that it does not compare the table entries with the clause list (one entry per clause, in
  declaration order — that is `C14_codeTable_shape` + `C14Generic.codeTable_eq`, proved for every backend);
  it does not test branch reach (x86-64 `jmp`/`jcc` rel32).

  COMPARISON with the statements of Props/C14X86.lean:
    `C14_statement`          has only `LinTypedProg`, counter start 0.  It is FALSE as stated:
                             `C14_statement_false` (two definitions `f_1` / `f` with id 1 both print as `f_1`;
                             the validator reports `label f_1_ defined more than once`).
    `C14_statement_refined`  = `C14_x86_final` without the hypothesis `C14_namesTextSafe` (and with the
                             superfluous `CallsDefined`, counter start 0).  Without the names check it does not
                             hold either (`C14_names_needed`, Props/C14Loader.lean: a definition named `a b`
                             is `LabelSafe`, linearly typed, in range; its label `a b_` does not parse);
                             `C14_statement_refined_names`: it holds for programs with text-safe names.
-/
import Scc.X86.WfFinal
import Scc.Props.C06X86Full
import Scc.Props.C14X86

namespace Scc.X86

open Scc.AxCut Scc.X86.Wf
open Scc.Props.C14Generic (LabelSafe CallsDefined)

/-- C14 (x86-64), whole programs, as PROVED -/
def C14_final_statement : Prop :=
  ∀ (p : AxCut.Prog) (hooks : Bool) (c0 : Nat) (body routine : List Code) (nargs : Nat),
    LabelSafe p = true → LinTypedProg p → C06_x86Checks p = true →
    compileX86 p hooks c0 = .ok (body, nargs) → intoRoutine body nargs = .ok routine →
    wfCheck (printProg routine) = .ok ()

/-- the routine satisfies the proposition that `wfItems` tests -/
theorem C14_routine_wfSpec {p : AxCut.Prog} {hooks : Bool} {c0 : Nat} {body routine : List Code} {nargs : Nat}
    (hsafe : LabelSafe p = true) (htp : LinTypedProg p) (hrange : ProgInRange p)
    (h : compileX86 p hooks c0 = .ok (body, nargs)) (hr : intoRoutine body nargs = .ok routine) :
    WfSpec routine := wfSpec_routine hsafe htp hrange h hr

/-- **C14 for x86-64** with the two checks that are used -/
theorem C14_x86_final_min {p : AxCut.Prog} {hooks : Bool} {c0 : Nat} {body routine : List Code} {nargs : Nat}
    (hsafe : LabelSafe p = true) (htp : LinTypedProg p) (hrange : ProgInRange p)
    (hnames : C14_namesTextSafe p = true)
    (h : compileX86 p hooks c0 = .ok (body, nargs)) (hr : intoRoutine body nargs = .ok routine) :
    wfCheck (printProg routine) = .ok () := by
  obtain ⟨items, hw, hstrip⟩ := C14_wfCheck_items hrange hnames h hr
  rw [hw]
  exact wfItems_of_spec items (wfSpec_of_stripC hstrip (wfSpec_routine hsafe htp hrange h hr))

/-- **C14 for x86-64: the text of the routine emitted for every `LabelSafe`, linearly typed program that passes
    the per-program checks is accepted by the validator** -/
theorem C14_x86_final : C14_final_statement := by
  intro p hooks c0 body routine nargs hsafe htp hchk h hr
  have F := C06_checks_facts hchk
  exact C14_x86_final_min hsafe htp F.range F.names h hr

/-- `C14_statement_refined` for programs with text-safe names -/
theorem C14_statement_refined_names (p : AxCut.Prog) (hooks : Bool) (body routine : List Code) (nargs : Nat)
    (htp : LinTypedProg p) (hrange : ProgInRange p) (hsafe : LabelSafe p = true) (_hcalls : CallsDefined p)
    (hnames : C14_namesTextSafe p = true)
    (h : compileX86 p hooks 0 = .ok (body, nargs)) (hr : intoRoutine body nargs = .ok routine) :
    wfCheck (printProg routine) = .ok () :=
  C14_x86_final_min hsafe htp hrange hnames h hr

/-- the hypothesis `CallsDefined` of `C14_statement_refined` follows from the typing -/
theorem C14_callsDefined_of_linTyped {p : AxCut.Prog} (htp : LinTypedProg p) : CallsDefined p :=
  Scc.Backend.Refs.callsDefined_of_linTyped htp

/-! ## `C14_statement` is false without `LabelSafe` -/

open Scc.Props.C14Generic (collisionDefs) in
/-- the definitions `f_1` (id 0) and `f` (id 1) both print as `f_1`: linearly typed, in range, text-safe
    names; the routine defines the label `f_1_` twice and the validator rejects its text -/
theorem C14_collision_rejected :
    LinTypedProg collisionDefs ∧
    ∃ body routine nargs, compileX86 collisionDefs false 0 = .ok (body, nargs) ∧
      intoRoutine body nargs = .ok routine ∧ wfCheck (printProg routine) ≠ .ok () := by
  refine ⟨linTypedCheck_sound _ rfl, ?_⟩
  have hok : ∃ r, compileX86 collisionDefs false 0 = .ok r := ⟨_, rfl⟩
  obtain ⟨⟨body, nargs⟩, hcomp⟩ := hok
  have hbody : body = (compileX86 collisionDefs false 0 |>.toOption.getD ([], 0)).1 := by rw [hcomp]; rfl
  have hnargs : nargs = 1 := by
    have : nargs = (compileX86 collisionDefs false 0 |>.toOption.getD ([], 0)).2 := by rw [hcomp]; rfl
    rw [this]; rfl
  subst hnargs
  have hok2 : ∃ r, intoRoutine body 1 = .ok r := by
    have : ∃ moves, moveArguments 1 = .ok moves := ⟨_, rfl⟩
    obtain ⟨moves, hm⟩ := this
    exact ⟨_, by unfold intoRoutine; rw [setup_eq 1 moves hm]⟩
  obtain ⟨routine, hrout⟩ := hok2
  refine ⟨body, routine, 1, hcomp, hrout, ?_⟩
  have hrange : ProgInRange collisionDefs := by
    refine ⟨by simp [collisionDefs], ?_⟩
    intro d hd
    simp only [collisionDefs, List.mem_cons, List.not_mem_nil, or_false] at hd
    rcases hd with rfl | rfl <;> simp [StmtB]
  obtain ⟨items, hw, hstrip⟩ := C14_wfCheck_items hrange (by decide) hcomp hrout
  rw [hw]
  intro hwf
  have hnd := wfItems_nodup items hwf
  rw [← labs_map_stripC, hstrip, labs_map_stripC] at hnd
  -- the labels of the routine: `asm_main`, those of the body, `cleanup`
  obtain ⟨moves, hm, hshape⟩ := Ref.intoRoutine_shape hrout
  have hrt : routine = Ref.header moves ++ (body ++ cleanup) := by
    rw [hshape]; simp [Ref.header]
  rw [hrt, Ref.labs_append, Ref.labs_append] at hnd
  have : ¬ (Ref.labs body).Nodup := by rw [hbody]; decide
  exact this (List.nodup_append.1 (List.nodup_append.1 hnd).2.1).1

theorem C14_statement_false : ¬ C14_statement := by
  intro hC
  obtain ⟨htp, body, routine, nargs, h1, h2, h3⟩ := C14_collision_rejected
  exact h3 (hC _ false body routine nargs htp h1 h2)

/-! ## non-vacuity -/

/-- the closure program of Props/C06X86Full.lean (two `create`s, a two-entry jump table, `invoke` through the
    table and through `jmp reg`, `subst`, `op`, `println`): every hypothesis holds, so the validator accepts the
    text of its routine (compiled with hooks) -/
example : wfCheck (printProg C06_cloRoutine) = .ok () :=
  C14_x86_final C06_cloProg true 0 C06_cloBody C06_cloRoutine 1 (by decide)
    (linTypedCheck_sound C06_cloProg rfl) C06_cloProg_checks rfl rfl

end Scc.X86

#print axioms Scc.X86.C14_x86_final
#print axioms Scc.X86.C14_x86_final_min
#print axioms Scc.X86.C14_routine_wfSpec
#print axioms Scc.X86.C14_statement_refined_names
#print axioms Scc.X86.C14_callsDefined_of_linTyped
#print axioms Scc.X86.C14_collision_rejected
#print axioms Scc.X86.C14_statement_false
