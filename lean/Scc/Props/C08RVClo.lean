/-
  Scc.Props.C08RVClo — property C08 (RISC-V backend), THEOREM A ∘ THEOREM B FOR ALL PROGRAMS — integers, data
  types AND CLOSURES (`create`, `invoke` through the method table with `add_and_jump`).

  THE WORD OF A CLOSURE.  On the abstract backend machine the word of a closure is the abstract code address of
  its methods; on the RV64 machine it is the address of the label of the method table.  The two code generators
  run with different label counters, so there is no function from abstract to machine addresses that could be
  shown correct; the machine words of the closures are kept PER LOCATION — `cw i` for position `i` of the
  context, `τ id j` for field `j` of heap object `id` (Scc/RV/RefDefs.lean: `trW`, `trHeap`) — and the
  relation `CV` (Scc/RV/RefCloDefs.lean: Theorem A's `RepV` with one more index, the machine word) records for
  every closure at every location (context positions, fields of objects and of closure environments) that the
  RV64 code standing at its machine word is the code of ITS methods for THE SAME environment context as the
  abstract code (`KMethodsAt`, Scc/RV/RefCreate.lean).  `CVals` is carried through every statement
  (RefCloHeap / RefCloStep / RefSubst / RefSwitch / RefCreate / RefInvoke: the twins of the `RepV` parts of
  Theorem A's proofs).  An indirect jump to the address of a label lands on the first label standing before
  the next instruction and passes the labels in between (Scc/RV/RefLand.lean, RefJump.lean).

  PROVED (no `sorry`, axioms: propext, Classical.choice, Quot.sound):
  * `C08_create_rv`, `C08_invoke_rv`   rung 5, the three-way simulation of `create` and `invoke`.
  * `C08_programs`    END TO END FOR ALL PROGRAMS with at most 14 live variables, on the parsed LINES of the
      emitted routine: a terminating run `Pos.run … = done v` of the positional machine is reproduced by the
      RV64 machine (it reaches `cleanup` with `v` in `X10`).  No restriction on the statements: a program with
      a `print` has no RV64 code at all (`compile rvBackend` fails), so "print-free" is implied by `hcompX`.
  * `C08_programs_checked`   the same with the side hypotheses DISCHARGED: the mock code generator succeeds on
      every linearly typed program (Scc/Backend/TotalMock.lean), its code fits the address space by the decidable
      size check `C08_sizeCheck` (Scc/Backend/SizeMock.lean), THE LABELS OF THE RV64 ROUTINE ARE PAIRWISE
      DISTINCT for every `LabelSafe` program (`labels_unique_rv`, Scc/RV/RefSideLabels.lean), and
      `fuel + 1 < 2^64` follows from the heap bounds.
  * `C08_capacity_of_liveAtMost_all`, `C08_programs_live`   the bound on the reachable states follows from the
      STATIC hypothesis `LiveAtMost maxVariables p` of `C08_statement` for ALL programs (the invariant covers the
      method bodies of the closures in the environment, `ValLive`): every hypothesis of `C08_programs_live` is a
      decidable check on the program / the emitted code / the machine configuration, or the run itself.
  * `C08_programs_text`   the same for `RV.run` on the TEXT of `compileRoutine`, given `C08_TextLoads`;
      `C08_programs_text_loaded` (Props/C14LoaderRV.lean): WITHOUT that hypothesis — the loader round trip is proved
      for every compiled routine from the decidable names check `C14R_namesTextSafe`.
  KEPT AS `def : Prop`:
  * `C08_programs_statement`   `C08_programs_checked` without the two remaining decidable side hypotheses
      (routine below 2^64, size check of the program); the loader fact is proved (Props/C14LoaderRV.lean:
      `C14R_loader`; `C08_loader_statement` of Props/C08RVInt.lean as first stated is false).
-/
import Scc.Props.C08RVHeap
import Scc.Backend.TotalMock
import Scc.Backend.SizeMock
import Scc.Pipeline.SizeCompose
import Scc.RV.RefSideLabels

namespace Scc.RV

open Scc.AxCut Scc.AxCut.Pos Scc.Backend Scc.Backend.Abs Scc.Backend.Sim Scc.Backend.Sim2 Scc.RV.Ref
open Scc.Heap (HState InvS)
open Scc.Heap.Refine (FrLe Room loadAbs)
open Scc.Props.C06Generic (Reachable WithinCapacity CodeFits EnoughHeap)
open Scc.Props.C14Generic (LabelSafe)

/-! ## rung 5: the statements -/

section Rung5

variable {mc : MonCfg} {cw : Nat → Word} {τ : Nat → Nat → Word} {pr : RV.Program} {ks : List Code}
  (L : Loaded pr ks) (hnd : (labs ks).Nodup) (hheap : mc.heap = false)

include L hnd hheap in
/-- THREE-WAY SIMULATION OF `create` on RV64: `Memory::store` of the closure environment, `LA` of the label of
the method table; the new variable holds the machine word `m`, at which the code of the methods stands -/
theorem C08_create_rv {P : Abs.Program} {hooks : Bool} {prog : AxCut.Prog} {Γ : Ctx} {ρ : List Value} {x : Ident}
    {ty : Ty} {Γc : Ctx} {clauses : Clauses} {next : Stmt} {f1 f2 : FV} {cfg : Config}
    (R : RelX P hooks prog ⟨Γ, ρ, .create x ty (some Γc) clauses next f1 f2⟩ cfg)
    (hk : Γc.length ≤ Γ.length)
    (hkeys : Ctx.keys (Γ.drop (Γ.length - Γc.length)) = Γc.keys)
    (hfresh : ∀ b ∈ Γ.take (Γ.length - Γc.length), b.var.id ≠ x.id)
    (hcap : 2 * (Γ.length - Γc.length + 1) + 2 < Mock.T_TEMP)
    (hnext : cfg.next < 2 ^ 64)
    {hs : HState} {ι : Nat → Nat} {st : State} (X : X3 mc cw τ Γ cfg hs ι st)
    {k k' : Nat} {items : List Code}
    (hrun : (codeStatementR rvBackend hooks natRen prog.types (.create x ty (some Γc) clauses next f1 f2) Γ).run k =
      .ok (items, k'))
    (hat : KAt ks st.pc items)
    (hroom : Room hs (64 * Γc.length + 64)) :
    ∃ cfg' st' hs' ι' m, stepsTo P 2 cfg cfg' ∧ Reach pr mc st st' ∧ FrLe hs hs' (64 * Γc.length) ∧
      cfg'.out = cfg.out ∧ cfg'.next ≤ cfg.next + 1 ∧
      RelX P hooks prog ⟨Γ.take (Γ.length - Γc.length) ++ [⟨x, .cns, ty⟩],
        ρ.take (Γ.length - Γc.length) ++ [.clo Γc (ρ.drop (Γ.length - Γc.length)) clauses], next⟩ cfg' ∧
      KMethodsAt ks hooks prog.types m (Γ.drop (Γ.length - Γc.length)) clauses ∧
      X3 mc (cwSet cw (Γ.length - Γc.length) m) (letTau τ cfg.next cw (Γ.length - Γc.length) Γc.length)
        (Γ.take (Γ.length - Γc.length) ++ [⟨x, .cns, ty⟩]) cfg' hs' ι' st' ∧
      ∃ k1 k1' items', (codeStatementR rvBackend hooks natRen prog.types next
          (Γ.take (Γ.length - Γc.length) ++ [⟨x, .cns, ty⟩])).run k1 = .ok (items', k1') ∧
        KAt ks st'.pc items' :=
  create_x3 L hnd hheap R hk hkeys hfresh hcap hnext X hrun hat hroom

include L hnd hheap in
/-- THREE-WAY SIMULATION OF `invoke` on RV64: the jump through the word of the closure (`JALR`, for several
methods `add_and_jump` through the method table), the `load` of the closure environment; the representation
of the values with the machine words of the closures (`CVals`) is re-established -/
theorem C08_invoke_rv (hfitX : codeBase + 4 * icount ks < 2 ^ 64)
    (hcl : ∀ t, t + 1 < ks.length → ks[t]? ≠ some (Code.LAB "cleanup"))
    {P : Abs.Program} {hooks : Bool} {prog : AxCut.Prog} {Γa : Ctx} {b : Binding}
    {ρa : List Value} {Γc : Ctx} {ρc : List Value} {clauses : Clauses} {x tag : Ident} {ty : Ty}
    {args : Ctx} {cfg : Config} {c : Clause} {pos : Nat}
    (R : RelX P hooks prog ⟨Γa ++ [b], ρa ++ [.clo Γc ρc clauses], .invoke x tag ty args⟩ cfg)
    (hfits : Fits P)
    (hb : b.var.id = x.id) (hfresh : ∀ b' ∈ Γa, b'.var.id ≠ x.id)
    (hpos : Pos.tagPosition prog.types ty tag = .ok pos)
    (hclause : nthClause clauses pos = some c)
    (hlenc : ∀ d, lookupTypeDecl prog.types ty = some d → clauses.length = d.xtors.length)
    (hargs : Γa.map (·.chi) = c.ctx.map (·.chi))
    (hkinds : ρc.map Sim2.kindOf = Mock.kindsOf Γc)
    (hcap : 2 * (c.ctx.length + Γc.length) + 2 < Mock.T_TEMP)
    {hs : HState} {ι : Nat → Nat} {st : State} (X : X3 mc cw τ (Γa ++ [b]) cfg hs ι st)
    {k k' : Nat} {items : List Code}
    (hrun : (codeStatementR rvBackend hooks natRen prog.types (.invoke x tag ty args) (Γa ++ [b])).run k =
      .ok (items, k'))
    (hat : KAt ks st.pc items)
    (hcapX : c.ctx.length + Γc.length ≤ 14)
    (CVh : CVals P hooks prog.types (KMethodsAt ks hooks prog.types) cw τ cfg.heap cfg.temps (Γa ++ [b])
      (ρa ++ [.clo Γc ρc clauses])) :
    ∃ kk cfg' st' hs' envCtx', Ctx.keys envCtx' = Γc.keys ∧ stepsTo P kk cfg cfg' ∧ Reach pr mc st st' ∧
      FrLe hs hs' 0 ∧ cfg'.out = cfg.out ∧ cfg'.next = cfg.next ∧
      RelX P hooks prog ⟨c.ctx ++ envCtx', ρa ++ ρc, c.body⟩ cfg' ∧
      (∃ r, cfg.temps.get (2 * Γa.length) = some r ∧
        X3 mc (loadCw cw Γa.length (τ r.toNat)) τ (c.ctx ++ envCtx') cfg' hs' ι st' ∧
        CVals P hooks prog.types (KMethodsAt ks hooks prog.types) (loadCw cw Γa.length (τ r.toNat)) τ cfg'.heap
          cfg'.temps (c.ctx ++ envCtx') (ρa ++ ρc)) ∧
      ∃ k1 k1' items', (codeStatementR rvBackend hooks natRen prog.types c.body (c.ctx ++ envCtx')).run k1 =
          .ok (items', k1') ∧ KAt ks st'.pc items' :=
  invoke_x3 L hnd hheap hfitX hcl R hfits hb hfresh hpos hclause hlenc hargs hkinds hcap X hrun hat hcapX CVh

end Rung5

/-! ## the run theorem for all programs -/

/-- THEOREM A ∘ THEOREM B FOR ALL PROGRAMS (at most 14 variables at every reachable state), on the parsed LINES
of the emitted routine: a terminating run of the AxCut positional machine with result `v` is reproduced by the
RV64 SPEC machine started at the first label: it reaches `cleanup` with `v` in `X10`.  All statements: integers,
`let` / `switch`, `create` / `invoke`, `subst`, `call` (a `print` has no RV64 code: `hcompX` fails).
`lines`: any line list that agrees with the emitted routine (header comments `hdr`, the emitted instructions,
the label `cleanup`) up to the text of comments and has no malformed hook comment.  Side hypotheses (all
decidable on the program, the emitted code or the machine configuration): the mock code generator succeeds and
its code fits the address space (`hcompM`, `hfit`: Theorem A; discharged in `C08_programs_checked`), the labels
of the routine are pairwise distinct (`hnd`), the routine ends below 2^64 (`hfitX`), the heap monitor is off,
the heap region lies below 2^63 and has 64·15 bytes per step of the run. -/
theorem C08_programs (p : AxCut.Prog) (args : List Word) (hooks : Bool) (instrs hdr : List Code)
    (nargs cX : Nat) (d0 : Def) (ops : List MockOp) (c' : Nat)
    (hsafe : LabelSafe p = true) (htp : LinTypedProg p)
    (hcompM : (compile mockSym hooks p).run 0 = .ok ((ops, nargs), c')) (hfit : CodeFits ops)
    {counter : Nat} (hcompX : (compile rvBackend hooks p).run counter = .ok ((instrs, nargs), cX))
    (hnd : (labs (instrs ++ [Code.LAB "cleanup"])).Nodup) (hfitX : codeBase + 4 * instrs.length < 2 ^ 64)
    (hd : p.defs.head? = some d0) (hentry : ∀ b ∈ d0.ctx, b.chi = .ext ∧ b.ty = .i64)
    (hcap : ∀ st, Reachable p ⟨d0.ctx, args.map .int, d0.body⟩ st → st.ctx.length ≤ maxVariables)
    (fuel : Nat) (v : Word) (hfuel : fuel + 1 < 2 ^ 64)
    (hrun : (Pos.run p args fuel).res = .done v)
    (mc : MonCfg) (hheap : mc.heap = false) (htop : heapBase + mc.heapBytes ≤ 2 ^ 63)
    (hbytes : 128 + 64 * 15 * fuel ≤ mc.heapBytes)
    (lines : List (Nat × Code)) (hhdr : ∀ c ∈ hdr, c.isComment = true)
    (hlines : (lines.map (·.2)).map stripC = (hdr ++ instrs ++ [Code.LAB "cleanup"]).map stripC)
    (hhook : ∀ x ∈ lines, ¬ badHook x.2) :
    ∃ fuel', (runLines lines args fuel' mc).res = .done v :=
  programs_lines p args hooks instrs hdr nargs cX d0 ops c' hsafe htp
    hcompM hfit hcompX hnd hfitX hd hentry hcap
    fuel v hfuel hrun mc hheap htop hbytes lines hhdr hlines hhook

/-! ## the side hypotheses of Theorem A, discharged -/

/-- the static size check: `10·(1 + longest context)·nodes < 2^64` (then the mock code fits the address space) -/
def C08_sizeCheck (p : AxCut.Prog) : Bool :=
  decide (10 * (1 + SizeLin.defsCap p.defs) * SizeLin.defsNodes p.defs < 2 ^ 64)

theorem C08_instrCount_le_length : ∀ (ops : List MockOp), instrCount ops ≤ ops.length
  | [] => Nat.le_refl _
  | op :: r => by
    have := C08_instrCount_le_length r
    cases op <;> simp only [instrCount, List.length_cons] <;> omega

/-- the mock code fits the address space, from the size bound of the generic generator -/
theorem C08_codeFits_of_size {p : AxCut.Prog} (htp : LinTypedProg p) (h : C08_sizeCheck p = true) {hooks : Bool}
    {c : Nat} {ops : List MockOp} {nargs c' : Nat}
    (hcomp : (compile mockSym hooks p).run c = .ok ((ops, nargs), c')) : CodeFits ops := by
  have hlen := Scc.Backend.SizeMock.mock_compile_length hooks p (SizeLin.defsCap p.defs) (Nat.le_refl _)
    (Scc.Pipeline.SizeCompose.substOkProg_of_linTyped htp) c ops (by
      unfold compileMockSym runGen
      rw [hcomp])
  simp only [C08_sizeCheck, decide_eq_true_eq] at h
  unfold CodeFits
  have := C08_instrCount_le_length ops
  omega

/-- the number of arguments returned by `compile` is the length of the first definition's context -/
theorem C08_compile_nargs {Code T : Type} (B : Backend Code T) (hooks : Bool) (p : AxCut.Prog) (c : Nat)
    (body : List Code) (nargs k : Nat) (h : (compile B hooks p).run c = .ok ((body, nargs), k)) (d0 : Def)
    (hd : p.defs.head? = some d0) : nargs = d0.ctx.length := by
  unfold compile compileR at h
  cases hdefs : p.defs with
  | nil => rw [hdefs] at hd; simp at hd
  | cons d ds =>
    rw [hdefs] at h hd
    simp only [List.head?_cons, Option.some.injEq] at hd
    subst hd
    simp only [run_bind_ok, run_pure_ok] at h
    obtain ⟨blocks, k', _, e, _⟩ := h
    injection e with _ e2
    exact e2.symm

/-- `C08_programs` with its side hypotheses discharged: the mock code generator succeeds on every linearly typed
program, its code fits the address space by the decidable check `C08_sizeCheck`, the labels of the RV64 routine are
pairwise distinct (`labels_unique_rv`), `fuel + 1 < 2^64` follows from the heap bounds.  What remains: the routine
ends below 2^64 (`hfitX`, decidable on the emitted code) and the size check -/
theorem C08_programs_checked (p : AxCut.Prog) (args : List Word) (hooks : Bool) (instrs hdr : List Code)
    (nargs cX : Nat) (d0 : Def)
    (hsafe : LabelSafe p = true) (htp : LinTypedProg p) (hsize : C08_sizeCheck p = true)
    {counter : Nat} (hcompX : (compile rvBackend hooks p).run counter = .ok ((instrs, nargs), cX))
    (hfitX : codeBase + 4 * instrs.length < 2 ^ 64)
    (hd : p.defs.head? = some d0) (hentry : ∀ b ∈ d0.ctx, b.chi = .ext ∧ b.ty = .i64)
    (hcap : ∀ st, Reachable p ⟨d0.ctx, args.map .int, d0.body⟩ st → st.ctx.length ≤ maxVariables)
    (fuel : Nat) (v : Word)
    (hrun : (Pos.run p args fuel).res = .done v)
    (mc : MonCfg) (hheap : mc.heap = false) (htop : heapBase + mc.heapBytes ≤ 2 ^ 63)
    (hbytes : 128 + 64 * 15 * fuel ≤ mc.heapBytes)
    (lines : List (Nat × Code)) (hhdr : ∀ c ∈ hdr, c.isComment = true)
    (hlines : (lines.map (·.2)).map stripC = (hdr ++ instrs ++ [Code.LAB "cleanup"]).map stripC)
    (hhook : ∀ x ∈ lines, ¬ badHook x.2) :
    ∃ fuel', (runLines lines args fuel' mc).res = .done v := by
  have hfuel : fuel + 1 < 2 ^ 64 := by omega
  have hne : p.defs ≠ [] := by
    intro e; rw [e] at hd; simp at hd
  obtain ⟨ops, nargsM, c', hcompM⟩ := Scc.Backend.Total.mock_compile_ok hooks p htp hne 0
  have h1 := C08_compile_nargs mockSym hooks p 0 ops nargsM c' hcompM d0 hd
  have h2 := C08_compile_nargs rvBackend hooks p counter instrs nargs cX hcompX d0 hd
  have hn : nargsM = nargs := by rw [h1, h2]
  subst hn
  exact C08_programs p args hooks instrs hdr nargsM cX d0 ops c' hsafe htp hcompM
    (C08_codeFits_of_size htp hsize hcompM) hcompX (labels_unique_rv hsafe hcompX) hfitX hd hentry hcap fuel v hfuel
    hrun mc hheap htop hbytes
    lines hhdr hlines hhook

/-- rung 5 on the TEXT: `RV.run` on the text of `compileRoutine`, given that this text loads -/
theorem C08_programs_text (p : AxCut.Prog) (args : List Word) (hooks : Bool) (counter : Nat) (text : String)
    (nargs : Nat) (d0 : Def)
    (hsafe : LabelSafe p = true) (htp : LinTypedProg p) (hsize : C08_sizeCheck p = true)
    (hcompX : compileRoutine p hooks counter = .ok (nargs, text))
    (hfitX : ∀ instrs, intoRoutine instrs = text → codeBase + 4 * instrs.length < 2 ^ 64)
    (hload : ∀ instrs, intoRoutine instrs = text → C08_TextLoads instrs)
    (hd : p.defs.head? = some d0) (hentry : ∀ b ∈ d0.ctx, b.chi = .ext ∧ b.ty = .i64)
    (hcap : ∀ st, Reachable p ⟨d0.ctx, args.map .int, d0.body⟩ st → st.ctx.length ≤ maxVariables)
    (fuel : Nat) (v : Word)
    (hrun : (Pos.run p args fuel).res = .done v)
    (mc : MonCfg) (hheap : mc.heap = false) (hwf : mc.wf = false) (htop : heapBase + mc.heapBytes ≤ 2 ^ 63)
    (hbytes : 128 + 64 * 15 * fuel ≤ mc.heapBytes) :
    ∃ fuel', (run text args fuel' mc).res = .done v := by
  unfold compileRoutine at hcompX
  cases hx : (compile rvBackend hooks p).run counter with
  | error e => rw [hx] at hcompX; cases hcompX
  | ok r =>
    obtain ⟨⟨instrs, nargs'⟩, cX⟩ := r
    rw [hx] at hcompX
    simp only [Except.ok.injEq, Prod.mk.injEq] at hcompX
    obtain ⟨rfl, rfl⟩ := hcompX
    obtain ⟨lines, hparse, hlines, hhook⟩ := hload instrs rfl
    obtain ⟨fuel', hf⟩ := C08_programs_checked p args hooks instrs [Code.COMMENT "actual code"] nargs' cX d0
      hsafe htp hsize hx (hfitX instrs rfl) hd hentry hcap fuel v hrun mc hheap htop hbytes
      lines (fun c hc => by simp at hc; subst hc; rfl) hlines hhook
    exact ⟨fuel', by rw [run_eq_runLines hparse args fuel' mc hwf]; exact hf⟩

/-! ## the capacity hypothesis from the static bound, for programs with closures -/

/-- the closures inside a value: the bodies of their methods stay within `k` variables (in the context
`clause context ++ closure environment`, as `ctxWithinStmt` checks them at `create`) -/
inductive ValLive (k : Nat) : Value → Prop where
  | int (n : Word) : ValLive k (.int n)
  | obj (tag : Nat) (fields : List Value) : (∀ v ∈ fields, ValLive k v) → ValLive k (.obj tag fields)
  | clo (ec : Ctx) (env : List Value) (cl : Clauses) : (∀ v ∈ env, ValLive k v) →
      ctxWithinClauses k cl [] ec = true → ValLive k (.clo ec env cl)

theorem mem_of_mem_dropLast' {α : Type} {l : List α} {a : α} (h : a ∈ l.dropLast) : a ∈ l := by
  rw [List.dropLast_eq_take] at h
  exact List.mem_of_mem_take h

theorem build_mem (Γ : Ctx) (ρ : List Value) : ∀ (pairs : List (Binding × Ident)) (vs : List Value),
    Pos.step.build Γ ρ pairs = .ok vs → ∀ v ∈ vs, v ∈ ρ
  | [], vs, h => by
    simp only [Pos.step.build] at h
    cases h
    intro v hv; cases hv
  | p :: ps, vs, h => by
    simp only [Pos.step.build] at h
    cases hr : readVar Γ ρ p.2 with
    | error e => simp [hr] at h
    | ok v0 =>
      cases hb : Pos.step.build Γ ρ ps with
      | error e => simp [hr, hb] at h
      | ok vs' =>
        simp only [hr, hb] at h
        cases h
        intro v hv
        rcases List.mem_cons.1 hv with rfl | hv
        · unfold readVar at hr
          split at hr
          · cases hr
          · split at hr
            · cases hr
            · rename_i i _ w hw
              cases hr
              exact List.mem_of_getElem? hw
        · exact build_mem Γ ρ ps vs' hb v hv

/-- one step of the positional machine keeps the static invariant, for ALL statements: the statement stays
within `k` variables, and so do the method bodies of every closure in the environment -/
theorem liveInv_step_all {k : Nat} {p : AxCut.Prog} (hlive : LiveAtMost k p)
    {st st' : Pos.State} {o : Option (Bool × Word)} (hs : Pos.step p st = .next st' o)
    (h1 : ctxWithinStmt k st.stmt st.ctx = true) (h2 : ∀ v ∈ st.env, ValLive k v) :
    ctxWithinStmt k st'.stmt st'.ctx = true ∧ ∀ v ∈ st'.env, ValLive k v := by
  obtain ⟨Γ, ρ, s⟩ := st
  simp only at h1 h2
  have hsnoc : ∀ (ρ0 : List Value) (w : Value), (∀ v ∈ ρ0, ValLive k v) → ValLive k w →
      ∀ v ∈ ρ0 ++ [w], ValLive k v := by
    intro ρ0 w h0 hw v hv
    rcases List.mem_append.1 hv with hv | hv
    · exact h0 v hv
    · simp only [List.mem_singleton] at hv; subst hv; exact hw
  cases s with
  | lit x n next fv =>
    simp only [Pos.step, Pos.StepResult.next.injEq] at hs
    obtain ⟨rfl, _⟩ := hs
    simp only [ctxWithinStmt, Bool.and_eq_true] at h1 ⊢
    exact ⟨h1.2, hsnoc ρ _ h2 (.int _)⟩
  | op x a o' b next fv =>
    simp only [Pos.step] at hs
    split at hs
    · cases hs
    · split at hs
      · cases hs
      · split at hs
        · cases hs
        · simp only [Pos.StepResult.next.injEq] at hs
          obtain ⟨rfl, _⟩ := hs
          simp only [ctxWithinStmt, Bool.and_eq_true] at h1 ⊢
          exact ⟨h1.2, hsnoc ρ _ h2 (.int _)⟩
  | print nl a next fv =>
    simp only [Pos.step] at hs
    split at hs
    · cases hs
    · simp only [Pos.StepResult.next.injEq] at hs
      obtain ⟨rfl, _⟩ := hs
      simp only [ctxWithinStmt, Bool.and_eq_true] at h1 ⊢
      exact ⟨h1.2, h2⟩
  | ifc srt a b t e =>
    simp only [ctxWithinStmt, Bool.and_eq_true] at h1
    simp only [Pos.step] at hs
    split at hs
    · cases hs
    · split at hs
      · simp only [Pos.StepResult.next.injEq] at hs
        obtain ⟨rfl, _⟩ := hs
        simp only
        refine ⟨?_, h2⟩
        split
        · exact h1.1.2
        · exact h1.2
      · split at hs
        · cases hs
        · simp only [Pos.StepResult.next.injEq] at hs
          obtain ⟨rfl, _⟩ := hs
          simp only
          refine ⟨?_, h2⟩
          split
          · exact h1.1.2
          · exact h1.2
  | exit a =>
    simp only [Pos.step] at hs
    split at hs <;> cases hs
  | letS x ty tag args next fv =>
    simp only [Pos.step] at hs
    split at hs
    · cases hs
    · split at hs
      · cases hs
      · simp only [Pos.StepResult.next.injEq] at hs
        obtain ⟨rfl, _⟩ := hs
        simp only [ctxWithinStmt, Bool.and_eq_true] at h1 ⊢
        refine ⟨h1.2, hsnoc _ _ (fun v hv => h2 v (List.mem_of_mem_take hv)) ?_⟩
        exact .obj _ _ (fun v hv => h2 v (List.mem_of_mem_drop hv))
  | switch x ty clauses fv =>
    simp only [ctxWithinStmt, Bool.and_eq_true] at h1
    simp only [Pos.step] at hs
    split at hs
    · rename_i b v hb hv
      split at hs
      · cases hs
      · split at hs
        · rename_i pos fields
          split at hs
          · cases hs
          · rename_i c hc
            split at hs
            · cases hs
            · simp only [Pos.StepResult.next.injEq] at hs
              obtain ⟨rfl, _⟩ := hs
              simp only
              have := ctxWithinClauses_nth k clauses Γ.dropLast [] _ c h1.2 hc
              rw [List.append_nil] at this
              refine ⟨this, ?_⟩
              have hvm : Value.obj pos fields ∈ ρ := List.mem_of_getLast? hv
              have hvl := h2 _ hvm
              intro w hw
              rcases List.mem_append.1 hw with hw | hw
              · exact h2 w (mem_of_mem_dropLast' hw)
              · cases hvl with
                | obj _ _ hf => exact hf w hw
        · cases hs
    · cases hs
  | create x ty env clauses next fc fn =>
    simp only [Pos.step] at hs
    cases env with
    | none => simp at hs
    | some Γc =>
      simp only at hs
      split at hs
      · cases hs
      · simp only [Pos.StepResult.next.injEq] at hs
        obtain ⟨rfl, _⟩ := hs
        simp only [ctxWithinStmt, Option.getD_some, Bool.and_eq_true] at h1 ⊢
        refine ⟨h1.2, hsnoc _ _ (fun v hv => h2 v (List.mem_of_mem_take hv)) ?_⟩
        exact .clo _ _ _ (fun v hv => h2 v (List.mem_of_mem_drop hv)) h1.1.2
  | invoke x tag ty args =>
    simp only [Pos.step] at hs
    split at hs
    · rename_i b v hb hv
      split at hs
      · cases hs
      · split at hs
        · rename_i Γc ρc cls
          split at hs
          · cases hs
          · split at hs
            · cases hs
            · rename_i pos hpos c hc
              split at hs
              · cases hs
              · simp only [Pos.StepResult.next.injEq] at hs
                obtain ⟨rfl, _⟩ := hs
                simp only
                have hvm : Value.clo Γc ρc cls ∈ ρ := List.mem_of_getLast? hv
                have hvl := h2 _ hvm
                cases hvl with
                | clo _ _ _ henv hcl =>
                  have := ctxWithinClauses_nth k cls [] Γc _ c hcl hc
                  rw [List.nil_append] at this
                  refine ⟨this, ?_⟩
                  intro w hw
                  rcases List.mem_append.1 hw with hw | hw
                  · exact h2 w (mem_of_mem_dropLast' hw)
                  · exact henv w hw
        · cases hs
    · cases hs
  | call l args =>
    simp only [Pos.step] at hs
    split at hs
    · cases hs
    · rename_i d hd
      split at hs
      · cases hs
      · simp only [Pos.StepResult.next.injEq] at hs
        obtain ⟨rfl, _⟩ := hs
        have hdm : d ∈ p.defs := List.mem_of_find?_eq_some hd
        exact ⟨hlive d hdm, h2⟩
  | subst pairs next =>
    simp only [Pos.step] at hs
    split at hs
    · cases hs
    · rename_i vs hb
      simp only [Pos.StepResult.next.injEq] at hs
      obtain ⟨rfl, _⟩ := hs
      simp only [ctxWithinStmt, Bool.and_eq_true] at h1 ⊢
      exact ⟨h1.2, fun v hv => h2 v (build_mem Γ ρ pairs vs hb v hv)⟩

/-- THE CAPACITY HYPOTHESIS FROM THE STATIC BOUND, FOR ALL PROGRAMS: in a program with at most `k` simultaneously
live variables (`LiveAtMost`, the hypothesis of `C08_statement`: at `create` it checks the method bodies in the
context `clause context ++ closure environment`), every state the positional machine reaches from the entry of a
definition with integer arguments has at most `k` variables -/
theorem C08_capacity_of_liveAtMost_all {k : Nat} {p : AxCut.Prog} (hlive : LiveAtMost k p)
    {d0 : Def} (hd0 : d0 ∈ p.defs) (args : List Word) :
    ∀ st, Reachable p ⟨d0.ctx, args.map .int, d0.body⟩ st → st.ctx.length ≤ k := by
  intro st hr
  have key : ctxWithinStmt k st.stmt st.ctx = true ∧ ∀ v ∈ st.env, ValLive k v := by
    induction hr with
    | refl =>
      refine ⟨hlive d0 hd0, ?_⟩
      intro v hv
      obtain ⟨n, _, rfl⟩ := List.mem_map.1 hv
      exact .int n
    | step _ hs ih => exact liveInv_step_all hlive hs ih.1 ih.2
  exact ctxWithin_length key.1

/-- `C08_programs_checked` with the STATIC hypothesis `LiveAtMost maxVariables p` of the C08 statement in place of
the bound on the reachable states: all hypotheses are decidable checks on the program, the emitted code and the
machine configuration, besides the run of the positional machine itself -/
theorem C08_programs_live (p : AxCut.Prog) (args : List Word) (hooks : Bool) (instrs hdr : List Code)
    (nargs cX : Nat) (d0 : Def)
    (hsafe : LabelSafe p = true) (htp : LinTypedProg p) (hsize : C08_sizeCheck p = true)
    (hlive : LiveAtMost maxVariables p)
    {counter : Nat} (hcompX : (compile rvBackend hooks p).run counter = .ok ((instrs, nargs), cX))
    (hfitX : codeBase + 4 * instrs.length < 2 ^ 64)
    (hd : p.defs.head? = some d0) (hentry : ∀ b ∈ d0.ctx, b.chi = .ext ∧ b.ty = .i64)
    (fuel : Nat) (v : Word)
    (hrun : (Pos.run p args fuel).res = .done v)
    (mc : MonCfg) (hheap : mc.heap = false) (htop : heapBase + mc.heapBytes ≤ 2 ^ 63)
    (hbytes : 128 + 64 * 15 * fuel ≤ mc.heapBytes)
    (lines : List (Nat × Code)) (hhdr : ∀ c ∈ hdr, c.isComment = true)
    (hlines : (lines.map (·.2)).map stripC = (hdr ++ instrs ++ [Code.LAB "cleanup"]).map stripC)
    (hhook : ∀ x ∈ lines, ¬ badHook x.2) :
    ∃ fuel', (runLines lines args fuel' mc).res = .done v := by
  have hmem : d0 ∈ p.defs := by
    cases hdefs : p.defs with
    | nil => rw [hdefs] at hd; simp at hd
    | cons d ds => rw [hdefs] at hd; simp at hd; subst hd; simp
  exact C08_programs_checked p args hooks instrs hdr nargs cX d0 hsafe htp hsize hcompX hfitX hd hentry
    (C08_capacity_of_liveAtMost_all hlive hmem args) fuel v hrun mc hheap htop hbytes lines hhdr hlines hhook

/-- END TO END FOR ALL PROGRAMS, on the parsed LINES of the emitted routine, FULL STRENGTH: without the two remaining
side hypotheses (routine below 2^64, the size check of the program), with the heap bound existentially quantified.
Proved with these decidable side hypotheses as `C08_programs_checked`. -/
def C08_programs_statement : Prop :=
  ∀ (p : AxCut.Prog) (args : List Word) (hooks : Bool) (instrs hdr : List Code) (nargs cX : Nat) (d0 : Def),
    LabelSafe p = true → LinTypedProg p →
    ∀ (counter : Nat), (compile rvBackend hooks p).run counter = .ok ((instrs, nargs), cX) →
    p.defs.head? = some d0 → (∀ b ∈ d0.ctx, b.chi = .ext ∧ b.ty = .i64) →
    (∀ st, Reachable p ⟨d0.ctx, args.map .int, d0.body⟩ st → st.ctx.length ≤ maxVariables) →
    ∀ (fuel : Nat) (v : Word), (Pos.run p args fuel).res = .done v →
    ∃ heapBytes, ∀ (mc : MonCfg), mc.heap = false → heapBase + mc.heapBytes ≤ 2 ^ 63 →
      heapBytes ≤ mc.heapBytes →
      ∀ (lines : List (Nat × Code)), (∀ c ∈ hdr, c.isComment = true) →
      (lines.map (·.2)).map stripC = (hdr ++ instrs ++ [Code.LAB "cleanup"]).map stripC →
      (∀ x ∈ lines, ¬ badHook x.2) →
      ∃ fuel', (runLines lines args fuel' mc).res = .done v

/-! ### non-vacuity 1: a closure stored in an object, loaded again, invoked (one method: `JALR`) -/

def C08_tFun : Ty := .decl ⟨"Fun", 0⟩
def C08_funDecl : TypeDecl := { name := ⟨"Fun", 0⟩, xtors := [⟨⟨"Ap", 0⟩, [⟨⟨"a", 202⟩, .ext, .i64⟩]⟩] }
def C08_tBoxF : Ty := .decl ⟨"BoxF", 0⟩
def C08_boxFDecl : TypeDecl := { name := ⟨"BoxF", 0⟩, xtors := [⟨⟨"B", 0⟩, [⟨⟨"v", 203⟩, .cns, C08_tFun⟩]⟩] }

/-- main(x) { create f : Fun = (x){ Ap(a) => s <- a + x; exit s }; let b = B(f);
      switch b { B(g) => lit n <- 5; subst (n := n)(g := g); invoke g Ap } } -/
def C08_cloMain : Def :=
  { name := ⟨"main", 0⟩, ctx := [⟨⟨"x", 1⟩, .ext, .i64⟩],
    body := .create ⟨"f", 2⟩ C08_tFun (some [⟨⟨"x", 1⟩, .ext, .i64⟩])
      (.cons ⟨"Ap", 0⟩ [⟨⟨"a", 3⟩, .ext, .i64⟩]
        (.op ⟨"s", 4⟩ ⟨"a", 3⟩ .sum ⟨"x", 1⟩ (.exit ⟨"s", 4⟩) none) .nil)
      (.letS ⟨"b", 5⟩ C08_tBoxF ⟨"B", 0⟩ [⟨⟨"f", 2⟩, .cns, C08_tFun⟩]
        (.switch ⟨"b", 5⟩ C08_tBoxF
          (.cons ⟨"B", 0⟩ [⟨⟨"g", 6⟩, .cns, C08_tFun⟩]
            (.lit ⟨"n", 7⟩ 5
              (.subst [(⟨⟨"n", 8⟩, .ext, .i64⟩, ⟨"n", 7⟩), (⟨⟨"g", 9⟩, .cns, C08_tFun⟩, ⟨"g", 6⟩)]
                (.invoke ⟨"g", 9⟩ ⟨"Ap", 0⟩ C08_tFun [⟨⟨"n", 8⟩, .ext, .i64⟩])) none) .nil) none) none) none none }

def C08_cloProg : AxCut.Prog := { defs := [C08_cloMain], types := [C08_funDecl, C08_boxFDecl], maxId := 205 }

def C08_cloInstrs : List Code :=
  match (compile rvBackendF true C08_cloProg).run 0 with
  | .ok ((code, _), _) => code
  | .error _ => []

set_option maxRecDepth 100000 in
theorem C08_cloInstrs_fits : codeBase + 4 * C08_cloInstrs.length < 2 ^ 64 := by decide

/-- the closure program started with x = 37: every hypothesis of `C08_programs_checked` holds, so the RV64
machine on the (canonical) lines of the emitted routine reaches `cleanup` with 42 in `X10` -/
example : ∃ fuel', (runLines (canonLines [Code.COMMENT "actual code"] C08_cloInstrs) [37] fuel' {}).res = .done 42 := by
  have hcompX : ∃ k, (compile rvBackend true C08_cloProg).run 0 = .ok ((C08_cloInstrs, 1), k) := by
    rw [← rvBackendF_eq]; exact ⟨_, rfl⟩
  obtain ⟨cX, hcompX⟩ := hcompX
  have hrun : (Pos.run C08_cloProg [37] 20).res = .done 42 := by decide
  exact C08_programs_checked C08_cloProg [37] true C08_cloInstrs [Code.COMMENT "actual code"] 1 cX C08_cloMain
    (by decide) (linTypedCheck_sound C08_cloProg rfl) (by decide)
    hcompX C08_cloInstrs_fits rfl (by decide)
    (C08_capacity_of_run C08_cloProg 20 _ (by decide) (by decide)) 20 42 hrun {} rfl (by decide)
    (by decide) _ (fun c hc => by simp at hc; subst hc; rfl) (canonLines_codes _ _) (canonLines_hooks _ _)

/-! ### non-vacuity 2: two methods (`add_and_jump` through the method table) -/

def C08_tOps : Ty := .decl ⟨"Ops", 0⟩
def C08_opsDecl : TypeDecl := { name := ⟨"Ops", 0⟩, xtors := [⟨⟨"Add", 0⟩, [⟨⟨"a", 204⟩, .ext, .i64⟩]⟩, ⟨⟨"Mul", 0⟩, [⟨⟨"a", 205⟩, .ext, .i64⟩]⟩] }

/-- main(x) { create p : Ops = (x){ Add(a) => s <- a + x; exit s, Mul(a) => s <- a * x; exit s };
      lit n <- 2; subst (n := n)(p := p); invoke p Mul } -/
def C08_opsMain : Def :=
  { name := ⟨"main", 0⟩, ctx := [⟨⟨"x", 1⟩, .ext, .i64⟩],
    body := .create ⟨"p", 2⟩ C08_tOps (some [⟨⟨"x", 1⟩, .ext, .i64⟩])
      (.cons ⟨"Add", 0⟩ [⟨⟨"a", 3⟩, .ext, .i64⟩]
        (.op ⟨"s", 4⟩ ⟨"a", 3⟩ .sum ⟨"x", 1⟩ (.exit ⟨"s", 4⟩) none)
        (.cons ⟨"Mul", 0⟩ [⟨⟨"a", 5⟩, .ext, .i64⟩]
          (.op ⟨"s", 6⟩ ⟨"a", 5⟩ .prod ⟨"x", 1⟩ (.exit ⟨"s", 6⟩) none) .nil))
      (.lit ⟨"n", 7⟩ 2
        (.subst [(⟨⟨"n", 8⟩, .ext, .i64⟩, ⟨"n", 7⟩), (⟨⟨"p", 9⟩, .cns, C08_tOps⟩, ⟨"p", 2⟩)]
          (.invoke ⟨"p", 9⟩ ⟨"Mul", 0⟩ C08_tOps [⟨⟨"n", 8⟩, .ext, .i64⟩])) none) none none }

def C08_opsProg : AxCut.Prog := { defs := [C08_opsMain], types := [C08_opsDecl], maxId := 205 }

def C08_opsInstrs : List Code :=
  match (compile rvBackendF true C08_opsProg).run 0 with
  | .ok ((code, _), _) => code
  | .error _ => []

set_option maxRecDepth 100000 in
theorem C08_opsInstrs_fits : codeBase + 4 * C08_opsInstrs.length < 2 ^ 64 := by decide

/-- the two-method program started with x = 21: the RV64 machine reaches `cleanup` with 42 in `X10` -/
example : ∃ fuel', (runLines (canonLines [Code.COMMENT "actual code"] C08_opsInstrs) [21] fuel' {}).res = .done 42 := by
  have hcompX : ∃ k, (compile rvBackend true C08_opsProg).run 0 = .ok ((C08_opsInstrs, 1), k) := by
    rw [← rvBackendF_eq]; exact ⟨_, rfl⟩
  obtain ⟨cX, hcompX⟩ := hcompX
  have hrun : (Pos.run C08_opsProg [21] 20).res = .done 42 := by decide
  exact C08_programs_checked C08_opsProg [21] true C08_opsInstrs [Code.COMMENT "actual code"] 1 cX C08_opsMain
    (by decide) (linTypedCheck_sound C08_opsProg rfl) (by decide)
    hcompX C08_opsInstrs_fits rfl (by decide)
    (C08_capacity_of_run C08_opsProg 20 _ (by decide) (by decide)) 20 42 hrun {} rfl (by decide)
    (by decide) _ (fun c hc => by simp at hc; subst hc; rfl) (canonLines_codes _ _) (canonLines_hooks _ _)

/-- the static bound of the C08 statement holds for the two closure programs … -/
theorem C08_cloProg_live : LiveAtMost maxVariables C08_cloProg := by
  intro d hd
  simp only [C08_cloProg, List.mem_singleton] at hd
  subst hd
  rfl

theorem C08_opsProg_live : LiveAtMost maxVariables C08_opsProg := by
  intro d hd
  simp only [C08_opsProg, List.mem_singleton] at hd
  subst hd
  rfl

/-- … so `C08_programs_live` applies: all hypotheses are checks, and the run -/
example : ∃ fuel', (runLines (canonLines [Code.COMMENT "actual code"] C08_cloInstrs) [37] fuel' {}).res = .done 42 := by
  have hcompX : ∃ k, (compile rvBackend true C08_cloProg).run 0 = .ok ((C08_cloInstrs, 1), k) := by
    rw [← rvBackendF_eq]; exact ⟨_, rfl⟩
  obtain ⟨cX, hcompX⟩ := hcompX
  have hrun : (Pos.run C08_cloProg [37] 20).res = .done 42 := by decide
  exact C08_programs_live C08_cloProg [37] true C08_cloInstrs [Code.COMMENT "actual code"] 1 cX C08_cloMain
    (by decide) (linTypedCheck_sound C08_cloProg rfl) (by decide) C08_cloProg_live
    hcompX C08_cloInstrs_fits rfl (by decide) 20 42 hrun {} rfl (by decide)
    (by decide) _ (fun c hc => by simp at hc; subst hc; rfl) (canonLines_codes _ _) (canonLines_hooks _ _)

example : ∃ fuel', (runLines (canonLines [Code.COMMENT "actual code"] C08_opsInstrs) [21] fuel' {}).res = .done 42 := by
  have hcompX : ∃ k, (compile rvBackend true C08_opsProg).run 0 = .ok ((C08_opsInstrs, 1), k) := by
    rw [← rvBackendF_eq]; exact ⟨_, rfl⟩
  obtain ⟨cX, hcompX⟩ := hcompX
  have hrun : (Pos.run C08_opsProg [21] 20).res = .done 42 := by decide
  exact C08_programs_live C08_opsProg [21] true C08_opsInstrs [Code.COMMENT "actual code"] 1 cX C08_opsMain
    (by decide) (linTypedCheck_sound C08_opsProg rfl) (by decide) C08_opsProg_live
    hcompX C08_opsInstrs_fits rfl (by decide) 20 42 hrun {} rfl (by decide)
    (by decide) _ (fun c hc => by simp at hc; subst hc; rfl) (canonLines_codes _ _) (canonLines_hooks _ _)

#print axioms Scc.RV.C08_create_rv
#print axioms Scc.RV.C08_invoke_rv
#print axioms Scc.RV.C08_programs
#print axioms Scc.RV.C08_programs_checked
#print axioms Scc.RV.C08_programs_text
#print axioms Scc.RV.C08_capacity_of_liveAtMost_all
#print axioms Scc.RV.C08_programs_live
#print axioms Scc.RV.Ref.labels_unique_rv

end Scc.RV
