/-
  Scc.Props.C14X86 — property C14 (the emitted assembly is well-formed) for the x86-64 backend.
  The validator is `Scc.X86.wfCheck` (Machine.lean: labels defined once, referenced labels defined or
  external, registers < 16, 32-bit displacement/immediate fields, `imul [mem], reg` does not exist,
  `jmp near` only in jump tables).

  * `C14_statement` — the full property, kept as a `def : Prop`, NOT proved.  It is no longer refuted by
    defect D5 (repaired in /repo 512f045: `C14_D5_regression`).  What it still lacks, as stated, are
    the hypotheses of `C14_statement_refined`: `ProgInRange` (literals are i64 values — true for every
    parsed program, the Lean type is `Int` —, < 4·10^8 xtors per type, < 2^31 pairs per substitution)
    and the name hypotheses `LabelSafe` / `CallsDefined` of C14Generic (user names with digits and
    underscores can collide with generated labels: `Scc.Props.C14Generic.collision_*`).  Not proved for
    the refined statement: label definedness / uniqueness for the x86 TEXT (proved for the generic
    generator on the mock backend in C14Generic), `jmp near` placement for the text, absence of
    `imul [mem], reg` (needs "the target of `op` is fresh", which `LinTypedProg` gives), and the
    print → parse round trip of the text.
  * PROVED:
      `C14_program_operand_ranges`  WHOLE PROGRAMS: every instruction of the routine (prologue, body,
                               epilogue) emitted for a program in range has registers < 16, every 32-bit
                               field in range and `mov r64, imm64` within i64 — for EVERY method the
                               generator can call, memory methods and parallel moves included;
                               `C14_program_no_imm_fault`: hence the machine fault `imm-out-of-range`
                               is unreachable in emitted code; `C14_program_operands`: every
                               instruction except a possible `imul [mem], reg` passes `codeOperandError`
      `C14_table_stride`       in the layout, entry k of a jump table is `jump_length(k) = 5k` bytes after
                               the table label; `C14_codeTable_shape`: code_table emits only `jmp near`
      `C14_operand_ranges`     what the backend computes from its constants fits the 32-bit fields:
                               `stack_offset(p)` for every spill slot, `field_offset` , `jump_length(k)`
      per method, full operand check (`OperandsOK` = `codeOperandError = none` for every code):
      `C14_arith_operands` (add sub mul div rem compare, every placement), `C14_mov_operands`,
      `C14_load_immediate_operands` (EVERY i64 literal, EVERY placement), `C14_load_immediate_no_imm_fault`,
      `C14_control_operands` (load_label, jump, add_and_jump, jump_label_if_*), `C14_print_operands`,
      `C14_pmoves_operands` (store/restore_temporary), `C14_memory_operands` (erase_block,
      share_block_n, store, load: every run of the generator), `C14_routine_operands` (setup/cleanup)
      `C14_D5_regression`, `C14_imul_witness`
-/
import Scc.X86.ProofsWfProg
import Scc.AxCut.LinTyping
import Scc.Props.C14Generic

namespace Scc.X86
open Scc.AxCut

/-- C14 (x86-64): the routine text of every compiled program passes the validator. -/
def C14_statement : Prop :=
  ∀ (p : AxCut.Prog) (hooks : Bool) (body routine : List Code) (nargs : Nat),
    LinTypedProg p → compileX86 p hooks 0 = .ok (body, nargs) → intoRoutine body nargs = .ok routine →
    wfCheck (printProg routine) = .ok ()

/-- C14 (x86-64) with the hypotheses it needs after the repair of D5 (see the header). Not proved. -/
def C14_statement_refined : Prop :=
  ∀ (p : AxCut.Prog) (hooks : Bool) (body routine : List Code) (nargs : Nat),
    LinTypedProg p → ProgInRange p → Scc.Props.C14Generic.LabelSafe p = true →
    Scc.Props.C14Generic.CallsDefined p →
    compileX86 p hooks 0 = .ok (body, nargs) → intoRoutine body nargs = .ok routine →
    wfCheck (printProg routine) = .ok ()

/-! ## whole programs: operand ranges -/

/-- the part of C14 about operands that holds for every program in range (no typing hypothesis) -/
def C14_operands_statement : Prop :=
  ∀ (p : AxCut.Prog) (hooks : Bool) (c0 : Nat) (body routine : List Code) (nargs : Nat),
    ProgInRange p → compileX86 p hooks c0 = .ok (body, nargs) → intoRoutine body nargs = .ok routine →
    ∀ code ∈ routine, codeRangeOK code

theorem C14_program_operand_ranges : C14_operands_statement :=
  fun _ _ _ _ _ _ hp h hr => routine_rangesOK hp h hr

/-- no emitted instruction can raise the machine fault `imm-out-of-range`: all its 32-bit fields pass
`imm32`, and `mov r64, imm64` passes its `fitsI64` guard -/
theorem C14_program_no_imm_fault {p : AxCut.Prog} {hooks : Bool} {c0 : Nat} {body routine : List Code}
    {nargs : Nat} (hp : ProgInRange p) (h : compileX86 p hooks c0 = .ok (body, nargs))
    (hr : intoRoutine body nargs = .ok routine) :
    ∀ code ∈ routine, (∀ i ∈ codeImm32s code, imm32 i = .ok (BitVec.ofInt 64 i)) ∧
      (∀ r i, code = .MOVI r i → fitsI64 i = true) :=
  fun code hc => imm_in_range_of_codeRangeOK (routine_rangesOK hp h hr code hc)

/-- every emitted instruction passes the validator's operand check, except possibly an
`imul [mem], reg` (emitted only for a `mul` whose spilled target is also a source) -/
theorem C14_program_operands {p : AxCut.Prog} {hooks : Bool} {c0 : Nat} {body routine : List Code}
    {nargs : Nat} (hp : ProgInRange p) (h : compileX86 p hooks c0 = .ok (body, nargs))
    (hr : intoRoutine body nargs = .ok routine) :
    ∀ code ∈ routine, codeOperandError code = none ∨ ∃ b i r, code = .IMULMR b i r := by
  intro code hc
  by_cases hm : ∃ b i r, code = .IMULMR b i r
  · exact Or.inr hm
  · exact Or.inl (operandOK_of_codeRangeOK (routine_rangesOK hp h hr code hc)
      (fun b i r e => hm ⟨b, i, r, e⟩))

/-- table_stride -/
theorem C14_table_stride (a0 : Nat) (T : String) (ls : List String) (rest : List Code) (k : Nat)
    (hk : k < ls.length) :
    (layoutFrom a0 (Code.LAB T :: (ls.map Code.JMPLN ++ rest)))[0]? = some a0 ∧
    (layoutFrom a0 (Code.LAB T :: (ls.map Code.JMPLN ++ rest)))[k + 1]? = some (a0 + 5 * k) ∧
    (Code.LAB T :: (ls.map Code.JMPLN ++ rest))[k + 1]? = some (Code.JMPLN ls[k]) ∧
    x86Backend.jumpLength k = 5 * (k : Int) :=
  let ⟨h1, h2, h3⟩ := table_stride a0 T ls rest k hk
  ⟨h1, h2, h3, jumpLength_eq k⟩

theorem C14_codeTable_shape (clauses : Clauses) (base : String) :
    ∃ ls : List String, Scc.Backend.codeTable x86Backend clauses base = ls.map Code.JMPLN :=
  codeTable_jmplns clauses base

/-- operand ranges from the constants (SPILL_NUM = 256, FIELDS_PER_BLOCK = 3, stride 5) -/
theorem C14_operand_ranges :
    (∀ p, p < 256 → fitsI32 (stackOffset p) = true) ∧
    (∀ n i, i ≤ 3 → fitsI32 (fieldOffset n i) = true) ∧
    (∀ k, k ≤ 400000000 → fitsI32 (jumpLength k) = true) ∧
    fitsI32 SPILL_SPACE = true ∧ fitsI32 (address 1) = true :=
  ⟨fun _ hp => fitsI32_stackOffset hp, fun n _ hi => fitsI32_fieldOffset n (by omega),
   fun _ hk => fitsI32_jumpLength hk, by decide, by decide⟩

theorem C14_mov_operands {t s : Temporary} (ht : OpndOK t) (hs : OpndOK s) : OperandsOK (mov t s) :=
  operandsOK_mov ht hs

/-- add / sub / mul / div / rem / compare with valid temporaries emit only encodable instructions
(for `mul`: except the aliased spilled target, `C14_imul_witness`) -/
theorem C14_arith_operands {t s1 s2 : Temporary} (ht : OpndOK t) (h1 : OpndOK s1) (h2 : OpndOK s2) :
    OperandsOK (add t s1 s2) ∧ OperandsOK (sub t s1 s2) ∧
    ((∀ p, t = .spill p → t ≠ s1 ∧ t ≠ s2) → OperandsOK (mul t s1 s2)) ∧
    OperandsOK (div t s1 s2) ∧ OperandsOK (rem t s1 s2) ∧ OperandsOK (compare s1 s2) :=
  ⟨operandsOK_add ht h1 h2, operandsOK_sub ht h1 h2, operandsOK_mul ht h1 h2,
   (operandsOK_div ht h1 h2).1, (operandsOK_div ht h1 h2).2, operandsOK_compare h1 h2⟩

/-- `load_immediate` emits only encodable instructions for EVERY `i64` literal and EVERY placement
(repaired code, /repo 512f045; formerly exactly the D5 condition `fitsI32 v ∨ t is a register`) -/
theorem C14_load_immediate_operands {t : Temporary} (ht : OpndOK t) {v : Int} (h64 : fitsI64 v = true) :
    OperandsOK (loadImmediate t v) :=
  operandsOK_loadImmediate ht h64

/-- … hence the machine's `imm-out-of-range` fault is never reached by `load_immediate` code: every
32-bit field of every emitted instruction passes the machine's `imm32`, and the only 64-bit immediate
(`mov r64, imm64`) passes its `fitsI64` guard. -/
theorem C14_load_immediate_no_imm_fault {t : Temporary} (ht : OpndOK t) {v : Int} (h64 : fitsI64 v = true) :
    ∀ code ∈ loadImmediate t v,
      (∀ i ∈ codeImm32s code, imm32 i = .ok (BitVec.ofInt 64 i)) ∧
      (∀ r i, code = .MOVI r i → fitsI64 i = true) :=
  fun code hc => imm_in_range_of_operandOK (operandsOK_loadImmediate ht h64 code hc)

/-- REGRESSION for D5 (repaired): the instructions emitted for the 64-bit literal 4294967297 bound to
a spilled variable are `mov rcx, imm64; mov [rsp + off], rcx`, and both are accepted (before the
repair: `mov qword [rsp + off], imm64`, rejected). -/
theorem C14_D5_regression {p : Nat} (hp : p < 256) :
    loadImmediate (.spill p) 4294967297 = [.MOVI TEMP 4294967297, .MOVS TEMP STACK (stackOffset p)] ∧
    ∀ code ∈ loadImmediate (.spill p) 4294967297, codeOperandError code = none :=
  ⟨loadImmediate_spill_wide p (by decide), operandsOK_loadImmediate (t := .spill p) hp (by decide)⟩

/-- load_label, jump, add_and_jump (a 32-bit increment), the twelve conditional jumps -/
theorem C14_control_operands {t a b : Temporary} (ht : OpndOK t) (ha : OpndOK a) (hb : OpndOK b)
    (l : String) (sort : IfSort) {imm : Int} (hi : fitsI32 imm = true) :
    OperandsOK (loadLabel t l) ∧ OperandsOK (jump t) ∧ OperandsOK (addAndJump t imm) ∧
    OperandsOK (jumpLabelIf sort a b l) ∧ OperandsOK (jumpLabelIfZero sort a l) :=
  ⟨operandsOK_loadLabel ht l, operandsOK_jump ht, operandsOK_addAndJump ht hi,
   operandsOK_jumpLabelIf sort ha hb l, operandsOK_jumpLabelIfZero sort ha l⟩

/-- print_i64 / println_i64 with its caller-save dance, every context -/
theorem C14_print_operands (nl : Bool) {t : Temporary} (ht : OpndOK t) (ctx : Ctx) :
    OperandsOK (printI64 nl t ctx) := operandsOK_printI64 nl ht ctx

/-- parallel_moves.rs store_temporary / restore_temporary -/
theorem C14_pmoves_operands {t : Temporary} (ht : OpndOK t) (sp : Bool) :
    OperandsOK (storeTemporary t sp) ∧ OperandsOK (restoreTemporary t sp) :=
  ⟨operandsOK_storeTemporary ht sp, operandsOK_restoreTemporary ht sp⟩

/-- memory.rs: whatever `erase_block`, `share_block_n` (count below 2^31), `store`, `load` return
(for every counter value, every context) passes the operand check -/
theorem C14_memory_operands {t : Temporary} (ht : OpndOK t) {n : Nat} (hn : fitsI32 (n : Int) = true)
    (a b : Ctx) :
    Post (eraseBlock t) OperandsOK ∧ Post (shareBlockN t n) OperandsOK ∧
    Post (store a b) OperandsOK ∧ Post (load a b) OperandsOK :=
  ⟨postOK_eraseBlock ht, postOK_shareBlockN ht hn, postOK_store a b, postOK_load a b⟩

/-- into_routine.rs: prologue and epilogue add only encodable instructions -/
theorem C14_routine_operands {body routine : List Code} {n : Nat} (hb : OperandsOK body)
    (h : intoRoutine body n = .ok routine) : OperandsOK routine := operandsOK_intoRoutine hb h

/-- `imul [mem], reg` is rejected -/
theorem C14_imul_witness (b : Nat) (i : Int) (r : Nat) : codeOperandError (.IMULMR b i r) ≠ none := by
  simp only [codeOperandError]
  split
  · simp
  · split <;> simp

/-! ## Non-vacuity -/

example : (layoutFrom 0x400000 (Code.LAB "T" :: (["T_A", "T_B", "T_C"].map Code.JMPLN ++ [Code.RET])))[3]?
    = some (0x400000 + 5 * 2) := (C14_table_stride 0x400000 "T" ["T_A", "T_B", "T_C"] [Code.RET] 2 (by decide)).2.1

example : OperandsOK (mov (.spill 3) (.spill 200)) :=
  C14_mov_operands (show 3 < 256 by decide) (show 200 < 256 by decide)

/-- the D5 literal into spill slot 2 (the 7th variable) -/
example : OperandsOK (loadImmediate (.spill 2) 4294967297) :=
  C14_load_immediate_operands (t := .spill 2) (show 2 < 256 by decide) (by decide)

/-- a program in range that compiles: `def main() { lit x <- 4294967297; exit x }` -/
def C14_exProg : AxCut.Prog :=
  ⟨[⟨⟨"main", 0⟩, [], .lit ⟨"x", 1⟩ 4294967297 (.exit ⟨"x", 1⟩) none⟩], [], 1⟩

theorem C14_exProg_inRange : ProgInRange C14_exProg := by
  refine ⟨by simp [C14_exProg], ?_⟩
  intro d hd
  simp only [C14_exProg, List.mem_singleton] at hd
  subst hd
  simp only [StmtB, and_true]
  decide

example : ∃ body nargs routine, compileX86 C14_exProg false 0 = .ok (body, nargs) ∧
    intoRoutine body nargs = .ok routine ∧ ∀ code ∈ routine, codeRangeOK code :=
  ⟨_, _, _, rfl, rfl, C14_program_operand_ranges C14_exProg false 0 _ _ _ C14_exProg_inRange rfl rfl⟩

/-- memory methods really return code (non-vacuity of `Post`) -/
example : ∃ code c', (shareBlockN (.spill 7) 3).run 0 = .ok (code, c') := ⟨_, _, rfl⟩

end Scc.X86

#print axioms Scc.X86.C14_program_operand_ranges
#print axioms Scc.X86.C14_program_no_imm_fault
#print axioms Scc.X86.C14_program_operands
#print axioms Scc.X86.C14_control_operands
#print axioms Scc.X86.C14_print_operands
#print axioms Scc.X86.C14_pmoves_operands
#print axioms Scc.X86.C14_memory_operands
#print axioms Scc.X86.C14_routine_operands
#print axioms Scc.X86.C14_table_stride
#print axioms Scc.X86.C14_codeTable_shape
#print axioms Scc.X86.C14_operand_ranges
#print axioms Scc.X86.C14_arith_operands
#print axioms Scc.X86.C14_mov_operands
#print axioms Scc.X86.C14_load_immediate_operands
#print axioms Scc.X86.C14_load_immediate_no_imm_fault
#print axioms Scc.X86.C14_D5_regression
#print axioms Scc.X86.C14_imul_witness
