/-
  Scc.Props.C14LoaderA64Names — EVERY ROUTINE THE AArch64 BACKEND MODEL EMITS LOADS, from decidable checks
  on the PROGRAM (nothing is evaluated on the routine, the parser is never run):

    `C14A_namesTextSafe p : Bool`   the names check (`progNamesOK okcA`, Scc/X86/LoaderNames.lean): every
                              identifier of the linearized program (definition names, variables, xtor tags)
                              consists of characters in `okcA` — no white space, none of `, : [ ] !`, and
                              not `.` `/` `#` —, type names have no line break, the mangled name of every
                              type a `switch`/`create` dispatches on consists of `okcA` characters;
    `C14A_inRangeB p : Bool`        ≤ 1024 xtors per type, ≤ 4096 pairs per substitution (the bounds of the
                              12-bit immediate of `ADD`: jump-table offset `4·k`, share count);
    `C14A_routine_operands`   (C14-T4 for WHOLE PROGRAMS, new) every item of the emitted body / routine passes
                              the per-instruction check `Code.wf` of the monitor `wf` (operand classes and
                              ranges; in particular every register exists);
    `C14A_routine_textOK`     every item of the emitted body / routine passes `codeTextOK`;
    `C14A_routine_loads`      `parseText (printProg routine) = .ok (numberFrom 1 (progPLines routine))`;
    `C14A_routine_run`        `run (printProg routine) … = runProg (layout (numberFrom 1 (progPLines routine))) …`;
    `C14A_routine_lines`      the parsed lines are the routine in the sense of `CC.Lines` — see
                              Props/C14LoaderA64Compose.lean for the composition with C13;
    for all programs, both hook settings, every counter start.
  Through: the generic lifting `Backend.NamesC.post_compileR_namesC` (Scc/Backend/LoaderNamesC.lean: which
  strings the generator hands to label / comment methods; every comment is `CommentOK`: no line break, and
  either not a `#ctx [` text or exactly the hook comment of a context), the AArch64 instance
  `Loader.opsNamesC_a64` (every backend method, memory methods included: labels `lab<n>`, literal
  comments), and `Loader.opsSat_a64` (the instance of `X86.OpsSat` from `C14_methods_wf`).
  WHY `#` IS EXCLUDED FROM NAMES: the `op` comment `x <- a + b;` and the `call` comment `f(...)` start with a
  NAME; a name starting with `#ctx [` would turn them into malformed hooks = parse errors
  (`C14A_names_needed_hash`).  `.`/`/`: a definition `.f` gives the label `.f_`, read as a directive.
  NOT proved: that every program the front end accepts has text-safe names at stage 5 (the checks are
  evaluated per program: of the 372 `.sc` files under /repo and /verif/gen/corpus the front end accepts 249;
  ALL 249 pass `C14A_namesTextSafe` and `C14A_inRangeB` at stage 5, and — cross-check by evaluation — the
  hook-instrumented routine of each passes `codeTextOK` item by item and is parsed by `parseText`).
-/
import Scc.Props.C14LoaderA64
import Scc.A64.LoaderRoutine

namespace Scc.A64

open Scc.A64.Loader Scc.AxCut
open Scc.X86 (StmtB ClausesB ProgB)

/-- **the decidable hypothesis on the names of the linearized program** -/
def C14A_namesTextSafe (p : AxCut.Prog) : Bool := Scc.X86.Loader.progNamesOK okcA p

mutual
  def C14A_stmtRangeB : Stmt → Bool
    | .subst pairs next => decide (pairs.length ≤ maxSubstA64) && C14A_stmtRangeB next
    | .call _ _ => true
    | .letS _ _ _ _ next _ => C14A_stmtRangeB next
    | .switch _ _ clauses _ => C14A_clausesRangeB clauses
    | .create _ _ _ clauses next _ _ => C14A_clausesRangeB clauses && C14A_stmtRangeB next
    | .invoke _ _ _ _ => true
    | .lit _ _ next _ => C14A_stmtRangeB next
    | .op _ _ _ _ next _ => C14A_stmtRangeB next
    | .print _ _ next _ => C14A_stmtRangeB next
    | .ifc _ _ _ thenc elsec => C14A_stmtRangeB thenc && C14A_stmtRangeB elsec
    | .exit _ => true
  def C14A_clausesRangeB : Clauses → Bool
    | .nil => true
    | .cons _ _ body rest => C14A_stmtRangeB body && C14A_clausesRangeB rest
end

/-- **the decidable bounds**: ≤ 1024 xtors per type, ≤ 4096 pairs per substitution -/
def C14A_inRangeB (p : AxCut.Prog) : Bool :=
  p.types.all (fun d => decide (d.xtors.length ≤ maxTagsA64)) && p.defs.all (fun d => C14A_stmtRangeB d.body)

mutual
  theorem C14A_stmtRangeB_sound : ∀ s : Stmt, C14A_stmtRangeB s = true → StmtB (fun _ => True) maxSubstA64 s
    | .subst pairs next, h => by
      simp only [C14A_stmtRangeB, Bool.and_eq_true, decide_eq_true_eq] at h
      simp only [StmtB]; exact ⟨h.1, C14A_stmtRangeB_sound next h.2⟩
    | .call _ _, _ => by simp [StmtB]
    | .letS _ _ _ _ next _, h => by
      simp only [C14A_stmtRangeB] at h; simp only [StmtB]; exact C14A_stmtRangeB_sound next h
    | .switch _ _ cl _, h => by
      simp only [C14A_stmtRangeB] at h; simp only [StmtB]; exact C14A_clausesRangeB_sound cl h
    | .create _ _ _ cl next _ _, h => by
      simp only [C14A_stmtRangeB, Bool.and_eq_true] at h
      simp only [StmtB]; exact ⟨C14A_clausesRangeB_sound cl h.1, C14A_stmtRangeB_sound next h.2⟩
    | .invoke _ _ _ _, _ => by simp [StmtB]
    | .lit _ _ next _, h => by
      simp only [C14A_stmtRangeB] at h; simp only [StmtB]; exact ⟨trivial, C14A_stmtRangeB_sound next h⟩
    | .op _ _ _ _ next _, h => by
      simp only [C14A_stmtRangeB] at h; simp only [StmtB]; exact C14A_stmtRangeB_sound next h
    | .print _ _ next _, h => by
      simp only [C14A_stmtRangeB] at h; simp only [StmtB]; exact C14A_stmtRangeB_sound next h
    | .ifc _ _ _ t e, h => by
      simp only [C14A_stmtRangeB, Bool.and_eq_true] at h
      simp only [StmtB]; exact ⟨C14A_stmtRangeB_sound t h.1, C14A_stmtRangeB_sound e h.2⟩
    | .exit _, _ => by simp [StmtB]
  theorem C14A_clausesRangeB_sound : ∀ c : Clauses, C14A_clausesRangeB c = true →
      ClausesB (fun _ => True) maxSubstA64 c
    | .nil, _ => by simp [ClausesB]
    | .cons _ _ body rest, h => by
      simp only [C14A_clausesRangeB, Bool.and_eq_true] at h
      simp only [ClausesB]; exact ⟨C14A_stmtRangeB_sound body h.1, C14A_clausesRangeB_sound rest h.2⟩
end

theorem C14A_inRangeB_sound {p : AxCut.Prog} (h : C14A_inRangeB p = true) : ProgInRangeA64 p := by
  simp only [C14A_inRangeB, Bool.and_eq_true, List.all_eq_true, decide_eq_true_eq] at h
  exact ⟨h.1, fun d hd => C14A_stmtRangeB_sound d.body (h.2 d hd)⟩

section
variable {p : AxCut.Prog} {hooks : Bool} {c0 : Nat} {body routine : List Code} {nargs : Nat}

/-- C14-T4 for WHOLE PROGRAMS (AArch64): operand classes and ranges of every emitted item -/
theorem C14A_routine_operands (hrange : C14A_inRangeB p = true)
    (h : compileProg a64Backend p hooks c0 = .ok (body, nargs, routine)) :
    allWf body = true ∧ allWf routine = true :=
  routine_wf (C14A_inRangeB_sound hrange) h

/-- every item of the emitted body and routine is text-safe -/
theorem C14A_routine_textOK (hrange : C14A_inRangeB p = true) (hnames : C14A_namesTextSafe p = true)
    (h : compileProg a64Backend p hooks c0 = .ok (body, nargs, routine)) :
    (∀ c ∈ body, codeTextOK c = true) ∧ (∀ c ∈ routine, codeTextOK c = true) :=
  routine_codeTextOK (C14A_inRangeB_sound hrange) hnames h

/-- **EVERY ROUTINE OF THE AArch64 BACKEND MODEL LOADS** -/
theorem C14A_routine_loads (hrange : C14A_inRangeB p = true) (hnames : C14A_namesTextSafe p = true)
    (h : compileProg a64Backend p hooks c0 = .ok (body, nargs, routine)) :
    parseText (printProg routine) = .ok (numberFrom 1 (progPLines routine)) :=
  C14A_loader routine (C14A_routine_textOK hrange hnames h).2

/-- … and the machine on its text is the machine on the layout of its items' lines -/
theorem C14A_routine_run (hrange : C14A_inRangeB p = true) (hnames : C14A_namesTextSafe p = true)
    (h : compileProg a64Backend p hooks c0 = .ok (body, nargs, routine))
    (args : List Word) (fuel : Nat) (cfg : MonCfg) (hwf : cfg.wf = false) :
    run (printProg routine) args fuel cfg = runProg (layout (numberFrom 1 (progPLines routine))) args fuel cfg :=
  C14A_run routine (C14A_routine_textOK hrange hnames h).2 args fuel cfg hwf

/-- the executable per-item check of the test driver is true on every emitted item, without evaluation -/
theorem C14A_routine_roundTrips (hrange : C14A_inRangeB p = true) (hnames : C14A_namesTextSafe p = true)
    (h : compileProg a64Backend p hooks c0 = .ok (body, nargs, routine)) :
    ∀ c ∈ routine, c.roundTrips = true :=
  fun c hc => C14A_roundTrips c ((C14A_routine_textOK hrange hnames h).2 c hc)
end

/-! ## the names hypothesis cannot be dropped -/

/-- a definition named `a b` gives the label `a b_`, which is not text-safe; a definition named `.f`
    gives `.f_`, which the loader takes for a directive -/
theorem C14A_names_needed :
    let p1 : AxCut.Prog := ⟨[⟨⟨"a b", 0⟩, [], .exit ⟨"x", 1⟩⟩], [], 1⟩
    let p2 : AxCut.Prog := ⟨[⟨⟨".f", 0⟩, [], .exit ⟨"x", 1⟩⟩], [], 1⟩
    C14A_namesTextSafe p1 = false ∧ codeTextOK (.LAB "a b_") = false ∧
    C14A_namesTextSafe p2 = false ∧ codeTextOK (.LAB ".f_") = false := by decide

/-- a variable named `#ctx [v` turns the `op` comment into a malformed hook: the names check rejects
    the program and the emitted comment is not text-safe (the loader answers PARSE-ERROR, `#eval` below) -/
def C14A_hashProg : AxCut.Prog :=
  ⟨[⟨⟨"main", 0⟩, [⟨⟨"a", 1⟩, .ext, .i64⟩],
     .op ⟨"#ctx [v", 0⟩ ⟨"a", 1⟩ .sum ⟨"a", 1⟩ (.exit ⟨"a", 1⟩) none⟩], [], 1⟩

theorem C14A_names_needed_hash :
    C14A_namesTextSafe C14A_hashProg = false ∧
    codeTextOK (.COMMENT ("#ctx [v" ++ " <- " ++ "a_1" ++ " " ++ "+" ++ " " ++ "a_1" ++ ";")) = false := by decide

#eval match compileProg a64Backend C14A_hashProg false 0 with
  | .ok (_, _, routine) => (parseText (printProg routine)).toOption.isSome   -- false: PARSE-ERROR
  | .error _ => true

/-! ## non-vacuity -/

/-- the counting loop of Props/C13A64.lean -/
def C14A_loopProg : AxCut.Prog :=
  ⟨[⟨⟨"main", 0⟩, [⟨⟨"n", 1⟩, .ext, .i64⟩, ⟨⟨"acc", 2⟩, .ext, .i64⟩],
     .ifc .le ⟨"n", 1⟩ none
       (.print true ⟨"acc", 2⟩ (.exit ⟨"acc", 2⟩) none)
       (.lit ⟨"one", 3⟩ 1 (.op ⟨"n", 4⟩ ⟨"n", 1⟩ .sub ⟨"one", 3⟩ (.op ⟨"acc", 5⟩ ⟨"acc", 2⟩ .sum ⟨"n", 1⟩
         (.subst [(⟨⟨"n", 4⟩, .ext, .i64⟩, ⟨"n", 4⟩), (⟨⟨"acc", 5⟩, .ext, .i64⟩, ⟨"acc", 5⟩)]
           (.call ⟨"main", 0⟩ [])) none) none) none)⟩], [], 5⟩

example : C14A_namesTextSafe C14A_loopProg = true ∧ C14A_inRangeB C14A_loopProg = true := by decide

example : ∃ routine, parseText (printProg routine) = .ok (numberFrom 1 (progPLines routine)) ∧
    routine.length = 76 := by
  have hok : ∃ r, compileProg a64Backend C14A_loopProg true 0 = .ok r := ⟨_, rfl⟩
  obtain ⟨⟨body, nargs, routine⟩, hcomp⟩ := hok
  refine ⟨routine, C14A_routine_loads (by decide) (by decide) hcomp, ?_⟩
  have : routine = (compileProg a64Backend C14A_loopProg true 0 |>.toOption.getD ([], 0, [])).2.2 := by
    rw [hcomp]; rfl
  rw [this]; decide

end Scc.A64

#print axioms Scc.A64.C14A_inRangeB_sound
#print axioms Scc.A64.C14A_routine_operands
#print axioms Scc.A64.C14A_routine_textOK
#print axioms Scc.A64.C14A_routine_loads
#print axioms Scc.A64.C14A_routine_run
#print axioms Scc.A64.C14A_routine_roundTrips
#print axioms Scc.A64.C14A_names_needed
#print axioms Scc.A64.C14A_names_needed_hash
