/-
  Scc.Props.C17Labels — C17-T1 `label_counter_independent` (FULL): the process-global label counter
  of axcut2backend (fresh_labels.rs) is used ONLY to build label names.

  The generator functions `…R` of Generic.lean take the rendering `ren : Nat → String` of label
  numbers as a parameter (`compile = compileR natRen`, `natRen = toString`, is what the Rust does).
  Theorem: running from counter `c + d` with renderer `ren` gives exactly the result of running from
  counter `c` with the SHIFTED renderer `n ↦ ren (n + d)` (and the final counter shifted by `d`):
  nothing but the names of the generated labels `lab<N>`, `<Type>_<N>`, `<Type>_<N>_<xtor>` depends on
  the start value, and it depends on it through the renaming `N ↦ N + d`.
  Holds for every backend whose monadic operations are shift invariant (`ShiftInvOps`), in particular
  for the mock backend.
-/
import Scc.Backend.Proofs

namespace Scc.Props.C17Labels

open Scc Scc.AxCut Scc.Backend

def C17_T1_statement : Prop :=
  ∀ (hooks : Bool) (p : Prog) (ren : Nat → String) (c d : Nat),
    (compileR mockSym hooks ren p).run (c + d) =
      shiftRes d ((compileR mockSym hooks (fun n => ren (n + d)) p).run c)

/-- generic form, for every backend with shift-invariant monadic operations -/
theorem label_counter_independent_generic {Code T : Type} (B : Backend Code T) (H : ShiftInvOps B)
    (hooks : Bool) (p : Prog) (ren : Nat → String) (c d : Nat) :
    (compileR B hooks ren p).run (c + d) =
      shiftRes d ((compileR B hooks (fun n => ren (n + d)) p).run c) :=
  (CI_compileR B H hooks p).run ren c d

theorem label_counter_independent : C17_T1_statement :=
  fun hooks p ren c d => label_counter_independent_generic mockSym shiftInvOps_mockSym hooks p ren c d

/-- two counter starts `c₁ ≤ c₂`: the output for `c₂` is the output for `c₁` computed with label
    numbers shifted by `c₂ − c₁` -/
theorem label_counter_two_starts (hooks : Bool) (p : Prog) (c₁ c₂ : Nat) (h : c₁ ≤ c₂) :
    (compile mockSym hooks p).run c₂ =
      shiftRes (c₂ - c₁)
        ((compileR mockSym hooks (fun n => toString (n + (c₂ - c₁))) p).run c₁) := by
  have := label_counter_independent hooks p natRen c₁ (c₂ - c₁)
  rw [show c₁ + (c₂ - c₁) = c₂ by omega] at this
  exact this

/-- every run is the run from 0 of ONE counter-free skeleton `F`, applied to the shifted renderer -/
theorem label_counter_skeleton (hooks : Bool) (p : Prog) :
    ∃ F : (Nat → String) → Except String ((List MockOp × Nat) × Nat),
      ∀ c, (compile mockSym hooks p).run c = shiftRes c (F (fun n => toString (n + c))) :=
  ⟨fun r => (compileR mockSym hooks r p).run 0, fun c => by
    have := label_counter_independent hooks p natRen 0 c
    rw [Nat.zero_add] at this
    exact this⟩

/-! non-vacuity: a program with an `ifc` and a two-clause `switch`; the label events (definitions and
    references, in code order) from counter 0 and from counter 41 differ exactly by `N ↦ N + 41` -/

private def exProg : Prog :=
  { defs := [⟨⟨"main", 0⟩, [⟨⟨"x", 1⟩, .ext, .i64⟩, ⟨⟨"v", 2⟩, .prd, .decl ⟨"List[i64]", 0⟩⟩],
      .ifc .lt ⟨"x", 1⟩ none
        (.switch ⟨"v", 2⟩ (.decl ⟨"List[i64]", 0⟩)
          (.cons ⟨"Nil", 0⟩ [] (.exit ⟨"x", 1⟩) (.cons ⟨"Cons", 0⟩ [] (.exit ⟨"x", 1⟩) .nil)) none)
        (.exit ⟨"x", 1⟩)⟩],
    types := [], maxId := 2 }

private def labelNames (c : Nat) : List String :=
  match (compile mockSym true exProg).run c with
  | .ok ((code, _), _) => code.filterMap fun
      | .label n => some n
      | .jifz _ _ n => some n
      | .ll _ n => some n
      | .jumpFixed n => some n
      | _ => none
  | .error _ => []

example : labelNames 0 = ["main_", "lab1", "lab1", "List_i64_2", "List_i64_2", "List_i64_2_Nil",
    "List_i64_2_Cons", "List_i64_2_Nil", "List_i64_2_Cons"] := by decide
example : labelNames 41 = ["main_", "lab42", "lab42", "List_i64_43", "List_i64_43", "List_i64_43_Nil",
    "List_i64_43_Cons", "List_i64_43_Nil", "List_i64_43_Cons"] := by decide

#print axioms label_counter_independent
#print axioms label_counter_two_starts
#print axioms label_counter_skeleton

end Scc.Props.C17Labels
