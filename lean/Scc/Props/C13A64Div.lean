/-
  Scc.Props.C13A64Div — property C13 (calling convention), DYNAMIC part, for ALL PROGRAMS on AArch64, WITHOUT THE
  HYPOTHESIS THAT THE POSITIONAL MACHINE DOES NOT GET STUCK: the extension of Props/C13A64All.lean to runs that
  divide by zero or overflow a division.

  `C13_statement` (Props/C13A64.lean) permits, besides `done v` and `outOfFuel`, the faults `div-by-zero` and
  `div-overflow`.  The theorems of Props/C13A64All.lean assume `∀ fuel w, (Pos.run p args fuel).res ≠ .stuck w`
  ("the simulation says nothing about stuck steps").  Here that hypothesis is REMOVED: the positional machine of a
  linearly typed program gets stuck only at an `op` whose operator is undefined (`Pos.runState_safe`,
  `Pos.stuck_op`, Scc/A64/ConcKDiv.lean); the AArch64 machine runs — without any fault — to the `SDIV` of that `op`
  (`op_fault`: every placement of target and operands in registers and spill slots, `div` and `rem`), and the
  `SDIV` faults with `div-by-zero` resp. `div-overflow` (`Ref.K.step3_stuck`, `ConcK.run3_stuck`,
  `ConcK.programs_dsize_div`, Scc/A64/ConcKStuck.lean).

  PROVED (axioms propext, Classical.choice, Quot.sound):
  * `C13_a64_outcome_div`   under the hypotheses of `C07_programs_text`, at most `D` fields of object and closure
        data held by the variables, a heap of `64·(D + A + 2)` bytes: for EVERY machine fuel (below `2^64 / (M + 1)`)
        and EVERY setting of the heap monitor and of the validator, `run (printProg routine)` ends in `outOfFuel`,
        `done v`, `fault div-by-zero`, `fault div-overflow`, or (heap monitor on) a report of the heap monitor.
  * `C13_a64_cc_never_fires_div`   hence the calling-convention monitor never fires (`CCSafe`), and with the heap
        monitor off the result is an outcome `C13_statement` permits (`C13_a64_allowed`).
  * `C13_a64_div_agrees`   with the heap monitor off the machine's outcome is that of the positional machine:
        `done v` only if the positional machine returns `v`, a division fault only if it is stuck on that division.
  * NON-VACUITY: `C13A_divProg` (main(x) { lit z <- 0; q <- x / z; exit q }) — for every fuel below 2^58 the machine
        is out of fuel or ends in `fault div-by-zero`, never in `done` (`C13A_div_faults`; `#eval`: the fault, after 12
        instructions); every hypothesis of the theorems holds for it, heap monitor and validator on.
  WHAT REMAINS of `C13_statement`: machine fuel beyond `2^64 / (M + 1)`, the hypotheses `LabelSafe` and
  `C07_a64Checks`, the sane machine configurations, and the data-size hypothesis.
-/
import Scc.Props.C13A64All
import Scc.A64.ConcKStuck

namespace Scc.A64
open Scc.AxCut Scc.AxCut.Pos Scc.Backend Scc.Backend.Abs Scc.A64.Ref
open Scc.Props.C06Generic (Reachable CodeFits)
open Scc.Props.C14Generic (LabelSafe)
open Scc.A64.CC (CCSafe CfgCC cfgCC_default Lines hkOf)
open Scc.A64.Loader (hookVarsOf)
open Scc.X86.Ref.K (AllocLe progMaxAlloc allocLe_progMaxAlloc)
open Scc.X86.Conc (valsFields stmtSize progMaxSize stmtSize_le_progMaxSize)
open Scc.A64.ConcK (monOff)

/-- the outcomes of the machine, whatever the positional machine does -/
def C13_a64_divOutcome (heap : Bool) (r : Res) : Prop :=
  r = .outOfFuel ∨ (∃ v, r = .done v) ∨ (∃ ln, r = .fault "div-by-zero" ln) ∨ (∃ ln, r = .fault "div-overflow" ln) ∨
    ∃ what ln, heap = true ∧ r = .invFail what ln

theorem C13_a64_safe_of_divOutcome {heap : Bool} {r : Res} (h : C13_a64_divOutcome heap r) :
    CCSafe r ∧ (heap = false → C13_a64_allowed r) := by
  rcases h with h | ⟨v, h⟩ | ⟨ln, h⟩ | ⟨ln, h⟩ | ⟨e, ln, hh, h⟩
  · rw [h]; exact ⟨trivial, fun _ => trivial⟩
  · rw [h]; exact ⟨trivial, fun _ => trivial⟩
  · rw [h]; exact ⟨⟨by decide, by decide⟩, fun _ => Or.inl rfl⟩
  · rw [h]; exact ⟨⟨by decide, by decide⟩, fun _ => Or.inr rfl⟩
  · rw [h]; exact ⟨trivial, fun h0 => by rw [hh] at h0; cases h0⟩

/-- WITH THE HEAP MONITOR OFF, ALL PROGRAMS, ALL RUNS, WHATEVER THE POSITIONAL MACHINE DOES, on the text: the
machine's outcome is that of the positional machine — out of fuel, the result, or the division fault -/
theorem C13_a64_div_agrees (p : AxCut.Prog) (args : List Word) (hooks : Bool)
    (body routine : List Code) (nargs : Nat) (d0 : Def)
    (hsafe : LabelSafe p = true) (htp : LinTypedProg p) (hchk : C07_a64Checks p = true)
    (hcompX : compileProg a64Backend p hooks 0 = .ok (body, nargs, routine))
    (hd : p.defs.head? = some d0) (hargs : args.length = nargs)
    (D : Nat) (hD : ∀ st, Reachable p ⟨d0.ctx, args.map .int, d0.body⟩ st → valsFields st.env ≤ D)
    (cfg : MonCfg) (H : CfgCC cfg.mem) (hheap : cfg.heap = false) (hwf : cfg.wf = true → routine.length < 262144)
    (hb8 : cfg.mem.heapBase % 8 = 0) (hb0 : 0 < cfg.mem.heapBase)
    (hbytes : 64 * (D + progMaxAlloc p + 2) ≤ cfg.mem.heapBytes)
    (hfitX : cfg.mem.codeBase + 4 * ninstr routine < 2 ^ 64)
    (fuel' : Nat) (hf : fuel' * (progMaxSize p + 1) + stmtSize d0.body + 1 < 2 ^ 64) :
    (run (printProg routine) args fuel' cfg).res = .outOfFuel ∨
      (∃ v out, Pos.run p args (fuel' * (progMaxSize p + 1) + stmtSize d0.body) = ⟨out, .done v⟩ ∧
        (run (printProg routine) args fuel' cfg).res = .done v) ∨
      ∃ w out ln, Pos.run p args (fuel' * (progMaxSize p + 1) + stmtSize d0.body) = ⟨out, .stuck w⟩ ∧
        (w = .divByZero ∨ w = .overflow) ∧
        (run (printProg routine) args fuel' cfg).res = .fault (divFault w) ln := by
  obtain ⟨ops, c', ls, S⟩ := C07_setup_of_checks p args hooks body routine nargs d0 hsafe htp hchk hcompX hd
  rw [C09_run_eq_runProg S.parse (C09_wf_ok hsafe htp hchk hcompX hwf)]
  exact ConcK.programs_dsize_div p args hooks body routine nargs d0 ops c' hsafe htp S.progOK S.compM S.fit
    hcompX S.nd hd S.entry (by rw [← S.nargs, hargs]) S.cap D hD cfg H hheap hb8 hb0
    (progMaxAlloc p) (progMaxSize p) (allocLe_progMaxAlloc p) (stmtSize_le_progMaxSize p) hbytes
    (Ref.K.holdsB_layout S.lines) hfitX fuel' hf

/-- THE OUTCOMES, ALL PROGRAMS, ALL RUNS, EVERY SETTING OF THE MONITORS, WHATEVER THE POSITIONAL MACHINE DOES -/
theorem C13_a64_outcome_div (p : AxCut.Prog) (args : List Word) (hooks : Bool)
    (body routine : List Code) (nargs : Nat) (d0 : Def)
    (hsafe : LabelSafe p = true) (htp : LinTypedProg p) (hchk : C07_a64Checks p = true)
    (hcompX : compileProg a64Backend p hooks 0 = .ok (body, nargs, routine))
    (hd : p.defs.head? = some d0) (hargs : args.length = nargs)
    (D : Nat) (hD : ∀ st, Reachable p ⟨d0.ctx, args.map .int, d0.body⟩ st → valsFields st.env ≤ D)
    (cfg : MonCfg) (H : CfgCC cfg.mem) (hwf : cfg.wf = true → routine.length < 262144)
    (hb8 : cfg.mem.heapBase % 8 = 0) (hb0 : 0 < cfg.mem.heapBase)
    (hbytes : 64 * (D + progMaxAlloc p + 2) ≤ cfg.mem.heapBytes)
    (hfitX : cfg.mem.codeBase + 4 * ninstr routine < 2 ^ 64)
    (fuel' : Nat) (hf : fuel' * (progMaxSize p + 1) + stmtSize d0.body + 1 < 2 ^ 64) :
    C13_a64_divOutcome cfg.heap (run (printProg routine) args fuel' cfg).res := by
  obtain ⟨ops, c', ls, S⟩ := C07_setup_of_checks p args hooks body routine nargs d0 hsafe htp hchk hcompX hd
  rw [C09_run_eq_runProg S.parse (C09_wf_ok hsafe htp hchk hcompX hwf)]
  have hoff := ConcK.programs_dsize_div p args hooks body routine nargs d0 ops c' hsafe htp S.progOK S.compM S.fit
    hcompX S.nd hd S.entry (by rw [← S.nargs, hargs]) S.cap D hD (monOff cfg) H rfl hb8 hb0
    (progMaxAlloc p) (progMaxSize p) (allocLe_progMaxAlloc p) (stmtSize_le_progMaxSize p) hbytes
    (Ref.K.holdsB_layout S.lines) hfitX fuel' hf
  have hoff' : C13_a64_divOutcome false (runProg (layout ls) args fuel' (monOff cfg)).res := by
    rcases hoff with h | ⟨v, _, _, h⟩ | ⟨w, _, ln, _, hw, h⟩
    · exact Or.inl h
    · exact Or.inr (Or.inl ⟨v, h⟩)
    · rcases hw with rfl | rfl
      · exact Or.inr (Or.inr (Or.inl ⟨ln, h⟩))
      · exact Or.inr (Or.inr (Or.inr (Or.inl ⟨ln, h⟩)))
  cases hh : cfg.heap with
  | false =>
    have e : monOff cfg = cfg := by
      cases cfg; simp only [monOff] at *; rw [hh]
    rw [e] at hoff'
    exact hoff'
  | true =>
    rcases ConcK.runProg_monitor_indep (layout ls) args fuel' cfg with h1 | ⟨e, ln, h1⟩
    · rw [h1]
      rcases hoff' with h | h | h | h | ⟨_, _, h, _⟩
      · exact Or.inl h
      · exact Or.inr (Or.inl h)
      · exact Or.inr (Or.inr (Or.inl h))
      · exact Or.inr (Or.inr (Or.inr (Or.inl h)))
      · cases h
    · exact Or.inr (Or.inr (Or.inr (Or.inr ⟨e, ln, rfl, h1⟩)))

/-- C13 (b) FOR ALL PROGRAMS, ALL RUNS, WHATEVER THE POSITIONAL MACHINE DOES: the calling-convention monitor never
fires — neither the exit checks of `RET`, nor the alignment check at a call, nor the alignment check at any SP-based
memory access —, whatever the machine fuel (below `2^64 / (M + 1)`) and the settings of the heap monitor and of the
validator; with the heap monitor off the result is an outcome `C13_statement` permits (`done`, `outOfFuel`,
`div-by-zero`, `div-overflow`).  No hypothesis on the runs of the positional machine other than the size of the data. -/
theorem C13_a64_cc_never_fires_div (p : AxCut.Prog) (args : List Word) (hooks : Bool)
    (body routine : List Code) (nargs : Nat) (d0 : Def)
    (hsafe : LabelSafe p = true) (htp : LinTypedProg p) (hchk : C07_a64Checks p = true)
    (hcompX : compileProg a64Backend p hooks 0 = .ok (body, nargs, routine))
    (hd : p.defs.head? = some d0) (hargs : args.length = nargs)
    (D : Nat) (hD : ∀ st, Reachable p ⟨d0.ctx, args.map .int, d0.body⟩ st → valsFields st.env ≤ D)
    (cfg : MonCfg) (H : CfgCC cfg.mem) (hwf : cfg.wf = true → routine.length < 262144)
    (hb8 : cfg.mem.heapBase % 8 = 0) (hb0 : 0 < cfg.mem.heapBase)
    (hbytes : 64 * (D + progMaxAlloc p + 2) ≤ cfg.mem.heapBytes)
    (hfitX : cfg.mem.codeBase + 4 * ninstr routine < 2 ^ 64)
    (fuel' : Nat) (hf : fuel' * (progMaxSize p + 1) + stmtSize d0.body + 1 < 2 ^ 64) :
    CCSafe (run (printProg routine) args fuel' cfg).res ∧
      (cfg.heap = false → C13_a64_allowed (run (printProg routine) args fuel' cfg).res) :=
  C13_a64_safe_of_divOutcome (C13_a64_outcome_div p args hooks body routine nargs d0 hsafe htp hchk hcompX hd hargs D
    hD cfg H hwf hb8 hb0 hbytes hfitX fuel' hf)

/-! ## non-vacuity: a division by zero -/

/-- main(x) { lit z <- 0; q <- x / z; exit q } -/
def C13A_divMain : Def :=
  { name := ⟨"main", 0⟩, ctx := [⟨⟨"x", 1⟩, .ext, .i64⟩],
    body := .lit ⟨"z", 2⟩ 0 (.op ⟨"q", 3⟩ ⟨"x", 1⟩ .div ⟨"z", 2⟩ (.exit ⟨"q", 3⟩) none) none }

def C13A_divProg : AxCut.Prog := { defs := [C13A_divMain], types := [], maxId := 204 }

def C13A_divRoutine : List Code :=
  match compileProg a64Backend C13A_divProg true 0 with
  | .ok (_, _, r) => r
  | .error _ => []

theorem C13A_div_compiles : ∃ body nargs,
    compileProg a64Backend C13A_divProg true 0 = .ok (body, nargs, C13A_divRoutine) := by
  have hok : ∃ r, compileProg a64Backend C13A_divProg true 0 = .ok r := ⟨_, rfl⟩
  obtain ⟨⟨body, nargs, routine⟩, hcomp⟩ := hok
  refine ⟨body, nargs, ?_⟩
  rw [hcomp]
  congr 3
  unfold C13A_divRoutine
  rw [hcomp]

/-- the positional machine is stuck on the division -/
theorem C13A_div_stuck : Pos.run C13A_divProg [7] 5 = ⟨[], .stuck .divByZero⟩ := by decide

set_option maxRecDepth 100000 in
theorem C13A_divProg_checks : C07_a64Checks C13A_divProg = true := by decide +kernel

set_option maxRecDepth 100000 in
theorem C13A_divRoutine_fits : ({} : MonCfg).mem.codeBase + 4 * ninstr C13A_divRoutine < 2 ^ 64 := by decide

theorem C13A_div_nargs {body : List Code} {nargs : Nat}
    (h : compileProg a64Backend C13A_divProg true 0 = .ok (body, nargs, C13A_divRoutine)) : [7].length = nargs := by
  obtain ⟨c1, hcompA, _⟩ := compileProg_ok h
  obtain ⟨_, _, _, _, _, _, hn2⟩ := Ref.K.compile_a64_entry (d0 := C13A_divMain) hcompA rfl
  rw [hn2]; rfl

/-- with at least two units of fuel the positional machine is stuck on the division -/
theorem C13A_div_run (k : Nat) : Pos.run C13A_divProg [7] (k + 2) = ⟨[], .stuck .divByZero⟩ := rfl

/-- the two states of the run (started with x = 7) hold no object or closure -/
theorem C13A_div_size (st : Pos.State)
    (h : Reachable C13A_divProg ⟨C13A_divMain.ctx, [7].map .int, C13A_divMain.body⟩ st) : valsFields st.env ≤ 0 := by
  have key : st = ⟨C13A_divMain.ctx, [.int 7], C13A_divMain.body⟩ ∨
      st = ⟨C13A_divMain.ctx ++ [⟨⟨"z", 2⟩, .ext, .i64⟩], [.int 7, .int 0],
        .op ⟨"q", 3⟩ ⟨"x", 1⟩ .div ⟨"z", 2⟩ (.exit ⟨"q", 3⟩) none⟩ := by
    induction h with
    | refl => exact Or.inl rfl
    | step _ hs ih =>
      rcases ih with rfl | rfl
      · have e : Pos.step C13A_divProg ⟨C13A_divMain.ctx, [.int 7], C13A_divMain.body⟩ =
            .next ⟨C13A_divMain.ctx ++ [⟨⟨"z", 2⟩, .ext, .i64⟩], [.int 7, .int 0],
              .op ⟨"q", 3⟩ ⟨"x", 1⟩ .div ⟨"z", 2⟩ (.exit ⟨"q", 3⟩) none⟩ none := by rfl
        rw [e] at hs; injection hs with e'; exact Or.inr e'.symm
      · have e : Pos.step C13A_divProg ⟨C13A_divMain.ctx ++ [⟨⟨"z", 2⟩, .ext, .i64⟩], [.int 7, .int 0],
            .op ⟨"q", 3⟩ ⟨"x", 1⟩ .div ⟨"z", 2⟩ (.exit ⟨"q", 3⟩) none⟩ = .stuck .divByZero := by rfl
        rw [e] at hs; cases hs
  rcases key with rfl | rfl <;> decide

set_option maxRecDepth 100000 in
/-- every hypothesis of `C13_a64_cc_never_fires_div` holds for the division by zero, heap monitor and validator on -/
example (fuel' : Nat) (hf : fuel' < 2 ^ 58) :
    CCSafe (run (printProg C13A_divRoutine) [7] fuel' { heap := true, wf := true }).res := by
  obtain ⟨body, nargs, hcomp⟩ := C13A_div_compiles
  have e2 : progMaxSize C13A_divProg = 3 ∧ stmtSize C13A_divMain.body = 3 ∧ progMaxAlloc C13A_divProg = 0 := by decide
  exact (C13_a64_cc_never_fires_div C13A_divProg [7] true body C13A_divRoutine nargs C13A_divMain
    (by decide) (linTypedCheck_sound C13A_divProg rfl) C13A_divProg_checks hcomp rfl (C13A_div_nargs hcomp)
    0 C13A_div_size { heap := true, wf := true } cfgCC_default (fun _ => by decide) (by decide) (by decide)
    (by rw [e2.2.2]; decide) C13A_divRoutine_fits fuel' (by rw [e2.1, e2.2.1]; omega)).1

set_option maxRecDepth 100000 in
/-- THE MACHINE FAULTS WHERE THE POSITIONAL MACHINE IS STUCK: on the TEXT of the routine of `main(x) { z <- 0;
q <- x / z; exit q }`, started with x = 7 in the default configuration, the machine is out of fuel or ends in the
fault `div-by-zero` — for EVERY fuel below 2^58 (never `done`: the positional machine is stuck after two steps) -/
theorem C13A_div_faults (fuel' : Nat) (hf : fuel' < 2 ^ 58) :
    (run (printProg C13A_divRoutine) [7] fuel' {}).res = .outOfFuel ∨
      ∃ ln, (run (printProg C13A_divRoutine) [7] fuel' {}).res = .fault "div-by-zero" ln := by
  obtain ⟨body, nargs, hcomp⟩ := C13A_div_compiles
  have e2 : progMaxSize C13A_divProg = 3 ∧ stmtSize C13A_divMain.body = 3 ∧ progMaxAlloc C13A_divProg = 0 := by decide
  rcases C13_a64_div_agrees C13A_divProg [7] true body C13A_divRoutine nargs C13A_divMain
    (by decide) (linTypedCheck_sound C13A_divProg rfl) C13A_divProg_checks hcomp rfl (C13A_div_nargs hcomp)
    0 C13A_div_size {} cfgCC_default rfl (fun h => nomatch h) (by decide) (by decide)
    (by rw [e2.2.2]; decide) C13A_divRoutine_fits fuel' (by rw [e2.1, e2.2.1]; omega) with h | ⟨v, out, hr, _⟩ | ⟨w, out, ln, hr, _, h⟩
  · exact Or.inl h
  · exfalso
    rw [e2.1, e2.2.1, show fuel' * (3 + 1) + 3 = (fuel' * 4 + 1) + 2 by omega, C13A_div_run] at hr
    cases hr
  · right
    rw [e2.1, e2.2.1, show fuel' * (3 + 1) + 3 = (fuel' * 4 + 1) + 2 by omega, C13A_div_run] at hr
    injection hr with _ hr
    injection hr with hr
    subst hr
    exact ⟨ln, h⟩

end Scc.A64

#print axioms Scc.A64.C13_a64_div_agrees
#print axioms Scc.A64.C13_a64_outcome_div
#print axioms Scc.A64.C13_a64_cc_never_fires_div
#print axioms Scc.A64.C13A_div_faults
