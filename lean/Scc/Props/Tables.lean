/-
  Scc.Props.Tables — the hand-written Lean models ARE the tables of the current sources.

  `Scc/Generated/Tables.lean` is rewritten by the translator (checks/regen.py, generator `tables`) from the
  Rust text of /repo on every run: translations of enum variants (match arms), the dispatch of the generic
  code generator to the methods of `Instructions`, every instruction-pushing function of the three backends as
  a decision table (conditions ↦ constructors pushed / helpers called, in source order), the constants of the
  three config.rs, the parameter moves and register saves of into_routine.rs, the capacity assertions of utils.rs.

  Each theorem below evaluates the MODEL's executable definitions on all constructors / on representative
  operands and states equality with what the generated tables say (`by decide`: kernel evaluation, no test
  input).  A changed entry in /repo changes the generated file and the theorem stops compiling.

  What is compared for instruction sequences is the sequence of constructor NAMES (not the operands): operand
  mistakes are the business of the differential checks.  `Scc.Tables.run` is a small interpreter of decision
  tables: helper calls are expanded with the callee's table, a parameter that is matched on must have a known
  class (`Register`/`Spill`) — anything it cannot resolve makes it return `none`, which fails the theorem.
-/
import Scc.Generated.Tables
import Scc.Fun2Core.Model
import Scc.Core2AxCut.Model
import Scc.X86.Backend
import Scc.A64.Backend
import Scc.RV.Backend
import Scc.PMoves.Model

namespace Scc.Tables
open Scc.Generated

/-! ## names of the Rust variants / constructors of the model types -/

def funSort : Scc.Fun.IfSort → String
  | .eq => "Equal" | .ne => "NotEqual" | .lt => "Less" | .le => "LessOrEqual" | .gt => "Greater" | .ge => "GreaterOrEqual"
def coreSort : Scc.Core.IfSort → String
  | .eq => "Equal" | .ne => "NotEqual" | .lt => "Less" | .le => "LessOrEqual" | .gt => "Greater" | .ge => "GreaterOrEqual"
def axSort : Scc.AxCut.IfSort → String
  | .eq => "Equal" | .ne => "NotEqual" | .lt => "Less" | .le => "LessOrEqual" | .gt => "Greater" | .ge => "GreaterOrEqual"
def funOp : Scc.Fun.BinOp → String
  | .div => "Div" | .prod => "Prod" | .rem => "Rem" | .sum => "Sum" | .sub => "Sub"
def coreOp : Scc.Core.BinOp → String
  | .div => "Div" | .prod => "Prod" | .rem => "Rem" | .sum => "Sum" | .sub => "Sub"
def axOp : Scc.AxCut.BinOp → String
  | .div => "Div" | .prod => "Prod" | .rem => "Rem" | .sum => "Sum" | .sub => "Sub"

def funSorts : List Scc.Fun.IfSort := [.eq, .ne, .lt, .le, .gt, .ge]
def coreSorts : List Scc.Core.IfSort := [.eq, .ne, .lt, .le, .gt, .ge]
def axSorts : List Scc.AxCut.IfSort := [.eq, .ne, .lt, .le, .gt, .ge]
def funOps : List Scc.Fun.BinOp := [.div, .prod, .rem, .sum, .sub]
def coreOps : List Scc.Core.BinOp := [.div, .prod, .rem, .sum, .sub]
def axOps : List Scc.AxCut.BinOp := [.div, .prod, .rem, .sum, .sub]

def x86Ctor : Scc.X86.Code → String
  | .ADD .. => "ADD" | .ADDRM .. => "ADDRM" | .ADDMR .. => "ADDMR" | .ADDI .. => "ADDI" | .ADDIM .. => "ADDIM"
  | .SUB .. => "SUB" | .SUBRM .. => "SUBRM" | .SUBMR .. => "SUBMR" | .SUBI .. => "SUBI" | .IMUL .. => "IMUL"
  | .IMULRM .. => "IMULRM" | .IMULMR .. => "IMULMR" | .IDIV .. => "IDIV" | .IDIVM .. => "IDIVM" | .CQO => "CQO"
  | .JMP .. => "JMP" | .JMPL .. => "JMPL" | .JMPLN .. => "JMPLN" | .LEAL .. => "LEAL" | .MOV .. => "MOV"
  | .MOVS .. => "MOVS" | .MOVL .. => "MOVL" | .MOVI .. => "MOVI" | .MOVIM .. => "MOVIM" | .CMP .. => "CMP"
  | .CMPRM .. => "CMPRM" | .CMPMR .. => "CMPMR" | .CMPI .. => "CMPI" | .CMPIM .. => "CMPIM" | .JEL .. => "JEL"
  | .JNEL .. => "JNEL" | .JLL .. => "JLL" | .JLEL .. => "JLEL" | .JGL .. => "JGL" | .JGEL .. => "JGEL"
  | .PUSH .. => "PUSH" | .POP .. => "POP" | .CALL .. => "CALL" | .RET => "RET" | .LAB .. => "LAB"
  | .NOEXECSTACK => "NOEXECSTACK" | .TEXT => "TEXT" | .GLOBAL .. => "GLOBAL" | .EXTERN .. => "EXTERN"
  | .COMMENT .. => "COMMENT"
def a64Ctor : Scc.A64.Code → String
  | .ADD .. => "ADD" | .ADDI .. => "ADDI" | .SUB .. => "SUB" | .SUBI .. => "SUBI" | .MUL .. => "MUL"
  | .SDIV .. => "SDIV" | .MSUB .. => "MSUB" | .B .. => "B" | .BR .. => "BR" | .BL .. => "BL" | .ADR .. => "ADR"
  | .MOVR .. => "MOVR" | .MOVZ .. => "MOVZ" | .MOVN .. => "MOVN" | .MOVK .. => "MOVK" | .LDR .. => "LDR"
  | .LDP_POST_INDEX .. => "LDP_POST_INDEX" | .STR .. => "STR" | .STP_PRE_INDEX .. => "STP_PRE_INDEX"
  | .CMPR .. => "CMPR" | .CMPI .. => "CMPI" | .BEQ .. => "BEQ" | .BNE .. => "BNE" | .BLT .. => "BLT"
  | .BLE .. => "BLE" | .BGT .. => "BGT" | .BGE .. => "BGE" | .RET => "RET" | .LAB .. => "LAB" | .TEXT => "TEXT"
  | .GLOBAL .. => "GLOBAL" | .COMMENT .. => "COMMENT"
def rvCtor : Scc.RV.Code → String
  | .ADD .. => "ADD" | .ADDI .. => "ADDI" | .SUB .. => "SUB" | .MUL .. => "MUL" | .DIV .. => "DIV" | .REM .. => "REM"
  | .JAL .. => "JAL" | .JALR .. => "JALR" | .LA .. => "LA" | .LI .. => "LI" | .MV .. => "MV" | .LW .. => "LW"
  | .SW .. => "SW" | .BEQ .. => "BEQ" | .BNE .. => "BNE" | .BLT .. => "BLT" | .BLE .. => "BLE" | .BGT .. => "BGT"
  | .BGE .. => "BGE" | .LAB .. => "LAB" | .COMMENT .. => "COMMENT"

/-! ## the interpreter of decision tables -/

/-- values of local names: the class of a temporary (`Register` / `Spill`), a literal, or a function name -/
abbrev Env := List (String × String)

/-- an unbound local name stands for itself (this is how function names travel as arguments) -/
def argVal (env : Env) : Arg → Option String
  | .var x => some ((env.lookup x).getD x)
  | .lit t => some t
  | .other _ => none

def condHolds (env : Env) (tests : List (String × Bool)) : Cond → Option Bool
  | .is x v => (env.lookup x).map (· == v)
  | .test k b => (tests.lookup k).map (· == b)

def pathHolds (env : Env) (tests : List (String × Bool)) : List Cond → Option Bool
  | [] => some true
  | c :: cs =>
    match condHolds env tests c with
    | some true => pathHolds env tests cs
    | r => r

/-- first-match; a condition whose truth is not given is an error, not `false` -/
def pick (env : Env) (tests : List (String × Bool)) : List Path → Option Path
  | [] => none
  | p :: ps =>
    match pathHolds env tests p.conds with
    | some true => some p
    | some false => pick env tests ps
    | none => none

def bindParams (env : Env) : List String → List Arg → Env
  | p :: ps, a :: as =>
    match argVal env a with
    | some v => (p, v) :: bindParams env ps as
    | none => bindParams env ps as
  | _, _ => []

/-- the constructor names pushed by function `f` of the table `fns` in environment `env`, where `tests` gives the
truth values of the `if` conditions met (key `function:condition text`) -/
def run (fns : List Fn) (tests : List (String × Bool)) : Nat → String → Env → Option (List String)
  | 0, _, _ => none
  | fuel + 1, f, env =>
    match fns.find? (fun fn => fn.name == f) with
    | none => none
    | some fn =>
      match pick env tests fn.paths with
      | none => none
      | some p =>
        p.evs.foldl (fun acc ev =>
          match acc, ev with
          | none, _ => none
          | some out, .push c => some (out ++ [c])
          | some out, .panic => some (out ++ ["panic!"])
          | some out, .call g args =>
            let g' := (env.lookup g).getD g
            match fns.find? (fun fn => fn.name == g') with
            | none => none
            | some callee =>
              match run fns tests fuel g' (bindParams env callee.params args) with
              | none => none
              | some r => some (out ++ r)) (some [])

/-- a method applied to operands of the given classes (positional) -/
def runTop (fns : List Fn) (tests : List (String × Bool)) (f : String) (classes : List String) : Option (List String) :=
  match fns.find? (fun fn => fn.name == f) with
  | none => none
  | some fn => run fns tests 8 f (fn.params.zip classes)

def cls (isReg : Bool) : String := if isReg then "Register" else "Spill"
def bools : List Bool := [true, false]

/-- `op` and `bound` of an `assert!` / `if` as a test on numbers, the bound looked up in a constants table -/
def cmpOp : String → Option (Nat → Nat → Bool)
  | "<" => some fun a b => decide (a < b)
  | "<=" => some fun a b => decide (a ≤ b)
  | ">" => some fun a b => decide (a > b)
  | ">=" => some fun a b => decide (a ≥ b)
  | "==" => some fun a b => a == b
  | "!=" => some fun a b => a != b
  | _ => none

def boundTest (cfg : List (String × Nat)) (b : Bound) : Option (Nat → Bool) :=
  match cmpOp b.op, cfg.lookup b.bound with
  | some f, some k => some fun a => f a k
  | _, _ => none

/-- utils.rs `temporary_from_position` (x86-64, AArch64) as the SOURCE has it: `inr (isRegister, number)` or `inl` the panic message -/
def srcTemporaryFromPosition (cfg : List (String × Nat)) (regTest capacity : Bound) (position : Nat) :
    Option (String ⊕ (Bool × Nat)) :=
  match cfg.lookup "RESERVED", cfg.lookup "REGISTER_NUM", cfg.lookup "RESERVED_SPILLS",
        boundTest cfg regTest, boundTest cfg capacity with
  | some reserved, some registerNum, some reservedSpills, some isReg, some fits =>
    if regTest.lhs == "register_number" && capacity.lhs == "spill_number" then
      let registerNumber := position + reserved
      if isReg registerNumber then some (.inr (true, registerNumber))
      else
        let spillNumber := registerNumber - registerNum + reservedSpills
        if fits spillNumber then some (.inr (false, spillNumber)) else some (.inl capacity.msg)
    else none
  | _, _, _, _, _ => none

/-- utils.rs (RV64) `variable_temporary` / `fresh_temporary` as the source has it -/
def srcRvRegister (cfg : List (String × Nat)) (capacity : Bound) (number position : Nat) : Option (String ⊕ Nat) :=
  match cfg.lookup "RESERVED", boundTest cfg capacity with
  | some reserved, some fits =>
    if capacity.lhs == "register_number" then
      let registerNumber := 2 * position + number + reserved
      if fits registerNumber then some (.inr registerNumber) else some (.inl capacity.msg)
    else none
  | _, _ => none

/-- positions around both boundaries (first spill, last spill) of either backend -/
def positions : List Nat := List.range 40 ++ (List.range 60).map (· + 240)

/-- into_routine.rs `move_arguments` as the source has it: per pushed code `none` (the comment) or `some (target, source)`;
`srcOf` resolves the second component of a table row (x86-64: `arg(k)`) -/
def srcMoveArguments (tbl : List (Nat × List (Nat × Nat) × Option Nat)) (srcOf : Nat → Option Nat) :
    Nat → Nat → Option (List (Option (Nat × Nat)))
  | 0, _ => none
  | fuel + 1, n =>
    match tbl.find? (fun row => row.1 == n) with
    | none => none
    | some (_, moves, next) =>
      match moves.mapM (fun m => (srcOf m.2).map fun s => some (m.1, s)), next with
      | none, _ => none
      | some here, none => some (none :: here)
      | some here, some m =>
        match srcMoveArguments tbl srcOf fuel m with
        | none => none
        | some rest => some (none :: here ++ rest)

/-! ## model side: x86-64 -/

open Scc.X86 in
def xt (isReg : Bool) (r p : Nat) : Scc.X86.Temporary := if isReg then .reg r else .spill p

/-- all `if` conditions of op_commutative / sub / div false: operands pairwise different, divisor not RETURN2 -/
def x86TestsDistinct : List (String × Bool) :=
  [("op_commutative:target_temporary == source_temporary_1", false),
   ("op_commutative:target_temporary == source_temporary_2", false),
   ("sub:target_temporary == source_temporary_1", false),
   ("sub:target_temporary == source_temporary_2", false),
   ("div:register == RETURN2", false)]

def x86TestsTargetIsFst : List (String × Bool) :=
  [("op_commutative:target_temporary == source_temporary_1", true),
   ("sub:target_temporary == source_temporary_1", true),
   ("div:register == RETURN2", false)]

def x86TestsTargetIsSnd : List (String × Bool) :=
  [("op_commutative:target_temporary == source_temporary_1", false),
   ("op_commutative:target_temporary == source_temporary_2", true),
   ("sub:target_temporary == source_temporary_1", false),
   ("sub:target_temporary == source_temporary_2", true),
   ("div:register == RETURN2", false)]

def x86TestsDivisorReturn2 : List (String × Bool) :=
  [("op_commutative:target_temporary == source_temporary_1", false),
   ("op_commutative:target_temporary == source_temporary_2", false),
   ("sub:target_temporary == source_temporary_1", false),
   ("sub:target_temporary == source_temporary_2", false),
   ("div:register == RETURN2", true)]

def x86Model (c : List Scc.X86.Code) : Option (List String) := some (c.map x86Ctor)

def x86Src (disp : List (String × String)) (key : String) (tests : List (String × Bool)) (classes : List Bool) :
    Option (List String) :=
  match disp.lookup key with
  | none => none
  | some m => runTop x86Code tests m (classes.map cls)

open Scc.X86 in
def x86ModelConfig : List (String × Nat) :=
  [("REGISTER_NUM", REGISTER_NUM), ("RESERVED", RESERVED), ("STACK", STACK), ("TEMP", TEMP), ("HEAP", HEAP),
   ("FREE", FREE), ("RETURN1", RETURN1), ("RETURN2", RETURN2), ("SPILL_NUM", SPILL_NUM),
   ("SPILL_SPACE/SPILL_NUM", (SPILL_SPACE / (SPILL_NUM : Int)).toNat), ("RESERVED_SPILLS", RESERVED_SPILLS),
   ("SPILL_TEMP", SPILL_TEMP), ("TEMPORARY_TEMP", TEMPORARY_TEMP), ("FIELD_SLOT_SIZE", FIELD_SLOT_SIZE),
   ("FIELDS_PER_BLOCK", FIELDS_PER_BLOCK),
   ("REFERENCE_COUNT_OFFSET/address", (REFERENCE_COUNT_OFFSET / (FIELD_SLOT_SIZE : Int)).toNat),
   ("NEXT_ELEMENT_OFFSET/address", (NEXT_ELEMENT_OFFSET / (FIELD_SLOT_SIZE : Int)).toNat),
   ("CALLER_SAVE_FIRST", CALLER_SAVE_FIRST), ("CALLER_SAVE_LAST", CALLER_SAVE_LAST),
   ("jump_length/n", (jumpLength 1).toNat),
   ("field_offset/base", (fieldOffset .fst 0 / (FIELD_SLOT_SIZE : Int)).toNat),
   ("field_offset/stride", ((fieldOffset .fst 1 - fieldOffset .fst 0) / (FIELD_SLOT_SIZE : Int)).toNat),
   ("stack_offset/scale", (stackOffset 0 - stackOffset 1).toNat),
   ("stack_offset/bias", ((SPILL_SPACE - stackOffset 0) / (stackOffset 0 - stackOffset 1)).toNat)]

def x86ModelTemporary (position : Nat) : Option (String ⊕ (Bool × Nat)) :=
  match Scc.X86.temporaryFromPosition position with
  | .ok (.reg r) => some (.inr (true, r))
  | .ok (.spill p) => some (.inr (false, p))
  | .error e => some (.inl e)

def x86ModelMoves (n : Nat) : Option (List (Option (Nat × Nat))) :=
  match Scc.X86.moveArguments n with
  | .error _ => none
  | .ok cs => cs.mapM fun c => match c with
    | .COMMENT _ => some none
    | .MOV t s => some (some (t, s))
    | _ => none

/-! ## model side: AArch64 -/

def at' (isReg : Bool) (r p : Nat) : Scc.A64.Temporary := if isReg then .register (.x r) else .spill p

/-- code.rs `rem` is reached from `op` with `source_2 == TEMP2` exactly when both sources were spilled, and with
`target == TEMP` exactly when the target is a spill (sample registers differ from TEMP and TEMP2) -/
def a64Tests (t a b : Bool) : List (String × Bool) :=
  [("rem:source_2 == TEMP2", !a && !b), ("rem:target == TEMP", !t)]

def a64Model (c : List Scc.A64.Code) : Option (List String) := some (c.map a64Ctor)

def a64Src (disp : List (String × String)) (key : String) (tests : List (String × Bool)) (classes : List Bool) :
    Option (List String) :=
  match disp.lookup key with
  | none => none
  | some m => runTop a64Code tests m (classes.map cls)

def a64RegNum : Scc.A64.Register → Option Nat
  | .x r => some r
  | _ => none

open Scc.A64 in
def a64ModelConfig : List (String × Option Nat) :=
  [("REGISTER_NUM", some REGISTER_NUM), ("RESERVED", some RESERVED), ("TEMP", a64RegNum TEMP), ("TEMP2", a64RegNum TEMP2),
   ("HEAP", a64RegNum HEAP), ("FREE", a64RegNum FREE), ("RETURN1", a64RegNum RETURN1), ("RETURN2", a64RegNum RETURN2),
   ("SPILL_NUM", some SPILL_NUM), ("SPILL_SPACE/SPILL_NUM", some (SPILL_SPACE / SPILL_NUM)),
   ("RESERVED_SPILLS", some RESERVED_SPILLS), ("SPILL_TEMP", some SPILL_TEMP), ("TEMPORARY_TEMP", a64RegNum TEMPORARY_TEMP),
   ("FIELD_SLOT_SIZE", some consts.fieldSlotSize), ("FIELDS_PER_BLOCK", some FIELDS_PER_BLOCK),
   ("REFERENCE_COUNT_OFFSET/address", some (REFERENCE_COUNT_OFFSET / (consts.fieldSlotSize : Int)).toNat),
   ("NEXT_ELEMENT_OFFSET/address", some (NEXT_ELEMENT_OFFSET / (consts.fieldSlotSize : Int)).toNat),
   ("CALLER_SAVE_FIRST", some CALLER_SAVE_FIRST), ("CALLER_SAVE_LAST", some CALLER_SAVE_LAST),
   ("jump_length/n", some (jumpLength 1).toNat),
   ("field_offset/base", some (fieldOffset 0 0 / (consts.fieldSlotSize : Int)).toNat),
   ("field_offset/stride", some ((fieldOffset 0 1 - fieldOffset 0 0) / (consts.fieldSlotSize : Int)).toNat),
   ("stack_offset/scale", some (stackOffset 0 - stackOffset 1).toNat),
   ("stack_offset/bias", some (((SPILL_SPACE : Int) - stackOffset 0) / (stackOffset 0 - stackOffset 1)).toNat),
   ("print/skipped_register", some consts.skippedRegister),
   ("print/skip_by", some (archNumber consts.skippedRegister - consts.skippedRegister))]

def a64ModelTemporary (position : Nat) : Option (String ⊕ (Bool × Nat)) :=
  match (Scc.A64.temporaryFromPosition position).run 0 with
  | .ok (.register (.x r), _) => some (.inr (true, r))
  | .ok (.register _, _) => none
  | .ok (.spill p, _) => some (.inr (false, p))
  | .error e => some (.inl e)

def a64ModelMoves (n : Nat) : Option (List (Option (Nat × Nat))) :=
  match Scc.A64.moveArguments n with
  | .error _ => none
  | .ok cs => cs.mapM fun c => match c with
    | .COMMENT _ => some none
    | .MOVR (.x t) (.x s) => some (some (t, s))
    | _ => none

/-! ## model side: RV64 -/

def rvModel (c : List Scc.RV.Code) : Option (List String) := some (c.map rvCtor)

def rvSrc (disp : List (String × String)) (key : String) : Option (List String) :=
  match disp.lookup key with
  | none => none
  | some m => runTop rvCode [] m []

open Scc.RV in
def rvModelConfig : List (String × Nat) :=
  [("REGISTER_NUM", registerNum), ("RESERVED", reserved), ("ZERO", ZERO.n), ("TEMP", TEMP.n), ("HEAP", HEAP.n),
   ("FREE", FREE.n), ("RETURN1", RETURN1.n), ("RETURN2", RETURN2.n), ("FIELD_SLOT_SIZE", fieldSlotSize),
   ("FIELDS_PER_BLOCK", fieldsPerBlock),
   ("REFERENCE_COUNT_OFFSET/address", (referenceCountOffset / (fieldSlotSize : Int)).toNat),
   ("NEXT_ELEMENT_OFFSET/address", (nextElementOffset / (fieldSlotSize : Int)).toNat),
   ("jump_length/n", (jumpLength 1).toNat),
   ("field_offset/base", (fieldOffset 0 0 / (fieldSlotSize : Int)).toNat),
   ("field_offset/stride", ((fieldOffset 0 1 - fieldOffset 0 0) / (fieldSlotSize : Int)).toNat)]

def rvModelRegister (number : Scc.Backend.TempNum) (position : Nat) : Option (String ⊕ Nat) :=
  match (Scc.RV.positionRegister number position).run 0 with
  | .ok (r, _) => some (.inr r.n)
  | .error e => some (.inl e)

end Scc.Tables

namespace Scc.Props
open Scc.Generated Scc.Tables

/-! ## 1, 2: translations of variants (C02, C04) -/

/-- fun2core/src/terms/ifc.rs: every Fun comparison sort is mapped to the Core sort the model says -/
theorem T_fun2core_ifsort :
    (funSorts.all fun s => fun2coreIfSort.lookup (funSort s) == some (coreSort (Scc.Fun2Core.compileSort s))) = true
    ∧ fun2coreIfSort.length = funSorts.length := by decide

/-- fun2core/src/terms/op.rs fn compile_op -/
theorem T_fun2core_binop :
    (funOps.all fun o => fun2coreBinOp.lookup (funOp o) == some (coreOp (Scc.Fun2Core.compileOp o))) = true
    ∧ fun2coreBinOp.length = funOps.length := by decide

/-- core2axcut/src/statements/ifc.rs: every Core comparison sort is mapped to the AxCut sort the model says -/
theorem T_core2axcut_ifsort :
    (coreSorts.all fun s => core2axcutIfSort.lookup (coreSort s) == some (axSort (Scc.Core2AxCut.shrinkIfSort s))) = true
    ∧ core2axcutIfSort.length = coreSorts.length := by decide

/-- core2axcut/src/statements/cut.rs fn shrink_binop -/
theorem T_core2axcut_binop :
    (coreOps.all fun o => core2axcutBinOp.lookup (coreOp o) == some (axOp (Scc.Core2AxCut.shrinkBinop o))) = true
    ∧ core2axcutBinOp.length = coreOps.length := by decide

/-! ## 3: instruction tables -/

/-- the dispatch tables of the generic code generator are total on the variants (one arm each) -/
theorem T_generic_dispatch :
    (axSorts.all fun s => (genericIfTwo.lookup (axSort s)).isSome && (genericIfZero.lookup (axSort s)).isSome) = true
    ∧ genericIfTwo.length = 6 ∧ genericIfZero.length = 6
    ∧ (axOps.all fun o => (genericBinOp.lookup (axOp o)).isSome) = true ∧ genericBinOp.length = 5 := by decide

/-- x86-64: `if a ⋈ b` through ifc.rs ↦ jump_label_if_* ↦ compare ↦ constructors, all operand classes -/
theorem T_x86_jump_two :
    (axSorts.flatMap fun s => bools.flatMap fun a => bools.map fun b =>
      x86Model (Scc.X86.x86Backend.jumpLabelIf s (xt a 6 3) (xt b 8 5) "l"))
    = (axSorts.flatMap fun s => bools.flatMap fun a => bools.map fun b =>
      x86Src genericIfTwo (axSort s) [] [a, b]) := by decide

theorem T_x86_jump_zero :
    (axSorts.flatMap fun s => bools.map fun a => x86Model (Scc.X86.x86Backend.jumpLabelIfZero s (xt a 6 3) "l"))
    = (axSorts.flatMap fun s => bools.map fun a => x86Src genericIfZero (axSort s) [] [a]) := by decide

/-- x86-64 add / sub / mul / div / rem, pairwise different operands of every class -/
theorem T_x86_ops_distinct :
    (axOps.flatMap fun o => bools.flatMap fun t => bools.flatMap fun a => bools.map fun b =>
      x86Model (Scc.X86.x86Backend.binop o (xt t 6 3) (xt a 8 5) (xt b 10 7)))
    = (axOps.flatMap fun o => bools.flatMap fun t => bools.flatMap fun a => bools.map fun b =>
      x86Src genericBinOp (axOp o) x86TestsDistinct [t, a, b]) := by decide

/-- … target = first source -/
theorem T_x86_ops_target_is_fst :
    (axOps.flatMap fun o => bools.flatMap fun t => bools.map fun b =>
      x86Model (Scc.X86.x86Backend.binop o (xt t 6 3) (xt t 6 3) (xt b 10 7)))
    = (axOps.flatMap fun o => bools.flatMap fun t => bools.map fun b =>
      x86Src genericBinOp (axOp o) x86TestsTargetIsFst [t, t, b]) := by decide

/-- … target = second source -/
theorem T_x86_ops_target_is_snd :
    (axOps.flatMap fun o => bools.flatMap fun t => bools.map fun a =>
      x86Model (Scc.X86.x86Backend.binop o (xt t 6 3) (xt a 8 5) (xt t 6 3)))
    = (axOps.flatMap fun o => bools.flatMap fun t => bools.map fun a =>
      x86Src genericBinOp (axOp o) x86TestsTargetIsSnd [t, a, t]) := by decide

/-- … divisor in RETURN2 (rdx) -/
theorem T_x86_ops_divisor_return2 :
    (axOps.flatMap fun o => bools.flatMap fun t => bools.map fun a =>
      x86Model (Scc.X86.x86Backend.binop o (xt t 6 3) (xt a 8 5) (.reg Scc.X86.RETURN2)))
    = (axOps.flatMap fun o => bools.flatMap fun t => bools.map fun a =>
      x86Src genericBinOp (axOp o) x86TestsDivisorReturn2 [t, a, true]) := by decide

/-- x86-64 jump, jump_label, jump_label_fixed, load_label, add_and_jump, mov -/
theorem T_x86_misc :
    (bools.flatMap fun a =>
      [x86Model (Scc.X86.x86Backend.jump (xt a 6 3)), x86Model (Scc.X86.x86Backend.loadLabel (xt a 6 3) "l"),
       x86Model (Scc.X86.x86Backend.addAndJump (xt a 6 3) 8)] ++
      bools.map fun b => x86Model (Scc.X86.x86Backend.mov (xt a 6 3) (xt b 8 5)))
    ++ [x86Model (Scc.X86.x86Backend.jumpLabel "l"), x86Model (Scc.X86.x86Backend.jumpLabelFixed "l")]
    = (bools.flatMap fun a =>
      [runTop x86Code [] "Instructions::jump" [cls a], runTop x86Code [] "Instructions::load_label" [cls a],
       runTop x86Code [] "Instructions::add_and_jump" [cls a]] ++
      bools.map fun b => runTop x86Code [] "Instructions::mov" [cls a, cls b])
    ++ [runTop x86Code [] "Instructions::jump_label" [], runTop x86Code [] "Instructions::jump_label_fixed" []] := by decide

/-- the functions of x86-64 code.rs that are NOT decision tables (modelled by hand, tied by the differential check only) -/
theorem T_x86_opaque : x86CodeOpaque = ["save_caller_save_registers", "restore_caller_save_registers"] := by decide

theorem T_a64_jump_two :
    (axSorts.flatMap fun s => bools.flatMap fun a => bools.map fun b =>
      a64Model (Scc.A64.a64Backend.jumpLabelIf s (at' a 6 3) (at' b 8 5) "l"))
    = (axSorts.flatMap fun s => bools.flatMap fun a => bools.map fun b =>
      a64Src genericIfTwo (axSort s) [] [a, b]) := by decide

theorem T_a64_jump_zero :
    (axSorts.flatMap fun s => bools.map fun a => a64Model (Scc.A64.a64Backend.jumpLabelIfZero s (at' a 6 3) "l"))
    = (axSorts.flatMap fun s => bools.map fun a => a64Src genericIfZero (axSort s) [] [a]) := by decide

/-- AArch64 add / sub / mul / div / rem through `op`, operands of every class (registers other than TEMP, TEMP2) -/
theorem T_a64_ops :
    (axOps.flatMap fun o => bools.flatMap fun t => bools.flatMap fun a => bools.map fun b =>
      a64Model (Scc.A64.a64Backend.binop o (at' t 6 3) (at' a 8 5) (at' b 10 7)))
    = (axOps.flatMap fun o => bools.flatMap fun t => bools.flatMap fun a => bools.map fun b =>
      a64Src genericBinOp (axOp o) (a64Tests t a b) [t, a, b]) := by decide

/-- … first source is TEMP itself and the second is spilled: the scratch register is TEMP2 -/
theorem T_a64_ops_fst_is_temp :
    (axOps.flatMap fun o => bools.map fun t =>
      a64Model (Scc.A64.a64Backend.binop o (at' t 6 3) (.register Scc.A64.TEMP) (.spill 7)))
    = (axOps.flatMap fun o => bools.map fun t =>
      a64Src genericBinOp (axOp o) [("rem:source_2 == TEMP2", true), ("rem:target == TEMP", !t)] [t, true, false]) := by
  decide

theorem T_a64_misc :
    (bools.flatMap fun a =>
      [a64Model (Scc.A64.a64Backend.jump (at' a 6 3)), a64Model (Scc.A64.a64Backend.loadLabel (at' a 6 3) "l"),
       a64Model (Scc.A64.a64Backend.addAndJump (at' a 6 3) 8)] ++
      bools.map fun b => a64Model (Scc.A64.a64Backend.mov (at' a 6 3) (at' b 8 5)))
    ++ [a64Model (Scc.A64.a64Backend.jumpLabel "l"), a64Model (Scc.A64.a64Backend.jumpLabelFixed "l")]
    = (bools.flatMap fun a =>
      [runTop a64Code [] "Instructions::jump" [cls a], runTop a64Code [] "Instructions::load_label" [cls a],
       runTop a64Code [] "Instructions::add_and_jump" [cls a]] ++
      bools.map fun b => runTop a64Code [] "Instructions::mov" [cls a, cls b])
    ++ [runTop a64Code [] "Instructions::jump_label" [], runTop a64Code [] "Instructions::jump_label_fixed" []] := by decide

theorem T_a64_opaque :
    a64CodeOpaque = ["save_caller_save_registers", "restore_caller_save_registers", "Instructions::load_immediate"] := by
  decide

theorem T_rv_jump_two :
    (axSorts.map fun s => rvModel (Scc.RV.rvBackend.jumpLabelIf s ⟨5⟩ ⟨7⟩ "l"))
    = (axSorts.map fun s => rvSrc genericIfTwo (axSort s)) := by decide

theorem T_rv_jump_zero :
    (axSorts.map fun s => rvModel (Scc.RV.rvBackend.jumpLabelIfZero s ⟨5⟩ "l"))
    = (axSorts.map fun s => rvSrc genericIfZero (axSort s)) := by decide

theorem T_rv_ops :
    (axOps.map fun o => rvModel (Scc.RV.rvBackend.binop o ⟨9⟩ ⟨5⟩ ⟨7⟩))
    = (axOps.map fun o => rvSrc genericBinOp (axOp o)) := by decide

theorem T_rv_misc :
    [rvModel (Scc.RV.rvBackend.jump ⟨5⟩), rvModel (Scc.RV.rvBackend.jumpLabel "l"),
     rvModel (Scc.RV.rvBackend.jumpLabelFixed "l"), rvModel (Scc.RV.rvBackend.loadLabel ⟨5⟩ "l"),
     rvModel (Scc.RV.rvBackend.loadImmediate ⟨5⟩ 7), rvModel (Scc.RV.rvBackend.addAndJump ⟨5⟩ 8),
     rvModel (Scc.RV.rvBackend.mov ⟨5⟩ ⟨7⟩)]
    = ["Instructions::jump", "Instructions::jump_label", "Instructions::jump_label_fixed", "Instructions::load_label",
       "Instructions::load_immediate", "Instructions::add_and_jump", "Instructions::mov"].map
        (fun m => runTop rvCode [] m []) := by decide

theorem T_rv_opaque : rvCodeOpaque = [] := by decide

/-! ## 4: constants -/

theorem T_x86_config : x86ModelConfig = x86Config := by decide

/-- config.rs fn arg -/
theorem T_x86_arg_regs :
    (List.range (x86ArgRegs.length + 2)).map (fun n => (Scc.X86.arg n).toOption)
    = x86ArgRegs.map some ++ [none, none] := by decide

/-- impl Config: temp() … return2() are the registers named so -/
theorem T_x86_roles :
    [Scc.X86.x86Backend.temp, Scc.X86.x86Backend.heap, Scc.X86.x86Backend.free, Scc.X86.x86Backend.return1,
     Scc.X86.x86Backend.return2].map some
    = ["temp", "heap", "free", "return1", "return2"].map fun r =>
        ((x86ConfigRoles.lookup r).bind fun c => x86Config.lookup c).map Scc.X86.Temporary.reg := by decide

/-- the model's immediates are unbounded integers and `i64_to_immediate` is the identity: justified while the
source type wraps an i64 and the conversion is `.into()` -/
theorem T_x86_immediate : x86Immediate = ("i64", "number.into()") := by decide

/-- into_routine.rs fn move_arguments: comments and (target, source) of every MOV, for 0 … 7 parameters -/
theorem T_x86_move_arguments :
    (List.range 8).map x86ModelMoves
    = (List.range 8).map (srcMoveArguments x86MoveArguments (fun k => x86ArgRegs[k]?) 10) := by decide

/-- into_routine.rs setup / cleanup: callee-saved registers pushed and popped -/
theorem T_x86_saved :
    ((Scc.X86.setup 0).toOption.map fun cs => cs.filterMap fun c => match c with | .PUSH r => some r | _ => none)
      = some x86Pushed
    ∧ (Scc.X86.cleanup.filterMap fun c => match c with | .POP r => some r | _ => none) = x86Popped := by decide

theorem T_a64_config : a64ModelConfig = a64Config.map (fun p => (p.1, some p.2)) := by decide

theorem T_a64_roles :
    [Scc.A64.a64Backend.temp, Scc.A64.a64Backend.heap, Scc.A64.a64Backend.free, Scc.A64.a64Backend.return1,
     Scc.A64.a64Backend.return2].map some
    = ["temp", "heap", "free", "return1", "return2"].map fun r =>
        ((a64ConfigRoles.lookup r).bind fun c => a64Config.lookup c).map fun n => Scc.A64.Temporary.register (.x n) := by
  decide

theorem T_a64_immediate : a64Immediate = ("i64", "number.into()") := by decide

theorem T_a64_move_arguments :
    (List.range 10).map a64ModelMoves
    = (List.range 10).map (srcMoveArguments a64MoveArguments some 12) := by decide

theorem T_a64_saved :
    ((Scc.A64.setup 0).toOption.map fun cs => cs.filterMap fun c =>
        match c with | .STP_PRE_INDEX (.x a) (.x b) .sp i => some (a, b, i) | _ => none) = some a64Stored
    ∧ (Scc.A64.cleanup.filterMap fun c =>
        match c with | .LDP_POST_INDEX (.x a) (.x b) .sp i => some (a, b, i) | _ => none) = a64Loaded := by decide

theorem T_rv_config : rvModelConfig = rvConfig := by decide

theorem T_rv_roles :
    [Scc.RV.rvBackend.temp, Scc.RV.rvBackend.heap, Scc.RV.rvBackend.free, Scc.RV.rvBackend.return1,
     Scc.RV.rvBackend.return2].map some
    = ["temp", "heap", "free", "return1", "return2"].map fun r =>
        ((rvConfigRoles.lookup r).bind fun c => rvConfig.lookup c).map Scc.RV.Register.mk := by decide

/-- RV64: `Immediate = i64` and `i64_to_immediate(number) = number` (the model's immediates are integers that are
printed in full; a narrower type would truncate literals) -/
theorem T_rv_immediate : rvImmediate = ("i64", "number") := by decide

/-! ## 5: capacity assertions of utils.rs -/

/-- x86-64 temporary_from_position: register test, spill numbering and the bound of the "Out of temporaries"
assertion are the model's, on all positions around both boundaries -/
theorem T_x86_capacity :
    positions.map x86ModelTemporary
    = positions.map (srcTemporaryFromPosition x86Config x86RegisterTest x86CapacityAssert) := by decide

theorem T_a64_capacity :
    positions.map a64ModelTemporary
    = positions.map (srcTemporaryFromPosition a64Config a64RegisterTest a64CapacityAssert) := by decide

/-- RV64: `assert!(register_number < REGISTER_NUM, "Out of registers")` in both methods of Utils -/
theorem T_rv_capacity :
    ((List.range 20).flatMap fun p => [rvModelRegister .fst p, rvModelRegister .snd p])
    = ((List.range 20).flatMap fun p => [srcRvRegister rvConfig rvCapacityAssert 0 p, srcRvRegister rvConfig rvCapacityAssert 1 p]) := by
  decide

/-! ## explicit substitutions: the reference-count arms of substitution.rs (C11) -/

/-- the `Backend` method an abstract refcount instruction of the model stands for -/
def ropMethod : Scc.PMoves.ROp → String
  | .erase _ => "erase_block"
  | .share _ _ => "share_block_n"
  | .comment _ _ => "comment"

/-- substitution.rs fn code_weakening_contraction / update_reference_count, as extracted from the Rust text,
    side by side with the hand-written model `Scc.PMoves.updateReferenceCount` / `codeWeakeningContraction`:
    the arms of `match new_count` are `0`, `1`, `_` and call exactly the methods the model emits for 0, 1 and
    ≥ 2 targets; the count argument of `share_block_n` is `new_count - 1` (model: `n + 1` for `n + 2`, for
    every `n`); the temporary addressed is `Fst` (model: number 0 of the position); the loop skips `Ext`
    bindings (model: no instruction) and passes `targets.len()`. -/
theorem T_subst_refcount :
    substRefcountArms = [("0", "comment,erase_block"), ("1", ""), ("_", "comment,share_block_n:new_count - 1")]
    ∧ substRefcountMeta = [("temporary", "Fst"), ("guard", "binding.chi != Chirality::Ext"), ("count", "targets.len()")]
    ∧ ((Scc.PMoves.updateReferenceCount some 7 [(7, .prd)] 0).getD []).map ropMethod = ["comment", "erase_block"]
    ∧ ((Scc.PMoves.updateReferenceCount some 7 [(7, .prd)] 1).getD [.erase 0]).map ropMethod = []
    ∧ (∀ n, Scc.PMoves.updateReferenceCount some 7 [(3, .cns), (7, .prd)] (n + 2)
          = some [.comment 1 7, .share 2 (n + 1)])
    ∧ Scc.PMoves.codeWeakeningContraction some [((7, .ext), [])] [(7, .ext)] = some []
    ∧ Scc.PMoves.codeWeakeningContraction some [((7, .prd), [4, 5, 6])] [(7, .prd)]
          = some [.comment 1 7, .share 0 2] := by
  refine ⟨by decide, by decide, by decide, by decide, fun n => rfl, by decide, by decide⟩

end Scc.Props

#print axioms Scc.Props.T_fun2core_ifsort
#print axioms Scc.Props.T_core2axcut_ifsort
#print axioms Scc.Props.T_x86_jump_two
#print axioms Scc.Props.T_x86_ops_distinct
#print axioms Scc.Props.T_a64_ops
#print axioms Scc.Props.T_rv_jump_two
#print axioms Scc.Props.T_x86_config
#print axioms Scc.Props.T_x86_capacity
#print axioms Scc.Props.T_a64_capacity
#print axioms Scc.Props.T_rv_capacity
#print axioms Scc.Props.T_subst_refcount
