/-
  Scc.Props.C12Mid — the two MIDDLE passes preserve typing: the links `C12_link_focus` and
  `C12_link_shrink` of `C12_chain` (Scc/Props/C12.lean) as THEOREMS.

  (a) uniquify + focus (Scc/Core/Typed*.lean, main theorem `Scc.Core.focusProg_wtFsScoped`):
        `C12_focus_typed`   for every Core program `q2` with C03's `Input q2`, `typesDisjoint q2` and
                            `q2.strictOk`:  `wtFsScopedCheck (focusProg q2) = true`.
  (b) shrinking (Scc/Core2AxCut/Typed*.lean, main theorems `shrinkProg_wtAxCheck`, `shrinkProg_wfNonLinear`):
        `C04_shrink_typed`  for every focused program `p` with `wtFsScopedCheck p`, `uniqueIdsCheck p`,
                            `idsBoundedCheck p` and `fsTypesOk p`:  `shrinkProg p = ok q` implies
                            `wtAxCheck q = ok ()`, `WfNonLinear q` (the precondition of C05) and `WTax q`.
                            Lifted definitions are covered: every definition of `q`, lifted or not, is typed
                            under its parameter list (`Core2AxCut.Typed.shrinkProg_wf`).

  SIDE CONDITIONS that the proofs forced, all decidable, all evaluated below on a pipeline program, all
  NECESSARY (model-level counterexamples below; none of them is producible by the pipeline):
    * `Core.Prog.strictOk q2` (Scc/Core/TypedStrict.lean) — Core's checker `Prog.wellTyped` is weaker than
      `wtFsCheck`: it accepts (co)case clauses in any order, cuts / μ at undeclared types, a type called
      `_Cont`, two xtors of the same name in one declaration  (`Scc.Core.strict_*_needed`).
    * `Core2AxCut.fsTypesOk p` (Scc/Core2AxCut/TypedSpec.lean) — type names declared as data AND codata
      (`C12Mid_disjoint_needed`), two xtors of one name in a declaration (`C12Mid_xtorsDistinct_needed`).
    * `idsBoundedCheck p` — `max_id` below an id in use (`C12Mid_idsBounded_needed`).
  Hence `C04_shrink_typed_statement` (Scc/Props/C04.lean, stated without the last two) is FALSE:
  `C04_shrink_typed_statement_false`.

  THE LINKS.  `C12_link_fun2core` gives `Input q2 ∧ typesDisjoint q2`; `strictOk q2` is one more fact about
  the output of fun2core, stated as the link `C12_link_fun2core_strict` (decidable content: `q2.strictOk`,
  true on every corpus program; it is a statement about fun2core, not about the middle passes).  Then
        `C12_link_focus_proved  : C12_link_fun2core → C12_link_fun2core_strict → C12_link_focus`
        `C12_link_shrink_proved : C12_link_fun2core → C12_link_fun2core_strict → C12_link_shrink`
        `C12_chain_mid`         : C12 from the fun2core links and the code-generator link alone.
  NOTE (pf-typ-fun2core, Scc/Props/C12Fun2Core.lean, C12Fun2CoreStrict.lean): over ARBITRARY ASTs both
  `C12_link_fun2core` and `C12_link_fun2core_strict` are false (`C12_link_fun2core_false`: a variable named
  `ς`; `C12_link_fun2core_strict_false`: a data type named `_Cont` — `programNamesOk` accepts both names,
  the real lexer neither), so the conditional theorems `C12_link_*_proved` / `C12_chain_mid` below cannot
  be instantiated as they stand.  The UNCONDITIONAL content of this file is `C12_mid_typed` (per C03 input
  `q2`) and `C12_linkChecks_of_midChecks` (per program); `C12Fun2CoreStrict.lean` composes `C12_mid_typed`
  with the proved fun2core facts (extra premises `C02_noSigmaNames`, `C12_noContType`) into
  `C12_S1_S5_proved` / `C12_chain_codegen_only`.
  Per program: `C12_midChecks p'` (stages succeed; S2 is `Input`, `typesDisjoint`, `strictOk`) implies
  `C12_linkChecks p'` — the S3 / S4 conjuncts of `C12_linkChecks` are now derived, not evaluated.
-/
import Scc.Props.C12
import Scc.Core.TypedFocusProg
import Scc.Core2AxCut.TypedProg

namespace Scc.Props

open Scc Scc.Pipeline Scc.Core2AxCut
open Scc.Fun.Check (checkProgram programNamesOk)

/-! ## (b) shrinking preserves typing -/

/-- **C04-T1 / C12, proved**: shrinking preserves typing; the output is well-formed non-linear AxCut -/
theorem C04_shrink_typed (p : Core.FsProg) (q : AxCut.Prog)
    (hwt : wtFsScopedCheck p = true) (hu : uniqueIdsCheck p = true) (hb : idsBoundedCheck p = true)
    (hty : fsTypesOk p = true) (h : shrinkProg p = .ok q) :
    AxCut.Named.wtAxCheck q = .ok () ∧ AxCut.WfNonLinear q ∧ AxCut.Named.WTax q :=
  ⟨Typed.shrinkProg_wtAxCheck hwt hu hb hty h, Typed.shrinkProg_wfNonLinear hwt hu hb hty h,
    C04_wtAxCheck_sound q (Typed.shrinkProg_wtAxCheck hwt hu hb hty h)⟩

/-- every definition of the output — images of source definitions and LIFTED definitions alike — has
    duplicate-free parameters `≤ max_id` and a body typed under exactly these parameters -/
theorem C04_shrink_defs_typed (p : Core.FsProg) (q : AxCut.Prog)
    (hwt : wtFsScopedCheck p = true) (hu : uniqueIdsCheck p = true) (hb : idsBoundedCheck p = true)
    (hty : fsTypesOk p = true) (h : shrinkProg p = .ok q) :
    ∀ d ∈ q.defs, Typed.WfDef q.types q.sigs q.maxId d :=
  Typed.shrinkProg_wf hwt hu hb hty h

/-! ### non-vacuity and necessity of the side conditions -/

namespace C12MidExample
open Scc

def tT : Core.Ty := .decl ⟨"T", 0⟩
def v1 : Core.Ident := ⟨"v", 1⟩
def k2 : Core.Ident := ⟨"k", 2⟩

/-- `T` is declared as data type (`A`) and as codata type (`B`); `⟨v | B()⟩` is shape-typed (Core takes `T`
    for a codata type) but the AxCut lookup of `T` finds the data declaration -/
def progTwice : Core.FsProg :=
  ⟨[⟨⟨"main", 0⟩, [⟨v1, .prd, tT⟩], .cut tT (.var .prd v1 tT) (.xtor .cns ⟨"B", 0⟩ [] tT)⟩],
   [⟨⟨"T", 0⟩, [⟨⟨"A", 0⟩, []⟩]⟩], [⟨⟨"T", 0⟩, [⟨⟨"B", 0⟩, []⟩]⟩], 2⟩

/-- two constructors called `A`: the eta-expansion clause of the second is checked against the first -/
def progDupXtor : Core.FsProg :=
  ⟨[⟨⟨"main", 0⟩, [⟨v1, .prd, tT⟩, ⟨k2, .cns, tT⟩], .cut tT (.var .prd v1 tT) (.var .cns k2 tT)⟩],
   [⟨⟨"T", 0⟩, [⟨⟨"A", 0⟩, [⟨⟨"x", 0⟩, .prd, .i64⟩]⟩, ⟨⟨"A", 0⟩, []⟩]⟩], [], 2⟩

/-- `max_id = 0` although the id 1 is in use: the fresh variable `x_1` of `shrink_literal_var` shadows `k_1` -/
def progLowMax : Core.FsProg :=
  ⟨[⟨⟨"main", 0⟩, [⟨⟨"k", 1⟩, .cns, .i64⟩], .cut .i64 (.lit 5) (.var .cns ⟨"k", 1⟩ .i64)⟩], [], [], 0⟩

def axOk (p : Core.FsProg) : Option Bool := (shrinkProg p).toOption.map fun q => C12_isOk (AxCut.Named.wtAxCheck q)

end C12MidExample

open C12MidExample in
/-- without "no name is both data and codata": all other hypotheses hold, the output is ill-typed -/
theorem C12Mid_disjoint_needed :
    wtFsScopedCheck progTwice = true ∧ uniqueIdsCheck progTwice = true ∧ idsBoundedCheck progTwice = true ∧
    (progTwice.dataTypes ++ progTwice.codataTypes).all xtorsDistinct = true ∧
    fsTypesDisjoint progTwice = false ∧ axOk progTwice = some false := by decide

open C12MidExample in
/-- without "xtor names of a declaration are distinct" -/
theorem C12Mid_xtorsDistinct_needed :
    wtFsScopedCheck progDupXtor = true ∧ uniqueIdsCheck progDupXtor = true ∧
    idsBoundedCheck progDupXtor = true ∧ fsTypesDisjoint progDupXtor = true ∧
    (progDupXtor.dataTypes ++ progDupXtor.codataTypes).all xtorsDistinct = false ∧
    axOk progDupXtor = some false := by decide

open C12MidExample in
/-- without `idsBoundedCheck` -/
theorem C12Mid_idsBounded_needed :
    wtFsScopedCheck progLowMax = true ∧ uniqueIdsCheck progLowMax = true ∧ fsTypesOk progLowMax = true ∧
    idsBoundedCheck progLowMax = false ∧ axOk progLowMax = some false := by decide

-- the hypotheses of `C04_shrink_typed` on the example of Props/C04 (a critical pair whose expanded side is
-- LIFTED to a new definition): all hold, and the conclusion evaluates to true
example : wtFsScopedCheck C04Example.prog = true ∧ uniqueIdsCheck C04Example.prog = true ∧
    idsBoundedCheck C04Example.prog = true ∧ fsTypesOk C04Example.prog = true ∧
    C12MidExample.axOk C04Example.prog = some true ∧
    (shrinkProg C04Example.prog).toOption.map (fun q => (q.defs.length, AxCut.wfNonLinearCheck q)) =
      some (2, true) := by decide

/-- `C04_shrink_typed_statement` (Props/C04: no `idsBoundedCheck`, no `fsTypesOk`) is false -/
theorem C04_shrink_typed_statement_false : ¬ C04_shrink_typed_statement := by
  intro hfull
  have hc := C12Mid_idsBounded_needed
  obtain ⟨h1, h2, _, _, h5⟩ := hc
  simp only [C12MidExample.axOk] at h5
  cases hq : shrinkProg C12MidExample.progLowMax with
  | error e => rw [hq] at h5; simp [Except.toOption] at h5
  | ok q =>
    rw [hq] at h5
    have hw := hfull _ q h1 h2 hq
    -- `WTax q` contradicts the checker?  the checker is only known to be SOUND, so invert the derivation
    have hq' : q = ⟨[⟨⟨"main", 0⟩, [⟨⟨"k", 1⟩, .cns, contTy⟩],
        .lit ⟨"x", 1⟩ 5 (.invoke ⟨"k", 1⟩ ⟨"Ret", 0⟩ contTy [⟨⟨"x", 1⟩, .ext, .i64⟩]) none⟩],
        q.types, q.maxId⟩ := by
      have : shrinkProg C12MidExample.progLowMax = .ok ⟨[⟨⟨"main", 0⟩, [⟨⟨"k", 1⟩, .cns, contTy⟩],
        .lit ⟨"x", 1⟩ 5 (.invoke ⟨"k", 1⟩ ⟨"Ret", 0⟩ contTy [⟨⟨"x", 1⟩, .ext, .i64⟩]) none⟩],
        [shrinkDeclaration [] contInt], 1⟩ := by rfl
      rw [this] at hq
      injection hq with hq
      subst hq
      rfl
    have hd := hw ⟨⟨"main", 0⟩, [⟨⟨"k", 1⟩, .cns, contTy⟩],
        .lit ⟨"x", 1⟩ 5 (.invoke ⟨"k", 1⟩ ⟨"Ret", 0⟩ contTy [⟨⟨"x", 1⟩, .ext, .i64⟩]) none⟩
        (by rw [hq']; simp)
    cases hd with
    | lit hn =>
      cases hn with
      | invoke hl _ _ _ => simp [AxCut.Named.lookupB] at hl

/-! ## (a) uniquify + focus preserve typing -/

/-- **uniquify + focus preserve typing** for every input of C03 with disjoint type names and `strictOk` -/
theorem C12_focus_typed (q2 : Core.Prog) (hin : Input q2) (hd : typesDisjoint q2 = true)
    (hs : q2.strictOk = true) : wtFsScopedCheck (Core.focusProg q2) = true :=
  Core.focusProg_wtFsScoped q2 hin.typed hin.bindersZero hin.occsOld hd hs

/-! ## the links -/

/-- one more fact about the output of fun2core (decidable content: `q2.strictOk`): clauses in declaration
    order, cut / μ types declared, no type `_Cont`, xtor names of a declaration distinct -/
def C12_link_fun2core_strict : Prop :=
  ∀ (p : Fun.Program) (p' : Fun.CheckedProgram) (q2 : Core.Prog),
    programNamesOk p = true → checkProgram p = .ok p' → validMain p' = true →
    Fun.noMainCall p' = true → Fun2Core.compileProg p' = .ok q2 → q2.strictOk = true

theorem focusProg_dataTypes (q2 : Core.Prog) : (Core.focusProg q2).dataTypes = q2.dataTypes := rfl
theorem focusProg_codataTypes (q2 : Core.Prog) : (Core.focusProg q2).codataTypes = q2.codataTypes := rfl

/-- the side condition of (b) on the types of `focusProg q2`, from the facts about `q2` -/
theorem fsTypesOk_focusProg {q2 : Core.Prog} (hd : typesDisjoint q2 = true) (hs : q2.strictOk = true) :
    fsTypesOk (Core.focusProg q2) = true := by
  simp only [Core.Prog.strictOk, Bool.and_eq_true, List.all_eq_true] at hs
  simp only [fsTypesOk, fsTypesDisjoint, focusProg_dataTypes, focusProg_codataTypes, Bool.and_eq_true,
    List.all_eq_true, List.mem_append]
  refine ⟨?_, ?_⟩
  · simpa only [typesDisjoint, List.all_eq_true] using hd
  · rintro d (hd' | hd')
    · exact hs.1.1.2 d hd'
    · exact hs.1.2 d hd'

/-- everything the middle passes guarantee for one C03 input `q2` -/
theorem C12_mid_typed (q2 : Core.Prog) (hin : Input q2) (hd : typesDisjoint q2 = true)
    (hs : q2.strictOk = true) :
    wtFsScopedCheck (Core.focusProg q2) = true ∧
    ∀ q4, shrinkProg (Core.focusProg q2) = .ok q4 →
      AxCut.Named.wtAxCheck q4 = .ok () ∧ AxCut.WfNonLinear q4 := by
  have h3 := C12_focus_typed q2 hin hd hs
  refine ⟨h3, fun q4 e4 => ?_⟩
  have hglob : ∀ d ∈ (Core.focusProg q2).defs, Core.UniqueBindersGlobal (Core.focusProg q2).maxId d :=
    fun d hd' => (C03_unique_binders_global q2 hin.bindersZero hin.occsOld d hd').1
  obtain ⟨a, b, _⟩ := C04_shrink_typed _ q4 h3 (uniqueIdsCheck_of_global hglob)
    (idsBoundedCheck_of_global hglob) (fsTypesOk_focusProg hd hs) e4
  exact ⟨a, b⟩

/-- **`C12_link_focus` is a theorem** (given the facts about the output of fun2core) -/
theorem C12_link_focus_proved (h2 : C12_link_fun2core) (h2s : C12_link_fun2core_strict) : C12_link_focus := by
  intro p p' q2 hn hc hv hmc e2
  obtain ⟨q2', e2', hin, hd⟩ := h2 p p' hn hc hv hmc
  rw [e2] at e2'
  injection e2' with e2'
  subst e2'
  exact (C12_mid_typed q2 hin hd (h2s p p' q2 hn hc hv hmc e2)).1

/-- **`C12_link_shrink` is a theorem** (given the facts about the output of fun2core) -/
theorem C12_link_shrink_proved (h2 : C12_link_fun2core) (h2s : C12_link_fun2core_strict) : C12_link_shrink := by
  intro p p' q2 q4 hn hc hv hmc e2 e4
  obtain ⟨q2', e2', hin, hd⟩ := h2 p p' hn hc hv hmc
  rw [e2] at e2'
  injection e2' with e2'
  subst e2'
  exact (C12_mid_typed q2 hin hd (h2s p p' q2 hn hc hv hmc e2)).2 q4 e4

/-- C12 from the links about fun2core and the code generators alone -/
theorem C12_chain_mid (h2 : C12_link_fun2core) (h2s : C12_link_fun2core_strict) (h6 : C12_link_codegen) :
    C12_statement :=
  C12_chain h2 (C12_link_focus_proved h2 h2s) (C12_link_shrink_proved h2 h2s) h6

/-! ## per program: only the facts about S2 remain to be evaluated -/

/-- the decidable facts about ONE compilation that are not theorems after this file: the middle end
    succeeds and S2 is an `Input` of C03 with disjoint type names satisfying `strictOk` -/
def C12_midChecks (p' : Fun.CheckedProgram) : Bool :=
  match stages p' with
  | .ok st => C12_inputB st.s2 && typesDisjoint st.s2 && st.s2.strictOk
  | .error _ => false

/-- the S3 / S4 conjuncts of `C12_linkChecks` are derived -/
theorem C12_linkChecks_of_midChecks (p' : Fun.CheckedProgram) (h : C12_midChecks p' = true) :
    C12_linkChecks p' = true := by
  unfold C12_midChecks at h
  cases hs : stages p' with
  | error e => rw [hs] at h; cases h
  | ok st =>
    rw [hs] at h
    simp only [Bool.and_eq_true] at h
    obtain ⟨⟨hi, hd⟩, hst⟩ := h
    have hin := C12_inputB_sound hi
    obtain ⟨_, e3, e4, _⟩ := stages_ok_iff.1 hs
    obtain ⟨_, e3'⟩ := focusProgE_ok_iff.1 e3
    obtain ⟨m1, m2⟩ := C12_mid_typed st.s2 hin hd hst
    rw [← e3'] at m1 m2
    obtain ⟨a, b⟩ := m2 st.s4 e4
    refine C12_linkChecks_iff.2 ⟨st, hs, ?_⟩
    simp only [C12_stageChecks, Bool.and_eq_true]
    exact ⟨⟨⟨hi, m1⟩, by rw [a]; rfl⟩, (AxCut.wfNonLinearCheck_iff st.s4).2 b⟩

/-- the example program of Props/C12 passes `C12_midChecks` (so the hypotheses of the link theorems are
    satisfiable on a real pipeline program: polymorphic data type, recursion, `case`, `let`, a call) -/
def C12_exMid (src : String) : Bool :=
  match frontEnd src with
  | .ok _ p' => C12_midChecks p'
  | _ => false

set_option maxRecDepth 100000 in
theorem C12_example_midChecks : C12_exMid C12_exSrc = true := by decide +kernel

#print axioms C04_shrink_typed
#print axioms C04_shrink_defs_typed
#print axioms C12Mid_disjoint_needed
#print axioms C12Mid_xtorsDistinct_needed
#print axioms C12Mid_idsBounded_needed
#print axioms C04_shrink_typed_statement_false
#print axioms C12_focus_typed
#print axioms C12_mid_typed
#print axioms C12_link_focus_proved
#print axioms C12_link_shrink_proved
#print axioms C12_chain_mid
#print axioms C12_linkChecks_of_midChecks
#print axioms C12_example_midChecks

end Scc.Props
