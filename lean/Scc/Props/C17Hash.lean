/-
  C17, hidden-input inventory: every place where /repo iterates something that is (or is named like)
  a HashMap/HashSet is listed by bin/regen in Scc/Generated/HashSites.lean on every run.  The theorem
  below says that all of them are in the reviewed whitelist of order-insensitive uses; a NEW iteration
  site (or a changed one) makes it fail.  Identifiers are crc32("file|kind|occurrence").
-/
import Scc.Generated.HashSites

namespace Scc.Props
open Scc.Generated

/-- reviewed sites, each with the reason why the iteration order cannot reach the output -/
def hashWhitelist : List Nat := [
  799562813  /- lang/fun2core/src/compile.rs|free_vars.iter|1 : BTreeSet (ordered), and only `.any(..)` is taken: order-insensitive -/,
  3365090722  /- lang/core2axcut/src/statements/cut.rs|used_labels.iter|1 : HashSet of labels, only `.any(..)` is taken (collision test of the lift-label fix D9a): order-insensitive -/,
  2537966271  /- lang/axcut/src/syntax/program.rs|defs.iter|1 : Vec: ordered -/,
  2865432503  /- lang/axcut/src/syntax/program.rs|types.iter|1 : Vec: ordered -/,
  733848249  /- lang/axcut/src/syntax/statements/create.rs|extend(vars_clauses)|1 : HashSet into HashSet: set union -/,
  1357174626  /- lang/axcut/src/syntax/statements/ifc.rs|extend(vars_elsec)|1 : HashSet into HashSet: set union -/,
  57180307  /- lang/axcut/src/syntax/types.rs|types.iter|1 : slice of TypeDeclaration: ordered -/,
  151366865  /- lang/axcut/src/traits/free_vars.rs|extend(free_vars)|1 : HashSet into HashSet: set union, order-insensitive -/,
  4219874199  /- lang/axcut2backend/src/coder.rs|defs.iter|1 : Vec<Def>: ordered -/,
  2276013  /- lang/axcut2backend/src/coder.rs|for-in defs|1 : Vec<Def> (name shared with a hash-typed field elsewhere): ordered -/,
  1153085368  /- lang/axcut2backend/src/parallel_moves.rs|mappings.keys|1 : BTreeMap: ordered iteration -/,
  2500421494  /- lang/core2axcut/src/program.rs|defs.into_iter|1 : Vec: ordered -/,
  3373811978  /- lang/core2axcut/src/program.rs|defs.iter|1 : Vec: ordered -/,
  2020480560  /- lang/core_lang/src/syntax/declaration.rs|types.iter|1 : slice: ordered -/,
  3849803836  /- lang/core_lang/src/syntax/program.rs|defs.iter|1 : Vec: ordered -/,
  2229133816  /- lang/core_lang/src/syntax/program.rs|for-in defs|1 : Vec: ordered -/,
  3245586718  /- lang/fun/src/syntax/context.rs|params.iter|1 : ordered Vec / membership test -/,
  2359187871  /- lang/fun/src/syntax/declarations/codata.rs|dtors.iter|1 : Vec: ordered -/,
  3231397054  /- lang/fun/src/syntax/declarations/codata.rs|for-in dtors|1 : Vec: ordered -/,
  2998283434  /- lang/fun/src/syntax/declarations/data.rs|ctors.iter|1 : Vec: ordered -/,
  3803175389  /- lang/fun/src/syntax/declarations/data.rs|for-in ctors|1 : Vec: ordered -/,
  2815883807  /- lang/fun/src/syntax/program.rs|defs.into_iter|1 : Vec<Def>: ordered -/,
  3318872465  /- lang/fun/src/syntax/program.rs|for-in types|1 : iterates the sorted Vec (fix of D4) -/,
  3011621516  /- lang/fun/src/syntax/program.rs|types.into_iter|1 : collects the instances into a Vec that is SORTED by name before use (fix of D4) -/,
  3746043100  /- lang/fun/src/typing/symbol_table.rs|ctors.iter|1 : Vec: ordered -/,
  2882600275  /- lang/fun/src/typing/symbol_table.rs|dtors.iter|1 : Vec: ordered -/,
  3016282829  /- lang/fun/src/typing/symbol_table.rs|for-in ctors|1 : Vec of CtorSig of a declaration: ordered -/,
  1987046467  /- lang/fun/src/typing/symbol_table.rs|for-in dtors|1 : Vec of DtorSig of a declaration: ordered -/,
  2333823212  /- lang/fun/src/typing/symbol_table.rs|for-in type_templates|1 : lookup of the unique template declaring a ctor: keys unique, result independent of order -/,
  303169878  /- lang/fun/src/typing/symbol_table.rs|for-in type_templates|2 : lookup of the unique template declaring a dtor: order-independent result -/,
  1695887808  /- lang/fun/src/typing/symbol_table.rs|for-in type_templates|3 : check_type_params: only decides WHICH error is reported when several exist -/,
  2186349606  /- lang/fun/src/typing/symbol_table.rs|for-in types|1 : lookup_ty_for_ctor: unique match, order-independent result -/,
  458775964  /- lang/fun/src/typing/symbol_table.rs|for-in types|2 : lookup_ty_for_dtor: unique match, order-independent result -/,
  2022070137  /- lang/fun2core/src/program.rs|ctors.into_iter|1 : Vec: ordered -/,
  1721016599  /- lang/fun2core/src/program.rs|defs.iter|1 : Vec: ordered -/,
  1477716786  /- lang/fun2core/src/program.rs|dtors.into_iter|1 : Vec: ordered -/,
  919393738  /- lang/fun2core/src/program.rs|for-in defs|1 : Vec<Def>: ordered -/
]

/-- C17 (tie to the source): no unreviewed hash iteration in the compiler. -/
theorem C17_hash_sites_whitelisted : ∀ s ∈ hashIterSites, s ∈ hashWhitelist := by decide

/-- non-vacuity: the inventory is not empty -/
example : hashIterSites.length ≥ 10 := by decide

end Scc.Props
