/-
  Scc.Props.C06X86Full — property C06 (x86-64 code generation preserves AxCut semantics): THEOREM A ∘
  THEOREM B on the TEXT of the emitted routine, with the side hypotheses of `C06_data_programs`
  (Props/C06X86Heap.lean) DISCHARGED.

  `C06_x86Checks : AxCut.Prog → Bool` collects what is genuinely per-program:
    * `capCheck`    every context has at most 133 variables (static bound `2·progCap p ≤ 266`, the capacity
                    of utils.rs temporary_from_position for both temporaries of every variable);
    * `sizeCheck`   `10·(1 + longest context)·nodes < 2^64` (the code fits the address space);
    * `C01_progInRangeB`  literals are i64 values, fewer than 4·10^8 xtors per type, fewer than 2^31 pairs
                    per substitution (`ProgInRange`);
    * `C14_namesTextSafe` the names of the program consist of symbol characters of the loader;
    * `entryIntB`   the parameters of the first definition are integers (`main` is called with integers).
  Everything else is PROVED from them, `LabelSafe p`, `LinTypedProg p` and the success of the code generator:
    * the mock code generator succeeds (`mock_compile_ok`: the mock backend is a `TotalBackend`);
    * its code fits the address space (`codeFits_of_size`);
    * every context of every reachable state has at most 133 variables (`cap266_of_check`);
    * `fitsI64 (5·tag)` (from the bound on xtors), `fuel + 1 < 2^64` (from the heap bound and `MachOK`);
    * the labels of the emitted routine are pairwise distinct (`labels_unique_x86`, Scc/X86/RefSideLabels.lean:
      the x86-64 analogue of `C14Generic.labels_unique`, memory methods included);
    * the text loads (`C14_routine_loads`).
-/
import Scc.X86.RefSide
import Scc.X86.RefSideLabels
import Scc.Props.C06X86Heap
import Scc.Props.C14Loader

namespace Scc.X86
open Scc.AxCut Scc.AxCut.Pos Scc.Backend Scc.Backend.Abs Scc.Backend.Sim Scc.X86.Ref
open Scc.Props.C14Generic (LabelSafe)
open Scc.Props (C01_progInRangeB C01_stmtRangeB C01_clausesRangeB)

/-! ## the per-program checks -/

/-- the parameters of the first definition are integers -/
def entryIntB (p : AxCut.Prog) : Bool :=
  match p.defs.head? with
  | some d0 => d0.ctx.all fun b => decide (b.chi = .ext ∧ b.ty = .i64)
  | none => false

/-- THE DECIDABLE PER-PROGRAM HYPOTHESIS of the x86-64 run theorem -/
def C06_x86Checks (p : AxCut.Prog) : Bool :=
  capCheck p && sizeCheck p && C01_progInRangeB p && C14_namesTextSafe p && entryIntB p

mutual
  theorem C06_stmtRange_sound : ∀ s : AxCut.Stmt, C01_stmtRangeB s = true →
      StmtB (fun n => fitsI64 n = true) maxSubstX86 s
    | .subst pairs next, h => by
      simp only [C01_stmtRangeB, Bool.and_eq_true, decide_eq_true_eq] at h
      simp only [StmtB]
      exact ⟨h.1, C06_stmtRange_sound next h.2⟩
    | .call _ _, _ => by simp [StmtB]
    | .letS _ _ _ _ next _, h => by
      simp only [C01_stmtRangeB] at h; simp only [StmtB]; exact C06_stmtRange_sound next h
    | .switch _ _ cl _, h => by
      simp only [C01_stmtRangeB] at h; simp only [StmtB]; exact C06_clausesRange_sound cl h
    | .create _ _ _ cl next _ _, h => by
      simp only [C01_stmtRangeB, Bool.and_eq_true] at h
      simp only [StmtB]
      exact ⟨C06_clausesRange_sound cl h.1, C06_stmtRange_sound next h.2⟩
    | .invoke _ _ _ _, _ => by simp [StmtB]
    | .lit _ n next _, h => by
      simp only [C01_stmtRangeB, Bool.and_eq_true] at h
      simp only [StmtB]
      exact ⟨h.1, C06_stmtRange_sound next h.2⟩
    | .op _ _ _ _ next _, h => by
      simp only [C01_stmtRangeB] at h; simp only [StmtB]; exact C06_stmtRange_sound next h
    | .print _ _ next _, h => by
      simp only [C01_stmtRangeB] at h; simp only [StmtB]; exact C06_stmtRange_sound next h
    | .ifc _ _ _ t e, h => by
      simp only [C01_stmtRangeB, Bool.and_eq_true] at h
      simp only [StmtB]
      exact ⟨C06_stmtRange_sound t h.1, C06_stmtRange_sound e h.2⟩
    | .exit _, _ => by simp [StmtB]
  theorem C06_clausesRange_sound : ∀ cl : AxCut.Clauses, C01_clausesRangeB cl = true →
      ClausesB (fun n => fitsI64 n = true) maxSubstX86 cl
    | .nil, _ => by simp [ClausesB]
    | .cons _ _ body rest, h => by
      simp only [C01_clausesRangeB, Bool.and_eq_true] at h
      simp only [ClausesB]
      exact ⟨C06_stmtRange_sound body h.1, C06_clausesRange_sound rest h.2⟩
end

theorem C06_progInRange_of_check {q : AxCut.Prog} (h : C01_progInRangeB q = true) : ProgInRange q := by
  simp only [C01_progInRangeB, Bool.and_eq_true, List.all_eq_true, decide_eq_true_eq] at h
  exact ⟨fun d hd => h.1 d hd, fun d hd => C06_stmtRange_sound d.body (h.2 d hd)⟩

/-- what the checks give -/
structure ChecksFacts (p : AxCut.Prog) : Prop where
  cap : capCheck p = true
  size : sizeCheck p = true
  range : ProgInRange p
  names : C14_namesTextSafe p = true
  entry : ∃ d0, p.defs.head? = some d0 ∧ ∀ b ∈ d0.ctx, b.chi = .ext ∧ b.ty = .i64

theorem C06_checks_facts {p : AxCut.Prog} (h : C06_x86Checks p = true) : ChecksFacts p := by
  simp only [C06_x86Checks, Bool.and_eq_true] at h
  obtain ⟨⟨⟨⟨h1, h2⟩, h3⟩, h4⟩, h5⟩ := h
  refine ⟨h1, h2, C06_progInRange_of_check h3, h4, ?_⟩
  unfold entryIntB at h5
  cases hd : p.defs.head? with
  | none => rw [hd] at h5; cases h5
  | some d0 =>
    rw [hd] at h5
    simp only [List.all_eq_true, decide_eq_true_eq] at h5
    exact ⟨d0, rfl, h5⟩

/-! ## the run theorem for programs with data types, on the TEXT, side hypotheses discharged -/

/-- THEOREM A ∘ THEOREM B FOR PROGRAMS WITH DATA TYPES (no closures) ON THE TEXT OF THE ROUTINE: for a
label-safe, linearly typed program that passes the decidable checks `C06_x86Checks` and that the x86-64
code generator compiles, every terminating run of the AxCut positional machine is reproduced — same
trace, same result — by the x86-64 SPEC machine on the printed routine, in EVERY sane machine
configuration (`MachOK`; heap base positive and 8-aligned; the routine ends below 2^64) whose heap has
`128 + 64·134·fuel` bytes. -/
theorem C06_data_programs_text (p : AxCut.Prog) (args : List Word) (hooks : Bool) (body routine : List Code)
    (nargs : Nat)
    (hsafe : LabelSafe p = true) (htp : LinTypedProg p) (hdata : DataProg p) (hchk : C06_x86Checks p = true)
    (hcompX : compileX86 p hooks 0 = .ok (body, nargs)) (hrout : intoRoutine body nargs = .ok routine)
    (fuel : Nat) (out : List (Bool × Word)) (v : Word) (hrun : Pos.run p args fuel = ⟨out, .done v⟩)
    (cfg : MonCfg) (MO : MachOK cfg.mach) (hheap : cfg.heap = false)
    (hb8 : cfg.mach.heapBase % 8 = 0) (hb0 : 0 < cfg.mach.heapBase)
    (hbytes : 128 + 64 * 134 * fuel ≤ cfg.mach.heapBytes)
    (hfitX : addrAt cfg.mach.codeBase routine routine.length < 2 ^ 64) :
    ∃ fuel', (run (printProg routine) args fuel' cfg).out = out ∧
      (run (printProg routine) args fuel' cfg).res = .done v := by
  obtain ⟨hcap, hsize, hrange, hnames, d0, hd, hentry⟩ := C06_checks_facts hchk
  have hnd : (labs routine).Nodup := labels_unique_x86 hsafe hcompX hrout
  have hmem : d0 ∈ p.defs := by
    cases hdefs : p.defs with
    | nil => rw [hdefs] at hd; simp at hd
    | cons d ds => rw [hdefs] at hd; simp at hd; subst hd; simp
  have hne : p.defs ≠ [] := fun e => by rw [e] at hmem; cases hmem
  -- the mock code generator
  obtain ⟨ops, nargsM, c', hcompM⟩ := mock_compile_ok hooks p htp hne 0
  have hnargs : nargsM = nargs := by
    obtain ⟨_, hn⟩ := compile_mock_entry hcompM hd
    unfold compileX86 at hcompX
    cases hx : (compile x86Backend hooks p).run 0 with
    | error e => rw [hx] at hcompX; cases hcompX
    | ok r =>
      obtain ⟨⟨body', nargs'⟩, c''⟩ := r
      rw [hx] at hcompX
      simp only [Except.ok.injEq, Prod.mk.injEq] at hcompX
      obtain ⟨rfl, rfl⟩ := hcompX
      obtain ⟨d0', ds, hd', hn'⟩ := compile_nargs' _ _ _ _ _ _ _ hx
      rw [hd'] at hd
      simp only [List.head?_cons, Option.some.injEq] at hd
      subst hd
      rw [hn, hn']
  subst hnargs
  obtain ⟨items, hparse, hitems⟩ := C14_routine_loads hrange hnames hcompX hrout
  obtain ⟨fuel', h1, h2⟩ := data_programs_items p args hooks body routine nargsM d0 ops c' hsafe htp
    ⟨hrange.1, fun d hd' => ⟨hdata d hd', hrange.2 d hd'⟩⟩ hcompM (codeFits_of_size htp hsize hcompM) hcompX hrout
    hnd hd hentry (cap266_of_check hcap hmem args) fuel out v (fuel_lt_of_heap MO hbytes) hrun cfg MO hheap hb8
    hb0 hbytes items hitems hfitX
  exact ⟨fuel', by rw [run_eq_runItems hparse]; exact h1, by rw [run_eq_runItems hparse]; exact h2⟩

/-! ### non-vacuity -/

set_option maxRecDepth 100000 in
theorem C06_boxProg_checks : C06_x86Checks C06_boxProg = true := by decide +kernel

/-- the box program of Props/C06X86Heap.lean started with x = 21: every hypothesis of
`C06_data_programs_text` holds, so the x86-64 machine on the TEXT of the emitted routine prints 42 and
returns 42 -/
example : ∃ fuel',
    (run (printProg C06_boxRoutine) [21] fuel' {}).out = [(true, 42)] ∧
    (run (printProg C06_boxRoutine) [21] fuel' {}).res = .done 42 := by
  have hrun : Pos.run C06_boxProg [21] 20 = ⟨[(true, 42)], .done 42⟩ := by decide
  exact C06_data_programs_text C06_boxProg [21] true C06_boxBody C06_boxRoutine 1
    (by decide) (linTypedCheck_sound C06_boxProg rfl) C06_boxProg_data C06_boxProg_checks rfl rfl
    20 _ _ hrun {} machOK_default rfl (by decide) (by decide) (by decide) C06_boxRoutine_fits

end Scc.X86

#print axioms Scc.X86.C06_data_programs_text
