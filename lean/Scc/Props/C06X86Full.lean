/-
  Scc.Props.C06X86Full — property C06 (x86-64 code generation preserves AxCut semantics): THEOREM A ∘
  THEOREM B on the TEXT of the emitted routine for ALL programs — data types AND CLOSURES —, with the side
  hypotheses of `C06_data_programs` (Props/C06X86Heap.lean) DISCHARGED.

  (A) CLOSURES.  The three-way simulation (AxCut positional machine ⟷ abstract backend machine ⟷ x86-64
  machine) is extended to `create` and `invoke`:
    * `C06_create_x86` (`Ref.K.create_x3`), `C06_invoke_x86` (`Ref.K.invoke_x3`);
    * `C06_step_x86_all` (`Ref.K.step3`): the three-way step for all eleven statement forms;
    * `C06_programs` (`Ref.K.programs_items`): the run theorem on the items of the routine, no `DataProg`.
  The word part of a closure is a CODE ADDRESS: the address of the method table in the mock code on the
  abstract machine, the BYTE ADDRESS of the method table in the loaded routine on x86-64 (`addrAt`,
  `LoadedA`).  The two generators draw different label numbers, so the two addresses are related PER
  INSTANCE of a closure (Scc/X86/RefClosDefs.lean): `κ id j` is the machine word of the closure in field `j`
  of object `id`, the machine state holds the word of a closure in a variable, and the closure invariant
  `XC` says of every closure inside every value of the environment that the mock methods stand at its
  abstract word and the x86-64 methods at its machine word, generated FOR THE SAME environment context.
  `invoke` of a single-method closure is `jmp reg` to the byte address of a label: the machine lands on the
  first item of non-zero size behind it; the relation is kept at the statement boundary (`Tol`,
  Scc/X86/RefClosTol.lean).
  The closure-aware proofs live in Scc/X86/RefClosH*.lean + RefClos*.lean, namespace `Scc.X86.Ref.K`: a FORK
  of Scc/X86/RefHeap*.lean (relation `X3` with the extra argument `κ`, frame exports `KeepPos`,
  `SubstProv`, `LetProv`, `LoadProv`); the originals are unchanged because Scc/X86/Conc*.lean (C09/C10/C13)
  is built on them.

  (B) SIDE HYPOTHESES.
  `C06_x86Checks : AxCut.Prog → Bool` collects what is genuinely per-program:
    * `capCheck`    every context has at most 133 variables (static bound `2·progCap p ≤ 266`, the capacity
                    of utils.rs temporary_from_position for both temporaries of every variable);
    * `sizeCheck`   `10·(1 + longest context)·nodes < 2^64` (the code fits the address space);
    * `C01_progInRangeB`  literals are i64 values, fewer than 4·10^8 xtors per type, fewer than 2^31 pairs
                    per substitution (`ProgInRange`);
    * `C14_namesTextSafe` the names of the program consist of symbol characters of the loader;
    * `entryIntB`   the parameters of the first definition are integers (`main` is called with integers).
  Everything else is PROVED from them, `LabelSafe p`, `LinTypedProg p` and the success of the code generator:
    * the mock code generator succeeds (`mock_compile_ok`: the mock backend is a `TotalBackend`);
    * its code fits the address space (`codeFits_of_size`);
    * every context of every reachable state has at most 133 variables (`cap266_of_check`);
    * `fitsI64 (5·tag)`, `fitsI32 (5·tag)` (from the bound on xtors), `fuel + 1 < 2^64` (from the heap bound
      and `MachOK`);
    * the labels of the emitted routine are pairwise distinct (`labels_unique_x86`, Scc/X86/RefSideLabels.lean:
      the x86-64 analogue of `C14Generic.labels_unique`, memory methods included);
    * the text loads (`C14_routine_loads`).
  RESULT: `C06_programs_text`, and in the shape of `C06_statement` (Props/C06X86.lean):
  `C06_statement_checked` / `C06_statement_checked_holds`; the clauses that differ from `C06_statement` are
  listed before `C06_statement_checked`.
-/
import Scc.X86.RefSide
import Scc.X86.RefSideLabels
import Scc.Props.C06X86Heap
import Scc.X86.RefClosHRun
import Scc.Props.C14Loader

namespace Scc.X86
open Scc.AxCut Scc.AxCut.Pos Scc.Backend Scc.Backend.Abs Scc.Backend.Sim Scc.X86.Ref Scc.X86.Ref.K
open Scc.Props.C14Generic (LabelSafe)
open Scc.Props (C01_progInRangeB C01_stmtRangeB C01_clausesRangeB)

/-! ## the per-program checks -/

/-- the parameters of the first definition are integers -/
def entryIntB (p : AxCut.Prog) : Bool :=
  match p.defs.head? with
  | some d0 => d0.ctx.all fun b => decide (b.chi = .ext ∧ b.ty = .i64)
  | none => false

/-- THE DECIDABLE PER-PROGRAM HYPOTHESIS of the x86-64 run theorem -/
def C06_x86Checks (p : AxCut.Prog) : Bool :=
  capCheck p && sizeCheck p && C01_progInRangeB p && C14_namesTextSafe p && entryIntB p

mutual
  theorem C06_stmtRange_sound : ∀ s : AxCut.Stmt, C01_stmtRangeB s = true →
      StmtB (fun n => fitsI64 n = true) maxSubstX86 s
    | .subst pairs next, h => by
      simp only [C01_stmtRangeB, Bool.and_eq_true, decide_eq_true_eq] at h
      simp only [StmtB]
      exact ⟨h.1, C06_stmtRange_sound next h.2⟩
    | .call _ _, _ => by simp [StmtB]
    | .letS _ _ _ _ next _, h => by
      simp only [C01_stmtRangeB] at h; simp only [StmtB]; exact C06_stmtRange_sound next h
    | .switch _ _ cl _, h => by
      simp only [C01_stmtRangeB] at h; simp only [StmtB]; exact C06_clausesRange_sound cl h
    | .create _ _ _ cl next _ _, h => by
      simp only [C01_stmtRangeB, Bool.and_eq_true] at h
      simp only [StmtB]
      exact ⟨C06_clausesRange_sound cl h.1, C06_stmtRange_sound next h.2⟩
    | .invoke _ _ _ _, _ => by simp [StmtB]
    | .lit _ n next _, h => by
      simp only [C01_stmtRangeB, Bool.and_eq_true] at h
      simp only [StmtB]
      exact ⟨h.1, C06_stmtRange_sound next h.2⟩
    | .op _ _ _ _ next _, h => by
      simp only [C01_stmtRangeB] at h; simp only [StmtB]; exact C06_stmtRange_sound next h
    | .print _ _ next _, h => by
      simp only [C01_stmtRangeB] at h; simp only [StmtB]; exact C06_stmtRange_sound next h
    | .ifc _ _ _ t e, h => by
      simp only [C01_stmtRangeB, Bool.and_eq_true] at h
      simp only [StmtB]
      exact ⟨C06_stmtRange_sound t h.1, C06_stmtRange_sound e h.2⟩
    | .exit _, _ => by simp [StmtB]
  theorem C06_clausesRange_sound : ∀ cl : AxCut.Clauses, C01_clausesRangeB cl = true →
      ClausesB (fun n => fitsI64 n = true) maxSubstX86 cl
    | .nil, _ => by simp [ClausesB]
    | .cons _ _ body rest, h => by
      simp only [C01_clausesRangeB, Bool.and_eq_true] at h
      simp only [ClausesB]
      exact ⟨C06_stmtRange_sound body h.1, C06_clausesRange_sound rest h.2⟩
end

theorem C06_progInRange_of_check {q : AxCut.Prog} (h : C01_progInRangeB q = true) : ProgInRange q := by
  simp only [C01_progInRangeB, Bool.and_eq_true, List.all_eq_true, decide_eq_true_eq] at h
  exact ⟨fun d hd => h.1 d hd, fun d hd => C06_stmtRange_sound d.body (h.2 d hd)⟩

/-- what the checks give -/
structure ChecksFacts (p : AxCut.Prog) : Prop where
  cap : capCheck p = true
  size : sizeCheck p = true
  range : ProgInRange p
  names : C14_namesTextSafe p = true
  entry : ∃ d0, p.defs.head? = some d0 ∧ ∀ b ∈ d0.ctx, b.chi = .ext ∧ b.ty = .i64

theorem C06_checks_facts {p : AxCut.Prog} (h : C06_x86Checks p = true) : ChecksFacts p := by
  simp only [C06_x86Checks, Bool.and_eq_true] at h
  obtain ⟨⟨⟨⟨h1, h2⟩, h3⟩, h4⟩, h5⟩ := h
  refine ⟨h1, h2, C06_progInRange_of_check h3, h4, ?_⟩
  unfold entryIntB at h5
  cases hd : p.defs.head? with
  | none => rw [hd] at h5; cases h5
  | some d0 =>
    rw [hd] at h5
    simp only [List.all_eq_true, decide_eq_true_eq] at h5
    exact ⟨d0, rfl, h5⟩

/-! ## closures: `create` and `invoke` on x86-64 -/

open Scc.Backend.Sim2 (RelX Fits)
open Scc.Heap (HState)
open Scc.Heap.Refine (FrLe Room)
open Scc.Props.C06Generic (Reachable WithinCapacity CodeFits EnoughHeap)

section Clos

variable {F : Frame} (H : FrameOK F) (h8 : F.c.heapBase % 8 = 0) {mon : MonCfg} (hmon : mon.mach = F.c)
  {px : X86.Prog} {cs : List Code}

include H h8 hmon in
/-- THREE-WAY SIMULATION OF `create` on x86-64: the positional machine's step, two steps of the abstract
machine (`store` of the environment, `loadLabel` of the method table), the machine's execution of
`Memory::store` and `lea reg, [rel table]`.  The relation is re-established; the new closure is at the last
position: its abstract word is the ADDRESS `a` of the mock methods (`MethodsAt`), its machine word the
BYTE ADDRESS `w` of the x86-64 methods in the loaded routine (`XMethodsAt`), generated for the SAME
environment context. -/
theorem C06_create_x86 (L : Loaded px cs) (hnd : (labs cs).Nodup) (LA : LoadedA F.c px cs)
    {P : Program} {hooks : Bool} {prog : AxCut.Prog} {Γ : Ctx}
    {ρ : List Value} {x : Ident} {ty : Ty} {Γc : Ctx} {clauses : Clauses} {next : Stmt} {f1 f2 : FV}
    {cfg : Config}
    (R : RelX P hooks prog ⟨Γ, ρ, .create x ty (some Γc) clauses next f1 f2⟩ cfg)
    (hk : Γc.length ≤ Γ.length)
    (hkeys : Ctx.keys (Γ.drop (Γ.length - Γc.length)) = Γc.keys)
    (hfresh : ∀ b ∈ Γ.take (Γ.length - Γc.length), b.var.id ≠ x.id)
    (hcap : 2 * (Γ.length - Γc.length + 1) + 2 < Mock.T_TEMP)
    (hnext : cfg.next < 2 ^ 64)
    {hs : HState} {ι : Nat → Nat} {κ : Nat → Nat → Word} {st : State} (X : X3 F Γ cfg hs ι κ st)
    {k k' : Nat} {items : List Code}
    (hrun : (codeStatementR x86Backend hooks natRen prog.types (.create x ty (some Γc) clauses next f1 f2) Γ).run k =
      .ok (items, k'))
    (hat : XAt cs st.pc items)
    (hroom : Room hs (64 * Γc.length + 64)) :
    ∃ cfg' st' hs' ι' κ' n, stepsTo P 2 cfg cfg' ∧ stepN mon px n st = .inl st' ∧ FrLe hs hs' (64 * Γc.length) ∧
      cfg'.out = cfg.out ∧ cfg'.next ≤ cfg.next + 1 ∧
      RelX P hooks prog ⟨Γ.take (Γ.length - Γc.length) ++ [⟨x, .cns, ty⟩],
        ρ.take (Γ.length - Γc.length) ++ [.clo Γc (ρ.drop (Γ.length - Γc.length)) clauses], next⟩ cfg' ∧
      X3 F (Γ.take (Γ.length - Γc.length) ++ [⟨x, .cns, ty⟩]) cfg' hs' ι' κ' st' ∧
      ∃ k1 k1' items', (codeStatementR x86Backend hooks natRen prog.types next
          (Γ.take (Γ.length - Γc.length) ++ [⟨x, .cns, ty⟩])).run k1 = .ok (items', k1') ∧
        XAt cs st'.pc items' ∧ LetProv F Γ (Γ.length - Γc.length) cfg cfg' κ κ' st st' ∧
        ∃ a w, cfg'.temps.get (2 * (Γ.length - Γc.length) + 1) = some (BitVec.ofNat 64 a) ∧
          tempVal F.sp st' (posTemp (2 * (Γ.length - Γc.length) + 1)) = some w ∧
          MethodsAt P hooks prog.types a (Γ.drop (Γ.length - Γc.length)) clauses ∧
          XMethodsAt F.c cs hooks prog.types w (Γ.drop (Γ.length - Γc.length)) clauses :=
  create_x3 H h8 hmon L hnd LA R hk hkeys hfresh hcap hnext X hrun hat hroom

include H h8 hmon in
/-- THREE-WAY SIMULATION OF `invoke` on x86-64: the positional machine's step; the abstract machine jumps
to the address `a` the closure holds (through the table of the mock methods, if the type has more than one
method) and loads the environment; the x86-64 machine jumps to the BYTE ADDRESS `w` the closure holds
(`jmp reg`; with more than one method: `add reg, 5·pos; jmp reg` into the table of 5-byte jumps — stride
`jump_length` = 5 per method — and from there to the method) and runs `Memory::load` of the environment.
`hword … hXM`: what the closure invariant `XC` says about the closure at the last position.  The relation
is re-established at the boundary state `st'`; the machine itself is at `stR`, which is `st'` or `st'`
moved over labels and comments (`Tol`; `jmp reg` lands on the first item of non-zero size). -/
theorem C06_invoke_x86 (LA : LoadedA F.c px cs) (hnd : (labs cs).Nodup)
    (hfitX : addrAt F.c.codeBase cs cs.length < 2 ^ 64)
    (hreal : ∀ idx, idx < cs.length → ∃ i, idx ≤ i ∧ ∃ h : i < cs.length, codeSize cs[i] ≠ 0)
    {P : Program} {hooks : Bool} {prog : AxCut.Prog} {Γa : Ctx} {b : Binding}
    {ρa : List Value} {Γc : Ctx} {ρc : List Value} {clauses : Clauses} {x tag : Ident} {ty : Ty}
    {args : Ctx} {cfg : Config} {c : Clause} {pos : Nat}
    (R : RelX P hooks prog ⟨Γa ++ [b], ρa ++ [.clo Γc ρc clauses], .invoke x tag ty args⟩ cfg)
    (hfits : Fits P)
    (hb : b.var.id = x.id) (hfresh : ∀ b' ∈ Γa, b'.var.id ≠ x.id)
    (hpos : Pos.tagPosition prog.types ty tag = .ok pos)
    (hclause : nthClause clauses pos = some c)
    (hlenc : ∀ d, lookupTypeDecl prog.types ty = some d → clauses.length = d.xtors.length)
    (hargs : Γa.map (·.chi) = c.ctx.map (·.chi))
    (hkinds : ρc.map Sim2.kindOf = Mock.kindsOf Γc)
    (hcap : 2 * (c.ctx.length + Γc.length) + 2 < Mock.T_TEMP)
    {hs : HState} {ι : Nat → Nat} {κ : Nat → Nat → Word} {st : State} (X : X3 F (Γa ++ [b]) cfg hs ι κ st)
    {a : Nat} {envCtx' : Ctx} {w : Word} (hkeys : envCtx'.keys = Γc.keys)
    (hword : cfg.temps.get (2 * Γa.length + 1) = some (BitVec.ofNat 64 a))
    (hmeth : MethodsAt P hooks prog.types a envCtx' clauses)
    (hw : tempVal F.sp st (posTemp (2 * Γa.length + 1)) = some w)
    (hXM : XMethodsAt F.c cs hooks prog.types w envCtx' clauses)
    {k k' : Nat} {items : List Code}
    (hrun : (codeStatementR x86Backend hooks natRen prog.types (.invoke x tag ty args) (Γa ++ [b])).run k =
      .ok (items, k'))
    (hat : XAt cs st.pc items)
    (hcapX : 2 * (c.ctx.length + Γc.length) ≤ 266)
    (hi32 : fitsI32 (jumpLength pos) = true) :
    ∃ kk cfg' st' stR hs' n, stepsTo P kk cfg cfg' ∧ stepN mon px n st = .inl stR ∧ Tol cs st' stR ∧
      FrLe hs hs' 0 ∧ cfg'.out = cfg.out ∧ cfg'.next = cfg.next ∧
      RelX P hooks prog ⟨c.ctx ++ envCtx', ρa ++ ρc, c.body⟩ cfg' ∧
      X3 F (c.ctx ++ envCtx') cfg' hs' ι κ st' ∧
      ∃ k1 k1' items', (codeStatementR x86Backend hooks natRen prog.types c.body (c.ctx ++ envCtx')).run k1 =
          .ok (items', k1') ∧ XAt cs st'.pc items' ∧ LoadProv F Γa.length envCtx' cfg cfg' κ st st' :=
  invoke_x3 H h8 hmon LA hnd hfitX hreal R hfits hb hfresh hpos hclause hlenc hargs hkinds hcap X hkeys hword
    hmeth hw hXM hrun hat hcapX hi32

end Clos

/-! ## the run theorem for ALL programs -/

/-- THE THREE-WAY STEP FOR ALL ELEVEN STATEMENT FORMS: every step of the positional machine from a typed
state in the three-way relation `Ref.K.Rel3` (`RelX` ∧ `X3` ∧ the closure invariant `XC` ∧ the code at the
program counter) is reproduced by the x86-64 machine, and the relation holds again (`Ref.K.StepSim3`: with
output, bound on the object counter and on the heap frontier; after `invoke` the machine may be ahead of
the boundary state by labels and comments, `Tol`). -/
theorem C06_step_x86_all {F : Frame} (HF : FrameOK F) (h8 : F.c.heapBase % 8 = 0) {mon : MonCfg}
    (hmon : mon.mach = F.c) {px : X86.Prog} {cs pre : List Code} (LA : LoadedA F.c px cs)
    (hnd : (labs cs).Nodup) (hfitX : addrAt F.c.codeBase cs cs.length < 2 ^ 64) (hcs : cs = pre ++ cleanup)
    (hclean : "cleanup" ∉ labs pre) {st0 : State} {h : Word} (E : EntryFacts F st0 h)
    (hooks : Bool) (prog : AxCut.Prog) (c : Nat) (code : List MockOp) (nargs c' : Nat)
    (hcomp : (compile mockSym hooks prog).run c = .ok ((code, nargs), c'))
    (hsafe : LabelSafe prog = true) (htp : LinTypedProg prog) (hfit : CodeFits code)
    (DX : Ref.K.XDefsAt cs hooks prog) (hprog : Ref.K.ProgOK prog)
    (st : Pos.State) (cfg : Config) (hs : HState) (X : State)
    (R : Ref.K.Rel3 F cs (Program.ofOps code) hooks prog st cfg hs X)
    (T : Pos.StateTyped prog st) (hheap : EnoughHeap cfg) (hok : Ref.K.StmtOK st.stmt)
    (hroom : Room hs (64 * 134)) :
    Ref.K.StepSim3 F mon px cs (Program.ofOps code) hooks prog st cfg hs X :=
  Ref.K.step3 HF h8 hmon LA hnd hfitX hcs hclean E hooks prog c code nargs c' hcomp hsafe htp hfit DX hprog st
    cfg hs X R T hheap hok hroom


/-- THEOREM A ∘ THEOREM B FOR ALL PROGRAMS (data types and closures; no `DataProg` restriction), on the
ITEMS of the emitted routine, with the side hypotheses of the composition stated explicitly (they are
discharged in `C06_programs_text`). -/
theorem C06_programs (p : AxCut.Prog) (args : List Word) (hooks : Bool) (body routine : List Code)
    (nargs : Nat) (d0 : Def) (ops : List MockOp) (c' : Nat)
    (hsafe : LabelSafe p = true) (htp : LinTypedProg p) (hrange : ProgInRange p)
    (hcompM : (compile mockSym hooks p).run 0 = .ok ((ops, nargs), c')) (hfit : CodeFits ops)
    (hcompX : compileX86 p hooks 0 = .ok (body, nargs)) (hrout : intoRoutine body nargs = .ok routine)
    (hnd : (labs routine).Nodup)
    (hd : p.defs.head? = some d0) (hentry : ∀ b ∈ d0.ctx, b.chi = .ext ∧ b.ty = .i64)
    (hcap : ∀ st, Reachable p ⟨d0.ctx, args.map .int, d0.body⟩ st → 2 * st.ctx.length ≤ 266)
    (fuel : Nat) (out : List (Bool × Word)) (v : Word) (hfuel : fuel + 1 < 2 ^ 64)
    (hrun : Pos.run p args fuel = ⟨out, .done v⟩)
    (cfg : MonCfg) (MO : MachOK cfg.mach) (hheap : cfg.heap = false)
    (hb8 : cfg.mach.heapBase % 8 = 0) (hb0 : 0 < cfg.mach.heapBase)
    (hbytes : 128 + 64 * 134 * fuel ≤ cfg.mach.heapBytes)
    (items : List (Code × Nat)) (hitems : (items.map (·.1)).map stripC = routine.map stripC)
    (hfitX : addrAt cfg.mach.codeBase routine routine.length < 2 ^ 64) :
    ∃ fuel', (runItems items args fuel' cfg).out = out ∧ (runItems items args fuel' cfg).res = .done v :=
  programs_items p args hooks body routine nargs d0 ops c' hsafe htp
    ⟨hrange.1, fun d hd => hrange.2 d hd⟩ hcompM hfit hcompX hrout hnd hd hentry hcap fuel out v
    hfuel hrun cfg MO hheap hb8 hb0 hbytes items hitems hfitX

/-- THEOREM A ∘ THEOREM B FOR ALL PROGRAMS ON THE TEXT OF THE ROUTINE: for a label-safe, linearly typed
program that passes the decidable checks `C06_x86Checks` and that the x86-64 code generator compiles,
every terminating run of the AxCut positional machine is reproduced — same trace, same result — by the
x86-64 SPEC machine on the printed routine, in EVERY sane machine configuration (`MachOK`; heap base
positive and 8-aligned; the routine ends below 2^64) whose heap has `128 + 64·134·fuel` bytes. -/
theorem C06_programs_text (p : AxCut.Prog) (args : List Word) (hooks : Bool) (body routine : List Code)
    (nargs : Nat)
    (hsafe : LabelSafe p = true) (htp : LinTypedProg p) (hchk : C06_x86Checks p = true)
    (hcompX : compileX86 p hooks 0 = .ok (body, nargs)) (hrout : intoRoutine body nargs = .ok routine)
    (fuel : Nat) (out : List (Bool × Word)) (v : Word) (hrun : Pos.run p args fuel = ⟨out, .done v⟩)
    (cfg : MonCfg) (MO : MachOK cfg.mach) (hheap : cfg.heap = false)
    (hb8 : cfg.mach.heapBase % 8 = 0) (hb0 : 0 < cfg.mach.heapBase)
    (hbytes : 128 + 64 * 134 * fuel ≤ cfg.mach.heapBytes)
    (hfitX : addrAt cfg.mach.codeBase routine routine.length < 2 ^ 64) :
    ∃ fuel', (run (printProg routine) args fuel' cfg).out = out ∧
      (run (printProg routine) args fuel' cfg).res = .done v := by
  obtain ⟨hcap, hsize, hrange, hnames, d0, hd, hentry⟩ := C06_checks_facts hchk
  have hnd : (labs routine).Nodup := labels_unique_x86 hsafe hcompX hrout
  have hmem : d0 ∈ p.defs := by
    cases hdefs : p.defs with
    | nil => rw [hdefs] at hd; simp at hd
    | cons d ds => rw [hdefs] at hd; simp at hd; subst hd; simp
  have hne : p.defs ≠ [] := fun e => by rw [e] at hmem; cases hmem
  -- the mock code generator
  obtain ⟨ops, nargsM, c', hcompM⟩ := mock_compile_ok hooks p htp hne 0
  have hnargs : nargsM = nargs := by
    obtain ⟨_, hn⟩ := compile_mock_entry hcompM hd
    unfold compileX86 at hcompX
    cases hx : (compile x86Backend hooks p).run 0 with
    | error e => rw [hx] at hcompX; cases hcompX
    | ok r =>
      obtain ⟨⟨body', nargs'⟩, c''⟩ := r
      rw [hx] at hcompX
      simp only [Except.ok.injEq, Prod.mk.injEq] at hcompX
      obtain ⟨rfl, rfl⟩ := hcompX
      obtain ⟨d0', ds, hd', hn'⟩ := compile_nargs' _ _ _ _ _ _ _ hx
      rw [hd'] at hd
      simp only [List.head?_cons, Option.some.injEq] at hd
      subst hd
      rw [hn, hn']
  subst hnargs
  obtain ⟨items, hparse, hitems⟩ := C14_routine_loads hrange hnames hcompX hrout
  obtain ⟨fuel', h1, h2⟩ := C06_programs p args hooks body routine nargsM d0 ops c' hsafe htp
    hrange hcompM (codeFits_of_size htp hsize hcompM) hcompX hrout
    hnd hd hentry (cap266_of_check hcap hmem args) fuel out v (fuel_lt_of_heap MO hbytes) hrun cfg MO hheap hb8
    hb0 hbytes items hitems hfitX
  exact ⟨fuel', by rw [run_eq_runItems hparse]; exact h1, by rw [run_eq_runItems hparse]; exact h2⟩

/-- the same for programs with data types (kept: the first rung delivered; `DataProg` is no longer needed) -/
theorem C06_data_programs_text (p : AxCut.Prog) (args : List Word) (hooks : Bool) (body routine : List Code)
    (nargs : Nat)
    (hsafe : LabelSafe p = true) (htp : LinTypedProg p) (hdata : DataProg p) (hchk : C06_x86Checks p = true)
    (hcompX : compileX86 p hooks 0 = .ok (body, nargs)) (hrout : intoRoutine body nargs = .ok routine)
    (fuel : Nat) (out : List (Bool × Word)) (v : Word) (hrun : Pos.run p args fuel = ⟨out, .done v⟩)
    (cfg : MonCfg) (MO : MachOK cfg.mach) (hheap : cfg.heap = false)
    (hb8 : cfg.mach.heapBase % 8 = 0) (hb0 : 0 < cfg.mach.heapBase)
    (hbytes : 128 + 64 * 134 * fuel ≤ cfg.mach.heapBytes)
    (hfitX : addrAt cfg.mach.codeBase routine routine.length < 2 ^ 64) :
    ∃ fuel', (run (printProg routine) args fuel' cfg).out = out ∧
      (run (printProg routine) args fuel' cfg).res = .done v :=
  C06_programs_text p args hooks body routine nargs hsafe htp hchk hcompX hrout fuel out v hrun cfg MO hheap hb8
    hb0 hbytes hfitX

/-! ## comparison with `C06_statement` (Props/C06X86.lean)

`C06_statement` reads: `LinTypedProg p`, compile ok ⇒ for every terminating run
`∃ fuel' heapBytes, ∀ cfg, cfg.mach.heapBytes = heapBytes → cfg.heap = false →` same trace and result.
`C06_statement_checked` below is what is PROVED; the clauses that differ:
  (1) hypotheses `LabelSafe p = true` and `C06_x86Checks p = true` (names printable for the loader,
      literals/tags/substitutions in range, at most 133 variables per context, code size below 2^64,
      integer parameters of the first definition) — `C06_statement` has none of them;
  (2) `C06_statement` quantifies over EVERY configuration with the chosen `heapBytes`; proved for the sane
      ones: `MachOK cfg.mach` (regions disjoint and below 2^64), `heapBase % 8 = 0`, `0 < heapBase`, the
      loaded routine ends below 2^64 (`addrAt codeBase routine routine.length < 2^64`);
  (3) heap: every `heapBytes ≥ 128 + 64·134·fuel` (a lower bound, not one value) — stronger;
  (4) `fuel'` is chosen AFTER the configuration (`∀ cfg … ∃ fuel'`), in `C06_statement` before it. -/

/-- C06 on x86-64 as PROVED (`C06_statement_checked_holds`) -/
def C06_statement_checked : Prop :=
  ∀ (p : AxCut.Prog) (args : List (BitVec 64)) (hooks : Bool) (body routine : List Code) (nargs : Nat),
    LabelSafe p = true → LinTypedProg p → C06_x86Checks p = true →
    compileX86 p hooks 0 = .ok (body, nargs) → intoRoutine body nargs = .ok routine →
    ∀ fuel v, Pos.run p args fuel = ⟨(Pos.run p args fuel).out, .done v⟩ →
      ∃ heapBytes, ∀ cfg : MonCfg, MachOK cfg.mach → cfg.mach.heapBase % 8 = 0 → 0 < cfg.mach.heapBase →
        addrAt cfg.mach.codeBase routine routine.length < 2 ^ 64 →
        heapBytes ≤ cfg.mach.heapBytes → cfg.heap = false →
        ∃ fuel', (run (printProg routine) args fuel' cfg).out = (Pos.run p args fuel).out ∧
          (run (printProg routine) args fuel' cfg).res = .done v

theorem C06_statement_checked_holds : C06_statement_checked := by
  intro p args hooks body routine nargs hsafe htp hchk hcompX hrout fuel v hrun
  refine ⟨128 + 64 * 134 * fuel, fun cfg MO hb8 hb0 hfitX hbytes hheap => ?_⟩
  exact C06_programs_text p args hooks body routine nargs hsafe htp hchk hcompX hrout fuel _ v hrun cfg MO hheap
    hb8 hb0 hbytes hfitX

/-! ### non-vacuity -/

set_option maxRecDepth 100000 in
theorem C06_boxProg_checks : C06_x86Checks C06_boxProg = true := by decide +kernel

/-- the box program of Props/C06X86Heap.lean started with x = 21: every hypothesis of
`C06_programs_text` holds, so the x86-64 machine on the TEXT of the emitted routine prints 42 and
returns 42 -/
example : ∃ fuel',
    (run (printProg C06_boxRoutine) [21] fuel' {}).out = [(true, 42)] ∧
    (run (printProg C06_boxRoutine) [21] fuel' {}).res = .done 42 := by
  have hrun : Pos.run C06_boxProg [21] 20 = ⟨[(true, 42)], .done 42⟩ := by decide
  exact C06_programs_text C06_boxProg [21] true C06_boxBody C06_boxRoutine 1
    (by decide) (linTypedCheck_sound C06_boxProg rfl) C06_boxProg_checks rfl rfl
    20 _ _ hrun {} machOK_default rfl (by decide) (by decide) (by decide) C06_boxRoutine_fits

/-! ### non-vacuity: closures (single method: `jmp reg`; two methods: jump table; a closure captured by a
closure, moved by `subst`, erased) -/

def C06_tFun : Ty := .decl ⟨"Fun", 0⟩
def C06_tTwo : Ty := .decl ⟨"Two", 0⟩
def C06_funDecl : TypeDecl := { name := ⟨"Fun", 0⟩, xtors := [⟨⟨"Ap", 0⟩, [⟨⟨"a", 202⟩, .ext, .i64⟩]⟩] }
def C06_twoDecl : TypeDecl :=
  { name := ⟨"Two", 0⟩, xtors := [⟨⟨"Fst", 0⟩, [⟨⟨"a", 203⟩, .ext, .i64⟩]⟩, ⟨⟨"Snd", 0⟩, [⟨⟨"a", 204⟩, .ext, .i64⟩]⟩] }

/-- main(x) { create f : Fun = (x){ Ap(a) => s <- a + x; println s; exit s }; lit n <- 5;
      subst (n := n)(f := f);
      create g : Two = (f){ Fst(a) => invoke f Ap; Snd(a) => subst (a := a); exit a };
      invoke g Fst } -/
def C06_cloMain : Def :=
  { name := ⟨"main", 0⟩, ctx := [⟨⟨"x", 1⟩, .ext, .i64⟩],
    body := .create ⟨"f", 2⟩ C06_tFun (some [⟨⟨"x", 1⟩, .ext, .i64⟩])
      (.cons ⟨"Ap", 0⟩ [⟨⟨"a", 3⟩, .ext, .i64⟩]
        (.op ⟨"s", 4⟩ ⟨"a", 3⟩ .sum ⟨"x", 1⟩ (.print true ⟨"s", 4⟩ (.exit ⟨"s", 4⟩) none) none) .nil)
      (.lit ⟨"n", 5⟩ 5
        (.subst [(⟨⟨"n", 6⟩, .ext, .i64⟩, ⟨"n", 5⟩), (⟨⟨"f", 7⟩, .cns, C06_tFun⟩, ⟨"f", 2⟩)]
          (.create ⟨"g", 8⟩ C06_tTwo (some [⟨⟨"f", 7⟩, .cns, C06_tFun⟩])
            (.cons ⟨"Fst", 0⟩ [⟨⟨"a", 9⟩, .ext, .i64⟩]
              (.invoke ⟨"f", 7⟩ ⟨"Ap", 0⟩ C06_tFun [⟨⟨"a", 9⟩, .ext, .i64⟩])
              (.cons ⟨"Snd", 0⟩ [⟨⟨"a", 10⟩, .ext, .i64⟩]
                (.subst [(⟨⟨"a", 11⟩, .ext, .i64⟩, ⟨"a", 10⟩)] (.exit ⟨"a", 11⟩)) .nil))
            (.invoke ⟨"g", 8⟩ ⟨"Fst", 0⟩ C06_tTwo [⟨⟨"n", 6⟩, .ext, .i64⟩]) none none)) none) none none }

def C06_cloProg : AxCut.Prog := { defs := [C06_cloMain], types := [C06_funDecl, C06_twoDecl], maxId := 204 }

def C06_cloBody : List Code :=
  match compileX86 C06_cloProg true 0 with
  | .ok (body, _) => body
  | .error _ => []

def C06_cloRoutine : List Code :=
  match intoRoutine C06_cloBody 1 with
  | .ok r => r
  | .error _ => []

set_option maxRecDepth 100000 in
theorem C06_cloProg_checks : C06_x86Checks C06_cloProg = true := by decide +kernel

set_option maxRecDepth 100000 in
theorem C06_cloRoutine_fits :
    addrAt ({} : MachCfg).codeBase C06_cloRoutine C06_cloRoutine.length < 2 ^ 64 := by decide

/-- the closure program started with x = 37: every hypothesis of `C06_programs_text` holds, so the x86-64
machine on the TEXT of the emitted routine prints 42 and returns 42 (`g` is invoked through the jump table
of `Two`, `f` — loaded from the environment of `g` — through `jmp reg`) -/
example : ∃ fuel',
    (run (printProg C06_cloRoutine) [37] fuel' {}).out = [(true, 42)] ∧
    (run (printProg C06_cloRoutine) [37] fuel' {}).res = .done 42 := by
  have hrun : Pos.run C06_cloProg [37] 20 = ⟨[(true, 42)], .done 42⟩ := by decide
  exact C06_programs_text C06_cloProg [37] true C06_cloBody C06_cloRoutine 1
    (by decide) (linTypedCheck_sound C06_cloProg rfl) C06_cloProg_checks rfl rfl
    20 _ _ hrun {} machOK_default rfl (by decide) (by decide) (by decide) C06_cloRoutine_fits

end Scc.X86

#print axioms Scc.X86.C06_create_x86
#print axioms Scc.X86.C06_invoke_x86
#print axioms Scc.X86.C06_step_x86_all
#print axioms Scc.X86.C06_programs
#print axioms Scc.X86.C06_programs_text
#print axioms Scc.X86.C06_data_programs_text
#print axioms Scc.X86.C06_statement_checked_holds
