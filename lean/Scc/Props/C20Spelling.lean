/-
  Scc.Props.C20Spelling — C20, argument clause, for EVERY decimal spelling.

  Property C20: "each command-line argument given in decimal reaches the corresponding parameter
  unchanged".  `Props/C20.lean`, `C20Cur.lean`, `C20Full.lean` prove it for the CANONICAL rendering
  `decSpec v` (no `+`, no leading zeros).  Here: for every byte string of the shape

        [+-]? digit+          (any number of leading zeros; `Spelling.plain`)

  and more generally  `ws* [+-]? digit+`  (`Spelling.ok`; `strtoll` skips leading `isspace` bytes — the model
  `parseSigned` has that clause — a shell cannot produce such an argument unquoted, but `"  42"` can be
  passed), optionally followed by bytes that do not continue the number (`stops`; C stops converting there).
  The value of a spelling (`Spelling.value`) is the positional value of its digit string (`digitsValue`),
  negated after `-`; `digitsValue` is tied to core's `Nat.toDigits` in both directions
  (`C20_digits_canonical`, `C20_digits_value_zeros`).

    * C20_strtoll_spelling         value in [-2^63, 2^63): `strtollModel s = value`               (proved)
    * C20_strtoll_saturates        value < -2^63: `LLONG_MIN`;  value ≥ 2^63: `LLONG_MAX` (C11 7.22.1.4 §8,
                                   glibc); in particular NOT unchanged — the range premise is necessary
    * C20_strtoll_spelling_rest    the same with trailing non-number bytes (`12abc` ↦ 12)
    * C20_arg_spelling_current     the CURRENT driver (`argToParamCur`, generated facts of C20Full):
                                   every in-range spelling reaches the parameter as its value         (proved)
    * C20_arg_spelling_atoi        the `atoi` driver (`argToParam`): values in [-2^31, 2^31)
    * C20_spelling_same_as_canonical   any spelling is converted like the canonical rendering of its value
    * C20_nativeRun_spelling       end to end for the x86-64 run of the composed model (`Pipeline.nativeRun`):
                                   `prog s1 … sn` with arbitrary spellings behaves as with the canonical ones
    * C20_base0_differs            base-0 parsing (`strtoll(s, NULL, 0)`) would NOT have the property: `010`
                                   is 10 for the driver's base-10 call and 8 with base 0; `0x10`: 0 vs 16.
                                   (`strtollBase0Model` is a spec-only model; its base-ten digit loop is
                                   the model's `parseDigits`: `C20_base0_model_ten`.)
  Nothing of the argument clause remains open for the current sources.  No defect found here: the model
  was evaluated at the excluded points (out of range: saturation, as glibc documents; no digits: 0, no
  error report — `strtoll(.., NULL, ..)` cannot report one; this is outside "given in decimal").
-/
import Scc.Runtime.SpellingProofs
import Scc.Props.C20Full
import Scc.Pipeline

namespace Scc.Props
open Scc.Runtime Scc.Generated

/-! ## the value of a digit string -/

/-- the canonical digits of `n` behind `k` zeros denote `n` -/
theorem C20_digits_value_zeros (k n : Nat) : digitsValue (List.replicate k 48 ++ decNat n) = n :=
  digitsValue_zeros_decNat k n

/-- every non-empty digit string is the canonical rendering of its value behind leading zeros -/
theorem C20_digits_canonical (ds : List UInt8) (hne : ds ≠ []) (hd : allDigits ds = true) :
    ∃ k, ds = List.replicate k 48 ++ decNat (digitsValue ds) := digits_eq_zeros_decNat ds hne hd

/-- `007` -/
example : ([48, 48, 55] : List UInt8) ≠ [] ∧ allDigits [48, 48, 55] = true ∧
    digitsValue [48, 48, 55] = 7 := by decide

/-! ## strtoll(s, NULL, 10) on every spelling -/

/-- C20, argument clause, general form: a spelling whose value is in the int64 range is converted to
that value. -/
theorem C20_strtoll_spelling (sp : Spelling) (hok : sp.ok = true)
    (h1 : -2 ^ 63 ≤ sp.value) (h2 : sp.value < 2 ^ 63) : strtollModel sp.bytes = sp.value :=
  strtollModel_spelling sp hok h1 h2

/-- the shape of the property text, `[+-]? digit+`, as a special case -/
theorem C20_strtoll_plain (sign : Sign) (ds : List UInt8) (hd : allDigits ds = true) (hne : ds ≠ [])
    (h1 : -2 ^ 63 ≤ (Spelling.mk [] sign ds).value) (h2 : (Spelling.mk [] sign ds).value < 2 ^ 63) :
    strtollModel (sign.bytes ++ ds) = (Spelling.mk [] sign ds).value := by
  have hok : (Spelling.mk [] sign ds).ok = true := by
    cases ds with
    | nil => exact absurd rfl hne
    | cons c t => simp [Spelling.ok, allSpace, hd]
  exact C20_strtoll_spelling ⟨[], sign, ds⟩ hok h1 h2

/-- outside the range: saturation, as C11 7.22.1.4 §8 / glibc specify -/
theorem C20_strtoll_saturates (sp : Spelling) (hok : sp.ok = true) :
    (sp.value < -2 ^ 63 → strtollModel sp.bytes = -2 ^ 63) ∧
    (2 ^ 63 ≤ sp.value → strtollModel sp.bytes = 2 ^ 63 - 1) := by
  have h := strtollModel_spelling_append sp [] hok rfl
  rw [List.append_nil] at h
  exact h.2

/-- trailing bytes that do not continue the number are ignored (`12abc` ↦ 12) -/
theorem C20_strtoll_spelling_rest (sp : Spelling) (rest : List UInt8) (hok : sp.ok = true)
    (hs : stops rest = true) (h1 : -2 ^ 63 ≤ sp.value) (h2 : sp.value < 2 ^ 63) :
    strtollModel (sp.bytes ++ rest) = sp.value :=
  (strtollModel_spelling_append sp rest hok hs).1 h1 h2

/-- the current driver (`strtoll`, base 10: generated fact `C20_arg_conv_wide`): every spelling of an
int64 reaches the parameter as its value -/
theorem C20_arg_spelling_current (sp : Spelling) (hok : sp.ok = true)
    (h1 : -2 ^ 63 ≤ sp.value) (h2 : sp.value < 2 ^ 63) : argToParamCur sp.bytes = sp.value := by
  have h := C20_strtoll_spelling sp hok h1 h2
  simpa [argToParamCur, C20_arg_conv_wide] using h

/-- the `atoi` driver: every spelling of a C `int` -/
theorem C20_arg_spelling_atoi (sp : Spelling) (hok : sp.ok = true)
    (h1 : -2 ^ 31 ≤ sp.value) (h2 : sp.value < 2 ^ 31) : argToParam sp.bytes = sp.value :=
  argToParam_spelling sp hok h1 h2

/-- any spelling is converted exactly like the canonical rendering of its value -/
theorem C20_spelling_same_as_canonical (sp : Spelling) (hok : sp.ok = true)
    (h1 : -2 ^ 63 ≤ sp.value) (h2 : sp.value < 2 ^ 63) :
    argToParamCur sp.bytes = argToParamCur (decSpec sp.value) := by
  rw [C20_arg_spelling_current sp hok h1 h2, C20_current_full.2 sp.value h1 h2]

/-! ### non-vacuity: concrete spellings (kernel-evaluated) -/

/-- `+007`, `-0`, `  42` (white space), `000…0123` -/
def C20_sp_plus007 : Spelling := { sign := .plus, digits := [48, 48, 55] }
def C20_sp_minus0 : Spelling := { sign := .minus, digits := [48] }
def C20_sp_ws42 : Spelling := { ws := [32, 9], digits := [52, 50] }
/-- `-9223372036854775808` with two leading zeros: `INT64_MIN` -/
def C20_sp_min : Spelling :=
  { sign := .minus, digits := [48, 48, 57, 50, 50, 51, 51, 55, 50, 48, 51, 54, 56, 53, 52, 55, 55, 53, 56, 48, 56] }
/-- `9223372036854775808` = 2^63: out of range -/
def C20_sp_over : Spelling :=
  { digits := [57, 50, 50, 51, 51, 55, 50, 48, 51, 54, 56, 53, 52, 55, 55, 53, 56, 48, 56] }
/-- `-9223372036854775809` -/
def C20_sp_under : Spelling :=
  { sign := .minus, digits := [57, 50, 50, 51, 51, 55, 50, 48, 51, 54, 56, 53, 52, 55, 55, 53, 56, 48, 57] }

example : C20_sp_plus007.plain = true ∧ C20_sp_plus007.bytes = [43, 48, 48, 55] ∧
    C20_sp_plus007.value = 7 ∧ -2 ^ 63 ≤ C20_sp_plus007.value ∧ C20_sp_plus007.value < 2 ^ 63 := by decide
example : strtollModel [43, 48, 48, 55] = 7 := by decide
example : C20_sp_minus0.plain = true ∧ C20_sp_minus0.value = 0 ∧ strtollModel C20_sp_minus0.bytes = 0 := by
  decide
example : C20_sp_ws42.ok = true ∧ C20_sp_ws42.plain = false ∧ C20_sp_ws42.bytes = [32, 9, 52, 50] ∧
    strtollModel C20_sp_ws42.bytes = 42 := by decide
example : C20_sp_min.plain = true ∧ C20_sp_min.value = -2 ^ 63 ∧ -2 ^ 63 ≤ C20_sp_min.value ∧
    C20_sp_min.value < 2 ^ 63 := by decide
example : argToParamCur C20_sp_min.bytes = -2 ^ 63 :=
  C20_arg_spelling_current C20_sp_min (by decide) (by decide) (by decide)
-- saturation: hypotheses satisfiable, conclusions concrete
example : C20_sp_over.plain = true ∧ 2 ^ 63 ≤ C20_sp_over.value ∧
    strtollModel C20_sp_over.bytes = 2 ^ 63 - 1 := by decide
example : C20_sp_under.plain = true ∧ C20_sp_under.value < -2 ^ 63 ∧
    strtollModel C20_sp_under.bytes = -2 ^ 63 := by decide
/-- hence the range premise of `C20_strtoll_spelling` is necessary -/
theorem C20_out_of_range_changes : strtollModel C20_sp_over.bytes ≠ C20_sp_over.value := by decide
-- trailing bytes: `12abc`
example : stops [97, 98, 99] = true ∧ strtollModel ([49, 50] ++ [97, 98, 99]) = 12 := by decide
-- white space is only skipped BEFORE the sign: `- 5` is no number (value 0, as in C)
example : strtollModel [45, 32, 53] = 0 := by decide

/-! ## base 0 would not do -/

/-- the generic digit loop of the base-0 model, at base ten, is the model's `parseDigits` -/
theorem C20_base0_model_ten (cs : List UInt8) (acc : Nat) : parseDigitsB 10 cs acc = parseDigits cs acc :=
  parseDigitsB_ten cs acc

/-- `010`: the driver's `strtoll(.., 10)` yields 10 (the decimal value: C20 holds), `strtoll(.., 0)` would
yield 8; `0x10`: 0 (conversion stops at `x`) versus 16.  On `10` both agree. -/
theorem C20_base0_differs :
    (Spelling.mk [] .none [48, 49, 48]).plain = true ∧ (Spelling.mk [] .none [48, 49, 48]).value = 10 ∧
    strtollModel [48, 49, 48] = 10 ∧ strtollBase0Model [48, 49, 48] = 8 ∧
    strtollModel [48, 120, 49, 48] = 0 ∧ strtollBase0Model [48, 120, 49, 48] = 16 ∧
    strtollModel [49, 48] = 10 ∧ strtollBase0Model [49, 48] = 10 := by decide

/-- C20's argument clause, stated for an arbitrary conversion function -/
def C20_spelling_statement (conv : List UInt8 → Int) : Prop :=
  ∀ sp : Spelling, sp.plain = true → -2 ^ 63 ≤ sp.value → sp.value < 2 ^ 63 → conv sp.bytes = sp.value

/-- it holds of the current driver … -/
theorem C20_spelling_current : C20_spelling_statement argToParamCur := by
  intro sp hp h1 h2
  have hok : sp.ok = true := by
    simp only [Spelling.plain, Bool.and_eq_true] at hp; exact hp.2
  exact C20_arg_spelling_current sp hok h1 h2

/-- … and fails for base-0 parsing -/
theorem C20_spelling_base0_false : ¬ C20_spelling_statement strtollBase0Model := by
  intro h
  have := h ⟨[], .none, [48, 49, 48]⟩ (by decide) (by decide) (by decide)
  revert this; decide

/-- … and for the `atoi` driver (D: `atoi` truncates, `C20_atoi_witness`), also with a `+` sign -/
theorem C20_spelling_atoi_false : ¬ C20_spelling_statement argToParam := by
  intro h
  have := h ⟨[], .plus, [50, 49, 52, 55, 52, 56, 51, 54, 52, 56]⟩ (by decide) (by decide) (by decide)
  revert this; decide

/-! ## end to end: the x86-64 run of the composed model -/

/-- `prog s1 … sn` with arbitrary spellings of the arguments runs exactly as with the canonical renderings
(`Pipeline.argvOf`) of their values. -/
theorem C20_nativeRun_spelling (text : String) (nParams : Nat) (sps : List Spelling) (fuel : Nat)
    (cfg : X86.MonCfg)
    (h : ∀ sp ∈ sps, sp.ok = true ∧ -2 ^ 63 ≤ sp.value ∧ sp.value < 2 ^ 63) :
    Pipeline.nativeRun text nParams ([112] :: sps.map Spelling.bytes) fuel cfg =
      Pipeline.nativeRun text nParams
        (Pipeline.argvOf (sps.map fun sp => BitVec.ofInt 64 sp.value)) fuel cfg := by
  have hl : (sps.map Spelling.bytes).map (fun s => BitVec.ofInt 64 (argToParamCur s)) =
      sps.map fun sp => BitVec.ofInt 64 sp.value := by
    rw [List.map_map]
    apply List.map_congr_left
    intro sp hsp
    obtain ⟨hok, h1, h2⟩ := h sp hsp
    simp only [Function.comp_apply, C20_arg_spelling_current sp hok h1 h2]
  have hr : ((sps.map fun sp => BitVec.ofInt 64 sp.value).map
        fun a => decSpec a.toInt).map (fun s => BitVec.ofInt 64 (argToParamCur s)) =
      sps.map fun sp => BitVec.ofInt 64 sp.value := by
    rw [List.map_map, List.map_map]
    apply List.map_congr_left
    intro sp _
    simp only [Function.comp_apply]
    have h1 := BitVec.le_toInt (BitVec.ofInt 64 sp.value)
    have h2 := BitVec.toInt_lt (x := BitVec.ofInt 64 sp.value)
    rw [C20_current_full.2 _ (by omega) (by omega), BitVec.ofInt_toInt]
  unfold Pipeline.nativeRun Pipeline.argvOf
  simp only [List.length_cons, List.length_map, List.drop_succ_cons, List.drop_zero, hl, hr]

example : ∀ sp ∈ [C20_sp_plus007, C20_sp_ws42, C20_sp_min],
    sp.ok = true ∧ -2 ^ 63 ≤ sp.value ∧ sp.value < 2 ^ 63 := by decide

/-! ## axioms -/

#print axioms C20_digits_value_zeros
#print axioms C20_digits_canonical
#print axioms C20_strtoll_spelling
#print axioms C20_strtoll_plain
#print axioms C20_strtoll_saturates
#print axioms C20_strtoll_spelling_rest
#print axioms C20_arg_spelling_current
#print axioms C20_arg_spelling_atoi
#print axioms C20_spelling_same_as_canonical
#print axioms C20_out_of_range_changes
#print axioms C20_base0_model_ten
#print axioms C20_base0_differs
#print axioms C20_spelling_current
#print axioms C20_spelling_base0_false
#print axioms C20_spelling_atoi_false
#print axioms C20_nativeRun_spelling

end Scc.Props
