/-
  C18 / C16 tie to the CURRENT sources: bin/regen extracts from fun.lalrpop (a) how the action of rule
  `Num` treats an out-of-range literal and (b) the token table of the `match { … }` block; the theorems
  below hold only if (a) is the diagnostic variant, for which `C18_parse_statement_fixed` shows that
  the parser model never panics, and (b) is literally the table the Lean lexer (Scc/Fun/Lex.lean) was
  written against.  A change of either breaks this file.
-/
import Scc.Props.C18
import Scc.Generated.Parser

namespace Scc.Props
open Scc.Generated

/-- the token table the lexer model implements (reviewed against Scc/Fun/Lex.lean) -/
def lexerTokensModelled : List (String × String) := [
  ("lit", "("),
  ("lit", ")"),
  ("lit", "{"),
  ("lit", "}"),
  ("lit", "["),
  ("lit", "]"),
  ("lit", ";"),
  ("lit", "=>"),
  ("lit", ","),
  ("lit", ":"),
  ("regex", ":\\s*cns"),
  ("lit", "."),
  ("lit", "="),
  ("lit", "=="),
  ("lit", "!="),
  ("lit", "<"),
  ("lit", "<="),
  ("lit", ">"),
  ("lit", ">="),
  ("regex", "==\\s*0"),
  ("regex", "0\\s*=="),
  ("regex", "!=\\s*0"),
  ("regex", "0\\s*!="),
  ("regex", "<\\s*0"),
  ("regex", "0\\s*<"),
  ("regex", "<=\\s*0"),
  ("regex", "0\\s*<="),
  ("regex", ">\\s*0"),
  ("regex", "0\\s*>"),
  ("regex", ">=\\s*0"),
  ("regex", "0\\s*>="),
  ("lit", "+"),
  ("lit", "*"),
  ("lit", "-"),
  ("lit", "/"),
  ("lit", "%"),
  ("regex", "[a-z][a-zA-Z0-9_]*"),
  ("regex", "[A-Z][a-zA-Z0-9_]*"),
  ("regex", "0|[1-9][0-9]*"),
  ("lit", "label"),
  ("lit", "goto"),
  ("lit", "exit"),
  ("lit", "if"),
  ("lit", "else"),
  ("lit", "print_i64"),
  ("lit", "println_i64"),
  ("lit", "let"),
  ("lit", "case"),
  ("lit", "new"),
  ("lit", "def"),
  ("lit", "data"),
  ("lit", "codata"),
  ("lit", "i64"),
  ("skip", "\\s*"),
  ("skip", "//(([^ \\n\\r]| [^\\|\\n\\r])[^\\n\\r]*)?[\\n\\r]*")
]

/-- the lexer model was written against exactly the token table that is in the source now -/
theorem C18_token_table_current : lexerTokensSrc = lexerTokensModelled := rfl

/-- the source has the repaired literal action -/
theorem C18_literal_mode_current : literalModeSrc = .diagOnOverflow := rfl

/-- C18, parser clause, for the code as it is now: no input text makes the parser model panic. -/
theorem C18_parse_current : C18_parse_statement literalModeSrc := by
  rw [C18_literal_mode_current]
  exact C18_parse_statement_fixed

end Scc.Props
