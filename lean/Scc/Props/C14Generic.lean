/-
  Scc.Props.C14Generic — C14 (emitted code is well-formed), the part that belongs to the GENERIC code
  generator (axcut2backend), stated for the code produced with the mock backend (`mockSym`, whose
  instructions expose their label definitions and references; `events`, ProofsLabels.lean).

  * C14-T2 `labels_defined` (FULL): every label referenced by the output of `compile` is defined in the
    same output, except `cleanup` (the single external label, defined by the routine wrapper), provided
    every called definition exists.
  * C14-T3 `labels_unique`: under the decidable hypothesis `LabelSafe p` no label is defined twice;
    `collision_*`: for each clause of `LabelSafe` a program violating only it whose output defines a
    label twice (so the hypothesis cannot be dropped: user names may contain digits and underscores).
  * C14-T1 `table_stride`: a jump table consists of exactly one `jumpfixed` per clause, in xtor order,
    directly after the table label, and `let` / `invoke` use `jumpLength (xtorPosition tag)`.
-/
import Scc.Backend.ProofsNames

set_option linter.unusedSimpArgs false
set_option linter.unusedVariables false

namespace Scc.Props.C14Generic

open Scc Scc.AxCut Scc.Backend

/-! ## C14-T2: every referenced label is defined -/

/-- printed names of all definitions called anywhere in the program -/
def progCalls (p : Prog) : List String := defsCalls p.defs

/-- "the callee exists": every called definition is a definition of the program -/
def CallsDefined (p : Prog) : Prop := ∀ f ∈ progCalls p, f ∈ p.defs.map (·.name.print)

instance (p : Prog) : Decidable (CallsDefined p) := by unfold CallsDefined; exact inferInstance

def C14_T2_statement : Prop :=
  ∀ (hooks : Bool) (p : Prog) (c : Nat) (code : List MockOp) (nargs c' : Nat),
    (compile mockSym hooks p).run c = .ok ((code, nargs), c') → CallsDefined p →
    ∀ name ∈ refs (events code), name ∈ dfns (events code) ∨ name = "cleanup"

theorem labels_defined : C14_T2_statement := by
  intro hooks p c code nargs c' h hcalls name hname
  obtain ⟨hev, _⟩ := compileR_events hooks natRen p c code nargs c' h
  rw [hev, refs_map] at hname
  obtain ⟨l, hl, rfl⟩ := List.mem_map.mp hname
  rw [hev, dfns_map]
  rcases defsEvents_resolved p.defs c l hl with h1 | h1 | ⟨f, hf, h1⟩
  · exact Or.inl (List.mem_map.mpr ⟨l, h1, rfl⟩)
  · subst h1; exact Or.inr rfl
  · subst h1
    exact Or.inl (List.mem_map.mpr ⟨_, defn_mem_dfns_defsEvents p.defs c f (hcalls f hf), rfl⟩)

/-- without the hypothesis: a referenced label is defined, is `cleanup`, or is the label `f_` of a
    called definition `f` -/
theorem labels_defined_or_called (hooks : Bool) (p : Prog) (c : Nat) (code : List MockOp)
    (nargs c' : Nat) (h : (compile mockSym hooks p).run c = .ok ((code, nargs), c')) :
    ∀ name ∈ refs (events code),
      name ∈ dfns (events code) ∨ name = "cleanup" ∨ ∃ f ∈ progCalls p, name = f ++ "_" := by
  intro name hname
  obtain ⟨hev, _⟩ := compileR_events hooks natRen p c code nargs c' h
  rw [hev, refs_map] at hname
  obtain ⟨l, hl, rfl⟩ := List.mem_map.mp hname
  rw [hev, dfns_map]
  rcases defsEvents_resolved p.defs c l hl with h1 | h1 | ⟨f, hf, h1⟩
  · exact Or.inl (List.mem_map.mpr ⟨l, h1, rfl⟩)
  · subst h1; exact Or.inr (Or.inl rfl)
  · subst h1; exact Or.inr (Or.inr ⟨f, hf, rfl⟩)

/-! ## C14-T3: no label is defined twice -/

/-- printed xtor names of all clause lists of the program -/
def progXtorNames (p : Prog) : List String := defsXtorNames p.defs

/-- The decidable hypothesis on names:
    1. the printed names of the definitions are pairwise distinct;
    2. in every clause list the printed xtor names are pairwise distinct;
    3. `safeXtorNames` (ProofsNames.lean): the last `_`-segment of every xtor name is not a (possibly
       empty) digit string, and no xtor name is `<something>_<another xtor name>`. -/
def LabelSafe (p : Prog) : Bool :=
  decide (p.defs.map (·.name.print)).Nodup &&
  p.defs.all (fun d => stmtXtorsDistinct d.body) &&
  safeXtorNames (progXtorNames p)

def C14_T3_statement : Prop :=
  ∀ (hooks : Bool) (p : Prog) (c : Nat) (code : List MockOp) (nargs c' : Nat),
    (compile mockSym hooks p).run c = .ok ((code, nargs), c') → LabelSafe p = true →
    (dfns (events code)).Nodup

theorem labels_unique : C14_T3_statement := by
  intro hooks p c code nargs c' h hsafe
  obtain ⟨hev, _⟩ := compileR_events hooks natRen p c code nargs c' h
  simp only [LabelSafe, Bool.and_eq_true, decide_eq_true_eq, List.all_eq_true] at hsafe
  obtain ⟨⟨hd, hx⟩, hs⟩ := hsafe
  rw [hev, dfns_map]
  apply nodup_map_of_inj_on
  · intro a ha b hb hab
    apply render_inj (progXtorNames p) hs a b _ _ hab
    · cases a with
      | clause m n x => exact defsEvents_xtors p.defs c _ ha x rfl
      | _ => trivial
    · cases b with
      | clause m n x => exact defsEvents_xtors p.defs c _ hb x rfl
      | _ => trivial
  · exact defsEvents_nodup p.defs c hd hx

/-! ### collision witnesses (each violates exactly one clause of `LabelSafe`) -/

/-- the labels defined by the output of `compile` (counter start `c`, no hooks) -/
def definedLabels (p : Prog) (c : Nat) : List String :=
  match (compile mockSym false p).run c with
  | .ok ((code, _), _) => dfns (events code)
  | .error _ => []

private def xb (n : String) (i : Nat) : Binding := ⟨⟨n, i⟩, .ext, .i64⟩
private def tb (n : String) (i : Nat) (t : String) : Binding := ⟨⟨n, i⟩, .prd, .decl ⟨t, 0⟩⟩
private def exit1 : Stmt := .lit ⟨"r", 99⟩ 0 (.exit ⟨"r", 99⟩) none
/-- `switch v : T { x₁ ⇒ exit, x₂ ⇒ exit }` -/
private def sw (v : Ident) (t : String) (x1 x2 : Ident) : Stmt :=
  .switch v (.decl ⟨t, 0⟩) (.cons x1 [] exit1 (.cons x2 [] exit1 .nil)) none

/-- clause 1 fails: definitions `f_1` (id 0) and `f` (id 1) both print as `f_1` -/
def collisionDefs : Prog :=
  { defs := [⟨⟨"f_1", 0⟩, [xb "x" 1], .exit ⟨"x", 1⟩⟩, ⟨⟨"f", 1⟩, [xb "x" 2], .exit ⟨"x", 2⟩⟩],
    types := [], maxId := 2 }

/-- clause 2 fails: xtors `K_1` (id 0) and `K` (id 1) of one clause list both print as `K_1` -/
def collisionXtors : Prog :=
  { defs := [⟨⟨"main", 0⟩, [tb "v" 1 "T"], sw ⟨"v", 1⟩ "T" ⟨"K_1", 0⟩ ⟨"K", 1⟩⟩],
    types := [], maxId := 1 }

/-- clause 3(a) fails: an xtor name ending in `_` (`x_`) against the definition `T_1_x`:
    clause label `T_1_x_` = definition label `T_1_x_` -/
def collisionTrailingUnderscore : Prog :=
  { defs := [⟨⟨"main", 0⟩, [tb "v" 1 "T"], sw ⟨"v", 1⟩ "T" ⟨"x_", 0⟩ ⟨"y", 0⟩⟩,
             ⟨⟨"T_1_x", 0⟩, [xb "x" 2], .exit ⟨"x", 2⟩⟩],
    types := [], maxId := 2 }

/-- clause 3(b) fails: xtor `x` with id 2 prints as `x_2`; the clause label `T_1_x_2` of the first
    switch equals the table label of the second switch, on the type `T_1_x` -/
def collisionDigitSegment : Prog :=
  { defs := [⟨⟨"main", 0⟩, [tb "v" 1 "T"], sw ⟨"v", 1⟩ "T" ⟨"x", 2⟩ ⟨"y", 0⟩⟩,
             ⟨⟨"g", 0⟩, [tb "w" 2 "T_1_x"], sw ⟨"w", 2⟩ "T_1_x" ⟨"a", 0⟩ ⟨"b", 0⟩⟩],
    types := [], maxId := 2 }

/-- clause 3(b), all-digit variant: xtor `2`: `T_1_2` is also the table label of type `T_1` -/
def collisionDigitName : Prog :=
  { defs := [⟨⟨"main", 0⟩, [tb "v" 1 "T"], sw ⟨"v", 1⟩ "T" ⟨"2", 0⟩ ⟨"y", 0⟩⟩,
             ⟨⟨"g", 0⟩, [tb "w" 2 "T_1"], sw ⟨"w", 2⟩ "T_1" ⟨"a", 0⟩ ⟨"b", 0⟩⟩],
    types := [], maxId := 2 }

/-- clause 3(c) fails: xtor `B_2_y` = `B_2` ++ `_` ++ (xtor `y`): the clause label `T_1_B_2_y` of the
    first switch equals the clause label of `y` in the second switch, on the type `T_1_B` -/
def collisionXtorSuffix : Prog :=
  { defs := [⟨⟨"main", 0⟩, [tb "v" 1 "T"], sw ⟨"v", 1⟩ "T" ⟨"B_2_y", 0⟩ ⟨"z", 0⟩⟩,
             ⟨⟨"g", 0⟩, [tb "w" 2 "T_1_B"], sw ⟨"w", 2⟩ "T_1_B" ⟨"y", 0⟩ ⟨"b", 0⟩⟩],
    types := [], maxId := 2 }

theorem collision_defs : ¬ (definedLabels collisionDefs 0).Nodup := by decide
theorem collision_xtors : ¬ (definedLabels collisionXtors 0).Nodup := by decide
theorem collision_trailing_underscore : ¬ (definedLabels collisionTrailingUnderscore 0).Nodup := by
  decide
theorem collision_digit_segment : ¬ (definedLabels collisionDigitSegment 0).Nodup := by decide
theorem collision_digit_name : ¬ (definedLabels collisionDigitName 0).Nodup := by decide
theorem collision_xtor_suffix : ¬ (definedLabels collisionXtorSuffix 0).Nodup := by decide

/-- the witnesses compile (the lists are not empty because of an error) and each violates `LabelSafe` -/
example : definedLabels collisionDigitSegment 0 =
    ["main_", "T_1", "T_1_x_2", "T_1_y", "g_", "T_1_x_2", "T_1_x_2_a", "T_1_x_2_b"] := by decide
example : LabelSafe collisionDefs = false := by decide
example : LabelSafe collisionXtors = false := by decide
example : LabelSafe collisionTrailingUnderscore = false := by decide
example : LabelSafe collisionDigitSegment = false := by decide
example : LabelSafe collisionDigitName = false := by decide
example : LabelSafe collisionXtorSuffix = false := by decide

/-- the collisions depend on the numbers: from counter start 5 the same program is collision free -/
example : (definedLabels collisionDigitSegment 5).Nodup := by decide

/-- non-vacuity of `labels_unique` / `labels_defined`: a safe program with calls, a table, xtor names
    containing underscores -/
def safeProg : Prog :=
  { defs := [⟨⟨"main", 0⟩, [tb "v" 1 "List[i64]"],
               sw ⟨"v", 1⟩ "List[i64]" ⟨"my_nil", 0⟩ ⟨"Cons", 0⟩⟩,
             ⟨⟨"g_7", 0⟩, [xb "x" 2], .ifc .eq ⟨"x", 2⟩ none (.call ⟨"main", 0⟩ []) (.exit ⟨"x", 2⟩)⟩],
    types := [], maxId := 2 }

example : LabelSafe safeProg = true := by decide
example : CallsDefined safeProg := by decide
example : definedLabels safeProg 0 =
    ["main_", "List_i64_1", "List_i64_1_my_nil", "List_i64_1_Cons", "g_7_", "lab2"] := by decide


/-! ## C14-T1: jump tables -/

/-- the xtors of a clause list, in order -/
def clauseXtors : Clauses → List Ident
  | .nil => []
  | .cons x _ _ rest => x :: clauseXtors rest

/-- for every backend: the table is the concatenation of one `jump_label_fixed` per clause, in order -/
theorem codeTable_eq {Code T : Type} (B : Backend Code T) (base : String) : ∀ (cs : Clauses),
    codeTable B cs base = ((clauseXtors cs).map fun x => B.jumpLabelFixed (clauseLabel base x)).flatten
  | .nil => rfl
  | .cons x _ _ rest => by simp [codeTable, clauseXtors, codeTable_eq B base rest]

/-- mock backend: exactly one `jumpfixed` instruction per clause, in xtor order -/
theorem codeTable_mock (base : String) (cs : Clauses) :
    codeTable mockSym cs base = (clauseXtors cs).map fun x => MockOp.jumpFixed (clauseLabel base x) := by
  rw [codeTable_eq]
  induction clauseXtors cs with
  | nil => rfl
  | cons x xs ih => simpa using ih

theorem length_clauseXtors : ∀ (cs : Clauses), (clauseXtors cs).length = cs.length
  | .nil => rfl
  | .cons _ _ _ rest => by simp [clauseXtors, Clauses.length, length_clauseXtors rest]

/-- `switch`: the table stands directly after the table label -/
theorem switch_table (hooks : Bool) (ren : Nat → String) (types : List TypeDecl) (v : Ident) (ty : Ty)
    (cs : Clauses) (fv : FV) (ctx : Ctx) (c : Nat) (code : List MockOp) (c' : Nat)
    (h : (codeStatementR mockSym hooks ren types (.switch v ty cs fv) ctx).run c = .ok (code, c'))
    (hn : cs.length > 1) :
    ∃ pre post, code = pre ++ MockOp.label (mangleTy ty ++ "_" ++ ren (c + 1)) ::
      codeTable mockSym cs (mangleTy ty ++ "_" ++ ren (c + 1)) ++ post := by
  simp only [codeStatementR, run_bind_ok, run_pure_ok, freshLabelStr_run_ok] at h
  obtain ⟨num, k1, ⟨rfl, rfl⟩, c1, k2, h1, c3, k3, h3, rfl, rfl⟩ := h
  simp only [hn, if_true, mockSym_label]
  exact ⟨hookCode mockSym hooks ctx ++ [mockSym.comment ("switch " ++ v.print ++ " \\{ ... \\};")] ++ c1,
    c3, by simp [List.append_assoc]⟩

/-- `create`: the table stands directly after the table label -/
theorem create_table (hooks : Bool) (ren : Nat → String) (types : List TypeDecl) (v : Ident) (ty : Ty)
    (env : Option Ctx) (cs : Clauses) (next : Stmt) (f1 f2 : FV) (ctx : Ctx) (c : Nat)
    (code : List MockOp) (c' : Nat)
    (h : (codeStatementR mockSym hooks ren types (.create v ty env cs next f1 f2) ctx).run c =
      .ok (code, c'))
    (hn : cs.length > 1) :
    ∃ pre post, code = pre ++ MockOp.label (mangleTy ty ++ "_" ++ ren (c + 1)) ::
      codeTable mockSym cs (mangleTy ty ++ "_" ++ ren (c + 1)) ++ post := by
  cases env with
  | none => simp [codeStatementR, run_throw_ok] at h
  | some envCtx =>
    simp only [codeStatementR, run_bind_ok, run_pure_ok, freshLabelStr_run_ok, splitOffLast_run_ok,
      mockSym_store, mockSym_variableTemporary, vt_run_ok] at h
    obtain ⟨sp, k1, ⟨_, rfl, rfl⟩, c1, k2, ⟨rfl, rfl⟩, num, k3, ⟨rfl, rfl⟩, t, k4, ⟨p, _, _, rfl⟩,
      c3, k5, h3, c5, k6, h5, rfl, rfl⟩ := h
    simp only [hn, if_true, mockSym_label]
    refine ⟨hookCode mockSym hooks ctx ++
      [mockSym.comment ("create " ++ v.print ++ ": " ++ tyPrint ty ++ " = (" ++ varsPrint envCtx ++
        ")\\{ ... \\};")] ++ [MockOp.store (Mock.kindsOf (List.drop (ctx.length - envCtx.length) ctx))
          (List.take (ctx.length - envCtx.length) ctx).length] ++
      (mockSym.comment "#load tag" :: mockSym.loadLabel t
        (mangleTy ty ++ "_" ++ ren (c + 1))) ++ c3, c5, ?_⟩
    simp [List.append_assoc]

/-- `let` loads `jumpLength (xtorPosition tag)` as the tag -/
theorem let_tag (hooks : Bool) (ren : Nat → String) (types : List TypeDecl) (v : Ident) (ty : Ty)
    (tag : Ident) (args : Ctx) (next : Stmt) (fv : FV) (ctx : Ctx) (c : Nat) (code : List MockOp)
    (c' : Nat)
    (h : (codeStatementR mockSym hooks ren types (.letS v ty tag args next fv) ctx).run c =
      .ok (code, c')) :
    ∃ decl pos t pre post, lookupTypeDecl types ty = some decl ∧ xtorPosition decl tag = some pos ∧
      code = pre ++ MockOp.comment "#load tag" :: MockOp.li t (mockSym.jumpLength pos) :: post := by
  simp only [codeStatementR, run_bind_ok, run_pure_ok, lookupTypeDeclM_run_ok, xtorPositionM_run_ok,
    splitOffLast_run_ok, mockSym_store, mockSym_variableTemporary, vt_run_ok] at h
  obtain ⟨decl, k1, ⟨hd, rfl⟩, pos, k2, ⟨hp, rfl⟩, sp, k3, ⟨_, rfl, rfl⟩, c1, k4, ⟨rfl, rfl⟩, t, k5,
    ⟨p, _, _, rfl⟩, c3, k6, h3, rfl, rfl⟩ := h
  refine ⟨decl, pos, t, hookCode mockSym hooks ctx ++
      [mockSym.comment ("let " ++ v.print ++ ": " ++ tyPrint ty ++ " = " ++ tag.print ++ "(" ++
          varsPrint args ++ ");")] ++
      [MockOp.store (Mock.kindsOf (List.drop (ctx.length - args.length) ctx))
        (List.take (ctx.length - args.length) ctx).length], c3, hd, hp, ?_⟩
  simp [List.append_assoc]

/-- `invoke` on a type with more than one xtor adds `jumpLength (xtorPosition tag)` to the table
    address and jumps -/
theorem invoke_tag (hooks : Bool) (ren : Nat → String) (types : List TypeDecl) (v tag : Ident)
    (ty : Ty) (args : Ctx) (ctx : Ctx) (c : Nat) (code : List MockOp) (c' : Nat)
    (h : (codeStatementR mockSym hooks ren types (.invoke v tag ty args) ctx).run c = .ok (code, c')) :
    ∃ decl t, lookupTypeDecl types ty = some decl ∧
      (decl.xtors.length ≤ 1 → ∃ pre, code = pre ++ [MockOp.jump t]) ∧
      (¬ decl.xtors.length ≤ 1 → ∃ pos pre, xtorPosition decl tag = some pos ∧
        code = pre ++ [MockOp.addJump t (mockSym.jumpLength pos)]) := by
  simp only [codeStatementR, run_bind_ok, lookupTypeDeclM_run_ok, mockSym_variableTemporary,
    vt_run_ok] at h
  obtain ⟨t, k1, ⟨p, _, _, rfl⟩, decl, k2, ⟨hd, rfl⟩, h2⟩ := h
  refine ⟨decl, t, hd, ?_, ?_⟩
  · intro hle
    simp only [hle, if_true, run_pure_ok] at h2
    obtain ⟨rfl, rfl⟩ := h2
    exact ⟨hookCode mockSym hooks ctx ++ [mockSym.comment (invokePrint v tag args)] ++
      [mockSym.comment "#there is only one clause, so we can jump there directly"], by simp⟩
  · intro hle
    simp only [hle, if_false, run_bind_ok, run_pure_ok, xtorPositionM_run_ok] at h2
    obtain ⟨pos, k3, ⟨hp, rfl⟩, rfl, rfl⟩ := h2
    exact ⟨pos, hookCode mockSym hooks ctx ++ [mockSym.comment (invokePrint v tag args)], hp, by simp⟩

/-- C14-T1, collected -/
def C14_T1_statement : Prop :=
  (∀ base cs, codeTable mockSym cs base =
      (clauseXtors cs).map fun x => MockOp.jumpFixed (clauseLabel base x)) ∧
  (∀ hooks ren types v ty cs fv ctx c code c',
      (codeStatementR mockSym hooks ren types (.switch v ty cs fv) ctx).run c = .ok (code, c') →
      cs.length > 1 →
      ∃ pre post, code = pre ++ MockOp.label (mangleTy ty ++ "_" ++ ren (c + 1)) ::
        codeTable mockSym cs (mangleTy ty ++ "_" ++ ren (c + 1)) ++ post) ∧
  (∀ hooks ren types v ty env cs next f1 f2 ctx c code c',
      (codeStatementR mockSym hooks ren types (.create v ty env cs next f1 f2) ctx).run c =
        .ok (code, c') →
      cs.length > 1 →
      ∃ pre post, code = pre ++ MockOp.label (mangleTy ty ++ "_" ++ ren (c + 1)) ::
        codeTable mockSym cs (mangleTy ty ++ "_" ++ ren (c + 1)) ++ post)

theorem table_stride : C14_T1_statement :=
  ⟨codeTable_mock, switch_table, create_table⟩

#print axioms labels_defined
#print axioms labels_unique
#print axioms table_stride
#print axioms let_tag
#print axioms invoke_tag
#print axioms collision_digit_segment

end Scc.Props.C14Generic
