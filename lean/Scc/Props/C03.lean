/-
  Scc.Props.C03 — property C03 (fixed text):
  "For every well-typed Core program (in particular every translation output, with effects allowed
   in any argument position) the uniquified, focused program has the same observable behaviour on
   the Core abstract machine as the original: non-variable arguments are evaluated innermost-first
   and left to right, once for integers and data and by name for codata. Afterwards all binders
   along every path of a definition are distinct and distinct from every free name, so later
   renamings cannot confuse two variables."

  Model: Scc.Core.{Uniquify,Focus} (tied to /repo/lang/core_lang by exact dump equality S2 ↦ S2u, S3).
  Spec:  Scc.Core.Sem (ς-machine `run`, focused machine `fsRun`), Scc.Core.Typing (`wellTyped`),
         Scc.Core.Unique (`UniqueBinders`, checker).

  PROVED here (full): the second sentence — `C03_unique_binders` (+ `_global`, checker soundness).
  PROVED (partial, first sentence): `C03_focus_follows_sigma` (static focusing lifts exactly the
  argument the ς-rule lifts and continues with the same residual statement, with identical counter
  threading), `C03_machines_agree` (the focused machine is the ς-machine restricted to focused
  programs, step for step), and the per-form lemmas of `bind` on the focused machine
  (Scc.Core.ProofsBindSteps: `fsStep_bind_lit/_op/_ctor/_cocase/_mu_data/_mu_codata`, `bind_var`):
  "`bind t k` evaluates `t` once (data, integers) resp. suspends it (codata), binds the fresh
  variable and continues with `k x`".
  NOT proved: `C03_uniquify_alpha`, `C03_focus_sem` (kept below as `def … : Prop`): they need an
  α-equivalence/renaming simulation for the machine (focus (ς s) and focus s differ in the name of
  the lifted variable and in the numbering of all later generated names); what is missing is
  (1) "the focused machine is invariant under consistent renaming of bound names",
  (2) "focusStmt s n and focusStmt s n' are α-equivalent for counters above all ids of s",
  (3) the same two facts for uniquify's name-based substitution.  Executable evidence instead: the
  three machines agree on 42 programs × several argument tuples × fuels (see report).
-/
import Scc.Core.Sem
import Scc.Core.Typing
import Scc.Core.ProofsUniqueE
import Scc.Core.ProofsFocusSigma
import Scc.Core.ProofsEmbed
import Scc.Core.ProofsBindSteps
import Scc.Core.ProofsFocusSem

namespace Scc.Core

mutual
  /-- no variable of the program is named like the machine's ς-names -/
  def Term.noSigma : Term → Bool
    | .var _ v _ => v.name != "ς"
    | .lit _ => true
    | .op a _ b => a.noSigma && b.noSigma
    | .mu _ v _ s => v.name != "ς" && s.noSigma
    | .xtor _ _ as _ => as.noSigma
    | .xcase _ _ cl => cl.noSigma
  def Args.noSigma : Args → Bool
    | .nil => true
    | .cons _ t r => t.noSigma && r.noSigma
  def Clauses.noSigma : Clauses → Bool
    | .nil => true
    | .cons _ ctx b r => ctx.all (fun x => x.var.name != "ς") && b.noSigma && r.noSigma
  def Stmt.noSigma : Stmt → Bool
    | .cut _ p c => p.noSigma && c.noSigma
    | .ifc _ a b t e => a.noSigma && b.noSigma && t.noSigma && e.noSigma
    | .ifz _ a t e => a.noSigma && t.noSigma && e.noSigma
    | .print _ a n => a.noSigma && n.noSigma
    | .call _ as _ => as.noSigma
    | .exit a _ => a.noSigma
end

def Prog.noSigma (p : Prog) : Bool :=
  p.defs.all fun d => d.ctx.all (fun x => x.var.name != "ς") && d.body.noSigma

end Scc.Core

namespace Scc.Props
open Scc.Core

/-! ## the statement -/

/-- a run (as a function of the fuel) ends with behaviour `b` -/
def Terminates (r : Nat → Behaviour) (b : Behaviour) : Prop :=
  ∃ fuel, r fuel = b ∧ b.res ≠ .outOfFuel

/-- same observable behaviour: the same final behaviours (trace and result, including the reason of
    getting stuck), and for diverging runs every finite trace of one is a prefix of a trace of the
    other -/
def ObsEq (r1 r2 : Nat → Behaviour) : Prop :=
  (∀ b, Terminates r1 b ↔ Terminates r2 b) ∧
  (∀ f, ∃ f', (r1 f).out <+: (r2 f').out) ∧ (∀ f, ∃ f', (r2 f).out <+: (r1 f').out)

/-- the inputs of C03: well-typed Core programs as they come out of the translation: all binders
    carry id 0 (uniquify renames exactly those), all occurrences have ids `≤ maxId`, no variable is
    called `ς` (not a Fun identifier) -/
structure Input (p : Prog) : Prop where
  typed : p.wellTyped = true
  bindersZero : p.BindersZero
  occsOld : p.OccsOld
  noSigma : p.noSigma = true

/-- T2: uniquify is an α-renaming -/
def C03_uniquify_alpha : Prop :=
  ∀ p : Prog, Input p → ∀ args, ObsEq (run p args) (run (uniquifyProg p) args)

/-- T4: static focusing ≈ the ς-machine -/
def C03_focus_sem : Prop :=
  ∀ p : Prog, Input p → ∀ args, ObsEq (run p args) (fsRun (focusProg p) args)

/-- C03 at full strength -/
def C03_statement : Prop :=
  ∀ p : Prog, Input p →
    (∀ args, ObsEq (run p args) (fsRun (focusProg p) args)) ∧
    (∀ d ∈ (focusProg p).defs, UniqueBinders (focusProg p).maxId d)

/-! ## proved: the second sentence, at full strength -/

/-- **C03_unique_binders** (full).  For EVERY program whose parameters and binders carry id 0 and
    whose variable occurrences have ids `≤ maxId` (no typing needed), in every definition of
    `focusProg p`: the parameters are pairwise distinct; along every root-to-leaf path the bound ids
    are pairwise distinct, distinct from the parameters and from every free name; every id is
    `≤` the final `maxId`. -/
theorem C03_unique_binders (p : Prog) (hz : p.BindersZero) (ho : p.OccsOld) :
    ∀ d ∈ (focusProg p).defs, UniqueBinders (focusProg p).maxId d :=
  focusProg_uniqueBinders p hz ho

/-- the stronger global form: ALL binders and parameters of a definition are pairwise distinct (not
    only along a path), all are new (`> p.maxId`), and no binder id is a free name -/
theorem C03_unique_binders_global (p : Prog) (hz : p.BindersZero) (ho : p.OccsOld) :
    ∀ d ∈ (focusProg p).defs,
      UniqueBindersGlobal (focusProg p).maxId d ∧
      (∀ b ∈ ctxIds d.ctx ++ d.body.binderIds, p.maxId < b) ∧
      (∀ i ∈ d.body.freeIds (ctxIds d.ctx), i ≤ p.maxId) := by
  intro d hd
  refine ⟨focusProg_uniqueBindersGlobal p hz ho d hd, ?_, focusProg_scoped p hz ho d hd⟩
  intro b hb
  exact (((focusProg_binders p hz).2 d hd).2 b hb).1

/-- what fun2core produces: every identifier has id 0 -/
def AllIdsZero (p : Prog) : Prop :=
  (∀ d ∈ p.defs, ∀ b ∈ d.ids, b = 0) ∧ (∀ d ∈ p.defs, ∀ i ∈ d.body.occIds, i = 0)

theorem C03_unique_binders_translation_output (p : Prog) (h : AllIdsZero p) :
    ∀ d ∈ (focusProg p).defs, UniqueBinders (focusProg p).maxId d :=
  C03_unique_binders p h.1 (fun d hd i hi => by rw [h.2 d hd i hi]; exact Nat.zero_le _)

/-- soundness of the executable checker that is run on the implementation's S3 output -/
theorem C03_uniqueBindersCheck_sound (q : FsProg) (h : uniqueBindersCheck q = true) :
    ∀ d ∈ q.defs, UniqueBinders q.maxId d :=
  fun d hd => (uniqueBindersCheck_sound h d hd).2

/-- the part of `C03_statement` that is proved -/
theorem C03_statement_partial (p : Prog) (h : Input p) :
    ∀ d ∈ (focusProg p).defs, UniqueBinders (focusProg p).maxId d :=
  C03_unique_binders p h.bindersZero h.occsOld

/-! ## proved: pieces of the first sentence -/

/-- **focus follows the ς-order.**  If the specification machine reads `s` as `S[t]` (`t` its leftmost
    non-variable argument, i.e. the machine's next step is the ς-step
    `S[t] ↦ ⟨t | μ~x.S[x]⟩` resp. `⟨μa.S[a] | t⟩`), then the implementation's focusing of `s` is
    `bind t (fun x => focus (S[x]))`, with identical threading of the name counter.
    (`cutOkTop` excludes the two ill-typed cut shapes on which Rust panics.) -/
theorem C03_focus_follows_sigma (s : Stmt) (pc : PC) (t : Term) (S : Term → Stmt)
    (h : s.split = some (pc, t, S)) (hok : s.cutOkTop = true) (n : Nat) :
    focusStmt s n = bindTerm t (fun b n' => focusStmt (S b.toTerm) n') n :=
  focusStmt_split s pc t S h hok n

/-- the ς-step itself, for reference: `sigmaStep x s = ⟨t | μ~x.S[x]⟩` / `⟨μx.S[x] | t⟩` -/
theorem C03_sigmaStep_eq (s : Stmt) (pc : PC) (t : Term) (S : Term → Stmt) (x : Ident)
    (h : s.split = some (pc, t, S)) :
    sigmaStep x s = some (sigmaCut pc t x (S (.var pc x t.ty))) := by
  simp [sigmaStep, h]

/-- **the two machines of the specification agree**: the focused machine on `q` is, step for step,
    the ς-machine on `q` read as a Core program whose arguments are all variables -/
theorem C03_machines_agree (q : FsProg) (args : List (BitVec 64)) (fuel : Nat) :
    run q.embed args fuel = fsRun q args fuel :=
  run_embed q args fuel

/-- once for integers and data: `bind (μa.s) k` at a data/integer type runs `focus s` now, with `a`
    bound to the continuation `μ~x.k x` -/
theorem C03_bind_mu_once (q : FsProg) (st : FsState) (a : Ident) (ty : Ty) (s : Stmt) (k : Cont)
    (n : Nat) (h : st.stmt = (bindTerm (.mu .prd a ty s) k n).1)
    (hty : isCodata q.codataTypes ty = false) :
    fsStep q st = .next { st with
      stmt := (focusStmt s (n + 1)).1,
      env := (a, .mutilde st.env (bindVar n)
        (k ⟨bindVar n, .prd, ty⟩ (focusStmt s (n + 1)).2).1) :: st.env } :=
  fsStep_bind_mu_data q st a ty s k n h hty

/-- by name for codata: `bind (μa.s) k` at a codata type binds `x` to the suspended `μa.focus s`
    and continues with `k x` -/
theorem C03_bind_mu_by_name (q : FsProg) (st : FsState) (a : Ident) (ty : Ty) (s : Stmt) (k : Cont)
    (n : Nat) (h : st.stmt = (bindTerm (.mu .prd a ty s) k n).1)
    (hty : isCodata q.codataTypes ty = true) :
    fsStep q st = .next { st with
      stmt := (k ⟨bindVar n, .prd, ty⟩ (focusStmt s (n + 1)).2).1,
      env := (bindVar n, .thunk st.env a (focusStmt s (n + 1)).1) :: st.env } :=
  fsStep_bind_mu_codata q st a ty s k n h hty

/-- a focused program never takes a ς-step -/
theorem C03_focused_no_sigma (x : Ident) (s : FsStmt) : sigmaStep x s.embed = none :=
  sigmaStep_embed x s

/-! ## proved: static focusing ≈ the ς-machine (first sentence, the `focus` half) -/

/-- behaviours that are equal up to the amount of fuel are observably equal -/
theorem ObsEq.of_runs {r1 r2 : Nat → Behaviour} (h1 : ∀ f, ∃ f', r2 f' = r1 f)
    (h2 : ∀ f', ∃ f, r1 f = r2 f') : ObsEq r1 r2 := by
  refine ⟨fun b => ⟨?_, ?_⟩, fun f => ?_, fun f' => ?_⟩
  · rintro ⟨f, hf, hb⟩
    obtain ⟨f', hf'⟩ := h1 f
    exact ⟨f', by rw [hf', hf], hb⟩
  · rintro ⟨f', hf', hb⟩
    obtain ⟨f, hf⟩ := h2 f'
    exact ⟨f, by rw [hf, hf'], hb⟩
  · obtain ⟨f', hf'⟩ := h1 f
    exact ⟨f', by rw [hf']; exact List.prefix_refl _⟩
  · obtain ⟨f, hf⟩ := h2 f'
    exact ⟨f, by rw [hf]; exact List.prefix_refl _⟩

theorem ObsEq.symm {r1 r2 : Nat → Behaviour} (h : ObsEq r1 r2) : ObsEq r2 r1 :=
  ⟨fun b => (h.1 b).symm, h.2.2, h.2.1⟩

theorem ObsEq.trans {r1 r2 r3 : Nat → Behaviour} (h : ObsEq r1 r2) (h' : ObsEq r2 r3) :
    ObsEq r1 r3 := by
  refine ⟨fun b => (h.1 b).trans (h'.1 b), fun f => ?_, fun f => ?_⟩
  · obtain ⟨f1, h1⟩ := h.2.1 f
    obtain ⟨f2, h2⟩ := h'.2.1 f1
    exact ⟨f2, List.IsPrefix.trans h1 h2⟩
  · obtain ⟨f1, h1⟩ := h'.2.2 f
    obtain ⟨f2, h2⟩ := h.2.2 f1
    exact ⟨f2, List.IsPrefix.trans h1 h2⟩

/-- executable form of the hypotheses of `C03_focusOnly_sem`: in every definition body no cut of a
    constructor/operator with a destructor (`cutsOk`: where Rust's `focus` panics), chirality flags
    agree with positions (`pcOk`: Rust's `Term<Prd>`/`Term<Cns>`), no identifier is called `ς`, and
    every identifier has an id `≤ maxId` (so that the names `focus` generates are fresh) -/
def focusReady (p : Prog) : Bool :=
  p.defs.all fun d => d.body.cutsOk && d.body.pcOk &&
    d.body.idents.all (fun i => i.name != "ς") && d.body.idents.all (fun i => i.id ≤ p.maxId)

theorem focusReady_input {p : Prog} (h : focusReady p = true) : FocusInput p p := by
  simp only [focusReady, List.all_eq_true, Bool.and_eq_true, bne_iff_ne, decide_eq_true_eq] at h
  refine ⟨rfl, DefsAlpha.refl _, fun d hd => ⟨(h d hd).1.1.1, (h d hd).1.1.2, ?_⟩, fun d hd => ?_⟩
  · intro i hi hn; exact absurd hn ((h d hd).1.2 i hi)
  · intro i hi hg; have := (h d hd).2 i hi; have := hg.2; omega

/-- **C03, the `focus` half, for two α-equivalent programs.**  If the definitions of `p2` are
    α-equivalent to those of `p1` (equal nameless forms; e.g. `p2 = p1`, or `p2 = uniquifyProg p1`),
    `p1` is acceptable to `focus` and the ids of `p2` are `≤ p2.maxId`, then the ς-machine on `p1`
    and the focused machine on the statically focused `p2` are observably equal — in fact they
    produce EQUAL behaviours, the focused machine with at most as much fuel. -/
theorem C03_focusOnly_sem_alpha (p1 p2 : Prog) (h : FocusInput p1 p2) (args : List (BitVec 64)) :
    ObsEq (run p1 args) (fsRun (focusOnly p2) args) := by
  obtain ⟨h1, h2⟩ := focusOnly_sim_run h args
  exact ObsEq.of_runs (fun f => by obtain ⟨f', _, e⟩ := h1 f; exact ⟨f', e⟩) h2

/-- **static focusing ≈ the ς-rules** (T4 for the second half of `Prog::focus`): for EVERY program
    satisfying the executable check `focusReady` (no typing needed), all arguments, all fuel. -/
theorem C03_focusOnly_sem (p : Prog) (h : focusReady p = true) (args : List (BitVec 64)) :
    ObsEq (run p args) (fsRun (focusOnly p) args) :=
  C03_focusOnly_sem_alpha p p (focusReady_input h) args

/-- the fuel-precise form: equal behaviours, the focused machine never needs more fuel -/
theorem C03_focusOnly_fuel (p : Prog) (h : focusReady p = true) (args : List (BitVec 64)) :
    (∀ f, ∃ f', f' ≤ f ∧ fsRun (focusOnly p) args f' = run p args f) ∧
    (∀ f', ∃ f, run p args f = fsRun (focusOnly p) args f') :=
  focusOnly_sim_run (focusReady_input h) args

/-- the ς-step does not change the focused form (up to α-equivalence = equality of nameless forms):
    `focus ⟨t | μ~ς.S[ς]⟩ ≡α focus S[t]` -/
theorem C03_sigma_focus (s : Stmt) (pc : PC) (t : Term) (S : Term → Stmt)
    (hs : s.split = some (pc, t, S)) (hok : s.cutOkTop = true) (hpc : t.pcOk pc = true)
    (y : Ident) (hy : y ∉ s.idents) (hyg : ∀ m, ¬ Gen m y) (n : Nat) (hf : FreshL n s.idents)
    (sc : List Ident) :
    dbS sc (focusStmt (sigmaCut pc t y (S (.var pc y t.ty))) n).1.embed =
      dbS sc (focusStmt s n).1.embed :=
  sigma_focus hs hok hpc hy hyg hf sc

/-- focusing respects α-equivalence and does not depend on the name counter -/
theorem C03_focus_cong (sc sc' : List Ident) (s s' : Stmt) (n n' : Nat)
    (h : dbS sc s = dbS sc' s') (hf : FreshL n s.idents) (hf' : FreshL n' s'.idents) :
    dbS sc (focusStmt s n).1.embed = dbS sc' (focusStmt s' n').1.embed :=
  focusStmt_cong h hf hf'

/-! ## non-vacuity -/

/-- `def main() { ⟨(1 + 2) | μ~x. println_i64(x); exit x⟩ }`, all ids 0 -/
def exProg : Prog :=
  { defs := [⟨⟨"main", 0⟩, [],
      .cut .i64 (.op (.lit 1) .sum (.lit 2))
        (.mu .cns ⟨"x", 0⟩ .i64
          (.print true (.var .prd ⟨"x", 0⟩ .i64) (.exit (.var .prd ⟨"x", 0⟩ .i64) .i64)))⟩],
    dataTypes := [], codataTypes := [], maxId := 0 }

example : AllIdsZero exProg := by
  simp [AllIdsZero, exProg, Def.ids, ctxIds, Stmt.binderIds, Term.binderIds, Stmt.occIds,
    Term.occIds]

example : exProg.BindersZero ∧ exProg.OccsOld := by
  simp [Prog.BindersZero, Prog.OccsOld, exProg, Def.ids, ctxIds, Stmt.binderIds, Term.binderIds,
    Stmt.occIds, Term.occIds]

/-- `exProg` satisfies all hypotheses of `C03_statement` / `C03_statement_partial` -/
example : Input exProg where
  typed := by decide
  bindersZero := by
    simp [Prog.BindersZero, exProg, Def.ids, ctxIds, Stmt.binderIds, Term.binderIds]
  occsOld := by simp [Prog.OccsOld, exProg, Stmt.occIds, Term.occIds]
  noSigma := by decide

/-- a focused program accepted by the checker (hypothesis of `C03_uniqueBindersCheck_sound`), and
    one with a repeated binder id that it rejects -/
def exFs (i j : Nat) : FsProg :=
  { defs := [⟨⟨"main", 0⟩, [⟨⟨"n", 1⟩, .prd, .i64⟩],
      .cut .i64 (.lit 2) (.mu .cns ⟨"x", i⟩ .i64
        (.cut .i64 (.op ⟨"n", 1⟩ .sum ⟨"x", i⟩) (.mu .cns ⟨"y", j⟩ .i64 (.exit ⟨"y", j⟩))))⟩],
    dataTypes := [], codataTypes := [], maxId := 3 }

example : uniqueBindersCheck (exFs 2 3) = true := by decide
example : uniqueBindersCheck (exFs 2 2) = false := by decide
example : uniqueBindersCheck (exFs 2 1) = false := by decide

/-- the hypotheses of `C03_bind_mu_once` / `C03_bind_mu_by_name` are satisfiable -/
example : ∃ (q : FsProg) (st : FsState) (k : Cont),
    st.stmt = (bindTerm (.mu .prd ⟨"a", 1⟩ .i64 (.exit (.lit 0) .i64)) k 1).1 ∧
    isCodata q.codataTypes .i64 = false :=
  ⟨⟨[], [], [], 1⟩, ⟨_, [], []⟩, fun b n => (.exit b.var, n), rfl, rfl⟩

example : ∃ (q : FsProg) (st : FsState) (k : Cont),
    st.stmt = (bindTerm (.mu .prd ⟨"a", 1⟩ (.decl ⟨"C", 0⟩) (.exit (.lit 0) .i64)) k 1).1 ∧
    isCodata q.codataTypes (.decl ⟨"C", 0⟩) = true :=
  ⟨⟨[], [], [⟨⟨"C", 0⟩, []⟩], 1⟩, ⟨_, [], []⟩, fun b n => (.exit b.var, n), rfl, by decide⟩

/-- an unfocused statement and its reading as `S[t]` (hypotheses of `C03_focus_follows_sigma`) -/
example : ∃ S, (Stmt.print true (.lit 5) (.exit (.lit 0) .i64)).split = some (.prd, .lit 5, S) ∧
    (Stmt.print true (.lit 5) (.exit (.lit 0) .i64)).cutOkTop = true :=
  ⟨_, rfl, rfl⟩

/-- `exProg` (an operator with literal operands in a cut, a `print`, an `exit`) satisfies the
    hypothesis of `C03_focusOnly_sem` -/
example : focusReady exProg = true := by decide

end Scc.Props

#print axioms Scc.Props.C03_unique_binders
#print axioms Scc.Props.C03_unique_binders_global
#print axioms Scc.Props.C03_unique_binders_translation_output
#print axioms Scc.Props.C03_uniqueBindersCheck_sound
#print axioms Scc.Props.C03_statement_partial
#print axioms Scc.Props.C03_focus_follows_sigma
#print axioms Scc.Props.C03_machines_agree
#print axioms Scc.Props.C03_bind_mu_once
#print axioms Scc.Props.C03_bind_mu_by_name
#print axioms Scc.Props.C03_focusOnly_sem_alpha
#print axioms Scc.Props.C03_focusOnly_sem
#print axioms Scc.Props.C03_focusOnly_fuel
#print axioms Scc.Props.C03_sigma_focus
#print axioms Scc.Props.C03_focus_cong
