/-
  Scc.Props.C03 — property C03 (fixed text):
  "For every well-typed Core program (in particular every translation output, with effects allowed
   in any argument position) the uniquified, focused program has the same observable behaviour on
   the Core abstract machine as the original: non-variable arguments are evaluated innermost-first
   and left to right, once for integers and data and by name for codata. Afterwards all binders
   along every path of a definition are distinct and distinct from every free name, so later
   renamings cannot confuse two variables."

  Model: Scc.Core.{Uniquify,Focus} (tied to /repo/lang/core_lang by exact dump equality S2 ↦ S2u, S3).
  Spec:  Scc.Core.Sem (ς-machine `run`, focused machine `fsRun`), Scc.Core.Typing (`wellTyped`),
         Scc.Core.Unique (`UniqueBinders`, checker).

  PROVED here (full): the second sentence — `C03_unique_binders` (+ `_global`, checker soundness).
  PROVED (first sentence, for all arguments and all fuel):
   * `C03_focus_sem_panicFree` / `C03_focus_sem_typesDisjoint` = `C03_focus_sem` (T4) and
     `C03_statement_panicFree` / `C03_statement_typesDisjoint` = `C03_statement`, under ONE extra
     decidable hypothesis: `p.focusPanicFree = true` (the check `focusProgE` performs on every
     program), resp. `typesDisjoint p = true` (no name declared both as data and as codata type; it
     implies `focusPanicFree` for well-typed programs, Scc.Pipeline.FocusNoPanic).  Without it
     `Input p` does not exclude a cut `⟨K(..) | D(..)⟩` (typable iff its type name is declared twice),
     on which Rust's `Xtor::focus` panics.  `C03_focus_sem_fuel`: the behaviours are EQUAL, the
     focused machine never needs more fuel.
   * `C03_focusOnly_sem` (static focusing alone ≈ the ς-rules: for every program passing the
     executable check `focusReady`, no typing needed), `C03_focusOnly_sem_alpha` (the same up to an
     α-equivalence of the two programs).
   * `C03_uniquify_alpha_static`: `uniquify` is an α-renaming (equal nameless forms, definition-wise).
  Proof (Scc.Core.ProofsAlpha*, ProofsSplit, ProofsSigmaFocus, ProofsFocusSim*, ProofsUniqAlpha*):
  α-equivalence = equality of nameless (de Bruijn) images `dbS scope stmt`;
  `focusStmt_cong` (focusing respects α-equivalence and is independent of the name counter),
  `sigma_focus` (focus ⟨t | μ~ς.S[ς]⟩ ≡α focus S[t]), a stuttering simulation between `Core.run` and
  `Core.fsRun` indexed by the two environments' key lists (`FocusSim.SRel`), a measure for the
  ς-steps, and the renaming lemma for `uniquify`'s chirality-split substitution (`ren_stmt`, needs
  typing: a variable occurrence must have the chirality of its binder).
  Earlier partial results kept: `C03_focus_follows_sigma`, `C03_machines_agree`, `C03_bind_mu_*`.
  REFUTED: `C03_statement` and `C03_focus_sem` as literally stated (kept below as `def … : Prop`) are
  FALSE — `C03_statement_refuted`, `C03_focus_sem_refuted` (counterexample `badProg`: `T` declared
  as data and as codata type, `⟨K(μa.print 1;…) | D(μb.print 2;…)⟩` is well-typed, the ς-machine
  prints 1 and 2, the focused program (model: `panicTerm`; Rust: panic in `Xtor::focus`) only 1).
  They hold with the hypothesis `focusPanicFree` / `typesDisjoint` (see above).
  `C03_uniquify_alpha` IS a theorem: `C03_uniquify_alpha_proved` (even `C03_uniquify_run_eq`: equal
  behaviours for every fuel; lock-step simulation of the ς-machine under α-equivalence,
  Scc.Core.ProofsAlphaSim*: `C03_machine_alpha_invariant`).
-/
import Scc.Core.Sem
import Scc.Core.Typing
import Scc.Core.ProofsUniqueE
import Scc.Core.ProofsFocusSigma
import Scc.Core.ProofsEmbed
import Scc.Core.ProofsBindSteps
import Scc.Core.ProofsFocusSem
import Scc.Core.ProofsUniqAlphaD
import Scc.Core.ProofsUniqAlphaE
import Scc.Core.ProofsAlphaSimC
import Scc.Pipeline.FocusNoPanic

namespace Scc.Core

mutual
  /-- no variable of the program is named like the machine's ς-names -/
  def Term.noSigma : Term → Bool
    | .var _ v _ => v.name != "ς"
    | .lit _ => true
    | .op a _ b => a.noSigma && b.noSigma
    | .mu _ v _ s => v.name != "ς" && s.noSigma
    | .xtor _ _ as _ => as.noSigma
    | .xcase _ _ cl => cl.noSigma
  def Args.noSigma : Args → Bool
    | .nil => true
    | .cons _ t r => t.noSigma && r.noSigma
  def Clauses.noSigma : Clauses → Bool
    | .nil => true
    | .cons _ ctx b r => ctx.all (fun x => x.var.name != "ς") && b.noSigma && r.noSigma
  def Stmt.noSigma : Stmt → Bool
    | .cut _ p c => p.noSigma && c.noSigma
    | .ifc _ a b t e => a.noSigma && b.noSigma && t.noSigma && e.noSigma
    | .ifz _ a t e => a.noSigma && t.noSigma && e.noSigma
    | .print _ a n => a.noSigma && n.noSigma
    | .call _ as _ => as.noSigma
    | .exit a _ => a.noSigma
end

def Prog.noSigma (p : Prog) : Bool :=
  p.defs.all fun d => d.ctx.all (fun x => x.var.name != "ς") && d.body.noSigma

end Scc.Core

namespace Scc.Props
open Scc.Core

/-! ## the statement -/

/-- a run (as a function of the fuel) ends with behaviour `b` -/
def Terminates (r : Nat → Behaviour) (b : Behaviour) : Prop :=
  ∃ fuel, r fuel = b ∧ b.res ≠ .outOfFuel

/-- same observable behaviour: the same final behaviours (trace and result, including the reason of
    getting stuck), and for diverging runs every finite trace of one is a prefix of a trace of the
    other -/
def ObsEq (r1 r2 : Nat → Behaviour) : Prop :=
  (∀ b, Terminates r1 b ↔ Terminates r2 b) ∧
  (∀ f, ∃ f', (r1 f).out <+: (r2 f').out) ∧ (∀ f, ∃ f', (r2 f).out <+: (r1 f').out)

/-- the inputs of C03: well-typed Core programs as they come out of the translation: all binders
    carry id 0 (uniquify renames exactly those), all occurrences have ids `≤ maxId`, no variable is
    called `ς` (not a Fun identifier) -/
structure Input (p : Prog) : Prop where
  typed : p.wellTyped = true
  bindersZero : p.BindersZero
  occsOld : p.OccsOld
  noSigma : p.noSigma = true

/-- T2: uniquify is an α-renaming -/
def C03_uniquify_alpha : Prop :=
  ∀ p : Prog, Input p → ∀ args, ObsEq (run p args) (run (uniquifyProg p) args)

/-- T4: static focusing ≈ the ς-machine -/
def C03_focus_sem : Prop :=
  ∀ p : Prog, Input p → ∀ args, ObsEq (run p args) (fsRun (focusProg p) args)

/-- C03 at full strength -/
def C03_statement : Prop :=
  ∀ p : Prog, Input p →
    (∀ args, ObsEq (run p args) (fsRun (focusProg p) args)) ∧
    (∀ d ∈ (focusProg p).defs, UniqueBinders (focusProg p).maxId d)

/-! ## proved: the second sentence, at full strength -/

/-- **C03_unique_binders** (full).  For EVERY program whose parameters and binders carry id 0 and
    whose variable occurrences have ids `≤ maxId` (no typing needed), in every definition of
    `focusProg p`: the parameters are pairwise distinct; along every root-to-leaf path the bound ids
    are pairwise distinct, distinct from the parameters and from every free name; every id is
    `≤` the final `maxId`. -/
theorem C03_unique_binders (p : Prog) (hz : p.BindersZero) (ho : p.OccsOld) :
    ∀ d ∈ (focusProg p).defs, UniqueBinders (focusProg p).maxId d :=
  focusProg_uniqueBinders p hz ho

/-- the stronger global form: ALL binders and parameters of a definition are pairwise distinct (not
    only along a path), all are new (`> p.maxId`), and no binder id is a free name -/
theorem C03_unique_binders_global (p : Prog) (hz : p.BindersZero) (ho : p.OccsOld) :
    ∀ d ∈ (focusProg p).defs,
      UniqueBindersGlobal (focusProg p).maxId d ∧
      (∀ b ∈ ctxIds d.ctx ++ d.body.binderIds, p.maxId < b) ∧
      (∀ i ∈ d.body.freeIds (ctxIds d.ctx), i ≤ p.maxId) := by
  intro d hd
  refine ⟨focusProg_uniqueBindersGlobal p hz ho d hd, ?_, focusProg_scoped p hz ho d hd⟩
  intro b hb
  exact (((focusProg_binders p hz).2 d hd).2 b hb).1

/-- what fun2core produces: every identifier has id 0 -/
def AllIdsZero (p : Prog) : Prop :=
  (∀ d ∈ p.defs, ∀ b ∈ d.ids, b = 0) ∧ (∀ d ∈ p.defs, ∀ i ∈ d.body.occIds, i = 0)

theorem C03_unique_binders_translation_output (p : Prog) (h : AllIdsZero p) :
    ∀ d ∈ (focusProg p).defs, UniqueBinders (focusProg p).maxId d :=
  C03_unique_binders p h.1 (fun d hd i hi => by rw [h.2 d hd i hi]; exact Nat.zero_le _)

/-- soundness of the executable checker that is run on the implementation's S3 output -/
theorem C03_uniqueBindersCheck_sound (q : FsProg) (h : uniqueBindersCheck q = true) :
    ∀ d ∈ q.defs, UniqueBinders q.maxId d :=
  fun d hd => (uniqueBindersCheck_sound h d hd).2

/-- the part of `C03_statement` that is proved -/
theorem C03_statement_partial (p : Prog) (h : Input p) :
    ∀ d ∈ (focusProg p).defs, UniqueBinders (focusProg p).maxId d :=
  C03_unique_binders p h.bindersZero h.occsOld

/-! ## proved: pieces of the first sentence -/

/-- **focus follows the ς-order.**  If the specification machine reads `s` as `S[t]` (`t` its leftmost
    non-variable argument, i.e. the machine's next step is the ς-step
    `S[t] ↦ ⟨t | μ~x.S[x]⟩` resp. `⟨μa.S[a] | t⟩`), then the implementation's focusing of `s` is
    `bind t (fun x => focus (S[x]))`, with identical threading of the name counter.
    (`cutOkTop` excludes the two ill-typed cut shapes on which Rust panics.) -/
theorem C03_focus_follows_sigma (s : Stmt) (pc : PC) (t : Term) (S : Term → Stmt)
    (h : s.split = some (pc, t, S)) (hok : s.cutOkTop = true) (n : Nat) :
    focusStmt s n = bindTerm t (fun b n' => focusStmt (S b.toTerm) n') n :=
  focusStmt_split s pc t S h hok n

/-- the ς-step itself, for reference: `sigmaStep x s = ⟨t | μ~x.S[x]⟩` / `⟨μx.S[x] | t⟩` -/
theorem C03_sigmaStep_eq (s : Stmt) (pc : PC) (t : Term) (S : Term → Stmt) (x : Ident)
    (h : s.split = some (pc, t, S)) :
    sigmaStep x s = some (sigmaCut pc t x (S (.var pc x t.ty))) := by
  simp [sigmaStep, h]

/-- **the two machines of the specification agree**: the focused machine on `q` is, step for step,
    the ς-machine on `q` read as a Core program whose arguments are all variables -/
theorem C03_machines_agree (q : FsProg) (args : List (BitVec 64)) (fuel : Nat) :
    run q.embed args fuel = fsRun q args fuel :=
  run_embed q args fuel

/-- once for integers and data: `bind (μa.s) k` at a data/integer type runs `focus s` now, with `a`
    bound to the continuation `μ~x.k x` -/
theorem C03_bind_mu_once (q : FsProg) (st : FsState) (a : Ident) (ty : Ty) (s : Stmt) (k : Cont)
    (n : Nat) (h : st.stmt = (bindTerm (.mu .prd a ty s) k n).1)
    (hty : isCodata q.codataTypes ty = false) :
    fsStep q st = .next { st with
      stmt := (focusStmt s (n + 1)).1,
      env := (a, .mutilde st.env (bindVar n)
        (k ⟨bindVar n, .prd, ty⟩ (focusStmt s (n + 1)).2).1) :: st.env } :=
  fsStep_bind_mu_data q st a ty s k n h hty

/-- by name for codata: `bind (μa.s) k` at a codata type binds `x` to the suspended `μa.focus s`
    and continues with `k x` -/
theorem C03_bind_mu_by_name (q : FsProg) (st : FsState) (a : Ident) (ty : Ty) (s : Stmt) (k : Cont)
    (n : Nat) (h : st.stmt = (bindTerm (.mu .prd a ty s) k n).1)
    (hty : isCodata q.codataTypes ty = true) :
    fsStep q st = .next { st with
      stmt := (k ⟨bindVar n, .prd, ty⟩ (focusStmt s (n + 1)).2).1,
      env := (bindVar n, .thunk st.env a (focusStmt s (n + 1)).1) :: st.env } :=
  fsStep_bind_mu_codata q st a ty s k n h hty

/-- a focused program never takes a ς-step -/
theorem C03_focused_no_sigma (x : Ident) (s : FsStmt) : sigmaStep x s.embed = none :=
  sigmaStep_embed x s

/-! ## proved: static focusing ≈ the ς-machine (first sentence, the `focus` half) -/

/-- behaviours that are equal up to the amount of fuel are observably equal -/
theorem ObsEq.of_runs {r1 r2 : Nat → Behaviour} (h1 : ∀ f, ∃ f', r2 f' = r1 f)
    (h2 : ∀ f', ∃ f, r1 f = r2 f') : ObsEq r1 r2 := by
  refine ⟨fun b => ⟨?_, ?_⟩, fun f => ?_, fun f' => ?_⟩
  · rintro ⟨f, hf, hb⟩
    obtain ⟨f', hf'⟩ := h1 f
    exact ⟨f', by rw [hf', hf], hb⟩
  · rintro ⟨f', hf', hb⟩
    obtain ⟨f, hf⟩ := h2 f'
    exact ⟨f, by rw [hf, hf'], hb⟩
  · obtain ⟨f', hf'⟩ := h1 f
    exact ⟨f', by rw [hf']; exact List.prefix_refl _⟩
  · obtain ⟨f, hf⟩ := h2 f'
    exact ⟨f, by rw [hf]; exact List.prefix_refl _⟩

theorem ObsEq.symm {r1 r2 : Nat → Behaviour} (h : ObsEq r1 r2) : ObsEq r2 r1 :=
  ⟨fun b => (h.1 b).symm, h.2.2, h.2.1⟩

theorem ObsEq.trans {r1 r2 r3 : Nat → Behaviour} (h : ObsEq r1 r2) (h' : ObsEq r2 r3) :
    ObsEq r1 r3 := by
  refine ⟨fun b => (h.1 b).trans (h'.1 b), fun f => ?_, fun f => ?_⟩
  · obtain ⟨f1, h1⟩ := h.2.1 f
    obtain ⟨f2, h2⟩ := h'.2.1 f1
    exact ⟨f2, List.IsPrefix.trans h1 h2⟩
  · obtain ⟨f1, h1⟩ := h'.2.2 f
    obtain ⟨f2, h2⟩ := h.2.2 f1
    exact ⟨f2, List.IsPrefix.trans h1 h2⟩

/-- executable form of the hypotheses of `C03_focusOnly_sem`: in every definition body no cut of a
    constructor/operator with a destructor (`cutsOk`: where Rust's `focus` panics), chirality flags
    agree with positions (`pcOk`: Rust's `Term<Prd>`/`Term<Cns>`), no identifier is called `ς`, and
    every identifier has an id `≤ maxId` (so that the names `focus` generates are fresh) -/
def focusReady (p : Prog) : Bool :=
  p.defs.all fun d => d.body.cutsOk && d.body.pcOk &&
    d.body.idents.all (fun i => i.name != "ς") && d.body.idents.all (fun i => i.id ≤ p.maxId)

theorem focusReady_input {p : Prog} (h : focusReady p = true) : FocusInput p p := by
  simp only [focusReady, List.all_eq_true, Bool.and_eq_true, bne_iff_ne, decide_eq_true_eq] at h
  refine ⟨rfl, DefsAlpha.refl _, fun d hd => ⟨(h d hd).1.1.1, (h d hd).1.1.2, ?_⟩, fun d hd => ?_⟩
  · intro i hi hn; exact absurd hn ((h d hd).1.2 i hi)
  · intro i hi hg; have := (h d hd).2 i hi; have := hg.2; omega

/-- **C03, the `focus` half, for two α-equivalent programs.**  If the definitions of `p2` are
    α-equivalent to those of `p1` (equal nameless forms; e.g. `p2 = p1`, or `p2 = uniquifyProg p1`),
    `p1` is acceptable to `focus` and the ids of `p2` are `≤ p2.maxId`, then the ς-machine on `p1`
    and the focused machine on the statically focused `p2` are observably equal — in fact they
    produce EQUAL behaviours, the focused machine with at most as much fuel. -/
theorem C03_focusOnly_sem_alpha (p1 p2 : Prog) (h : FocusInput p1 p2) (args : List (BitVec 64)) :
    ObsEq (run p1 args) (fsRun (focusOnly p2) args) := by
  obtain ⟨h1, h2⟩ := focusOnly_sim_run h args
  exact ObsEq.of_runs (fun f => by obtain ⟨f', _, e⟩ := h1 f; exact ⟨f', e⟩) h2

/-- **static focusing ≈ the ς-rules** (T4 for the second half of `Prog::focus`): for EVERY program
    satisfying the executable check `focusReady` (no typing needed), all arguments, all fuel. -/
theorem C03_focusOnly_sem (p : Prog) (h : focusReady p = true) (args : List (BitVec 64)) :
    ObsEq (run p args) (fsRun (focusOnly p) args) :=
  C03_focusOnly_sem_alpha p p (focusReady_input h) args

/-- the fuel-precise form: equal behaviours, the focused machine never needs more fuel -/
theorem C03_focusOnly_fuel (p : Prog) (h : focusReady p = true) (args : List (BitVec 64)) :
    (∀ f, ∃ f', f' ≤ f ∧ fsRun (focusOnly p) args f' = run p args f) ∧
    (∀ f', ∃ f, run p args f = fsRun (focusOnly p) args f') :=
  focusOnly_sim_run (focusReady_input h) args

/-- the ς-step does not change the focused form (up to α-equivalence = equality of nameless forms):
    `focus ⟨t | μ~ς.S[ς]⟩ ≡α focus S[t]` -/
theorem C03_sigma_focus (s : Stmt) (pc : PC) (t : Term) (S : Term → Stmt)
    (hs : s.split = some (pc, t, S)) (hok : s.cutOkTop = true) (hpc : t.pcOk pc = true)
    (y : Ident) (hy : y ∉ s.idents) (hyg : ∀ m, ¬ Gen m y) (n : Nat) (hf : FreshL n s.idents)
    (sc : List Ident) :
    dbS sc (focusStmt (sigmaCut pc t y (S (.var pc y t.ty))) n).1.embed =
      dbS sc (focusStmt s n).1.embed :=
  sigma_focus hs hok hpc hy hyg hf sc

/-- focusing respects α-equivalence and does not depend on the name counter -/
theorem C03_focus_cong (sc sc' : List Ident) (s s' : Stmt) (n n' : Nat)
    (h : dbS sc s = dbS sc' s') (hf : FreshL n s.idents) (hf' : FreshL n' s'.idents) :
    dbS sc (focusStmt s n).1.embed = dbS sc' (focusStmt s' n').1.embed :=
  focusStmt_cong h hf hf'

/-! ## proved: C03's first sentence for well-typed programs on which `focus` does not panic -/

mutual
  theorem Term.noSigma_idents : (t : Term) → t.noSigma = true → ∀ i ∈ t.idents, i.name ≠ "ς"
    | .var pc v ty, h => by
      simp only [Term.noSigma, bne_iff_ne] at h
      simpa [Term.idents] using h
    | .lit k, _ => by simp [Term.idents]
    | .op a o b, h => by
      simp only [Term.noSigma, Bool.and_eq_true] at h
      intro i hi
      simp only [Term.idents, List.mem_append] at hi
      rcases hi with hi | hi
      · exact Term.noSigma_idents a h.1 i hi
      · exact Term.noSigma_idents b h.2 i hi
    | .mu pc v ty s, h => by
      simp only [Term.noSigma, Bool.and_eq_true, bne_iff_ne] at h
      intro i hi
      simp only [Term.idents, List.mem_cons] at hi
      rcases hi with rfl | hi
      · exact h.1
      · exact Stmt.noSigma_idents s h.2 i hi
    | .xtor pc k as ty, h => by
      simp only [Term.noSigma] at h
      simpa [Term.idents] using Args.noSigma_idents as h
    | .xcase pc ty cl, h => by
      simp only [Term.noSigma] at h
      simpa [Term.idents] using Clauses.noSigma_idents cl h
  theorem Args.noSigma_idents : (as : Args) → as.noSigma = true → ∀ i ∈ as.idents, i.name ≠ "ς"
    | .nil, _ => by simp [Args.idents]
    | .cons pc t r, h => by
      simp only [Args.noSigma, Bool.and_eq_true] at h
      intro i hi
      simp only [Args.idents, List.mem_append] at hi
      rcases hi with hi | hi
      · exact Term.noSigma_idents t h.1 i hi
      · exact Args.noSigma_idents r h.2 i hi
  theorem Clauses.noSigma_idents : (cl : Clauses) → cl.noSigma = true →
      ∀ i ∈ cl.idents, i.name ≠ "ς"
    | .nil, _ => by simp [Clauses.idents]
    | .cons x ctx b r, h => by
      simp only [Clauses.noSigma, Bool.and_eq_true, List.all_eq_true, bne_iff_ne] at h
      intro i hi
      simp only [Clauses.idents, List.mem_append] at hi
      rcases hi with (hi | hi) | hi
      · simp only [ctxVars, List.mem_map] at hi
        obtain ⟨b', hb', rfl⟩ := hi
        exact h.1.1 b' hb'
      · exact Stmt.noSigma_idents b h.1.2 i hi
      · exact Clauses.noSigma_idents r h.2 i hi
  theorem Stmt.noSigma_idents : (s : Stmt) → s.noSigma = true → ∀ i ∈ s.idents, i.name ≠ "ς"
    | .cut ty p c, h => by
      simp only [Stmt.noSigma, Bool.and_eq_true] at h
      intro i hi
      simp only [Stmt.idents, List.mem_append] at hi
      rcases hi with hi | hi
      · exact Term.noSigma_idents p h.1 i hi
      · exact Term.noSigma_idents c h.2 i hi
    | .ifc srt a b t e, h => by
      simp only [Stmt.noSigma, Bool.and_eq_true] at h
      intro i hi
      simp only [Stmt.idents, List.mem_append] at hi
      rcases hi with ((hi | hi) | hi) | hi
      · exact Term.noSigma_idents a h.1.1.1 i hi
      · exact Term.noSigma_idents b h.1.1.2 i hi
      · exact Stmt.noSigma_idents t h.1.2 i hi
      · exact Stmt.noSigma_idents e h.2 i hi
    | .ifz srt a t e, h => by
      simp only [Stmt.noSigma, Bool.and_eq_true] at h
      intro i hi
      simp only [Stmt.idents, List.mem_append] at hi
      rcases hi with (hi | hi) | hi
      · exact Term.noSigma_idents a h.1.1 i hi
      · exact Stmt.noSigma_idents t h.1.2 i hi
      · exact Stmt.noSigma_idents e h.2 i hi
    | .print nl a n, h => by
      simp only [Stmt.noSigma, Bool.and_eq_true] at h
      intro i hi
      simp only [Stmt.idents, List.mem_append] at hi
      rcases hi with hi | hi
      · exact Term.noSigma_idents a h.1 i hi
      · exact Stmt.noSigma_idents n h.2 i hi
    | .call f as ty, h => by
      simp only [Stmt.noSigma] at h
      simpa [Stmt.idents] using Args.noSigma_idents as h
    | .exit a ty, h => by
      simp only [Stmt.noSigma] at h
      simpa [Stmt.idents] using Term.noSigma_idents a h
end

/-- the C03 inputs are acceptable to the simulation: every body has no panicking cut, chirality
    flags agree with positions (typing), no `ς` -/
theorem Input.oks {p : Prog} (h : Input p) (hpf : p.focusPanicFree = true) :
    ∀ d ∈ p.defs, FocusSim.OKS 0 d.body := by
  intro d hd
  have ht := h.typed
  simp only [Prog.wellTyped, List.all_eq_true] at ht
  simp only [Prog.focusPanicFree, Bool.and_eq_true, List.all_eq_true] at hpf
  have hns := h.noSigma
  simp only [Prog.noSigma, List.all_eq_true, Bool.and_eq_true] at hns
  refine ⟨hpf.2 d hd, (stmt_check_chi p d.body d.ctx (ht d hd)).1, ?_⟩
  intro i hi hn
  exact absurd hn (Stmt.noSigma_idents d.body (hns d hd).2 i hi)

/-- **`uniquify` is an α-renaming** (T2, static form): on C03's inputs the definitions of
    `uniquifyProg p` have the same nameless forms as those of `p` -/
theorem C03_uniquify_alpha_static (p : Prog) (h : Input p) :
    DefsAlpha p.defs (uniquifyProg p).defs :=
  (uniquifyProg_alpha p (uniqInput_of_typed p h.typed h.bindersZero h.occsOld)).1

theorem Input.focusInput {p : Prog} (h : Input p) (hpf : p.focusPanicFree = true) :
    FocusInput p (uniquifyProg p) :=
  uniquify_focusInput p (uniqInput_of_typed p h.typed h.bindersZero h.occsOld) (h.oks hpf)

/-- **C03, first sentence (T4 = `C03_focus_sem`), for every input on which `focus` does not panic**
    (`focusPanicFree`: the executable check `focusProgE` performs; it is implied by typing when no
    name is declared both as a data and as a codata type, see `C03_focus_sem_typesDisjoint`).
    All arguments, all fuel; the behaviours are even equal, the focused machine using at most as
    much fuel (`C03_focus_sem_fuel`). -/
theorem C03_focus_sem_panicFree (p : Prog) (h : Input p) (hpf : p.focusPanicFree = true)
    (args : List (BitVec 64)) : ObsEq (run p args) (fsRun (focusProg p) args) :=
  C03_focusOnly_sem_alpha p (uniquifyProg p) (h.focusInput hpf) args

theorem C03_focus_sem_fuel (p : Prog) (h : Input p) (hpf : p.focusPanicFree = true)
    (args : List (BitVec 64)) :
    (∀ f, ∃ f', f' ≤ f ∧ fsRun (focusProg p) args f' = run p args f) ∧
    (∀ f', ∃ f, run p args f = fsRun (focusProg p) args f') :=
  focusOnly_sim_run (h.focusInput hpf) args

/-- C03's first sentence for well-typed programs in which no name is declared both as a data and
    as a codata type (what fun2core produces: `C12_link_fun2core`) -/
theorem C03_focus_sem_typesDisjoint (p : Prog) (h : Input p)
    (hd : Scc.Pipeline.typesDisjoint p = true) (args : List (BitVec 64)) :
    ObsEq (run p args) (fsRun (focusProg p) args) :=
  C03_focus_sem_panicFree p h (Scc.Pipeline.focusPanicFree_of_wellTyped hd h.typed) args

/-- **C03 at full strength** for inputs with disjoint data / codata type names: both sentences -/
theorem C03_statement_typesDisjoint (p : Prog) (h : Input p)
    (hd : Scc.Pipeline.typesDisjoint p = true) :
    (∀ args, ObsEq (run p args) (fsRun (focusProg p) args)) ∧
    (∀ d ∈ (focusProg p).defs, UniqueBinders (focusProg p).maxId d) :=
  ⟨C03_focus_sem_typesDisjoint p h hd, C03_unique_binders p h.bindersZero h.occsOld⟩

/-- … and for inputs on which `focus` does not panic -/
theorem C03_statement_panicFree (p : Prog) (h : Input p) (hpf : p.focusPanicFree = true) :
    (∀ args, ObsEq (run p args) (fsRun (focusProg p) args)) ∧
    (∀ d ∈ (focusProg p).defs, UniqueBinders (focusProg p).maxId d) :=
  ⟨C03_focus_sem_panicFree p h hpf, C03_unique_binders p h.bindersZero h.occsOld⟩

/-! ## uniquify, semantically -/

theorem Input.ctxNames {p : Prog} (h : Input p) :
    ∀ d ∈ p.defs, AllN (· ≠ "ς") (ctxVars d.ctx) := by
  intro d hd
  have hns := h.noSigma
  simp only [Prog.noSigma, List.all_eq_true, Bool.and_eq_true, bne_iff_ne] at hns
  intro i hi
  simp only [ctxVars, List.mem_map] at hi
  obtain ⟨b, hb, rfl⟩ := hi
  exact (hns d hd).1 b hb

/-- the uniquified program satisfies the hypotheses of the focusing simulation on its own -/
theorem Input.focusInput_uniq {p : Prog} (h : Input p) (hpf : p.focusPanicFree = true) :
    FocusInput (uniquifyProg p) (uniquifyProg p) :=
  ⟨rfl, DefsAlpha.refl _,
    uniquifyProg_oks p (uniqInput_of_typed p h.typed h.bindersZero h.occsOld) (h.oks hpf) h.ctxNames,
    (h.focusInput hpf).fresh⟩

theorem Input.sigLt {p : Prog} (h : Input p) : ∀ d ∈ p.defs, FocusSim.SigLt 0 d.body.idents := by
  intro d hd i hi hn
  have hns := h.noSigma
  simp only [Prog.noSigma, List.all_eq_true, Bool.and_eq_true] at hns
  exact absurd hn (Stmt.noSigma_idents d.body (hns d hd).2 i hi)

theorem Input.sigLt_uniq {p : Prog} (h : Input p) :
    ∀ d ∈ (uniquifyProg p).defs, FocusSim.SigLt 0 d.body.idents := by
  have hn := uniquifyDefs_names (· ≠ "ς") p.defs p.maxId (fun d hd =>
    ⟨h.ctxNames d hd, fun i hi hn => by have := h.sigLt d hd i hi hn; omega⟩)
  intro d hd i hi hnm
  exact absurd hnm (hn d hd i hi)

/-- **uniquify does not change the runs of the ς-machine**: equal behaviours for EVERY fuel
    (the two programs run in lock-step) -/
theorem C03_uniquify_run_eq (p : Prog) (h : Input p) (args : List (BitVec 64)) (f : Nat) :
    run p args f = run (uniquifyProg p) args f :=
  AlphaSim.alpha_run_eq (p1 := p) (p2 := uniquifyProg p) rfl (C03_uniquify_alpha_static p h)
    h.sigLt h.sigLt_uniq args f

/-- **T2 at full strength: `C03_uniquify_alpha` is a theorem** -/
theorem C03_uniquify_alpha_proved : C03_uniquify_alpha := fun p h args =>
  ObsEq.of_runs (fun f => ⟨f, (C03_uniquify_run_eq p h args f).symm⟩)
    (fun f => ⟨f, C03_uniquify_run_eq p h args f⟩)

theorem C03_uniquify_alpha_panicFree (p : Prog) (h : Input p) (_hpf : p.focusPanicFree = true)
    (args : List (BitVec 64)) : ObsEq (run p args) (run (uniquifyProg p) args) :=
  C03_uniquify_alpha_proved p h args

theorem C03_uniquify_alpha_typesDisjoint (p : Prog) (h : Input p)
    (_hd : Scc.Pipeline.typesDisjoint p = true) (args : List (BitVec 64)) :
    ObsEq (run p args) (run (uniquifyProg p) args) :=
  C03_uniquify_alpha_proved p h args

/-- the ς-machine is invariant under α-equivalence of programs (equal nameless forms,
    definition-wise), for programs without ς-names -/
theorem C03_machine_alpha_invariant (p1 p2 : Prog) (hc : p1.codataTypes = p2.codataTypes)
    (hα : DefsAlpha p1.defs p2.defs) (h1 : ∀ d ∈ p1.defs, FocusSim.SigLt 0 d.body.idents)
    (h2 : ∀ d ∈ p2.defs, FocusSim.SigLt 0 d.body.idents) (args : List (BitVec 64)) (f : Nat) :
    run p1 args f = run p2 args f :=
  AlphaSim.alpha_run_eq hc hα h1 h2 args f

/-! ## the literal statements are refuted by the model (why the extra hypothesis is needed) -/

theorem fsStepN_stable (q : FsProg) : ∀ (f : Nat) (st : FsState) (b : Behaviour),
    fsStepN q f st = b → b.res ≠ .outOfFuel → ∀ k, fsStepN q (f + k) st = b
  | 0, st, b, h, hb, _ => by
    simp only [fsStepN] at h
    subst h
    exact absurd rfl hb
  | f + 1, st, b, h, hb, k => by
    rw [show f + 1 + k = (f + k) + 1 by omega]
    simp only [fsStepN] at h ⊢
    cases hs : fsStep q st with
    | next st' => rw [hs] at h; exact fsStepN_stable q f st' b h hb k
    | final r => rw [hs] at h; exact h

theorem fsRun_stable (q : FsProg) (args : List (BitVec 64)) (f : Nat) (b : Behaviour)
    (h : fsRun q args f = b) (hb : b.res ≠ .outOfFuel) (k : Nat) : fsRun q args (f + k) = b := by
  unfold fsRun at h ⊢
  split
  · next hd => simp only [hd] at h; exact h
  · next d hd =>
    simp only [hd] at h
    split
    · next e he => simp only [he] at h; exact h
    · next ρ he => simp only [he] at h; exact fsStepN_stable q f _ b h hb k

/-- a well-typed program (type `T` is declared both as data and as codata type) with a cut
    `⟨K(μa. print 1; ⟨5|a⟩) | D(μb. print 2; ⟨6|b⟩)⟩`: the ς-machine evaluates both arguments,
    `focus` (Rust: panics in `Xtor::focus`; model: `panicTerm`) drops the destructor -/
def badProg : Prog :=
  let T : Ident := ⟨"T", 0⟩
  let muPrint (k : Int) (a : String) : Term :=
    .mu .prd ⟨a, 0⟩ .i64 (.print true (.lit k) (.cut .i64 (.lit (k + 4)) (.var .cns ⟨a, 0⟩ .i64)))
  { defs := [⟨⟨"main", 0⟩, [],
      .cut (.decl T)
        (.xtor .prd ⟨"K", 0⟩ (.cons .prd (muPrint 1 "a") .nil) (.decl T))
        (.xtor .cns ⟨"D", 0⟩ (.cons .prd (muPrint 2 "b") .nil) (.decl T))⟩],
    dataTypes := [⟨T, [⟨⟨"K", 0⟩, [⟨⟨"x", 0⟩, .prd, .i64⟩]⟩]⟩],
    codataTypes := [⟨T, [⟨⟨"D", 0⟩, [⟨⟨"y", 0⟩, .prd, .i64⟩]⟩]⟩], maxId := 0 }

/-- `focusProg badProg` (as computed by the model; `lit 0` is `panicTerm`) -/
def badFocused : FsProg :=
  let T : Ident := ⟨"T", 0⟩
  { defs := [⟨⟨"main", 0⟩, [],
      .cut .i64
        (.mu .prd ⟨"a", 1⟩ .i64 (.cut .i64 (.lit 1) (.mu .cns ⟨"x", 4⟩ .i64
          (.print true ⟨"x", 4⟩ (.cut .i64 (.lit 5) (.var .cns ⟨"a", 1⟩ .i64))))))
        (.mu .cns ⟨"x", 3⟩ .i64 (.cut (.decl T)
          (.xtor .prd ⟨"K", 0⟩ [⟨⟨"x", 3⟩, .prd, .i64⟩] (.decl T)) (.lit 0)))⟩],
    dataTypes := [⟨T, [⟨⟨"K", 0⟩, [⟨⟨"x", 0⟩, .prd, .i64⟩]⟩]⟩],
    codataTypes := [⟨T, [⟨⟨"D", 0⟩, [⟨⟨"y", 0⟩, .prd, .i64⟩]⟩]⟩], maxId := 4 }

theorem badProg_input : Input badProg where
  typed := by decide
  bindersZero := by
    simp [Prog.BindersZero, badProg, Def.ids, ctxIds, Stmt.binderIds, Term.binderIds,
      Args.binderIds]
  occsOld := by simp [Prog.OccsOld, badProg, Stmt.occIds, Term.occIds, Args.occIds]
  noSigma := by decide

theorem badProg_focus : focusProg badProg = badFocused := by
  have hU : uniquifyProg badProg =
      { defs := [⟨⟨"main", 0⟩, [],
          .cut (.decl ⟨"T", 0⟩)
            (.xtor .prd ⟨"K", 0⟩ (.cons .prd (.mu .prd ⟨"a", 1⟩ .i64 (.print true (.lit 1)
              (.cut .i64 (.lit 5) (.var .cns ⟨"a", 1⟩ .i64)))) .nil) (.decl ⟨"T", 0⟩))
            (.xtor .cns ⟨"D", 0⟩ (.cons .prd (.mu .prd ⟨"b", 2⟩ .i64 (.print true (.lit 2)
              (.cut .i64 (.lit 6) (.var .cns ⟨"b", 2⟩ .i64)))) .nil) (.decl ⟨"T", 0⟩))⟩],
        dataTypes := badProg.dataTypes, codataTypes := badProg.codataTypes, maxId := 2 } := by
    simp [uniquifyProg, badProg, uniquifyDefs, uniquifyDef, uniquifyCtx, substIfAny, uniquifyStmt,
      uniquifyTerm, uniquifyArgs, freshIdentifier, substStmt, substTerm, substFind]
  rw [focusProg, hU]
  rfl

/-- the hypothesis `focusPanicFree` is necessary: **`C03_focus_sem` as stated is false** -/
theorem C03_focus_sem_refuted : ¬ C03_focus_sem := by
  intro h
  obtain ⟨f', hf'⟩ := (h badProg badProg_input []).2.1 11
  rw [badProg_focus] at hf'
  have h11 : (run badProg [] 11).out = [(true, 1), (true, 2)] := by decide
  rw [h11] at hf'
  have hlen : (fsRun badFocused [] f').out.length ≤ 1 := by
    by_cases hle : 5 ≤ f'
    · obtain ⟨k, rfl⟩ := Nat.exists_eq_add_of_le hle
      rw [fsRun_stable badFocused [] 5 _ rfl (by decide) k]
      decide
    · have : f' = 0 ∨ f' = 1 ∨ f' = 2 ∨ f' = 3 ∨ f' = 4 := by omega
      rcases this with rfl | rfl | rfl | rfl | rfl <;> decide
  have := hf'.length_le
  simp only [List.length_cons, List.length_nil] at this
  omega

/-- … and so is `C03_statement` (it contains `C03_focus_sem`) -/
theorem C03_statement_refuted : ¬ C03_statement :=
  fun h => C03_focus_sem_refuted (fun p hp => (h p hp).1)

/-! ## non-vacuity -/

/-- `def main() { ⟨(1 + 2) | μ~x. println_i64(x); exit x⟩ }`, all ids 0 -/
def exProg : Prog :=
  { defs := [⟨⟨"main", 0⟩, [],
      .cut .i64 (.op (.lit 1) .sum (.lit 2))
        (.mu .cns ⟨"x", 0⟩ .i64
          (.print true (.var .prd ⟨"x", 0⟩ .i64) (.exit (.var .prd ⟨"x", 0⟩ .i64) .i64)))⟩],
    dataTypes := [], codataTypes := [], maxId := 0 }

example : AllIdsZero exProg := by
  simp [AllIdsZero, exProg, Def.ids, ctxIds, Stmt.binderIds, Term.binderIds, Stmt.occIds,
    Term.occIds]

example : exProg.BindersZero ∧ exProg.OccsOld := by
  simp [Prog.BindersZero, Prog.OccsOld, exProg, Def.ids, ctxIds, Stmt.binderIds, Term.binderIds,
    Stmt.occIds, Term.occIds]

/-- `exProg` satisfies all hypotheses of `C03_statement` / `C03_statement_partial` -/
example : Input exProg where
  typed := by decide
  bindersZero := by
    simp [Prog.BindersZero, exProg, Def.ids, ctxIds, Stmt.binderIds, Term.binderIds]
  occsOld := by simp [Prog.OccsOld, exProg, Stmt.occIds, Term.occIds]
  noSigma := by decide

/-- a focused program accepted by the checker (hypothesis of `C03_uniqueBindersCheck_sound`), and
    one with a repeated binder id that it rejects -/
def exFs (i j : Nat) : FsProg :=
  { defs := [⟨⟨"main", 0⟩, [⟨⟨"n", 1⟩, .prd, .i64⟩],
      .cut .i64 (.lit 2) (.mu .cns ⟨"x", i⟩ .i64
        (.cut .i64 (.op ⟨"n", 1⟩ .sum ⟨"x", i⟩) (.mu .cns ⟨"y", j⟩ .i64 (.exit ⟨"y", j⟩))))⟩],
    dataTypes := [], codataTypes := [], maxId := 3 }

example : uniqueBindersCheck (exFs 2 3) = true := by decide
example : uniqueBindersCheck (exFs 2 2) = false := by decide
example : uniqueBindersCheck (exFs 2 1) = false := by decide

/-- the hypotheses of `C03_bind_mu_once` / `C03_bind_mu_by_name` are satisfiable -/
example : ∃ (q : FsProg) (st : FsState) (k : Cont),
    st.stmt = (bindTerm (.mu .prd ⟨"a", 1⟩ .i64 (.exit (.lit 0) .i64)) k 1).1 ∧
    isCodata q.codataTypes .i64 = false :=
  ⟨⟨[], [], [], 1⟩, ⟨_, [], []⟩, fun b n => (.exit b.var, n), rfl, rfl⟩

example : ∃ (q : FsProg) (st : FsState) (k : Cont),
    st.stmt = (bindTerm (.mu .prd ⟨"a", 1⟩ (.decl ⟨"C", 0⟩) (.exit (.lit 0) .i64)) k 1).1 ∧
    isCodata q.codataTypes (.decl ⟨"C", 0⟩) = true :=
  ⟨⟨[], [], [⟨⟨"C", 0⟩, []⟩], 1⟩, ⟨_, [], []⟩, fun b n => (.exit b.var, n), rfl, by decide⟩

/-- an unfocused statement and its reading as `S[t]` (hypotheses of `C03_focus_follows_sigma`) -/
example : ∃ S, (Stmt.print true (.lit 5) (.exit (.lit 0) .i64)).split = some (.prd, .lit 5, S) ∧
    (Stmt.print true (.lit 5) (.exit (.lit 0) .i64)).cutOkTop = true :=
  ⟨_, rfl, rfl⟩

/-- `exProg` (an operator with literal operands in a cut, a `print`, an `exit`) satisfies the
    hypothesis of `C03_focusOnly_sem` -/
example : focusReady exProg = true := by decide

/-- … and those of `C03_statement_typesDisjoint` / `C03_focus_sem_panicFree` -/
example : Scc.Pipeline.typesDisjoint exProg = true ∧ exProg.focusPanicFree = true := by decide

/-- a program with a data type: `⟨Cons(1 + 2, Nil) | case { Nil ⇒ exit 0, Cons(x, xs) ⇒ print x; exit x }⟩`
    (a constructor with an operator and a constructor as arguments, a `case`), all ids 0 -/
def exProg2 : Prog :=
  let L : Ident := ⟨"List", 0⟩
  let x : Ident := ⟨"x", 0⟩
  { defs := [⟨⟨"main", 0⟩, [],
      .cut (.decl L)
        (.xtor .prd ⟨"Cons", 0⟩
          (.cons .prd (.op (.lit 1) .sum (.lit 2))
            (.cons .prd (.xtor .prd ⟨"Nil", 0⟩ .nil (.decl L)) .nil)) (.decl L))
        (.xcase .cns (.decl L)
          (.cons ⟨"Nil", 0⟩ [] (.exit (.lit 0) .i64)
            (.cons ⟨"Cons", 0⟩ [⟨x, .prd, .i64⟩, ⟨⟨"xs", 0⟩, .prd, .decl L⟩]
              (.print true (.var .prd x .i64) (.exit (.var .prd x .i64) .i64)) .nil)))⟩],
    dataTypes := [⟨L, [⟨⟨"Nil", 0⟩, []⟩,
      ⟨⟨"Cons", 0⟩, [⟨x, .prd, .i64⟩, ⟨⟨"xs", 0⟩, .prd, .decl L⟩]⟩]⟩],
    codataTypes := [], maxId := 0 }

/-- `exProg2` satisfies the hypotheses of `C03_statement_typesDisjoint`, `C03_focus_sem_panicFree`,
    `C03_uniquify_alpha_proved` (`Input`) and `C03_focusOnly_sem` (`focusReady`) -/
example : Input exProg2 where
  typed := by decide
  bindersZero := by
    simp [Prog.BindersZero, exProg2, Def.ids, ctxIds, Stmt.binderIds, Term.binderIds,
      Args.binderIds, Clauses.binderIds]
  occsOld := by
    simp [Prog.OccsOld, exProg2, Stmt.occIds, Term.occIds, Args.occIds, Clauses.occIds]
  noSigma := by decide

example : Scc.Pipeline.typesDisjoint exProg2 = true ∧ exProg2.focusPanicFree = true ∧
    focusReady exProg2 = true := by decide

/-- the hypotheses of `C03_focusOnly_sem_alpha` / `C03_machine_alpha_invariant` -/
example : FocusInput exProg2 exProg2 := focusReady_input (by decide)

/-- the hypotheses of `C03_sigma_focus`: `print (5); exit 0` read as `S[5]`, the name `ς₀` -/
example : ∃ S, (Stmt.print true (.lit 5) (.exit (.lit 0) .i64)).split = some (.prd, .lit 5, S) ∧
    (Term.lit 5).pcOk .prd = true ∧
    sigmaName 0 ∉ (Stmt.print true (.lit 5) (.exit (.lit 0) .i64)).idents ∧
    (∀ m, ¬ Gen m (sigmaName 0)) ∧
    FreshL 0 (Stmt.print true (.lit 5) (.exit (.lit 0) .i64)).idents :=
  ⟨_, rfl, rfl, by simp [Stmt.idents, Term.idents], FocusSim.not_gen_sigma 0,
    by simp [Stmt.idents, Term.idents]⟩

end Scc.Props

#print axioms Scc.Props.C03_unique_binders
#print axioms Scc.Props.C03_unique_binders_global
#print axioms Scc.Props.C03_unique_binders_translation_output
#print axioms Scc.Props.C03_uniqueBindersCheck_sound
#print axioms Scc.Props.C03_statement_partial
#print axioms Scc.Props.C03_focus_follows_sigma
#print axioms Scc.Props.C03_machines_agree
#print axioms Scc.Props.C03_bind_mu_once
#print axioms Scc.Props.C03_bind_mu_by_name
#print axioms Scc.Props.C03_focusOnly_sem_alpha
#print axioms Scc.Props.C03_focusOnly_sem
#print axioms Scc.Props.C03_focusOnly_fuel
#print axioms Scc.Props.C03_sigma_focus
#print axioms Scc.Props.C03_focus_cong
#print axioms Scc.Props.C03_uniquify_alpha_static
#print axioms Scc.Props.C03_focus_sem_panicFree
#print axioms Scc.Props.C03_focus_sem_fuel
#print axioms Scc.Props.C03_focus_sem_typesDisjoint
#print axioms Scc.Props.C03_statement_typesDisjoint
#print axioms Scc.Props.C03_statement_panicFree
#print axioms Scc.Props.C03_uniquify_run_eq
#print axioms Scc.Props.C03_uniquify_alpha_proved
#print axioms Scc.Props.C03_machine_alpha_invariant
#print axioms Scc.Props.C03_focus_sem_refuted
#print axioms Scc.Props.C03_statement_refuted
