/-
  Scc.Props.C13A64 — property C13 (calling convention) for the AArch64 backend: model
  Scc/A64/Backend.lean (into_routine.rs `setup`/`cleanup`, code.rs `print_i64` with
  `caller_save_registers_info`, `save_/restore_caller_save_registers`) on the poison machine of
  Scc/A64/Machine.lean.

  * `C13_statement` — the full property as a `def : Prop` (NOT proved for whole programs).
  * proved:
      `C13_prologue_epilogue`   setup … cleanup restores X19–X30 and SP (any body that keeps SP and the
                                96-byte save area), for 0..7 arguments; arguments are moved into place;
      `C13_exit_check`          from the machine's entry state the exit checks of `RET` then succeed;
      `C13_print_preserves`     for the code AS IT IS (condition `>=`, repo commit 58adc26): for EVERY
                                context (length and kinds arbitrary), argument in a register or a
                                spill slot: the call is made with SP 16-aligned and the right
                                argument, nothing undefined is read, SP/heap/spill area/every live
                                register survive;
      `C13_print_preserves_old` the same for the code BEFORE that commit (`printI64G true`), under the
                                hypothesis the proof forced: `context.len() ≠ 13`;
      `C13_a64_lr_witness`      the DEFECT of the old code (found with this machinery, repaired in
                                58adc26): with exactly 13 variables the second temporary of variable
                                12 lives in logical register 29 = X30, is live, and is undefined after
                                the print (`first_free_register > REGISTER_NUM` had to be `>=`);
      `C13_sp_moves_aligned`    every SP-changing instruction of setup / cleanup / print moves SP by a
                                multiple of 16 (alignment at every call and SP-based access).
  No `bv_decide`, no `native_decide`.
-/
import Scc.A64.Prologue
import Scc.A64.PrintLemmas

set_option linter.unusedSimpArgs false

namespace Scc.A64
open Scc.AxCut

/-! ## The full statement (not proved) -/

/-- C13 for whole programs: every run of a compiled routine from the AAPCS64 entry state either ends
in `done` (so: callee-saved registers and SP restored, result in X0, every call and SP-based access
aligned, nothing undefined read) or runs out of fuel — never a fault or a `cc` violation —
whenever the AxCut machine does not get stuck. -/
def C13_statement : Prop :=
  ∀ (p : AxCut.Prog) (args : List (BitVec 64)) (body routine : List Code) (nargs : Nat),
    compileProg a64Backend p false 0 = .ok (body, nargs, routine) → args.length = nargs →
    ∀ fuel cfg, match (run (printProg routine) args fuel cfg).res with
      | .done _ | .outOfFuel => True
      | .fault why _ => why = "div-by-zero" ∨ why = "div-overflow"
      | _ => False

/-! ## Prologue / epilogue -/

theorem C13_prologue_epilogue {c : MemCfg} (hm : MemOk c) (n : Nat) (hn : n ≤ 7) (σ0 : State) (S0 : Nat)
    (hS : σ0.sp.toNat = S0) (hal : S0 % 16 = 0) (hlo : c.stackLow + 96 + 2048 ≤ S0) (hhi : S0 ≤ c.stackTop)
    (h : Word) (h0 : σ0.reg 0 = some h) :
    ∃ codes σ1, setup n = .ok codes ∧ execCodes c codes σ0 = .ok σ1 ∧ SetupPost σ0 σ1 S0 n h ∧
      ∀ σ2 : State, σ2.sp = σ1.sp → (∀ a, S0 - 96 ≤ a → a < S0 → σ2.slot a = σ1.slot a) →
        ∃ σ3, execCodes c cleanup.dropLast σ2 = .ok σ3 ∧ σ3.sp = σ0.sp ∧
          (∀ m : Fin 31, 19 ≤ m.val → σ3.reg m = σ0.reg m) ∧
          (∀ m : Fin 31, m.val < 19 → σ3.reg m = σ2.reg m) ∧ σ3.heap = σ2.heap :=
  prologue_epilogue hm n hn σ0 S0 hS hal hlo hhi h h0

/-- the instruction after `cleanup.dropLast` is `RET`, and in a state that agrees with the entry
state on SP and X19–X30 and has a defined X0 the machine's exit checks succeed -/
theorem C13_exit_check (c : MemCfg) (args : List Word) (σ3 : State) (v : Word)
    (hsp : σ3.sp = (entryState c args).sp)
    (hregs : ∀ m : Fin 31, 19 ≤ m.val → σ3.reg m = (entryState c args).reg m)
    (h0 : σ3.reg 0 = some v) :
    cleanup.getLast? = some .RET ∧ exitCheck c σ3 = .done v := by
  refine ⟨rfl, ?_⟩
  have hentry : ∀ m : Fin 31, 19 ≤ m.val → (entryState c args).reg m = some (sentinel m.val) := by
    intro m hm
    simp only [entryState, State.reg, Vector.getElem_ofFn]
    have h1 : m ≠ 0 := by intro e; rw [e] at hm; simp at hm
    have h2 : ¬ m.val ≤ 7 := by omega
    simp [h1, h2, hm]
  have h30 : σ3.regs[(30 : Fin 31)] = some (sentinel 30) := by
    have := hregs 30 (by decide); rw [hentry 30 (by decide)] at this; exact this
  have hsp' : σ3.sp = BitVec.ofNat 64 c.stackTop := hsp
  have hall : ∀ k, k < 11 → σ3.regs[19 + k]? = some (some (sentinel (19 + k))) := by
    intro k hk
    have hlt : 19 + k < 31 := by omega
    have := hregs ⟨19 + k, hlt⟩ (by simp)
    rw [hentry ⟨19 + k, hlt⟩ (by simp)] at this
    rw [Vector.getElem?_eq_getElem hlt]
    exact congrArg some this
  have hfind : (List.range 11).find? (fun k => σ3.regs[19 + k]? != some (some (sentinel (19 + k)))) = none := by
    rw [List.find?_eq_none]
    intro k hk
    simp only [List.mem_range] at hk
    simp [hall k hk]
  have h0' : σ3.regs[(0 : Fin 31)] = some v := h0
  simp [exitCheck, h30, hsp', hfind, h0']

/-! ## print -/

/-- the temporaries whose content a `print` must preserve: both temporaries of every variable of
the context, except the first temporary of integers (`ext`), which holds nothing -/
def LiveTemp (ctx : Ctx) (t : Temporary) : Prop :=
  ∃ i b, ctx[i]? = some b ∧
    ((t = .register (.x (2 * i + 5)) ∧ 2 * i + 5 < 30) ∨
     (t = .register (.x (2 * i + 4)) ∧ 2 * i + 4 < 30 ∧ b.chi ≠ .ext) ∨
     (∃ p, t = .spill p ∧ p < SPILL_NUM))

/-- the source temporaries `print_i64` is called with: `variable_temporary(Snd, …)` of a variable of
the context — a register below the first free one, or a spill slot -/
def PrintSource (ctx : Ctx) : Temporary → Prop
  | .register (.x r) => r < 30 ∧ r < 2 * ctx.length + 4
  | .register _ => False
  | .spill p => p < SPILL_NUM

structure PrintPost (σ σ' : State) (ctx : Ctx) : Prop where
  sp : σ'.sp = σ.sp
  heap : σ'.heap = σ.heap
  /-- HEAP and FREE -/
  heapFree : σ'.lreg 0 = σ.lreg 0 ∧ σ'.lreg 1 = σ.lreg 1
  /-- every stack word at or above SP, in particular the whole spill area -/
  stack : ∀ a, σ.sp.toNat ≤ a → σ'.slot a = σ.slot a
  /-- every live register -/
  regs : ∀ r, r < 30 → LiveReg ctx r → σ'.lreg r = σ.lreg r

/-- T4 for a parametrised link-register condition: `lrStrict = false` is the repaired code. -/
theorem print_preserves_G {c : MemCfg} (hm : MemOk c) (lrStrict : Bool) (ctx : Ctx)
    (hlr : lrStrict = true → ctx.length ≠ 13) (nl : Bool) (src : Temporary) (hsrc : PrintSource ctx src)
    (σ : State) (w : Word) (hal : σ.sp.toNat % 16 = 0) (hlo : c.stackLow + 144 ≤ σ.sp.toNat)
    (hhi : σ.sp.toNat + SPILL_SPACE ≤ c.stackTop) (hw : σ.tempVal src = some w) :
    ∃ σ', execCodesOut c (printI64G lrStrict nl src ctx) σ = .ok (σ', [(nl, w)]) ∧ PrintPost σ σ' ctx := by
  have hss : SPILL_SPACE = 2048 := rfl
  cases src with
  | register reg =>
    cases reg with
    | x r =>
      obtain ⟨h1, h2⟩ := hsrc
      have hw' : σ.lreg r = some w := by
        have : σ.tempVal (.register (.x r)) = σ.reg (ar r) := by simp [State.tempVal, xreg_ar h1, State.reg]
        rw [this] at hw; exact hw
      obtain ⟨σ', he, hsp, hheap, habove, hlive⟩ :=
        print_register hm lrStrict ctx hlr nl r h1 h2 σ σ.sp.toNat w rfl hal hlo (by omega) hw'
      exact ⟨σ', he, hsp, hheap, ⟨hlive 0 (by omega) (Or.inl rfl), hlive 1 (by omega) (Or.inr (Or.inl rfl))⟩, habove, hlive⟩
    | sp => exact absurd hsrc (by simp [PrintSource])
    | xzr => exact absurd hsrc (by simp [PrintSource])
  | spill p =>
    obtain ⟨σ', he, hsp, hheap, habove, hlive⟩ :=
      print_spill hm lrStrict ctx hlr nl p hsrc σ σ.sp.toNat w rfl hal hlo hhi hw
    exact ⟨σ', he, hsp, hheap, ⟨hlive 0 (by omega) (Or.inl rfl), hlive 1 (by omega) (Or.inr (Or.inl rfl))⟩, habove, hlive⟩

/-- C13-T4 for the code AS IT IS (`a64Backend.printI64`, condition `first_free_register >=
REGISTER_NUM`): EVERY context. -/
theorem C13_print_preserves {c : MemCfg} (hm : MemOk c) (ctx : Ctx) (nl : Bool) (src : Temporary)
    (hsrc : PrintSource ctx src) (σ : State) (w : Word) (hal : σ.sp.toNat % 16 = 0)
    (hlo : c.stackLow + 144 ≤ σ.sp.toNat) (hhi : σ.sp.toNat + SPILL_SPACE ≤ c.stackTop)
    (hw : σ.tempVal src = some w) :
    ∃ σ', execCodesOut c (printI64 nl src ctx) σ = .ok (σ', [(nl, w)]) ∧ PrintPost σ σ' ctx :=
  print_preserves_G hm false ctx (by intro h; cases h) nl src hsrc σ w hal hlo hhi hw

/-- C13-T4 for the code before repo commit 58adc26 (condition `>`): every context whose length is
not 13 — the hypothesis that the proof attempt forced and that exposed the defect. -/
theorem C13_print_preserves_old {c : MemCfg} (hm : MemOk c) (ctx : Ctx) (h13 : ctx.length ≠ 13) (nl : Bool)
    (src : Temporary) (hsrc : PrintSource ctx src) (σ : State) (w : Word) (hal : σ.sp.toNat % 16 = 0)
    (hlo : c.stackLow + 144 ≤ σ.sp.toNat) (hhi : σ.sp.toNat + SPILL_SPACE ≤ c.stackTop)
    (hw : σ.tempVal src = some w) :
    ∃ σ', execCodesOut c (printI64G true nl src ctx) σ = .ok (σ', [(nl, w)]) ∧ PrintPost σ σ' ctx :=
  print_preserves_G hm true ctx (fun _ => h13) nl src hsrc σ w hal hlo hhi hw

/-- live registers are exactly the registers of live temporaries (plus HEAP and FREE) -/
theorem liveReg_of_liveTemp {ctx : Ctx} {r : Nat} (h : LiveTemp ctx (.register (.x r))) : LiveReg ctx r := by
  obtain ⟨i, b, hb, h | h | ⟨p, h, _⟩⟩ := h
  · have : r = 2 * i + 5 := by simpa using h.1
    exact Or.inr (Or.inr ⟨i, b, hb, Or.inl this⟩)
  · have : r = 2 * i + 4 := by simpa using h.1
    exact Or.inr (Or.inr ⟨i, b, hb, Or.inr ⟨this, h.2.2⟩⟩)
  · cases h

/-! ## The defect at exactly 13 variables -/

/-- thirteen integer variables -/
def ctx13 : Ctx := (List.range 13).map fun i => ⟨⟨"x", i + 1⟩, .ext, .i64⟩

/-- DEFECT WITNESS for the code before repo commit 58adc26 (`a64BackendOld`; code.rs
`caller_save_registers_info` with `first_free_register > REGISTER_NUM`):
with exactly 13 variables, variable 12 (an integer) has its value in logical register 29 = X30, the
link register.  It is live (`LiveReg ctx13 29`), `print_i64` of variable 0 succeeds, and afterwards
X30 is UNDEFINED on the machine model (on hardware: the return address of the `BL`). -/
theorem C13_a64_lr_witness {c : MemCfg} (hm : MemOk c) (nl : Bool) (σ : State) (w v : Word)
    (hal : σ.sp.toNat % 16 = 0) (hlo : c.stackLow + 144 ≤ σ.sp.toNat) (hhi : σ.sp.toNat ≤ c.stackTop)
    (hw : σ.lreg 5 = some w) (_hv : σ.lreg 29 = some v) :
    LiveReg ctx13 29 ∧
    ∃ σ', execCodesOut c (a64BackendOld.printI64 nl (.register (.x 5)) ctx13 |>.run 0 |> fun r =>
        match r with | .ok (cs, _) => cs | .error _ => []) σ = .ok (σ', [(nl, w)]) ∧ σ'.lreg 29 = none := by
  refine ⟨Or.inr (Or.inr ⟨12, ⟨⟨"x", 13⟩, .ext, .i64⟩, rfl, Or.inl rfl⟩), ?_⟩
  obtain ⟨σ', he, hpost⟩ := print_register_exec hm true ctx13 nl 5 (by decide) (by decide) σ σ.sp.toNat w rfl hal hlo hhi hw
  refine ⟨σ', he, ?_⟩
  have hregs : (callerSaveRegistersInfoG true ctx13).2 = [0, 1, 5, 7, 9, 11, 13, 15, 17] := by decide
  apply hpost.clobbered (ar 29) (Or.inr (by decide))
  rw [hregs]
  intro r hr
  simp only [List.mem_cons, List.not_mem_nil, or_false] at hr
  rcases hr with rfl | rfl | rfl | rfl | rfl | rfl | rfl | rfl | rfl <;> decide

/-! ## SP moves in multiples of 16 -/

/-- the amount by which an instruction changes SP (`none`: it does not write SP) -/
def Code.spDelta : Code → Option Int
  | .ADDI .sp .sp i => some i
  | .SUBI .sp .sp i => some (-i)
  | .STP_PRE_INDEX _ _ .sp i => some i
  | .LDP_POST_INDEX _ _ .sp i => some i
  | .ADDI .sp _ _ | .SUBI .sp _ _ | .ADD .sp _ _ | .SUB .sp _ _ | .MUL .sp _ _ | .SDIV .sp _ _
  | .MSUB .sp _ _ _ | .MOVR .sp _ | .MOVZ .sp _ _ | .MOVN .sp _ _ | .MOVK .sp _ _ | .LDR .sp _ _
  | .ADR .sp _ => some 1   -- an arbitrary write to SP: not a multiple of 16
  | _ => none

/-- every instruction of the list that writes SP moves it by a multiple of 16 -/
def spAligned (cs : List Code) : Bool :=
  cs.all fun code => match code.spDelta with
    | some d => d % 16 == 0
    | none => true

theorem spAligned_append (a b : List Code) : spAligned (a ++ b) = (spAligned a && spAligned b) := by
  simp [spAligned, List.all_append]

theorem spAligned_setup : ∀ n, n ≤ 7 → ∃ codes, setup n = .ok codes ∧ spAligned codes = true := by
  intro n hn
  have hcases : n = 0 ∨ n = 1 ∨ n = 2 ∨ n = 3 ∨ n = 4 ∨ n = 5 ∨ n = 6 ∨ n = 7 := by omega
  rcases hcases with rfl | rfl | rfl | rfl | rfl | rfl | rfl | rfl <;> exact ⟨_, rfl, by decide⟩

theorem spAligned_cleanup : spAligned cleanup = true := by decide

theorem spAligned_moveCodes (pairs : List (Nat × Nat)) : spAligned (moveCodes pairs) = true := by
  simp [spAligned, moveCodes, Code.spDelta]

theorem spAligned_strCodes (items : List (Nat × Int)) : spAligned (strCodes items) = true := by
  simp [spAligned, strCodes, Code.spDelta]

theorem spAligned_ldrCodes (items : List (Nat × Int)) : spAligned (ldrCodes items) = true := by
  simp [spAligned, ldrCodes, Code.spDelta]

/-- C13-T3 (`print_alignment`): for EVERY context the code of `print_i64` moves SP only by multiples
of 16 (the parity argument on `registers_to_save − backup_registers_used`), so SP stays 16-aligned
at the call and at every SP-based access. -/
theorem C13_sp_moves_aligned_print (lrStrict nl : Bool) (src : Temporary) (ctx : Ctx) :
    spAligned (printI64G lrStrict nl src ctx) = true := by
  have hpar : ∀ fb regs, address (pushedCount fb regs) % 16 = 0 ∧ (-(address (pushedCount fb regs))) % 16 = 0 := by
    intro fb regs
    obtain ⟨_, _, h⟩ := roundEven_props (regs.length - backupUsed fb regs)
    have : pushedCount fb regs = roundEven (regs.length - backupUsed fb regs) := rfl
    rw [address_eq, this]; omega
  have hsave : ∀ fb regs, spAligned (saveCallerSaveRegisters fb regs) = true := by
    intro fb regs
    rw [save_decompose, spAligned_append, spAligned_moveCodes]
    split
    · rw [spAligned_append, spAligned_strCodes]
      simp [spAligned, Code.spDelta, (hpar fb regs).2]
    · rfl
  have hrest : ∀ fb regs, spAligned (restoreCallerSaveRegisters fb regs) = true := by
    intro fb regs
    rw [restore_decompose, spAligned_append, spAligned_moveCodes]
    split
    · rw [spAligned_append, spAligned_ldrCodes]
      simp [spAligned, Code.spDelta, (hpar fb regs).1]
    · rfl
  unfold printI64G
  simp only [spAligned_append, hsave, hrest, Bool.and_true]
  cases src with
  | register r => cases r <;> simp [spAligned, Code.spDelta]
  | spill p => simp [spAligned, Code.spDelta, moveToRegister, TEMP]

/-- … and so do `setup` and `cleanup` -/
theorem C13_sp_moves_aligned :
    (∀ n, n ≤ 7 → ∃ codes, setup n = .ok codes ∧ spAligned codes = true) ∧ spAligned cleanup = true ∧
    (∀ lrStrict nl src ctx, spAligned (printI64G lrStrict nl src ctx) = true) :=
  ⟨spAligned_setup, spAligned_cleanup, C13_sp_moves_aligned_print⟩

/-- executing an SP-aligned instruction keeps SP 16-aligned (for the two forms that occur) -/
theorem sp_stays_aligned_addi (c : MemCfg) (σ σ' : State) (i : Int) (hi : i % 16 = 0)
    (hal : σ.sp.toNat % 16 = 0) (h : Instr.exec c (.addi .sp .sp i) σ = .ok σ') : σ'.sp.toNat % 16 = 0 := by
  simp only [Instr.exec] at h
  split at h
  · simp only [State.rdS, State.wrS, Except_bind_ok, Except.ok.injEq] at h
    subst h
    simp only [imm, BitVec.toNat_add, BitVec.toNat_ofInt]
    have h64 : (2:Nat)^64 = 18446744073709551616 := by decide
    simp only [h64]
    omega
  · cases h

/-! ## Non-vacuity -/

/-- a memory layout and a state satisfying the hypotheses of the print theorems -/
theorem defaultMem_ok : MemOk defaultMem := ⟨by decide, by decide⟩

def exStatePrint : State :=
  { regs := Vector.replicate 31 none, sp := BitVec.ofNat 64 (defaultMem.stackTop - 96 - 2048), flags := none,
    heap := ∅, stack := ∅, maxHeap := 0 }

example : ∃ σ', execCodesOut defaultMem (printI64 true (.register (.x 5)) ctx13)
    (exStatePrint.setReg (ar 5) (some 42)) = .ok (σ', [(true, 42)]) ∧
    PrintPost (exStatePrint.setReg (ar 5) (some 42)) σ' ctx13 :=
  C13_print_preserves defaultMem_ok ctx13 true (.register (.x 5)) (by constructor <;> decide)
    (exStatePrint.setReg (ar 5) (some 42)) 42 (by decide) (by decide) (by decide)
    (by simp [State.tempVal, xreg_ar, State.reg, State.setReg])

#print axioms C13_prologue_epilogue
#print axioms C13_exit_check
#print axioms C13_print_preserves
#print axioms C13_print_preserves_old
#print axioms C13_a64_lr_witness
#print axioms C13_sp_moves_aligned

end Scc.A64
