/-
  Scc.Props.C13A64 — property C13 (calling convention) for the AArch64 backend: model
  Scc/A64/Backend.lean (into_routine.rs `setup`/`cleanup`, code.rs `print_i64` with
  `caller_save_registers_info`, `save_/restore_caller_save_registers`) on the poison machine of
  Scc/A64/Machine.lean.

  * `C13_statement` — the full property as a `def : Prop` (NOT proved for whole programs).
  * proved:
      `C13_prologue_epilogue`   setup … cleanup restores X19–X30 and SP (any body that keeps SP and the
                                96-byte save area), for 0..7 arguments; arguments are moved into place;
      `C13_exit_check`          from the machine's entry state the exit checks of `RET` then succeed;
      `C13_print_preserves`     for the code AS IT IS (condition `>=`, repo commit 58adc26): for EVERY
                                context (length and kinds arbitrary), argument in a register or a
                                spill slot: the call is made with SP 16-aligned and the right
                                argument, nothing undefined is read, SP/heap/spill area/every live
                                register survive;
      `C13_print_preserves_old` the same for the code BEFORE that commit (`printI64G true`), under the
                                hypothesis the proof forced: `context.len() ≠ 13`;
      `C13_a64_lr_witness`      the DEFECT of the old code (found with this machinery, repaired in
                                58adc26): with exactly 13 variables the second temporary of variable
                                12 lives in logical register 29 = X30, is live, and is undefined after
                                the print (`first_free_register > REGISTER_NUM` had to be `>=`);
      `C13_sp_moves_aligned`    every SP-changing instruction of setup / cleanup / print moves SP by a
                                multiple of 16 (alignment at every call and SP-based access).
  * WHOLE PROGRAMS, STATIC (text level; ANY program that `compileProg a64Backend` accepts, no other
    hypothesis — capacity = the compiler succeeds; proofs: Scc/Backend/ProofsShape.lean = induction over
    the generic code generator, Scc/A64/CCProofsStatic.lean, CCProofsSites.lean):
      `C13_static_shape`       the body is a sequence of PLAIN instructions (`plainCC`: not BL / RET /
                               STP-pre / LDP-post, SP not written, SP-relative operands inside the spill
                               area) and of WHOLE print blocks `printI64 nl t ctx`, `t` the `Snd` temporary
                               of a variable of `ctx`
      (i)  `C13_static_call_sites`  every `BL` of the body is the call of a print block (argument
                               staging + save sequence + argument move before, restore sequence after, ONE
                               context); `C13_static_saved_exact`: the saved registers are EXACTLY the
                               caller-saved registers X0…X17 and X30 (logical 29, the link register) that
                               hold something live (HEAP, FREE, temporaries of the context) — no hypothesis
                               on the number of variables: the case of 13 variables (link register live)
                               is covered; `C13_static_save_restore_mirror`; `C13_static_backup_free`
      (ii) `C13_static_sp_aligned`  every SP-writing instruction of the ROUTINE moves SP by a multiple of
                               16 (`spAligned routine`), `C13_static_call_aligned`: the static displacement
                               of SP from the routine entry to every call site is a multiple of 16;
                               `C13_static_balanced`: it is 0 at the final RET
      (iii) `C13_static_routine`    routine = head ++ body ++ cleanup; setup stores X19/X20 … X29/X30 with
                               pre-index −16, cleanup loads the same pairs in reverse order with post-index
                               +16; `C13_static_spill_area`: the SP-relative operands of plain instructions
                               lie in the 2048 bytes that setup reserves
      (iv) `C13_static_sp_writers`  an instruction of the body that writes SP (or is BL / RET / STP / LDP)
                               lies inside a print block.  X29 / X30 (logical 28 / 29) are ORDINARY variable
                               registers of this backend between setup and cleanup; `BL` clobbers X30, which
                               is why the block saves it when it is live.
  * WHOLE PROGRAMS, DYNAMIC, INTEGER PROGRAMS (Scc/A64/CCProofsFrame.lean, CCProofsSeg.lean,
    CCProofsRun.lean, CCProofsLayout.lean):
      `C13_cc_never_fires_int`  THE CALLING-CONVENTION MONITOR NEVER FIRES: for all arguments, ALL fuel,
                               every monitor configuration, the machine on the program LAID OUT (`layout`)
                               from the lines of the routine never ends in `cc-violation`, `misaligned-call`
                               or `misaligned-sp` (`CCSafe`); the loader is covered (`holds_layout`);
                               `C13_cc_never_fires_int_text`: the same for `run text` for any text that
                               parses to the lines of the routine (`Lines`; the parser ∘ printer round trip
                               is the only part not proved).  No typing or definedness hypothesis is used.
    WHAT REMAINS of `C13_statement`: programs with heap statements (needs the heap invariant of Theorem
    A∘B: a store through a register other than SP could otherwise reach the save area); "nothing
    undefined is read" for all runs (needs the value simulation); the parser round trip.
  No `bv_decide`, no `native_decide`.
-/
import Scc.A64.Prologue
import Scc.A64.PrintLemmas
import Scc.A64.CCProofsLayout
import Scc.Backend.ProofsShapeInt

set_option linter.unusedSimpArgs false

namespace Scc.A64
open Scc.AxCut

/-! ## The full statement (not proved) -/

/-- C13 for whole programs: every run of a compiled routine from the AAPCS64 entry state either ends
in `done` (so: callee-saved registers and SP restored, result in X0, every call and SP-based access
aligned, nothing undefined read) or runs out of fuel — never a fault or a `cc` violation —
whenever the AxCut machine does not get stuck. -/
def C13_statement : Prop :=
  ∀ (p : AxCut.Prog) (args : List (BitVec 64)) (body routine : List Code) (nargs : Nat),
    compileProg a64Backend p false 0 = .ok (body, nargs, routine) → args.length = nargs →
    ∀ fuel cfg, match (run (printProg routine) args fuel cfg).res with
      | .done _ | .outOfFuel => True
      | .fault why _ => why = "div-by-zero" ∨ why = "div-overflow"
      | _ => False

/-! ## Prologue / epilogue -/

theorem C13_prologue_epilogue {c : MemCfg} (hm : MemOk c) (n : Nat) (hn : n ≤ 7) (σ0 : State) (S0 : Nat)
    (hS : σ0.sp.toNat = S0) (hal : S0 % 16 = 0) (hlo : c.stackLow + 96 + 2048 ≤ S0) (hhi : S0 ≤ c.stackTop)
    (h : Word) (h0 : σ0.reg 0 = some h) :
    ∃ codes σ1, setup n = .ok codes ∧ execCodes c codes σ0 = .ok σ1 ∧ SetupPost σ0 σ1 S0 n h ∧
      ∀ σ2 : State, σ2.sp = σ1.sp → (∀ a, S0 - 96 ≤ a → a < S0 → σ2.slot a = σ1.slot a) →
        ∃ σ3, execCodes c cleanup.dropLast σ2 = .ok σ3 ∧ σ3.sp = σ0.sp ∧
          (∀ m : Fin 31, 19 ≤ m.val → σ3.reg m = σ0.reg m) ∧
          (∀ m : Fin 31, m.val < 19 → σ3.reg m = σ2.reg m) ∧ σ3.heap = σ2.heap :=
  prologue_epilogue hm n hn σ0 S0 hS hal hlo hhi h h0

/-- the instruction after `cleanup.dropLast` is `RET`, and in a state that agrees with the entry
state on SP and X19–X30 and has a defined X0 the machine's exit checks succeed -/
theorem C13_exit_check (c : MemCfg) (args : List Word) (σ3 : State) (v : Word)
    (hsp : σ3.sp = (entryState c args).sp)
    (hregs : ∀ m : Fin 31, 19 ≤ m.val → σ3.reg m = (entryState c args).reg m)
    (h0 : σ3.reg 0 = some v) :
    cleanup.getLast? = some .RET ∧ exitCheck c σ3 = .done v := by
  refine ⟨rfl, ?_⟩
  have hentry : ∀ m : Fin 31, 19 ≤ m.val → (entryState c args).reg m = some (sentinel m.val) := by
    intro m hm
    simp only [entryState, State.reg, Vector.getElem_ofFn]
    have h1 : m ≠ 0 := by intro e; rw [e] at hm; simp at hm
    have h2 : ¬ m.val ≤ 7 := by omega
    simp [h1, h2, hm]
  have h30 : σ3.regs[(30 : Fin 31)] = some (sentinel 30) := by
    have := hregs 30 (by decide); rw [hentry 30 (by decide)] at this; exact this
  have hsp' : σ3.sp = BitVec.ofNat 64 c.stackTop := hsp
  have hall : ∀ k, k < 11 → σ3.regs[19 + k]? = some (some (sentinel (19 + k))) := by
    intro k hk
    have hlt : 19 + k < 31 := by omega
    have := hregs ⟨19 + k, hlt⟩ (by simp)
    rw [hentry ⟨19 + k, hlt⟩ (by simp)] at this
    rw [Vector.getElem?_eq_getElem hlt]
    exact congrArg some this
  have hfind : (List.range 11).find? (fun k => σ3.regs[19 + k]? != some (some (sentinel (19 + k)))) = none := by
    rw [List.find?_eq_none]
    intro k hk
    simp only [List.mem_range] at hk
    simp [hall k hk]
  have h0' : σ3.regs[(0 : Fin 31)] = some v := h0
  simp [exitCheck, h30, hsp', hfind, h0']

/-! ## print -/

/-- the temporaries whose content a `print` must preserve: both temporaries of every variable of
the context, except the first temporary of integers (`ext`), which holds nothing -/
def LiveTemp (ctx : Ctx) (t : Temporary) : Prop :=
  ∃ i b, ctx[i]? = some b ∧
    ((t = .register (.x (2 * i + 5)) ∧ 2 * i + 5 < 30) ∨
     (t = .register (.x (2 * i + 4)) ∧ 2 * i + 4 < 30 ∧ b.chi ≠ .ext) ∨
     (∃ p, t = .spill p ∧ p < SPILL_NUM))

/-- the source temporaries `print_i64` is called with: `variable_temporary(Snd, …)` of a variable of
the context — a register below the first free one, or a spill slot -/
def PrintSource (ctx : Ctx) : Temporary → Prop
  | .register (.x r) => r < 30 ∧ r < 2 * ctx.length + 4
  | .register _ => False
  | .spill p => p < SPILL_NUM

structure PrintPost (σ σ' : State) (ctx : Ctx) : Prop where
  sp : σ'.sp = σ.sp
  heap : σ'.heap = σ.heap
  /-- HEAP and FREE -/
  heapFree : σ'.lreg 0 = σ.lreg 0 ∧ σ'.lreg 1 = σ.lreg 1
  /-- every stack word at or above SP, in particular the whole spill area -/
  stack : ∀ a, σ.sp.toNat ≤ a → σ'.slot a = σ.slot a
  /-- every live register -/
  regs : ∀ r, r < 30 → LiveReg ctx r → σ'.lreg r = σ.lreg r

/-- T4 for a parametrised link-register condition: `lrStrict = false` is the repaired code. -/
theorem print_preserves_G {c : MemCfg} (hm : MemOk c) (lrStrict : Bool) (ctx : Ctx)
    (hlr : lrStrict = true → ctx.length ≠ 13) (nl : Bool) (src : Temporary) (hsrc : PrintSource ctx src)
    (σ : State) (w : Word) (hal : σ.sp.toNat % 16 = 0) (hlo : c.stackLow + 144 ≤ σ.sp.toNat)
    (hhi : σ.sp.toNat + SPILL_SPACE ≤ c.stackTop) (hw : σ.tempVal src = some w) :
    ∃ σ', execCodesOut c (printI64G lrStrict nl src ctx) σ = .ok (σ', [(nl, w)]) ∧ PrintPost σ σ' ctx := by
  have hss : SPILL_SPACE = 2048 := rfl
  cases src with
  | register reg =>
    cases reg with
    | x r =>
      obtain ⟨h1, h2⟩ := hsrc
      have hw' : σ.lreg r = some w := by
        have : σ.tempVal (.register (.x r)) = σ.reg (ar r) := by simp [State.tempVal, xreg_ar h1, State.reg]
        rw [this] at hw; exact hw
      obtain ⟨σ', he, hsp, hheap, habove, hlive⟩ :=
        print_register hm lrStrict ctx hlr nl r h1 h2 σ σ.sp.toNat w rfl hal hlo (by omega) hw'
      exact ⟨σ', he, hsp, hheap, ⟨hlive 0 (by omega) (Or.inl rfl), hlive 1 (by omega) (Or.inr (Or.inl rfl))⟩, habove, hlive⟩
    | sp => exact absurd hsrc (by simp [PrintSource])
    | xzr => exact absurd hsrc (by simp [PrintSource])
  | spill p =>
    obtain ⟨σ', he, hsp, hheap, habove, hlive⟩ :=
      print_spill hm lrStrict ctx hlr nl p hsrc σ σ.sp.toNat w rfl hal hlo hhi hw
    exact ⟨σ', he, hsp, hheap, ⟨hlive 0 (by omega) (Or.inl rfl), hlive 1 (by omega) (Or.inr (Or.inl rfl))⟩, habove, hlive⟩

/-- C13-T4 for the code AS IT IS (`a64Backend.printI64`, condition `first_free_register >=
REGISTER_NUM`): EVERY context. -/
theorem C13_print_preserves {c : MemCfg} (hm : MemOk c) (ctx : Ctx) (nl : Bool) (src : Temporary)
    (hsrc : PrintSource ctx src) (σ : State) (w : Word) (hal : σ.sp.toNat % 16 = 0)
    (hlo : c.stackLow + 144 ≤ σ.sp.toNat) (hhi : σ.sp.toNat + SPILL_SPACE ≤ c.stackTop)
    (hw : σ.tempVal src = some w) :
    ∃ σ', execCodesOut c (printI64 nl src ctx) σ = .ok (σ', [(nl, w)]) ∧ PrintPost σ σ' ctx :=
  print_preserves_G hm false ctx (by intro h; cases h) nl src hsrc σ w hal hlo hhi hw

/-- C13-T4 for the code before repo commit 58adc26 (condition `>`): every context whose length is
not 13 — the hypothesis that the proof attempt forced and that exposed the defect. -/
theorem C13_print_preserves_old {c : MemCfg} (hm : MemOk c) (ctx : Ctx) (h13 : ctx.length ≠ 13) (nl : Bool)
    (src : Temporary) (hsrc : PrintSource ctx src) (σ : State) (w : Word) (hal : σ.sp.toNat % 16 = 0)
    (hlo : c.stackLow + 144 ≤ σ.sp.toNat) (hhi : σ.sp.toNat + SPILL_SPACE ≤ c.stackTop)
    (hw : σ.tempVal src = some w) :
    ∃ σ', execCodesOut c (printI64G true nl src ctx) σ = .ok (σ', [(nl, w)]) ∧ PrintPost σ σ' ctx :=
  print_preserves_G hm true ctx (fun _ => h13) nl src hsrc σ w hal hlo hhi hw

/-- live registers are exactly the registers of live temporaries (plus HEAP and FREE) -/
theorem liveReg_of_liveTemp {ctx : Ctx} {r : Nat} (h : LiveTemp ctx (.register (.x r))) : LiveReg ctx r := by
  obtain ⟨i, b, hb, h | h | ⟨p, h, _⟩⟩ := h
  · have : r = 2 * i + 5 := by simpa using h.1
    exact Or.inr (Or.inr ⟨i, b, hb, Or.inl this⟩)
  · have : r = 2 * i + 4 := by simpa using h.1
    exact Or.inr (Or.inr ⟨i, b, hb, Or.inr ⟨this, h.2.2⟩⟩)
  · cases h

/-! ## The defect at exactly 13 variables -/

/-- thirteen integer variables -/
def ctx13 : Ctx := (List.range 13).map fun i => ⟨⟨"x", i + 1⟩, .ext, .i64⟩

/-- DEFECT WITNESS for the code before repo commit 58adc26 (`a64BackendOld`; code.rs
`caller_save_registers_info` with `first_free_register > REGISTER_NUM`):
with exactly 13 variables, variable 12 (an integer) has its value in logical register 29 = X30, the
link register.  It is live (`LiveReg ctx13 29`), `print_i64` of variable 0 succeeds, and afterwards
X30 is UNDEFINED on the machine model (on hardware: the return address of the `BL`). -/
theorem C13_a64_lr_witness {c : MemCfg} (hm : MemOk c) (nl : Bool) (σ : State) (w v : Word)
    (hal : σ.sp.toNat % 16 = 0) (hlo : c.stackLow + 144 ≤ σ.sp.toNat) (hhi : σ.sp.toNat ≤ c.stackTop)
    (hw : σ.lreg 5 = some w) (_hv : σ.lreg 29 = some v) :
    LiveReg ctx13 29 ∧
    ∃ σ', execCodesOut c (a64BackendOld.printI64 nl (.register (.x 5)) ctx13 |>.run 0 |> fun r =>
        match r with | .ok (cs, _) => cs | .error _ => []) σ = .ok (σ', [(nl, w)]) ∧ σ'.lreg 29 = none := by
  refine ⟨Or.inr (Or.inr ⟨12, ⟨⟨"x", 13⟩, .ext, .i64⟩, rfl, Or.inl rfl⟩), ?_⟩
  obtain ⟨σ', he, hpost⟩ := print_register_exec hm true ctx13 nl 5 (by decide) (by decide) σ σ.sp.toNat w rfl hal hlo hhi hw
  refine ⟨σ', he, ?_⟩
  have hregs : (callerSaveRegistersInfoG true ctx13).2 = [0, 1, 5, 7, 9, 11, 13, 15, 17] := by decide
  apply hpost.clobbered (ar 29) (Or.inr (by decide))
  rw [hregs]
  intro r hr
  simp only [List.mem_cons, List.not_mem_nil, or_false] at hr
  rcases hr with rfl | rfl | rfl | rfl | rfl | rfl | rfl | rfl | rfl <;> decide

/-! ## SP moves in multiples of 16 -/

/-- the amount by which an instruction changes SP (`none`: it does not write SP) -/
def Code.spDelta : Code → Option Int
  | .ADDI .sp .sp i => some i
  | .SUBI .sp .sp i => some (-i)
  | .STP_PRE_INDEX _ _ .sp i => some i
  | .LDP_POST_INDEX _ _ .sp i => some i
  | .ADDI .sp _ _ | .SUBI .sp _ _ | .ADD .sp _ _ | .SUB .sp _ _ | .MUL .sp _ _ | .SDIV .sp _ _
  | .MSUB .sp _ _ _ | .MOVR .sp _ | .MOVZ .sp _ _ | .MOVN .sp _ _ | .MOVK .sp _ _ | .LDR .sp _ _
  | .ADR .sp _ => some 1   -- an arbitrary write to SP: not a multiple of 16
  | _ => none

/-- every instruction of the list that writes SP moves it by a multiple of 16 -/
def spAligned (cs : List Code) : Bool :=
  cs.all fun code => match code.spDelta with
    | some d => d % 16 == 0
    | none => true

theorem spAligned_append (a b : List Code) : spAligned (a ++ b) = (spAligned a && spAligned b) := by
  simp [spAligned, List.all_append]

theorem spAligned_setup : ∀ n, n ≤ 7 → ∃ codes, setup n = .ok codes ∧ spAligned codes = true := by
  intro n hn
  have hcases : n = 0 ∨ n = 1 ∨ n = 2 ∨ n = 3 ∨ n = 4 ∨ n = 5 ∨ n = 6 ∨ n = 7 := by omega
  rcases hcases with rfl | rfl | rfl | rfl | rfl | rfl | rfl | rfl <;> exact ⟨_, rfl, by decide⟩

theorem spAligned_cleanup : spAligned cleanup = true := by decide

theorem spAligned_moveCodes (pairs : List (Nat × Nat)) : spAligned (moveCodes pairs) = true := by
  simp [spAligned, moveCodes, Code.spDelta]

theorem spAligned_strCodes (items : List (Nat × Int)) : spAligned (strCodes items) = true := by
  simp [spAligned, strCodes, Code.spDelta]

theorem spAligned_ldrCodes (items : List (Nat × Int)) : spAligned (ldrCodes items) = true := by
  simp [spAligned, ldrCodes, Code.spDelta]

/-- C13-T3 (`print_alignment`): for EVERY context the code of `print_i64` moves SP only by multiples
of 16 (the parity argument on `registers_to_save − backup_registers_used`), so SP stays 16-aligned
at the call and at every SP-based access. -/
theorem C13_sp_moves_aligned_print (lrStrict nl : Bool) (src : Temporary) (ctx : Ctx) :
    spAligned (printI64G lrStrict nl src ctx) = true := by
  have hpar : ∀ fb regs, address (pushedCount fb regs) % 16 = 0 ∧ (-(address (pushedCount fb regs))) % 16 = 0 := by
    intro fb regs
    obtain ⟨_, _, h⟩ := roundEven_props (regs.length - backupUsed fb regs)
    have : pushedCount fb regs = roundEven (regs.length - backupUsed fb regs) := rfl
    rw [address_eq, this]; omega
  have hsave : ∀ fb regs, spAligned (saveCallerSaveRegisters fb regs) = true := by
    intro fb regs
    rw [save_decompose, spAligned_append, spAligned_moveCodes]
    split
    · rw [spAligned_append, spAligned_strCodes]
      simp [spAligned, Code.spDelta, (hpar fb regs).2]
    · rfl
  have hrest : ∀ fb regs, spAligned (restoreCallerSaveRegisters fb regs) = true := by
    intro fb regs
    rw [restore_decompose, spAligned_append, spAligned_moveCodes]
    split
    · rw [spAligned_append, spAligned_ldrCodes]
      simp [spAligned, Code.spDelta, (hpar fb regs).1]
    · rfl
  unfold printI64G
  simp only [spAligned_append, hsave, hrest, Bool.and_true]
  cases src with
  | register r => cases r <;> simp [spAligned, Code.spDelta]
  | spill p => simp [spAligned, Code.spDelta, moveToRegister, TEMP]

/-- … and so do `setup` and `cleanup` -/
theorem C13_sp_moves_aligned :
    (∀ n, n ≤ 7 → ∃ codes, setup n = .ok codes ∧ spAligned codes = true) ∧ spAligned cleanup = true ∧
    (∀ lrStrict nl src ctx, spAligned (printI64G lrStrict nl src ctx) = true) :=
  ⟨spAligned_setup, spAligned_cleanup, C13_sp_moves_aligned_print⟩

/-- executing an SP-aligned instruction keeps SP 16-aligned (for the two forms that occur) -/
theorem sp_stays_aligned_addi (c : MemCfg) (σ σ' : State) (i : Int) (hi : i % 16 = 0)
    (hal : σ.sp.toNat % 16 = 0) (h : Instr.exec c (.addi .sp .sp i) σ = .ok σ') : σ'.sp.toNat % 16 = 0 := by
  simp only [Instr.exec] at h
  split at h
  · simp only [State.rdS, State.wrS, Except_bind_ok, Except.ok.injEq] at h
    subst h
    simp only [imm, BitVec.toNat_add, BitVec.toNat_ofInt]
    have h64 : (2:Nat)^64 = 18446744073709551616 := by decide
    simp only [h64]
    omega
  · cases h

/-! ## Non-vacuity -/

/-- a memory layout and a state satisfying the hypotheses of the print theorems -/
theorem defaultMem_ok : MemOk defaultMem := ⟨by decide, by decide⟩

def exStatePrint : State :=
  { regs := Vector.replicate 31 none, sp := BitVec.ofNat 64 (defaultMem.stackTop - 96 - 2048), flags := none,
    heap := ∅, stack := ∅, maxHeap := 0 }

example : ∃ σ', execCodesOut defaultMem (printI64 true (.register (.x 5)) ctx13)
    (exStatePrint.setReg (ar 5) (some 42)) = .ok (σ', [(true, 42)]) ∧
    PrintPost (exStatePrint.setReg (ar 5) (some 42)) σ' ctx13 :=
  C13_print_preserves defaultMem_ok ctx13 true (.register (.x 5)) (by constructor <;> decide)
    (exStatePrint.setReg (ar 5) (some 42)) 42 (by decide) (by decide) (by decide)
    (by simp [State.tempVal, xreg_ar, State.reg, State.setReg])

/-! ## WHOLE PROGRAMS: static (text-level) facts — every program the compiler accepts -/

open Scc.Backend.Shape (IntProgC intProgC_of_intProg)
open Scc.Props.C06Generic (IntProg)

/-- SHAPE: plain instructions and whole print blocks -/
theorem C13_static_shape {p : AxCut.Prog} {hooks : Bool} {c0 : Nat} {body routine : List Code} {nargs : Nat}
    (h : compileProg a64Backend p hooks c0 = .ok (body, nargs, routine)) : CCShape plainCC body :=
  (compile_ccShape h).1

theorem C13_plain_spec {code : Code} (h : plainCC code = true) :
    isStackOp code = false ∧ Register.sp ∉ codeWrites code ∧
      ∀ bi ∈ codeMems code, bi.1 = .sp → slotOK bi.2 = true := plainCC_spec h

/-- (i) every call site is the call of a print block of ONE context -/
theorem C13_static_call_sites {p : AxCut.Prog} {hooks : Bool} {c0 : Nat} {body routine : List Code}
    {nargs : Nat} (h : compileProg a64Backend p hooks c0 = .ok (body, nargs, routine))
    {pre post : List Code} {f : String} (e : body = pre ++ Code.BL f :: post) :
    ∃ pre' nl t ctx post', PrintSrc ctx t ∧ CCShape plainCC pre' ∧ CCShape plainCC post' ∧
      f = printFn nl ∧ pre = pre' ++ blockBefore t ctx ∧ post = blockAfter ctx ++ post' :=
  ccShape_call_site (compile_ccShape h).1 e

/-- (i) the saved registers are EXACTLY the live caller-saved registers (X0…X17, X30), for EVERY
context — in particular for 13 variables, where the link register holds a variable -/
theorem C13_static_saved_exact (ctx : Ctx) (r : Nat) :
    r ∈ (callerSaveRegistersInfo ctx).2 ↔ ((r ≤ 17 ∨ r = 29) ∧ LiveReg ctx r) := mem_callerSave_iff ctx r

/-- (i) the restore sequence is the save sequence undone -/
theorem C13_static_save_restore_mirror (fb : Nat) (regs : List Nat) :
    saveCallerSaveRegisters fb regs =
      moveCodes (saveMoves fb regs) ++
        (if regs.length - backupUsed fb regs > 0 then
          [.SUBI .sp .sp (address (pushedCount fb regs))] ++ strCodes (pushItems fb regs) else []) ∧
    restoreCallerSaveRegisters fb regs =
      moveCodes ((saveMoves fb regs).map fun p => (p.2, p.1)) ++
        (if regs.length - backupUsed fb regs > 0 then
          ldrCodes (pushItems fb regs).reverse ++ [.ADDI .sp .sp (address (pushedCount fb regs))] else []) ∧
    (saveMoves fb regs).map (·.2) ++ (pushItems fb regs).map (·.1) = regs :=
  save_restore_mirror fb regs

/-- (i) the backup registers are free callee-saved registers X19…X29 -/
theorem C13_static_backup_free (ctx : Ctx) :
    ∀ p ∈ saveMoves (callerSaveRegistersInfo ctx).1 (callerSaveRegistersInfo ctx).2,
      18 ≤ p.1 ∧ p.1 ≤ 28 ∧ 2 * ctx.length + 4 ≤ p.1 := backupRegs_free ctx

/-- (ii) alignment at every call site of the routine -/
theorem C13_static_call_aligned {p : AxCut.Prog} {hooks : Bool} {c0 : Nat} {body routine : List Code}
    {nargs : Nat} (h : compileProg a64Backend p hooks c0 = .ok (body, nargs, routine))
    {pre post : List Code} {f : String} (e : routine = pre ++ Code.BL f :: post) : spSum pre % 16 = 0 :=
  routine_call_aligned (compile_ccShape h).1 (compile_ccShape h).2 e

theorem spDelta_none_of_plain {code : Code} (h : plainCC code = true) : code.spDelta = none := by
  obtain ⟨hso, hw, hsl⟩ := plainCC_spec h
  have key : ∀ x : Register, x ∈ codeWrites code → x ≠ .sp := fun x hx e => hw (e ▸ hx)
  cases code <;> simp only [isStackOp] at hso <;> (try rfl) <;> (try (cases hso; done))
  case ADD x y z => cases x <;> first | rfl | exact absurd rfl (key .sp (by simp [codeWrites]))
  case ADDI x y i => cases x <;> first | rfl | exact absurd rfl (key .sp (by simp [codeWrites]))
  case SUB x y z => cases x <;> first | rfl | exact absurd rfl (key .sp (by simp [codeWrites]))
  case SUBI x y i => cases x <;> first | rfl | exact absurd rfl (key .sp (by simp [codeWrites]))
  case MUL x y z => cases x <;> first | rfl | exact absurd rfl (key .sp (by simp [codeWrites]))
  case SDIV x y z => cases x <;> first | rfl | exact absurd rfl (key .sp (by simp [codeWrites]))
  case MSUB x y z v => cases x <;> first | rfl | exact absurd rfl (key .sp (by simp [codeWrites]))
  case ADR x l => cases x <;> first | rfl | exact absurd rfl (key .sp (by simp [codeWrites]))
  case MOVR x y => cases x <;> first | rfl | exact absurd rfl (key .sp (by simp [codeWrites]))
  case MOVZ x i s => cases x <;> first | rfl | exact absurd rfl (key .sp (by simp [codeWrites]))
  case MOVN x i s => cases x <;> first | rfl | exact absurd rfl (key .sp (by simp [codeWrites]))
  case MOVK x i s => cases x <;> first | rfl | exact absurd rfl (key .sp (by simp [codeWrites]))
  case LDR x b i => cases x <;> first | rfl | exact absurd rfl (key .sp (by simp [codeWrites]))

theorem spAligned_ccShape {body : List Code} (h : CCShape plainCC body) : spAligned body = true := by
  induction h with
  | nil => rfl
  | @plain c rest hc _ ih =>
    have : spAligned (c :: rest) = (spAligned [c] && spAligned rest) := spAligned_append [c] rest
    rw [this, ih, Bool.and_true]
    simp [spAligned, spDelta_none_of_plain hc]
  | print _ _ ih =>
    rw [spAligned_append, ih, Bool.and_true]
    exact C13_sp_moves_aligned_print false _ _ _

/-- (ii) every SP-writing instruction of the ROUTINE moves SP by a multiple of 16: with the AAPCS64 entry
condition SP is 16-aligned at every call and at every SP-based access -/
theorem C13_static_sp_aligned {p : AxCut.Prog} {hooks : Bool} {c0 : Nat} {body routine : List Code}
    {nargs : Nat} (h : compileProg a64Backend p hooks c0 = .ok (body, nargs, routine)) :
    spAligned routine = true := by
  obtain ⟨hb, hr⟩ := compile_ccShape h
  obtain ⟨su, hsu, hrt⟩ := routine_anatomy hr
  obtain ⟨moves, hm, _⟩ := setup_eq hsu
  have hn := CC.moveArguments_le nargs moves hm
  obtain ⟨codes, hc, hal⟩ := spAligned_setup nargs hn
  rw [hsu] at hc; cases hc
  rw [hrt]
  simp only [routineHead, spAligned_append, hal, spAligned_ccShape hb, spAligned_cleanup, Bool.and_true]
  rfl

/-- (ii)/(iii) the routine is balanced -/
theorem C13_static_balanced {p : AxCut.Prog} {hooks : Bool} {c0 : Nat} {body routine : List Code}
    {nargs : Nat} (h : compileProg a64Backend p hooks c0 = .ok (body, nargs, routine)) :
    spSum routine.dropLast = 0 ∧ routine.getLast? = some Code.RET :=
  routine_balanced (compile_ccShape h).1 (compile_ccShape h).2

/-- (iii) anatomy of the routine and pairing of setup and cleanup -/
theorem C13_static_routine {body routine : List Code} {n : Nat} (h : intoRoutine body n = .ok routine) :
    (∃ su moves, setup n = .ok su ∧ moveArguments n = .ok moves ∧ su = setupPushes ++ moves ++ setupTail ∧
      routine = routineHead su ++ body ++ cleanup) ∧
    setupPushes = [Code.COMMENT "setup", Code.COMMENT "save registers"] ++
      ([(18, 19), (20, 21), (22, 23), (24, 25), (26, 27), (28, 29)].map fun (p : Nat × Nat) =>
        Code.STP_PRE_INDEX (.x p.1) (.x p.2) .sp (-16)) ++
      [Code.COMMENT "reserve space for register spills", Code.SUBI .sp .sp 2048] ∧
    cleanup = [Code.LAB "cleanup", Code.COMMENT "free space for register spills", Code.ADDI .sp .sp 2048,
        Code.COMMENT "restore registers"] ++
      ([(18, 19), (20, 21), (22, 23), (24, 25), (26, 27), (28, 29)].reverse.map fun (p : Nat × Nat) =>
        Code.LDP_POST_INDEX (.x p.1) (.x p.2) .sp 16) ++ [Code.RET] := by
  obtain ⟨su, hsu, hr⟩ := routine_anatomy h
  obtain ⟨moves, hm, he⟩ := setup_eq hsu
  exact ⟨⟨su, moves, hsu, hm, he, hr⟩, setup_cleanup_pairing⟩

/-- (iii) SP-relative operands: inside the spill area, or part of a print block -/
theorem C13_static_spill_area {p : AxCut.Prog} {hooks : Bool} {c0 : Nat} {body routine : List Code}
    {nargs : Nat} (h : compileProg a64Backend p hooks c0 = .ok (body, nargs, routine)) (k : Nat) (code : Code)
    (hk : body[k]? = some code) :
    spillRefsOK code = true ∨ ∃ j nl t ctx, PrintSrc ctx t ∧ j ≤ k ∧ k < j + (printI64 nl t ctx).length ∧
      (body.drop j).take (printI64 nl t ctx).length = printI64 nl t ctx :=
  ccShape_spill_refs (compile_ccShape h).1 k code hk

/-- (iv) whatever writes SP (or is BL / RET / STP / LDP) in the body is part of a print block -/
theorem C13_static_sp_writers {p : AxCut.Prog} {hooks : Bool} {c0 : Nat} {body routine : List Code}
    {nargs : Nat} (h : compileProg a64Backend p hooks c0 = .ok (body, nargs, routine)) (k : Nat) (code : Code)
    (hk : body[k]? = some code) (hw : isStackOp code = true ∨ Register.sp ∈ codeWrites code) :
    ∃ j nl t ctx, PrintSrc ctx t ∧ j ≤ k ∧ k < j + (printI64 nl t ctx).length ∧
      (body.drop j).take (printI64 nl t ctx).length = printI64 nl t ctx := by
  apply ccShape_nonplain_in_block (compile_ccShape h).1 k code hk
  cases hp : plainCC code with
  | false => rfl
  | true =>
    obtain ⟨h1, h2, _⟩ := plainCC_spec hp
    rcases hw with hw | hw
    · rw [h1] at hw; cases hw
    · exact absurd hw h2

/-! ## WHOLE PROGRAMS: dynamic — the calling-convention monitor never fires (integer programs) -/

open Scc.A64.CC (CCSafe CfgCC cfgCC_default Lines)

/-- C13 (b) for INTEGER PROGRAMS, every run of the program laid out from the lines of the routine: the
result is never a report of the calling-convention monitor (`cc-violation`, `misaligned-call`,
`misaligned-sp`) -/
theorem C13_cc_never_fires_int (p : AxCut.Prog) (htp : LinTypedProg p) (hip : IntProg p) (hooks : Bool)
    (c0 : Nat) (body routine : List Code) (nargs : Nat)
    (hc : compileProg a64Backend p hooks c0 = .ok (body, nargs, routine)) (cfg : MonCfg) (H : CfgCC cfg.mem)
    (hkv : String → Option (List (String × Kind))) (ls : List (Nat × PLine)) (hl : Lines hkv ls routine)
    (args : List Word) (fuel : Nat) :
    CCSafe (runProg (layout ls) args fuel cfg).res :=
  CC.cc_safe_layout (intProgC_of_intProg hip htp) hc cfg H hkv ls hl args fuel

/-- … on the TEXT, for any text that parses to the lines of the routine (monitor `wf` off) -/
theorem C13_cc_never_fires_int_text (p : AxCut.Prog) (htp : LinTypedProg p) (hip : IntProg p) (hooks : Bool)
    (c0 : Nat) (body routine : List Code) (nargs : Nat)
    (hc : compileProg a64Backend p hooks c0 = .ok (body, nargs, routine)) (cfg : MonCfg) (H : CfgCC cfg.mem)
    (hwf : cfg.wf = false) (hkv : String → Option (List (String × Kind))) (text : String)
    (ls : List (Nat × PLine)) (hparse : parseText text = .ok ls) (hl : Lines hkv ls routine)
    (args : List Word) (fuel : Nat) :
    CCSafe (run text args fuel cfg).res :=
  CC.cc_safe_run (intProgC_of_intProg hip htp) hc cfg H hwf hkv hparse hl args fuel

/-! ## Non-vacuity of the whole-program theorems: a counting loop (a `println`, an `ifc`, arithmetic, a
substitution and a `call` back to the entry) -/

/-- `main(n, acc) { if n <= 0 { println acc; exit acc } else { one <- 1; n' <- n - one; acc' <- acc + n;
      subst (n := n')(acc := acc'); main(...) } }` -/
def C13_loopDef : Def :=
  { name := ⟨"main", 0⟩, ctx := [⟨⟨"n", 1⟩, .ext, .i64⟩, ⟨⟨"acc", 2⟩, .ext, .i64⟩],
    body := .ifc .le ⟨"n", 1⟩ none
      (.print true ⟨"acc", 2⟩ (.exit ⟨"acc", 2⟩) none)
      (.lit ⟨"one", 3⟩ 1 (.op ⟨"n", 4⟩ ⟨"n", 1⟩ .sub ⟨"one", 3⟩ (.op ⟨"acc", 5⟩ ⟨"acc", 2⟩ .sum ⟨"n", 1⟩
        (.subst [(⟨⟨"n", 4⟩, .ext, .i64⟩, ⟨"n", 4⟩), (⟨⟨"acc", 5⟩, .ext, .i64⟩, ⟨"acc", 5⟩)]
          (.call ⟨"main", 0⟩ [])) none) none) none) }

def C13_loopProg : AxCut.Prog := { defs := [C13_loopDef], types := [], maxId := 5 }

theorem C13_loopProg_int : IntProg C13_loopProg := by
  intro d hd
  simp only [C13_loopProg, List.mem_singleton] at hd
  subst hd
  refine ⟨?_, ?_⟩
  · intro b hb
    simp only [C13_loopDef, List.mem_cons, List.not_mem_nil, or_false] at hb
    rcases hb with rfl | rfl <;> rfl
  · simp [C13_loopDef, Scc.Props.C06Generic.IntStmt]

/-- the lines of a routine whose instructions all exist (no `#ctx` hook recognised) -/
def C13_linesOf (routine : List Code) : List (Nat × PLine) :=
  routine.filterMap fun c => (CC.lineOf (fun _ => none) c).map fun pl => (0, pl)

theorem C13_lines_of_all {routine : List Code}
    (h : ∀ c ∈ routine, (CC.lineOf (fun _ => none) c).isSome = true) :
    Lines (fun _ => none) (C13_linesOf routine) routine := by
  induction routine with
  | nil => exact .nil
  | cons c rest ih =>
    obtain ⟨pl, hpl⟩ := Option.isSome_iff_exists.1 (h c (by simp))
    have : C13_linesOf (c :: rest) = (0, pl) :: C13_linesOf rest := by
      simp [C13_linesOf, hpl]
    rw [this]
    exact .code 0 hpl (ih fun c' hc' => h c' (by simp [hc']))

/-- the loop compiles, its body has the shape, its routine moves SP only by multiples of 16 -/
example : ∃ body routine, compileProg a64Backend C13_loopProg true 0 = .ok (body, 2, routine) ∧
    CCShape plainCC body ∧ spAligned routine = true ∧ spSum routine.dropLast = 0 := by
  have hok : ∃ r, compileProg a64Backend C13_loopProg true 0 = .ok r := ⟨_, rfl⟩
  obtain ⟨⟨body, nargs, routine⟩, hcomp⟩ := hok
  have hnargs : nargs = 2 := by
    have : compileProg a64Backend C13_loopProg true 0 =
        .ok ((compileProg a64Backend C13_loopProg true 0 |>.toOption.getD ([], 0, [])).1, 2,
          (compileProg a64Backend C13_loopProg true 0 |>.toOption.getD ([], 0, [])).2.2) := rfl
    rw [hcomp] at this
    injection this with this
    injection this with _ this
    injection this
  subst hnargs
  exact ⟨body, routine, hcomp, C13_static_shape hcomp, C13_static_sp_aligned hcomp,
    (C13_static_balanced hcomp).1⟩

/-- … and on the program laid out from its routine the calling-convention monitor never fires, for ALL
arguments and ALL fuel -/
example : ∃ routine : List Code, ∀ (args : List Word) (fuel : Nat),
    CCSafe (runProg (layout (C13_linesOf routine)) args fuel {}).res := by
  have hok : ∃ r, compileProg a64Backend C13_loopProg true 0 = .ok r := ⟨_, rfl⟩
  obtain ⟨⟨body, nargs, routine⟩, hcomp⟩ := hok
  have hall : ∀ c ∈ routine, (CC.lineOf (fun _ => none) c).isSome = true := by
    have : routine = (compileProg a64Backend C13_loopProg true 0 |>.toOption.getD ([], 0, [])).2.2 := by
      rw [hcomp]; rfl
    rw [this]
    decide
  exact ⟨routine, fun args fuel => C13_cc_never_fires_int C13_loopProg
    (linTypedCheck_sound C13_loopProg rfl) C13_loopProg_int true 0 body routine nargs hcomp {} cfgCC_default
    _ _ (C13_lines_of_all hall) args fuel⟩

#print axioms C13_static_shape
#print axioms C13_static_call_sites
#print axioms C13_static_saved_exact
#print axioms C13_static_call_aligned
#print axioms C13_static_sp_aligned
#print axioms C13_static_balanced
#print axioms C13_static_routine
#print axioms C13_static_spill_area
#print axioms C13_static_sp_writers
#print axioms C13_cc_never_fires_int
#print axioms C13_cc_never_fires_int_text
#print axioms C13_prologue_epilogue
#print axioms C13_exit_check
#print axioms C13_print_preserves
#print axioms C13_print_preserves_old
#print axioms C13_a64_lr_witness
#print axioms C13_sp_moves_aligned

end Scc.A64
