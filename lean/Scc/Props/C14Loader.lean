/-
  Scc.Props.C14Loader — THE LOADER ROUND TRIP (a C14 fact: the emitted text is well-formed assembly that
  the machine's parser reads back as the emitted items).

  PROVED (for ALL routines, no evaluation):
    `C14_splitLines`            `Str.splitLines s = s.splitOn "\n"`: the legacy `String.splitOn`, which has no
                                lemmas in core and does not reduce in the kernel, characterised from its
                                implementation (`String.splitOnAux`) for every string and every one-character
                                separator (`Str.splitOn_singleton`); `C14_splitOn_intercalate`: splitting the
                                `intercalate` of newline-free lines gives the lines back.
    `C14_parseLine_printCode`   per item: `parseLine (printCode c) = some (some c)` for every constructor of
                                `X86.Code` except `LAB` (two lines, `C14_label_lines`) and `COMMENT` (text
                                trimmed, `C14_comment_line`), all operand forms.
    `C14_loader` = `C06_loader_statement` AS A THEOREM: every routine whose items pass `codeTextOK` loads
                                (`TextLoads`); `C14_loader_exact`: without comments the items are read back
                                exactly.
    `C14_textLoadsB_complete`   the executable check `C01_textLoadsB` is TRUE on every text-safe routine
                                (its soundness is `C01_textLoadsB_sound`, Props/C01.lean).
  Proofs: Scc/StringLemmas.lean, Scc/X86/Loader{Lemmas,Instr,Code,Text}.lean.
-/
import Scc.Props.C06X86
import Scc.Props.C01Checks
import Scc.X86.LoaderText

namespace Scc.X86

open Scc.X86.Loader

/-! ## strings -/

theorem C14_splitLines (s : String) : Scc.Str.splitLines s = s.splitOn "\n" := Scc.Str.splitLines_eq s

theorem C14_splitOn_intercalate (l : String) (ls : List String) (h : ∀ x ∈ l :: ls, '\n' ∉ x.toList) :
    ("\n".intercalate (l :: ls)).splitOn "\n" = l :: ls := Scc.Str.splitOn_newline_intercalate l ls h

example : ("\n".intercalate ["    mov rax, 1", "", "lab0:"]).splitOn "\n" = ["    mov rax, 1", "", "lab0:"] :=
  C14_splitOn_intercalate _ _ (by decide)

/-! ## from the decidable `codeTextOK` to the proof-side `CodeOK` -/

theorem symOKC_of_symOK {s : String} (h : symOK s = true) : symOKC s.toList := by
  simp only [symOK, Bool.and_eq_true, Bool.not_eq_true', List.all_eq_true, bne_iff_ne, ne_eq,
    Option.isNone_iff_eq_none] at h
  obtain ⟨⟨⟨h1, h2⟩, h3⟩, h4⟩ := h
  refine ⟨?_, h2, by rw [String.ofList_toList]; exact h3, h4⟩
  intro e
  have : s = "" := String.toList_eq_nil_iff.1 e
  rw [String.isEmpty_eq_false_iff] at h1
  exact h1 this

theorem codeOK_of_codeTextOK {c : Code} (h : codeTextOK c = true) : CodeOK c := by
  simp only [codeTextOK, Bool.and_eq_true, List.all_eq_true, decide_eq_true_eq] at h
  obtain ⟨⟨⟨h1, h2⟩, h3⟩, h4⟩ := h
  refine ⟨h1, ?_, ?_, ?_, ?_⟩
  · intro l hl; rw [hl] at h3; exact symOKC_of_symOK h3
  · intro l hl; rw [hl] at h2; exact symOKC_of_symOK h2
  · intro f hf; subst hf; exact symOKC_of_symOK h4
  · intro m hm; subst hm
    simp only [List.all_eq_true, bne_iff_ne, ne_eq] at h4
    exact fun hmem => h4 _ hmem rfl

theorem loader_stripC_eq : Loader.stripC = Ref.stripC := by
  funext c
  cases c <;> rfl

/-! ## per item -/

/-- every one-line item (anything but a label or a comment) with text-safe operands is read back
    exactly, and its printed form is a single line -/
theorem C14_parseLine_printCode (c : Code) (h : codeTextOK c = true) (hlab : ∀ l, c ≠ .LAB l)
    (hcom : ∀ m, c ≠ .COMMENT m) :
    parseLine (printCode c) = some (some c) ∧ '\n' ∉ (printCode c).toList :=
  parseLine_printCode c (codeOK_of_codeTextOK h) hlab hcom

/-- a label is printed as an empty line (skipped) and `L:`, which is read back as the label -/
theorem C14_label_lines (l : String) (h : codeTextOK (.LAB l) = true) :
    printCode (.LAB l) = "\n" ++ (l ++ ":") ∧ parseLine "" = none ∧
    parseLine (l ++ ":") = some (some (.LAB l)) ∧ '\n' ∉ (l ++ ":").toList :=
  let r := reads_LAB l (codeOK_of_codeTextOK h)
  ⟨r.1, parseLine_empty, r.2⟩

/-- a comment is one line that is read back as a comment (with its text trimmed) -/
theorem C14_comment_line (m : String) (h : codeTextOK (.COMMENT m) = true) :
    (∃ m', parseLine (printCode (.COMMENT m)) = some (some (.COMMENT m'))) ∧
    '\n' ∉ (printCode (.COMMENT m)).toList :=
  reads_COMMENT m (codeOK_of_codeTextOK h)

example : parseLine (printCode (.ADDIM 0 (-16) (-9223372036854775808))) =
    some (some (.ADDIM 0 (-16) (-9223372036854775808))) :=
  (C14_parseLine_printCode _ (by decide) (fun _ h => by cases h) (fun _ h => by cases h)).1

example : parseLine (printCode (.LEAL 12 "lab7_Cons")) = some (some (.LEAL 12 "lab7_Cons")) :=
  (C14_parseLine_printCode _ (by decide) (fun _ h => by cases h) (fun _ h => by cases h)).1

/-! ## routines -/

/-- **`C06_loader_statement` IS A THEOREM**: the printed text of a routine whose items are text-safe is
    read back by the machine's parser, up to the text of comments -/
theorem C14_loader : C06_loader_statement := by
  intro routine h
  obtain ⟨items, h1, h2⟩ := parseText_printProg routine (fun c hc => codeOK_of_codeTextOK (h c hc))
  rw [loader_stripC_eq] at h2
  exact ⟨items, h1, h2⟩

/-- without comments the items are read back exactly -/
theorem C14_loader_exact (routine : List Code) (h : ∀ code ∈ routine, codeTextOK code = true)
    (hnc : ∀ m, .COMMENT m ∉ routine) :
    ∃ items, parseText (printProg routine) = .ok items ∧ items.map (·.1) = routine :=
  parseText_printProg_exact routine (fun c hc => codeOK_of_codeTextOK (h c hc)) hnc

/-- the executable check of the driver is TRUE on every text-safe routine -/
theorem C14_textLoadsB_complete (routine : List Code) (h : ∀ code ∈ routine, codeTextOK code = true) :
    Scc.Props.C01_textLoadsB routine = true := by
  obtain ⟨items, h1, h2⟩ := parseText_printProg routine (fun c hc => codeOK_of_codeTextOK (h c hc))
  unfold Scc.Props.C01_textLoadsB
  rw [h1]
  have : Scc.Props.C01_stripC = Loader.stripC := by funext c; cases c <;> rfl
  simp only [this, h2, decide_true]

/-- a text-safe routine: prologue directives, a label, instructions of every operand form, a comment -/
def C14_loaderExample : List Code :=
  [.NOEXECSTACK, .TEXT, .EXTERN "println_i64", .GLOBAL "asm_main", .LAB "asm_main", .COMMENT "setup",
   .PUSH 2, .SUBI 0 2048, .MOVI 4 (-9223372036854775808), .MOVIM 0 2040 (-1), .CMPRM 4 0 8,
   .LEAL 5 "lab0", .JMPLN "lab0_Nil", .LAB "lab0", .IDIVM 0 16, .CQO, .JMP 5, .JLEL "cleanup",
   .CALL "println_i64", .LAB "cleanup", .RET]

example : TextLoads C14_loaderExample := C14_loader _ (by decide)

end Scc.X86

#print axioms Scc.X86.C14_splitLines
#print axioms Scc.X86.C14_splitOn_intercalate
#print axioms Scc.X86.C14_parseLine_printCode
#print axioms Scc.X86.C14_label_lines
#print axioms Scc.X86.C14_comment_line
#print axioms Scc.X86.C14_loader
#print axioms Scc.X86.C14_loader_exact
#print axioms Scc.X86.C14_textLoadsB_complete
