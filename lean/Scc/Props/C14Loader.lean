/-
  Scc.Props.C14Loader — THE LOADER ROUND TRIP (a C14 fact: the emitted text is well-formed assembly that
  the machine's parser reads back as the emitted items).

  PROVED (for ALL routines, no evaluation):
    `C14_splitLines`            `Str.splitLines s = s.splitOn "\n"`: the legacy `String.splitOn`, which has no
                                lemmas in core and does not reduce in the kernel, characterised from its
                                implementation (`String.splitOnAux`) for every string and every one-character
                                separator (`Str.splitOn_singleton`); `C14_splitOn_intercalate`: splitting the
                                `intercalate` of newline-free lines gives the lines back.
    `C14_parseLine_printCode`   per item: `parseLine (printCode c) = some (some c)` for every constructor of
                                `X86.Code` except `LAB` (two lines, `C14_label_lines`) and `COMMENT` (text
                                trimmed, `C14_comment_line`), all operand forms.
    `C14_loader` = `C06_loader_statement` AS A THEOREM: every routine whose items pass `codeTextOK` loads
                                (`TextLoads`); `C14_loader_exact`: without comments the items are read back
                                exactly.
    `C14_textLoadsB_complete`   the executable check `C01_textLoadsB` is TRUE on every text-safe routine
                                (its soundness is `C01_textLoadsB_sound`, Props/C01.lean).
    `C14_routine_loads`         EVERY ROUTINE OF THE BACKEND MODEL LOADS: for every program in range
                                (`ProgInRange`) whose names are text-safe (`C14_namesTextSafe`, DECIDABLE, a
                                check on the NAMES of the linearized program only: identifiers consist of
                                symbol characters, type names have no line break, the mangled name of every
                                type a `switch`/`create` dispatches on consists of symbol characters), the
                                routine `intoRoutine (compileX86 p)` satisfies `TextLoads` — for all programs,
                                both hook settings, every counter start, no evaluation of the parser.
                                Through: `C14_routine_textOK` (every item passes `codeTextOK`), which rests on
                                the generic lifting `Loader.post_compileR_names` (which strings the generic
                                generator hands to label / comment methods: `f_`, `Ty_7`, `Ty_7_Cons`, `lab7`,
                                `cleanup`; comments built from names) and on the x86-64 instance
                                `Loader.opsNames_x86` (every backend method, memory methods included).
                                NOTE `LabelSafe` alone does not give it: `LabelSafe` speaks about collisions
                                of names, not about their characters (a definition named `a b` is `LabelSafe`
                                and its label `a b_` does not parse: `C14_names_needed`).
    `C14_wfCheck_items`         the validator `wfCheck` on the text of a backend routine is `wfItems` on items that
                                agree with the routine up to comment text (never `PARSE-ERROR`);
    `C14_routineLoadsB_true`    hence the executable `C01_routineLoadsB` is TRUE without evaluation, and
    `C06_int_programs_loaded`   `C06_int_programs_text` WITHOUT the hypothesis `TextLoads` (Theorem A ∘ B on the
                                text of the routine, for integer programs with text-safe names);
    `C01_intChecks_of_names`    the decidable `C01_intChecks` follows from capacity, `IntProg`, range and the
                                names check (no parser run).
  NOT proved here: that every program the front end accepts has text-safe names at stage 5 (the check
  `C14_namesTextSafe` is evaluated per program; it holds on all 249 accepted programs of /repo and of
  /verif/gen/corpus).
  Proofs: Scc/StringLemmas.lean, Scc/X86/Loader{Lemmas,Instr,Code,Text,Names,X86Names}.lean.
-/
import Scc.Props.C06X86
import Scc.Props.C01Checks
import Scc.X86.LoaderText
import Scc.X86.LoaderX86Names

namespace Scc.X86

open Scc.X86.Loader

/-! ## strings -/

theorem C14_splitLines (s : String) : Scc.Str.splitLines s = s.splitOn "\n" := Scc.Str.splitLines_eq s

theorem C14_splitOn_intercalate (l : String) (ls : List String) (h : ∀ x ∈ l :: ls, '\n' ∉ x.toList) :
    ("\n".intercalate (l :: ls)).splitOn "\n" = l :: ls := Scc.Str.splitOn_newline_intercalate l ls h

example : ("\n".intercalate ["    mov rax, 1", "", "lab0:"]).splitOn "\n" = ["    mov rax, 1", "", "lab0:"] :=
  C14_splitOn_intercalate _ _ (by decide)

/-! ## from the decidable `codeTextOK` to the proof-side `CodeOK` -/

theorem symOKC_of_symOK {s : String} (h : symOK s = true) : symOKC s.toList := by
  simp only [symOK, Bool.and_eq_true, Bool.not_eq_true', List.all_eq_true, bne_iff_ne, ne_eq,
    Option.isNone_iff_eq_none] at h
  obtain ⟨⟨⟨h1, h2⟩, h3⟩, h4⟩ := h
  refine ⟨?_, h2, by rw [String.ofList_toList]; exact h3, h4⟩
  intro e
  have : s = "" := String.toList_eq_nil_iff.1 e
  rw [String.isEmpty_eq_false_iff] at h1
  exact h1 this

theorem codeOK_of_codeTextOK {c : Code} (h : codeTextOK c = true) : CodeOK c := by
  simp only [codeTextOK, Bool.and_eq_true, List.all_eq_true, decide_eq_true_eq] at h
  obtain ⟨⟨⟨h1, h2⟩, h3⟩, h4⟩ := h
  refine ⟨h1, ?_, ?_, ?_, ?_⟩
  · intro l hl; rw [hl] at h3; exact symOKC_of_symOK h3
  · intro l hl; rw [hl] at h2; exact symOKC_of_symOK h2
  · intro f hf; subst hf; exact symOKC_of_symOK h4
  · intro m hm; subst hm
    simp only [List.all_eq_true, bne_iff_ne, ne_eq] at h4
    exact fun hmem => h4 _ hmem rfl

theorem loader_stripC_eq : Loader.stripC = Ref.stripC := by
  funext c
  cases c <;> rfl

/-! ## per item -/

/-- every one-line item (anything but a label or a comment) with text-safe operands is read back
    exactly, and its printed form is a single line -/
theorem C14_parseLine_printCode (c : Code) (h : codeTextOK c = true) (hlab : ∀ l, c ≠ .LAB l)
    (hcom : ∀ m, c ≠ .COMMENT m) :
    parseLine (printCode c) = some (some c) ∧ '\n' ∉ (printCode c).toList :=
  parseLine_printCode c (codeOK_of_codeTextOK h) hlab hcom

/-- a label is printed as an empty line (skipped) and `L:`, which is read back as the label -/
theorem C14_label_lines (l : String) (h : codeTextOK (.LAB l) = true) :
    printCode (.LAB l) = "\n" ++ (l ++ ":") ∧ parseLine "" = none ∧
    parseLine (l ++ ":") = some (some (.LAB l)) ∧ '\n' ∉ (l ++ ":").toList :=
  let r := reads_LAB l (codeOK_of_codeTextOK h)
  ⟨r.1, parseLine_empty, r.2⟩

/-- a comment is one line that is read back as a comment (with its text trimmed) -/
theorem C14_comment_line (m : String) (h : codeTextOK (.COMMENT m) = true) :
    (∃ m', parseLine (printCode (.COMMENT m)) = some (some (.COMMENT m'))) ∧
    '\n' ∉ (printCode (.COMMENT m)).toList :=
  reads_COMMENT m (codeOK_of_codeTextOK h)

example : parseLine (printCode (.ADDIM 0 (-16) (-9223372036854775808))) =
    some (some (.ADDIM 0 (-16) (-9223372036854775808))) :=
  (C14_parseLine_printCode _ (by decide) (fun _ h => by cases h) (fun _ h => by cases h)).1

example : parseLine (printCode (.LEAL 12 "lab7_Cons")) = some (some (.LEAL 12 "lab7_Cons")) :=
  (C14_parseLine_printCode _ (by decide) (fun _ h => by cases h) (fun _ h => by cases h)).1

/-! ## routines -/

/-- **`C06_loader_statement` IS A THEOREM**: the printed text of a routine whose items are text-safe is
    read back by the machine's parser, up to the text of comments -/
theorem C14_loader : C06_loader_statement := by
  intro routine h
  obtain ⟨items, h1, h2⟩ := parseText_printProg routine (fun c hc => codeOK_of_codeTextOK (h c hc))
  rw [loader_stripC_eq] at h2
  exact ⟨items, h1, h2⟩

/-- without comments the items are read back exactly -/
theorem C14_loader_exact (routine : List Code) (h : ∀ code ∈ routine, codeTextOK code = true)
    (hnc : ∀ m, .COMMENT m ∉ routine) :
    ∃ items, parseText (printProg routine) = .ok items ∧ items.map (·.1) = routine :=
  parseText_printProg_exact routine (fun c hc => codeOK_of_codeTextOK (h c hc)) hnc

/-- the executable check of the driver is TRUE on every text-safe routine -/
theorem C14_textLoadsB_complete (routine : List Code) (h : ∀ code ∈ routine, codeTextOK code = true) :
    Scc.Props.C01_textLoadsB routine = true := by
  obtain ⟨items, h1, h2⟩ := parseText_printProg routine (fun c hc => codeOK_of_codeTextOK (h c hc))
  unfold Scc.Props.C01_textLoadsB
  rw [h1]
  have : Scc.Props.C01_stripC = Loader.stripC := by funext c; cases c <;> rfl
  simp only [this, h2, decide_true]

/-- a text-safe routine: prologue directives, a label, instructions of every operand form, a comment -/
def C14_loaderExample : List Code :=
  [.NOEXECSTACK, .TEXT, .EXTERN "println_i64", .GLOBAL "asm_main", .LAB "asm_main", .COMMENT "setup",
   .PUSH 2, .SUBI 0 2048, .MOVI 4 (-9223372036854775808), .MOVIM 0 2040 (-1), .CMPRM 4 0 8,
   .LEAL 5 "lab0", .JMPLN "lab0_Nil", .LAB "lab0", .IDIVM 0 16, .CQO, .JMP 5, .JLEL "cleanup",
   .CALL "println_i64", .LAB "cleanup", .RET]

example : TextLoads C14_loaderExample := C14_loader _ (by decide)


/-! ## every routine of the backend model loads -/

/-- **the decidable hypothesis on the names of the linearized program** (Scc/X86/LoaderNames.lean
    `progNamesOK`, with the symbol characters of the x86-64 loader) -/
def C14_namesTextSafe (p : AxCut.Prog) : Bool := progNamesOK okcX p

theorem codeTextOK_of_codeOK {c : Code} (hr : ∀ r ∈ codeRegs c, r < 16) (hn : nmB c = true) :
    codeTextOK c = true := by
  have hsym : ∀ l, labOKB l = true → symOK l = true := by
    intro l hl
    simp only [labOKB, Bool.and_eq_true, Bool.not_eq_true', List.all_eq_true, Option.isNone_iff_eq_none] at hl
    obtain ⟨⟨⟨h1, h2⟩, h3⟩, h4⟩ := hl
    simp only [symOK, Bool.and_eq_true, Bool.not_eq_true', List.all_eq_true, Option.isNone_iff_eq_none]
    refine ⟨⟨⟨?_, fun c hc => by simpa [okcX] using h2 c hc⟩, h3⟩, h4⟩
    rw [String.isEmpty_eq_false_iff]
    intro e; rw [e] at h1; simp at h1
  simp only [codeTextOK, Bool.and_eq_true, List.all_eq_true, decide_eq_true_eq]
  refine ⟨⟨⟨hr, ?_⟩, ?_⟩, ?_⟩
  · cases c <;> first | rfl | exact hsym _ hn
  · cases c <;> first | rfl | exact hsym _ hn
  · cases c <;> first | rfl | exact hsym _ hn | exact hn

/-- every item of the routine emitted for a program in range with text-safe names passes `codeTextOK` -/
theorem C14_routine_textOK {p : AxCut.Prog} {hooks : Bool} {c0 : Nat} {body routine : List Code} {nargs : Nat}
    (hrange : ProgInRange p) (hnames : C14_namesTextSafe p = true)
    (h : compileX86 p hooks c0 = .ok (body, nargs)) (hr : intoRoutine body nargs = .ok routine) :
    ∀ code ∈ routine, codeTextOK code = true := by
  intro c hc
  have hn := routine_namesOK hnames h hr
  simp only [NmOK, List.all_eq_true] at hn
  exact codeTextOK_of_codeOK (routine_rangesOK hrange h hr c hc).1 (hn c hc)

/-- **EVERY ROUTINE OF THE BACKEND MODEL LOADS** (all programs in range with text-safe names, both hook
    settings, every counter start) -/
theorem C14_routine_loads {p : AxCut.Prog} {hooks : Bool} {c0 : Nat} {body routine : List Code} {nargs : Nat}
    (hrange : ProgInRange p) (hnames : C14_namesTextSafe p = true)
    (h : compileX86 p hooks c0 = .ok (body, nargs)) (hr : intoRoutine body nargs = .ok routine) :
    TextLoads routine :=
  C14_loader routine (C14_routine_textOK hrange hnames h hr)

/-- the C14 validator on the text of a backend routine never ends in `PARSE-ERROR`: it is the item-level
    validator `wfItems` on items that agree with the routine up to the text of comments (the part
    "print → parse round trip of the text" of `C14_statement_refined`, Props/C14X86.lean) -/
theorem C14_wfCheck_items {p : AxCut.Prog} {hooks : Bool} {c0 : Nat} {body routine : List Code} {nargs : Nat}
    (hrange : ProgInRange p) (hnames : C14_namesTextSafe p = true)
    (h : compileX86 p hooks c0 = .ok (body, nargs)) (hr : intoRoutine body nargs = .ok routine) :
    ∃ items, wfCheck (printProg routine) = wfItems items ∧
      (items.map (·.1)).map Ref.stripC = routine.map Ref.stripC := by
  obtain ⟨items, h1, h2⟩ := C14_routine_loads hrange hnames h hr
  exact ⟨items, by unfold wfCheck; rw [h1], h2⟩

/-- the executable per-program check of the driver is true WITHOUT evaluation -/
theorem C14_routineLoadsB_true (hooks : Bool) {q5 : AxCut.Prog} (hrange : ProgInRange q5)
    (hnames : C14_namesTextSafe q5 = true) : Scc.Props.C01_routineLoadsB hooks q5 = true := by
  unfold Scc.Props.C01_routineLoadsB
  split
  · rename_i body nargs hcomp
    split
    · rename_i routine hinto
      exact C14_textLoadsB_complete routine (C14_routine_textOK hrange hnames hcomp hinto)
    · rfl
  · rfl

section
open Scc.AxCut Scc.Backend Scc.Backend.Abs Scc.Backend.Sim Scc.X86.Ref
open Scc.Props.C06Generic (IntProg Reachable WithinCapacity)
open Scc.Props.C14Generic (LabelSafe)

/-- **Theorem A ∘ B on the TEXT of the routine, no loader hypothesis**: `C06_int_programs_text` with
    `TextLoads routine` replaced by the decidable names check -/
theorem C06_int_programs_loaded (p : AxCut.Prog) (args : List Word) (hooks : Bool) (body routine : List Code)
    (nargs : Nat) (d0 : Def)
    (hsafe : LabelSafe p = true) (htp : LinTypedProg p) (hip : IntProg p) (hrange : ProgInRange p)
    (hnames : C14_namesTextSafe p = true)
    (hcompX : compileX86 p hooks 0 = .ok (body, nargs)) (hrout : intoRoutine body nargs = .ok routine)
    (hd : p.defs.head? = some d0)
    (hcap : ∀ st, Reachable p ⟨d0.ctx, args.map .int, d0.body⟩ st → WithinCapacity st.ctx)
    (fuel : Nat) (out : List (Bool × Word)) (v : Word) (hrun : Pos.run p args fuel = ⟨out, .done v⟩)
    (cfg : MonCfg) (MO : MachOK cfg.mach) (hheap : cfg.heap = false) :
    ∃ fuel', (run (printProg routine) args fuel' cfg).out = out ∧
      (run (printProg routine) args fuel' cfg).res = .done v :=
  C06_int_programs_text p args hooks body routine nargs d0 hsafe htp hip hrange hcompX hrout hd hcap fuel out v
    hrun cfg MO hheap (C14_routine_loads hrange hnames hcompX hrout)
end

/-- `LabelSafe` does not imply that the text loads: the program `def "a b"(x : ext i64) { exit x }` is
    label-safe and compiles, its body defines the label `a b_`, which is not a symbol of the loader
    (`#eval`: `parseText` of its routine fails with `error line 28: a b_:`) -/
def C14_badNames : AxCut.Prog := ⟨[⟨⟨"a b", 0⟩, [⟨⟨"x", 1⟩, .ext, .i64⟩], .exit ⟨"x", 1⟩⟩], [], 1⟩

theorem C14_names_needed :
    Scc.Props.C14Generic.LabelSafe C14_badNames = true ∧ C14_namesTextSafe C14_badNames = false ∧
    (match compileX86 C14_badNames true 0 with
     | .ok (body, _) => body.contains (.LAB "a b_")
     | .error _ => false) = true ∧
    codeTextOK (.LAB "a b_") = false := by decide

/-- the names of the counting loop of C06X86 are text-safe -/
example : C14_namesTextSafe C06_loopProg = true := by decide

/-- … so the routine emitted for it (with hooks) loads: every hypothesis of `C14_routine_loads` holds -/
example : ∃ body routine, compileX86 C06_loopProg true 0 = .ok (body, 2) ∧
    intoRoutine body 2 = .ok routine ∧ TextLoads routine := by
  have hok : ∃ r, compileX86 C06_loopProg true 0 = .ok r := ⟨_, rfl⟩
  obtain ⟨⟨body, nargs⟩, hcomp⟩ := hok
  have hnargs : nargs = 2 := by
    have : compileX86 C06_loopProg true 0 = .ok ((compileX86 C06_loopProg true 0 |>.toOption.getD ([], 0)).1, 2) := rfl
    rw [hcomp] at this
    injection this with this
    injection this
  subst hnargs
  have hok2 : ∃ r, intoRoutine body 2 = .ok r := by
    have : ∃ moves, moveArguments 2 = .ok moves := ⟨_, rfl⟩
    obtain ⟨moves, hm⟩ := this
    exact ⟨_, by unfold intoRoutine; rw [setup_eq 2 moves hm]⟩
  obtain ⟨routine, hrout⟩ := hok2
  exact ⟨body, routine, hcomp, hrout, C14_routine_loads C06_loopProg_inRange (by decide) hcomp hrout⟩

end Scc.X86

#print axioms Scc.X86.C14_splitLines
#print axioms Scc.X86.C14_splitOn_intercalate
#print axioms Scc.X86.C14_parseLine_printCode
#print axioms Scc.X86.C14_label_lines
#print axioms Scc.X86.C14_comment_line
#print axioms Scc.X86.C14_loader
#print axioms Scc.X86.C14_loader_exact
#print axioms Scc.X86.C14_textLoadsB_complete
#print axioms Scc.X86.C14_routine_textOK
#print axioms Scc.X86.C14_routine_loads
#print axioms Scc.X86.C14_routineLoadsB_true
#print axioms Scc.X86.C14_wfCheck_items
#print axioms Scc.X86.C06_int_programs_loaded
#print axioms Scc.X86.C14_names_needed
