/-
  Scc.Props.C04 — shrinking focused Core into AxCut (crate core2axcut).

  Property C04 (as given): "For every well-typed focused Core program the AxCut program produced by
  shrinking behaves on the AxCut abstract machine exactly as the Core program behaves on the Core
  machine (output, result, termination). Cuts of a known constructor or destructor against a
  (co)match continue with the selected clause and the right arguments; a cut of two abstractions runs
  the producer first for integers and data and the consumer first for codata; statements lifted to
  new top-level definitions receive exactly their free variables."

  Model: `Scc.Core2AxCut.shrinkProg` (Scc/Core2AxCut/Model.lean), tied to the Rust code (after the
  label-collision repair of `fn lift`: the label is re-drawn while its printed form is the printed
  form of a label in `used_labels`) by exact equality of the S4 dumps (18 repo programs, the 228
  programs of /verif/gen/corpus that reach S3 — among them regress/c14_lifted_name_collision.sc,
  which runs the new loop — and 160 generated programs).
  Target semantics: the named AxCut machine `Scc.AxCut.Named.run` (Scc/AxCut/SemNamed.lean).

  What is proved here about the code as it is:
    * C04_no_panic            (FULL)  on input accepted by the decidable shape typing `wtFsCheck` the
                              pass returns a program: none of the four panic sites (`_Cont` clash, "Xtor
                              not found", "Type not found", "cannot happen") is reached and the
                              model's fuel suffices.
    * C04_lift_free_vars      (FULL)  the definition pushed by `lift` has as parameter list exactly the
                              typed free variables of the lifted statement: the set computed by
                              `typed_free_vars` has no duplicates (unconditionally) and is the scoped
                              free-variable set (on statements with unique binders, the documented
                              precondition of the crate); parameters and call arguments have the same
                              length and order, agree position-wise in name, kind and type; the
                              parameter ids are fresh and pairwise distinct; the body is the image of
                              the statement renamed by exactly that correspondence.
    * C04_lift_label_fresh    (FULL)  the label chosen by `lift` differs in printed form from every
                              label in `used_labels` (the names of all definitions of the program and
                              every label chosen before); over a whole statement `used_labels` grows
                              exactly by the labels of the lifted definitions, whose printed forms are
                              pairwise distinct and distinct from all earlier ones
                              (`C04_labels_fresh_stmt`); the label-drawing loop terminates
                              (`C04_draw_label_terminates`).
    * C14_def_labels_distinct (FULL)  if the definitions of the input program have pairwise distinct
                              printed names, so have the definitions of the output program.
    * C04_wtAxCheck_sound     the checker of the AxCut typing relation `WTax` is sound (it accepts the
                              S4 output of all 40 corpus programs).
  What is only stated (kept as `def … : Prop`):
    * C04_statement           semantic preservation; needs the Core machine (`Scc/Core/Sem.lean`,
                              written by another component), which is a parameter of the statement.
                              Instantiated and PROVED in `Scc/Props/C04Sem.lean` (`C04_sem`) with two
                              further decidable side conditions; without them the instance
                              `C04_full_statement` is false (`C04_full_statement_false`).
    * C04_shrink_typed_statement  typing preservation S3 → S4 (checked on all 40 corpus programs by
                              running `wtFsScopedCheck`, `uniqueIdsCheck` on S3 and `wtAxCheck` on S4).
-/
import Scc.Core2AxCut.Proofs
import Scc.Core2AxCut.FreeVars
import Scc.AxCut.SemNamed
import Scc.AxCut.TypingNamedProofs

namespace Scc.Props
open Scc.Core2AxCut

/-! ## the full statement (semantic preservation) -/

/-- two fuel-indexed runs have the same behaviour: whenever one of them finishes (`done` or `stuck`)
    with some fuel, the other finishes with some fuel with the same result and the same trace -/
def SameBehaviour (src tgt : Nat → AxCut.Named.Behaviour) : Prop :=
  (∀ n, (∃ v, (src n).res = .done v) ∨ (∃ w, (src n).res = .stuck w) →
      ∃ m, (tgt m).out = (src n).out ∧
        ((∃ v, (src n).res = .done v ∧ (tgt m).res = .done v) ∨
         ((∃ w, (src n).res = .stuck w) ∧ ∃ w', (tgt m).res = .stuck w'))) ∧
  (∀ m, (∃ v, (tgt m).res = .done v) ∨ (∃ w, (tgt m).res = .stuck w) →
      ∃ n, (src n).out = (tgt m).out ∧
        ((∃ v, (tgt m).res = .done v ∧ (src n).res = .done v) ∨
         ((∃ w, (tgt m).res = .stuck w) ∧ ∃ w', (src n).res = .stuck w')))

/-- C04, full statement. `coreRun` is the focused-Core machine of DESIGN §4 (component
    `Scc/Core/Sem.lean`, instantiated in `Scc/Props/C04Sem.lean`), reporting its behaviour in the same
    `Behaviour` type.  The Core machine starts with the definition called `main`, the AxCut machine
    with the first definition, hence the hypothesis that `main` comes first (as in every dump). -/
def C04_statement (coreRun : Core.FsProg → List (BitVec 64) → Nat → AxCut.Named.Behaviour) : Prop :=
  ∀ (p : Core.FsProg) (q : AxCut.Prog) (args : List (BitVec 64)),
    wtFsScopedCheck p = true → uniqueIdsCheck p = true →
    (∃ d ds, p.defs = d :: ds ∧ d.name.name = "main") → shrinkProg p = .ok q →
    SameBehaviour (coreRun p args) (AxCut.Named.run q args)

/-- C04-T1 / C12: typing preservation (stated; evidence: both checkers accept all corpus dumps). -/
def C04_shrink_typed_statement : Prop :=
  ∀ (p : Core.FsProg) (q : AxCut.Prog),
    wtFsScopedCheck p = true → uniqueIdsCheck p = true → shrinkProg p = .ok q → AxCut.Named.WTax q

/-! ## no panic -/

/-- C04_no_panic: on well-typed focused Core the model of `shrink_prog` returns a program; in
    particular it never returns one of the panic outcomes (`panicContName`, `panicXtorNotFound`,
    `panicTypeNotFound`, `panicCannotHappen`) nor the fuel error. -/
theorem C04_no_panic (p : Core.FsProg) (h : wtFsCheck p = true) : ∃ q, shrinkProg p = .ok q :=
  shrinkProg_ok p h

/-- the same for one statement and any sufficient fuel -/
theorem C04_no_panic_stmt (E : TEnv) (label : String) (s : Core.FsStmt) (st : St) (fuel : Nat)
    (h : wtStmt E s = true) (hf : sizeStmt s ≤ fuel) :
    ∃ r, shrinkStmt ⟨E.data, E.codata, label⟩ fuel s st = .ok r :=
  shrinkStmt_ok (env := ⟨E.data, E.codata, label⟩) ⟨rfl, rfl⟩ fuel s st h hf

/-! ## lifted definitions receive exactly their free variables -/

/-- C04_lift_free_vars. `lift env rec s st` is the only place where a definition is added to
    `lifted_statements`.  The label is `lift_<current>__k`, `k` being the first id after the ids of
    the parameters whose printed label is not used (see `C04_lift_label_fresh`). -/
theorem C04_lift_free_vars (env : Env) (rec : Rec) (s : Core.FsStmt) (st : St) (r : AxCut.Stmt) (st' : St)
    (h : lift env rec s st = .ok (r, st')) :
    let fv := tfvStmt s []                       -- the Rust `typed_free_vars` set, in `BTreeSet` order
    let params := liftParams st.maxId fv         -- the parameters of the lifted definition
    let base := "lift_" ++ env.currentLabel ++ "_"
    -- (a) no duplicates; exactly the free variables (no more, no less)
    fv.Nodup ∧
    (UniqueBinders s → ∀ b, b ∈ fv ↔ b ∈ fvStmt s) ∧
    (∃ k, st.maxId + fv.length < k ∧
      -- (b) the new definition: parameters = renamed free variables, body = image of the renamed statement
      (∃ body st3,
        rec (substStmt (liftSubst st.maxId fv) s) ⟨k, ⟨base, k⟩ :: st.usedLabels, st.lifted⟩ = .ok (body, st3) ∧
        st' = { st3 with lifted := ⟨⟨base, k⟩, shrinkContext env.codata params, body⟩ :: st3.lifted }) ∧
      -- (c) the call site passes the free variables themselves, in the same order
      r = .call ⟨base, k⟩ (shrinkContext env.codata fv)) ∧
    -- (d) parameters and arguments correspond position by position
    params.length = fv.length ∧
    (∀ i (hi : i < fv.length), ∃ hi' : i < params.length,
      params[i] = { fv[i] with var := ⟨fv[i].var.name, st.maxId + 1 + i⟩ }) ∧
    (params.map (·.var.id)).Nodup ∧
    (shrinkContext env.codata params).map (fun b => (b.chi, b.ty)) =
      (shrinkContext env.codata fv).map (fun b => (b.chi, b.ty)) ∧
    liftSubst st.maxId fv = (fv.map (·.var.id)).zip (params.map (·.var)) := by
  obtain ⟨k, body, st3, hk, _, _, h1, h2, h3⟩ := lift_spec env rec s st r st' h
  refine ⟨tfvStmt_nodup s, tfvStmt_eq_fv s, ⟨k, hk, ⟨body, st3, h1, h3⟩, h2⟩, (liftParams_spec _ _).1,
    (liftParams_spec _ _).2, (liftParams_ids_nodup _ _).1, shrinkContext_liftParams _ _ _, liftSubst_spec _ _⟩

/-! ## labels of lifted definitions are fresh -/

/-- the `while` loop of `lift` that draws the label terminates: with the fuel `|used_labels| + 1`
    that the model passes, the model-only outcome `LABELFUEL` is not reachable -/
theorem C04_draw_label_terminates (base : String) (st : St) :
    ∃ r, drawLabel base (st.usedLabels.length + 1) st = .ok r :=
  drawLabel_ok base st

/-- C04_lift_label_fresh.  The label chosen by `lift` is `lift_<current>__k`; its printed name
    differs from the printed name of every label in `used_labels` at the time of the call — that
    set contains the names of all definitions of the program (`shrinkProg` initialises it with them)
    and every label chosen before (second part: `lift` records the label, and everything the
    translation does only extends `used_labels`); `k` is the first candidate after the ids of the
    parameters with this property.  If the recursive call satisfies the label invariant
    `LabelsExt`, so does `lift`, and the label is in `used_labels` afterwards. -/
theorem C04_lift_label_fresh (env : Env) (rec : Rec) (s : Core.FsStmt) (st : St) (r : AxCut.Stmt) (st' : St)
    (h : lift env rec s st = .ok (r, st')) :
    ∃ (label : Core.Ident) (args : AxCut.Ctx),
      r = .call (shrinkIdentifier label) args ∧
      label.name = "lift_" ++ env.currentLabel ++ "_" ∧
      st.maxId + (tfvStmt s []).length < label.id ∧
      (∀ u ∈ st.usedLabels, u.print ≠ label.print) ∧
      (∀ j, st.maxId + (tfvStmt s []).length < j → j < label.id →
        ∃ u ∈ st.usedLabels, u.print = (⟨"lift_" ++ env.currentLabel ++ "_", j⟩ : Core.Ident).print) ∧
      (RecRel LabelsExt rec → label ∈ st'.usedLabels ∧ LabelsExt st st') := by
  obtain ⟨label, st2, st3, body, hn, hlt, hu, hmin, hu2, _, _, hb, hr, hst⟩ := lift_label h
  simp only [liftFresh_spec] at hlt hmin
  refine ⟨label, _, hr, hn, hlt, hu, fun j h1 h2 => labelUsed_iff.mp (hmin j h1 h2), ?_⟩
  intro hrec
  refine ⟨?_, lift_labelsExt hrec _ _ _ _ h⟩
  obtain ⟨g, l, hu3, _⟩ := hrec _ _ _ _ hb
  subst hst
  simp [hu3, hu2]

/-- the label invariant for a whole statement: `used_labels` grows by a list `g` of labels whose
    printed names are pairwise distinct and differ from the printed names of all labels used before,
    and the definitions pushed to `lifted_statements` are named exactly by `g` -/
theorem C04_labels_fresh_stmt (env : Env) (fuel : Nat) (s : Core.FsStmt) (st : St) (r : AxCut.Stmt) (st' : St)
    (h : shrinkStmt env fuel s st = .ok (r, st')) :
    ∃ (g : List Core.Ident) (l : List AxCut.Def),
      st'.usedLabels = g ++ st.usedLabels ∧ st'.lifted = l ++ st.lifted ∧
      (g.map (·.print)).Nodup ∧ (∀ x ∈ g, ∀ u ∈ st.usedLabels, x.print ≠ u.print) ∧
      (l.map (·.name)).Perm (g.map shrinkIdentifier) :=
  shrinkStmt_labelsExt env fuel s st r st' h

/-- the same for programs: the definitions of the output are named by the names of the input
    definitions and by labels `g` with pairwise distinct printed names different from the printed
    names of all input definitions -/
theorem C04_labels_fresh_prog (p : Core.FsProg) (q : AxCut.Prog) (h : shrinkProg p = .ok q) :
    ∃ g : List Core.Ident, (g.map (·.print)).Nodup ∧
      (∀ x ∈ g, ∀ d ∈ p.defs, x.print ≠ d.name.print) ∧
      (q.defs.map (·.name)).Perm (p.defs.map (fun d => shrinkIdentifier d.name) ++ g.map shrinkIdentifier) :=
  shrinkProg_labels h

/-- C14_def_labels_distinct (the part of C14 "labels are distinct" that concerns this pass): with
    distinct printed names of the input definitions, all definitions of the output program —
    including the lifted ones — have pairwise distinct printed names (the names the back ends
    print as assembly labels). -/
theorem C14_def_labels_distinct (p : Core.FsProg) (q : AxCut.Prog) (h : shrinkProg p = .ok q)
    (hp : (p.defs.map (·.name.print)).Nodup) : (q.defs.map (·.name.print)).Nodup :=
  shrinkProg_labels_nodup h hp

/-! ## the AxCut typing checker -/

/-- `wtAxCheck p = ok → WTax p` -/
theorem C04_wtAxCheck_sound (p : AxCut.Prog) (h : AxCut.Named.wtAxCheck p = .ok ()) : AxCut.Named.WTax p :=
  AxCut.Named.wtAxCheck_sound p h

/-! ## non-vacuity: a program with a critical pair at a two-constructor data type whose consumer side
is not a leaf, so that it is lifted -/

namespace C04Example
open Scc

def x1 : Core.Ident := ⟨"x", 1⟩
def a2 : Core.Ident := ⟨"a", 2⟩
def l3 : Core.Ident := ⟨"l", 3⟩
def b4 : Core.Ident := ⟨"b", 4⟩
def listTy : Core.Ty := .decl ⟨"List", 0⟩
def listDecl : Core.TypeDecl :=
  ⟨⟨"List", 0⟩, [⟨⟨"Nil", 0⟩, []⟩, ⟨⟨"Cons", 0⟩, [⟨⟨"x", 0⟩, .prd, .i64⟩, ⟨⟨"xs", 0⟩, .prd, listTy⟩]⟩]⟩
/-- the lifted side: `print x; ⟨x | a⟩` -/
def lifted : Core.FsStmt := .print true x1 (.cut .i64 (.var .prd x1 .i64) (.var .cns a2 .i64))
/-- `⟨ μb.⟨Nil | b⟩ | μ~l. print x; ⟨x | a⟩ ⟩` -/
def body : Core.FsStmt :=
  .cut listTy (.mu .prd b4 listTy (.cut listTy (.xtor .prd ⟨"Nil", 0⟩ [] listTy) (.var .cns b4 listTy)))
    (.mu .cns l3 listTy lifted)
def prog : Core.FsProg :=
  ⟨[⟨⟨"main", 0⟩, [⟨x1, .prd, .i64⟩, ⟨a2, .cns, .i64⟩], body⟩], [listDecl], [], 4⟩
def env : Env := ⟨[listDecl, contInt], [], "main"⟩

example : wtFsCheck prog = true := by decide
example : wtFsScopedCheck prog = true ∧ uniqueIdsCheck prog = true := by decide
example : (shrinkProg prog).toOption.map (fun q => q.defs.length) = some 2 := by decide
example : (shrinkProg prog).toOption.map (fun q => q.defs.all (AxCut.Named.wtDefB q)) = some true := by decide
-- hypothesis of `C04_lift_free_vars` / `C04_lift_label_fresh`, with the real recursive call
example : (lift env (shrinkStmt env 10) lifted ⟨4, [⟨"main", 0⟩], []⟩).toOption.isSome = true := by decide
example : RecRel LabelsExt (shrinkStmt env 10) := shrinkStmt_labelsExt env 10
-- a user definition called `lift_main__7` (the label `lift` would draw first): the loop draws again
def prog2 : Core.FsProg :=
  ⟨[⟨⟨"main", 0⟩, [⟨x1, .prd, .i64⟩, ⟨a2, .cns, .i64⟩], body⟩,
    ⟨⟨"lift_main__7", 0⟩, [⟨x1, .prd, .i64⟩], .exit x1⟩], [listDecl], [], 4⟩
example : wtFsCheck prog2 = true := by decide
example : (prog2.defs.map (·.name.print)).Nodup := by decide
example : (shrinkProg prog).toOption.map (fun q => q.defs.map (·.name)) =
    some [⟨"main", 0⟩, ⟨"lift_main_", 7⟩] := by decide
example : (shrinkProg prog2).toOption.map (fun q => q.defs.map (·.name)) =
    some [⟨"main", 0⟩, ⟨"lift_main_", 8⟩, ⟨"lift_main__7", 0⟩] := by decide
-- the free variables of the lifted statement, in `BTreeSet` order ("a" < "x")
example : tfvStmt lifted [] = [⟨a2, .cns, .i64⟩, ⟨x1, .prd, .i64⟩] := by decide
example : liftParams 4 (tfvStmt lifted []) = [⟨⟨"a", 5⟩, .cns, .i64⟩, ⟨⟨"x", 6⟩, .prd, .i64⟩] := by decide
example : UniqueBinders lifted := by
  refine ⟨by decide, ?_⟩
  intro β hβ; simp [lifted, bindersStmt, bindersTerm] at hβ
example : UniqueBinders body := by
  constructor
  · decide
  · decide

end C04Example

end Scc.Props

#print axioms Scc.Props.C04_no_panic
#print axioms Scc.Props.C04_no_panic_stmt
#print axioms Scc.Props.C04_lift_free_vars
#print axioms Scc.Props.C04_draw_label_terminates
#print axioms Scc.Props.C04_lift_label_fresh
#print axioms Scc.Props.C04_labels_fresh_stmt
#print axioms Scc.Props.C04_labels_fresh_prog
#print axioms Scc.Props.C14_def_labels_distinct
#print axioms Scc.Props.C04_wtAxCheck_sound
