/-
  Scc.Props.C04 — shrinking focused Core into AxCut (crate core2axcut).

  Property C04 (as given): "For every well-typed focused Core program the AxCut program produced by
  shrinking behaves on the AxCut abstract machine exactly as the Core program behaves on the Core
  machine (output, result, termination). Cuts of a known constructor or destructor against a
  (co)match continue with the selected clause and the right arguments; a cut of two abstractions runs
  the producer first for integers and data and the consumer first for codata; statements lifted to
  new top-level definitions receive exactly their free variables."

  Model: `Scc.Core2AxCut.shrinkProg` (Scc/Core2AxCut/Model.lean), tied to the Rust code by exact
  equality of the S4 dumps (18 repo programs + 22 programs of /verif/gen/corpus/shrink).
  Target semantics: the named AxCut machine `Scc.AxCut.Named.run` (Scc/AxCut/SemNamed.lean).

  What is proved here about the code as it is:
    * C04_no_panic            (FULL)  on input accepted by the decidable shape typing `wtFsCheck` the
                              pass returns a program: none of the four panic sites (`_Cont` clash, "Xtor
                              not found", "Type not found", "cannot happen") is reached and the
                              model's fuel suffices.
    * C04_lift_free_vars      (FULL)  the definition pushed by `lift` has as parameter list exactly the
                              typed free variables of the lifted statement: the set computed by
                              `typed_free_vars` has no duplicates (unconditionally) and is the scoped
                              free-variable set (on statements with unique binders, the documented
                              precondition of the crate); parameters and call arguments have the same
                              length and order, agree position-wise in name, kind and type; the
                              parameter ids are fresh and pairwise distinct; the body is the image of
                              the statement renamed by exactly that correspondence.
    * C04_wtAxCheck_sound     the checker of the AxCut typing relation `WTax` is sound (it accepts the
                              S4 output of all 40 corpus programs).
  What is only stated (kept as `def … : Prop`):
    * C04_statement           semantic preservation; needs the Core machine (`Scc/Core/Sem.lean`,
                              written by another component), which is a parameter of the statement.
    * C04_shrink_typed_statement  typing preservation S3 → S4 (checked on all 40 corpus programs by
                              running `wtFsScopedCheck`, `uniqueIdsCheck` on S3 and `wtAxCheck` on S4).
-/
import Scc.Core2AxCut.Proofs
import Scc.Core2AxCut.FreeVars
import Scc.AxCut.SemNamed
import Scc.AxCut.TypingNamedProofs

namespace Scc.Props
open Scc.Core2AxCut

/-! ## the full statement (semantic preservation) -/

/-- two fuel-indexed runs have the same behaviour: whenever one of them finishes (`done` or `stuck`)
    with some fuel, the other finishes with some fuel with the same result and the same trace -/
def SameBehaviour (src tgt : Nat → AxCut.Named.Behaviour) : Prop :=
  (∀ n, (∃ v, (src n).res = .done v) ∨ (∃ w, (src n).res = .stuck w) →
      ∃ m, (tgt m).out = (src n).out ∧
        ((∃ v, (src n).res = .done v ∧ (tgt m).res = .done v) ∨
         ((∃ w, (src n).res = .stuck w) ∧ ∃ w', (tgt m).res = .stuck w'))) ∧
  (∀ m, (∃ v, (tgt m).res = .done v) ∨ (∃ w, (tgt m).res = .stuck w) →
      ∃ n, (src n).out = (tgt m).out ∧
        ((∃ v, (tgt m).res = .done v ∧ (src n).res = .done v) ∨
         ((∃ w, (tgt m).res = .stuck w) ∧ ∃ w', (src n).res = .stuck w')))

/-- C04, full statement. `coreRun` is the focused-Core machine of DESIGN §4 (component
    `Scc/Core/Sem.lean`, instantiated in `Scc/Props/C04Sem.lean`), reporting its behaviour in the same
    `Behaviour` type.  The Core machine starts with the definition called `main`, the AxCut machine
    with the first definition, hence the hypothesis that `main` comes first (as in every dump). -/
def C04_statement (coreRun : Core.FsProg → List (BitVec 64) → Nat → AxCut.Named.Behaviour) : Prop :=
  ∀ (p : Core.FsProg) (q : AxCut.Prog) (args : List (BitVec 64)),
    wtFsScopedCheck p = true → uniqueIdsCheck p = true →
    (∃ d ds, p.defs = d :: ds ∧ d.name.name = "main") → shrinkProg p = .ok q →
    SameBehaviour (coreRun p args) (AxCut.Named.run q args)

/-- C04-T1 / C12: typing preservation (stated; evidence: both checkers accept all corpus dumps). -/
def C04_shrink_typed_statement : Prop :=
  ∀ (p : Core.FsProg) (q : AxCut.Prog),
    wtFsScopedCheck p = true → uniqueIdsCheck p = true → shrinkProg p = .ok q → AxCut.Named.WTax q

/-! ## no panic -/

/-- C04_no_panic: on well-typed focused Core the model of `shrink_prog` returns a program; in
    particular it never returns one of the panic outcomes (`panicContName`, `panicXtorNotFound`,
    `panicTypeNotFound`, `panicCannotHappen`) nor the fuel error. -/
theorem C04_no_panic (p : Core.FsProg) (h : wtFsCheck p = true) : ∃ q, shrinkProg p = .ok q :=
  shrinkProg_ok p h

/-- the same for one statement and any sufficient fuel -/
theorem C04_no_panic_stmt (E : TEnv) (label : String) (s : Core.FsStmt) (st : St) (fuel : Nat)
    (h : wtStmt E s = true) (hf : sizeStmt s ≤ fuel) :
    ∃ r, shrinkStmt ⟨E.data, E.codata, label⟩ fuel s st = .ok r :=
  shrinkStmt_ok (env := ⟨E.data, E.codata, label⟩) ⟨rfl, rfl⟩ fuel s st h hf

/-! ## lifted definitions receive exactly their free variables -/

/-- C04_lift_free_vars. `lift env rec s st` is the only place where a definition is added to
    `lifted_statements`. -/
theorem C04_lift_free_vars (env : Env) (rec : Rec) (s : Core.FsStmt) (st : St) (r : AxCut.Stmt) (st' : St)
    (h : lift env rec s st = .ok (r, st')) :
    let fv := tfvStmt s []                       -- the Rust `typed_free_vars` set, in `BTreeSet` order
    let params := liftParams st.maxId fv         -- the parameters of the lifted definition
    let label : AxCut.Ident := ⟨"lift_" ++ env.currentLabel ++ "_", st.maxId + fv.length + 1⟩
    -- (a) no duplicates; exactly the free variables (no more, no less)
    fv.Nodup ∧
    (UniqueBinders s → ∀ b, b ∈ fv ↔ b ∈ fvStmt s) ∧
    -- (b) the new definition: parameters = renamed free variables, body = image of the renamed statement
    (∃ body st3,
      rec (substStmt (liftSubst st.maxId fv) s) ⟨st.maxId + fv.length + 1, st.lifted⟩ = .ok (body, st3) ∧
      st' = { st3 with lifted := ⟨label, shrinkContext env.codata params, body⟩ :: st3.lifted }) ∧
    -- (c) the call site passes the free variables themselves, in the same order
    r = .call label (shrinkContext env.codata fv) ∧
    -- (d) parameters and arguments correspond position by position
    params.length = fv.length ∧
    (∀ i (hi : i < fv.length), ∃ hi' : i < params.length,
      params[i] = { fv[i] with var := ⟨fv[i].var.name, st.maxId + 1 + i⟩ }) ∧
    (params.map (·.var.id)).Nodup ∧
    (shrinkContext env.codata params).map (fun b => (b.chi, b.ty)) =
      (shrinkContext env.codata fv).map (fun b => (b.chi, b.ty)) ∧
    liftSubst st.maxId fv = (fv.map (·.var.id)).zip (params.map (·.var)) := by
  obtain ⟨body, st3, h1, h2, h3⟩ := lift_spec env rec s st r st' h
  refine ⟨tfvStmt_nodup s, tfvStmt_eq_fv s, ⟨body, st3, h1, h3⟩, h2, (liftParams_spec _ _).1,
    (liftParams_spec _ _).2, (liftParams_ids_nodup _ _).1, shrinkContext_liftParams _ _ _, liftSubst_spec _ _⟩

/-! ## the AxCut typing checker -/

/-- `wtAxCheck p = ok → WTax p` -/
theorem C04_wtAxCheck_sound (p : AxCut.Prog) (h : AxCut.Named.wtAxCheck p = .ok ()) : AxCut.Named.WTax p :=
  AxCut.Named.wtAxCheck_sound p h

/-! ## non-vacuity: a program with a critical pair at a two-constructor data type whose consumer side
is not a leaf, so that it is lifted -/

namespace C04Example
open Scc

def x1 : Core.Ident := ⟨"x", 1⟩
def a2 : Core.Ident := ⟨"a", 2⟩
def l3 : Core.Ident := ⟨"l", 3⟩
def b4 : Core.Ident := ⟨"b", 4⟩
def listTy : Core.Ty := .decl ⟨"List", 0⟩
def listDecl : Core.TypeDecl :=
  ⟨⟨"List", 0⟩, [⟨⟨"Nil", 0⟩, []⟩, ⟨⟨"Cons", 0⟩, [⟨⟨"x", 0⟩, .prd, .i64⟩, ⟨⟨"xs", 0⟩, .prd, listTy⟩]⟩]⟩
/-- the lifted side: `print x; ⟨x | a⟩` -/
def lifted : Core.FsStmt := .print true x1 (.cut .i64 (.var .prd x1 .i64) (.var .cns a2 .i64))
/-- `⟨ μb.⟨Nil | b⟩ | μ~l. print x; ⟨x | a⟩ ⟩` -/
def body : Core.FsStmt :=
  .cut listTy (.mu .prd b4 listTy (.cut listTy (.xtor .prd ⟨"Nil", 0⟩ [] listTy) (.var .cns b4 listTy)))
    (.mu .cns l3 listTy lifted)
def prog : Core.FsProg :=
  ⟨[⟨⟨"main", 0⟩, [⟨x1, .prd, .i64⟩, ⟨a2, .cns, .i64⟩], body⟩], [listDecl], [], 4⟩
def env : Env := ⟨[listDecl, contInt], [], "main"⟩

example : wtFsCheck prog = true := by decide
example : wtFsScopedCheck prog = true ∧ uniqueIdsCheck prog = true := by decide
example : (shrinkProg prog).toOption.map (fun q => q.defs.length) = some 2 := by decide
example : (shrinkProg prog).toOption.map (fun q => q.defs.all (AxCut.Named.wtDefB q)) = some true := by decide
-- hypothesis of `C04_lift_free_vars`, with the real recursive call
example : (lift env (shrinkStmt env 10) lifted ⟨4, []⟩).toOption.isSome = true := by decide
-- the free variables of the lifted statement, in `BTreeSet` order ("a" < "x")
example : tfvStmt lifted [] = [⟨a2, .cns, .i64⟩, ⟨x1, .prd, .i64⟩] := by decide
example : liftParams 4 (tfvStmt lifted []) = [⟨⟨"a", 5⟩, .cns, .i64⟩, ⟨⟨"x", 6⟩, .prd, .i64⟩] := by decide
example : UniqueBinders lifted := by
  refine ⟨by decide, ?_⟩
  intro β hβ; simp [lifted, bindersStmt, bindersTerm] at hβ
example : UniqueBinders body := by
  constructor
  · decide
  · decide

end C04Example

end Scc.Props

#print axioms Scc.Props.C04_no_panic
#print axioms Scc.Props.C04_no_panic_stmt
#print axioms Scc.Props.C04_lift_free_vars
#print axioms Scc.Props.C04_wtAxCheck_sound
