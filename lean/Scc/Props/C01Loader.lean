/-
  Scc.Props.C01Loader — the end-to-end theorems of C01 for x86-64 on the integer fragment WITHOUT the
  per-program evaluation of the loader: `C01_intChecks` contains `C01_routineLoadsB` (run the machine's
  parser on the printed routine, with hooks and without); by `X86.C14_routineLoadsB_true`
  (Props/C14Loader.lean: the print → parse round trip, proved for every routine of the backend model)
  that conjunct follows from the range check and the DECIDABLE NAMES CHECK `X86.C14_namesTextSafe` on
  the linearized program.

    `C01_intChecksN`            `C01_intChecks` with the two parser runs replaced by the names check
    `C01_intChecks_of_names`    `C01_intChecksN p' = true → C01_intChecks p' = true`
    `C01_x86_int_names`         = `C01_x86_int` from `C01_intChecksN`
    `C01_int_fragment_names`    = `C01_int_fragment` from `C01_intChecksN`
    `C01_int_from_core_names`   = `C01_int_from_core` from `C01_intChecksN`
-/
import Scc.Props.C01
import Scc.Props.C14Loader

namespace Scc.Props

open Scc Scc.Pipeline
open Scc.Fun.Check (checkProgram programNamesOk)

/-- **the integer fragment of the back end, no parser run**: capacity, integer program, literals in
    range, names text-safe.  Decidable; evaluates nothing but predicates on the linearized program. -/
def C01_intChecksN (p' : Fun.CheckedProgram) : Bool :=
  C01_capacity p' &&
  match stages p' with
  | .ok st => C01_intProgB st.s5 && C01_progInRangeB st.s5 && X86.C14_namesTextSafe st.s5
  | .error _ => false

theorem C01_intChecks_of_names {p' : Fun.CheckedProgram} (h : C01_intChecksN p' = true) :
    C01_intChecks p' = true := by
  unfold C01_intChecksN at h
  unfold C01_intChecks
  cases hst : stages p' with
  | error e => simp [hst] at h
  | ok st =>
    simp only [hst, Bool.and_eq_true] at h ⊢
    obtain ⟨hcap, ⟨hint, hrange⟩, hnames⟩ := h
    have hr := C01_progInRangeB_sound hrange
    exact ⟨hcap, ⟨⟨hint, hrange⟩, X86.C14_routineLoadsB_true true hr hnames⟩,
      X86.C14_routineLoadsB_true false hr hnames⟩

/-- the x86-64 link on the integer fragment, every hypothesis a decidable predicate on the program that
    involves no run of the machine's parser -/
theorem C01_x86_int_names (p : Fun.Program) (p' : Fun.CheckedProgram)
    (hn : programNamesOk p = true) (hc : checkProgram p = .ok p') (hv : validMain p' = true)
    (hlc : C01_linkChecks p' = true) (hic : C01_intChecksN p' = true) : C01_link_x86_at p' :=
  C01_x86_int p p' hn hc hv hlc (C01_intChecks_of_names hic)

/-- `C01_int_fragment` END TO END with the names check in place of the loader runs -/
theorem C01_int_fragment_names (p : Fun.Program) (p' : Fun.CheckedProgram)
    (hn : programNamesOk p = true) (hc : checkProgram p = .ok p') (hv : validMain p' = true)
    (hlc : C01_linkChecks p' = true) (hls : C01_labelSafe p' = true)
    (hfr : C01_fragChecks p' = true) (hic : C01_intChecksN p' = true) : C01_conclusion p' :=
  C01_int_fragment p p' hn hc hv hlc hls hfr (C01_intChecks_of_names hic)

theorem C01_int_from_core_names (p : Fun.Program) (p' : Fun.CheckedProgram)
    (hn : programNamesOk p = true) (hc : checkProgram p = .ok p') (hv : validMain p' = true)
    (hlc : C01_linkChecks p' = true) (hls : C01_labelSafe p' = true)
    (hic : C01_intChecksN p' = true) : ∃ st, C12_Facts p p' st ∧ C01_conclusion_core p' st :=
  C01_int_from_core p p' hn hc hv hlc hls (C01_intChecks_of_names hic)

end Scc.Props

#print axioms Scc.Props.C01_intChecks_of_names
#print axioms Scc.Props.C01_x86_int_names
#print axioms Scc.Props.C01_int_fragment_names
#print axioms Scc.Props.C01_int_from_core_names

namespace Scc.Props
open Scc Scc.Pipeline
open Scc.Fun.Check (checkProgram programNamesOk)

/-- non-vacuity: a program that satisfies every hypothesis of `C01_int_fragment_names` -/
def C01L_exSrc : String :=
  "def main(n: i64): i64 { println_i64(n + 1); 0 }"

def C01L_ex (f : Fun.Program → Fun.CheckedProgram → Bool) (src : String) : Bool :=
  match frontEnd src with
  | .ok p p' => f p p'
  | _ => false

set_option maxRecDepth 100000 in
theorem C01L_example_front : C01L_ex (fun p p' => programNamesOk p && validMain p') C01L_exSrc = true := by
  decide +kernel
set_option maxRecDepth 100000 in
theorem C01L_example_link : C01L_ex (fun _ p' => C01_linkChecks p') C01L_exSrc = true := by decide +kernel
set_option maxRecDepth 100000 in
theorem C01L_example_labels : C01L_ex (fun _ p' => C01_labelSafe p') C01L_exSrc = true := by decide +kernel
set_option maxRecDepth 100000 in
theorem C01L_example_frag : C01L_ex (fun _ p' => C01_fragChecks p') C01L_exSrc = true := by decide +kernel
set_option maxRecDepth 100000 in
theorem C01L_example_int : C01L_ex (fun _ p' => C01_intChecksN p') C01L_exSrc = true := by decide +kernel

end Scc.Props
