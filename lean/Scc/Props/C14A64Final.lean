/-
  Scc.Props.C14A64Final — property C14 (the emitted assembly is well-formed) for the AArch64 backend:
  THE WHOLE-PROGRAM THEOREM.

    `C14_a64_final`   for every `LabelSafe`, linearly typed (`LinTypedProg`) program that passes the decidable
                      per-program checks `C07_a64Checks` (of which `C14A_inRangeB` — at most 1024 xtors per type,
                      at most 4096 pairs per substitution — and `C14A_namesTextSafe` are used: `C14_a64_final_min`)
                      and that the code generator compiles (both hook settings, EVERY start value of the label
                      counter), if the routine has fewer than 2^18 items:
                          `wfCheck (printProg routine) = .ok ()`.

  What `wfCheck` (Scc/A64/Machine.lean) tests, and where each clause comes from (`Wf.wfLines_ok`,
  Scc/A64/WfCheck.lean, follows the validator: duplicate scan, entry label, the loop over the laid-out items):
    (v)   the text parses, and its lines ARE the routine          — `C14A_routine_lines` (Props/C14LoaderA64Compose);
    (i)   no label is defined twice                               — `labels_unique_a64` (Scc/A64/RefSideLabels.lean);
          no label is a runtime symbol (`print_i64`, `println_i64`) — `Wf.R_ne_ext`; `asm_main` is defined;
    (ii)  the label of every `B` / `B.cond` / `ADR` is defined, every `BL` goes to a runtime symbol that is not
          defined                                                  — NEW, `Refs.refs_defined`
          (Scc/Backend/ProofsRefs.lean) with the AArch64 instance `Wf.refOps_a64` (Scc/A64/WfRefs.lean);
          every label is followed by an instruction (the routine ends with `RET`);
    (iv)  operand classes and ranges of every instruction form (`Instr.wfError`: MOVZ/MOVK/MOVN halfwords and
          shifts, LDR/STR offsets, 12-bit immediates, register classes) — `C14A_routine_operands`
          (Props/C14LoaderA64Names.lean);
    (iii) every branch / `ADR` is within reach of its form (±1 MiB for `B.cond` / `ADR`): fewer than 2^18 items of
          4 bytes (NEW: `Wf.layout_offs_le`).  The validator has no separate jump-table test: with the fixed
          instruction size 4, entry k of a table is 4·k bytes after the table label (`C14_stride`,
          `C07_table_layout_statement` proved in Scc/A64/RefTableLayout.lean); that a table consists of one `B` per
          clause in declaration order directly after the table label is `C14Generic.codeTable_eq` (every backend)
          and the shape of `codeStatementR` (`switch` / `create`: `B.label l :: codeTable B clauses l`).

  `wfCheck` vs. the pieces: it is exactly (i), (ii), (iv), (v) and the reach test; it is WEAKER than C14-T1
  (`C14Generic.table_stride`): it does not compare table entries with clause lists.

  COMPARISON with `C14_statement` (Props/C14A64.lean): that statement has hooks off and counter start 0, the
  hypotheses "at most 1023 xtors per type" and `routine.length < 262144`, and NONE of `LabelSafe` (without it the
  statement is false: `C14_statement_false`, duplicate label `f_1_`), `LinTypedProg` (a `call` of an undefined
  definition gives an undefined label), the bound on substitutions (the 12-bit share count), `C14A_namesTextSafe`
  (a definition named `a b` does not parse: `C14A_names_needed`).  `C14_a64_final` needs 1024 instead of 1023 xtors.
-/
import Scc.A64.WfFinal
import Scc.Props.C07A64Full
import Scc.Props.C14LoaderA64Compose

namespace Scc.A64

open Scc.AxCut Scc.A64.Wf Scc.A64.Loader
open Scc.Props.C14Generic (LabelSafe CallsDefined)

/-- C14 (AArch64), whole programs, as PROVED -/
def C14_final_statement : Prop :=
  ∀ (p : AxCut.Prog) (hooks : Bool) (c0 : Nat) (body routine : List Code) (nargs : Nat),
    LabelSafe p = true → LinTypedProg p → C07_a64Checks p = true →
    compileProg a64Backend p hooks c0 = .ok (body, nargs, routine) → routine.length < 262144 →
    wfCheck (printProg routine) = .ok ()

/-- the routine satisfies the hypotheses of the validator theorem -/
theorem C14_routine_codesOK {p : AxCut.Prog} {hooks : Bool} {c0 : Nat} {body routine : List Code} {nargs : Nat}
    (hsafe : LabelSafe p = true) (htp : LinTypedProg p) (hrange : C14A_inRangeB p = true)
    (h : compileProg a64Backend p hooks c0 = .ok (body, nargs, routine)) (hlen : routine.length < 262144) :
    CodesOK routine := codesOK_routine hsafe htp (C14A_inRangeB_sound hrange) h hlen

/-- **C14 for AArch64** with the two checks that are used -/
theorem C14_a64_final_min {p : AxCut.Prog} {hooks : Bool} {c0 : Nat} {body routine : List Code} {nargs : Nat}
    (hsafe : LabelSafe p = true) (htp : LinTypedProg p) (hrange : C14A_inRangeB p = true)
    (hnames : C14A_namesTextSafe p = true)
    (h : compileProg a64Backend p hooks c0 = .ok (body, nargs, routine)) (hlen : routine.length < 262144) :
    wfCheck (printProg routine) = .ok () := by
  obtain ⟨ls, hparse, hL⟩ := C14A_routine_lines hrange hnames h
  rw [wfCheck_eq, hparse]
  exact wfLines_ok hL (C14_routine_codesOK hsafe htp hrange h hlen)

/-- **C14 for AArch64: the text of the routine emitted for every `LabelSafe`, linearly typed program that passes
    the per-program checks is accepted by the validator** -/
theorem C14_a64_final : C14_final_statement := by
  intro p hooks c0 body routine nargs hsafe htp hchk h hlen
  have F := C07_checks_facts hchk
  exact C14_a64_final_min hsafe htp F.range F.names h hlen

/-! ## `C14_statement` is false without `LabelSafe` -/

open Scc.Props.C14Generic (collisionDefs) in
set_option maxRecDepth 100000 in
/-- the definitions `f_1` (id 0) and `f` (id 1) both print as `f_1`: the routine defines the label `f_1_` twice
    and the validator rejects its text -/
theorem C14_collision_rejected :
    ∃ body routine nargs, compileProg a64Backend collisionDefs false 0 = .ok (body, nargs, routine) ∧
      routine.length < 262144 ∧ wfCheck (printProg routine) ≠ .ok () := by
  have hok : ∃ r, compileProg a64Backend collisionDefs false 0 = .ok r := ⟨_, rfl⟩
  obtain ⟨⟨body, nargs, routine⟩, hcomp⟩ := hok
  have hrt : routine = (compileProg a64Backend collisionDefs false 0 |>.toOption.getD ([], 0, [])).2.2 := by
    rw [hcomp]; rfl
  refine ⟨body, routine, nargs, hcomp, by rw [hrt]; decide, ?_⟩
  obtain ⟨ls, hparse, hL⟩ := C14A_routine_lines (by decide) (by decide) hcomp
  rw [wfCheck_eq, hparse]
  intro hwf
  have hnd := wfLines_nodup hwf
  rw [lineLabels_eq hL, hrt] at hnd
  revert hnd
  decide

theorem C14_statement_false : ¬ C14_statement := by
  intro hC
  obtain ⟨body, routine, nargs, h1, h2, h3⟩ := C14_collision_rejected
  exact h3 (hC _ body routine nargs h1 (by intro d hd; simp [Scc.Props.C14Generic.collisionDefs] at hd) h2)

/-! ## non-vacuity -/

set_option maxRecDepth 100000 in
/-- the closure program of Props/C07A64Full.lean (two `create`s, a two-entry jump table, `invoke` through the
    table and through `BR reg`, `subst`, `op`, `println`), compiled with hooks: every hypothesis holds -/
example : wfCheck (printProg C07_cloRoutine) = .ok () := by
  have hok : ∃ b n, compileProg a64Backend C07_cloProg true 0 = .ok (b, n, C07_cloRoutine) := ⟨_, _, rfl⟩
  obtain ⟨body, nargs, hcomp⟩ := hok
  exact C14_a64_final C07_cloProg true 0 body C07_cloRoutine nargs (by decide)
    (linTypedCheck_sound C07_cloProg rfl) C07_cloProg_checks hcomp (by decide)

end Scc.A64

#print axioms Scc.A64.C14_a64_final
#print axioms Scc.A64.C14_a64_final_min
#print axioms Scc.A64.C14_routine_codesOK
#print axioms Scc.A64.C14_statement_false
