/-
  Scc.Props.C12Final — THE FINAL THEOREM OF PROPERTY C12, and the "later stages" clause of C18.

  Property C12 (fixed text): "For every program accepted by the type checker, every later stage
  (translation to Core, uniquification, focusing, shrinking, linearization, code generation) terminates
  without an internal error and produces output that is well-typed in that stage's own type system … a
  user-facing capacity diagnostic is the only permitted way not to produce code."

  The four links of `C12_chain` (Props/C12.lean) were proved separately, each with its own side premises:
    fun2core   `C12_link_fun2core_proved`        (Props/C12Fun2Core.lean;       extra premise `C02_noSigmaNames`)
               `C12_link_fun2core_strict_proved` (Props/C12Fun2CoreStrict.lean; extra premise `C12_noContType`)
    focus      `C12_focus_typed`  \  `C12_mid_typed` (Props/C12Mid.lean; per C03 `Input` with `typesDisjoint`,
    shrink     `C04_shrink_typed` /                    `strictOk` — facts about the OUTPUT of fun2core)
    codegen    `C12_codegenTotal_of_linTyped`    (Props/C12Codegen.lean; `LinTypedProg q5`, `q5.defs ≠ []`)
  and the side premises on names were discharged for everything lexer + parser accept
  (`C12_source_names`: `programNamesOk`, no name `ς`, no type `_Cont`).  This file COMPOSES them.

  * `C12_final`   for every literal mode and every source TEXT: parse ok → check ok → `validMain` →
                  `noMainCall` ⇒ `C12_conclusion p p'` (Props/C12.lean: S1 … S5 exist, each is well-typed
                  under its stage's checker, and the three code generators return code or one of the four
                  `C12_capacityErrors`).  NO link hypothesis; the only hypotheses are the four premises,
                  each decidable on the source (`validMain`, `noMainCall` are `Bool` functions of `p'`).
                  `noMainCall` cannot be dropped: `C12_statement_full_false` (finding D13, a defect of /repo).
  * `C12_final_ast`  the same for ASTs (not necessarily produced by the parser), with the three name
                  conditions as explicit decidable premises; each of them is necessary for the statement over
                  ASTs (`C12_link_fun2core_false`, `C12_link_fun2core_strict_false`) and none is a restriction
                  on source texts.
  * `C12_final_sharp`  the code-generator clause with the parameters of `main` counted (`validMain` ⇒ at most
                  5 parameters): "too many arguments for main" is NOT reachable either — x86-64 `compileX86`:
                  ok | "Out of temporaries"; x86-64 `intoRoutine`: always ok; AArch64 `compileProg`: ok |
                  "Out of temporaries"; RISC-V `compileRoutine`: ok | "Out of registers" |
                  "not implemented in RISC-V backend" (the program prints; documented).
  * `C18_later_stages_total`  the clause of C18 "for every accepted program with a valid entry point every
                  later stage terminates normally … the only exception being the explicit 'out of
                  temporaries/registers' capacity assertion of the backends": under the same four premises
                  every stage function of the composed model (`stageS2 … stageS5`, `middleEnd`) returns `ok`,
                  and every back-end function (`X86.compileX86`, `X86.intoRoutine`, `backEndX86`,
                  `compileAllX86`, `A64.compileProg`, `RV.compileRoutine`) returns `ok` or an error whose
                  message is in the explicit list `C18_capacityMessages` (with the stage prefix for the
                  pipeline functions).
  * `C18_text_total`  C18 for the whole model from the TEXT, repaired literal action (the current source,
                  `C18_literal_mode_current`): `frontEnd src` is never a panic (`C18_parse_statement_fixed`,
                  `C15_no_panic`), and `compileTextX86` returns code, a diagnostic of parser / checker, or the
                  capacity message — for every text whose `main` is valid and not called.
  Glue proved here: `C12_mainHead5` (first definition of S5 has `mainArity p' ≤ 5` parameters, from
  `stages_mainHead` and `validMain`), `C12_mainArity_le` (`validMain` ⇒ `mainArity ≤ 5`).
  What remains open of C12: nothing but D13 (`noMainCall`), which is a defect of /repo, not a gap of the proof.
-/
import Scc.Props.C12Fun2CoreStrict
import Scc.Props.C12Codegen
import Scc.Props.C18

namespace Scc.Props

open Scc Scc.Pipeline Scc.Backend.Total
open Scc.Fun.Check (checkProgram programNamesOk)

/-! ## glue: the first definition of S5 -/

/-- a valid `main` has at most five parameters -/
theorem C12_mainArity_le {p' : Fun.CheckedProgram} (hv : validMain p' = true) : mainArity p' ≤ 5 := by
  unfold validMain at hv
  unfold mainArity
  split at hv
  · rename_i d hd
    rw [hd]
    simp only [mainSigOk, Bool.and_eq_true, decide_eq_true_eq] at hv
    exact hv.1.1
  · cases hv

/-- the linearized program of a successful compilation of a program with a valid `main` has a first
    definition, with at most five parameters -/
theorem C12_mainHead5 {p' : Fun.CheckedProgram} {st : Stages} (hv : validMain p' = true)
    (hok : stages p' = .ok st) :
    st.s5.defs ≠ [] ∧ ∀ d0 ds, st.s5.defs = d0 :: ds → d0.ctx.length ≤ 5 := by
  obtain ⟨_, _, _, d, ds, hd, hlen, _⟩ := stages_mainHead (validMainK_of_validMain hv) hok
  refine ⟨by rw [hd]; exact List.cons_ne_nil _ _, ?_⟩
  intro d0 ds0 hd0
  rw [hd] at hd0
  injection hd0 with h1 _
  rw [← h1, hlen]
  exact C12_mainArity_le hv

/-! ## C12, final -/

/-- C12 over ASTs: all four links composed; the premises are the four of `C12_statement` and the two
    name conditions that the lexer guarantees -/
theorem C12_final_ast (p : Fun.Program) (p' : Fun.CheckedProgram)
    (hn : programNamesOk p = true) (hc : checkProgram p = .ok p') (hv : validMain p' = true)
    (hmc : Fun.noMainCall p' = true) (hs : C02_noSigmaNames p' = true)
    (hcont : C12_noContType p' = true) : C12_conclusion p p' := by
  obtain ⟨st, F⟩ := C12_facts_proved p p' hn hc hv hmc hs hcont
  exact ⟨F.wt, F.annotated, st, F.ok, F.input2.typed, wtFsCheck_of_scoped F.scoped3, F.unique3,
    F.wtAx4, F.lin5, C12_codegenTotal_of_linTyped st.s5 F.lin5 (C12_mainHead5 hv F.ok).1⟩

/-- the code-generator link of Props/C12.lean holds for everything lexer + parser accept -/
theorem C12_source_link_codegen (mode : Fun.Parse.LiteralMode) (src : String) (p : Fun.Program)
    (p' : Fun.CheckedProgram) (st : Stages) (hparse : Fun.Parse.parse mode src = .ok p)
    (hc : checkProgram p = .ok p') (hv : validMain p' = true) (hmc : Fun.noMainCall p' = true)
    (hok : stages p' = .ok st) : C12_codegenTotal st.s5 := by
  obtain ⟨hn, hs, hcont⟩ := C12_source_names hparse hc
  obtain ⟨_, _, st', hok', _, _, _, _, _, h6⟩ := C12_final_ast p p' hn hc hv hmc hs hcont
  rw [hok] at hok'
  injection hok' with e
  rw [e]
  exact h6

/-- **C12, FINAL**: for every source text that lexer + parser accept (either literal mode) and the type
    checker accepts, with a valid `main` that is never called: the source is well-typed and annotated; the
    translation to Core, uniquification + focusing, shrinking and linearization all succeed; S2 passes
    Core's type checker, S3 passes `wtFsCheck` and `uniqueBindersCheck`, S4 passes `wtAxCheck`, S5 is
    `LinTypedProg`; and on S5 the three code generators (x86-64 incl. `intoRoutine`, AArch64, RISC-V)
    return code or one of the documented capacity messages `C12_capacityErrors` — for every hook setting
    and label counter.  No link hypothesis. -/
theorem C12_final (mode : Fun.Parse.LiteralMode) (src : String) (p : Fun.Program)
    (p' : Fun.CheckedProgram) (hparse : Fun.Parse.parse mode src = .ok p)
    (hc : checkProgram p = .ok p') (hv : validMain p' = true) (hmc : Fun.noMainCall p' = true) :
    C12_conclusion p p' := by
  obtain ⟨hn, hs, hcont⟩ := C12_source_names hparse hc
  exact C12_final_ast p p' hn hc hv hmc hs hcont

/-- `C12_statement` (Props/C12.lean) restricted to parser output IS a theorem -/
def C12_statement_source : Prop :=
  ∀ (mode : Fun.Parse.LiteralMode) (src : String) (p : Fun.Program) (p' : Fun.CheckedProgram),
    Fun.Parse.parse mode src = .ok p → checkProgram p = .ok p' → validMain p' = true →
    Fun.noMainCall p' = true → C12_conclusion p p'

theorem C12_statement_source_proved : C12_statement_source := C12_final

/-! ## the code generators, with the parameters of `main` counted -/

/-- the code generators' outcomes on the linearized program of a program with a valid `main` -/
def C12_codegenSharp (q5 : AxCut.Prog) : Prop :=
  ∀ (hooks : Bool) (c : Nat),
    ResOk (fun e => e = "Out of temporaries") (X86.compileX86 q5 hooks c) ∧
    (∀ body nargs, X86.compileX86 q5 hooks c = .ok (body, nargs) →
      ∃ r, X86.intoRoutine body nargs = .ok r) ∧
    ResOk (fun e => e = "Out of temporaries") (A64.compileProg A64.a64Backend q5 hooks c) ∧
    ResOk (fun e => e = "Out of registers" ∨ e = "not implemented in RISC-V backend")
      (RV.compileRoutine q5 hooks c)

theorem C12_codegenSharp_of_linTyped (q5 : AxCut.Prog) (htp : AxCut.LinTypedProg q5)
    (hne : q5.defs ≠ []) (hmain : ∀ d0 ds, q5.defs = d0 :: ds → d0.ctx.length ≤ 5) :
    C12_codegenSharp q5 := by
  intro hooks c
  refine ⟨C12_codegen_x86 q5 htp hne hooks c, ?_, ?_, C12_codegen_rv q5 htp hne hooks c⟩
  · intro body nargs h
    exact C12_routine_x86 q5 hooks c body nargs hmain h
  · exact C12_codegen_a64_main q5 htp hne hooks c
      (fun d0 ds h => Nat.le_trans (hmain d0 ds h) (by decide))

/-- **C12, final, sharp form of the code-generator clause**: `validMain` bounds the parameters of `main`
    by 5, so "too many arguments for main" is not reachable: x86-64 `intoRoutine` never fails, x86-64 /
    AArch64 code generation fails only with "Out of temporaries", RISC-V only with "Out of registers" or
    the documented "not implemented in RISC-V backend" -/
theorem C12_final_sharp (mode : Fun.Parse.LiteralMode) (src : String) (p : Fun.Program)
    (p' : Fun.CheckedProgram) (hparse : Fun.Parse.parse mode src = .ok p)
    (hc : checkProgram p = .ok p') (hv : validMain p' = true) (hmc : Fun.noMainCall p' = true) :
    ∃ st : Stages, stages p' = .ok st ∧ AxCut.LinTypedProg st.s5 ∧ C12_codegenSharp st.s5 := by
  obtain ⟨hn, hs, hcont⟩ := C12_source_names hparse hc
  obtain ⟨st, F⟩ := C12_facts_proved p p' hn hc hv hmc hs hcont
  obtain ⟨hne, hmain⟩ := C12_mainHead5 hv F.ok
  exact ⟨st, F.ok, F.lin5, C12_codegenSharp_of_linTyped st.s5 F.lin5 hne hmain⟩

/-! ## C18: every later stage terminates normally -/

/-- the capacity messages of the back ends — the ONLY error messages any stage model can return on an
    accepted program with a valid `main` that is not called -/
def C18_capacityMessages : List String :=
  ["Out of temporaries", "Out of registers", "not implemented in RISC-V backend"]

/-- a result or an error whose message, after an optional stage prefix, is a capacity message -/
def C18_okOrCap {α : Type} (pre : String) : Except String α → Prop
  | .ok _ => True
  | .error e => ∃ m ∈ C18_capacityMessages, e = pre ++ m

theorem C18_capacity_sub : ∀ m ∈ C18_capacityMessages, m ∈ C12_capacityErrors := by decide

theorem C18_okOrCap_of_resOk {α : Type} {cap : String → Prop} {r : Except String α}
    (hcap : ∀ e, cap e → e ∈ C18_capacityMessages) (h : ResOk cap r) : C18_okOrCap "" r := by
  cases r with
  | ok a => trivial
  | error e => exact ⟨e, hcap e h, by simp⟩

/-- `backEndX86` on a program on which `compileX86` fails only for capacity and `intoRoutine` not at all:
    the only error is the tagged capacity message of `compileX86` -/
theorem C18_backEndX86_error {q5 : AxCut.Prog} (h : C12_codegenSharp q5) (hooks : Bool) (c : Nat)
    (e : String) (he : backEndX86 hooks c q5 = .error e) : e = "S6x compile: Out of temporaries" := by
  obtain ⟨h1, h2, _, _⟩ := h hooks c
  unfold backEndX86 at he
  cases hx : X86.compileX86 q5 hooks c with
  | error e' =>
    rw [hx] at h1
    have h1 : e' = "Out of temporaries" := h1
    simp only [hx, tagErr, Except.error.injEq] at he
    rw [← he, h1]
    decide
  | ok r =>
    obtain ⟨body, nargs⟩ := r
    obtain ⟨rt, hrt⟩ := h2 body nargs hx
    simp [hx, tagErr, hrt] at he

theorem C18_backEndX86 {q5 : AxCut.Prog} (h : C12_codegenSharp q5) (hooks : Bool) (c : Nat) :
    C18_okOrCap "S6x compile: " (backEndX86 hooks c q5) := by
  cases hb : backEndX86 hooks c q5 with
  | ok r => trivial
  | error e =>
    refine ⟨"Out of temporaries", by decide, ?_⟩
    rw [C18_backEndX86_error h hooks c e hb]
    decide

/-- what "terminates normally" means for the stages of one compilation: every stage function of the
    composed model returns `ok`, and every back-end function returns `ok` or a capacity message -/
structure C18_LaterStages (p' : Fun.CheckedProgram) (st : Stages) : Prop where
  s2 : stageS2 p' = .ok st.s2
  s3 : stageS3 st.s2 = .ok st.s3
  s4 : stageS4 st.s3 = .ok st.s4
  s5 : stageS5 st.s4 = .ok st.s5
  all : stages p' = .ok st
  middle : middleEnd p' = .ok st.s5
  x86 : ∀ hooks c, C18_okOrCap "" (X86.compileX86 st.s5 hooks c)
  x86routine : ∀ hooks c body nargs, X86.compileX86 st.s5 hooks c = .ok (body, nargs) →
    ∃ r, X86.intoRoutine body nargs = .ok r
  x86back : ∀ hooks c, C18_okOrCap "S6x compile: " (backEndX86 hooks c st.s5)
  x86all : ∀ hooks c, C18_okOrCap "S6x compile: " (compileAllX86 hooks c p')
  a64 : ∀ hooks c, C18_okOrCap "" (A64.compileProg A64.a64Backend st.s5 hooks c)
  rv : ∀ hooks c, C18_okOrCap "" (RV.compileRoutine st.s5 hooks c)

theorem C18_laterStages_of {p' : Fun.CheckedProgram} {st : Stages} (hok : stages p' = .ok st)
    (h6 : C12_codegenSharp st.s5) : C18_LaterStages p' st := by
  obtain ⟨e2, e3, e4, e5⟩ := stages_ok_iff.1 hok
  have hmid : middleEnd p' = .ok st.s5 := middleEnd_ok_iff.2 ⟨st, hok, rfl⟩
  refine
    { s2 := tagErr_ok.2 e2, s3 := tagErr_ok.2 e3, s4 := tagErr_ok.2 e4, s5 := tagErr_ok.2 e5
      all := hok, middle := hmid
      x86 := fun hooks c => C18_okOrCap_of_resOk ?_ (h6 hooks c).1
      x86routine := fun hooks c => (h6 hooks c).2.1
      x86back := C18_backEndX86 h6
      x86all := ?_
      a64 := fun hooks c => C18_okOrCap_of_resOk ?_ (h6 hooks c).2.2.1
      rv := fun hooks c => C18_okOrCap_of_resOk ?_ (h6 hooks c).2.2.2 }
  · intro e he; rw [he]; decide
  · intro hooks c
    unfold compileAllX86
    rw [hmid]
    exact C18_backEndX86 h6 hooks c
  · intro e he; rw [he]; decide
  · rintro e (he | he) <;> (rw [he]; decide)

/-- **C18, later stages** ("for every accepted program with a valid entry point every later stage
    terminates normally … the only exception being the explicit capacity assertion of the backends"):
    for every source text that parser and checker accept, with a valid `main` (at most five integer
    parameters, integer result) that is not called (D13), NO stage model returns an error / panic outcome
    other than a capacity message of `C18_capacityMessages`:
    translation to Core, uniquify + focus, shrinking, linearization: `ok`;
    x86-64 code generation: `ok` | "Out of temporaries"; x86-64 `intoRoutine`: `ok`;
    AArch64: `ok` | "Out of temporaries";
    RISC-V: `ok` | "Out of registers" | "not implemented in RISC-V backend". -/
theorem C18_later_stages_total (mode : Fun.Parse.LiteralMode) (src : String) (p : Fun.Program)
    (p' : Fun.CheckedProgram) (hparse : Fun.Parse.parse mode src = .ok p)
    (hc : checkProgram p = .ok p') (hv : validMain p' = true) (hmc : Fun.noMainCall p' = true) :
    ∃ st : Stages, C18_LaterStages p' st := by
  obtain ⟨st, hok, _, h6⟩ := C12_final_sharp mode src p p' hparse hc hv hmc
  exact ⟨st, C18_laterStages_of hok h6⟩

/-! ## C18 from the text (repaired literal action): result, diagnostic, or capacity message -/

theorem frontEnd_of_parse_check {src : String} {p : Fun.Program} {p' : Fun.CheckedProgram}
    (hp : Fun.Parse.parse .diagOnOverflow src = .ok p) (hc : checkProgram p = .ok p') :
    frontEnd src = .ok p p' := by
  simp [frontEnd, hp, hc]

/-- `frontEnd src = ok p p'` means: the parser returns `p` and the checker accepts it with output `p'` -/
theorem frontEnd_ok_iff {src : String} {p : Fun.Program} {p' : Fun.CheckedProgram} :
    frontEnd src = .ok p p' ↔
      Fun.Parse.parse .diagOnOverflow src = .ok p ∧ checkProgram p = .ok p' := by
  constructor
  · intro hf
    cases hp : Fun.Parse.parse .diagOnOverflow src with
    | diag d => simp [frontEnd, hp] at hf
    | panic s => cases s; simp [frontEnd, hp] at hf
    | ok q =>
      cases hc : checkProgram q with
      | ok q' =>
        simp only [frontEnd, hp, hc, Outcome.ok.injEq] at hf
        obtain ⟨rfl, rfl⟩ := hf
        exact ⟨rfl, hc⟩
      | diag d => simp [frontEnd, hp, hc] at hf
      | panic s => simp [frontEnd, hp, hc] at hf
  · rintro ⟨hp, hc⟩
    exact frontEnd_of_parse_check hp hc

/-- the front end of the composed model never panics: the parser by `C18_parse_statement_fixed`, the
    checker by `C15_no_panic` on parser output (`programNamesOk_of_parse`) -/
theorem C18_frontEnd_no_panic (src : String) (site : String) : frontEnd src ≠ .panic site := by
  cases hp : Fun.Parse.parse .diagOnOverflow src with
  | diag c => simp [frontEnd, hp]
  | panic s => exact absurd hp (C18_parse_statement_fixed src s)
  | ok p =>
    have hn := Fun2Core.Typed.programNamesOk_of_parse hp
    cases hc : checkProgram p with
    | ok p' => simp [frontEnd, hp, hc]
    | diag c => simp [frontEnd, hp, hc]
    | panic s => exact absurd hc (C15_no_panic p s hn)

/-- the outcome classes of the whole compiler on a text: code, a diagnostic, or a capacity message -/
def C18_textOutcomeOk : Except String (Nat × String) → Prop
  | .ok _ => True
  | .error e => (∃ c, e = "S0 DIAG " ++ c) ∨ (∃ c, e = "S1 DIAG " ++ c) ∨
      e = "S6x compile: Out of temporaries"

/-- **C18 for the composed model, from the text**: for every input text, either parser or checker report
    a diagnostic, or — when `main` is valid and not called — the compiler returns the routine text or the
    capacity message; never a panic outcome.  (The premises on `main` are phrased on `frontEnd src`.) -/
theorem C18_text_total (src : String) (hooks : Bool) (c : Nat)
    (hmain : ∀ p p', frontEnd src = .ok p p' → validMain p' = true ∧ Fun.noMainCall p' = true) :
    C18_textOutcomeOk (compileTextX86 hooks c src) := by
  cases hf : frontEnd src with
  | parseDiag d => simp only [compileTextX86, hf]; exact .inl ⟨d, rfl⟩
  | checkDiag d => simp only [compileTextX86, hf]; exact .inr (.inl ⟨d, rfl⟩)
  | panic s => exact absurd hf (C18_frontEnd_no_panic src s)
  | ok p p' =>
    obtain ⟨hv, hmc⟩ := hmain p p' hf
    obtain ⟨hp, hc⟩ := frontEnd_ok_iff.1 hf
    obtain ⟨st, hok, _, h6⟩ := C12_final_sharp .diagOnOverflow src p p' hp hc hv hmc
    have hmid : middleEnd p' = .ok st.s5 := middleEnd_ok_iff.2 ⟨st, hok, rfl⟩
    simp only [compileTextX86, hf, compileAllX86, hmid]
    cases hb : backEndX86 hooks c st.s5 with
    | ok r => trivial
    | error e => exact .inr (.inr (C18_backEndX86_error h6 hooks c e hb))

/-! ## non-vacuity: the example sources of Props/C12.lean and Props/C12Fun2Core.lean satisfy the four
premises, and what the theorems assert is re-evaluated on them by the kernel -/

/-- the four premises of `C12_final` on a source text (repaired literal action) -/
def C12_finalPremises (src : String) : Bool :=
  match Fun.Parse.parse .diagOnOverflow src with
  | .ok p =>
    match checkProgram p with
    | .ok p' => validMain p' && Fun.noMainCall p'
    | _ => false
  | _ => false

theorem C12_finalPremises_iff {src : String} (h : C12_finalPremises src = true) :
    ∃ p p', Fun.Parse.parse .diagOnOverflow src = .ok p ∧ checkProgram p = .ok p' ∧
      validMain p' = true ∧ Fun.noMainCall p' = true := by
  cases hp : Fun.Parse.parse .diagOnOverflow src with
  | ok p =>
    cases hc : checkProgram p with
    | ok p' =>
      simp only [C12_finalPremises, hp, hc, Bool.and_eq_true] at h
      exact ⟨p, p', rfl, hc, h.1, h.2⟩
    | diag c => simp [C12_finalPremises, hp, hc] at h
    | panic c => simp [C12_finalPremises, hp, hc] at h
  | diag c => simp [C12_finalPremises, hp] at h
  | panic c => simp [C12_finalPremises, hp] at h

set_option maxRecDepth 100000 in
theorem C12_final_example1 : C12_finalPremises C12_exSrc = true := by decide +kernel

set_option maxRecDepth 100000 in
theorem C12_final_example2 : C12_finalPremises C12_f2cExSrc2 = true := by decide +kernel

/-- the conclusion of C12 holds for the list-sum program (data type, recursion, `case`, `let`, call,
    `println_i64`) … -/
example : ∃ p p', Fun.Parse.parse .diagOnOverflow C12_exSrc = .ok p ∧ checkProgram p = .ok p' ∧
    C12_conclusion p p' ∧ ∃ st, C18_LaterStages p' st := by
  obtain ⟨p, p', hp, hc, hv, hmc⟩ := C12_finalPremises_iff C12_final_example1
  exact ⟨p, p', hp, hc, C12_final _ _ p p' hp hc hv hmc,
    C18_later_stages_total _ _ p p' hp hc hv hmc⟩

/-- … and for the program with codata, `new`, a destructor call, label / goto, a covariable parameter -/
example : ∃ p p', Fun.Parse.parse .diagOnOverflow C12_f2cExSrc2 = .ok p ∧ checkProgram p = .ok p' ∧
    C12_conclusion p p' ∧ ∃ st, C18_LaterStages p' st := by
  obtain ⟨p, p', hp, hc, hv, hmc⟩ := C12_finalPremises_iff C12_final_example2
  exact ⟨p, p', hp, hc, C12_final _ _ p p' hp hc hv hmc,
    C18_later_stages_total _ _ p p' hp hc hv hmc⟩

/-- independent re-evaluation of the decidable content of the conclusions on a source text: the stages
    succeed, every stage checker accepts, x86-64 and AArch64 produce code, RISC-V produces code or a
    capacity message (both examples print, so RISC-V answers "not implemented in RISC-V backend") -/
def C12_finalEval (src : String) : Bool :=
  match frontEnd src with
  | .ok _ p' =>
    match stages p' with
    | .ok st =>
      st.s2.wellTyped && Core2AxCut.wtFsCheck st.s3 && Core.uniqueBindersCheck st.s3 &&
      C12_isOk (AxCut.Named.wtAxCheck st.s4) && C12_isOk (AxCut.linTypedCheck st.s5) &&
      C12_isOk (compileAllX86 true 0 p') && C12_isOk (A64.compileProg A64.a64Backend st.s5 true 0) &&
      C12_okOrCapacityB (RV.compileRoutine st.s5 true 0)
    | .error _ => false
  | _ => false

set_option maxRecDepth 100000 in
theorem C12_final_eval1 : C12_finalEval C12_exSrc = true := by decide +kernel

set_option maxRecDepth 100000 in
theorem C12_final_eval2 : C12_finalEval C12_f2cExSrc2 = true := by decide +kernel

/-- `C18_text_total` on the first example: its premise holds -/
example : ∀ p p', frontEnd C12_exSrc = .ok p p' → validMain p' = true ∧ Fun.noMainCall p' = true := by
  obtain ⟨p0, p0', hp, hc, hv, hmc⟩ := C12_finalPremises_iff C12_final_example1
  intro p p' hf
  rw [frontEnd_of_parse_check hp hc] at hf
  simp only [Outcome.ok.injEq] at hf
  obtain ⟨_, rfl⟩ := hf
  exact ⟨hv, hmc⟩

/-- the premise `noMainCall` is necessary (finding D13, a defect of /repo): see `C12_statement_full_false` -/
example : ¬ C12_statement_full := C12_statement_full_false

#print axioms C12_mainArity_le
#print axioms C12_mainHead5
#print axioms C12_final_ast
#print axioms C12_source_link_codegen
#print axioms C12_final
#print axioms C12_statement_source_proved
#print axioms C12_codegenSharp_of_linTyped
#print axioms C12_final_sharp
#print axioms C18_laterStages_of
#print axioms C18_later_stages_total
#print axioms C18_frontEnd_no_panic
#print axioms C18_text_total
#print axioms C12_final_example1
#print axioms C12_final_example2
#print axioms C12_final_eval1
#print axioms C12_final_eval2

end Scc.Props
