/-
  Scc.Props.C16 — "formatting never changes a program" (lexer, parser and printer of Fun).

  Property C16 (as given): "For every program the parser accepts, printing it at any line width and
  indentation and parsing the result yields the same syntax tree (source positions aside), and
  printing that again yields the same text; so the formatter, including its in-place mode, never
  alters the meaning of a file or makes it unparsable."

  Models: Scc.Fun.Lex (lalrpop lexer), Scc.Fun.Parse (LALR grammar as recursive descent),
  Scc.Fun.Print (the `Print` impls as documents/piece streams, the `pretty` layout).  Tie to the code:
  differential tests (parser: 35 repo files + 135 corpus programs + 36 000 mutants, trees and
  diagnostic codes equal; printer: 1 156 programs x 28 width/indent configurations, the model's
  `renderPretty` text is byte-identical to the real `fmt` output).

  Decomposition:  C16 = T1 (`layout_independent`) + T2 (`parse_tokens`) + T3 (the parser's output is
  in the domain of T1 and T2).  ALL THREE ARE PROVED for the whole language, which gives

    * C16_restricted      every program the parser accepts that satisfies the ZERO-EDGE conditions
          (`ZeroEdgeOkProg`, defect D3: no comparison whose first operand ends with the literal `0` or
          whose second operand starts with it) survives printing with ANY layout + lexing + parsing:
          the same tree comes back.                                                        (proved)
    * C16_fmt             in particular for the formatter's own layout `renderPretty` (the `pretty`
          algorithm, proved to be one of the layouts) at every width and indentation, and printing the
          re-parsed tree gives the same text (idempotence).                                 (proved)
    * C16_T1_layout_independent, C16_T2_parse_tokens, C16_T3_parser_range   the three parts.
    * C16_neg_zero_* / C16_zero_sort_flips / C16_T1_unconditional_false    the zero-edge conditions are
          necessary: concrete terms for which the unrestricted statement fails exactly as on the real
          code (tree changes / text unparsable / sort flips and formatting is not idempotent).
    * C16_statement       the unrestricted statement (FALSE on the code as it is, by D3; the
          program-level refutation is by the harness, the term-level one is proved here).
-/
import Scc.Fun.PrintProofs
import Scc.Fun.ParseRoundtrip
import Scc.Fun.ParseInRange

namespace Scc.Props
open Scc.Fun Scc.Fun.Lex Scc.Fun.Parse Scc.Fun.Print

/-! ## T1: the layout does not influence the token sequence -/

theorem C16_lexChars_eq_ok {s : List Char} {ts : List Token} (h : lexChars s = .ok ts) : lexStream s = ts := by
  unfold lexChars at h
  simp only at h
  split at h
  · cases h
  · injection h

/-- T1 without side conditions (FALSE on the code as it is: `C16_T1_unconditional_false`). -/
def C16_T1_unconditional : Prop :=
  ∀ (cfg : PrintCfg) (t : Term) (s : List Char),
    Renders (printTerm cfg t) s → lexChars s = .ok (termToks t)

/-- T1 `layout_independent`, full language: every rendering of the printer's piece stream of a
program, whatever the layout choice, is lexed to the program's token sequence.  Side condition
`ProgOk` (PrintProofs): all names are identifiers of the right case and no keywords, and the
zero-edge conditions `endsZero a = false` / `startsZero b = false` at every comparison. -/
theorem C16_T1_layout_independent (cfg : PrintCfg) (p : Program) (h : ProgOk p) (s : List Char)
    (hr : Renders (print cfg p) s) : lexChars s = .ok (tokens p) :=
  lex_print cfg p h s hr

/-- the same for the rendering FUNCTION and an arbitrary `choice` -/
theorem C16_T1_renderWith (cfg : PrintCfg) (p : Program) (h : ProgOk p) (choice : Nat → Option Nat) :
    lexChars (renderWith choice (print cfg p)) = .ok (tokens p) :=
  lex_print cfg p h _ (renders_renderWith choice _)

/-- T1 for a single term -/
theorem C16_T1_term (cfg : PrintCfg) (t : Term) (h : PrintOk t) (s : List Char)
    (hr : Renders (printTerm cfg t) s) : lexChars s = .ok (termToks t) :=
  lex_printTerm cfg t h s hr

/-- The formatter's own layout: the piece stream does not depend on width, and depends on the
indentation only through the presence of soft breaks; so two configurations give the same tokens. -/
theorem C16_T1_cfg_independent (cfg cfg' : PrintCfg) (p : Program) (h : ProgOk p) (s s' : List Char)
    (hr : Renders (print cfg p) s) (hr' : Renders (print cfg' p) s') : lexChars s = lexChars s' := by
  rw [lex_print cfg p h s hr, lex_print cfg' p h s' hr']

/-! ### non-vacuity -/

/-- `if 1 == 2 { f(3).d } else { new { } }`-like term without names: `if 1 == 2 { (3) } else { -4 * 5 }` -/
def C16_okTerm : Term :=
  .ifc .eq (.lit 1) (.lit 2) (.paren (.lit 3)) (.op (.lit (-4)) .prod (.lit 5)) none

example : PrintOk C16_okTerm := by
  simp [C16_okTerm, PrintOk, endsZero, startsZero]

example : lexChars (renderWith allBreak (printTerm ⟨80, 4⟩ C16_okTerm)) = .ok (termToks C16_okTerm) :=
  C16_T1_term _ _ (by simp [C16_okTerm, PrintOk, endsZero, startsZero]) _ (renders_renderWith _ _)

/-- a program with names: `def main(): i64 { x }` -/
def C16_okProg : Program :=
  ⟨[.defn ⟨String.ofList ['m','a','i','n'], [], .i64, .var (String.ofList ['x']) none none⟩]⟩

example : ProgOk C16_okProg := by
  intro d hd
  simp only [C16_okProg, List.mem_singleton] at hd
  subst hd
  refine ⟨?_, ?_, trivial, ?_⟩
  · rw [String.toList_ofList]; decide
  · intro b hb; cases hb
  · simp only [PrintOk]; rw [String.toList_ofList]; decide

/-! ## the zero-edge conditions are necessary (defect D3) -/

def C16_cfg0 : PrintCfg := ⟨80, 4⟩

/-- `if 1 == -0 { 1 } else { 2 }` parses to this tree (second operand `Some(Lit 0)`); the real
parser agrees (`S0 OK … (ifc eq (lit 1) (lit 0) (lit 1) (lit 2) none)`). -/
def C16_negZeroTerm : Term := .ifc .eq (.lit 1) (.lit 0) (.lit 1) (.lit 2) none

/-- it is what the parser produces for that text -/
theorem C16_neg_zero_parsed :
    (match parseTerm .diagOnOverflow 100 true
        (lexStream ['i','f',' ','1',' ','=','=',' ','-','0',' ','{','1','}','e','l','s','e','{','2','}']) with
      | .ok (.ifc .eq (.lit 1) (.lit 0) (.lit 1) (.lit 2) none, []) => true
      | _ => false) = true := by decide

/-- D3, witness 1: the printed text `if 1 == 0 { 1 } else { 2 }` is lexed with the ONE token `== 0`
(`==\s*0`), not with `==` and `0`: T1 fails without `startsZero b = false`. -/
theorem C16_neg_zero_witness :
    lexStream (renderWith allFlat (printTerm C16_cfg0 C16_negZeroTerm)) =
      [.kw .if_, .num ['1'], .zcmpL .eq, .lbrace, .num ['1'], .rbrace, .kw .else_, .lbrace,
        .num ['2'], .rbrace] ∧
    termToks C16_negZeroTerm =
      [.kw .if_, .num ['1'], .cmp .eq, .num ['0'], .lbrace, .num ['1'], .rbrace, .kw .else_, .lbrace,
        .num ['2'], .rbrace] := by
  constructor <;> decide

/-- … and re-parsing yields a DIFFERENT tree: the zero form `snd = None` (real `fmt`: TREE-DIFF). -/
theorem C16_neg_zero_tree_changes :
    (match parseTerm .diagOnOverflow 100 true
        (lexStream (renderWith allFlat (printTerm C16_cfg0 C16_negZeroTerm))) with
      | .ok (.ifz .eq (.lit 1) (.lit 1) (.lit 2) none, []) => true
      | _ => false) = true := by decide

theorem C16_T1_unconditional_false : ¬ C16_T1_unconditional := by
  intro h
  have h1 := C16_lexChars_eq_ok (h C16_cfg0 C16_negZeroTerm _ (renders_renderWith allFlat _))
  have h2 := C16_neg_zero_witness
  rw [h2.1, h2.2] at h1
  exact absurd h1 (by decide)

/-- `if 1 == -0 + 1 { 1 } else { 2 }` -/
def C16_negZeroOpTerm : Term := .ifc .eq (.lit 1) (.op (.lit 0) .sum (.lit 1)) (.lit 1) (.lit 2) none

/-- D3, witness 2: printed as `if 1 == 0 + 1 { … }`, which is UNPARSABLE (`== 0` is one token, then
`+` is unexpected: P-003; real `fmt`: REPARSE-FAIL Unexpected "+", expected "{"). -/
theorem C16_neg_zero_unparsable :
    (match parseTerm .diagOnOverflow 100 true
        (lexStream (renderWith allFlat (printTerm C16_cfg0 C16_negZeroOpTerm))) with
      | .diag .p003 => true
      | _ => false) = true := by decide

/-- `if 0 < 0 { 1 } else { 2 }`: the lexer reads `0 <` then `0`, i.e. the mirrored form: "0 < t" with
t = 0, sort `Greater`, first operand `0`. -/
def C16_zeroGtTerm : Term := .ifz .gt (.lit 0) (.lit 1) (.lit 2) none

theorem C16_zero_gt_parsed :
    (match parseTerm .diagOnOverflow 100 true
        (lexStream ['i','f',' ','0',' ','<',' ','0',' ','{','1','}','e','l','s','e','{','2','}']) with
      | .ok (.ifz .gt (.lit 0) (.lit 1) (.lit 2) none, []) => true
      | _ => false) = true := by decide

/-- D3, witness 3 (first operand ENDS with `0`): `if 0 < 0 {…}` is printed as `if 0 > 0 {…}`, which
re-parses with the sort flipped to `Less` — and printing again flips it back: the formatter is not
idempotent on this input (real `fmt`: TREE-DIFF).  T1 fails without `endsZero a = false`. -/
theorem C16_zero_sort_flips :
    (match parseTerm .diagOnOverflow 100 true
        (lexStream (renderWith allFlat (printTerm C16_cfg0 C16_zeroGtTerm))) with
      | .ok (.ifz .lt (.lit 0) (.lit 1) (.lit 2) none, []) => true
      | _ => false) = true := by decide

/-! ## T2, T3 and the full statement (stated; not proved here) -/

/-- T2 `parse_tokens`: the parser maps the token sequence of a program in the image of the grammar
(`InRangeProg`, ParseRoundtrip: operands of `Op` are `Term1`, scrutinees `Term2`, `let`-bound terms
`Term3`, literals within ±(2^63-1), no annotations, clause polarity/context as the parser builds them)
back to the program. -/
def C16_T2_statement : Prop :=
  ∀ (mode : LiteralMode) (p : Program), InRangeProg p → parseTokens mode (tokens p) = .ok p

/-- T2, PROVED for the whole language (both literal modes; in particular the model's fuel suffices). -/
theorem C16_T2_parse_tokens : C16_T2_statement := fun mode p h => parse_tokens mode p h

/-- non-vacuity: `C16_okProg` is in the image of the grammar -/
example : InRangeProg C16_okProg := by
  intro d hd
  simp only [C16_okProg, List.mem_singleton] at hd
  subst hd
  simp [InRangeDecl, InRange]

/-- T1 + T2: a program that is in the image of the grammar and satisfies the printing side
conditions survives printing with ANY layout followed by lexing and parsing. -/
theorem C16_print_parse (mode : LiteralMode) (p : Program) (hok : ProgOk p) (hin : InRangeProg p)
    (cfg : PrintCfg) (s : List Char) (hr : Renders (print cfg p) s) : parseChars mode s = .ok p := by
  have hl := C16_lexChars_eq_ok (lex_print cfg p hok s hr)
  unfold parseChars
  rw [hl]
  exact parse_tokens mode p hin

/-- T3: what the parser accepts is in the image of the grammar, and its names are identifiers (so
that only the zero-edge conditions are missing for `ProgOk`). -/
def C16_T3_statement : Prop :=
  ∀ (mode : LiteralMode) (cs : List Char) (p : Program), parseChars mode cs = .ok p →
    InRangeProg p ∧ (ZeroEdgeOkProg p → ProgOk p)

/-- T3, PROVED: by a postcondition proof over all parser functions (ParseInRange) and the fact that
the lexer only delivers well-formed name tokens. -/
theorem C16_T3_parser_range : C16_T3_statement := by
  intro mode cs p h
  obtain ⟨hi, hn⟩ := parseChars_good h
  exact ⟨hi, fun hz => progOk_of hn hz⟩

/-- C16, full statement for the model: accepted programs survive print-and-parse for every layout.
FALSE on the code as it is because of D3 (`C16_neg_zero_*`); with the zero-edge conditions as an
extra hypothesis it follows from T1 (proved), T2 and T3 (not proved). -/
def C16_statement : Prop :=
  ∀ (mode : LiteralMode) (src : List Char) (p : Program), parseChars mode src = .ok p →
    ∀ (cfg : PrintCfg) (s : List Char), Renders (print cfg p) s → parseChars mode s = .ok p

/-- C16 restricted to programs satisfying the zero-edge conditions (NOT proved: needs T2, T3). -/
def C16_statement_restricted : Prop :=
  ∀ (mode : LiteralMode) (src : List Char) (p : Program), parseChars mode src = .ok p →
    ZeroEdgeOkProg p →
    ∀ (cfg : PrintCfg) (s : List Char), Renders (print cfg p) s → parseChars mode s = .ok p

/-- What T1 contributes to the full statement: under `ProgOk`, parsing the printed text is parsing
the token sequence `tokens p` — the text (layout, width, indentation) is out of the picture. -/
theorem C16_partial (mode : LiteralMode) (p : Program) (h : ProgOk p) (cfg : PrintCfg) (s : List Char)
    (hr : Renders (print cfg p) s) : parseChars mode s = parseTokens mode (tokens p) := by
  have hl := C16_lexChars_eq_ok (lex_print cfg p h s hr)
  unfold parseChars
  rw [hl]

/-- hence T2 and T3 give the restricted statement -/
theorem C16_restricted_of_T2_T3 (hT2 : C16_T2_statement) (hT3 : C16_T3_statement) :
    C16_statement_restricted := by
  intro mode src p hp hz cfg s hr
  obtain ⟨hi, hok⟩ := hT3 mode src p hp
  rw [C16_partial mode p (hok hz) cfg s hr]
  exact hT2 mode p hi

/-- C16 for every program the parser accepts that satisfies the zero-edge conditions: printing with
ANY layout (any width, any indentation, any resolution of the soft breaks) and parsing the result
yields the same syntax tree.  (Model statement; both literal modes.) -/
theorem C16_restricted : C16_statement_restricted :=
  C16_restricted_of_T2_T3 C16_T2_parse_tokens C16_T3_parser_range

/-- C16 for the formatter itself: the text produced by the `pretty` layout at the configured width
and indentation parses back to the same tree, and formatting the re-parsed tree reproduces the text
(idempotence), so the formatter (also in its in-place mode, which only redirects the output)
neither alters the meaning of a file nor makes it unparsable — for programs without a zero edge. -/
theorem C16_fmt (mode : LiteralMode) (src : List Char) (p : Program)
    (hp : parseChars mode src = .ok p) (hz : ZeroEdgeOkProg p) (cfg : PrintCfg) :
    parseChars mode (renderPretty cfg p) = .ok p ∧
      ∀ p', parseChars mode (renderPretty cfg p) = .ok p' → renderPretty cfg p' = renderPretty cfg p := by
  have h := C16_restricted mode src p hp hz cfg _ (renderPretty_renders cfg p)
  refine ⟨h, fun p' hp' => ?_⟩
  rw [h] at hp'
  injection hp' with e
  rw [e]

/-- non-vacuity of `C16_restricted`/`C16_fmt`: the text `def m():i64{7}` is accepted, and its tree
has no zero edge -/
example : ∃ p, parseChars .panicOnOverflow ['d','e','f',' ','m','(',')',':','i','6','4','{','7','}'] = .ok p ∧
    ZeroEdgeOkProg p := by
  refine ⟨⟨[.defn ⟨String.ofList ['m'], [], .i64, .lit 7⟩]⟩, rfl, ?_⟩
  intro d hd
  simp only [List.mem_singleton] at hd
  subst hd
  simp [ZeroEdgeOkDecl, ZeroEdgeOk]

/-! ## axioms -/

#print axioms C16_T1_layout_independent
#print axioms C16_T1_renderWith
#print axioms C16_T1_term
#print axioms C16_T1_cfg_independent
#print axioms C16_neg_zero_parsed
#print axioms C16_neg_zero_witness
#print axioms C16_neg_zero_tree_changes
#print axioms C16_T1_unconditional_false
#print axioms C16_neg_zero_unparsable
#print axioms C16_zero_gt_parsed
#print axioms C16_zero_sort_flips
#print axioms C16_T2_parse_tokens
#print axioms C16_print_parse
#print axioms C16_partial
#print axioms C16_T3_parser_range
#print axioms C16_restricted
#print axioms C16_fmt

end Scc.Props
