/-
  Scc.Props.C15 — the Fun type checker accepts exactly the well-typed programs.

  Property C15 (as given): "Every program built to be well-typed (all constructs, polymorphic
  declarations instantiated at several types, shadowing, covariable parameters) is accepted, and every
  program that differs from a well-typed one by a single certainly ill-typed edit (wrong argument count or
  type, unbound name, missing, extra or duplicated clause, wrong number of binders or type arguments,
  producer used as consumer or vice versa, duplicate declaration) is rejected with a diagnostic."

  Model of the code: `Scc.Fun.Check` (transcription of /repo/lang/fun typing/ and the `check` methods,
  tied to the implementation by exact equality of the annotated tree / of the diagnostic code on the
  repo's files, a corpus of well-typed programs and > 10 000 mutants).
  Specification: `Scc.Fun.Typing` (`WT`, declarative, no symbol table / printed names / state).

  What is proved here about THE CODE AS IT IS (after the repairs of New::check and Goto::check,
  both found with this machinery; before them completeness was false, see (e)):
    C15_full               the full statement `C15_statement`                                       (proved)
    (a) C15_printTy_injective, C15_instName_injective   keying the tables by printed names is keying
                                                        by structure (names are identifiers)        (proved)
    (b) C15_sound          checkProgram p = ok p' → WT p ∧ p' is p up to annotations and clause order
                           ∧ every type declaration of p' is an instance of a template of p         (proved)
        C15_reject_not_WT  ¬ WT p → the checker does not accept                                     (proved)
    (c) C15_annotated      the output has all `ty`/`chi`/clause-context annotations filled          (proved, no hypotheses)
    (d) C15_mut_*          the "certainly ill-typed edits" are not `WT` (hence rejected, by (b))     (proved, see list)
    (e) C15_complete       WT p → accepted;  C15_no_panic: a rejection is a diagnostic, never a panic (proved)
        C15_wtCheck_iff_WT the run-time oracle `wtCheck` decides `WT`
  Hypothesis throughout: `programNamesOk p` (all type/xtor names are identifiers — what the lexer
  produces; (a) shows why it is needed: `A[i64]` as a NAME collides with the instance `A[i64]`).
  Known, not a violation of the property text: `WT` only asks declarations to be name-scoped, as the
  checker does; `data D { K(x: List) }` with a 1-ary `List` is accepted (corpus f06), `WTstrict` rejects it.
-/
import Scc.Fun.CheckNoPanic

namespace Scc.Props
open Scc.Fun Scc.Fun.Check Scc.Fun.Typing

/-! ## the statement -/

/-- C15, full statement: on programs whose names are identifiers (what the parser produces), the
checker accepts the well-typed programs and rejects all others with a diagnostic (never a panic). -/
def C15_statement : Prop :=
  ∀ p : Program, programNamesOk p = true →
    (WT p → ∃ p', checkProgram p = .ok p') ∧ (¬ WT p → ∃ code, checkProgram p = .diag code)

/-- the soundness half (accepted ⇒ well-typed), with what is known about the output -/
def C15_soundness_statement : Prop :=
  ∀ (p : Program) (p' : CheckedProgram), programNamesOk p = true → checkProgram p = .ok p' →
    WT p ∧ DefsErase p'.defs (defs p) ∧ InstancesOf printTyArgs p p' ∧ annotatedProgram p' = true

/-- the completeness half -/
def C15_completeness_statement : Prop :=
  ∀ p : Program, programNamesOk p = true → WT p → ∃ p', checkProgram p = .ok p'

/-- rejected programs get a diagnostic, not a panic -/
def C15_no_panic_statement : Prop :=
  ∀ (p : Program) (site : String), programNamesOk p = true → checkProgram p ≠ .panic site

/-! ## (a) printed names are injective -/

/-- Type names contain no `[`, `]`, `,` (and are not `i64`): two types with the same printed form are
the same type, so keying the symbol table by printed names is keying by structure. -/
theorem C15_printTy_injective (a b : Ty) (ha : tyNamesOk a = true) (hb : tyNamesOk b = true)
    (h : printTy a = printTy b) : a = b :=
  printTy_inj ha hb h

/-- instance names `Cons[i64]`, `List[Pair[i64, i64]]` determine the base name and the arguments -/
theorem C15_instName_injective (x y : String) (a b : Tys) (hx : nameOk x = true) (hy : nameOk y = true)
    (ha : tysNamesOk a = true) (hb : tysNamesOk b = true) (h : instName x a = instName y b) :
    x = y ∧ a = b :=
  instName_inj hx hy ha hb h

/-- `name.replace(printed_args, "")` in `lookup_ty_for_ctor/dtor` recovers the template name -/
theorem C15_replace_recovers_template (n : String) (a : Tys) (hn : nameOk n = true) :
    removeAll (instName n a) (printTyArgs a) = n :=
  removeAll_instName a hn

-- non-vacuity: the hypotheses hold for ordinary names, and the printed form is the one of the code
example : nameOk "List" = true ∧ nameOk "Cons" = true ∧ nameOk "i64" = false ∧ nameOk "A[B" = false := by
  decide
example : printTy (.decl "Pair" (.cons .i64 (.cons (.decl "List" (.cons .i64 .nil)) .nil)))
    = "Pair[i64, List[i64]]" := by decide
example : instName "Cons" (.cons .i64 .nil) = "Cons[i64]" := by decide
/-- without the hypothesis the statement is false: a "name" containing brackets collides -/
example : printTy (.decl "A[i64]" .nil) = printTy (.decl "A" (.cons .i64 .nil)) := by decide

/-! ## (b) soundness -/

theorem C15_sound : C15_soundness_statement := by
  intro p p' hp h
  exact checkProgramR_sound hp (checkProgram_ok_iff.mp h)

/-- the oracle used at run time: if the model checker accepts, the program is well-typed -/
theorem C15_wtCheck_sound (p : Program) (hp : programNamesOk p = true) (h : wtCheck p = true) :
    WT p := by
  unfold wtCheck at h
  cases hc : checkProgram p with
  | ok p' => exact (C15_sound p p' hp hc).1
  | diag c => simp [hc, Outcome.isOk] at h
  | panic s => simp [hc, Outcome.isOk] at h

/-- an ill-typed program is not accepted -/
theorem C15_reject_not_WT (p : Program) (hp : programNamesOk p = true) (h : ¬ WT p)
    (p' : CheckedProgram) : checkProgram p ≠ .ok p' :=
  fun hc => h (C15_sound p p' hp hc).1

/-! ## (c) the output is annotated -/

/-- Every `ty`/`chi` field of the checked program is filled and every clause carries the typed
context of its binders — the precondition of fun2core's `expect("Types should be annotated")`. -/
theorem C15_annotated (p : Program) (p' : CheckedProgram) (h : checkProgram p = .ok p') :
    annotatedProgram p' = true :=
  checkProgramR_annotated (checkProgram_ok_iff.mp h)

/-! ## a concrete program (non-vacuity of (b), (c)) -/

/-- `data List[A] { Nil, Cons(x: A, xs: List[A]) }  codata Fun[A, B] { apply(x: A): B }`
    `def len(l: List[i64]): i64 { l.case[i64] { Cons(x, xs) => 1 + len(xs), Nil => 0 } }`
    `def main(k:cns i64): i64 { label a { goto a ((new { apply(y) => y }).apply[i64, i64](len(Cons(1, Nil)))) } }` -/
def C15_example : Program := ⟨[
  .data ⟨"List", ["A"], [⟨"Nil", []⟩,
    ⟨"Cons", [⟨"x", .prd, .decl "A" .nil⟩, ⟨"xs", .prd, .decl "List" (.cons (.decl "A" .nil) .nil)⟩]⟩]⟩,
  .codata ⟨"Fun", ["A", "B"], [⟨"apply", [⟨"x", .prd, .decl "A" .nil⟩], .decl "B" .nil⟩]⟩,
  .defn ⟨"len", [⟨"l", .prd, .decl "List" (.cons .i64 .nil)⟩], .i64,
    .case (.var "l" none none) (.cons .i64 .nil)
      (.cons .data "Cons" ["x", "xs"] [] (.op (.lit 1) .sum (.call "len" (.cons (.var "xs" none none) .nil) none))
      (.cons .data "Nil" [] [] (.lit 0) .nil)) none⟩,
  .defn ⟨"main", [⟨"k", .cns, .i64⟩], .i64,
    .label "a" (.goto "a"
      (.dtor (.paren (.new (.cons .codata "apply" ["y"] [] (.var "y" none none) .nil) none)) "apply"
        (.cons .i64 (.cons .i64 .nil))
        (.cons (.call "len" (.cons (.ctor "Cons" (.cons (.lit 1) (.cons (.ctor "Nil" .nil none) .nil)) none) .nil) none) .nil)
        none) none) none⟩]⟩

theorem C15_example_namesOk : programNamesOk C15_example = true := by decide

theorem C15_example_accepted : wtCheck C15_example = true := by decide +kernel

/-- the example is well-typed (through the checker and soundness) -/
theorem C15_example_WT : WT C15_example :=
  C15_wtCheck_sound _ C15_example_namesOk C15_example_accepted

/-- the clauses of `len` come out in declaration order (`Nil` first): reordering is visible -/
example : (match checkProgram C15_example with
    | .ok p' => p'.dataTypes.map (·.name) | _ => []) = ["List[i64]"] := by decide +kernel

/-! ## (d) mutation lemmas: the certainly ill-typed edits are not `WT`

Node-level lemmas say that no context and no type make the mutated node typable
(`¬ TypedSomewhere p t`); `C15_mutant_not_WT` lifts them to programs: a definition body that contains
such a node (not in covariable-argument position, i.e. not a bare variable) makes the program ill-typed,
and by `C15_reject_not_WT` the checker rejects it. -/

/-- lifting: every non-variable subterm of a definition body of a well-typed program is typable -/
theorem C15_subterm_typed {p : Program} (h : WT p) {d : Def} (hd : d ∈ defs p) {t : Term}
    (ht : t ∈ subterms d.body) (hv : ¬ IsVar t) : TypedSomewhere p t := by
  rcases typed_subterms d.body _ _ t (h.defs d hd).body ht with h | h
  · exact h
  · exact absurd h hv

theorem C15_mutant_not_WT {p : Program} {d : Def} (hd : d ∈ defs p) {t : Term}
    (ht : t ∈ subterms d.body) (hv : ¬ IsVar t) (hbad : ¬ TypedSomewhere p t) : ¬ WT p :=
  fun h => hbad (C15_subterm_typed h hd ht hv)

/-- class 1, wrong argument count (call) -/
theorem C15_mut_argcount_call {p : Program} (ok : DeclsOk p) {d : Def} (hd : d ∈ defs p)
    {args : Terms} {an : Option Ty} (hne : args.toList.length ≠ d.ctx.length) :
    ¬ TypedSomewhere p (.call d.name args an) := by
  rintro ⟨Γ, τ, h⟩
  obtain ⟨_, ha⟩ := hasType_call_inv ok hd h
  exact hne (argsTyped_length _ _ _ ha)

/-- class 1, wrong argument count (constructor) -/
theorem C15_mut_argcount_ctor {p : Program} {k : String} {args : Terms} {an : Option Ty}
    (hne : ∀ d ∈ datas p, ∀ c ∈ d.ctors, c.name = k → args.toList.length ≠ c.args.length) :
    ¬ TypedSomewhere p (.ctor k args an) := by
  rintro ⟨Γ, τ, h⟩
  obtain ⟨d, hd, c, hc, hk, _, _, hl⟩ := hasType_ctor_inv h
  exact hne d hd c hc hk hl

/-- class 1, wrong argument count (destructor) -/
theorem C15_mut_argcount_dtor {p : Program} {s : Term} {id : String} {ta : Tys} {args : Terms}
    {an : Option Ty}
    (hne : ∀ d ∈ codatas p, ∀ sg ∈ d.dtors, sg.name = id → args.toList.length ≠ sg.args.length) :
    ¬ TypedSomewhere p (.dtor s id ta args an) := by
  rintro ⟨Γ, τ, h⟩
  obtain ⟨d, hd, sg, hs, hk, _, hl, _⟩ := hasType_dtor_inv h
  exact hne d hd sg hs hk hl

/-- class 2, wrong argument type: a literal (or an arithmetic expression) for a parameter of a
declared type -/
theorem C15_mut_argtype_lit {p : Program} (ok : DeclsOk p) {d : Def} (hd : d ∈ defs p)
    {args : Terms} {an : Option Ty} {i : Nat} {n : Int} {b : Binding}
    (hi : args.toList[i]? = some (.lit n)) (hb : d.ctx[i]? = some b) (hprd : b.chi = .prd)
    (hty : b.ty ≠ .i64) : ¬ TypedSomewhere p (.call d.name args an) := by
  rintro ⟨Γ, τ, h⟩
  obtain ⟨_, ha⟩ := hasType_call_inv ok hd h
  exact hty (hasType_lit_inv (argsTyped_get _ _ _ i _ b ha hi hb hprd))

/-- class 2 / "constructor at i64": a constructor where `i64` is expected -/
theorem C15_mut_ctor_at_i64 {p : Program} {Γ : Ctx} {k : String} {args : Terms} {an : Option Ty} :
    ¬ HasType p Γ (.ctor k args an) .i64 := by
  intro h
  obtain ⟨_, _, _, _, _, _, ht, _⟩ := hasType_ctor_inv h
  cases ht

/-- wrong argument type: a constructor for an `i64` parameter of a definition -/
theorem C15_mut_argtype_ctor {p : Program} (ok : DeclsOk p) {d : Def} (hd : d ∈ defs p)
    {args : Terms} {an : Option Ty} {i : Nat} {k : String} {as : Terms} {an' : Option Ty} {b : Binding}
    (hi : args.toList[i]? = some (.ctor k as an')) (hb : d.ctx[i]? = some b) (hprd : b.chi = .prd)
    (hty : b.ty = .i64) : ¬ TypedSomewhere p (.call d.name args an) := by
  rintro ⟨Γ, τ, h⟩
  obtain ⟨_, ha⟩ := hasType_call_inv ok hd h
  have := argsTyped_get _ _ _ i _ b ha hi hb hprd
  rw [hty] at this
  exact C15_mut_ctor_at_i64 this

/-- "`new` at i64" -/
theorem C15_mut_new_at_i64 {p : Program} {Γ : Ctx} {cs : Clauses} {an : Option Ty} :
    ¬ HasType p Γ (.new cs an) .i64 := by
  intro h
  obtain ⟨_, _, _, ht, _⟩ := hasType_new_inv h
  cases ht

/-- "`new` at a data type" -/
theorem C15_mut_new_at_data {p : Program} (ok : DeclsOk p) {Γ : Ctx} {cs : Clauses} {an : Option Ty}
    {d : Data} (hd : d ∈ datas p) {targs : Tys} : ¬ HasType p Γ (.new cs an) (.decl d.name targs) := by
  intro h
  obtain ⟨d', hd', _, ht, _⟩ := hasType_new_inv h
  injection ht with hn _
  exact data_codata_disjoint ok hd hd' hn

/-- class 3, unbound variable / covariable: in a well-typed program every variable occurrence (as a
term, as a covariable argument) and every `goto` target is a parameter of the definition or bound on
the way (let, label, clause binder) -/
theorem C15_mut_unbound_var {p : Program} (h : WT p) {d : Def} (hd : d ∈ defs p) {x : String}
    {ty : Option Ty} {chi : Option Chi} (ht : Term.var x ty chi ∈ subterms d.body) :
    x ∈ d.ctx.map (·.var) ∨ x ∈ boundNames d.body := by
  obtain ⟨Γ', hty, hsub⟩ := typedIn_subterms d.body _ _ _ (h.defs d hd).body ht
  have hx : x ∈ Γ'.map (·.var) := by
    rcases hty with ⟨τ', hty⟩ | ⟨x', ty', chi', b, he, hl, _⟩
    · cases hty with
      | var b hl _ _ _ _ _ => exact lookupCtx_name_mem hl
    · cases he; exact lookupCtx_name_mem hl
  simpa using hsub x hx

theorem C15_mut_unbound_covar {p : Program} (h : WT p) {d : Def} (hd : d ∈ defs p) {a : String}
    {arg : Term} {an : Option Ty} (ht : Term.goto a arg an ∈ subterms d.body) :
    a ∈ d.ctx.map (·.var) ∨ a ∈ boundNames d.body := by
  obtain ⟨Γ', hty, hsub⟩ := typedIn_subterms d.body _ _ _ (h.defs d hd).body ht
  have hx : a ∈ Γ'.map (·.var) := by
    rcases hty with ⟨τ', hty⟩ | ⟨x', ty', chi', b, he, _, _⟩
    · cases hty with
      | goto b hl _ _ _ => exact lookupCtx_name_mem hl
    · cases he
  simpa using hsub a hx

/-- class 3, unbound name: a call of an undefined function -/
theorem C15_mut_undefined_call {p : Program} {f : String} {args : Terms} {an : Option Ty}
    (hf : ∀ d ∈ defs p, d.name ≠ f) : ¬ TypedSomewhere p (.call f args an) := by
  rintro ⟨Γ, τ, h⟩
  cases h with
  | call d hd _ _ => exact hf d hd rfl

/-- classes 4–6 (clauses of a case): duplicated clause -/
theorem C15_mut_dup_clause_case {p : Program} (ok : DeclsOk p) {s : Term} {ta : Tys} {cs : Clauses}
    {an : Option Ty} (hdup : ¬ (clauseXtors cs).Nodup) : ¬ TypedSomewhere p (.case s ta cs an) := by
  rintro ⟨Γ, τ, h⟩
  obtain ⟨_, d, hd, hp, _, _⟩ := hasType_case_inv h
  exact hdup (hp.nodup_iff.mpr
    (flatMap_nodup_inner' (f := fun d : Data => d.ctors.map (·.name)) ok.ctorNamesNodup hd))

theorem C15_mut_dup_clause_new {p : Program} (ok : DeclsOk p) {cs : Clauses} {an : Option Ty}
    (hdup : ¬ (clauseXtors cs).Nodup) : ¬ TypedSomewhere p (.new cs an) := by
  rintro ⟨Γ, τ, h⟩
  obtain ⟨d, hd, _, _, hp⟩ := hasType_new_inv h
  exact hdup (hp.nodup_iff.mpr
    (flatMap_nodup_inner' (f := fun d : Codata => d.dtors.map (·.name)) ok.dtorNamesNodup hd))

/-- extra clause: a clause for something that is not a constructor of the matched type (the type is
identified by any other clause `y`) -/
theorem C15_mut_extra_clause_case {p : Program} (ok : DeclsOk p) {s : Term} {ta : Tys} {cs : Clauses}
    {an : Option Ty} {d : Data} (hd : d ∈ datas p) {x y : String} (hy : y ∈ clauseXtors cs)
    (hyd : y ∈ d.ctors.map (·.name)) (hx : x ∈ clauseXtors cs) (hxd : x ∉ d.ctors.map (·.name)) :
    ¬ TypedSomewhere p (.case s ta cs an) := by
  rintro ⟨Γ, τ, h⟩
  obtain ⟨_, d', hd', hp, _, _⟩ := hasType_case_inv h
  obtain ⟨c, hc, rfl⟩ := List.mem_map.mp hyd
  obtain ⟨c', hc', hcn⟩ := List.mem_map.mp (hp.mem_iff.mp hy)
  obtain ⟨rfl, _⟩ := ctor_data_unique ok hd hc hd' hc' hcn.symm
  exact hxd (hp.mem_iff.mp hx)

/-- missing clause: some constructor of the matched type has no clause -/
theorem C15_mut_missing_clause_case {p : Program} (ok : DeclsOk p) {s : Term} {ta : Tys}
    {cs : Clauses} {an : Option Ty} {d : Data} (hd : d ∈ datas p) {y : String}
    (hy : y ∈ clauseXtors cs) (hyd : y ∈ d.ctors.map (·.name)) {c : CtorSig} (hc : c ∈ d.ctors)
    (hmiss : c.name ∉ clauseXtors cs) : ¬ TypedSomewhere p (.case s ta cs an) := by
  rintro ⟨Γ, τ, h⟩
  obtain ⟨_, d', hd', hp, _, _⟩ := hasType_case_inv h
  obtain ⟨c1, hc1, rfl⟩ := List.mem_map.mp hyd
  obtain ⟨c', hc', hcn⟩ := List.mem_map.mp (hp.mem_iff.mp hy)
  obtain ⟨rfl, _⟩ := ctor_data_unique ok hd hc1 hd' hc' hcn.symm
  exact hmiss (hp.mem_iff.mpr (List.mem_map.mpr ⟨c, hc, rfl⟩))

/-- missing / extra clause of a `new`: the destructors of the expected codata type and the clauses
do not correspond -/
theorem C15_mut_clauses_new {p : Program} (ok : DeclsOk p) {Γ : Ctx} {cs : Clauses} {an : Option Ty}
    {d : Codata} (hd : d ∈ codatas p) {targs : Tys}
    (hne : ¬ (clauseXtors cs).Perm (d.dtors.map (·.name))) :
    ¬ HasType p Γ (.new cs an) (.decl d.name targs) := by
  intro h
  obtain ⟨d', hd', _, ht, hp⟩ := hasType_new_inv h
  injection ht with hn _
  have := codata_unique ok hd hd' hn
  subst this
  exact hne hp

/-- empty match -/
theorem C15_mut_empty_case {p : Program} {s : Term} {ta : Tys} {an : Option Ty} :
    ¬ TypedSomewhere p (.case s ta .nil an) := by
  rintro ⟨Γ, τ, h⟩
  exact (hasType_case_inv h).1 rfl

/-- class 7, wrong number of binders in a clause of a case -/
theorem C15_mut_binders_case {p : Program} {s : Term} {ta : Tys} {cs : Clauses} {an : Option Ty}
    {c : Clause} (hc : c ∈ cs.toList)
    (hne : ∀ d ∈ datas p, ∀ k ∈ d.ctors, k.name = c.xtor → c.names.length ≠ k.args.length) :
    ¬ TypedSomewhere p (.case s ta cs an) := by
  rintro ⟨Γ, τ, h⟩
  obtain ⟨_, d, hd, _, _, hct⟩ := hasType_case_inv h
  obtain ⟨sig, bodyTy, hm, _, hl, _⟩ := clausesTyped_mem _ _ _ c hct hc
  obtain ⟨k, hk, he⟩ := List.mem_map.mp hm
  simp only [Prod.mk.injEq] at he
  obtain ⟨hkn, hsig, _⟩ := he
  apply hne d hd k hk hkn
  rw [hl, ← hsig, csubst_length]

/-- class 8, wrong number of type arguments (destructor call) -/
theorem C15_mut_tyargs_dtor {p : Program} (ok : DeclsOk p) {s : Term} {id : String} {ta : Tys}
    {args : Terms} {an : Option Ty}
    (hne : ∀ d ∈ codatas p, ∀ sg ∈ d.dtors, sg.name = id → ta.toList.length ≠ d.typeParams.length) :
    ¬ TypedSomewhere p (.dtor s id ta args an) := by
  rintro ⟨Γ, τ, h⟩
  obtain ⟨d, hd, sg, hs, hk, hwf, _, _⟩ := hasType_dtor_inv h
  rcases wfTy_decl_inv hwf with ⟨d', hd', hn, hl⟩ | ⟨d', hd', hn, hl⟩
  · exact data_codata_disjoint ok hd' hd hn
  · have := codata_unique ok hd' hd hn
    subst this
    exact hne d' hd' sg hs hk hl

/-- class 8, wrong number of type arguments (case) -/
theorem C15_mut_tyargs_case {p : Program} (ok : DeclsOk p) {s : Term} {ta : Tys} {cs : Clauses}
    {an : Option Ty} {d : Data} (hd : d ∈ datas p) {y : String} (hy : y ∈ clauseXtors cs)
    (hyd : y ∈ d.ctors.map (·.name)) (hne : ta.toList.length ≠ d.typeParams.length) :
    ¬ TypedSomewhere p (.case s ta cs an) := by
  rintro ⟨Γ, τ, h⟩
  obtain ⟨_, d', hd', hp, hwf, _⟩ := hasType_case_inv h
  obtain ⟨c, hc, rfl⟩ := List.mem_map.mp hyd
  obtain ⟨c', hc', hcn⟩ := List.mem_map.mp (hp.mem_iff.mp hy)
  obtain ⟨rfl, _⟩ := ctor_data_unique ok hd hc hd' hc' hcn.symm
  rcases wfTy_decl_inv hwf with ⟨d', hd'', hn, hl⟩ | ⟨d', hd'', hn, hl⟩
  · have := data_unique ok hd'' hd hn
    subst this
    exact hne hl
  · exact data_codata_disjoint ok hd hd'' hn.symm

/-- class 8, wrong number of type arguments in a type annotation -/
theorem C15_mut_tyargs_type {p : Program} (ok : DeclsOk p) {d : Data} (hd : d ∈ datas p) {args : Tys}
    (hne : args.toList.length ≠ d.typeParams.length) : ¬ WfTy p (.decl d.name args) := by
  intro hwf
  rcases wfTy_decl_inv hwf with ⟨d', hd', hn, hl⟩ | ⟨d', hd', hn, hl⟩
  · have := data_unique ok hd' hd hn
    subst this
    exact hne hl
  · exact data_codata_disjoint ok hd hd' hn.symm

/-- class 9, producer used as consumer: `goto x` / a covariable argument `x` where `x` is (the
rightmost binding of) a variable -/
theorem C15_mut_prd_as_cns_goto {p : Program} {Γ : Ctx} {x : String} {arg : Term} {an : Option Ty}
    {τ : Ty} {b : Binding} (hl : lookupCtx Γ x = some b) (hb : b.chi = .prd) :
    ¬ HasType p Γ (.goto x arg an) τ := by
  intro h
  cases h with
  | goto b' hl' hc _ _ =>
    rw [hl] at hl'; cases hl'; rw [hb] at hc; cases hc

theorem C15_mut_prd_as_cns_arg {p : Program} {Γ : Ctx} {t : Term} {ts : Terms} {b : Binding}
    {bs : Ctx} (hb : b.chi = .cns) (ht : ¬ IsVar t) : ¬ ArgsTyped p Γ (.cons t ts) (b :: bs) := by
  intro h
  cases h with
  | prd hc _ _ _ => rw [hb] at hc; cases hc
  | cns _ _ _ _ _ _ _ _ _ => exact ht trivial

/-- class 10, consumer used as producer: a covariable where a term is expected -/
theorem C15_mut_cns_as_prd {p : Program} {Γ : Ctx} {a : String} {ty : Option Ty} {chi : Option Chi}
    {τ : Ty} {b : Binding} (hl : lookupCtx Γ a = some b) (hb : b.chi = .cns) :
    ¬ HasType p Γ (.var a ty chi) τ := by
  intro h
  cases h with
  | var b' hl' hc _ _ _ _ =>
    rw [hl] at hl'; cases hl'; rw [hb] at hc; cases hc

/-- class 11, duplicate declaration: the same definition, type or xtor name twice -/
theorem C15_mut_dup_def {p : Program} (h : ¬ ((defs p).map (·.name)).Nodup) : ¬ WT p :=
  fun w => h w.decls.defNamesNodup

theorem C15_mut_dup_type {p : Program} (h : ¬ (typeNames p).Nodup) : ¬ WT p :=
  fun w => h w.decls.typeNamesNodup

theorem C15_mut_dup_ctor {p : Program}
    (h : ¬ ((datas p).flatMap fun d => d.ctors.map (·.name)).Nodup) : ¬ WT p :=
  fun w => h w.decls.ctorNamesNodup

theorem C15_mut_dup_dtor {p : Program}
    (h : ¬ ((codatas p).flatMap fun d => d.dtors.map (·.name)).Nodup) : ¬ WT p :=
  fun w => h w.decls.dtorNamesNodup

/-- appending a copy of any declaration makes the program ill-typed -/
theorem C15_mut_dup_decl {ds : List Decl} {d : Decl} (hd : d ∈ ds) : ¬ WT ⟨ds ++ [d]⟩ := by
  intro w
  cases d with
  | defn f =>
    have := w.decls.defNamesNodup
    simp only [defs, List.filterMap_append, List.filterMap_cons, List.filterMap_nil, List.map_append,
      List.map_cons, List.map_nil] at this
    rw [List.nodup_append] at this
    exact this.2.2 f.name
      (List.mem_map.mpr ⟨f, List.mem_filterMap.mpr ⟨_, hd, rfl⟩, rfl⟩) f.name (by simp) rfl
  | data f =>
    have := w.decls.typeNamesNodup
    simp only [typeNames, List.filterMap_append, List.filterMap_cons, List.filterMap_nil] at this
    rw [List.nodup_append] at this
    exact this.2.2 f.name (List.mem_filterMap.mpr ⟨_, hd, rfl⟩) f.name (by simp) rfl
  | codata f =>
    have := w.decls.typeNamesNodup
    simp only [typeNames, List.filterMap_append, List.filterMap_cons, List.filterMap_nil] at this
    rw [List.nodup_append] at this
    exact this.2.2 f.name (List.mem_filterMap.mpr ⟨_, hd, rfl⟩) f.name (by simp) rfl

/-- duplicate parameter of a definition -/
theorem C15_mut_dup_param {p : Program} {d : Def} (hd : d ∈ defs p)
    (h : ¬ (d.ctx.map (·.var)).Nodup) : ¬ WT p :=
  fun w => h (w.defs d hd).params

/-- class 12, type parameter clash: repeated, or named like a declared type -/
theorem C15_mut_tparam_repeated {p : Program} {d : Data} (hd : d ∈ datas p)
    (h : ¬ d.typeParams.Nodup) : ¬ WT p :=
  fun w => h (w.decls.dataParams d hd).1

theorem C15_mut_tparam_is_type {p : Program} {d : Data} (hd : d ∈ datas p) {a : String}
    (ha : a ∈ d.typeParams) (ht : a ∈ typeNames p) : ¬ WT p :=
  fun w => (w.decls.dataParams d hd).2 a ha ht

theorem C15_mut_tparam_repeated_codata {p : Program} {d : Codata} (hd : d ∈ codatas p)
    (h : ¬ d.typeParams.Nodup) : ¬ WT p :=
  fun w => h (w.decls.codataParams d hd).1

/-- every mutation lemma, combined with soundness: the mutant is rejected by the checker -/
theorem C15_mutant_rejected {p : Program} (hp : programNamesOk p = true) {d : Def} (hd : d ∈ defs p)
    {t : Term} (ht : t ∈ subterms d.body) (hv : ¬ IsVar t) (hbad : ¬ TypedSomewhere p t)
    (p' : CheckedProgram) : checkProgram p ≠ .ok p' :=
  C15_reject_not_WT p hp (C15_mutant_not_WT hd ht hv hbad) p'

-- non-vacuity of the mutation lemmas: dropping the argument of `len(xs)` in the example
example : ¬ TypedSomewhere C15_example (.call "len" .nil none) := by
  have hd : (⟨"len", [⟨"l", .prd, .decl "List" (.cons .i64 .nil)⟩], .i64,
      .case (.var "l" none none) (.cons .i64 .nil)
        (.cons .data "Cons" ["x", "xs"] [] (.op (.lit 1) .sum (.call "len" (.cons (.var "xs" none none) .nil) none))
        (.cons .data "Nil" [] [] (.lit 0) .nil)) none⟩ : Def) ∈ defs C15_example := by
    simp [defs, C15_example]
  exact C15_mut_argcount_call C15_example_WT.decls hd (by simp [Terms.toList])

/-! ## (e) completeness, no panic, and the full statement

On the code as FOUND completeness was false: the checker rejected well-typed programs with T-002
whenever the expected type of a constructor / `new` was an instance that existed only inside an
instantiated xtor signature (`create_instance` does not check those) — /verif/gen/corpus/check/f01..f05.
Both holes were repaired in /repo (`New::check` checks the destructor's return type, `Goto::check` the
covariable's type) and the model follows the repaired code; the `WfTy` premises of the rules `new` and
`goto` of `HasType` are exactly what the two new checks ask for.  For the repaired code: -/

/-- completeness: a well-typed program is accepted -/
theorem C15_complete : C15_completeness_statement := by
  intro p hp w
  obtain ⟨p', h⟩ := checkProgramR_complete hp w
  exact ⟨p', checkProgram_ok_iff.mpr h⟩

/-- the checker never panics (the `swap_remove` index is in range, every instance in
`symbol_table.types` has its xtors in `ctors`/`dtors`) -/
theorem C15_no_panic : C15_no_panic_statement := by
  intro p site hp h
  simp only [checkProgram] at h
  split at h
  · cases h
  · cases h
  · rename_i s hs
    exact checkProgramR_noPanic hp s hs

/-- accepted = well-typed -/
theorem C15_accept_iff_WT (p : Program) (hp : programNamesOk p = true) :
    (∃ p', checkProgram p = .ok p') ↔ WT p :=
  ⟨fun ⟨p', h⟩ => (C15_sound p p' hp h).1, C15_complete p hp⟩

/-- the run-time oracle decides `WT` -/
theorem C15_wtCheck_iff_WT (p : Program) (hp : programNamesOk p = true) :
    wtCheck p = true ↔ WT p := by
  constructor
  · exact C15_wtCheck_sound p hp
  · intro w
    obtain ⟨p', h⟩ := C15_complete p hp w
    simp [wtCheck, h, Outcome.isOk]

/-- C15, the full statement, for the checker of /repo after the two repairs -/
theorem C15_full : C15_statement := by
  intro p hp
  refine ⟨C15_complete p hp, ?_⟩
  intro hnw
  cases hc : checkProgram p with
  | ok p' => exact absurd (C15_sound p p' hp hc).1 hnw
  | diag c => exact ⟨c, rfl⟩
  | panic s => exact absurd hc (C15_no_panic p s hp)

-- non-vacuity of the second half: a program that is not well-typed and its diagnostic
example : (match checkProgram ⟨[.defn ⟨"main", [], .i64, .var "x" none none⟩]⟩ with
    | .diag c => c | _ => "") = "T-004" := by decide +kernel

/-! ## axioms -/

#print axioms C15_printTy_injective
#print axioms C15_instName_injective
#print axioms C15_replace_recovers_template
#print axioms C15_sound
#print axioms C15_wtCheck_sound
#print axioms C15_reject_not_WT
#print axioms C15_annotated
#print axioms C15_complete
#print axioms C15_no_panic
#print axioms C15_accept_iff_WT
#print axioms C15_wtCheck_iff_WT
#print axioms C15_full
#print axioms C15_example_WT
#print axioms C15_mutant_not_WT
#print axioms C15_mutant_rejected
#print axioms C15_mut_argcount_call
#print axioms C15_mut_argtype_lit
#print axioms C15_mut_unbound_var
#print axioms C15_mut_unbound_covar
#print axioms C15_mut_missing_clause_case
#print axioms C15_mut_extra_clause_case
#print axioms C15_mut_dup_clause_case
#print axioms C15_mut_binders_case
#print axioms C15_mut_tyargs_case
#print axioms C15_mut_tyargs_dtor
#print axioms C15_mut_prd_as_cns_goto
#print axioms C15_mut_cns_as_prd
#print axioms C15_mut_dup_decl
#print axioms C15_mut_new_at_data
#print axioms C15_mut_ctor_at_i64
#print axioms C15_mut_empty_case

end Scc.Props
