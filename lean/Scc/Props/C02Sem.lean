/-
  Scc.Props.C02Sem — property C02, SEMANTIC part: the translation Fun → Core (model
  `Scc.Fun2Core.compileProg` of /repo/lang/fun2core) preserves meaning: the Fun abstract machine
  (`Scc.Fun.run`, CEK) on an accepted, sequenced program and the Core ς-machine (`Scc.Core.run`) on its
  translation have the same output trace and result.

  STATEMENTS (defs, kept visible)
    C02_sem_statement_as_given   the statement as first formulated (verbatim copy of `C02_sem_statement`
                                 of Props/C01.lean).  It is FALSE:
                                   * a program that CALLS `main` (finding D13, a defect of /repo: def.rs
                                     `compile_main` gives `main` no continuation parameter, call.rs passes
                                     one): `def main(n:i64):i64{ if n==0 {0} else {1+main(n-1)} }`, arg 3:
                                     Fun 3, Core machine `stuck arity`, native binary exits with 0;
                                   * `main` with a covariable parameter (`Core.entryEnv` binds it to `halt`
                                     without consuming an argument, `Fun.initState` wants one integer per
                                     parameter): `def main(k:cns i64):i64{7}`, no arguments: Fun `stuck
                                     arity(main)`, Core `done 7`  (specification level, not /repo);
                                   * a variable literally named `ς` (the machine-fresh name of the Core
                                     ς-machine; the lexer cannot produce it, an AST can):
                                     `def main(ς:i64):i64{ (1+2)+ς }`: Fun 13, Core 6 on argument 10
                                     (specification level).
    C02_sem_full_statement       the corrected FULL statement: as given, plus `validMain`,
                                 `Fun.noMainCall`, no name `ς`.  PROVED IN FULL: `C02_sem`
                                 (Props/C02SemFull.lean) — all sequenced accepted programs, codata
                                 included, all four clauses of `ObsSame`, all argument lists.

  THEOREMS (this file: the fragment `fragOk`, kept for the end-to-end composition which uses
  `C02_sem_forward_link`; every program of the fragment is also covered by `C02_sem`)
    C02_sem_forward_frag   THE FORWARD HALF (clauses 1 and 3 of `C02_ObsSame`: every finished Fun run —
                           a result or an arithmetic fault — is matched by a Core run with the same trace
                           and the same outcome; every Fun trace is a prefix of a Core trace) for the
                           accepted programs of the fragment `Fun2Core.Sem.fragOk`
                           (Scc/Fun2Core/SemFrag.lean), all arguments, all fuel:
                             first-order integers (literals, variables, operators incl. `/ %` and their
                             faults, `let`, `if`, calls, `print`, `exit`, parentheses),
                             data (constructors and `case`, incl. the lifting of shared continuations
                             by `share` and the capture guard of `let`/`case`),
                             labels / `goto` / covariable parameters and arguments,
                             codata, restricted: `new` (closures), codata-typed `let` of a variable
                             or a `new`, codata-typed arguments (variables / `new`) of calls,
                             constructors and destructors, destructor calls whose scrutinee is a
                             variable or a `new`; every term in evaluation position (bodies,
                             branches, bound terms of other `let`s, scrutinees of `case`) has an
                             integer or data type.
                           By a simulation between CEK states and Core machine states
                           (Scc/Fun2Core/Sem*.lean: a Fun frame corresponds to a `μ~`-closure / `case`
                           consumer value / destructor value, a Fun continuation value to a Core
                           consumer value).  The simulation is the one of `C02_sem` (it covers all
                           sequenced programs and carries the typing of the Fun state, which is why
                           the theorems below speak about the checker's output).
    C02_sem_forward_link   the same in the shape of the C01 link (`C01_composition` applies only
                           clause 1 of `ObsSame`).
    C02_sem_frag_of_finished   ALL FOUR CLAUSES of `C02_ObsSame` for the programs of the fragment and the
                           arguments on which the Fun machine FINISHES (a result or an arithmetic fault
                           at some fuel).
    C02_sem_frag_of_safe   ALL FOUR CLAUSES for the programs of the fragment and the arguments on which
                           the Fun machine never gets stuck for a reason other than an arithmetic fault
                           (`C02_FunSafe`).  Backward half by: in every chunk of the simulation the Core
                           machine advances or the Fun machine arrives at a smaller term
                           (Scc/Fun2Core/SemBack.lean), determinism of the Core machine, monotonicity of
                           its output.
    C02_funSafe_of_finished    a finishing Fun run is `C02_FunSafe`.
    C02_sem_frag_modulo_safety  `C02_funSafe_statement` → `C02_ObsSame` for all checked programs of the
                           fragment (arguments as many as `main` has parameters); the hypothesis is
                           discharged in Props/C02SemSafe.lean (`C02_funSafe`, `C02_sem_frag`).
    C02_sem_statement_as_given_false   ¬ C02_sem_statement_as_given (witness: a tail call of `main`,
                           `def main(n){ if n == 0 {0} else {main(n - 1)} }` on the argument 1).
  `fragOk` contains, besides the description of the fragment (`fragT`), decidable conditions that
  hold of EVERY accepted program (`good` of every body; distinct names, closed bodies, integer
  signature of `main`): Props/C02SemFull.lean derives them from the checker (`C02_progOk`), and
  `coreClosed` of the translation too (`C02_coreClosed`).
-/
import Scc.Pipeline
import Scc.Fun.CheckSound1
import Scc.Fun2Core.SemFrag
import Scc.Fun.Parse
import Scc.Fun2Core.TypedCheck

namespace Scc.Props

open Scc Scc.Pipeline
open Scc.Fun.Check (checkProgram programNamesOk)

/-! ## observations (copies of `ObsFinished` / `ObsSame` of Props/C01.lean, same bodies) -/

/-- outcomes the properties speak about: a result, or one of the two arithmetic faults -/
def C02_ObsFinished : ObsRes → Prop
  | .done _ => True
  | .stuck w => w = "divByZero" ∨ w = "overflow"
  | .outOfFuel => False

/-- same observable behaviour of two fuel-indexed runs -/
def C02_ObsSame (r1 r2 : Nat → Obs) : Prop :=
  (∀ n, C02_ObsFinished (r1 n).res → ∃ m, r2 m = r1 n) ∧
  (∀ m, C02_ObsFinished (r2 m).res → ∃ n, r1 n = r2 m) ∧
  (∀ n, ∃ m, (r1 n).out <+: (r2 m).out) ∧ (∀ m, ∃ n, (r2 m).out <+: (r1 n).out)

/-- the forward half of `C02_ObsSame` (clauses 1 and 3) -/
def C02_ObsForward (r1 r2 : Nat → Obs) : Prop :=
  (∀ n, C02_ObsFinished (r1 n).res → ∃ m, r2 m = r1 n) ∧
  (∀ n, ∃ m, (r1 n).out <+: (r2 m).out)

theorem C02_ObsSame.forward {r1 r2 : Nat → Obs} (h : C02_ObsSame r1 r2) : C02_ObsForward r1 r2 :=
  ⟨h.1, h.2.2.1⟩

/-! ## the statements -/

/-- the statement as first formulated (verbatim `C02_sem_statement` of Props/C01.lean) — FALSE, see
the header -/
def C02_sem_statement_as_given : Prop :=
  ∀ (p : Fun.Program) (p' : Fun.CheckedProgram) (q2 : Core.Prog),
    programNamesOk p = true → checkProgram p = .ok p' → Fun.Sequenced p' = true →
    Fun2Core.compileProg p' = .ok q2 →
    ∀ args : List Word,
      C02_ObsSame (fun n => ofFun (Fun.run p' args n)) (fun n => ofCore (Core.run q2 args n))

/-- no parameter, `let` variable, label or clause binder of the program is called `ς` -/
def C02_noSigmaNames (p' : Fun.CheckedProgram) : Bool :=
  p'.defs.all fun d =>
    !(d.ctx.map (·.var)).contains Fun2Core.Sem.sig && !(Fun2Core.binderNames d.body).contains Fun2Core.Sem.sig

/-- C02 (semantics), corrected full statement -/
def C02_sem_full_statement : Prop :=
  ∀ (p : Fun.Program) (p' : Fun.CheckedProgram) (q2 : Core.Prog),
    programNamesOk p = true → checkProgram p = .ok p' → Fun.Sequenced p' = true →
    validMain p' = true → Fun.noMainCall p' = true → C02_noSigmaNames p' = true →
    Fun2Core.compileProg p' = .ok q2 →
    ∀ args : List Word,
      C02_ObsSame (fun n => ofFun (Fun.run p' args n)) (fun n => ofCore (Core.run q2 args n))

/-! ## from the machines' own behaviour types to observations -/

theorem C02_finished_of_obs {b : Fun.Behaviour} (h : C02_ObsFinished (ofFun b).res) :
    Fun2Core.Sem.Finished b.res := by
  obtain ⟨out, res⟩ := b
  cases res with
  | done v => trivial
  | outOfFuel => exact h
  | stuck w =>
    simp only [ofFun, C02_ObsFinished] at h
    cases w with
    | divByZero => trivial
    | overflow => trivial
    | unbound x =>
      exfalso
      rcases h with h | h <;> (have h1 := congrArg String.toList h; simp [Fun.Why.toString] at h1)
    | unknownDef x =>
      exfalso
      rcases h with h | h <;> (have h1 := congrArg String.toList h; simp [Fun.Why.toString] at h1)
    | arity x =>
      exfalso
      rcases h with h | h <;> (have h1 := congrArg String.toList h; simp [Fun.Why.toString] at h1)
    | noClause x =>
      exfalso
      rcases h with h | h <;> (have h1 := congrArg String.toList h; simp [Fun.Why.toString] at h1)
    | notInt x =>
      exfalso
      rcases h with h | h <;> (have h1 := congrArg String.toList h; simp [Fun.Why.toString] at h1)
    | notCont x =>
      exfalso
      rcases h with h | h <;> (have h1 := congrArg String.toList h; simp [Fun.Why.toString] at h1)
    | notData => exfalso; rcases h with h | h <;> exact absurd h (by decide)
    | notCodata => exfalso; rcases h with h | h <;> exact absurd h (by decide)
    | untyped => exfalso; rcases h with h | h <;> exact absurd h (by decide)

theorem C02_obs_of_match {out : List (Bool × Word)} {r : Fun.Result} {r' : Core.Res}
    (h : Fun2Core.Sem.ResMatch r r') : ofCore ⟨out, r'⟩ = ofFun ⟨out, r⟩ := by
  cases h <;> rfl

/-! ## the theorems -/

/-- **C02, semantic part, forward half, fragment** (integers, data, labels; no codata): for every
program of the fragment `fragOk`, whose translation is `q2` (with every translated definition
closed), and all arguments: every finished run of the Fun machine is matched by a run of the Core
ς-machine on `q2` with the same trace and outcome, and every Fun trace is a prefix of a Core trace. -/
theorem C02_sem_forward_frag (p : Fun.Program) (p' : Fun.CheckedProgram) (q2 : Core.Prog)
    (hn : programNamesOk p = true) (hck : checkProgram p = .ok p')
    (hf : Fun2Core.Sem.fragOk p' = true) (hc : Fun2Core.compileProg p' = .ok q2)
    (hq : Fun2Core.Sem.coreClosed q2 = true) (args : List Word) :
    C02_ObsForward (fun n => ofFun (Fun.run p' args n)) (fun n => ofCore (Core.run q2 args n)) := by
  obtain ⟨h1, h2⟩ := Fun2Core.Sem.sem_forward hc (Fun2Core.Sem.progOk_of_fragOk hf) hq
    (Fun2Core.Typed.checkProgram_progM hn hck) args
  refine ⟨fun n hfin => ?_, fun n => ?_⟩
  · obtain ⟨m, r', hm, hr⟩ := h1 n (C02_finished_of_obs hfin)
    refine ⟨m, ?_⟩
    simp only [hm]
    exact C02_obs_of_match hr
  · obtain ⟨m, hm⟩ := h2 n
    exact ⟨m, hm⟩

/-- the same in the shape of the link used by the end-to-end composition (`C01_composition` applies
clause 1 of `ObsSame`): for checked programs of the fragment -/
theorem C02_sem_forward_link (p : Fun.Program) (p' : Fun.CheckedProgram) (q2 : Core.Prog)
    (hn : programNamesOk p = true) (hck : checkProgram p = .ok p')
    (hf : Fun2Core.Sem.fragOk p' = true) (hc : Fun2Core.compileProg p' = .ok q2)
    (hq : Fun2Core.Sem.coreClosed q2 = true) (args : List Word) (n : Nat)
    (hfin : C02_ObsFinished (ofFun (Fun.run p' args n)).res) :
    ∃ m, ofCore (Core.run q2 args m) = ofFun (Fun.run p' args n) :=
  (C02_sem_forward_frag p p' q2 hn hck hf hc hq args).1 n hfin

/-- the Fun run never gets stuck for a reason other than an arithmetic fault (what type safety of
the CEK machine w.r.t. the checker would give for checked programs with a valid `main`) -/
def C02_FunSafe (p' : Fun.CheckedProgram) (args : List Word) : Prop :=
  ∀ n, (ofFun (Fun.run p' args n)).res = .outOfFuel ∨ C02_ObsFinished (ofFun (Fun.run p' args n)).res

/-- type safety of the CEK machine, as needed by the backward half — NOT PROVED (a statement about
the checker and the Fun machine only, no compiler stage involved) -/
def C02_funSafe_statement : Prop :=
  ∀ (p : Fun.Program) (p' : Fun.CheckedProgram),
    programNamesOk p = true → checkProgram p = .ok p' → validMain p' = true →
    ∀ args : List Word, args.length = (p'.defs.find? (·.name == "main")).elim 0 (·.ctx.length) →
      C02_FunSafe p' args

/-- **C02, semantic part, both halves, fragment, modulo safety of the Fun run**: for every program of
the fragment `fragOk`, whose translation is `q2` (with every translated definition closed), and all
arguments on which the Fun machine does not get stuck for a reason other than an arithmetic fault:
the Fun machine on the program and the Core ς-machine on `q2` have the same observable behaviour
(all four clauses of `ObsSame`). -/
theorem C02_sem_frag_of_safe (p : Fun.Program) (p' : Fun.CheckedProgram) (q2 : Core.Prog)
    (hn : programNamesOk p = true) (hck : checkProgram p = .ok p')
    (hf : Fun2Core.Sem.fragOk p' = true) (hc : Fun2Core.compileProg p' = .ok q2)
    (hq : Fun2Core.Sem.coreClosed q2 = true) (args : List Word) (hs : C02_FunSafe p' args) :
    C02_ObsSame (fun n => ofFun (Fun.run p' args n)) (fun n => ofCore (Core.run q2 args n)) := by
  obtain ⟨f1, f3⟩ := C02_sem_forward_frag p p' q2 hn hck hf hc hq args
  have hs' : Fun2Core.Sem.FunSafe p' args := by
    intro n
    rcases hs n with h | h
    · left
      revert h
      simp only [ofFun]
      cases (Fun.run p' args n).res <;> simp
    · exact .inr (C02_finished_of_obs h)
  obtain ⟨b2, b4⟩ := Fun2Core.Sem.sem_backward hc (Fun2Core.Sem.progOk_of_fragOk hf) hq
    (Fun2Core.Typed.checkProgram_progM hn hck) args hs'
  refine ⟨f1, fun m hfin => ?_, f3, fun m => ?_⟩
  · have hne : (Core.run q2 args m).res ≠ .outOfFuel := by
      intro e
      simp only [ofCore, e, C02_ObsFinished] at hfin
    obtain ⟨n, r, hn, hr⟩ := b2 m hne
    refine ⟨n, ?_⟩
    simp only [hn]
    exact (C02_obs_of_match hr).symm
  · obtain ⟨n, hn⟩ := b4 m
    exact ⟨n, hn⟩

theorem C02_runFrom_stable (p : Fun.CheckedProgram) : ∀ (n : Nat) (s : Fun.State)
    (acc : List (Bool × Word)) (b : Fun.Behaviour),
    Fun.runFrom p n s acc = b → b.res ≠ .outOfFuel → ∀ k, Fun.runFrom p (n + k) s acc = b
  | 0, s, acc, b, h, hr, k => by
    simp only [Fun.runFrom] at h
    subst h
    exact absurd rfl hr
  | n + 1, s, acc, b, h, hr, k => by
    rw [show n + 1 + k = (n + k) + 1 by omega]
    simp only [Fun.runFrom] at h ⊢
    cases hs : Fun.step p s with
    | next s' o =>
      rw [hs] at h
      cases o with
      | none => exact C02_runFrom_stable p n s' acc b h hr k
      | some o => exact C02_runFrom_stable p n s' (o :: acc) b h hr k
    | done v => rw [hs] at h; exact h
    | stuck w => rw [hs] at h; exact h

theorem C02_funRun_stable (p : Fun.CheckedProgram) (args : List Word) (n k : Nat)
    (hr : (Fun.run p args n).res ≠ .outOfFuel) : Fun.run p args (n + k) = Fun.run p args n := by
  unfold Fun.run at hr ⊢
  cases h : Fun.initState p args with
  | error w => rfl
  | ok s =>
    rw [h] at hr
    exact C02_runFrom_stable p n s [] _ rfl hr k

/-- a Fun run that finishes (with a result or an arithmetic fault) is safe -/
theorem C02_funSafe_of_finished (p' : Fun.CheckedProgram) (args : List Word) (n0 : Nat)
    (h : C02_ObsFinished (ofFun (Fun.run p' args n0)).res) : C02_FunSafe p' args := by
  intro n
  by_cases hr : (Fun.run p' args n).res = .outOfFuel
  · left
    simp only [ofFun, hr]
  · right
    have hr0 : (Fun.run p' args n0).res ≠ .outOfFuel := by
      intro e
      simp only [ofFun, e, C02_ObsFinished] at h
    have h1 := C02_funRun_stable p' args n n0 hr
    have h2 := C02_funRun_stable p' args n0 n hr0
    rw [Nat.add_comm] at h2
    rw [← h1, h2]
    exact h

/-- **C02, semantic part, fragment, finishing runs**: if the Fun machine finishes on the arguments
(with a result or an arithmetic fault), the Fun machine on the program and the Core ς-machine on its
translation have the same observable behaviour (all four clauses of `ObsSame`) -/
theorem C02_sem_frag_of_finished (p : Fun.Program) (p' : Fun.CheckedProgram) (q2 : Core.Prog)
    (hn : programNamesOk p = true) (hck : checkProgram p = .ok p')
    (hf : Fun2Core.Sem.fragOk p' = true) (hc : Fun2Core.compileProg p' = .ok q2)
    (hq : Fun2Core.Sem.coreClosed q2 = true) (args : List Word) (n0 : Nat)
    (h : C02_ObsFinished (ofFun (Fun.run p' args n0)).res) :
    C02_ObsSame (fun n => ofFun (Fun.run p' args n)) (fun n => ofCore (Core.run q2 args n)) :=
  C02_sem_frag_of_safe p p' q2 hn hck hf hc hq args (C02_funSafe_of_finished p' args n0 h)

/-- the full equivalence on the fragment for checked programs, reduced to the safety of the Fun
machine on checked programs -/
theorem C02_sem_frag_modulo_safety (hsafe : C02_funSafe_statement)
    (p : Fun.Program) (p' : Fun.CheckedProgram) (q2 : Core.Prog)
    (hn : programNamesOk p = true) (hck : checkProgram p = .ok p') (hvm : validMain p' = true)
    (hf : Fun2Core.Sem.fragOk p' = true) (hc : Fun2Core.compileProg p' = .ok q2)
    (hq : Fun2Core.Sem.coreClosed q2 = true) (args : List Word)
    (hlen : args.length = (p'.defs.find? (·.name == "main")).elim 0 (·.ctx.length)) :
    C02_ObsSame (fun n => ofFun (Fun.run p' args n)) (fun n => ofCore (Core.run q2 args n)) :=
  C02_sem_frag_of_safe p p' q2 hn hck hf hc hq args (hsafe p p' hn hck hvm args hlen)

/-- `fragOk` contains the hypotheses of the full statement that are about the shape of the program -/
theorem C02_fragOk_sequenced {p' : Fun.CheckedProgram} (h : Fun2Core.Sem.fragOk p' = true) :
    Fun.Sequenced p' = true ∧ Fun.noMainCall p' = true ∧ C02_noSigmaNames p' = true := by
  simp only [Fun2Core.Sem.fragOk, Bool.and_eq_true] at h
  obtain ⟨⟨⟨⟨⟨⟨h1, h2⟩, h4⟩, _⟩, _⟩, _⟩, _⟩ := h
  refine ⟨h1, h2, ?_⟩
  simp only [C02_noSigmaNames, List.all_eq_true, Bool.and_eq_true] at h4 ⊢
  intro d hd
  have := h4 d hd
  simp only [Fun2Core.Sem.defFrag, Bool.and_eq_true] at this
  exact ⟨this.1.2, this.2⟩

/-! ## non-vacuity: a program with data, `case`, a shared continuation, label / goto and a
covariable parameter -/

/-- `sum` multiplies nothing: it adds the elements of a list and jumps out through `k` at the first 0;
`main` prints two sums -/
def C02Sem_exSrc : String :=
  "data List[A] { Nil, Cons(x : A, xs : List[A]) }
   def sum(l : List[i64], k :cns i64) : i64 {
     l.case[i64] { Nil => 0,
                   Cons(y, ys) => if y == 0 { goto k (0 - 1) } else { let r : i64 = sum(ys, k); y + r } } }
   def main(n : i64) : i64 {
     let s : i64 = label a { sum(Cons(n, Cons(2, Nil)), a) };
     println_i64(s);
     let t : i64 = if n == 5 { s * 2 } else { s / n };
     println_i64(t);
     0 }"

/-- the hypotheses of `C02_sem_forward_frag` hold for the example, and both machines print 7, 14 and
return 0 on the argument 5, print -1 and stop with `divByZero` on the argument 0 -/
def C02Sem_exCheck (src : String) : Bool :=
  match frontEnd src with
  | .ok _ p' =>
    Fun2Core.Sem.fragOk p' &&
    match Fun2Core.compileProg p' with
    | .ok q =>
      Fun2Core.Sem.coreClosed q &&
      decide (ofFun (Fun.run p' [5] 400) = ⟨[(true, 7), (true, 14)], .done 0⟩) &&
      decide (ofCore (Core.run q [5] 400) = ⟨[(true, 7), (true, 14)], .done 0⟩) &&
      decide (ofFun (Fun.run p' [0] 400) = ⟨[(true, BitVec.ofInt 64 (-1))], .stuck "divByZero"⟩) &&
      decide (ofCore (Core.run q [0] 400) = ⟨[(true, BitVec.ofInt 64 (-1))], .stuck "divByZero"⟩)
    | .error _ => false
  | _ => false

set_option maxRecDepth 100000 in
theorem C02Sem_example : C02Sem_exCheck C02Sem_exSrc = true := by decide +kernel

/-- a closure applied twice: codata by name = by value on variables and `new` -/
def C02Sem_exSrc2 : String :=
  "codata Fun[A, B] { apply(x : A) : B }
   def twice(f : Fun[i64, i64], v : i64) : i64 { let a : i64 = f.apply[i64, i64](v); f.apply[i64, i64](a) }
   def main(n : i64) : i64 {
     let k : i64 = n * 2;
     let f : Fun[i64, i64] = new { apply(x) => x + k };
     println_i64(twice(f, 1));
     0 }"

def C02Sem_exCheck2 (src : String) : Bool :=
  match frontEnd src with
  | .ok _ p' =>
    Fun2Core.Sem.fragOk p' &&
    match Fun2Core.compileProg p' with
    | .ok q =>
      Fun2Core.Sem.coreClosed q &&
      decide (ofFun (Fun.run p' [5] 200) = ⟨[(true, 21)], .done 0⟩) &&
      decide (ofCore (Core.run q [5] 200) = ⟨[(true, 21)], .done 0⟩)
    | .error _ => false
  | _ => false

set_option maxRecDepth 100000 in
theorem C02Sem_example2 : C02Sem_exCheck2 C02Sem_exSrc2 = true := by decide +kernel

/-! ## the statement as first given is false: a program that calls `main` (finding D13) -/

theorem C02_stepN_stable (q : Core.Prog) : ∀ (m : Nat) (S : Core.State) (b : Core.Behaviour),
    Core.stepN q m S = b → b.res ≠ .outOfFuel → ∀ k, Core.stepN q (m + k) S = b
  | 0, S, b, h, hr, k => by
    simp only [Core.stepN] at h
    subst h
    exact absurd rfl hr
  | m + 1, S, b, h, hr, k => by
    rw [show m + 1 + k = (m + k) + 1 by omega]
    simp only [Core.stepN] at h ⊢
    cases hs : Core.step q S with
    | next S' =>
      rw [hs] at h
      exact C02_stepN_stable q m S' b h hr k
    | final r =>
      rw [hs] at h
      exact h

theorem C02_run_stable (q : Core.Prog) (args : List Word) (m k : Nat) (b : Core.Behaviour)
    (h : Core.run q args m = b) (hr : b.res ≠ .outOfFuel) : Core.run q args (m + k) = b := by
  unfold Core.run at h ⊢
  split
  · rename_i h1; simpa [h1] using h
  · rename_i d h1
    rw [h1] at h
    simp only at h ⊢
    split
    · rename_i e h2; simpa [h2] using h
    · rename_i ρ h2
      rw [h2] at h
      exact C02_stepN_stable q m _ b h hr k

/-- `def main(n) { if n == 0 { 0 } else { main(n - 1) } }` — sequenced, accepted, translated; on the
argument 1 the Fun machine returns 0, the Core machine is `stuck arity` -/
def C02Sem_d13Src : String := "def main(n : i64) : i64 { if n == 0 { 0 } else { main(n - 1) } }"

def C02Sem_d13Check : Bool :=
  match Fun.Parse.parse .diagOnOverflow C02Sem_d13Src with
  | .ok p =>
    programNamesOk p &&
    match checkProgram p with
    | .ok p' =>
      Fun.Sequenced p' &&
      match Fun2Core.compileProg p' with
      | .ok q =>
        decide (ofFun (Fun.run p' [1] 30) = ⟨[], .done 0⟩) &&
        decide (Core.run q [1] 30 = ⟨[], .stuck .arity⟩)
      | .error _ => false
    | _ => false
  | _ => false

set_option maxRecDepth 100000 in
theorem C02Sem_d13Check_true : C02Sem_d13Check = true := by decide +kernel

/-- the statement as first given does not hold (witness: a tail call of `main`) -/
theorem C02_sem_statement_as_given_false : ¬ C02_sem_statement_as_given := by
  intro h
  have hck := C02Sem_d13Check_true
  unfold C02Sem_d13Check at hck
  cases hp : Fun.Parse.parse .diagOnOverflow C02Sem_d13Src with
  | ok p =>
    rw [hp] at hck
    simp only [Bool.and_eq_true] at hck
    obtain ⟨hn, hck⟩ := hck
    cases hc : checkProgram p with
    | ok p' =>
      rw [hc] at hck
      simp only [Bool.and_eq_true] at hck
      obtain ⟨hseq, hck⟩ := hck
      cases hq : Fun2Core.compileProg p' with
      | ok q =>
        rw [hq] at hck
        simp only [Bool.and_eq_true, decide_eq_true_eq] at hck
        obtain ⟨hfun, hcore⟩ := hck
        obtain ⟨m, hm⟩ := (h p p' q hn hc hseq hq [1]).1 30 (by simp only [hfun]; trivial)
        simp only [hfun] at hm
        have hdone : Core.run q [1] m = ⟨[], .done 0⟩ := by
          generalize Core.run q [1] m = b at hm
          obtain ⟨out, res⟩ := b
          cases res <;> simp_all [ofCore]
        by_cases hle : m ≤ 30
        · have := C02_run_stable q [1] m (30 - m) _ hdone (by simp)
          rw [show m + (30 - m) = 30 by omega, hcore] at this
          cases this
        · have := C02_run_stable q [1] 30 (m - 30) _ hcore (by simp)
          rw [show 30 + (m - 30) = m by omega, hdone] at this
          cases this
      | error e => rw [hq] at hck; simp at hck
    | diag c => rw [hc] at hck; simp at hck
    | panic c => rw [hc] at hck; simp at hck
  | diag c => rw [hp] at hck; simp at hck
  | panic c => rw [hp] at hck; simp at hck

#print axioms C02_sem_forward_frag
#print axioms C02_sem_forward_link
#print axioms C02_sem_frag_of_safe
#print axioms C02_sem_frag_of_finished
#print axioms C02_sem_frag_modulo_safety
#print axioms C02_fragOk_sequenced
#print axioms C02Sem_example
#print axioms C02Sem_example2
#print axioms C02_sem_statement_as_given_false

end Scc.Props
