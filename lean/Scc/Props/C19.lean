/-
  Scc.Props.C19 — size of the output of the Fun → Core translation (the fun2core part of C19).

  Property C19 (as given): "The size of every intermediate program and of the emitted code is bounded
  by a low-degree polynomial in the size of the source: branching constructs (conditionals, matches,
  critical pairs over multi-constructor types) followed by further code share that code instead of
  copying it into each branch, so k sequenced or nested branch points never cost 2^k."

  Model: Scc.Fun2Core.Model (tied to /repo/lang/fun2core by exact S2 dump equality).
  Sizes: node counts `funSize` / `stmtSize` / `termSize` / `defSize` of Scc.Fun2Core.Size (a source
  clause counts 1 + its binder names + its typed binders; a target clause 1 + its binders).
  State of /repo: including the capture guard of ce30c7b (each guarded `let`/`case` costs a constant
  `⟨μa.… | c⟩` wrapper, absorbed in the per-node budget).

  What is proved (all for the real model functions, by mutual structural induction over
  Term / Terms / Clauses in Scc.Fun2Core.SizeProofs):
    * C19_fun2core_T1  = `C19_fun2core_statement`, FULL: with a = 3, b = 4, for every term `t`,
        consumer `c`, state: the output statement plus the definitions NEWLY lifted by `share` have
        total size ≤ a * |t| * (v + b) + |c|, where `v` bounds the number of parameters (= typed free
        variables of the shared continuation) of the newly lifted definitions.
    * C19_compile_cont_inserted_once: the same read as `|out| ≤ |c| + C19_K t v` with `K` independent of
        `c` — a continuation is duplicated into several branches only when `isLeaf` (a (co)variable,
        or `μ~x.exit p` with p a variable/literal; size ≤ 3, `C19_leaf_size`), otherwise `share`
        replaces it by `μ~x.share_f_n(fv)` of size arity + 2 (`C19_share_size`).
    * C19_fun2core_prog: program level, `|S2| ≤ 3 * |S1| * (v + 4)` where `v` bounds the number of
        parameters of the definitions of the OUTPUT.
    * C19_fun2core_arity: FULL: every definition of the output (user or lifted) has at most
        `2 * |S1|` parameters — the parameters of a lifted definition are duplicate-free typed free
        variables of the shared continuation, all of which are typed names mentioned by the enclosing
        definition (each source node contributes at most two: its own occurrence / fresh covariable
        and the fresh variable of a `share`).  (Scc.Fun2Core.FreeVars, Scc.Fun2Core.Arity)
    * C19_fun2core_full: UNCONDITIONAL: `|S2| ≤ 3 * n * (2 * n + 4) = 6 n² + 12 n`, `n = |S1|`.
  The later stages (focus, shrink, linearize, codegen) belong to other components.
-/
import Scc.Fun2Core.SizeProofs
import Scc.Fun2Core.Arity

namespace Scc.Props
open Scc Scc.Fun2Core

/-- C19-T1, full statement for fun2core: explicit constants `a`, `b`. -/
def C19_fun2core_statement : Prop :=
  ∃ a b : Nat, ∀ (v : Nat) (t : Fun.Term) (c : Core.Term) (st : CompileState)
      (s : Core.Stmt) (st' : CompileState),
    compileWithCont t c st = .ok (s, st') →
    ∃ new, st'.liftedStatements = new ++ st.liftedStatements ∧
      ((∀ d ∈ new, d.ctx.length ≤ v) →
        stmtSize s + defsSize new ≤ a * funSize t * (v + b) + termSize c)

/-- C19-T1 (full): a = 3, b = 4. -/
theorem C19_fun2core_T1 : C19_fun2core_statement := by
  refine ⟨3, 4, fun v t c st s st' h => ?_⟩
  obtain ⟨new, e, b⟩ := compileWithCont_size v h
  refine ⟨new, e, fun hA => ?_⟩
  have := b hA
  have hw : funSize t * W v = 3 * funSize t * (v + 4) := by
    unfold W; rw [Nat.mul_comm 3 (funSize t), Nat.mul_assoc]
  omega

/-- the cost of translating `t`, independent of the continuation -/
def C19_K (t : Fun.Term) (v : Nat) : Nat := 3 * funSize t * (v + 4)

/-- (a) the continuation is inserted at most once unless it is a leaf: the output exceeds the
continuation by a quantity that does not depend on the continuation.  (If a non-leaf continuation of
size m were copied into two branches, `|out| ≥ 2 m` would contradict this for large m.) -/
theorem C19_compile_cont_inserted_once (v : Nat) (t : Fun.Term) (c : Core.Term)
    (st : CompileState) (s : Core.Stmt) (st' : CompileState)
    (h : compileWithCont t c st = .ok (s, st')) :
    ∃ new, st'.liftedStatements = new ++ st.liftedStatements ∧
      ((∀ d ∈ new, d.ctx.length ≤ v) → stmtSize s + defsSize new ≤ termSize c + C19_K t v) := by
  obtain ⟨new, e, bd⟩ := compileWithCont_size v h
  refine ⟨new, e, fun hA => ?_⟩
  have := bd hA
  have hw : funSize t * W v = C19_K t v := by
    unfold W C19_K; rw [Nat.mul_comm 3 (funSize t), Nat.mul_assoc]
  omega

/-- the exact Rust condition under which a continuation is copied: it is a leaf, of size ≤ 3 -/
theorem C19_leaf_size {c : Core.Term} (h : isLeaf c = true) : termSize c ≤ 3 := isLeaf_size h

/-- what `share` does: exactly one definition `d` is lifted, the returned consumer has size
`arity d + 2`, and `d` has size at most `|cont| + arity d + 3` -/
theorem C19_share_size (c : Core.Term) (st : CompileState) :
    ∃ d, (share c st).2.liftedStatements = d :: st.liftedStatements ∧
      termSize (share c st).1 = d.ctx.length + 2 ∧
      defSize d ≤ termSize c + d.ctx.length + 3 := share_size c st

/-- program level: `|S2| ≤ 3 * |S1| * (v + 4)`, `v` = maximal number of parameters of an output
definition. -/
theorem C19_fun2core_prog (v : Nat) (p : Fun.CheckedProgram) (q : Core.Prog)
    (h : compileProg p = .ok q) (hA : ∀ d ∈ q.defs, d.ctx.length ≤ v) :
    progSize q ≤ 3 * funProgSize p * (v + 4) := by
  have := compileProg_size v h hA
  have hw : funProgSize p * W v = 3 * funProgSize p * (v + 4) := by
    unfold W; rw [Nat.mul_comm 3 (funProgSize p), Nat.mul_assoc]
  omega

/-- the number of parameters of every definition of the output is linear in the source size -/
def C19_fun2core_arity_statement : Prop :=
  ∀ (p : Fun.CheckedProgram) (q : Core.Prog), compileProg p = .ok q →
    ∀ d ∈ q.defs, d.ctx.length ≤ 2 * funProgSize p

/-- FULL: user definitions have their parameters + 1; a lifted definition has as parameters the
duplicate-free typed free variables of the shared continuation. -/
theorem C19_fun2core_arity : C19_fun2core_arity_statement :=
  fun _ _ h => compileProg_arity h

/-- C19 for the stage S1 → S2, unconditional: the size of the Core program is at most quadratic in
the size of the checked Fun program (`3 * n * (2 * n + 4)`), whatever the nesting or sequencing of
branching constructs. -/
def C19_fun2core_full_statement : Prop :=
  ∀ (p : Fun.CheckedProgram) (q : Core.Prog), compileProg p = .ok q →
    progSize q ≤ 3 * funProgSize p * (2 * funProgSize p + 4)

theorem C19_fun2core_full : C19_fun2core_full_statement :=
  fun p q h => C19_fun2core_prog _ p q h (compileProg_arity h)

/-! ## non-vacuity: concrete instances (evaluated by the kernel) -/

section examples

/-- `if x == 0 { 1 } else { 2 }` with consumer `μ~y.⟨y + y | a⟩`-like non-leaf consumer -/
def C19_exTerm : Fun.Term :=
  .ifz .eq (.var "x" (some .i64) (some .prd)) (.lit 1) (.lit 2) (some .i64)

def C19_exCont : Core.Term :=
  .mu .cns ⟨"y", 0⟩ .i64
    (.cut .i64 (.op (.var .prd ⟨"y", 0⟩ .i64) .sum (.var .prd ⟨"z", 0⟩ .i64)) (.var .cns ⟨"a", 0⟩ .i64))

def C19_exState : CompileState := ⟨["x", "y", "z", "a"], [], ["f"], "f", []⟩

def C19_exSizes : Option (Nat × Nat × Nat) :=
  match compileWithCont C19_exTerm C19_exCont C19_exState with
  | .ok (s, st') => some (stmtSize s, defsSize st'.liftedStatements,
      (st'.liftedStatements.map (·.ctx.length)).foldl max 0)
  | .error _ => none

/-- the hypotheses of T1 are satisfiable: the translation succeeds, one definition with 3 parameters
is lifted, and 16 + 9 ≤ 3 * 4 * (3 + 4) + 6 -/
example : C19_exSizes = some (16, 9, 3) := by decide
example : funSize C19_exTerm = 4 ∧ termSize C19_exCont = 6 := by decide

/-- `def share_f_0(x) {x}  def f(x,y) { let z = if x == y {1} else {2}; share_f_0((z + x)) }
def main() { f(1,2) }` (S1 dump of the harness) -/
def C19_exProg : Fun.CheckedProgram :=
  ⟨[],
   [],
   [⟨"share_f_0", [⟨"x", .prd, .i64⟩], .i64, (.var "x" (some .i64) (some .prd))⟩, ⟨"f", [⟨"x", .prd, .i64⟩, ⟨"y", .prd, .i64⟩], .i64, (.letIn "z" .i64 (.ifc .eq (.var "x" (some .i64) (some .prd)) (.var "y" (some .i64) (some .prd)) (.lit (1)) (.lit (2)) (some .i64)) (.call "share_f_0" (.cons (.paren (.op (.var "z" (some .i64) (some .prd)) .sum (.var "x" (some .i64) (some .prd)))) .nil) (some .i64)) (some .i64))⟩, ⟨"main", [], .i64, (.call "f" (.cons (.lit (1)) (.cons (.lit (2)) .nil)) (some .i64))⟩]⟩

def C19_exProgSizes : Option (Nat × Nat) :=
  match compileProg C19_exProg with
  | .ok q => some (funProgSize C19_exProg, progSize q)
  | .error _ => none

/-- the hypothesis of `C19_fun2core_full` holds for a concrete program: |S1| = 21, |S2| = 43
(≤ 3 * 21 * 46) -/
example : C19_exProgSizes = some (21, 43) := by decide

end examples

/-! ## axioms -/

#print axioms C19_fun2core_T1
#print axioms C19_compile_cont_inserted_once
#print axioms C19_leaf_size
#print axioms C19_share_size
#print axioms C19_fun2core_prog
#print axioms C19_fun2core_arity
#print axioms C19_fun2core_full

end Scc.Props
