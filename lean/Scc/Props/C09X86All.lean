/-
  Scc.Props.C09X86All — property C09 (heap consistency) ON CONCRETE x86-64 EXECUTIONS OF ALL PROGRAMS — data
  types AND CLOSURES: the port of Props/C09X86.lean (programs without closures) to the closure-aware three-way
  relation `Scc.X86.Ref.K` of Props/C06X86Full.lean (Scc/X86/ConcK*.lean), with the side hypotheses of the
  composition discharged as in `C06_programs_text` (`C06_setup_of_checks`, Props/C13X86All.lean).

  C09 (fixed text): "At every statement boundary of every execution of generated code, on every backend,
  each heap block below the allocation frontier is in exactly one state: reachable from the live variables,
  on the immediately reusable free list, on the deferred free list, or waiting beneath a deferred block; and
  the count stored in each reachable block equals the number of references to it from live variables and
  from fields of reachable or deferred blocks, minus one. …"

  THE PREDICATE is `HeapInvAt cfg X kinds limit` of Props/C09X86.lean (Scc/X86/ConcInv.lean): the predicate of the
  executable heap monitor on the raw machine state.  A closure is a heap object like a constructor object: its
  variable is not `ext`, so its pointer temporary (the environment block) is a root the monitor reads; its
  word part (a code address) is not looked at.

  THE STATEMENT BOUNDARIES.  `ConcK.BoundaryOf p hooks routine ops cfg st X`: the machine state `X` is the state
  `X0` related by `Ref.K.Rel3` (closure invariant `XC` included) to the positional state `st`, OR `X0` MOVED
  FORWARD OVER LABELS AND COMMENTS (`Tol routine X0 X`): the indirect `jmp reg` of an `invoke` of a
  single-method closure lands on the first item of non-zero size behind the method label, past the label and
  the comments (the `#ctx` hook among them) the code of the method starts with.  Registers, stack, heap and
  output of `X` are those of `X0`.  `BChain`: the machine passes through such states IN ORDER by `stepN`.

  PROVED (no `sorry`; axioms propext, Classical.choice, Quot.sound):
  * `C09_x86_boundary_all`       every boundary state satisfies `HeapInvAt` for the kinds of the positional
                                 state's context and `limit = heapBase + heapBytes`.
  * `C09_x86_programs`           under the hypotheses of `C06_programs_text` (label-safe, linearly typed,
                                 `C06_x86Checks`, compiled; a terminating run; heap `128 + 64·134·fuel`): on the
                                 items the machine's own parser reads from the printed routine, the machine,
                                 started at `asm_main`, passes through a boundary state for EVERY state
                                 `statesOf p fuel st0` of the positional run, in order, and each of them
                                 satisfies `HeapInvAt`.  `C09_x86_programs_items`: the same with the side
                                 hypotheses explicit; `C09_x86_reachable_all`: for every `Reachable` state.
  * `C09_x86_every_prefix_all`   NO TERMINATION HYPOTHESIS: for ANY number `fuel` of steps of the positional
                                 machine (a prefix of a possibly non-terminating run) the machine passes through a
                                 boundary state for every state of the prefix and the invariant holds at each;
                                 room: the footprint bound of C10 (`ConcK.PeakAtMost Pk`, `64·(Pk + A + 2) ≤
                                 heapBytes`, `A = progMaxAlloc p`; trivial for `Pk = A·fuel + 1`).
                                 `C09_x86_every_prefix_all_items`: side hypotheses explicit.
  * `C09_x86_every_prefix_all_size`  the same with the room hypothesis on the SOURCE PROGRAM: `valsFields
                                 st.env ≤ D` for every reachable state (the object and closure values held by the
                                 variables have at most `D` fields) and `64·(D + A + 2) ≤ heapBytes`.
  * `C09_x86_heapCheck_boundary_all`  the executable check `heapCheck cfg X (ctxKinds st.ctx)` returns `.ok
                                 (blocks below the frontier)` at every boundary state inside the monitor's window.
  * `C09_x86_monitor_boundary_all`  the monitor itself at a state in relation `Ref.K.Rel3` (hooks on): it finds
                                 the `#ctx` hook of the boundary at the program counter and passes.
  WHAT REMAINS of `C09_x86_monitor_statement` (Props/C09X86.lean), now for ALL programs: gap (1) [closures] is
  CLOSED here; (2) closed before; (4b) [the states strictly between two boundaries are not at a `#ctx` comment] is
  CLOSED in Props/C09X86Mon.lean (`C09_x86_monitor_never_fires`: the run with the heap monitor on never ends in a
  report `inv:`), which lists what is left: (3) the monitor's window (a fact about the write history), (4c) the
  hook at the program counter parses to the kinds of the positional state (the hypothesis `hparse` of
  `C09_x86_monitor_boundary_all` below, for EVERY context whose hook is in the routine, is satisfiable only for
  routines whose hooks list at most one variable — see Props/C09X86Mon.lean), and the hypotheses `LabelSafe`,
  `C06_x86Checks`, the sane machine configurations and the room hypothesis.
-/
import Scc.Props.C13X86All
import Scc.Props.C09X86
import Scc.X86.ConcKHook

namespace Scc.X86
open Scc.AxCut Scc.AxCut.Pos Scc.Backend Scc.Backend.Abs Scc.X86.Ref
open Scc.Heap (InvW)
open Scc.Props.C06Generic (Reachable CodeFits statesOf stopsWithin reachable_mem_statesOf)
open Scc.Props.C14Generic (LabelSafe)
open Scc.X86.Ref.K (AllocLe progMaxAlloc allocLe_progMaxAlloc)
open Scc.X86.Conc (BChain HeapInvAt HeapShapeAt ctxKinds valsFields)

/-! ## every boundary -/

/-- EVERY STATEMENT BOUNDARY, all programs: a machine state that is — up to labels and comments — related by
the closure-aware three-way relation to a state of the positional machine satisfies the heap monitor's
predicate for the roots the monitor reads from the first temporaries of the non-`ext` variables (objects AND
closures) of that state's context. -/
theorem C09_x86_boundary_all {p : AxCut.Prog} {hooks : Bool} {routine : List Code} {ops : List MockOp}
    {cfg : MonCfg} (hk : cfg.consts = consts) {st : Pos.State} {X : State}
    (B : ConcK.BoundaryOf p hooks routine ops cfg st X) :
    HeapInvAt cfg X (ctxKinds st.ctx) (cfg.mach.heapBase + cfg.mach.heapBytes) :=
  ConcK.heapInvAt_of_boundary hk B

/-- THE EXECUTABLE HEAP CHECK SUCCEEDS AT EVERY STATEMENT BOUNDARY (inside the monitor's window), all programs -/
theorem C09_x86_heapCheck_boundary_all {p : AxCut.Prog} {hooks : Bool} {routine : List Code} {ops : List MockOp}
    {cfg : MonCfg} (hk : cfg.consts = consts) {st : Pos.State} {X : State}
    (B : ConcK.BoundaryOf p hooks routine ops cfg st X) :
    ∃ below inUse, HeapShapeAt cfg X below inUse ∧
      (64 * below + 64 ≤ X.maxHeapWritten + 512 → heapCheck cfg X (ctxKinds st.ctx) = .ok below) :=
  ConcK.heapCheck_boundary hk B

/-- THE HEAP MONITOR DOES NOT FIRE AT A STATEMENT BOUNDARY, all programs (hooks on; `items` = the items of the
routine, with their comment texts): at a machine state related by `Ref.K.Rel3` to a positional state, `monitor`
finds the `#ctx` hook of that boundary at the program counter, parses its kinds and — when the frontier lies in
its window — returns the number of blocks below the frontier. -/
theorem C09_x86_monitor_boundary_all {F : Frame} {cfg : MonCfg} (hFc : F.c = cfg.mach) (hk : cfg.consts = consts)
    {routine : List Code} {items : List (Code × Nat)} (hitems : items.map (·.1) = routine)
    {P : Program} {prog : AxCut.Prog} {st : Pos.State} {cfgA : Config} {hs : Scc.Heap.HState} {X : State}
    (R : Ref.K.Rel3 F routine P true prog st cfgA hs X)
    (hparse : ∀ Γ, Code.COMMENT (ctxHookComment Γ) ∈ routine → parseCtx (ctxHookComment Γ) = some (ctxKinds Γ)) :
    ∃ below inUse, HeapShapeAt cfg X below inUse ∧
      (cfg.heap = false → monitor cfg (mkProg cfg.mach items) X = .ok none) ∧
      (cfg.heap = true → 64 * below + 64 ≤ X.maxHeapWritten + 512 →
        monitor cfg (mkProg cfg.mach items) X = .ok (some below)) :=
  ConcK.monitor_boundary hFc hk hitems R hparse

/-! ## terminating runs -/

/-- C09 FOR CONCRETE x86-64 EXECUTIONS OF ALL PROGRAMS, on the items of the routine, side hypotheses explicit:
along a terminating run, the machine started at `asm_main` passes — in order, without fault — through a
statement-boundary state for EVERY state of the run of the positional machine, and at each of them the
machine's heap memory, HEAP, FREE and the pointer temporaries of the live variables satisfy the invariant. -/
theorem C09_x86_programs_items (p : AxCut.Prog) (args : List Word) (hooks : Bool) (body routine : List Code)
    (nargs : Nat) (d0 : Def) (ops : List MockOp) (c' : Nat)
    (hsafe : LabelSafe p = true) (htp : LinTypedProg p) (hrange : ProgInRange p)
    (hcompM : (compile mockSym hooks p).run 0 = .ok ((ops, nargs), c')) (hfit : CodeFits ops)
    (hcompX : compileX86 p hooks 0 = .ok (body, nargs)) (hrout : intoRoutine body nargs = .ok routine)
    (hnd : (labs routine).Nodup)
    (hd : p.defs.head? = some d0) (hentry : ∀ b ∈ d0.ctx, b.chi = .ext ∧ b.ty = .i64)
    (hcap : ∀ st, Reachable p ⟨d0.ctx, args.map .int, d0.body⟩ st → 2 * st.ctx.length ≤ 266)
    (fuel : Nat) (out : List (Bool × Word)) (v : Word) (hfuel : fuel + 1 < 2 ^ 64)
    (hrun : Pos.run p args fuel = ⟨out, .done v⟩)
    (cfg : MonCfg) (MO : MachOK cfg.mach) (hk : cfg.consts = consts)
    (hb8 : cfg.mach.heapBase % 8 = 0) (hb0 : 0 < cfg.mach.heapBase)
    (hbytes : 128 + 64 * 134 * fuel ≤ cfg.mach.heapBytes)
    (items : List (Code × Nat)) (hitems : (items.map (·.1)).map stripC = routine.map stripC)
    (hfitX : addrAt cfg.mach.codeBase routine routine.length < 2 ^ 64) :
    (mkProg cfg.mach items).labelIdx["asm_main"]? = some 6 ∧
    (∃ n0 X0, stepN cfg (mkProg cfg.mach items) n0 (initState cfg.mach args 6) = .inl X0 ∧
      BChain cfg (mkProg cfg.mach items)
        (fun st X => ConcK.BoundaryOf p hooks routine ops cfg st X ∧
          HeapInvAt cfg X (ctxKinds st.ctx) (cfg.mach.heapBase + cfg.mach.heapBytes))
        (statesOf p fuel ⟨d0.ctx, args.map .int, d0.body⟩) X0) ∧
    ∀ st, Reachable p ⟨d0.ctx, args.map .int, d0.body⟩ st →
      ∃ n X, stepN cfg (mkProg cfg.mach items) n (initState cfg.mach args 6) = .inl X ∧
        ConcK.BoundaryOf p hooks routine ops cfg st X ∧
        HeapInvAt cfg X (ctxKinds st.ctx) (cfg.mach.heapBase + cfg.mach.heapBytes) := by
  obtain ⟨hmain, n0, X0, h0, hch, hstop⟩ := ConcK.programs_chain p args hooks body routine nargs d0 ops c' hsafe htp
    ⟨hrange.1, fun d hd => hrange.2 d hd⟩ hcompM hfit hcompX hrout hnd hd hentry hcap fuel out v
    hfuel hrun cfg MO hb8 hb0 hbytes items hitems hfitX
  refine ⟨hmain, ⟨n0, X0, h0, BChain.mono (fun st X B => ⟨B, ConcK.heapInvAt_of_boundary hk B⟩) hch⟩, ?_⟩
  intro st hr
  obtain ⟨n, X, hn, B⟩ := BChain.prepend h0 hch st (reachable_mem_statesOf p fuel _ st hstop hr)
  exact ⟨n, X, hn, B, ConcK.heapInvAt_of_boundary hk B⟩

/-- C09 FOR CONCRETE x86-64 EXECUTIONS OF ALL PROGRAMS, ON THE TEXT OF THE ROUTINE, side hypotheses discharged:
under the hypotheses of `C06_programs_text` the text of the routine loads (`items`: what the machine's own parser
reads, the program `run` executes is `mkProg cfg.mach items`, entered at `asm_main` = item 6), and the machine
passes — in order, without fault — through a statement-boundary state for EVERY state of the terminating run of
the positional machine; the heap invariant of C09 holds at each of them. -/
theorem C09_x86_programs (p : AxCut.Prog) (args : List Word) (hooks : Bool) (body routine : List Code)
    (nargs : Nat) (d0 : Def)
    (hsafe : LabelSafe p = true) (htp : LinTypedProg p) (hchk : C06_x86Checks p = true)
    (hcompX : compileX86 p hooks 0 = .ok (body, nargs)) (hrout : intoRoutine body nargs = .ok routine)
    (hd : p.defs.head? = some d0)
    (fuel : Nat) (out : List (Bool × Word)) (v : Word) (hrun : Pos.run p args fuel = ⟨out, .done v⟩)
    (cfg : MonCfg) (MO : MachOK cfg.mach) (hk : cfg.consts = consts)
    (hb8 : cfg.mach.heapBase % 8 = 0) (hb0 : 0 < cfg.mach.heapBase)
    (hbytes : 128 + 64 * 134 * fuel ≤ cfg.mach.heapBytes)
    (hfitX : addrAt cfg.mach.codeBase routine routine.length < 2 ^ 64) :
    ∃ ops c' items, (compile mockSym hooks p).run 0 = .ok ((ops, nargs), c') ∧
      parseText (printProg routine) = .ok items ∧
      (mkProg cfg.mach items).labelIdx["asm_main"]? = some 6 ∧
      ∃ n0 X0, stepN cfg (mkProg cfg.mach items) n0 (initState cfg.mach args 6) = .inl X0 ∧
        BChain cfg (mkProg cfg.mach items)
          (fun st X => ConcK.BoundaryOf p hooks routine ops cfg st X ∧
            HeapInvAt cfg X (ctxKinds st.ctx) (cfg.mach.heapBase + cfg.mach.heapBytes))
          (statesOf p fuel ⟨d0.ctx, args.map .int, d0.body⟩) X0 := by
  obtain ⟨ops, c', items, S⟩ := C06_setup_of_checks p args hooks body routine nargs d0 hsafe htp hchk hcompX hrout hd
  obtain ⟨hmain, hch, _⟩ := C09_x86_programs_items p args hooks body routine nargs d0 ops c' hsafe htp S.range
    S.compM S.fit hcompX hrout S.nd hd S.entry S.cap fuel out v (fuel_lt_of_heap MO hbytes) hrun cfg MO hk hb8 hb0
    hbytes items S.items hfitX
  exact ⟨ops, c', items, S.compM, S.parse, hmain, hch⟩

/-- … in particular for EVERY state the positional machine reaches: the machine's run on the text of the routine
contains a boundary state for it, and the invariant holds there -/
theorem C09_x86_reachable_all (p : AxCut.Prog) (args : List Word) (hooks : Bool) (body routine : List Code)
    (nargs : Nat) (d0 : Def)
    (hsafe : LabelSafe p = true) (htp : LinTypedProg p) (hchk : C06_x86Checks p = true)
    (hcompX : compileX86 p hooks 0 = .ok (body, nargs)) (hrout : intoRoutine body nargs = .ok routine)
    (hd : p.defs.head? = some d0)
    (fuel : Nat) (out : List (Bool × Word)) (v : Word) (hrun : Pos.run p args fuel = ⟨out, .done v⟩)
    (cfg : MonCfg) (MO : MachOK cfg.mach) (hk : cfg.consts = consts)
    (hb8 : cfg.mach.heapBase % 8 = 0) (hb0 : 0 < cfg.mach.heapBase)
    (hbytes : 128 + 64 * 134 * fuel ≤ cfg.mach.heapBytes)
    (hfitX : addrAt cfg.mach.codeBase routine routine.length < 2 ^ 64) :
    ∃ ops c' items, (compile mockSym hooks p).run 0 = .ok ((ops, nargs), c') ∧
      parseText (printProg routine) = .ok items ∧
      ∀ st, Reachable p ⟨d0.ctx, args.map .int, d0.body⟩ st →
        ∃ n X, stepN cfg (mkProg cfg.mach items) n (initState cfg.mach args 6) = .inl X ∧
          ConcK.BoundaryOf p hooks routine ops cfg st X ∧
          HeapInvAt cfg X (ctxKinds st.ctx) (cfg.mach.heapBase + cfg.mach.heapBytes) := by
  obtain ⟨ops, c', items, S⟩ := C06_setup_of_checks p args hooks body routine nargs d0 hsafe htp hchk hcompX hrout hd
  obtain ⟨_, _, hreach⟩ := C09_x86_programs_items p args hooks body routine nargs d0 ops c' hsafe htp S.range
    S.compM S.fit hcompX hrout S.nd hd S.entry S.cap fuel out v (fuel_lt_of_heap MO hbytes) hrun cfg MO hk hb8 hb0
    hbytes items S.items hfitX
  exact ⟨ops, c', items, S.compM, S.parse, hreach⟩

/-! ## every prefix of every run -/

/-- C09 FOR EVERY PREFIX OF EVERY RUN (terminating or not) OF ALL PROGRAMS, on the items, side hypotheses
explicit: for ANY number `fuel` of steps of the positional machine, the machine started at `asm_main` passes — in
order, without fault — through a statement-boundary state for every state the positional machine goes through,
and the invariant of C09 holds at each of them.  Room: the footprint bound of C10. -/
theorem C09_x86_every_prefix_all_items (p : AxCut.Prog) (args : List Word) (hooks : Bool)
    (body routine : List Code) (nargs : Nat) (d0 : Def) (ops : List MockOp) (c' : Nat)
    (hsafe : LabelSafe p = true) (htp : LinTypedProg p) (hrange : ProgInRange p)
    (hcompM : (compile mockSym hooks p).run 0 = .ok ((ops, nargs), c')) (hfit : CodeFits ops)
    (hcompX : compileX86 p hooks 0 = .ok (body, nargs)) (hrout : intoRoutine body nargs = .ok routine)
    (hnd : (labs routine).Nodup)
    (hd : p.defs.head? = some d0) (hentry : ∀ b ∈ d0.ctx, b.chi = .ext ∧ b.ty = .i64)
    (hlen : d0.ctx.length = args.length)
    (hcap : ∀ st, Reachable p ⟨d0.ctx, args.map .int, d0.body⟩ st → 2 * st.ctx.length ≤ 266)
    (fuel : Nat) (hfuel : fuel + 1 < 2 ^ 64)
    (cfg : MonCfg) (MO : MachOK cfg.mach) (hk : cfg.consts = consts)
    (hb8 : cfg.mach.heapBase % 8 = 0) (hb0 : 0 < cfg.mach.heapBase)
    (Pk : Nat) (hbytes : 64 * (Pk + progMaxAlloc p + 2) ≤ cfg.mach.heapBytes)
    (items : List (Code × Nat)) (hitems : (items.map (·.1)).map stripC = routine.map stripC)
    (hfitX : addrAt cfg.mach.codeBase routine routine.length < 2 ^ 64)
    (hP : ConcK.PeakAtMost p hooks routine ops cfg items args Pk (progMaxAlloc p * fuel + 1)) :
    ∃ n0 X0, stepN cfg (mkProg cfg.mach items) n0 (initState cfg.mach args 6) = .inl X0 ∧
      BChain cfg (mkProg cfg.mach items)
        (fun st X => ConcK.BoundaryOf p hooks routine ops cfg st X ∧
          HeapInvAt cfg X (ctxKinds st.ctx) (cfg.mach.heapBase + cfg.mach.heapBytes))
        (statesOf p fuel ⟨d0.ctx, args.map .int, d0.body⟩) X0 := by
  obtain ⟨_, n0, X0, h0, hch⟩ := ConcK.programs_prefix p args hooks body routine nargs d0 ops c' hsafe htp
    ⟨hrange.1, fun d hd => hrange.2 d hd⟩ hcompM hfit hcompX hrout hnd hd hentry hlen hcap fuel
    hfuel cfg MO hk hb8 hb0 Pk (progMaxAlloc p) (allocLe_progMaxAlloc p) hbytes items hitems hfitX hP
  exact ⟨n0, X0, h0, BChain.mono (fun st X B => ⟨B.1, ConcK.heapInvAt_of_boundary hk B.1⟩) hch⟩

/-- C09 FOR EVERY PREFIX OF EVERY RUN OF ALL PROGRAMS, ON THE TEXT OF THE ROUTINE, side hypotheses discharged
(hypotheses of `C06_programs_text` without the terminating run; `args.length = nargs`; the peak hypothesis for the
mock code and the items of the text) -/
theorem C09_x86_every_prefix_all (p : AxCut.Prog) (args : List Word) (hooks : Bool) (body routine : List Code)
    (nargs : Nat) (d0 : Def)
    (hsafe : LabelSafe p = true) (htp : LinTypedProg p) (hchk : C06_x86Checks p = true)
    (hcompX : compileX86 p hooks 0 = .ok (body, nargs)) (hrout : intoRoutine body nargs = .ok routine)
    (hd : p.defs.head? = some d0) (hargs : args.length = nargs)
    (fuel : Nat) (hfuel : fuel + 1 < 2 ^ 64)
    (cfg : MonCfg) (MO : MachOK cfg.mach) (hk : cfg.consts = consts)
    (hb8 : cfg.mach.heapBase % 8 = 0) (hb0 : 0 < cfg.mach.heapBase)
    (Pk : Nat) (hbytes : 64 * (Pk + progMaxAlloc p + 2) ≤ cfg.mach.heapBytes)
    (hfitX : addrAt cfg.mach.codeBase routine routine.length < 2 ^ 64)
    (hP : ∀ ops c' items, (compile mockSym hooks p).run 0 = .ok ((ops, nargs), c') →
      parseText (printProg routine) = .ok items →
      ConcK.PeakAtMost p hooks routine ops cfg items args Pk (progMaxAlloc p * fuel + 1)) :
    ∃ ops c' items, (compile mockSym hooks p).run 0 = .ok ((ops, nargs), c') ∧
      parseText (printProg routine) = .ok items ∧
      ∃ n0 X0, stepN cfg (mkProg cfg.mach items) n0 (initState cfg.mach args 6) = .inl X0 ∧
        BChain cfg (mkProg cfg.mach items)
          (fun st X => ConcK.BoundaryOf p hooks routine ops cfg st X ∧
            HeapInvAt cfg X (ctxKinds st.ctx) (cfg.mach.heapBase + cfg.mach.heapBytes))
          (statesOf p fuel ⟨d0.ctx, args.map .int, d0.body⟩) X0 := by
  obtain ⟨ops, c', items, S⟩ := C06_setup_of_checks p args hooks body routine nargs d0 hsafe htp hchk hcompX hrout hd
  exact ⟨ops, c', items, S.compM, S.parse,
    C09_x86_every_prefix_all_items p args hooks body routine nargs d0 ops c' hsafe htp S.range S.compM S.fit hcompX
      hrout S.nd hd S.entry (by rw [← S.nargs, hargs]) S.cap fuel hfuel cfg MO hk hb8 hb0 Pk hbytes items S.items
      hfitX (hP ops c' items S.compM S.parse)⟩

/-- C09 FOR EVERY PREFIX OF EVERY RUN OF ALL PROGRAMS, with the room hypothesis on the SOURCE PROGRAM: if the
object and closure values held by the variables of the positional machine never have more than `D` fields (over
all reachable states), a heap of `64·(D + A + 2)` bytes is enough, and at every statement boundary of every
prefix of the run — terminating or not — the machine's heap satisfies the invariant of C09. -/
theorem C09_x86_every_prefix_all_size (p : AxCut.Prog) (args : List Word) (hooks : Bool)
    (body routine : List Code) (nargs : Nat) (d0 : Def)
    (hsafe : LabelSafe p = true) (htp : LinTypedProg p) (hchk : C06_x86Checks p = true)
    (hcompX : compileX86 p hooks 0 = .ok (body, nargs)) (hrout : intoRoutine body nargs = .ok routine)
    (hd : p.defs.head? = some d0) (hargs : args.length = nargs)
    (D : Nat) (hD : ∀ st, Reachable p ⟨d0.ctx, args.map .int, d0.body⟩ st → valsFields st.env ≤ D)
    (fuel : Nat) (hfuel : fuel + 1 < 2 ^ 64)
    (cfg : MonCfg) (MO : MachOK cfg.mach) (hk : cfg.consts = consts)
    (hb8 : cfg.mach.heapBase % 8 = 0) (hb0 : 0 < cfg.mach.heapBase)
    (hbytes : 64 * (D + progMaxAlloc p + 2) ≤ cfg.mach.heapBytes)
    (hfitX : addrAt cfg.mach.codeBase routine routine.length < 2 ^ 64) :
    ∃ ops c' items, (compile mockSym hooks p).run 0 = .ok ((ops, nargs), c') ∧
      parseText (printProg routine) = .ok items ∧
      ∃ n0 X0, stepN cfg (mkProg cfg.mach items) n0 (initState cfg.mach args 6) = .inl X0 ∧
        BChain cfg (mkProg cfg.mach items)
          (fun st X => ConcK.BoundaryOf p hooks routine ops cfg st X ∧
            HeapInvAt cfg X (ctxKinds st.ctx) (cfg.mach.heapBase + cfg.mach.heapBytes))
          (statesOf p fuel ⟨d0.ctx, args.map .int, d0.body⟩) X0 := by
  obtain ⟨ops, c', items, S⟩ := C06_setup_of_checks p args hooks body routine nargs d0 hsafe htp hchk hcompX hrout hd
  obtain ⟨n0, X0, h0, hch⟩ := ConcK.programs_prefix_gen p args hooks body routine nargs d0 ops c' hsafe htp S.progOK
    S.compM S.fit hcompX hrout S.nd hd S.entry (by rw [← S.nargs, hargs]) S.cap fuel hfuel cfg MO hb8 hb0 D
    (progMaxAlloc p) (allocLe_progMaxAlloc p) hbytes items S.items hfitX (ConcK.peakHyp_of_data hD)
  exact ⟨ops, c', items, S.compM, S.parse, n0, X0, h0,
    BChain.mono (fun st X B => ⟨B, ConcK.heapInvAt_of_boundary hk B⟩) hch⟩

/-! ### non-vacuity: the closure program of Props/C06X86Full.lean -/

/-- every hypothesis of `C09_x86_programs` holds for the closure program started with x = 37 (a closure `f`
capturing `x`, a two-method closure `g` capturing `f`, `g` invoked through its jump table, `f` — loaded from the
environment of `g` — by `jmp reg`): the machine on the text of the routine passes through a boundary state for
each state of the positional run, and the heap invariant holds at each -/
example : ∃ ops c' items, (compile mockSym true C06_cloProg).run 0 = .ok ((ops, 1), c') ∧
    parseText (printProg C06_cloRoutine) = .ok items ∧
    (mkProg ({} : MachCfg) items).labelIdx["asm_main"]? = some 6 ∧
    ∃ n0 X0, stepN {} (mkProg ({} : MachCfg) items) n0 (initState {} [37] 6) = .inl X0 ∧
      BChain {} (mkProg ({} : MachCfg) items)
        (fun st X => ConcK.BoundaryOf C06_cloProg true C06_cloRoutine ops {} st X ∧
          HeapInvAt {} X (ctxKinds st.ctx) (0x10000000 + 0x2000000))
        (statesOf C06_cloProg 20 ⟨C06_cloMain.ctx, [.int 37], C06_cloMain.body⟩) X0 := by
  have hrun : Pos.run C06_cloProg [37] 20 = ⟨[(true, 42)], .done 42⟩ := by decide
  exact C09_x86_programs C06_cloProg [37] true C06_cloBody C06_cloRoutine 1 C06_cloMain
    (by decide) (linTypedCheck_sound C06_cloProg rfl) C06_cloProg_checks rfl rfl rfl
    20 _ _ hrun {} machOK_default rfl (by decide) (by decide) (by decide) C06_cloRoutine_fits

/-- `C09_x86_every_prefix_all_size` on the closure program: the first 5 steps of the run (a proper prefix: up to
the second `create`), `D = 2` -/
example : ∃ ops c' items, (compile mockSym true C06_cloProg).run 0 = .ok ((ops, 1), c') ∧
    parseText (printProg C06_cloRoutine) = .ok items ∧
    ∃ n0 X0, stepN {} (mkProg ({} : MachCfg) items) n0 (initState {} [37] 6) = .inl X0 ∧
      BChain {} (mkProg ({} : MachCfg) items)
        (fun st X => ConcK.BoundaryOf C06_cloProg true C06_cloRoutine ops {} st X ∧
          HeapInvAt {} X (ctxKinds st.ctx) (0x10000000 + 0x2000000))
        (statesOf C06_cloProg 5 ⟨C06_cloMain.ctx, [.int 37], C06_cloMain.body⟩) X0 := by
  have e1 := C06_cloProg_consts.1
  exact C09_x86_every_prefix_all_size C06_cloProg [37] true C06_cloBody C06_cloRoutine 1 C06_cloMain
    (by decide) (linTypedCheck_sound C06_cloProg rfl) C06_cloProg_checks rfl rfl rfl rfl 2
    (C10_dataSize_of_run C06_cloProg 20 _ 2 (by decide) (by decide)) 5 (by decide)
    {} machOK_default rfl (by decide) (by decide) (by rw [e1]; decide) C06_cloRoutine_fits

/-- THE CLOSURE LOOP (Props/C13X86All.lean; it never terminates): for EVERY number `k` of steps of the positional
machine the machine on the text of the routine passes through a statement boundary for each of the first `k`
states — among them, in every round, the boundary reached by the `jmp reg` of the `invoke` —, and the heap
invariant holds at each of them -/
theorem C09_cloLoop_every_boundary (k : Nat) (hk : k + 1 < 2 ^ 64) :
    ∃ ops c' items, (compile mockSym true C13_cloLoopProg).run 0 = .ok ((ops, 1), c') ∧
      parseText (printProg C13_cloLoopRoutine) = .ok items ∧
      ∃ n0 X0, stepN {} (mkProg ({} : MachCfg) items) n0 (initState {} [5] 6) = .inl X0 ∧
        BChain {} (mkProg ({} : MachCfg) items)
          (fun st X => ConcK.BoundaryOf C13_cloLoopProg true C13_cloLoopRoutine ops {} st X ∧
            HeapInvAt {} X (ctxKinds st.ctx) (0x10000000 + 0x2000000))
          (statesOf C13_cloLoopProg k C13_cloS0) X0 := by
  have e1 := C13_cloLoop_consts.1
  exact C09_x86_every_prefix_all_size C13_cloLoopProg [5] true C13_cloLoopBody C13_cloLoopRoutine 1 C13_cloLoopMain
    (by decide) (linTypedCheck_sound C13_cloLoopProg rfl) C13_cloLoopProg_checks rfl rfl rfl rfl 1
    C13_cloLoop_size k hk
    {} machOK_default rfl (by decide) (by decide) (by rw [e1]; decide) C13_cloLoopRoutine_fits

end Scc.X86

#print axioms Scc.X86.C09_x86_boundary_all
#print axioms Scc.X86.C09_x86_heapCheck_boundary_all
#print axioms Scc.X86.C09_x86_monitor_boundary_all
#print axioms Scc.X86.C09_x86_programs_items
#print axioms Scc.X86.C09_x86_programs
#print axioms Scc.X86.C09_x86_reachable_all
#print axioms Scc.X86.C09_x86_every_prefix_all_items
#print axioms Scc.X86.C09_x86_every_prefix_all
#print axioms Scc.X86.C09_x86_every_prefix_all_size
#print axioms Scc.X86.C09_cloLoop_every_boundary
