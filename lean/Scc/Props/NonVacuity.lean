/-
  Scc.Props.NonVacuity — AUDIT FILE (independent review): machine-checked NON-TRIVIAL instances of the
  hypotheses of the headline theorems, where the Props files had none, only toy ones, or none for the
  headline form itself.

  The test program is `C01E_sumSrc` (Props/C01End.lean): `range(n)` builds a list recursively, `sum` adds it
  up recursively under a `let` (so S5 contains closures: `create` / `invoke`), `case`, `println_i64`.
  Every decidable hypothesis is evaluated by the KERNEL (`decide +kernel`) on the output of the model's own
  front end and middle end for that source TEXT; then the headline theorem is APPLIED, so that the result is
  a closed, hypothesis-free statement about that program.  Nothing here uses `#eval`.

  Pattern: `chk f src = true` evaluates a Boolean predicate `f p p' st` on (parsed program, checked program,
  stages) of `src`; `∃ p p' st, stagesOf src = some (p, p', st) ∧ …` is the resulting closed statement.

  What the kernel can NOT evaluate: `X86.run` / `A64.run` / `RV.run` (memories are `Std.HashMap`s); for the
  machine-level theorems the premises are evaluated and the conclusion is obtained from the theorem only.
-/
import Scc.Props.C01End
import Scc.Props.C03
import Scc.Props.C04Sem
import Scc.Props.C05
import Scc.Props.C07A64Full
import Scc.Props.C14LoaderRV
import Scc.Props.C09X86All
import Scc.Props.C10X86All
import Scc.Props.C11
import Scc.Props.C14X86Final
import Scc.Props.C16
import Scc.Fun.ZeroEdge
import Scc.Props.C18Fuel
import Scc.Props.C19Rest
import Scc.Props.C12Final
import Scc.Props.C13X86All
import Scc.Props.C15
import Scc.Props.C20Spelling

namespace Scc.Props.NonVacuity

open Scc Scc.Pipeline
open Scc.Fun.Check (checkProgram programNamesOk)

/-! ## plumbing -/

/-- parsed program, checked program and the four intermediate programs of a source text -/
def stagesOf (s : String) : Option (Fun.Program × Fun.CheckedProgram × Stages) :=
  match frontEnd s with
  | .ok p p' =>
    match stages p' with
    | .ok st => some (p, p', st)
    | .error _ => none
  | _ => none

def chk (f : Fun.Program → Fun.CheckedProgram → Stages → Bool) (s : String) : Bool :=
  match stagesOf s with
  | some (p, p', st) => f p p' st
  | none => false

theorem chk_elim {f : Fun.Program → Fun.CheckedProgram → Stages → Bool} {s : String}
    (h : chk f s = true) : ∃ p p' st, stagesOf s = some (p, p', st) ∧ f p p' st = true := by
  unfold chk at h
  split at h
  · rename_i p p' st hs
    exact ⟨p, p', st, hs, h⟩
  · cases h

theorem stagesOf_spec {s : String} {p : Fun.Program} {p' : Fun.CheckedProgram} {st : Stages}
    (h : stagesOf s = some (p, p', st)) : frontEnd s = .ok p p' ∧ stages p' = .ok st := by
  unfold stagesOf at h
  split at h
  · rename_i q q' hfe
    split at h
    · rename_i st' hst
      simp only [Option.some.injEq, Prod.mk.injEq] at h
      obtain ⟨rfl, rfl, rfl⟩ := h
      exact ⟨hfe, hst⟩
    · cases h
  · cases h

/-- the test program: recursive list construction and recursive list sum, `case`, closures in S5 -/
abbrev src : String := C01E_sumSrc

/-- the observable result of `main(4)`: prints `10\n`, returns 10 -/
def res10 : Obs := ⟨[(true, 10)], .done 10⟩

/-! ## the middle end: C02, C03, C04, C05 on the stages of the list sum -/

/-- `Input` of C03 (Props/C03.lean) as a Boolean -/
def inputB (p : Core.Prog) : Bool :=
  p.wellTyped && p.defs.all (fun d => d.ids.all (· == 0)) &&
  p.defs.all (fun d => d.body.occIds.all (fun i => decide (i ≤ p.maxId))) && p.noSigma

theorem inputB_sound {p : Core.Prog} (h : inputB p = true) : Input p := by
  simp only [inputB, Bool.and_eq_true, List.all_eq_true, beq_iff_eq, decide_eq_true_eq] at h
  obtain ⟨⟨⟨h1, h2⟩, h3⟩, h4⟩ := h
  exact ⟨h1, h2, h3, h4⟩

def c02Hyps (p : Fun.Program) (p' : Fun.CheckedProgram) : Bool :=
  programNamesOk p && Fun.Sequenced p' && validMain p' && Fun.noMainCall p' && C02_noSigmaNames p'

def c03Hyps (st : Stages) : Bool := inputB st.s2 && typesDisjoint st.s2

def c04Hyps (st : Stages) : Bool :=
  Core2AxCut.wtFsScopedCheck st.s3 && Core2AxCut.uniqueIdsCheck st.s3 && Core2AxCut.idsBoundedCheck st.s3 &&
  Core2AxCut.mainIntParams st.s3 &&
  (match st.s3.defs with
   | d :: _ => d.name.name == "main"
   | [] => false)

def c05Hyps (st : Stages) : Bool :=
  AxCut.wfNonLinearCheck st.s4 && AxCut.noEnvAnnProg st.s4 &&
  (match st.s4.defs.head? with
   | some d => d.ctx.all fun b => decide (b.chi = .ext ∧ b.ty = .i64)
   | none => false)

/-- the five machines finish on the argument 4 with the same observation (the premises `… = done v` of the
    inner implications of C02–C05 are satisfiable on this program) -/
def midRuns (p' : Fun.CheckedProgram) (st : Stages) : Bool :=
  decide (ofFun (Fun.run p' [4] 1000) = res10) && decide (ofCore (Core.run st.s2 [4] 1000) = res10) &&
  decide (ofCore (Core.fsRun st.s3 [4] 1000) = res10) &&
  decide (ofNamed (AxCut.Named.run st.s4 [4] 1000) = res10) &&
  decide (ofPos (AxCut.Pos.run st.s5 [4] 1000) = res10)

def midHyps (p : Fun.Program) (p' : Fun.CheckedProgram) (st : Stages) : Bool :=
  c02Hyps p p' && c03Hyps st && c04Hyps st && c05Hyps st && midRuns p' st

set_option maxRecDepth 100000 in
/-- ONE kernel evaluation: every decidable hypothesis of `C02_sem`, `C03_statement_typesDisjoint`, `C04_sem`
    and `C05_T4` on the stages of the list sum, and the five runs -/
theorem mid_hyps : chk midHyps src = true := by decide +kernel

/-- what the four theorems say about the list sum, NO hypothesis left -/
structure MidConclusion (p' : Fun.CheckedProgram) (st : Stages) : Prop where
  /-- C02: Fun machine ~ Core machine on S2, all four clauses, all arguments -/
  c02 : ∀ args : List Word,
    C02_ObsSame (fun n => ofFun (Fun.run p' args n)) (fun n => ofCore (Core.run st.s2 args n))
  /-- C03: ς-machine on S2 ~ focused machine on S3, all arguments; unique binders in S3 -/
  c03 : (∀ args, ObsEq (Core.run st.s2 args) (Core.fsRun st.s3 args)) ∧
    (∀ d ∈ st.s3.defs, Core.UniqueBinders st.s3.maxId d)
  /-- C04: focused machine on S3 ~ named AxCut machine on S4 -/
  c04 : ∀ args, SameBehaviour (coreFsRun st.s3 args) (AxCut.Named.run st.s4 args)
  /-- C05 (a, b): S5 is linearly typed -/
  c05ab : AxCut.LinTypedProg st.s5
  /-- C05 (c): named machine on S4 ~ positional machine on S5 -/
  c05c : ∀ args,
    (∀ n, AxCut.Sim.finishedNamed (AxCut.Named.run st.s4 args n).res →
      ∃ m, (AxCut.Pos.run st.s5 args m).out = (AxCut.Named.run st.s4 args n).out ∧
        AxCut.Sim.sameOutcome (AxCut.Named.run st.s4 args n).res (AxCut.Pos.run st.s5 args m).res) ∧
    (∀ m, AxCut.Sim.finishedPos (AxCut.Pos.run st.s5 args m).res →
      ∃ n, (AxCut.Pos.run st.s5 args m).out = (AxCut.Named.run st.s4 args n).out ∧
        AxCut.Sim.sameOutcome (AxCut.Named.run st.s4 args n).res (AxCut.Pos.run st.s5 args m).res)
  /-- the premises are not vacuous: every machine finishes on `main(4)` with `10\n`, result 10 -/
  runs : midRuns p' st = true

theorem mid_conclusion :
    ∃ p p' st, stagesOf src = some (p, p', st) ∧ MidConclusion p' st := by
  obtain ⟨p, p', st, hs, hf⟩ := chk_elim mid_hyps
  refine ⟨p, p', st, hs, ?_⟩
  obtain ⟨hfe, hst⟩ := stagesOf_spec hs
  obtain ⟨_, hc⟩ := C01F_frontEnd_ok hfe
  obtain ⟨h2, h3, h4, h5⟩ := stages_ok_iff.1 hst
  obtain ⟨_, e3⟩ := focusProgE_ok_iff.1 h3
  simp only [midHyps, Bool.and_eq_true] at hf
  obtain ⟨⟨⟨⟨hc02, hc03⟩, hc04⟩, hc05⟩, hruns⟩ := hf
  simp only [c02Hyps, Bool.and_eq_true] at hc02
  obtain ⟨⟨⟨⟨hn, hseq⟩, hv⟩, hmc⟩, hsg⟩ := hc02
  simp only [c03Hyps, Bool.and_eq_true] at hc03
  have hin : Input st.s2 := inputB_sound hc03.1
  simp only [c04Hyps, Bool.and_eq_true] at hc04
  obtain ⟨⟨⟨⟨hwt, hu⟩, hb⟩, hint⟩, hm⟩ := hc04
  have hmain : ∃ d ds, st.s3.defs = d :: ds ∧ d.name.name = "main" := by
    split at hm
    · rename_i d ds hd
      exact ⟨d, ds, hd, by simpa using hm⟩
    · cases hm
  simp only [c05Hyps, Bool.and_eq_true] at hc05
  obtain ⟨⟨hwf, hne⟩, hhead⟩ := hc05
  have hwf' : AxCut.WfNonLinear st.s4 := (AxCut.wfNonLinearCheck_iff _).1 hwf
  have hentry : ∀ d, st.s4.defs.head? = some d → ∀ b ∈ d.ctx, b.chi = .ext ∧ b.ty = .i64 := by
    intro d hd
    rw [hd] at hhead
    simpa [List.all_eq_true] using hhead
  obtain ⟨q5, e5, hlin, _⟩ := C05.C05_linearize_LinTyped st.s4 hwf'
  rw [h5] at e5
  injection e5 with e5
  subst e5
  refine ⟨C02_sem p p' st.s2 hn hc hseq hv hmc hsg h2, ?_, ?_, hlin, ?_, hruns⟩
  · have := C03_statement_typesDisjoint st.s2 hin hc03.2
    rw [← e3] at this
    exact this
  · exact fun args => C04_sem st.s3 st.s4 args hwt hu hb hint hmain h4
  · exact fun args => C05.C05_T4 st.s4 st.s5 args hwf' hne hentry h5

/-- S5 is linearly typed: the pipeline's own route (S4 passes `wfNonLinearCheck`, then C05) -/
theorem lin5 {p' : Fun.CheckedProgram} {st : Stages} (hst : stages p' = .ok st)
    (hwf : AxCut.wfNonLinearCheck st.s4 = true) : AxCut.LinTypedProg st.s5 := by
  obtain ⟨_, _, _, h5⟩ := stages_ok_iff.1 hst
  obtain ⟨q5, e5, hlin, _⟩ := C05.C05_linearize_LinTyped st.s4 ((AxCut.wfNonLinearCheck_iff _).1 hwf)
  rw [h5] at e5
  injection e5 with e5
  subst e5
  exact hlin

/-! ## x86-64 and the text-level theorems on the list sum: C06, C14, C16, C18, C19

(C01 on this program: `C01E_sum_conclusion`, Props/C01End.lean.)  The run of the positional machine on S5
takes 87 steps; the source has size 48; the routine has 679 items. -/

def x86Hyps (p : Fun.Program) (p' : Fun.CheckedProgram) (st : Stages) : Bool :=
  validMain p' && Fun.noMainCall p' && Fun.Parse.zeroEdgeOkProgB p && AxCut.wfNonLinearCheck st.s4 &&
  decide (SizeCompose.funSrcSize p' = 48) &&
  C14Generic.LabelSafe st.s5 && X86.C06_x86Checks st.s5 &&
  decide (AxCut.Pos.run st.s5 [4] 87 = ⟨[(true, 10)], .done 10⟩) &&
  (match X86.compileX86 st.s5 true 0 with
   | .ok (body, nargs) =>
     match X86.intoRoutine body nargs with
     | .ok routine =>
       decide (X86.Ref.addrAt ({} : X86.MachCfg).codeBase routine routine.length < 2 ^ 64) &&
       decide (routine.length = 679)
     | .error _ => false
   | .error _ => false)

/-- `C18_text_total_sharp` for a text that the front end accepts with a valid, uncalled `main` -/
theorem c18_of {s : String} {p : Fun.Program} {p' : Fun.CheckedProgram} (hfe : frontEnd s = .ok p p')
    (hv : validMain p' = true) (hmc : Fun.noMainCall p' = true) (hooks : Bool) (c : Nat) :
    C18_textOutcomeSharp (compileTextX86 hooks c s) := by
  refine C18_text_total_sharp s hooks c ?_
  intro q q' hq
  rw [hfe] at hq
  injection hq with e1 e2
  subst e2
  exact ⟨hv, hmc⟩

set_option maxRecDepth 100000 in
theorem x86_hyps : chk x86Hyps src = true := by decide +kernel

structure X86Conclusion (s : String) (p : Fun.Program) (p' : Fun.CheckedProgram) (st : Stages) : Prop where
  /-- the compiler produces a routine of 679 items; C06 (`C06_programs_text`): the x86-64 machine on its TEXT,
      default configuration, prints `10\n` and returns 10; C14 (`C14_x86_final`): the validator accepts the text -/
  c06_c14 : ∃ body nargs routine, X86.compileX86 st.s5 true 0 = .ok (body, nargs) ∧
    X86.intoRoutine body nargs = .ok routine ∧ routine.length = 679 ∧
    compileAllX86 true 0 p' = .ok (nargs, X86.printProg routine) ∧
    (∃ fuel', (X86.run (X86.printProg routine) [4] fuel' {}).out = [(true, 10)] ∧
      (X86.run (X86.printProg routine) [4] fuel' {}).res = .done 10) ∧
    X86.wfCheck (X86.printProg routine) = .ok ()
  /-- C19 (`C19_pipeline_size`): the bound for this program (source size 48) is
      `PX 48 = 927654473550326400044` items; the routine has 679 -/
  c19 : ∀ nargs text, compileAllX86 true 0 p' = .ok (nargs, text) →
    ∃ routine, text = X86.printProg routine ∧ routine.length ≤ 927654473550326400044
  /-- C16 (`C16_fmt`): every width and indentation -/
  c16 : ∀ cfg : Fun.Print.PrintCfg,
    Fun.Parse.parseChars .diagOnOverflow (Fun.Print.renderPretty cfg p) = .ok p ∧
    ∀ q, Fun.Parse.parseChars .diagOnOverflow (Fun.Print.renderPretty cfg p) = .ok q →
      Fun.Print.renderPretty cfg q = Fun.Print.renderPretty cfg p
  /-- C18 (`C18_text_total_sharp`): its hypothesis `hmain` holds of the text, every hook setting / counter -/
  c18 : ∀ hooks c, C18_textOutcomeSharp (compileTextX86 hooks c s)

theorem x86_conclusion_of {s : String} (h : chk x86Hyps s = true) :
    ∃ p p' st, stagesOf s = some (p, p', st) ∧ X86Conclusion s p p' st := by
  obtain ⟨p, p', st, hs, hf⟩ := chk_elim h
  refine ⟨p, p', st, hs, ?_⟩
  obtain ⟨hfe, hst⟩ := stagesOf_spec hs
  obtain ⟨hparse, _⟩ := C01F_frontEnd_ok hfe
  simp only [x86Hyps, Bool.and_eq_true, decide_eq_true_eq] at hf
  obtain ⟨⟨⟨⟨⟨⟨⟨⟨hv, hmc⟩, hz⟩, hwf⟩, hN⟩, hsafe⟩, hchk⟩, hrun⟩, hx⟩ := hf
  have htp := lin5 hst hwf
  have hwf4 : C19_wf4 p' = true := by simp [C19_wf4, hst, hwf]
  have hc19 : ∀ nargs text, compileAllX86 true 0 p' = .ok (nargs, text) →
      ∃ routine, text = X86.printProg routine ∧ routine.length ≤ 927654473550326400044 := by
    intro nargs text h
    obtain ⟨routine, e, hle⟩ := C19_pipeline_size true 0 p' nargs text hwf4 h
    refine ⟨routine, e, Nat.le_trans hle ?_⟩
    rw [hN]
    decide
  refine ⟨?_, hc19, ?_, ?_⟩
  · split at hx
    · rename_i body nargs hcomp
      split at hx
      · rename_i routine hrout
        simp only [Bool.and_eq_true, decide_eq_true_eq] at hx
        refine ⟨body, nargs, routine, hcomp, hrout, hx.2, ?_, ?_, ?_⟩
        · exact compileAllX86_ok_iff.2 ⟨st.s5, middleEnd_ok_iff.2 ⟨st, hst, rfl⟩,
            backEndX86_ok_iff.2 ⟨body, routine, hcomp, hrout, rfl⟩⟩
        · exact X86.C06_programs_text st.s5 [4] true body routine nargs hsafe htp hchk hcomp hrout 87 _ _ hrun
            {} X86.Ref.machOK_default rfl (by decide) (by decide) (by decide) hx.1
        · exact X86.C14_x86_final st.s5 true 0 body routine nargs hsafe htp hchk hcomp hrout
      · cases hx
    · cases hx
  · exact fun cfg => C16_fmt .diagOnOverflow s.toList p hparse (Fun.Parse.zeroEdgeOkProgB_sound p hz) cfg
  · exact c18_of hfe hv hmc

/-- C06, C14, C16, C18, C19 on the list sum, no hypothesis left -/
theorem x86_conclusion : ∃ p p' st, stagesOf src = some (p, p', st) ∧ X86Conclusion src p p' st :=
  x86_conclusion_of x86_hyps

/-! ## AArch64: `C07_programs_text` on S5 of the list sum (a PIPELINE program; the examples of
Props/C07A64Full.lean are hand-written AxCut programs) -/

section a64
open Scc.A64 Scc.A64.Ref
open Scc.A64.CC (cfgCC_default)

def a64Hyps (_p : Fun.Program) (_p' : Fun.CheckedProgram) (st : Stages) : Bool :=
  AxCut.wfNonLinearCheck st.s4 && C14Generic.LabelSafe st.s5 && C07_a64Checks st.s5 &&
  decide (AxCut.Pos.run st.s5 [4] 87 = ⟨[(true, 10)], .done 10⟩) &&
  (match compileProg a64Backend st.s5 true 0 with
   | .ok (_, _, routine) => decide (({} : A64.MonCfg).mem.codeBase + 4 * ninstr routine < 2 ^ 64)
   | .error _ => false)

set_option maxRecDepth 100000 in
theorem a64_hyps : chk a64Hyps src = true := by decide +kernel

/-- the AArch64 machine on the printed text of the routine of the list sum, default configuration, prints
    `10\n` and returns 10 -/
theorem a64_conclusion : ∃ p p' st, stagesOf src = some (p, p', st) ∧
    ∃ body nargs routine, compileProg a64Backend st.s5 true 0 = .ok (body, nargs, routine) ∧
      ∃ fuel', (A64.run (A64.printProg routine) [4] fuel' {}).out = [(true, 10)] ∧
        (A64.run (A64.printProg routine) [4] fuel' {}).res = .done 10 := by
  obtain ⟨p, p', st, hs, hf⟩ := chk_elim a64_hyps
  refine ⟨p, p', st, hs, ?_⟩
  obtain ⟨_, hst⟩ := stagesOf_spec hs
  simp only [a64Hyps, Bool.and_eq_true, decide_eq_true_eq] at hf
  obtain ⟨⟨⟨⟨hwf, hsafe⟩, hchk⟩, hrun⟩, hx⟩ := hf
  split at hx
  · rename_i body nargs routine hcomp
    simp only [decide_eq_true_eq] at hx
    exact ⟨body, nargs, routine, hcomp,
      C07_programs_text st.s5 [4] true body routine nargs hsafe (lin5 hst hwf) hchk hcomp 87 _ _ hrun
        {} cfgCC_default rfl rfl (by decide) (by decide) (by decide) hx⟩
  · cases hx

end a64

/-! ## RISC-V: `C08_programs_text_loaded` / `C08_programs_live_text` on a PIPELINE program.
The RISC-V backend does not implement `print` (`C12_final_sharp`: "not implemented in RISC-V backend"), so the
test program is the list sum WITHOUT the `println_i64`. -/

section rv
open Scc.RV Scc.RV.Ref

def rvSrc : String :=
  "data List[A] { Nil, Cons(x: A, xs: List[A]) }
def range(n: i64): List[i64] { if n == 0 { Nil } else { let m: i64 = n - 1; let r: List[i64] = range(m); Cons(n, r) } }
def sum(l: List[i64]): i64 { l.case[i64] { Nil => 0, Cons(x, xs) => let r: i64 = sum(xs); x + r } }
def main(n: i64): i64 { let l: List[i64] = range(n); sum(l) }"

def rvHyps (_p : Fun.Program) (_p' : Fun.CheckedProgram) (st : Stages) : Bool :=
  AxCut.wfNonLinearCheck st.s4 && C14Generic.LabelSafe st.s5 && C08_sizeCheck st.s5 &&
  C14R_namesTextSafe st.s5 &&
  st.s5.defs.all (fun d => ctxWithinStmt maxVariables d.body d.ctx) &&
  (match st.s5.defs.head? with
   | some d => d.ctx.all fun b => decide (b.chi = .ext ∧ b.ty = .i64)
   | none => false) &&
  decide ((AxCut.Pos.run st.s5 [4] 86).res = .done 10) &&
  (match (Backend.compile rvBackendF true st.s5).run 0 with
   | .ok ((instrs, _), _) => decide (codeBase + 4 * instrs.length < 2 ^ 64)
   | .error _ => false)

set_option maxRecDepth 100000 in
theorem rv_hyps : chk rvHyps rvSrc = true := by decide +kernel

/-- `RV.run` on the emitted TEXT of the list sum (without print), default configuration, reaches `cleanup`
    with 10 in `X10`.  NOTE: the conclusion of the RISC-V theorems speaks of the RESULT only (the machine
    has no output trace: the backend cannot print). -/
theorem rv_conclusion : ∃ p p' st, stagesOf rvSrc = some (p, p', st) ∧
    ∃ nargs text, compileRoutine st.s5 true 0 = .ok (nargs, text) ∧
      ∃ fuel', (RV.run text [4] fuel' {}).res = .done 10 := by
  obtain ⟨p, p', st, hs, hf⟩ := chk_elim rv_hyps
  refine ⟨p, p', st, hs, ?_⟩
  obtain ⟨_, hst⟩ := stagesOf_spec hs
  simp only [rvHyps, Bool.and_eq_true, decide_eq_true_eq, List.all_eq_true] at hf
  obtain ⟨⟨⟨⟨⟨⟨⟨hwf, hsafe⟩, hsize⟩, hnames⟩, hlive⟩, hhead⟩, hrun⟩, hx⟩ := hf
  split at hhead
  · rename_i d0 hd
    split at hx
    · rename_i instrs nargs cX hcomp
      simp only [decide_eq_true_eq] at hx
      rw [rvBackendF_eq] at hcomp
      have hc : compileRoutine st.s5 true 0 = .ok (nargs, intoRoutine instrs) := by
        unfold compileRoutine; rw [hcomp]
      refine ⟨nargs, _, hc, ?_⟩
      exact C08_programs_live_text st.s5 [4] true 0 instrs nargs cX d0 hsafe (lin5 hst hwf) hsize
        (fun d hd' => hlive d hd') hnames hcomp hx hd
        (by simpa [List.all_eq_true] using hhead) 86 10 hrun {} rfl rfl (by decide) (by decide)
    · cases hx
  · cases hhead

end rv

/-! ## C09 / C10 / C13 on x86-64: the HEADLINE forms themselves (hypothesis `hP : PeakAtMost …`).
Props/C09X86All.lean, C10X86All.lean, C13X86All.lean instantiate the `_size` / `_coarse` / `_terminating`
variants only. -/

section conc
open Scc.AxCut Scc.AxCut.Pos Scc.Backend Scc.Backend.Abs Scc.X86 Scc.X86.Ref
open Scc.Props.C06Generic (statesOf)
open Scc.X86.Ref.K (progMaxAlloc)
open Scc.X86.Conc (BChain HeapInvAt ctxKinds stmtSize progMaxSize)
open Scc.X86.CC (CCSafe)

/-- `C09_x86_every_prefix_all` ITSELF: the first 7 steps of the closure program `C06_cloProg` (a proper
    prefix of its run), trivial peak `Pk = A·7 + 1` -/
theorem c09_headline : ∃ ops c' items, (compile mockSym true C06_cloProg).run 0 = .ok ((ops, 1), c') ∧
    parseText (printProg C06_cloRoutine) = .ok items ∧
    ∃ n0 X0, stepN {} (mkProg ({} : MachCfg) items) n0 (initState {} [37] 6) = .inl X0 ∧
      BChain {} (mkProg ({} : MachCfg) items)
        (fun st X => ConcK.BoundaryOf C06_cloProg true C06_cloRoutine ops {} st X ∧
          HeapInvAt {} X (ctxKinds st.ctx) (0x10000000 + 0x2000000))
        (statesOf C06_cloProg 7 ⟨C06_cloMain.ctx, [.int 37], C06_cloMain.body⟩) X0 := by
  have e1 := C06_cloProg_consts.1
  exact C09_x86_every_prefix_all C06_cloProg [37] true C06_cloBody C06_cloRoutine 1 C06_cloMain
    (by decide) (linTypedCheck_sound C06_cloProg rfl) C06_cloProg_checks rfl rfl rfl rfl
    7 (by decide) {} machOK_default rfl (by decide) (by decide) (progMaxAlloc C06_cloProg * 7 + 1)
    (by rw [e1]; decide) C06_cloRoutine_fits
    (fun ops _ items _ _ => C10_peak_trivial_all C06_cloProg true C06_cloRoutine ops {} items [37] _)

/-- the chain of `c09_headline` has eight states (a `BChain` over `[]` would be `True`) -/
theorem c09_prefix_length :
    (statesOf C06_cloProg 7 ⟨C06_cloMain.ctx, [.int 37], C06_cloMain.body⟩).length = 8 := by decide

/-- `C10_x86_footprint_all` ITSELF -/
theorem c10_headline : ∃ fuel',
    (X86.run (printProg C06_cloRoutine) [37] fuel' {}).out = [(true, 42)] ∧
    (X86.run (printProg C06_cloRoutine) [37] fuel' {}).res = .done 42 ∧
    (X86.run (printProg C06_cloRoutine) [37] fuel' {}).maxHeapWritten ≤ 64 * (1 * 20 + 1 + 1 + 2) := by
  have hrun : Pos.run C06_cloProg [37] 20 = ⟨[(true, 42)], .done 42⟩ := by decide
  have e1 := C06_cloProg_consts.1
  have key := C10_x86_footprint_all C06_cloProg [37] true C06_cloBody C06_cloRoutine 1 C06_cloMain
    (by decide) (linTypedCheck_sound C06_cloProg rfl) C06_cloProg_checks rfl rfl rfl 20 _ _ (by decide) hrun {}
    machOK_default rfl rfl (by decide) (by decide) (progMaxAlloc C06_cloProg * 20 + 1) (by rw [e1]; decide)
    C06_cloRoutine_fits
    (fun ops _ items _ _ => C10_peak_trivial_all C06_cloProg true C06_cloRoutine ops _ items [37] _)
  rw [e1] at key
  exact key

/-- `C13_cc_never_fires_all` ITSELF, machine fuel 10 -/
theorem c13_headline : CCSafe (X86.run (printProg C06_cloRoutine) [37] 10 {}).res ∧
    (({} : MonCfg).heap = false → C13_allowed (X86.run (printProg C06_cloRoutine) [37] 10 {}).res) := by
  have hrun : Pos.run C06_cloProg [37] 20 = ⟨[(true, 42)], .done 42⟩ := by decide
  obtain ⟨e1, e2, e3⟩ := C06_cloProg_consts
  obtain ⟨hnostuck, _⟩ := C10_done_unique hrun
  exact C13_cc_never_fires_all C06_cloProg [37] true C06_cloBody C06_cloRoutine 1 C06_cloMain
    (by decide) (linTypedCheck_sound C06_cloProg rfl) C06_cloProg_checks rfl rfl rfl rfl hnostuck
    {} machOK_default rfl (by decide) (by decide)
    (progMaxAlloc C06_cloProg * (10 * (progMaxSize C06_cloProg + 1) + stmtSize C06_cloMain.body) + 1)
    (by rw [e1, e2, e3]; decide) C06_cloRoutine_fits 10 (by rw [e2, e3]; decide)
    (fun ops _ items _ _ => C10_peak_trivial_all C06_cloProg true C06_cloRoutine ops {} items [37] _)

end conc

/-! ## C11: a substitution with a CYCLE (swap of two object variables), fan-out of an integer, identity edge -/

section c11
open Scc.PMoves Scc.Props.C11

/-- context `1:prd 2:prd 3:ext`; new variables `1 := 2`, `2 := 1` (a swap of both temporaries of two objects),
    `4 := 3`, `5 := 3` (an integer copied twice) -/
def swapCtx : Ctx := [(1, .prd), (2, .prd), (3, .ext)]
def swapRe : Rearrange := [((1, .prd), 2), ((2, .prd), 1), ((4, .ext), 3), ((5, .ext), 3)]

def swapMoves : List AOp :=
  [.comment "#move variables", .save 2 false, .mov 2 0, .restore 0 false, .save 3 false, .mov 3 1,
   .restore 1 false, .mov 7 5]

example : (swapCtx.map (·.1)).Nodup ∧ (swapRe.map (·.1.1)).Nodup := by decide

/-- the model emits two save/mov/restore cycles and one copy; no reference-count operation (each object is
    used exactly once) -/
example : codeSubstitute genericTemporary swapRe swapCtx (fun _ => false) = .ok [] swapMoves := rfl

/-- `C11_substitution_correct` applied, and its conclusion evaluated on the store `x ↦ x + 1000` -/
theorem c11_swap : ∃ rc mv, codeSubstitute genericTemporary swapRe swapCtx (fun _ => false) = .ok rc mv ∧
    ∀ (σ : Nat → Nat) (sc : Nat),
      (∀ s t, SubstEdge genericTemporary swapRe swapCtx s t → (run mv (σ, sc)).1 t = σ s) ∧
      (∀ x, (∀ s, ¬ SubstEdge genericTemporary swapRe swapCtx s x) → (run mv (σ, sc)).1 x = σ x) := by
  obtain ⟨rc, mv, h, _, hall⟩ := C11_substitution_correct (V := Nat) swapRe swapCtx (fun _ => false)
    (by decide) (by decide)
  exact ⟨rc, mv, h, hall⟩

example : ((List.range 8).map (run swapMoves (fun x => x + 1000, 0)).1) =
    [1002, 1003, 1000, 1001, 1004, 1005, 6 + 1000, 1005] := by decide

end c11

end Scc.Props.NonVacuity

#print axioms Scc.Props.NonVacuity.mid_hyps
#print axioms Scc.Props.NonVacuity.mid_conclusion
#print axioms Scc.Props.NonVacuity.x86_conclusion
#print axioms Scc.Props.NonVacuity.a64_conclusion
#print axioms Scc.Props.NonVacuity.rv_conclusion
#print axioms Scc.Props.NonVacuity.c09_headline
#print axioms Scc.Props.NonVacuity.c10_headline
#print axioms Scc.Props.NonVacuity.c13_headline
#print axioms Scc.Props.NonVacuity.c11_swap

/-! ## axioms of the headline theorems (all ⊆ {propext, Classical.choice, Quot.sound}) -/
#print axioms Scc.Props.C01_end_to_end
#print axioms Scc.Props.C02_sem
#print axioms Scc.Props.C03_statement_typesDisjoint
#print axioms Scc.Props.C04_sem
#print axioms Scc.Props.C05.C05_full
#print axioms Scc.Props.C06Generic.TheoremA_run
#print axioms Scc.X86.C06_programs_text
#print axioms Scc.A64.C07_programs_text
#print axioms Scc.RV.C08_programs_text_loaded
#print axioms Scc.X86.C09_x86_every_prefix_all
#print axioms Scc.X86.C10_x86_footprint_all
#print axioms Scc.Props.C11.C11_substitution_correct
#print axioms Scc.Props.C12_final
#print axioms Scc.X86.C13_cc_never_fires_all
#print axioms Scc.X86.C14_x86_final
#print axioms Scc.Props.C15_full
#print axioms Scc.Props.C16_fmt
#print axioms Scc.Props.C18_text_total_sharp
#print axioms Scc.Props.C19_pipeline_size
#print axioms Scc.Props.C20_current_full
#print axioms Scc.Props.C20_strtoll_spelling
