/-
  Scc.Props.C09RVAll — property C09 (heap consistency) ON CONCRETE RV64 EXECUTIONS OF ALL PROGRAMS — integers,
  data types AND CLOSURES: the port of Props/C09X86All.lean to the RISC-V backend ("on every backend"), over the
  three-way relation `Scc.RV.Ref.Rel3` of Props/C08RVClo.lean (Scc/RV/Conc*.lean).

  C09 (fixed text): "At every statement boundary of every execution of generated code, on every backend,
  each heap block below the allocation frontier is in exactly one state: reachable from the live variables,
  on the immediately reusable free list, on the deferred free list, or waiting beneath a deferred block; and
  the count stored in each reachable block equals the number of references to it from live variables and
  from fields of reachable or deferred blocks, minus one. …"

  THE MACHINE.  `Scc.RV.step pr mc s` (Scc/RV/ConcStep.lean) is what the run loop `runLoop` of the RV64 SPEC machine
  (Scc/RV/Machine.lean) does with one unit of fuel — one item: an instruction, a label, a kept hook comment —,
  `stepN` its iteration; `runLoop_succ` / `runLoop_eq_stepN`: the loop IS this iteration.  "The machine passes
  through `X`" is `stepN pr mc n X0 = .inl X` (no fault, no end of the run before).  `initState regs e`: the entry
  registers (`entryRegs args`), an empty memory, the program counter at the first label `e` — the state `runProgram`
  starts the loop in.  The theorems are stated for the machine with the heap monitor switched off
  (`mc.heap = false`, as `C08_programs_live`): the monitor's PREDICATE is then proved at every boundary; with the
  monitor on, the loop additionally evaluates the decision procedure `invCheckFn` of that predicate at the hooks
  inside a window of the heap (see WHAT REMAINS).

  THE PREDICATE is `HeapInvAt X kinds limit` (Scc/RV/ConcInv.lean): the predicate of the executable heap monitor
  `heapMonitor` on the raw machine state — the roots are the registers `X(2i+4)` of the non-`ext` variables
  (`hookRoots kinds`) read with `readReg` (so they are DEFINED), HEAP = `X2`, FREE = `X3`, the memory is the machine's
  heap memory (unwritten words read 0), and `Scc.Heap.InvW` (what `invCheckFn` decides: every block below the
  frontier in exactly one of the four states, reference counts exact) holds for the region `[heapBase, limit)`.
  A closure is a heap object like a constructor object: its pointer register (the environment block) is a root,
  its word register (the address of its method table) is not looked at.

  THE STATEMENT BOUNDARIES.  `Conc.BoundaryOf p hooks ks ops mc st X`: the machine state `X` is related by
  `Ref.Rel3` (Theorem A's relation to the positional state `st`, the register/heap representation `X3`, the
  machine words of the closures `CVals`, the RV64 code of `st.stmt` at the program counter) to the positional
  state `st`; `ks = keptOf lines`: the codes the loader keeps.  No tolerance is needed on RV64 (an indirect jump
  lands ON the label).  `Conc.BChain`: the machine passes through such states IN ORDER by `stepN`.

  PROVED (no `sorry`; axioms propext, Classical.choice, Quot.sound):
  * `C09_rv_boundary_all`     every boundary state satisfies `HeapInvAt` for the kinds of the positional state's
                              context and `limit = heapBase + heapBytes`.
  * `C09_rv_programs`         under the hypotheses of `C08_programs_live` (label-safe, linearly typed, size check,
                              at most 14 live variables, compiled; a terminating run; heap `128 + 64·15·fuel`): on
                              the program the machine's own loader lays out from the lines, the machine, started in
                              its initial state, passes through a boundary state for EVERY state `statesOf p fuel st0`
                              of the positional run, in order, each of them satisfies `HeapInvAt`, and the machine
                              ends the run with the result of the positional machine.
                              `C09_rv_programs_lines`: the same with the side hypotheses explicit;
                              `C09_rv_reachable_all`: for every `Reachable` state.
  * `C09_rv_every_prefix_all` NO TERMINATION HYPOTHESIS: for ANY number `fuel` of steps of the positional machine (a
                              prefix of a possibly non-terminating run) the machine passes through a boundary state
                              for every state of the prefix and the invariant holds at each; room: the footprint
                              bound of C10 (`Conc.PeakAtMost Pk`, `64·(Pk + A + 2) ≤ heapBytes`, `A = progMaxAlloc p`;
                              trivial for `Pk = A·fuel + 1`).  `C09_rv_every_prefix_all_lines`: side hypotheses
                              explicit.
  * `C09_rv_every_prefix_all_size`  the same with the room hypothesis on the SOURCE PROGRAM: `valsFields st.env ≤ D`
                              for every reachable state (the object and closure values held by the variables have at
                              most `D` fields) and `64·(D + A + 2) ≤ heapBytes`.
  * `C09_rv_heapMonitor_boundary_all`  THE EXECUTABLE MONITOR: at every boundary state inside the monitor's window
                              (`64·below + 64 ≤ ⌈maxHeapWritten/64⌉·64 + 512`) the function `heapMonitor` the run loop
                              calls at a hook, run with the roots of the kinds of the boundary's context, returns
                              `.ok` (completeness of `invCheckFn`) and raises the monitor's counter to `below`.
  * `C09_rv_programs_text`, `C09_rv_every_prefix_all_size_text`  ON THE TEXT `intoRoutine instrs` the backend prints
                              (what `RV.run` parses: `C14R_routine_loads`, Props/C14LoaderRV.lean, from the decidable
                              names check `C14R_namesTextSafe`): the lines of the theorems above are the lines the
                              machine's own parser reads from the text, `run text = runLines lines`.
  * `C09_rv_cloLoop_every_boundary`  NON-VACUITY: a loop that creates a closure, invokes it (`JALR`), frees its
                              environment and calls itself, forever: for EVERY number of steps the invariant holds at
                              every boundary of the RV64 run.
  * `C09_rv_monitor_observer`  THE HEAP MONITOR IS AN OBSERVER (any configuration, monitor on or off): for every
                              amount of fuel the result of `runLines` with the monitor on is the result with the
                              monitor off (`Conc.monOff mc`) or a report `inv:` of the monitor; `C09_rv_monitored_states`:
                              every state the monitored machine passes through is, up to the monitor's counter
                              `blocksBelow`, a state the unmonitored machine passes through after the same number of
                              units of fuel — so the boundary theorems above speak about the monitored run as well.
                              `C09_rv_programs_monitored`: a terminating run with the monitor ON ends with the result
                              of the positional machine, or the monitor reports.
  KEPT AS `def : Prop` — `C09_rv_monitor_statement`: "the run with the heap monitor ON never ends in a report `inv:`".
  WHAT REMAINS of it (as on x86-64, Props/C09X86Mon.lean): the monitor's PREDICATE is proved at every boundary, and the
  executable check succeeds there inside its window (`C09_rv_heapMonitor_boundary_all`); missing are
  (a) the states strictly between two boundaries are not at a `#ctx` comment (the step lemmas of Scc/RV/Ref*.lean
      export `Reach` = `∃ k, stepN … k … = .inl …` without the program counters in between; x86-64 needed a second
      pass over all statement forms for this, Scc/X86/ConcKM*.lean),
  (b) the window of the monitor (`limit = heapBase + min heapBytes (⌈maxHeapWritten/64⌉·64 + 512)`) contains the
      frontier block (a fact about the write history),
  (c) the hook at the program counter parses to the kinds of the positional state's context (`Loaded`,
      Scc/RV/RefLayout.lean, does not record the `roots` of the items; the lines agree with the routine only up to
      the text of comments).  NOTE: for `lines` that agree with the routine only UP TO THE TEXT OF COMMENTS (the
      hypothesis `hlines` of the theorems here and of `C08_programs_live`) the monitor statement is FALSE — such
      lines may carry a well-formed `#ctx […]` text in place of a plain comment in the middle of a memory operation
      (`####increment refcount` …), where the heap is not consistent; it can only hold for the lines of the printed
      TEXT (`C14R_routine_loads_exact`), which is why `C09_rv_monitor_statement` is stated for `RV.run` on the text.
-/
import Scc.Props.C08RVClo
import Scc.Props.C14LoaderRV
import Scc.Props.C13X86All
import Scc.RV.ConcData
import Scc.RV.ConcCheck
import Scc.RV.ConcMon

namespace Scc.RV
open Scc.AxCut Scc.AxCut.Pos Scc.Backend Scc.Backend.Abs Scc.RV.Ref
open Scc.Heap (InvW)
open Scc.Props.C06Generic (Reachable CodeFits statesOf stopsWithin reachable_mem_statesOf)
open Scc.Props.C14Generic (LabelSafe)
open Scc.RV.Conc (BChain BoundaryOf HeapInvAt initState)
open Scc.X86.Conc (ctxKinds valsFields)
open Scc.X86.Ref.K (AllocLe progMaxAlloc allocLe_progMaxAlloc)

/-! ## every boundary -/

/-- EVERY STATEMENT BOUNDARY, all programs: a machine state that is related by the three-way relation to a state
of the positional machine satisfies the heap monitor's predicate for the roots the monitor reads from the first
registers of the non-`ext` variables (objects AND closures) of that state's context. -/
theorem C09_rv_boundary_all {p : AxCut.Prog} {hooks : Bool} {ks : List Code} {ops : List MockOp}
    {mc : MonCfg} {st : Pos.State} {X : State} (B : BoundaryOf p hooks ks ops mc st X) :
    HeapInvAt X (ctxKinds st.ctx) (heapBase + mc.heapBytes) :=
  Conc.heapInvAt_of_boundary B

/-! ## terminating runs -/

/-- C09 FOR CONCRETE RV64 EXECUTIONS OF ALL PROGRAMS, on parsed lines of the routine, side hypotheses explicit:
along a terminating run, the machine started in its initial state passes — in order, without fault — through a
statement-boundary state for EVERY state of the run of the positional machine, at each of them the machine's
heap memory, HEAP, FREE and the pointer registers of the live variables satisfy the invariant, and the run ends
with the result `v`. -/
theorem C09_rv_programs_lines (p : AxCut.Prog) (args : List Word) (hooks : Bool) (instrs hdr : List Code)
    (nargs cX : Nat) (d0 : Def) (ops : List MockOp) (c' : Nat)
    (hsafe : LabelSafe p = true) (htp : LinTypedProg p)
    (hcompM : (compile mockSym hooks p).run 0 = .ok ((ops, nargs), c')) (hfit : CodeFits ops)
    {counter : Nat} (hcompX : (compile rvBackend hooks p).run counter = .ok ((instrs, nargs), cX))
    (hnd : (labs (instrs ++ [Code.LAB "cleanup"])).Nodup) (hfitX : codeBase + 4 * instrs.length < 2 ^ 64)
    (hd : p.defs.head? = some d0) (hentry : ∀ b ∈ d0.ctx, b.chi = .ext ∧ b.ty = .i64)
    (hcap : ∀ st, Reachable p ⟨d0.ctx, args.map .int, d0.body⟩ st → st.ctx.length ≤ maxVariables)
    (fuel : Nat) (v : Word) (hfuel : fuel + 1 < 2 ^ 64)
    (hrun : (Pos.run p args fuel).res = .done v)
    (mc : MonCfg) (hheap : mc.heap = false) (htop : heapBase + mc.heapBytes ≤ 2 ^ 63)
    (hbytes : 128 + 64 * 15 * fuel ≤ mc.heapBytes)
    (lines : List (Nat × Code)) (hhdr : ∀ c ∈ hdr, c.isComment = true)
    (hlines : (lines.map (·.2)).map stripC = (hdr ++ instrs ++ [Code.LAB "cleanup"]).map stripC)
    (hhook : ∀ x ∈ lines, ¬ badHook x.2) :
    ∃ pr e regs, layout lines = .ok pr ∧ pr.entry = some e ∧ entryRegs args = some regs ∧
      ∃ X0, stepN pr mc 1 (initState regs e) = .inl X0 ∧
        BChain pr mc (fun st X => BoundaryOf p hooks (keptOf lines) ops mc st X ∧
            HeapInvAt X (ctxKinds st.ctx) (heapBase + mc.heapBytes))
          (statesOf p fuel ⟨d0.ctx, args.map .int, d0.body⟩) X0 ∧
        (∃ n XL r, stepN pr mc n X0 = .inl XL ∧ step pr mc XL = .inr r ∧ r.res = .done v) ∧
        ∀ st, Reachable p ⟨d0.ctx, args.map .int, d0.body⟩ st →
          ∃ n X, stepN pr mc n (initState regs e) = .inl X ∧ BoundaryOf p hooks (keptOf lines) ops mc st X ∧
            HeapInvAt X (ctxKinds st.ctx) (heapBase + mc.heapBytes) := by
  obtain ⟨pr, e, regs, hlay, he, hregs, X0, h0, hch, hstop, hdone⟩ := Conc.programs_chain p args hooks instrs hdr nargs
    cX d0 ops c' hsafe htp hcompM hfit hcompX hnd hfitX hd hentry hcap fuel v hfuel hrun mc hheap htop hbytes lines
    hhdr hlines hhook
  refine ⟨pr, e, regs, hlay, he, hregs, X0, h0,
    BChain.mono (fun st X B => ⟨B, Conc.heapInvAt_of_boundary B⟩) hch, hdone, ?_⟩
  intro st hr
  obtain ⟨n, X, hn, B⟩ := BChain.prepend h0 hch st (reachable_mem_statesOf p fuel _ st hstop hr)
  exact ⟨n, X, hn, B, Conc.heapInvAt_of_boundary B⟩

/-- what `C08_programs_live` discharges: the mock code generator succeeds, its code fits the address space, the
labels of the RV64 routine are pairwise distinct, the capacity bound holds at every reachable state -/
theorem C09_rv_setup (p : AxCut.Prog) (args : List Word) (hooks : Bool) (instrs : List Code)
    (nargs cX : Nat) (d0 : Def)
    (hsafe : LabelSafe p = true) (htp : LinTypedProg p) (hsize : C08_sizeCheck p = true)
    (hlive : LiveAtMost maxVariables p)
    {counter : Nat} (hcompX : (compile rvBackend hooks p).run counter = .ok ((instrs, nargs), cX))
    (hd : p.defs.head? = some d0) :
    ∃ ops c', (compile mockSym hooks p).run 0 = .ok ((ops, nargs), c') ∧ CodeFits ops ∧
      (labs (instrs ++ [Code.LAB "cleanup"])).Nodup ∧
      ∀ st, Reachable p ⟨d0.ctx, args.map .int, d0.body⟩ st → st.ctx.length ≤ maxVariables := by
  have hne : p.defs ≠ [] := by
    intro e; rw [e] at hd; simp at hd
  have hmem : d0 ∈ p.defs := by
    cases hdefs : p.defs with
    | nil => rw [hdefs] at hd; simp at hd
    | cons d ds => rw [hdefs] at hd; simp at hd; subst hd; simp
  obtain ⟨ops, nargsM, c', hcompM⟩ := Scc.Backend.Total.mock_compile_ok hooks p htp hne 0
  have h1 := C08_compile_nargs mockSym hooks p 0 ops nargsM c' hcompM d0 hd
  have h2 := C08_compile_nargs rvBackend hooks p counter instrs nargs cX hcompX d0 hd
  have hn : nargsM = nargs := by rw [h1, h2]
  subst hn
  exact ⟨ops, c', hcompM, C08_codeFits_of_size htp hsize hcompM, labels_unique_rv hsafe hcompX,
    C08_capacity_of_liveAtMost_all hlive hmem args⟩

/-- C09 FOR CONCRETE RV64 EXECUTIONS OF ALL PROGRAMS, side hypotheses discharged: under the hypotheses of
`C08_programs_live` (all of them decidable checks on the program, the emitted code and the machine configuration,
besides the terminating run itself) the lines load (`pr`: the program the machine's own loader lays out; the run
loop starts in `initState regs e`), and the machine passes — in order, without fault — through a
statement-boundary state for EVERY state of the terminating run of the positional machine; the heap invariant of
C09 holds at each of them; the run ends with the result `v`. -/
theorem C09_rv_programs (p : AxCut.Prog) (args : List Word) (hooks : Bool) (instrs hdr : List Code)
    (nargs cX : Nat) (d0 : Def)
    (hsafe : LabelSafe p = true) (htp : LinTypedProg p) (hsize : C08_sizeCheck p = true)
    (hlive : LiveAtMost maxVariables p)
    {counter : Nat} (hcompX : (compile rvBackend hooks p).run counter = .ok ((instrs, nargs), cX))
    (hfitX : codeBase + 4 * instrs.length < 2 ^ 64)
    (hd : p.defs.head? = some d0) (hentry : ∀ b ∈ d0.ctx, b.chi = .ext ∧ b.ty = .i64)
    (fuel : Nat) (v : Word)
    (hrun : (Pos.run p args fuel).res = .done v)
    (mc : MonCfg) (hheap : mc.heap = false) (htop : heapBase + mc.heapBytes ≤ 2 ^ 63)
    (hbytes : 128 + 64 * 15 * fuel ≤ mc.heapBytes)
    (lines : List (Nat × Code)) (hhdr : ∀ c ∈ hdr, c.isComment = true)
    (hlines : (lines.map (·.2)).map stripC = (hdr ++ instrs ++ [Code.LAB "cleanup"]).map stripC)
    (hhook : ∀ x ∈ lines, ¬ badHook x.2) :
    ∃ ops c' pr e regs, (compile mockSym hooks p).run 0 = .ok ((ops, nargs), c') ∧
      layout lines = .ok pr ∧ pr.entry = some e ∧ entryRegs args = some regs ∧
      ∃ X0, stepN pr mc 1 (initState regs e) = .inl X0 ∧
        BChain pr mc (fun st X => BoundaryOf p hooks (keptOf lines) ops mc st X ∧
            HeapInvAt X (ctxKinds st.ctx) (heapBase + mc.heapBytes))
          (statesOf p fuel ⟨d0.ctx, args.map .int, d0.body⟩) X0 ∧
        ∃ n XL r, stepN pr mc n X0 = .inl XL ∧ step pr mc XL = .inr r ∧ r.res = .done v := by
  obtain ⟨ops, c', hcompM, hfit, hnd, hcap⟩ := C09_rv_setup p args hooks instrs nargs cX d0 hsafe htp hsize hlive
    hcompX hd
  obtain ⟨pr, e, regs, hlay, he, hregs, X0, h0, hch, hdone, _⟩ := C09_rv_programs_lines p args hooks instrs hdr nargs
    cX d0 ops c' hsafe htp hcompM hfit hcompX hnd hfitX hd hentry hcap fuel v (by omega) hrun mc hheap htop hbytes
    lines hhdr hlines hhook
  exact ⟨ops, c', pr, e, regs, hcompM, hlay, he, hregs, X0, h0, hch, hdone⟩

/-- … in particular for EVERY state the positional machine reaches: the machine's run contains a boundary state
for it, and the invariant holds there -/
theorem C09_rv_reachable_all (p : AxCut.Prog) (args : List Word) (hooks : Bool) (instrs hdr : List Code)
    (nargs cX : Nat) (d0 : Def)
    (hsafe : LabelSafe p = true) (htp : LinTypedProg p) (hsize : C08_sizeCheck p = true)
    (hlive : LiveAtMost maxVariables p)
    {counter : Nat} (hcompX : (compile rvBackend hooks p).run counter = .ok ((instrs, nargs), cX))
    (hfitX : codeBase + 4 * instrs.length < 2 ^ 64)
    (hd : p.defs.head? = some d0) (hentry : ∀ b ∈ d0.ctx, b.chi = .ext ∧ b.ty = .i64)
    (fuel : Nat) (v : Word)
    (hrun : (Pos.run p args fuel).res = .done v)
    (mc : MonCfg) (hheap : mc.heap = false) (htop : heapBase + mc.heapBytes ≤ 2 ^ 63)
    (hbytes : 128 + 64 * 15 * fuel ≤ mc.heapBytes)
    (lines : List (Nat × Code)) (hhdr : ∀ c ∈ hdr, c.isComment = true)
    (hlines : (lines.map (·.2)).map stripC = (hdr ++ instrs ++ [Code.LAB "cleanup"]).map stripC)
    (hhook : ∀ x ∈ lines, ¬ badHook x.2) :
    ∃ ops c' pr e regs, (compile mockSym hooks p).run 0 = .ok ((ops, nargs), c') ∧
      layout lines = .ok pr ∧ pr.entry = some e ∧ entryRegs args = some regs ∧
      ∀ st, Reachable p ⟨d0.ctx, args.map .int, d0.body⟩ st →
        ∃ n X, stepN pr mc n (initState regs e) = .inl X ∧ BoundaryOf p hooks (keptOf lines) ops mc st X ∧
          HeapInvAt X (ctxKinds st.ctx) (heapBase + mc.heapBytes) := by
  obtain ⟨ops, c', hcompM, hfit, hnd, hcap⟩ := C09_rv_setup p args hooks instrs nargs cX d0 hsafe htp hsize hlive
    hcompX hd
  obtain ⟨pr, e, regs, hlay, he, hregs, X0, h0, hch, hdone, hreach⟩ := C09_rv_programs_lines p args hooks instrs hdr
    nargs cX d0 ops c' hsafe htp hcompM hfit hcompX hnd hfitX hd hentry hcap fuel v (by omega) hrun mc hheap htop hbytes
    lines hhdr hlines hhook
  exact ⟨ops, c', pr, e, regs, hcompM, hlay, he, hregs, hreach⟩

/-! ## every prefix of every run -/

/-- C09 FOR EVERY PREFIX OF EVERY RUN (terminating or not) OF ALL PROGRAMS, on parsed lines, side hypotheses
explicit: for ANY number `fuel` of steps of the positional machine, the machine started in its initial state
passes — in order, without fault — through a statement-boundary state for every state the positional machine goes
through, and the invariant of C09 holds at each of them.  Room: the footprint bound of C10. -/
theorem C09_rv_every_prefix_all_lines (p : AxCut.Prog) (args : List Word) (hooks : Bool) (instrs hdr : List Code)
    (nargs cX : Nat) (d0 : Def) (ops : List MockOp) (c' : Nat)
    (hsafe : LabelSafe p = true) (htp : LinTypedProg p)
    (hcompM : (compile mockSym hooks p).run 0 = .ok ((ops, nargs), c')) (hfit : CodeFits ops)
    {counter : Nat} (hcompX : (compile rvBackend hooks p).run counter = .ok ((instrs, nargs), cX))
    (hnd : (labs (instrs ++ [Code.LAB "cleanup"])).Nodup) (hfitX : codeBase + 4 * instrs.length < 2 ^ 64)
    (hd : p.defs.head? = some d0) (hentry : ∀ b ∈ d0.ctx, b.chi = .ext ∧ b.ty = .i64)
    (hlen : d0.ctx.length = args.length)
    (hcap : ∀ st, Reachable p ⟨d0.ctx, args.map .int, d0.body⟩ st → st.ctx.length ≤ maxVariables)
    (fuel : Nat) (hfuel : fuel + 1 < 2 ^ 64)
    (mc : MonCfg) (hheap : mc.heap = false) (htop : heapBase + mc.heapBytes ≤ 2 ^ 63)
    (Pk : Nat) (hbytes : 64 * (Pk + progMaxAlloc p + 2) ≤ mc.heapBytes)
    (lines : List (Nat × Code)) (hhdr : ∀ c ∈ hdr, c.isComment = true)
    (hlines : (lines.map (·.2)).map stripC = (hdr ++ instrs ++ [Code.LAB "cleanup"]).map stripC)
    (hhook : ∀ x ∈ lines, ¬ badHook x.2)
    (hP : ∀ pr e regs, layout lines = .ok pr → pr.entry = some e → entryRegs args = some regs →
      Conc.PeakAtMost p hooks (keptOf lines) ops mc pr (initState regs e) Pk (progMaxAlloc p * fuel + 1)) :
    ∃ pr e regs, layout lines = .ok pr ∧ pr.entry = some e ∧ entryRegs args = some regs ∧
      ∃ X0, stepN pr mc 1 (initState regs e) = .inl X0 ∧
        BChain pr mc (fun st X => BoundaryOf p hooks (keptOf lines) ops mc st X ∧
            HeapInvAt X (ctxKinds st.ctx) (heapBase + mc.heapBytes))
          (statesOf p fuel ⟨d0.ctx, args.map .int, d0.body⟩) X0 := by
  obtain ⟨pr, e, regs, hlay, he, hregs, X0, h0, hch⟩ := Conc.programs_prefix p args hooks instrs hdr nargs cX d0 ops
    c' hsafe htp hcompM hfit hcompX hnd hfitX hd hentry hlen hcap fuel hfuel mc hheap htop Pk (progMaxAlloc p)
    (allocLe_progMaxAlloc p) hbytes lines hhdr hlines hhook hP
  exact ⟨pr, e, regs, hlay, he, hregs, X0, h0,
    BChain.mono (fun st X B => ⟨B.1, Conc.heapInvAt_of_boundary B.1⟩) hch⟩

/-- C09 FOR EVERY PREFIX OF EVERY RUN OF ALL PROGRAMS, side hypotheses discharged (hypotheses of
`C08_programs_live` without the terminating run; `args.length = nargs`; `fuel + 1 < 2^64`; the peak hypothesis for
the mock code and the program the loader lays out) -/
theorem C09_rv_every_prefix_all (p : AxCut.Prog) (args : List Word) (hooks : Bool) (instrs hdr : List Code)
    (nargs cX : Nat) (d0 : Def)
    (hsafe : LabelSafe p = true) (htp : LinTypedProg p) (hsize : C08_sizeCheck p = true)
    (hlive : LiveAtMost maxVariables p)
    {counter : Nat} (hcompX : (compile rvBackend hooks p).run counter = .ok ((instrs, nargs), cX))
    (hfitX : codeBase + 4 * instrs.length < 2 ^ 64)
    (hd : p.defs.head? = some d0) (hentry : ∀ b ∈ d0.ctx, b.chi = .ext ∧ b.ty = .i64)
    (hargs : args.length = nargs)
    (fuel : Nat) (hfuel : fuel + 1 < 2 ^ 64)
    (mc : MonCfg) (hheap : mc.heap = false) (htop : heapBase + mc.heapBytes ≤ 2 ^ 63)
    (Pk : Nat) (hbytes : 64 * (Pk + progMaxAlloc p + 2) ≤ mc.heapBytes)
    (lines : List (Nat × Code)) (hhdr : ∀ c ∈ hdr, c.isComment = true)
    (hlines : (lines.map (·.2)).map stripC = (hdr ++ instrs ++ [Code.LAB "cleanup"]).map stripC)
    (hhook : ∀ x ∈ lines, ¬ badHook x.2)
    (hP : ∀ ops c' pr e regs, (compile mockSym hooks p).run 0 = .ok ((ops, nargs), c') →
      layout lines = .ok pr → pr.entry = some e → entryRegs args = some regs →
      Conc.PeakAtMost p hooks (keptOf lines) ops mc pr (initState regs e) Pk (progMaxAlloc p * fuel + 1)) :
    ∃ ops c' pr e regs, (compile mockSym hooks p).run 0 = .ok ((ops, nargs), c') ∧
      layout lines = .ok pr ∧ pr.entry = some e ∧ entryRegs args = some regs ∧
      ∃ X0, stepN pr mc 1 (initState regs e) = .inl X0 ∧
        BChain pr mc (fun st X => BoundaryOf p hooks (keptOf lines) ops mc st X ∧
            HeapInvAt X (ctxKinds st.ctx) (heapBase + mc.heapBytes))
          (statesOf p fuel ⟨d0.ctx, args.map .int, d0.body⟩) X0 := by
  obtain ⟨ops, c', hcompM, hfit, hnd, hcap⟩ := C09_rv_setup p args hooks instrs nargs cX d0 hsafe htp hsize hlive
    hcompX hd
  have hlen : d0.ctx.length = args.length := by
    rw [hargs]; exact (C08_compile_nargs rvBackend hooks p counter instrs nargs cX hcompX d0 hd).symm
  obtain ⟨pr, e, regs, hlay, he, hregs, X0, h0, hch⟩ := C09_rv_every_prefix_all_lines p args hooks instrs hdr nargs cX
    d0 ops c' hsafe htp hcompM hfit hcompX hnd hfitX hd hentry hlen hcap fuel hfuel mc hheap htop Pk hbytes lines hhdr
    hlines hhook (fun pr e regs h1 h2 h3 => hP ops c' pr e regs hcompM h1 h2 h3)
  exact ⟨ops, c', pr, e, regs, hcompM, hlay, he, hregs, X0, h0, hch⟩

/-- C09 FOR EVERY PREFIX OF EVERY RUN OF ALL PROGRAMS, with the room hypothesis on the SOURCE PROGRAM: if the
object and closure values held by the variables of the positional machine never have more than `D` fields (over
all reachable states), a heap of `64·(D + A + 2)` bytes is enough, and at every statement boundary of every
prefix of the run — terminating or not — the machine's heap satisfies the invariant of C09. -/
theorem C09_rv_every_prefix_all_size (p : AxCut.Prog) (args : List Word) (hooks : Bool) (instrs hdr : List Code)
    (nargs cX : Nat) (d0 : Def)
    (hsafe : LabelSafe p = true) (htp : LinTypedProg p) (hsize : C08_sizeCheck p = true)
    (hlive : LiveAtMost maxVariables p)
    {counter : Nat} (hcompX : (compile rvBackend hooks p).run counter = .ok ((instrs, nargs), cX))
    (hfitX : codeBase + 4 * instrs.length < 2 ^ 64)
    (hd : p.defs.head? = some d0) (hentry : ∀ b ∈ d0.ctx, b.chi = .ext ∧ b.ty = .i64)
    (hargs : args.length = nargs)
    (D : Nat) (hD : ∀ st, Reachable p ⟨d0.ctx, args.map .int, d0.body⟩ st → valsFields st.env ≤ D)
    (fuel : Nat) (hfuel : fuel + 1 < 2 ^ 64)
    (mc : MonCfg) (hheap : mc.heap = false) (htop : heapBase + mc.heapBytes ≤ 2 ^ 63)
    (hbytes : 64 * (D + progMaxAlloc p + 2) ≤ mc.heapBytes)
    (lines : List (Nat × Code)) (hhdr : ∀ c ∈ hdr, c.isComment = true)
    (hlines : (lines.map (·.2)).map stripC = (hdr ++ instrs ++ [Code.LAB "cleanup"]).map stripC)
    (hhook : ∀ x ∈ lines, ¬ badHook x.2) :
    ∃ ops c' pr e regs, (compile mockSym hooks p).run 0 = .ok ((ops, nargs), c') ∧
      layout lines = .ok pr ∧ pr.entry = some e ∧ entryRegs args = some regs ∧
      ∃ X0, stepN pr mc 1 (initState regs e) = .inl X0 ∧
        BChain pr mc (fun st X => BoundaryOf p hooks (keptOf lines) ops mc st X ∧
            HeapInvAt X (ctxKinds st.ctx) (heapBase + mc.heapBytes))
          (statesOf p fuel ⟨d0.ctx, args.map .int, d0.body⟩) X0 := by
  obtain ⟨ops, c', hcompM, hfit, hnd, hcap⟩ := C09_rv_setup p args hooks instrs nargs cX d0 hsafe htp hsize hlive
    hcompX hd
  have hlen : d0.ctx.length = args.length := by
    rw [hargs]; exact (C08_compile_nargs rvBackend hooks p counter instrs nargs cX hcompX d0 hd).symm
  obtain ⟨pr, e, regs, hlay, he, hregs, X0, h0, hch⟩ := Conc.programs_prefix_gen p args hooks instrs hdr nargs cX d0
    ops c' hsafe htp hcompM hfit hcompX hnd hfitX hd hentry hlen hcap fuel hfuel mc hheap htop D (progMaxAlloc p)
    (allocLe_progMaxAlloc p) hbytes lines hhdr hlines hhook (fun _ _ _ _ _ _ => Conc.peakHyp_of_data hD)
  exact ⟨ops, c', pr, e, regs, hcompM, hlay, he, hregs, X0, h0,
    BChain.mono (fun st X B => ⟨B.1, Conc.heapInvAt_of_boundary B.1⟩) hch⟩

/-! ## the executable monitor at a boundary -/

/-- THE EXECUTABLE HEAP MONITOR SUCCEEDS AT EVERY STATEMENT BOUNDARY (inside its window), all programs: the function
`heapMonitor` that the run loop calls at a `#ctx` hook, run with the roots of the kinds of the boundary's context,
returns the state with the monitor's counter raised to the number of blocks below the frontier. -/
theorem C09_rv_heapMonitor_boundary_all {p : AxCut.Prog} {hooks : Bool} {ks : List Code} {ops : List MockOp}
    {mc : MonCfg} {st : Pos.State} {X : State} (B : BoundaryOf p hooks ks ops mc st X) :
    ∃ below inUse, Conc.HeapShapeAt mc X below inUse ∧
      (64 * below + 64 ≤ (X.maxHeapWritten + 63) / 64 * 64 + 8 * 64 →
        heapMonitor mc X (hookRoots (ctxKinds st.ctx)) = .ok { X with blocksBelow := max X.blocksBelow below }) :=
  Conc.heapMonitor_boundary B

/-! ## on the text of the routine -/

/-- C09 FOR CONCRETE RV64 EXECUTIONS OF ALL PROGRAMS, ON THE TEXT the backend prints: under the hypotheses of
`C08_programs_live_text` the text `intoRoutine instrs` parses (`lines`: what the machine's own parser reads;
`RV.run` on the text is `runLines lines`), the lines load, and the machine passes — in order, without fault —
through a statement-boundary state for EVERY state of the terminating run of the positional machine; the heap
invariant of C09 holds at each of them; the run ends with the result `v`. -/
theorem C09_rv_programs_text (p : AxCut.Prog) (args : List Word) (hooks : Bool) (counter : Nat)
    (instrs : List Code) (nargs cX : Nat) (d0 : Def)
    (hsafe : LabelSafe p = true) (htp : LinTypedProg p) (hsize : C08_sizeCheck p = true)
    (hlive : LiveAtMost maxVariables p) (hnames : C14R_namesTextSafe p = true)
    (hcompX : (compile rvBackend hooks p).run counter = .ok ((instrs, nargs), cX))
    (hfitX : codeBase + 4 * instrs.length < 2 ^ 64)
    (hd : p.defs.head? = some d0) (hentry : ∀ b ∈ d0.ctx, b.chi = .ext ∧ b.ty = .i64)
    (fuel : Nat) (v : Word)
    (hrun : (Pos.run p args fuel).res = .done v)
    (mc : MonCfg) (hheap : mc.heap = false) (hwf : mc.wf = false) (htop : heapBase + mc.heapBytes ≤ 2 ^ 63)
    (hbytes : 128 + 64 * 15 * fuel ≤ mc.heapBytes) :
    ∃ lines, parseText (intoRoutine instrs) = .ok lines ∧
      (∀ fuel', run (intoRoutine instrs) args fuel' mc = runLines lines args fuel' mc) ∧
      ∃ ops c' pr e regs, (compile mockSym hooks p).run 0 = .ok ((ops, nargs), c') ∧
        layout lines = .ok pr ∧ pr.entry = some e ∧ entryRegs args = some regs ∧
        ∃ X0, stepN pr mc 1 (initState regs e) = .inl X0 ∧
          BChain pr mc (fun st X => BoundaryOf p hooks (keptOf lines) ops mc st X ∧
              HeapInvAt X (ctxKinds st.ctx) (heapBase + mc.heapBytes))
            (statesOf p fuel ⟨d0.ctx, args.map .int, d0.body⟩) X0 ∧
          ∃ n XL r, stepN pr mc n X0 = .inl XL ∧ step pr mc XL = .inr r ∧ r.res = .done v := by
  obtain ⟨lines, hparse, hlines, hhook⟩ := C14R_routine_loads hnames hcompX
  exact ⟨lines, hparse, fun fuel' => run_eq_runLines hparse args fuel' mc hwf,
    C09_rv_programs p args hooks instrs [Code.COMMENT "actual code"] nargs cX d0 hsafe htp hsize hlive hcompX hfitX hd
      hentry fuel v hrun mc hheap htop hbytes lines (fun c hc => by simp at hc; subst hc; rfl) hlines hhook⟩

/-- C09 FOR EVERY PREFIX OF EVERY RUN OF ALL PROGRAMS, ON THE TEXT the backend prints, room hypothesis on the SOURCE
PROGRAM (`valsFields st.env ≤ D` at every reachable state, `64·(D + A + 2) ≤ heapBytes`) -/
theorem C09_rv_every_prefix_all_size_text (p : AxCut.Prog) (args : List Word) (hooks : Bool) (counter : Nat)
    (instrs : List Code) (nargs cX : Nat) (d0 : Def)
    (hsafe : LabelSafe p = true) (htp : LinTypedProg p) (hsize : C08_sizeCheck p = true)
    (hlive : LiveAtMost maxVariables p) (hnames : C14R_namesTextSafe p = true)
    (hcompX : (compile rvBackend hooks p).run counter = .ok ((instrs, nargs), cX))
    (hfitX : codeBase + 4 * instrs.length < 2 ^ 64)
    (hd : p.defs.head? = some d0) (hentry : ∀ b ∈ d0.ctx, b.chi = .ext ∧ b.ty = .i64)
    (hargs : args.length = nargs)
    (D : Nat) (hD : ∀ st, Reachable p ⟨d0.ctx, args.map .int, d0.body⟩ st → valsFields st.env ≤ D)
    (fuel : Nat) (hfuel : fuel + 1 < 2 ^ 64)
    (mc : MonCfg) (hheap : mc.heap = false) (hwf : mc.wf = false) (htop : heapBase + mc.heapBytes ≤ 2 ^ 63)
    (hbytes : 64 * (D + progMaxAlloc p + 2) ≤ mc.heapBytes) :
    ∃ lines, parseText (intoRoutine instrs) = .ok lines ∧
      (∀ fuel', run (intoRoutine instrs) args fuel' mc = runLines lines args fuel' mc) ∧
      ∃ ops c' pr e regs, (compile mockSym hooks p).run 0 = .ok ((ops, nargs), c') ∧
        layout lines = .ok pr ∧ pr.entry = some e ∧ entryRegs args = some regs ∧
        ∃ X0, stepN pr mc 1 (initState regs e) = .inl X0 ∧
          BChain pr mc (fun st X => BoundaryOf p hooks (keptOf lines) ops mc st X ∧
              HeapInvAt X (ctxKinds st.ctx) (heapBase + mc.heapBytes))
            (statesOf p fuel ⟨d0.ctx, args.map .int, d0.body⟩) X0 := by
  obtain ⟨lines, hparse, hlines, hhook⟩ := C14R_routine_loads hnames hcompX
  exact ⟨lines, hparse, fun fuel' => run_eq_runLines hparse args fuel' mc hwf,
    C09_rv_every_prefix_all_size p args hooks instrs [Code.COMMENT "actual code"] nargs cX d0 hsafe htp hsize hlive
      hcompX hfitX hd hentry hargs D hD fuel hfuel mc hheap htop hbytes lines
      (fun c hc => by simp at hc; subst hc; rfl) hlines hhook⟩

/-! ## the monitored machine -/

/-- THE HEAP MONITOR IS AN OBSERVER, any configuration: for every amount of fuel, the result of the machine on the
lines with the heap monitor on is the result with the monitor off, or a report of the monitor -/
theorem C09_rv_monitor_observer (lines : List (Nat × Code)) (args : List Word) (f : Nat) (mc : MonCfg) :
    (runLines lines args f mc).res = (runLines lines args f (Conc.monOff mc)).res ∨
      ∃ e ln, (runLines lines args f mc).res = .invFail e ln := by
  unfold runLines
  cases layout lines with
  | error e => exact Or.inl rfl
  | ok pr =>
    simp only
    unfold runProgram
    cases pr.entry with
    | none => exact Or.inl rfl
    | some e =>
      cases entryRegs args with
      | none => exact Or.inl rfl
      | some regs =>
        simp only
        rcases Conc.runLoop_monitor_indep pr mc f (Conc.SameBB.refl _) with h | h
        · exact Or.inl h.2.1.symm
        · exact Or.inr h

/-- every state the MONITORED machine passes through is, up to the monitor's counter, a state the unmonitored
machine passes through after the same number of units of fuel (same registers, memory, program counter) -/
theorem C09_rv_monitored_states (pr : RV.Program) (mc : MonCfg) (k : Nat) (s0 S : State)
    (h : stepN pr mc k s0 = .inl S) :
    ∃ S', stepN pr (Conc.monOff mc) k s0 = .inl S' ∧ S'.regs = S.regs ∧ S'.mem = S.mem ∧ S'.pc = S.pc ∧
      S'.maxHeapWritten = S.maxHeapWritten := by
  obtain ⟨S', h1, h2⟩ := Conc.stepN_monOff pr mc k (Conc.SameBB.refl s0) h
  exact ⟨S', h1, h2.regs, h2.mem, h2.pc, h2.mhw⟩

/-- A TERMINATING RUN WITH THE HEAP MONITOR ON (any configuration; the hypotheses of `C08_programs_live` for the
configuration with the monitor switched off): the machine on the lines returns the result of the positional machine,
or the monitor reports -/
theorem C09_rv_programs_monitored (p : AxCut.Prog) (args : List Word) (hooks : Bool) (instrs hdr : List Code)
    (nargs cX : Nat) (d0 : Def)
    (hsafe : LabelSafe p = true) (htp : LinTypedProg p) (hsize : C08_sizeCheck p = true)
    (hlive : LiveAtMost maxVariables p)
    {counter : Nat} (hcompX : (compile rvBackend hooks p).run counter = .ok ((instrs, nargs), cX))
    (hfitX : codeBase + 4 * instrs.length < 2 ^ 64)
    (hd : p.defs.head? = some d0) (hentry : ∀ b ∈ d0.ctx, b.chi = .ext ∧ b.ty = .i64)
    (fuel : Nat) (v : Word)
    (hrun : (Pos.run p args fuel).res = .done v)
    (mc : MonCfg) (htop : heapBase + mc.heapBytes ≤ 2 ^ 63)
    (hbytes : 128 + 64 * 15 * fuel ≤ mc.heapBytes)
    (lines : List (Nat × Code)) (hhdr : ∀ c ∈ hdr, c.isComment = true)
    (hlines : (lines.map (·.2)).map stripC = (hdr ++ instrs ++ [Code.LAB "cleanup"]).map stripC)
    (hhook : ∀ x ∈ lines, ¬ badHook x.2) :
    ∃ fuel', (runLines lines args fuel' mc).res = .done v ∨
      ∃ e ln, (runLines lines args fuel' mc).res = .invFail e ln := by
  obtain ⟨fuel', hf⟩ := C08_programs_live p args hooks instrs hdr nargs cX d0 hsafe htp hsize hlive hcompX hfitX hd
    hentry fuel v hrun (Conc.monOff mc) rfl htop hbytes lines hhdr hlines hhook
  refine ⟨fuel', ?_⟩
  rcases C09_rv_monitor_observer lines args fuel' mc with h | h
  · exact Or.inl (by rw [h]; exact hf)
  · exact Or.inr h

/-- C09 IN TERMS OF THE EXECUTABLE MONITOR (NOT proved; see the header for what remains): the run of the SPEC machine
on the text of the routine with the heap monitor ON never ends in a report `inv:` of the heap monitor -/
def C09_rv_monitor_statement : Prop :=
  ∀ (p : AxCut.Prog) (args : List Word) (counter : Nat) (instrs : List Code) (nargs cX : Nat) (d0 : Def),
    LabelSafe p = true → LinTypedProg p → C08_sizeCheck p = true → LiveAtMost maxVariables p →
    C14R_namesTextSafe p = true →
    (compile rvBackend true p).run counter = .ok ((instrs, nargs), cX) →
    codeBase + 4 * instrs.length < 2 ^ 64 →
    p.defs.head? = some d0 → (∀ b ∈ d0.ctx, b.chi = .ext ∧ b.ty = .i64) → args.length = nargs →
    (∀ fuel w, (Pos.run p args fuel).res ≠ .stuck w) →
    ∀ (D : Nat), (∀ st, Reachable p ⟨d0.ctx, args.map .int, d0.body⟩ st → valsFields st.env ≤ D) →
    ∀ (mc : MonCfg), mc.wf = false → heapBase + mc.heapBytes ≤ 2 ^ 63 →
    64 * (D + progMaxAlloc p + 2) ≤ mc.heapBytes →
    ∀ (fuel' : Nat) (what : String) (ln : Nat), (run (intoRoutine instrs) args fuel' mc).res ≠ .invFail what ln

/-! ### non-vacuity: the closure programs of Props/C08RVClo.lean -/

/-- every hypothesis of `C09_rv_programs` holds for the closure program started with x = 37 (a closure stored in
an object, loaded again, invoked through `JALR`): the machine on the canonical lines of the emitted routine passes
through a boundary state for each state of the positional run, and the heap invariant holds at each -/
example : ∃ ops c' pr e regs, (compile mockSym true C08_cloProg).run 0 = .ok ((ops, 1), c') ∧
    layout (canonLines [Code.COMMENT "actual code"] C08_cloInstrs) = .ok pr ∧ pr.entry = some e ∧
    entryRegs [37] = some regs ∧
    ∃ X0, stepN pr {} 1 (initState regs e) = .inl X0 ∧
      BChain pr {} (fun st X =>
          BoundaryOf C08_cloProg true (keptOf (canonLines [Code.COMMENT "actual code"] C08_cloInstrs)) ops {} st X ∧
          HeapInvAt X (ctxKinds st.ctx) (0x10000000 + 0x2000000))
        (statesOf C08_cloProg 20 ⟨C08_cloMain.ctx, [.int 37], C08_cloMain.body⟩) X0 ∧
      ∃ n XL r, stepN pr {} n X0 = .inl XL ∧ step pr {} XL = .inr r ∧ r.res = .done 42 := by
  have hcompX : ∃ k, (compile rvBackend true C08_cloProg).run 0 = .ok ((C08_cloInstrs, 1), k) := by
    rw [← rvBackendF_eq]; exact ⟨_, rfl⟩
  obtain ⟨cX, hcompX⟩ := hcompX
  have hrun : (Pos.run C08_cloProg [37] 20).res = .done 42 := by decide
  exact C09_rv_programs C08_cloProg [37] true C08_cloInstrs [Code.COMMENT "actual code"] 1 cX C08_cloMain
    (by decide) (linTypedCheck_sound C08_cloProg rfl) (by decide) C08_cloProg_live
    hcompX C08_cloInstrs_fits rfl (by decide) 20 42 hrun {} rfl (by decide)
    (by decide) _ (fun c hc => by simp at hc; subst hc; rfl) (canonLines_codes _ _) (canonLines_hooks _ _)

/-- … and for the two-method closure (`add_and_jump` through the method table), started with x = 21 -/
example : ∃ ops c' pr e regs, (compile mockSym true C08_opsProg).run 0 = .ok ((ops, 1), c') ∧
    layout (canonLines [Code.COMMENT "actual code"] C08_opsInstrs) = .ok pr ∧ pr.entry = some e ∧
    entryRegs [21] = some regs ∧
    ∃ X0, stepN pr {} 1 (initState regs e) = .inl X0 ∧
      BChain pr {} (fun st X =>
          BoundaryOf C08_opsProg true (keptOf (canonLines [Code.COMMENT "actual code"] C08_opsInstrs)) ops {} st X ∧
          HeapInvAt X (ctxKinds st.ctx) (0x10000000 + 0x2000000))
        (statesOf C08_opsProg 20 ⟨C08_opsMain.ctx, [.int 21], C08_opsMain.body⟩) X0 ∧
      ∃ n XL r, stepN pr {} n X0 = .inl XL ∧ step pr {} XL = .inr r ∧ r.res = .done 42 := by
  have hcompX : ∃ k, (compile rvBackend true C08_opsProg).run 0 = .ok ((C08_opsInstrs, 1), k) := by
    rw [← rvBackendF_eq]; exact ⟨_, rfl⟩
  obtain ⟨cX, hcompX⟩ := hcompX
  have hrun : (Pos.run C08_opsProg [21] 20).res = .done 42 := by decide
  exact C09_rv_programs C08_opsProg [21] true C08_opsInstrs [Code.COMMENT "actual code"] 1 cX C08_opsMain
    (by decide) (linTypedCheck_sound C08_opsProg rfl) (by decide) C08_opsProg_live
    hcompX C08_opsInstrs_fits rfl (by decide) 20 42 hrun {} rfl (by decide)
    (by decide) _ (fun c hc => by simp at hc; subst hc; rfl) (canonLines_codes _ _) (canonLines_hooks _ _)

/-- `C09_rv_every_prefix_all_size` on the closure program: the first 3 steps of the run (a proper prefix), `D = 2` -/
example : ∃ ops c' pr e regs, (compile mockSym true C08_cloProg).run 0 = .ok ((ops, 1), c') ∧
    layout (canonLines [Code.COMMENT "actual code"] C08_cloInstrs) = .ok pr ∧ pr.entry = some e ∧
    entryRegs [37] = some regs ∧
    ∃ X0, stepN pr {} 1 (initState regs e) = .inl X0 ∧
      BChain pr {} (fun st X =>
          BoundaryOf C08_cloProg true (keptOf (canonLines [Code.COMMENT "actual code"] C08_cloInstrs)) ops {} st X ∧
          HeapInvAt X (ctxKinds st.ctx) (0x10000000 + 0x2000000))
        (statesOf C08_cloProg 3 ⟨C08_cloMain.ctx, [.int 37], C08_cloMain.body⟩) X0 := by
  have hcompX : ∃ k, (compile rvBackend true C08_cloProg).run 0 = .ok ((C08_cloInstrs, 1), k) := by
    rw [← rvBackendF_eq]; exact ⟨_, rfl⟩
  obtain ⟨cX, hcompX⟩ := hcompX
  have e1 : progMaxAlloc C08_cloProg = 1 := by decide
  exact C09_rv_every_prefix_all_size C08_cloProg [37] true C08_cloInstrs [Code.COMMENT "actual code"] 1 cX C08_cloMain
    (by decide) (linTypedCheck_sound C08_cloProg rfl) (by decide) C08_cloProg_live
    hcompX C08_cloInstrs_fits rfl (by decide) rfl 2
    (Scc.X86.C10_dataSize_of_run C08_cloProg 20 _ 2 (by decide) (by decide)) 3 (by decide)
    {} rfl (by decide) (by rw [e1]; decide) _ (fun c hc => by simp at hc; subst hc; rfl) (canonLines_codes _ _)
    (canonLines_hooks _ _)

/-- `C09_rv_every_prefix_all` with the trivial peak `Pk = A·fuel + 1` (`C10_rv_peak_trivial_all`) on the two-method
closure program: the first 3 steps of the run, a heap of `64·(1·3 + 1 + 1 + 2)` bytes suffices -/
example : ∃ ops c' pr e regs, (compile mockSym true C08_opsProg).run 0 = .ok ((ops, 1), c') ∧
    layout (canonLines [Code.COMMENT "actual code"] C08_opsInstrs) = .ok pr ∧ pr.entry = some e ∧
    entryRegs [21] = some regs ∧
    ∃ X0, stepN pr {} 1 (initState regs e) = .inl X0 ∧
      BChain pr {} (fun st X =>
          BoundaryOf C08_opsProg true (keptOf (canonLines [Code.COMMENT "actual code"] C08_opsInstrs)) ops {} st X ∧
          HeapInvAt X (ctxKinds st.ctx) (0x10000000 + 0x2000000))
        (statesOf C08_opsProg 3 ⟨C08_opsMain.ctx, [.int 21], C08_opsMain.body⟩) X0 := by
  have hcompX : ∃ k, (compile rvBackend true C08_opsProg).run 0 = .ok ((C08_opsInstrs, 1), k) := by
    rw [← rvBackendF_eq]; exact ⟨_, rfl⟩
  obtain ⟨cX, hcompX⟩ := hcompX
  have e1 : progMaxAlloc C08_opsProg = 1 := by decide
  exact C09_rv_every_prefix_all C08_opsProg [21] true C08_opsInstrs [Code.COMMENT "actual code"] 1 cX C08_opsMain
    (by decide) (linTypedCheck_sound C08_opsProg rfl) (by decide) C08_opsProg_live
    hcompX C08_opsInstrs_fits rfl (by decide) rfl 3 (by decide)
    {} rfl (by decide) (progMaxAlloc C08_opsProg * 3 + 1) (by rw [e1]; decide) _
    (fun c hc => by simp at hc; subst hc; rfl) (canonLines_codes _ _) (canonLines_hooks _ _)
    (fun _ _ _ _ _ _ _ _ _ => Conc.peakAtMost_trivial _ _ _ _ _ _ _ _)

/-- `C09_rv_programs_text` on the closure program: the TEXT the backend prints parses, `RV.run` on it is the run on
the parsed lines, and the heap invariant holds at every statement boundary of the run -/
example : ∃ lines, parseText (intoRoutine C08_cloInstrs) = .ok lines ∧
    (∀ fuel', run (intoRoutine C08_cloInstrs) [37] fuel' {} = runLines lines [37] fuel' {}) ∧
    ∃ ops c' pr e regs, (compile mockSym true C08_cloProg).run 0 = .ok ((ops, 1), c') ∧
      layout lines = .ok pr ∧ pr.entry = some e ∧ entryRegs [37] = some regs ∧
      ∃ X0, stepN pr {} 1 (initState regs e) = .inl X0 ∧
        BChain pr {} (fun st X => BoundaryOf C08_cloProg true (keptOf lines) ops {} st X ∧
            HeapInvAt X (ctxKinds st.ctx) (0x10000000 + 0x2000000))
          (statesOf C08_cloProg 20 ⟨C08_cloMain.ctx, [.int 37], C08_cloMain.body⟩) X0 ∧
        ∃ n XL r, stepN pr {} n X0 = .inl XL ∧ step pr {} XL = .inr r ∧ r.res = .done 42 := by
  have hcompX : ∃ k, (compile rvBackend true C08_cloProg).run 0 = .ok ((C08_cloInstrs, 1), k) := by
    rw [← rvBackendF_eq]; exact ⟨_, rfl⟩
  obtain ⟨cX, hcompX⟩ := hcompX
  have hrun : (Pos.run C08_cloProg [37] 20).res = .done 42 := by decide
  exact C09_rv_programs_text C08_cloProg [37] true 0 C08_cloInstrs 1 cX C08_cloMain
    (by decide) (linTypedCheck_sound C08_cloProg rfl) (by decide) C08_cloProg_live (by decide)
    hcompX C08_cloInstrs_fits rfl (by decide) 20 42 hrun {} rfl rfl (by decide) (by decide)

/-! ### non-vacuity of the prefix theorems: the closure loop of Props/C13X86All.lean, which never terminates -/

def C09R_loopInstrs : List Code :=
  match (compile rvBackendF true Scc.X86.C13_cloLoopProg).run 0 with
  | .ok ((code, _), _) => code
  | .error _ => []

set_option maxRecDepth 100000 in
theorem C09R_loopInstrs_fits : codeBase + 4 * C09R_loopInstrs.length < 2 ^ 64 := by decide

theorem C09R_loopProg_live : LiveAtMost maxVariables Scc.X86.C13_cloLoopProg := by
  intro d hd
  simp only [Scc.X86.C13_cloLoopProg, List.mem_singleton] at hd
  subst hd
  rfl

/-- THE CLOSURE LOOP (`main(x) { create f = (x){ Ap(a) => main(a) }; lit n <- 5; invoke f Ap(n) }`; it never
terminates): for EVERY number `k` of steps of the positional machine the RV64 machine on the canonical lines of the
emitted routine passes through a statement boundary for each of the first `k` states — among them, in every round,
the boundary reached by the `JALR` of the `invoke` —, and the heap invariant holds at each of them -/
theorem C09_rv_cloLoop_every_boundary (k : Nat) (hk : k + 1 < 2 ^ 64) :
    ∃ ops c' pr e regs, (compile mockSym true Scc.X86.C13_cloLoopProg).run 0 = .ok ((ops, 1), c') ∧
      layout (canonLines [Code.COMMENT "actual code"] C09R_loopInstrs) = .ok pr ∧ pr.entry = some e ∧
      entryRegs [5] = some regs ∧
      ∃ X0, stepN pr {} 1 (initState regs e) = .inl X0 ∧
        BChain pr {} (fun st X =>
            BoundaryOf Scc.X86.C13_cloLoopProg true
              (keptOf (canonLines [Code.COMMENT "actual code"] C09R_loopInstrs)) ops {} st X ∧
            HeapInvAt X (ctxKinds st.ctx) (0x10000000 + 0x2000000))
          (statesOf Scc.X86.C13_cloLoopProg k Scc.X86.C13_cloS0) X0 := by
  have hcompX : ∃ c, (compile rvBackend true Scc.X86.C13_cloLoopProg).run 0 = .ok ((C09R_loopInstrs, 1), c) := by
    rw [← rvBackendF_eq]; exact ⟨_, rfl⟩
  obtain ⟨cX, hcompX⟩ := hcompX
  have e1 := Scc.X86.C13_cloLoop_consts.1
  exact C09_rv_every_prefix_all_size Scc.X86.C13_cloLoopProg [5] true C09R_loopInstrs [Code.COMMENT "actual code"] 1
    cX Scc.X86.C13_cloLoopMain (by decide) (linTypedCheck_sound Scc.X86.C13_cloLoopProg rfl) (by decide)
    C09R_loopProg_live hcompX C09R_loopInstrs_fits rfl (by decide) rfl 1 Scc.X86.C13_cloLoop_size k hk
    {} rfl (by decide) (by rw [e1]; decide) _ (fun c hc => by simp at hc; subst hc; rfl) (canonLines_codes _ _)
    (canonLines_hooks _ _)

end Scc.RV

#print axioms Scc.RV.runLoop_succ
#print axioms Scc.RV.runLoop_eq_stepN
#print axioms Scc.RV.C09_rv_boundary_all
#print axioms Scc.RV.C09_rv_programs_lines
#print axioms Scc.RV.C09_rv_programs
#print axioms Scc.RV.C09_rv_reachable_all
#print axioms Scc.RV.C09_rv_every_prefix_all_lines
#print axioms Scc.RV.C09_rv_every_prefix_all
#print axioms Scc.RV.C09_rv_every_prefix_all_size
#print axioms Scc.RV.C09_rv_cloLoop_every_boundary
#print axioms Scc.RV.C09_rv_heapMonitor_boundary_all
#print axioms Scc.RV.C09_rv_programs_text
#print axioms Scc.RV.C09_rv_every_prefix_all_size_text
#print axioms Scc.RV.C09_rv_monitor_observer
#print axioms Scc.RV.C09_rv_monitored_states
#print axioms Scc.RV.C09_rv_programs_monitored
