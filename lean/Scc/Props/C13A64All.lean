/-
  Scc.Props.C13A64All — property C13 (calling convention), DYNAMIC part, for ALL PROGRAMS — data types AND
  CLOSURES — on AArch64: the counterpart of Props/C13X86All.lean, and the extension of `C13_cc_never_fires_int`
  (Props/C13A64.lean: integer programs) to every program, over the closure-aware three-way relation `Scc.A64.Ref.K`
  of Props/C07A64Full.lean (Scc/A64/ConcK*.lean), with the side hypotheses of the composition DISCHARGED as in
  `C07_programs_text` (`C07_setup_of_checks`, Props/C09A64All.lean).

  THE MONITOR.  On the AArch64 SPEC machine (Scc/A64/Machine.lean) the calling-convention monitor is always on: the
  exit checks of `RET` (`cc-violation`: X30, SP, X19–X29 restored), `misaligned-call` (SP 16-aligned at `BL
  print…`) and `misaligned-sp` (SP 16-aligned at EVERY SP-based memory access: spill slots, the save sequences of
  `print_i64`, prologue and epilogue).  `CC.CCSafe r`: `r` is none of these reports.  What is proved is stronger:
  the run ends in NO fault at all.

  Why heap programs need Theorem A∘B (the remark in Props/C13A64.lean): a store through a register other than SP
  could reach the callee-save area; the relation `Ref.K.X3` carries `CC.Core` (SP at its boundary value, the save
  area holds the entry values of X19–X30) through every statement, the memory contracts keep the heap stores
  inside the heap region, and the indirect jump of `invoke` (`BR reg`) lands on a method of the routine by the
  closure invariant `XC` — possibly ahead of the statement boundary by `#ctx` hooks (`Tol`).

  PROVED (axioms propext, Classical.choice, Quot.sound):
  * `C13_a64_all_terminating`  every terminating run of the positional machine (hypotheses of `C07_programs_text`):
                               for EVERY machine fuel and EVERY heap-monitor setting the result of
                               `run (printProg routine)` is `outOfFuel`, `done v` or a report of the HEAP monitor
                               — never `cc-violation`, `misaligned-call`, `misaligned-sp`, `read-undefined …`.
  * `C13_a64_cc_never_fires_terminating`  hence `CCSafe`, and `C13_a64_allowed` with the heap monitor off.
  * `C13_a64_all_fuel` / `C13_a64_cc_never_fires_all`  RUNS THAT DO NOT TERMINATE INCLUDED (the positional machine
                               must not get stuck: no division by zero / overflow): for every machine fuel `fuel'`
                               with `fuel'·(M + 1) + |main| + 1 < 2^64` (`M = progMaxSize p`) the calling-convention
                               monitor never fires.  Heap: the footprint bound of C10 (`PeakAtMost Pk`, at no
                               statement boundary more than `Pk` blocks in use, and `64·(Pk + A + 2) ≤ heapBytes`,
                               `A = progMaxAlloc p`).  From PROGRESS (Scc/A64/ConcKProgress.lean): every `call` and
                               every `invoke` makes the machine execute an instruction (`B label` / `BR reg`; hooks
                               alone do not count), every other step moves to a smaller statement, and the
                               statement an `invoke` continues with — a clause of a closure VALUE — is a
                               sub-statement of a definition (`hered_step`).
  * `C13_a64_cc_never_fires_all_size`  the same with the heap hypothesis on the SOURCE PROGRAM: `valsFields st.env ≤
                               D` for every reachable state (fields of the object AND closure values held by the
                               variables) and `64·(D + A + 2) ≤ heapBytes`.
  * `…_lines`: the forms on `runProg (layout ls)` for ANY lines that are the routine, side hypotheses explicit.
  WHAT REMAINS of `C13_statement` (Props/C13A64.lean): machine fuel beyond `2^64 / (M + 1)`, runs of the
  positional machine that get stuck on a division (the machine faults with `div-by-zero` / `div-overflow`, which
  `C13_statement` permits, but the simulation says nothing about stuck steps), the hypotheses `LabelSafe` and
  `C07_a64Checks`, the sane machine configurations (`CfgCC`, heap base positive and 8-aligned, routine below 2^64,
  fewer than 2^18 items if the validator `wf` is on — `C14_a64_final`), and the peak / data-size hypothesis.
-/
import Scc.Props.C10A64All

namespace Scc.A64
open Scc.AxCut Scc.AxCut.Pos Scc.Backend Scc.Backend.Abs Scc.A64.Ref
open Scc.Props.C06Generic (Reachable CodeFits)
open Scc.Props.C14Generic (LabelSafe)
open Scc.A64.CC (CCSafe CfgCC cfgCC_default Lines hkOf)
open Scc.A64.Loader (hookVarsOf)
open Scc.X86.Ref.K (AllocLe progMaxAlloc allocLe_progMaxAlloc)
open Scc.X86.Conc (valsFields stmtSize progMaxSize stmtSize_le_progMaxSize)
open Scc.A64.ConcK (monOff)

/-- the outcomes `C13_statement` (Props/C13A64.lean) permits -/
def C13_a64_allowed : Res → Prop
  | .done _ | .outOfFuel => True
  | .fault why _ => why = "div-by-zero" ∨ why = "div-overflow"
  | _ => False

/-- the full statement for all programs and all monitor configurations (not proved in this generality: see the
header) -/
def C13_a64_all_statement : Prop :=
  ∀ (p : AxCut.Prog) (args : List Word) (hooks : Bool) (body routine : List Code) (nargs : Nat),
    LinTypedProg p → compileProg a64Backend p hooks 0 = .ok (body, nargs, routine) → args.length = nargs →
    ∀ (fuel : Nat) (cfg : MonCfg), cfg.heap = false →
      C13_a64_allowed (run (printProg routine) args fuel cfg).res

theorem C13_a64_safe_of_outcome {r : Res} {heap : Bool}
    (h : r = .outOfFuel ∨ (∃ v, r = .done v) ∨ ∃ what ln, heap = true ∧ r = .invFail what ln) :
    CCSafe r ∧ (heap = false → C13_a64_allowed r) := by
  rcases h with h | ⟨v, h⟩ | ⟨e, ln, hh, h⟩
  · rw [h]; exact ⟨trivial, fun _ => trivial⟩
  · rw [h]; exact ⟨trivial, fun _ => trivial⟩
  · rw [h]; exact ⟨trivial, fun h0 => by rw [hh] at h0; cases h0⟩

/-! ## terminating runs -/

/-- C13 FOR TERMINATING RUNS OF ALL PROGRAMS, on the text of the routine: under the hypotheses of
`C07_programs_text` (the heap monitor may be on), for EVERY amount of machine fuel the machine on the printed
routine ends in `outOfFuel`, in `done v`, or (heap monitor on) in a report of the heap monitor. -/
theorem C13_a64_all_terminating (p : AxCut.Prog) (args : List Word) (hooks : Bool) (body routine : List Code)
    (nargs : Nat)
    (hsafe : LabelSafe p = true) (htp : LinTypedProg p) (hchk : C07_a64Checks p = true)
    (hcompX : compileProg a64Backend p hooks 0 = .ok (body, nargs, routine))
    (fuel : Nat) (out : List (Bool × Word)) (v : Word) (hrun : Pos.run p args fuel = ⟨out, .done v⟩)
    (cfg : MonCfg) (H : CfgCC cfg.mem) (hwf : cfg.wf = true → routine.length < 262144)
    (hb8 : cfg.mem.heapBase % 8 = 0) (hb0 : 0 < cfg.mem.heapBase)
    (hbytes : 128 + 64 * 141 * fuel ≤ cfg.mem.heapBytes)
    (hfitX : cfg.mem.codeBase + 4 * ninstr routine < 2 ^ 64) (fuel' : Nat) :
    (run (printProg routine) args fuel' cfg).res = .outOfFuel ∨
      (∃ v, (run (printProg routine) args fuel' cfg).res = .done v) ∨
      ∃ what ln, cfg.heap = true ∧ (run (printProg routine) args fuel' cfg).res = .invFail what ln := by
  obtain ⟨hcap, hsize, hrange, hnames, d0, hd, hentry⟩ := C07_checks_facts hchk
  obtain ⟨ls, hparse, hl⟩ := C14A_routine_lines hrange hnames hcompX
  obtain ⟨f0, _, h2⟩ := C07_programs p args hooks body routine nargs d0 hsafe htp
    (C07_progOK_of_range hrange) (C07_mockFits_of_size htp hsize hooks) hcompX (labels_unique_a64 hsafe hcompX)
    hd hentry (cap280_of_check hcap (mem_of_head? hd) args) fuel out v hrun (monOff cfg) H rfl hb8 hb0 hbytes hfitX
    hookVarsOf ls hl
  rw [C09_run_eq_runProg hparse (C09_wf_ok hsafe htp hchk hcompX hwf)]
  exact ConcK.ccSafe_of_monOff (by
    rcases ConcK.runProg_res_of_done h2 fuel' with h | h
    · exact Or.inl h
    · exact Or.inr ⟨v, h⟩)

/-- C13 (b) FOR ALL PROGRAMS, terminating runs: the calling-convention monitor never fires — all machine fuel,
every setting of the heap monitor; with the heap monitor off the result is an outcome `C13_statement` permits -/
theorem C13_a64_cc_never_fires_terminating (p : AxCut.Prog) (args : List Word) (hooks : Bool)
    (body routine : List Code) (nargs : Nat)
    (hsafe : LabelSafe p = true) (htp : LinTypedProg p) (hchk : C07_a64Checks p = true)
    (hcompX : compileProg a64Backend p hooks 0 = .ok (body, nargs, routine))
    (fuel : Nat) (out : List (Bool × Word)) (v : Word) (hrun : Pos.run p args fuel = ⟨out, .done v⟩)
    (cfg : MonCfg) (H : CfgCC cfg.mem) (hwf : cfg.wf = true → routine.length < 262144)
    (hb8 : cfg.mem.heapBase % 8 = 0) (hb0 : 0 < cfg.mem.heapBase)
    (hbytes : 128 + 64 * 141 * fuel ≤ cfg.mem.heapBytes)
    (hfitX : cfg.mem.codeBase + 4 * ninstr routine < 2 ^ 64) (fuel' : Nat) :
    CCSafe (run (printProg routine) args fuel' cfg).res ∧
      (cfg.heap = false → C13_a64_allowed (run (printProg routine) args fuel' cfg).res) :=
  C13_a64_safe_of_outcome (C13_a64_all_terminating p args hooks body routine nargs hsafe htp hchk hcompX fuel out v
    hrun cfg H hwf hb8 hb0 hbytes hfitX fuel')

/-! ## every amount of machine fuel: runs that do not terminate -/

/-- the peak hypothesis does not look at the heap-monitor flag -/
theorem C13_peak_monOff {p : AxCut.Prog} {hooks : Bool} {routine : List Code} {ops : List MockOp} {cfg : MonCfg}
    {hk : Code → Bool} {P : Prog} {args : List Word} {Pk C : Nat}
    (h : ConcK.PeakAtMost p hooks routine ops cfg.mem hk P args Pk C) :
    ConcK.PeakAtMost p hooks routine ops (monOff cfg).mem hk P args Pk C := h

/-- C13 FOR ALL RUNS OF ALL PROGRAMS on the program laid out from ANY lines that are the routine, side hypotheses
explicit: whatever the machine fuel (below `2^64 / (M + 1)`), the machine ends in `outOfFuel` or in `done v` (or
in a report of the heap monitor when that is on) — never in `cc-violation`, `misaligned-call`, `misaligned-sp`,
`read-undefined …`, nor in any other fault. -/
theorem C13_a64_all_fuel_lines (p : AxCut.Prog) (args : List Word) (hooks : Bool) (body routine : List Code)
    (nargs : Nat) (d0 : Def) (ops : List MockOp) (c' : Nat)
    (hsafe : LabelSafe p = true) (htp : LinTypedProg p) (hprog : ∀ d ∈ p.types, d.xtors.length ≤ 1024)
    (hcompM : (compile mockSym hooks p).run 0 = .ok ((ops, nargs), c')) (hfit : CodeFits ops)
    (hcompX : compileProg a64Backend p hooks 0 = .ok (body, nargs, routine))
    (hnd : (labs routine).Nodup)
    (hd : p.defs.head? = some d0) (hentry : ∀ b ∈ d0.ctx, b.chi = .ext ∧ b.ty = .i64)
    (hlen : d0.ctx.length = args.length)
    (hcap : ∀ st, Reachable p ⟨d0.ctx, args.map .int, d0.body⟩ st → 2 * st.ctx.length ≤ 280)
    (hnostuck : ∀ fuel w, (Pos.run p args fuel).res ≠ .stuck w)
    (cfg : MonCfg) (H : CfgCC cfg.mem)
    (hb8 : cfg.mem.heapBase % 8 = 0) (hb0 : 0 < cfg.mem.heapBase)
    (Pk : Nat) (hbytes : 64 * (Pk + progMaxAlloc p + 2) ≤ cfg.mem.heapBytes)
    (hfitX : cfg.mem.codeBase + 4 * ninstr routine < 2 ^ 64)
    (hkv : String → Option (List (String × Kind))) (ls : List (Nat × PLine)) (hl : Lines hkv ls routine)
    (fuel' : Nat) (hf : fuel' * (progMaxSize p + 1) + stmtSize d0.body + 1 < 2 ^ 64)
    (hP : ConcK.PeakAtMost p hooks routine ops cfg.mem (hkOf hkv) (layout ls) args Pk
      (progMaxAlloc p * (fuel' * (progMaxSize p + 1) + stmtSize d0.body) + 1)) :
    (runProg (layout ls) args fuel' cfg).res = .outOfFuel ∨
      (∃ v, (runProg (layout ls) args fuel' cfg).res = .done v) ∨
      ∃ what ln, cfg.heap = true ∧ (runProg (layout ls) args fuel' cfg).res = .invFail what ln := by
  have hoff := ConcK.programs_all_fuel_gen p args hooks body routine nargs d0 ops c' hsafe htp hprog hcompM hfit
    hcompX hnd hd hentry hlen hcap hnostuck (monOff cfg) H rfl hb8 hb0 Pk (progMaxAlloc p) (progMaxSize p)
    (allocLe_progMaxAlloc p) (stmtSize_le_progMaxSize p) hbytes (Ref.K.holdsB_layout hl) hfitX fuel' hf
    (ConcK.peakHyp_of_peakAtMost (C13_peak_monOff hP))
  exact ConcK.ccSafe_of_monOff (by
    rcases hoff with h | ⟨v, _, _, h⟩
    · exact Or.inl h
    · exact Or.inr ⟨v, h⟩)

/-- C13 (b) FOR ALL PROGRAMS, ALL RUNS, on the lines of the routine -/
theorem C13_a64_cc_never_fires_all_lines (p : AxCut.Prog) (args : List Word) (hooks : Bool)
    (body routine : List Code) (nargs : Nat) (d0 : Def) (ops : List MockOp) (c' : Nat)
    (hsafe : LabelSafe p = true) (htp : LinTypedProg p) (hprog : ∀ d ∈ p.types, d.xtors.length ≤ 1024)
    (hcompM : (compile mockSym hooks p).run 0 = .ok ((ops, nargs), c')) (hfit : CodeFits ops)
    (hcompX : compileProg a64Backend p hooks 0 = .ok (body, nargs, routine))
    (hnd : (labs routine).Nodup)
    (hd : p.defs.head? = some d0) (hentry : ∀ b ∈ d0.ctx, b.chi = .ext ∧ b.ty = .i64)
    (hlen : d0.ctx.length = args.length)
    (hcap : ∀ st, Reachable p ⟨d0.ctx, args.map .int, d0.body⟩ st → 2 * st.ctx.length ≤ 280)
    (hnostuck : ∀ fuel w, (Pos.run p args fuel).res ≠ .stuck w)
    (cfg : MonCfg) (H : CfgCC cfg.mem)
    (hb8 : cfg.mem.heapBase % 8 = 0) (hb0 : 0 < cfg.mem.heapBase)
    (Pk : Nat) (hbytes : 64 * (Pk + progMaxAlloc p + 2) ≤ cfg.mem.heapBytes)
    (hfitX : cfg.mem.codeBase + 4 * ninstr routine < 2 ^ 64)
    (hkv : String → Option (List (String × Kind))) (ls : List (Nat × PLine)) (hl : Lines hkv ls routine)
    (fuel' : Nat) (hf : fuel' * (progMaxSize p + 1) + stmtSize d0.body + 1 < 2 ^ 64)
    (hP : ConcK.PeakAtMost p hooks routine ops cfg.mem (hkOf hkv) (layout ls) args Pk
      (progMaxAlloc p * (fuel' * (progMaxSize p + 1) + stmtSize d0.body) + 1)) :
    CCSafe (runProg (layout ls) args fuel' cfg).res ∧
      (cfg.heap = false → C13_a64_allowed (runProg (layout ls) args fuel' cfg).res) :=
  C13_a64_safe_of_outcome (C13_a64_all_fuel_lines p args hooks body routine nargs d0 ops c' hsafe htp hprog hcompM hfit
    hcompX hnd hd hentry hlen hcap hnostuck cfg H hb8 hb0 Pk hbytes hfitX hkv ls hl fuel' hf hP)

/-- C13 FOR ALL RUNS OF ALL PROGRAMS ON THE TEXT OF THE ROUTINE, side hypotheses discharged: for a label-safe,
linearly typed program that passes the checks `C07_a64Checks` and that the code generator compiles, started with
as many arguments as the first definition has parameters, whose run on the positional machine never gets stuck:
in every sane machine configuration whose heap holds the peak (`PeakAtMost Pk`, `64·(Pk + A + 2) ≤ heapBytes`)
the machine's entry point `run` on the printed routine ends, for every fuel below `2^64 / (M + 1)`, in
`outOfFuel`, in `done v`, or (heap monitor on) in a report of the heap monitor. -/
theorem C13_a64_all_fuel (p : AxCut.Prog) (args : List Word) (hooks : Bool) (body routine : List Code)
    (nargs : Nat) (d0 : Def)
    (hsafe : LabelSafe p = true) (htp : LinTypedProg p) (hchk : C07_a64Checks p = true)
    (hcompX : compileProg a64Backend p hooks 0 = .ok (body, nargs, routine))
    (hd : p.defs.head? = some d0) (hargs : args.length = nargs)
    (hnostuck : ∀ fuel w, (Pos.run p args fuel).res ≠ .stuck w)
    (cfg : MonCfg) (H : CfgCC cfg.mem) (hwf : cfg.wf = true → routine.length < 262144)
    (hb8 : cfg.mem.heapBase % 8 = 0) (hb0 : 0 < cfg.mem.heapBase)
    (Pk : Nat) (hbytes : 64 * (Pk + progMaxAlloc p + 2) ≤ cfg.mem.heapBytes)
    (hfitX : cfg.mem.codeBase + 4 * ninstr routine < 2 ^ 64)
    (fuel' : Nat) (hf : fuel' * (progMaxSize p + 1) + stmtSize d0.body + 1 < 2 ^ 64)
    (hP : ∀ ops c' ls, (compile mockSym hooks p).run 0 = .ok ((ops, nargs), c') →
      parseText (printProg routine) = .ok ls →
      ConcK.PeakAtMost p hooks routine ops cfg.mem (hkOf hookVarsOf) (layout ls) args Pk
        (progMaxAlloc p * (fuel' * (progMaxSize p + 1) + stmtSize d0.body) + 1)) :
    (run (printProg routine) args fuel' cfg).res = .outOfFuel ∨
      (∃ v, (run (printProg routine) args fuel' cfg).res = .done v) ∨
      ∃ what ln, cfg.heap = true ∧ (run (printProg routine) args fuel' cfg).res = .invFail what ln := by
  obtain ⟨ops, c', ls, S⟩ := C07_setup_of_checks p args hooks body routine nargs d0 hsafe htp hchk hcompX hd
  rw [C09_run_eq_runProg S.parse (C09_wf_ok hsafe htp hchk hcompX hwf)]
  exact C13_a64_all_fuel_lines p args hooks body routine nargs d0 ops c' hsafe htp S.progOK S.compM S.fit hcompX
    S.nd hd S.entry (by rw [← S.nargs, hargs]) S.cap hnostuck cfg H hb8 hb0 Pk hbytes hfitX hookVarsOf ls S.lines
    fuel' hf (hP ops c' ls S.compM S.parse)

/-- C13 (b) FOR ALL PROGRAMS, ALL RUNS, ON THE TEXT: THE CALLING-CONVENTION MONITOR NEVER FIRES — neither the exit
checks of `RET`, nor the alignment check at a call, nor the alignment check at ANY SP-based memory access —,
whatever the machine fuel (below `2^64 / (M + 1)`) and the setting of the heap monitor; with the heap monitor off
the result is an outcome `C13_statement` permits -/
theorem C13_a64_cc_never_fires_all (p : AxCut.Prog) (args : List Word) (hooks : Bool) (body routine : List Code)
    (nargs : Nat) (d0 : Def)
    (hsafe : LabelSafe p = true) (htp : LinTypedProg p) (hchk : C07_a64Checks p = true)
    (hcompX : compileProg a64Backend p hooks 0 = .ok (body, nargs, routine))
    (hd : p.defs.head? = some d0) (hargs : args.length = nargs)
    (hnostuck : ∀ fuel w, (Pos.run p args fuel).res ≠ .stuck w)
    (cfg : MonCfg) (H : CfgCC cfg.mem) (hwf : cfg.wf = true → routine.length < 262144)
    (hb8 : cfg.mem.heapBase % 8 = 0) (hb0 : 0 < cfg.mem.heapBase)
    (Pk : Nat) (hbytes : 64 * (Pk + progMaxAlloc p + 2) ≤ cfg.mem.heapBytes)
    (hfitX : cfg.mem.codeBase + 4 * ninstr routine < 2 ^ 64)
    (fuel' : Nat) (hf : fuel' * (progMaxSize p + 1) + stmtSize d0.body + 1 < 2 ^ 64)
    (hP : ∀ ops c' ls, (compile mockSym hooks p).run 0 = .ok ((ops, nargs), c') →
      parseText (printProg routine) = .ok ls →
      ConcK.PeakAtMost p hooks routine ops cfg.mem (hkOf hookVarsOf) (layout ls) args Pk
        (progMaxAlloc p * (fuel' * (progMaxSize p + 1) + stmtSize d0.body) + 1)) :
    CCSafe (run (printProg routine) args fuel' cfg).res ∧
      (cfg.heap = false → C13_a64_allowed (run (printProg routine) args fuel' cfg).res) :=
  C13_a64_safe_of_outcome (C13_a64_all_fuel p args hooks body routine nargs d0 hsafe htp hchk hcompX hd hargs hnostuck
    cfg H hwf hb8 hb0 Pk hbytes hfitX fuel' hf hP)

/-- C13 (b) FOR ALL PROGRAMS, ALL RUNS, heap hypothesis on the SOURCE PROGRAM: if the object and closure values
held by the variables of the positional machine never have more than `D` fields (over all reachable states),
then in a heap of `64·(D + A + 2)` bytes the machine on the printed routine never reports a violation of the
calling convention, whatever the fuel (below `2^64 / (M + 1)`) and the setting of the heap monitor. -/
theorem C13_a64_cc_never_fires_all_size (p : AxCut.Prog) (args : List Word) (hooks : Bool)
    (body routine : List Code) (nargs : Nat) (d0 : Def)
    (hsafe : LabelSafe p = true) (htp : LinTypedProg p) (hchk : C07_a64Checks p = true)
    (hcompX : compileProg a64Backend p hooks 0 = .ok (body, nargs, routine))
    (hd : p.defs.head? = some d0) (hargs : args.length = nargs)
    (hnostuck : ∀ fuel w, (Pos.run p args fuel).res ≠ .stuck w)
    (D : Nat) (hD : ∀ st, Reachable p ⟨d0.ctx, args.map .int, d0.body⟩ st → valsFields st.env ≤ D)
    (cfg : MonCfg) (H : CfgCC cfg.mem) (hwf : cfg.wf = true → routine.length < 262144)
    (hb8 : cfg.mem.heapBase % 8 = 0) (hb0 : 0 < cfg.mem.heapBase)
    (hbytes : 64 * (D + progMaxAlloc p + 2) ≤ cfg.mem.heapBytes)
    (hfitX : cfg.mem.codeBase + 4 * ninstr routine < 2 ^ 64)
    (fuel' : Nat) (hf : fuel' * (progMaxSize p + 1) + stmtSize d0.body + 1 < 2 ^ 64) :
    CCSafe (run (printProg routine) args fuel' cfg).res ∧
      (cfg.heap = false → C13_a64_allowed (run (printProg routine) args fuel' cfg).res) := by
  obtain ⟨ops, c', ls, S⟩ := C07_setup_of_checks p args hooks body routine nargs d0 hsafe htp hchk hcompX hd
  rw [C09_run_eq_runProg S.parse (C09_wf_ok hsafe htp hchk hcompX hwf)]
  have hoff := (ConcK.programs_dsize_all p args hooks body routine nargs d0 ops c' hsafe htp S.progOK S.compM S.fit
    hcompX S.nd hd S.entry (by rw [← S.nargs, hargs]) S.cap hnostuck D hD (monOff cfg) H rfl hb8 hb0
    (progMaxAlloc p) (progMaxSize p) (allocLe_progMaxAlloc p) (stmtSize_le_progMaxSize p) hbytes
    (Ref.K.holdsB_layout S.lines) hfitX fuel' hf).1
  exact C13_a64_safe_of_outcome (ConcK.ccSafe_of_monOff (by
    rcases hoff with h | ⟨v, _, _, h⟩
    · exact Or.inl h
    · exact Or.inr ⟨v, h⟩))

/-! ### non-vacuity: the closure program of Props/C07A64Full.lean (a single-method closure invoked by `BR reg`,
a two-method closure invoked through its jump table, a closure captured by a closure, moved by `subst`) -/

set_option maxRecDepth 100000 in
/-- every hypothesis of `C13_a64_cc_never_fires_terminating` holds for the closure program started with x = 37,
heap monitor ON -/
example (fuel' : Nat) : CCSafe (run (printProg C07_cloRoutine) [37] fuel' { heap := true }).res := by
  obtain ⟨body, nargs, hcomp⟩ := C07_cloProg_compiles
  have hrun : Pos.run C07_cloProg [37] 20 = ⟨[(true, 42)], .done 42⟩ := by decide
  exact (C13_a64_cc_never_fires_terminating C07_cloProg [37] true body C07_cloRoutine nargs
    (by decide) (linTypedCheck_sound C07_cloProg rfl) C07_cloProg_checks hcomp
    20 _ _ hrun { heap := true } cfgCC_default (fun h => nomatch h) (by decide) (by decide) (by decide) C07_cloRoutine_fits fuel').1

set_option maxRecDepth 100000 in
/-- every hypothesis of `C13_a64_cc_never_fires_all_size` holds for the closure program started with x = 37 (`D = 2`:
at no state do the variables hold more than two fields of closure data — `g` captures `f`, `f` captures `x`):
for EVERY fuel below 2^58 the calling-convention monitor does not fire -/
example (fuel' : Nat) (hf : fuel' < 2 ^ 58) : CCSafe (run (printProg C07_cloRoutine) [37] fuel' {}).res ∧
    (({} : MonCfg).heap = false → C13_a64_allowed (run (printProg C07_cloRoutine) [37] fuel' {}).res) := by
  obtain ⟨body, nargs, hcomp⟩ := C07_cloProg_compiles
  have hrun : Pos.run C07_cloProg [37] 20 = ⟨[(true, 42)], .done 42⟩ := by decide
  obtain ⟨e1, e2, e3⟩ := C07_cloProg_consts
  obtain ⟨hnostuck, _⟩ := C10_done_unique hrun
  exact C13_a64_cc_never_fires_all_size C07_cloProg [37] true body C07_cloRoutine nargs C07_cloMain
    (by decide) (linTypedCheck_sound C07_cloProg rfl) C07_cloProg_checks hcomp rfl (C07_cloProg_nargs hcomp) hnostuck 2
    (C10_dataSize_of_run C07_cloProg 20 _ 2 (by decide) (by decide))
    {} cfgCC_default (fun h => nomatch h) (by decide) (by decide) (by rw [e1]; decide) C07_cloRoutine_fits
    fuel' (by rw [e2, e3]; omega)

/-- THE CLOSURE LOOP NEVER VIOLATES THE CALLING CONVENTION: the machine on the TEXT of the routine of the closure
loop (Props/C09A64All.lean), started with x = 5 in the default configuration: for EVERY fuel below 2^59 the
calling-convention monitor does not fire — no `cc-violation`, no `misaligned-call`, no `misaligned-sp` at any of
the SP-based accesses — and the result is an allowed outcome; the program does not terminate (it allocates the
environment of a closure, invokes the closure through `BR reg`, frees the environment, and calls itself,
forever) -/
theorem C13A_cloLoop_never_fires (fuel' : Nat) (hf : fuel' < 2 ^ 59) :
    CCSafe (run (printProg C13A_cloLoopRoutine) [5] fuel' {}).res ∧
    (({} : MonCfg).heap = false → C13_a64_allowed (run (printProg C13A_cloLoopRoutine) [5] fuel' {}).res) := by
  obtain ⟨body, nargs, hcomp⟩ := C13A_cloLoop_compiles
  obtain ⟨e1, e2, e3⟩ := C13A_cloLoop_consts
  exact C13_a64_cc_never_fires_all_size C13A_cloLoopProg [5] true body C13A_cloLoopRoutine nargs C13A_cloLoopMain
    (by decide) (linTypedCheck_sound C13A_cloLoopProg rfl) C13A_cloLoopProg_checks hcomp rfl (C13A_cloLoop_nargs hcomp)
    C13A_cloLoop_nostuck 1 C13A_cloLoop_size
    {} cfgCC_default (fun h => nomatch h) (by decide) (by decide) (by rw [e1]; decide) C13A_cloLoopRoutine_fits
    fuel' (by rw [e2, e3]; omega)

set_option maxRecDepth 100000 in
/-- every hypothesis of `C13_a64_cc_never_fires_all` holds for the closure loop with the trivial peak
(`Pk = A·(fuel'·(M + 1) + |main|) + 1`, which the default heap of 32 MiB holds for `fuel' = 1000`) -/
example : CCSafe (run (printProg C13A_cloLoopRoutine) [5] 1000 {}).res := by
  obtain ⟨body, nargs, hcomp⟩ := C13A_cloLoop_compiles
  obtain ⟨e1, e2, e3⟩ := C13A_cloLoop_consts
  exact (C13_a64_cc_never_fires_all C13A_cloLoopProg [5] true body C13A_cloLoopRoutine nargs C13A_cloLoopMain
    (by decide) (linTypedCheck_sound C13A_cloLoopProg rfl) C13A_cloLoopProg_checks hcomp rfl (C13A_cloLoop_nargs hcomp)
    C13A_cloLoop_nostuck {} cfgCC_default (fun h => nomatch h) (by decide) (by decide)
    (progMaxAlloc C13A_cloLoopProg * (1000 * (progMaxSize C13A_cloLoopProg + 1) + stmtSize C13A_cloLoopMain.body) + 1)
    (by rw [e1, e2, e3]; decide) C13A_cloLoopRoutine_fits 1000 (by rw [e2, e3]; decide)
    (fun _ _ _ _ _ => C10_peak_trivial_all _ _ _ _ _ _ _ _ _)).1

set_option maxRecDepth 100000 in
/-- … also with the heap monitor AND the validator `wfCheck` ON (the printed routine passes the validator:
`C14_a64_final`) -/
theorem C13A_cloLoop_never_fires_mon (fuel' : Nat) (hf : fuel' < 2 ^ 59) :
    CCSafe (run (printProg C13A_cloLoopRoutine) [5] fuel' { heap := true, wf := true }).res := by
  obtain ⟨body, nargs, hcomp⟩ := C13A_cloLoop_compiles
  obtain ⟨e1, e2, e3⟩ := C13A_cloLoop_consts
  exact (C13_a64_cc_never_fires_all_size C13A_cloLoopProg [5] true body C13A_cloLoopRoutine nargs C13A_cloLoopMain
    (by decide) (linTypedCheck_sound C13A_cloLoopProg rfl) C13A_cloLoopProg_checks hcomp rfl (C13A_cloLoop_nargs hcomp)
    C13A_cloLoop_nostuck 1 C13A_cloLoop_size
    { heap := true, wf := true } cfgCC_default (fun _ => by decide) (by decide) (by decide) (by rw [e1]; decide)
    C13A_cloLoopRoutine_fits fuel' (by rw [e2, e3]; omega)).1

end Scc.A64

#print axioms Scc.A64.C13_a64_all_terminating
#print axioms Scc.A64.C13_a64_cc_never_fires_terminating
#print axioms Scc.A64.C13_a64_all_fuel_lines
#print axioms Scc.A64.C13_a64_cc_never_fires_all_lines
#print axioms Scc.A64.C13_a64_all_fuel
#print axioms Scc.A64.C13_a64_cc_never_fires_all
#print axioms Scc.A64.C13_a64_cc_never_fires_all_size
#print axioms Scc.A64.C13A_cloLoop_never_fires
#print axioms Scc.A64.C13A_cloLoop_never_fires_mon
