/-
  Scc.Props.C09A64All — property C09 (heap consistency) ON CONCRETE AArch64 EXECUTIONS OF ALL PROGRAMS — data
  types AND CLOSURES: the AArch64 counterpart of Props/C09X86All.lean, over the closure-aware three-way relation
  `Scc.A64.Ref.K` of Props/C07A64Full.lean (Scc/A64/ConcK*.lean), with the side hypotheses of the composition
  discharged as in `C07_programs_text` (`C07_setup_of_checks`).

  C09 (fixed text): "At every statement boundary of every execution of generated code, on every backend,
  each heap block below the allocation frontier is in exactly one state: reachable from the live variables,
  on the immediately reusable free list, on the deferred free list, or waiting beneath a deferred block; and
  the count stored in each reachable block equals the number of references to it from live variables and
  from fields of reachable or deferred blocks, minus one. …"

  THE PREDICATE is `ConcK.HeapInvAt c σ kinds limit` (Scc/A64/ConcKInv.lean): the predicate of the executable heap
  monitor `heapMonitor` (Scc/A64/Machine.lean) on the raw machine state — the roots are read by the monitor's own
  `rootOf` from the first temporaries of the variables that are not `ext` (`ConcK.heapMonitor_roots`), HEAP and
  FREE are X0 and X1, the memory is the machine's heap — with the decision procedure `invCheckFn` replaced by what
  it decides, `Scc.Heap.InvW`.  A closure is a heap object like a constructor object: its variable is not `ext`,
  so its pointer temporary (the environment block) is a root; its word part (a code address) is not looked at.

  THE STATEMENT BOUNDARIES.  A configuration of the run loop is `ConcK.MS` (state, item index, trace);
  `ConcK.StepsN P c n X Y`: `n` iterations of `runLoop` lead from `X` to `Y` without fault (with the heap monitor
  off these ARE the iterations of the run loop: `C09_run_passes`).  `ConcK.BoundaryOf … st X`: the state `X.σ` is
  related by `Ref.K.Rel3` (closure invariant `XC` included) to the positional state `st` at a position `kp` of the
  routine, the trace is that of the abstract machine, and the program counter is the item of `kp` OR AHEAD OF IT BY
  `#ctx` HOOKS (`Ref.K.Tol`): the `BR reg` of an `invoke` of a single-method closure enters the program at the
  item of the last label before the first instruction behind the method label, so hooks between the method label
  and that label are skipped (Props/C07A64Full.lean, `C07_hookProg`).  Registers, stack, heap and trace are those
  of the boundary.  `ConcK.BChain`: the machine passes through such configurations IN ORDER.

  PROVED (no `sorry`; axioms propext, Classical.choice, Quot.sound):
  * `C09_a64_boundary_all`       every boundary configuration satisfies `HeapInvAt` for the kinds of the positional
                                 state's context and `limit = heapBase + heapBytes`.
  * `C09_a64_programs`           under the hypotheses of `C07_programs_text` (label-safe, linearly typed,
                                 `C07_a64Checks`, compiled; a terminating run; `CfgCC`; heap `128 + 64·141·fuel`):
                                 the printed routine parses (`ls`), and the machine on `layout ls`, started at
                                 `asm_main`, passes through a boundary configuration for EVERY state
                                 `statesOf p fuel st0` of the positional run, in order, and each of them satisfies
                                 `HeapInvAt`.  `C09_a64_programs_lines`: the same with the side hypotheses
                                 explicit, for any lines that are the routine; `C09_a64_reachable_all`: for every
                                 `Reachable` state.
  * `C09_a64_every_prefix_all`   NO TERMINATION HYPOTHESIS: for ANY number `fuel` of steps of the positional
                                 machine (a prefix of a possibly non-terminating run) the machine passes through a
                                 boundary for every state of the prefix and the invariant holds at each; room: the
                                 footprint bound of C10 (`ConcK.PeakAtMost Pk`, `64·(Pk + A + 2) ≤ heapBytes`,
                                 `A = progMaxAlloc p`; trivial for `Pk = A·fuel + 1`).
                                 `C09_a64_every_prefix_all_lines`: side hypotheses explicit.
  * `C09_a64_every_prefix_all_size`  the same with the room hypothesis on the SOURCE PROGRAM: `valsFields st.env ≤
                                 D` for every reachable state (the object and closure values held by the variables
                                 have at most `D` fields) and `64·(D + A + 2) ≤ heapBytes`.
  * `C09_a64_heapMonitor_boundary_all`  the executable check `heapMonitor c X.σ vars` returns `.ok (blocks below
                                 the frontier)` at every boundary configuration, for a hook listing variables of
                                 the kinds of the positional state, inside the monitor's window (completeness of
                                 `invCheckFn`).
  * `C09_run_passes`             with the monitor `heap` off (`wf` off, or on and the text passes `wfCheck` —
                                 `C09_wf_ok` from `C14_a64_final`), `run (printProg routine)` IS the run loop
                                 on `layout ls` from `asm_main`, and after the `n` iterations of `StepsN` it is in
                                 the configuration reached (so the chains above are chains of states of `run`).
  WHAT REMAINS of the monitor statement (`heapMonitor` never reports): the executable check `invCheckFn` inside the
  monitor's window (a fact about the write history), the kinds a hook lists against the kinds of the positional
  state, and the states strictly between two boundaries — as for x86-64 (Props/C09X86Mon.lean); plus the hypotheses
  `LabelSafe`, `C07_a64Checks`, the sane machine configurations (`CfgCC`, heap base positive and 8-aligned, the
  routine below 2^64) and the room hypothesis.
  `progMaxAlloc`, `valsFields`, `ctxKinds`, `statesOf` are statements about AxCut programs only; they are those of
  Scc/X86/ConcKStep.lean, ConcData.lean, ConcInv.lean (backend-independent).
-/
import Scc.Props.C07A64Full
import Scc.Props.C14A64Final
import Scc.A64.ConcKAllFuel

namespace Scc.A64
open Scc.AxCut Scc.AxCut.Pos Scc.Backend Scc.Backend.Abs Scc.A64.Ref
open Scc.Heap (InvW)
open Scc.Props.C06Generic (Reachable CodeFits statesOf stopsWithin reachable_mem_statesOf)
open Scc.Props.C14Generic (LabelSafe)
open Scc.A64.CC (CfgCC cfgCC_default Lines hkOf)
open Scc.A64.Loader (hookVarsOf)
open Scc.X86.Ref.K (AllocLe progMaxAlloc allocLe_progMaxAlloc)
open Scc.X86.Conc (ctxKinds valsFields)
open Scc.A64.ConcK (MS StepsN BChain BoundaryOf HeapInvAt HeapShapeAt initMS)

/-! ## the side hypotheses of the composition, from the checks -/

/-- what `LabelSafe`, `LinTypedProg`, the checks `C07_a64Checks` and the success of the AArch64 code generator
give: every side hypothesis of the run theorems, and the lines the printed routine parses to -/
structure C07_Setup (p : AxCut.Prog) (args : List Word) (hooks : Bool) (routine : List Code) (nargs : Nat)
    (d0 : Def) (ops : List MockOp) (c' : Nat) (ls : List (Nat × PLine)) : Prop where
  progOK : Ref.K.ProgOK p
  compM : (compile mockSym hooks p).run 0 = .ok ((ops, nargs), c')
  fit : CodeFits ops
  nd : (labs routine).Nodup
  mem : d0 ∈ p.defs
  entry : ∀ b ∈ d0.ctx, b.chi = .ext ∧ b.ty = .i64
  nargs : nargs = d0.ctx.length
  cap : ∀ st, Reachable p ⟨d0.ctx, args.map .int, d0.body⟩ st → 2 * st.ctx.length ≤ 280
  parse : parseText (printProg routine) = .ok ls
  lines : Lines hookVarsOf ls routine

/-- THE SIDE HYPOTHESES ARE DISCHARGED (as in `C07_programs_text`) -/
theorem C07_setup_of_checks (p : AxCut.Prog) (args : List Word) (hooks : Bool) (body routine : List Code)
    (nargs : Nat) (d0 : Def)
    (hsafe : LabelSafe p = true) (htp : LinTypedProg p) (hchk : C07_a64Checks p = true)
    (hcompX : compileProg a64Backend p hooks 0 = .ok (body, nargs, routine))
    (hd : p.defs.head? = some d0) :
    ∃ ops c' ls, C07_Setup p args hooks routine nargs d0 ops c' ls := by
  obtain ⟨hcap, hsize, hrange, hnames, d0', hd', hentry⟩ := C07_checks_facts hchk
  rw [hd] at hd'
  injection hd' with hd'
  subst hd'
  have hmem := mem_of_head? hd
  have hne : p.defs ≠ [] := fun e => by rw [e] at hmem; cases hmem
  obtain ⟨ops, nargsM, c', hcompM⟩ := mock_compile_ok hooks p htp hne 0
  obtain ⟨c1, hcompA, _⟩ := compileProg_ok hcompX
  obtain ⟨_, _, _, _, _, _, hn2⟩ := Ref.K.compile_a64_entry hcompA hd
  obtain ⟨_, hn1⟩ := compile_mock_entry hcompM hd
  have hnM : nargsM = nargs := by rw [hn1, hn2]
  subst hnM
  obtain ⟨ls, hparse, hl⟩ := C14A_routine_lines hrange hnames hcompX
  exact ⟨ops, c', ls, C07_progOK_of_range hrange, hcompM, codeFits_of_size htp hsize hcompM,
    labels_unique_a64 hsafe hcompX, hmem, hentry, hn1, cap280_of_check hcap hmem args, hparse, hl⟩

/-! ## `run` on the text is the run loop on the laid-out lines -/

/-- with the monitor `wf` off, or on a text the validator accepts, `run` on a text that parses is `runProg` on its
layout -/
theorem C09_run_eq_runProg {text : String} {ls : List (Nat × PLine)} (hparse : parseText text = .ok ls)
    {cfg : MonCfg} (hwf : cfg.wf = true → wfCheck text = .ok ()) (args : List Word) (fuel : Nat) :
    run text args fuel cfg = runProg (layout ls) args fuel cfg := by
  unfold run
  cases hw : cfg.wf with
  | false => simp only [hparse, Bool.false_eq_true, if_false]
  | true => simp only [hparse, if_true, hwf hw]

/-- THE VALIDATOR ACCEPTS THE PRINTED ROUTINE (`C14_a64_final`, Props/C14A64Final.lean): with the monitor `wf` on,
a routine of fewer than 2^18 items passes `wfCheck` -/
theorem C09_wf_ok {p : AxCut.Prog} {hooks : Bool} {body routine : List Code} {nargs : Nat}
    (hsafe : LabelSafe p = true) (htp : LinTypedProg p) (hchk : C07_a64Checks p = true)
    (hcompX : compileProg a64Backend p hooks 0 = .ok (body, nargs, routine))
    {cfg : MonCfg} (hwf : cfg.wf = true → routine.length < 262144) :
    cfg.wf = true → wfCheck (printProg routine) = .ok () :=
  fun h => C14_a64_final p hooks 0 body routine nargs hsafe htp hchk hcompX (hwf h)

/-- THE CONFIGURATIONS OF `StepsN` ARE CONFIGURATIONS OF `run`: with the monitor `heap` off (and `wf` off or
passed), the machine's entry point `run` on the printed routine, given `n` more units of fuel than a run `StepsN … n` from `asm_main` to
`X` takes, continues from `X` (the record of executed instructions `steps'` is bookkeeping) -/
theorem C09_run_passes {routine : List Code} {ls : List (Nat × PLine)}
    (hparse : parseText (printProg routine) = .ok ls) {cfg : MonCfg}
    (hwf : cfg.wf = true → wfCheck (printProg routine) = .ok ())
    (hheap : cfg.heap = false) {args : List Word}
    (hmain : (layout ls).labels["asm_main"]? = some (pcOf (hkOf hookVarsOf) routine 2)) (hargs : args.length ≤ 7)
    {n : Nat} {X : MS} (h : StepsN (layout ls) cfg.mem n (initMS cfg.mem (hkOf hookVarsOf) routine args) X) :
    ∃ steps', ∀ fuel, run (printProg routine) args (n + fuel) cfg =
      runLoop (layout ls) cfg fuel (X.mach steps' 0) := by
  obtain ⟨s', hs'⟩ := ConcK.runProg_stepsN hheap hmain hargs h
  exact ⟨s', fun fuel => by rw [C09_run_eq_runProg hparse hwf]; exact hs' fuel⟩

/-! ## every boundary -/

/-- EVERY STATEMENT BOUNDARY, all programs: a configuration whose state is — the program counter up to `#ctx`
hooks — related by the closure-aware three-way relation to a state of the positional machine satisfies the heap
monitor's predicate for the roots the monitor reads from the first temporaries of the non-`ext` variables (objects
AND closures) of that state's context. -/
theorem C09_a64_boundary_all {p : AxCut.Prog} {hooks : Bool} {routine : List Code} {ops : List MockOp}
    {c : MemCfg} (H : CfgCC c) {hk : Code → Bool} {P : Prog} {st : Pos.State} {X : MS}
    (B : BoundaryOf p hooks routine ops c hk P st X) :
    HeapInvAt c X.σ (ctxKinds st.ctx) (c.heapBase + c.heapBytes) :=
  ConcK.heapInvAt_of_boundary H B

/-- the roots of `HeapInvAt` are the roots the machine's heap monitor reads at a hook that lists variables of
these kinds -/
theorem C09_a64_monitor_roots (c : MemCfg) (σ : State) (vars : List (String × Kind)) :
    heapMonitor.roots c σ vars 0 [] = (ConcK.rootIdx (ConcK.hookKinds vars)).mapM (rootOf c σ) :=
  ConcK.heapMonitor_roots c σ vars

/-- THE EXECUTABLE HEAP CHECK SUCCEEDS AT EVERY STATEMENT BOUNDARY (inside the monitor's window), all programs: the
machine's `heapMonitor`, called at a boundary configuration with a hook that lists variables of the kinds of the
positional state's context, returns `.ok` (the number of blocks below the frontier) — provided the frontier lies in
the window the monitor inspects (up to 8 blocks above the highest heap word written) -/
theorem C09_a64_heapMonitor_boundary_all {p : AxCut.Prog} {hooks : Bool} {routine : List Code} {ops : List MockOp}
    {c : MemCfg} (H : CfgCC c) {hk : Code → Bool} {P : Prog} {st : Pos.State} {X : MS}
    (B : BoundaryOf p hooks routine ops c hk P st X) :
    ∃ below inUse, HeapShapeAt c X.σ below inUse ∧
      ∀ vars, ConcK.hookKinds vars = ctxKinds st.ctx →
        64 * below + 64 ≤ (X.σ.maxHeap + 63) / 64 * 64 + 8 * 64 → heapMonitor c X.σ vars = .ok below :=
  ConcK.heapMonitor_boundary H B

/-! ## terminating runs -/

/-- C09 FOR CONCRETE AArch64 EXECUTIONS OF ALL PROGRAMS, on the program laid out from ANY lines that are the
routine, side hypotheses explicit: along a terminating run, the machine started at `asm_main` passes — in order,
without fault — through a statement-boundary configuration for EVERY state of the run of the positional machine,
and at each of them the machine's heap memory, HEAP, FREE and the pointer temporaries of the live variables satisfy
the invariant. -/
theorem C09_a64_programs_lines (p : AxCut.Prog) (args : List Word) (hooks : Bool) (body routine : List Code)
    (nargs : Nat) (d0 : Def) (ops : List MockOp) (c' : Nat)
    (hsafe : LabelSafe p = true) (htp : LinTypedProg p) (hprog : ∀ d ∈ p.types, d.xtors.length ≤ 1024)
    (hcompM : (compile mockSym hooks p).run 0 = .ok ((ops, nargs), c')) (hfit : CodeFits ops)
    (hcompX : compileProg a64Backend p hooks 0 = .ok (body, nargs, routine))
    (hnd : (labs routine).Nodup)
    (hd : p.defs.head? = some d0) (hentry : ∀ b ∈ d0.ctx, b.chi = .ext ∧ b.ty = .i64)
    (hcap : ∀ st, Reachable p ⟨d0.ctx, args.map .int, d0.body⟩ st → 2 * st.ctx.length ≤ 280)
    (fuel : Nat) (out : List (Bool × Word)) (v : Word) (hfuel : fuel + 1 < 2 ^ 64)
    (hrun : Pos.run p args fuel = ⟨out, .done v⟩)
    (c : MemCfg) (H : CfgCC c)
    (hb8 : c.heapBase % 8 = 0) (hb0 : 0 < c.heapBase)
    (hbytes : 128 + 64 * 141 * fuel ≤ c.heapBytes)
    (hfitX : c.codeBase + 4 * ninstr routine < 2 ^ 64)
    (hkv : String → Option (List (String × Kind))) (ls : List (Nat × PLine)) (hl : Lines hkv ls routine) :
    (layout ls).labels["asm_main"]? = some (pcOf (hkOf hkv) routine 2) ∧ args.length ≤ 7 ∧
    (∃ n0 X0, StepsN (layout ls) c n0 (initMS c (hkOf hkv) routine args) X0 ∧
      BChain (layout ls) c
        (fun st X => BoundaryOf p hooks routine ops c (hkOf hkv) (layout ls) st X ∧
          HeapInvAt c X.σ (ctxKinds st.ctx) (c.heapBase + c.heapBytes))
        (statesOf p fuel ⟨d0.ctx, args.map .int, d0.body⟩) X0) ∧
    ∀ st, Reachable p ⟨d0.ctx, args.map .int, d0.body⟩ st →
      ∃ n X, StepsN (layout ls) c n (initMS c (hkOf hkv) routine args) X ∧
        BoundaryOf p hooks routine ops c (hkOf hkv) (layout ls) st X ∧
        HeapInvAt c X.σ (ctxKinds st.ctx) (c.heapBase + c.heapBytes) := by
  obtain ⟨hmain, hargs, n0, X0, h0, hch, hstop⟩ := ConcK.programs_chain p args hooks body routine nargs d0 ops c' hsafe
    htp hprog hcompM hfit hcompX hnd hd hentry hcap fuel out v hfuel hrun c H hb8 hb0 hbytes
    (Ref.K.holdsB_layout hl) hfitX
  refine ⟨hmain, hargs,
    ⟨n0, X0, h0, BChain.mono (fun st X B => ⟨B, ConcK.heapInvAt_of_boundary H B⟩) hch⟩, ?_⟩
  intro st hr
  obtain ⟨n, X, hn, B⟩ := BChain.prepend h0 hch st (reachable_mem_statesOf p fuel _ st hstop hr)
  exact ⟨n, X, hn, B, ConcK.heapInvAt_of_boundary H B⟩

/-- C09 FOR CONCRETE AArch64 EXECUTIONS OF ALL PROGRAMS, ON THE TEXT OF THE ROUTINE, side hypotheses discharged:
under the hypotheses of `C07_programs_text` the text of the routine parses (`ls`: what the machine's own parser
reads; the program `run` executes is `layout ls`, entered at `asm_main`), and the machine passes — in order,
without fault — through a statement-boundary configuration for EVERY state of the terminating run of the
positional machine; the heap invariant of C09 holds at each of them. -/
theorem C09_a64_programs (p : AxCut.Prog) (args : List Word) (hooks : Bool) (body routine : List Code)
    (nargs : Nat) (d0 : Def)
    (hsafe : LabelSafe p = true) (htp : LinTypedProg p) (hchk : C07_a64Checks p = true)
    (hcompX : compileProg a64Backend p hooks 0 = .ok (body, nargs, routine))
    (hd : p.defs.head? = some d0)
    (fuel : Nat) (out : List (Bool × Word)) (v : Word) (hrun : Pos.run p args fuel = ⟨out, .done v⟩)
    (cfg : MonCfg) (H : CfgCC cfg.mem)
    (hb8 : cfg.mem.heapBase % 8 = 0) (hb0 : 0 < cfg.mem.heapBase)
    (hbytes : 128 + 64 * 141 * fuel ≤ cfg.mem.heapBytes)
    (hfitX : cfg.mem.codeBase + 4 * ninstr routine < 2 ^ 64) :
    ∃ ops c' ls, (compile mockSym hooks p).run 0 = .ok ((ops, nargs), c') ∧
      parseText (printProg routine) = .ok ls ∧
      (layout ls).labels["asm_main"]? = some (pcOf (hkOf hookVarsOf) routine 2) ∧ args.length ≤ 7 ∧
      ∃ n0 X0, StepsN (layout ls) cfg.mem n0 (initMS cfg.mem (hkOf hookVarsOf) routine args) X0 ∧
        BChain (layout ls) cfg.mem
          (fun st X => BoundaryOf p hooks routine ops cfg.mem (hkOf hookVarsOf) (layout ls) st X ∧
            HeapInvAt cfg.mem X.σ (ctxKinds st.ctx) (cfg.mem.heapBase + cfg.mem.heapBytes))
          (statesOf p fuel ⟨d0.ctx, args.map .int, d0.body⟩) X0 := by
  obtain ⟨ops, c', ls, S⟩ := C07_setup_of_checks p args hooks body routine nargs d0 hsafe htp hchk hcompX hd
  obtain ⟨hmain, hargs, hch, _⟩ := C09_a64_programs_lines p args hooks body routine nargs d0 ops c' hsafe htp S.progOK
    S.compM S.fit hcompX S.nd hd S.entry S.cap fuel out v (fuel_lt_of_heap H hbytes) hrun cfg.mem H hb8 hb0
    hbytes hfitX hookVarsOf ls S.lines
  exact ⟨ops, c', ls, S.compM, S.parse, hmain, hargs, hch⟩

/-- … in particular for EVERY state the positional machine reaches: the machine's run on the text of the routine
contains a boundary configuration for it, and the invariant holds there -/
theorem C09_a64_reachable_all (p : AxCut.Prog) (args : List Word) (hooks : Bool) (body routine : List Code)
    (nargs : Nat) (d0 : Def)
    (hsafe : LabelSafe p = true) (htp : LinTypedProg p) (hchk : C07_a64Checks p = true)
    (hcompX : compileProg a64Backend p hooks 0 = .ok (body, nargs, routine))
    (hd : p.defs.head? = some d0)
    (fuel : Nat) (out : List (Bool × Word)) (v : Word) (hrun : Pos.run p args fuel = ⟨out, .done v⟩)
    (cfg : MonCfg) (H : CfgCC cfg.mem)
    (hb8 : cfg.mem.heapBase % 8 = 0) (hb0 : 0 < cfg.mem.heapBase)
    (hbytes : 128 + 64 * 141 * fuel ≤ cfg.mem.heapBytes)
    (hfitX : cfg.mem.codeBase + 4 * ninstr routine < 2 ^ 64) :
    ∃ ops c' ls, (compile mockSym hooks p).run 0 = .ok ((ops, nargs), c') ∧
      parseText (printProg routine) = .ok ls ∧
      ∀ st, Reachable p ⟨d0.ctx, args.map .int, d0.body⟩ st →
        ∃ n X, StepsN (layout ls) cfg.mem n (initMS cfg.mem (hkOf hookVarsOf) routine args) X ∧
          BoundaryOf p hooks routine ops cfg.mem (hkOf hookVarsOf) (layout ls) st X ∧
          HeapInvAt cfg.mem X.σ (ctxKinds st.ctx) (cfg.mem.heapBase + cfg.mem.heapBytes) := by
  obtain ⟨ops, c', ls, S⟩ := C07_setup_of_checks p args hooks body routine nargs d0 hsafe htp hchk hcompX hd
  obtain ⟨_, _, _, hreach⟩ := C09_a64_programs_lines p args hooks body routine nargs d0 ops c' hsafe htp S.progOK
    S.compM S.fit hcompX S.nd hd S.entry S.cap fuel out v (fuel_lt_of_heap H hbytes) hrun cfg.mem H hb8 hb0
    hbytes hfitX hookVarsOf ls S.lines
  exact ⟨ops, c', ls, S.compM, S.parse, hreach⟩

/-! ## every prefix of every run -/

/-- C09 FOR EVERY PREFIX OF EVERY RUN (terminating or not) OF ALL PROGRAMS, on the program laid out from any
lines that are the routine, side hypotheses explicit: for ANY number `fuel` of steps of the positional machine,
the machine started at `asm_main` passes — in order, without fault — through a statement-boundary configuration
for every state the positional machine goes through, and the invariant of C09 holds at each of them.  Room: the
footprint bound of C10. -/
theorem C09_a64_every_prefix_all_lines (p : AxCut.Prog) (args : List Word) (hooks : Bool)
    (body routine : List Code) (nargs : Nat) (d0 : Def) (ops : List MockOp) (c' : Nat)
    (hsafe : LabelSafe p = true) (htp : LinTypedProg p) (hprog : ∀ d ∈ p.types, d.xtors.length ≤ 1024)
    (hcompM : (compile mockSym hooks p).run 0 = .ok ((ops, nargs), c')) (hfit : CodeFits ops)
    (hcompX : compileProg a64Backend p hooks 0 = .ok (body, nargs, routine))
    (hnd : (labs routine).Nodup)
    (hd : p.defs.head? = some d0) (hentry : ∀ b ∈ d0.ctx, b.chi = .ext ∧ b.ty = .i64)
    (hlen : d0.ctx.length = args.length)
    (hcap : ∀ st, Reachable p ⟨d0.ctx, args.map .int, d0.body⟩ st → 2 * st.ctx.length ≤ 280)
    (fuel : Nat) (hfuel : fuel + 1 < 2 ^ 64)
    (c : MemCfg) (H : CfgCC c)
    (hb8 : c.heapBase % 8 = 0) (hb0 : 0 < c.heapBase)
    (Pk : Nat) (hbytes : 64 * (Pk + progMaxAlloc p + 2) ≤ c.heapBytes)
    (hfitX : c.codeBase + 4 * ninstr routine < 2 ^ 64)
    (hkv : String → Option (List (String × Kind))) (ls : List (Nat × PLine)) (hl : Lines hkv ls routine)
    (hP : ConcK.PeakAtMost p hooks routine ops c (hkOf hkv) (layout ls) args Pk (progMaxAlloc p * fuel + 1)) :
    (layout ls).labels["asm_main"]? = some (pcOf (hkOf hkv) routine 2) ∧ args.length ≤ 7 ∧
    ∃ n0 X0, StepsN (layout ls) c n0 (initMS c (hkOf hkv) routine args) X0 ∧
      BChain (layout ls) c
        (fun st X => BoundaryOf p hooks routine ops c (hkOf hkv) (layout ls) st X ∧
          HeapInvAt c X.σ (ctxKinds st.ctx) (c.heapBase + c.heapBytes))
        (statesOf p fuel ⟨d0.ctx, args.map .int, d0.body⟩) X0 := by
  obtain ⟨hmain, hargs, n0, X0, h0, hch⟩ := ConcK.programs_prefix_gen p args hooks body routine nargs d0 ops c' hsafe
    htp hprog hcompM hfit hcompX hnd hd hentry hlen hcap fuel hfuel c H hb8 hb0 Pk (progMaxAlloc p)
    (allocLe_progMaxAlloc p) hbytes (Ref.K.holdsB_layout hl) hfitX (ConcK.peakHyp_of_peakAtMost hP)
  exact ⟨hmain, hargs, n0, X0, h0, BChain.mono (fun st X ⟨cfgA, hs, kp, T, ho, R, _⟩ =>
    ⟨⟨cfgA, hs, kp, T, ho, R⟩, ConcK.heapInvAt_of_boundary H ⟨cfgA, hs, kp, T, ho, R⟩⟩) hch⟩

/-- C09 FOR EVERY PREFIX OF EVERY RUN OF ALL PROGRAMS, ON THE TEXT OF THE ROUTINE, side hypotheses discharged
(hypotheses of `C07_programs_text` without the terminating run; `args.length = nargs`; the peak hypothesis for the
mock code and the lines of the text) -/
theorem C09_a64_every_prefix_all (p : AxCut.Prog) (args : List Word) (hooks : Bool) (body routine : List Code)
    (nargs : Nat) (d0 : Def)
    (hsafe : LabelSafe p = true) (htp : LinTypedProg p) (hchk : C07_a64Checks p = true)
    (hcompX : compileProg a64Backend p hooks 0 = .ok (body, nargs, routine))
    (hd : p.defs.head? = some d0) (hargs : args.length = nargs)
    (fuel : Nat) (hfuel : fuel + 1 < 2 ^ 64)
    (cfg : MonCfg) (H : CfgCC cfg.mem)
    (hb8 : cfg.mem.heapBase % 8 = 0) (hb0 : 0 < cfg.mem.heapBase)
    (Pk : Nat) (hbytes : 64 * (Pk + progMaxAlloc p + 2) ≤ cfg.mem.heapBytes)
    (hfitX : cfg.mem.codeBase + 4 * ninstr routine < 2 ^ 64)
    (hP : ∀ ops c' ls, (compile mockSym hooks p).run 0 = .ok ((ops, nargs), c') →
      parseText (printProg routine) = .ok ls →
      ConcK.PeakAtMost p hooks routine ops cfg.mem (hkOf hookVarsOf) (layout ls) args Pk
        (progMaxAlloc p * fuel + 1)) :
    ∃ ops c' ls, (compile mockSym hooks p).run 0 = .ok ((ops, nargs), c') ∧
      parseText (printProg routine) = .ok ls ∧
      (layout ls).labels["asm_main"]? = some (pcOf (hkOf hookVarsOf) routine 2) ∧ args.length ≤ 7 ∧
      ∃ n0 X0, StepsN (layout ls) cfg.mem n0 (initMS cfg.mem (hkOf hookVarsOf) routine args) X0 ∧
        BChain (layout ls) cfg.mem
          (fun st X => BoundaryOf p hooks routine ops cfg.mem (hkOf hookVarsOf) (layout ls) st X ∧
            HeapInvAt cfg.mem X.σ (ctxKinds st.ctx) (cfg.mem.heapBase + cfg.mem.heapBytes))
          (statesOf p fuel ⟨d0.ctx, args.map .int, d0.body⟩) X0 := by
  obtain ⟨ops, c', ls, S⟩ := C07_setup_of_checks p args hooks body routine nargs d0 hsafe htp hchk hcompX hd
  exact ⟨ops, c', ls, S.compM, S.parse,
    C09_a64_every_prefix_all_lines p args hooks body routine nargs d0 ops c' hsafe htp S.progOK S.compM S.fit hcompX
      S.nd hd S.entry (by rw [← S.nargs, hargs]) S.cap fuel hfuel cfg.mem H hb8 hb0 Pk hbytes hfitX hookVarsOf ls
      S.lines (hP ops c' ls S.compM S.parse)⟩

/-- C09 FOR EVERY PREFIX OF EVERY RUN OF ALL PROGRAMS, with the room hypothesis on the SOURCE PROGRAM: if the
object and closure values held by the variables of the positional machine never have more than `D` fields (over
all reachable states), a heap of `64·(D + A + 2)` bytes is enough, and at every statement boundary of every
prefix of the run — terminating or not — the machine's heap satisfies the invariant of C09. -/
theorem C09_a64_every_prefix_all_size (p : AxCut.Prog) (args : List Word) (hooks : Bool)
    (body routine : List Code) (nargs : Nat) (d0 : Def)
    (hsafe : LabelSafe p = true) (htp : LinTypedProg p) (hchk : C07_a64Checks p = true)
    (hcompX : compileProg a64Backend p hooks 0 = .ok (body, nargs, routine))
    (hd : p.defs.head? = some d0) (hargs : args.length = nargs)
    (D : Nat) (hD : ∀ st, Reachable p ⟨d0.ctx, args.map .int, d0.body⟩ st → valsFields st.env ≤ D)
    (fuel : Nat) (hfuel : fuel + 1 < 2 ^ 64)
    (cfg : MonCfg) (H : CfgCC cfg.mem)
    (hb8 : cfg.mem.heapBase % 8 = 0) (hb0 : 0 < cfg.mem.heapBase)
    (hbytes : 64 * (D + progMaxAlloc p + 2) ≤ cfg.mem.heapBytes)
    (hfitX : cfg.mem.codeBase + 4 * ninstr routine < 2 ^ 64) :
    ∃ ops c' ls, (compile mockSym hooks p).run 0 = .ok ((ops, nargs), c') ∧
      parseText (printProg routine) = .ok ls ∧
      (layout ls).labels["asm_main"]? = some (pcOf (hkOf hookVarsOf) routine 2) ∧ args.length ≤ 7 ∧
      ∃ n0 X0, StepsN (layout ls) cfg.mem n0 (initMS cfg.mem (hkOf hookVarsOf) routine args) X0 ∧
        BChain (layout ls) cfg.mem
          (fun st X => BoundaryOf p hooks routine ops cfg.mem (hkOf hookVarsOf) (layout ls) st X ∧
            HeapInvAt cfg.mem X.σ (ctxKinds st.ctx) (cfg.mem.heapBase + cfg.mem.heapBytes))
          (statesOf p fuel ⟨d0.ctx, args.map .int, d0.body⟩) X0 := by
  obtain ⟨ops, c', ls, S⟩ := C07_setup_of_checks p args hooks body routine nargs d0 hsafe htp hchk hcompX hd
  obtain ⟨hmain, hargs', n0, X0, h0, hch⟩ := ConcK.programs_prefix_gen p args hooks body routine nargs d0 ops c' hsafe
    htp S.progOK S.compM S.fit hcompX S.nd hd S.entry (by rw [← S.nargs, hargs]) S.cap fuel hfuel cfg.mem H hb8 hb0 D
    (progMaxAlloc p) (allocLe_progMaxAlloc p) hbytes (Ref.K.holdsB_layout S.lines) hfitX (ConcK.peakHyp_of_data hD)
  exact ⟨ops, c', ls, S.compM, S.parse, hmain, hargs', n0, X0, h0,
    BChain.mono (fun st X ⟨cfgA, hs, kp, T, ho, R, _⟩ =>
      ⟨⟨cfgA, hs, kp, T, ho, R⟩, ConcK.heapInvAt_of_boundary H ⟨cfgA, hs, kp, T, ho, R⟩⟩) hch⟩

/-! ### non-vacuity: the closure programs of Props/C07A64Full.lean -/

set_option maxRecDepth 100000 in
/-- every hypothesis of `C09_a64_programs` holds for the closure program started with x = 37 (a closure `f`
capturing `x`, a two-method closure `g` capturing `f`, `g` invoked through its jump table, `f` — loaded from the
environment of `g` — by `BR reg`): the machine on the text of the routine passes through a boundary configuration
for each state of the positional run, and the heap invariant holds at each -/
example : ∃ nargs ops c' ls, (compile mockSym true C07_cloProg).run 0 = .ok ((ops, nargs), c') ∧
    parseText (printProg C07_cloRoutine) = .ok ls ∧
    (layout ls).labels["asm_main"]? = some (pcOf (hkOf hookVarsOf) C07_cloRoutine 2) ∧
    ∃ n0 X0, StepsN (layout ls) defaultMem n0 (initMS defaultMem (hkOf hookVarsOf) C07_cloRoutine [37]) X0 ∧
      BChain (layout ls) defaultMem
        (fun st X => BoundaryOf C07_cloProg true C07_cloRoutine ops defaultMem (hkOf hookVarsOf) (layout ls) st X ∧
          HeapInvAt defaultMem X.σ (ctxKinds st.ctx) (0x10000000 + 0x2000000))
        (statesOf C07_cloProg 20 ⟨C07_cloMain.ctx, [.int 37], C07_cloMain.body⟩) X0 := by
  have hok : ∃ b n, compileProg a64Backend C07_cloProg true 0 = .ok (b, n, C07_cloRoutine) := ⟨_, _, rfl⟩
  obtain ⟨body, nargs, hcomp⟩ := hok
  have hrun : Pos.run C07_cloProg [37] 20 = ⟨[(true, 42)], .done 42⟩ := by decide
  obtain ⟨ops, c', ls, h1, h2, h3, _, h5⟩ := C09_a64_programs C07_cloProg [37] true body C07_cloRoutine nargs
    C07_cloMain (by decide) (linTypedCheck_sound C07_cloProg rfl) C07_cloProg_checks hcomp rfl
    20 _ _ hrun {} cfgCC_default (by decide) (by decide) (by decide) (by decide)
  exact ⟨nargs, ops, c', ls, h1, h2, h3, h5⟩

set_option maxRecDepth 100000 in
/-- … and for the program whose single-method closure is entered by a `BR reg` that SKIPS the `#ctx` hook of the
statement boundary (`C07_hookProg`: the boundary of `switch w` is never visited by the machine; the configuration
of the chain for that state is the boundary up to `Tol`) -/
example : ∃ nargs ops c' ls, (compile mockSym true C07_hookProg).run 0 = .ok ((ops, nargs), c') ∧
    parseText (printProg C07_hookRoutine) = .ok ls ∧
    ∃ n0 X0, StepsN (layout ls) defaultMem n0 (initMS defaultMem (hkOf hookVarsOf) C07_hookRoutine [7]) X0 ∧
      BChain (layout ls) defaultMem
        (fun st X => BoundaryOf C07_hookProg true C07_hookRoutine ops defaultMem (hkOf hookVarsOf) (layout ls) st X ∧
          HeapInvAt defaultMem X.σ (ctxKinds st.ctx) (0x10000000 + 0x2000000))
        (statesOf C07_hookProg 20 ⟨C07_hookMain.ctx, [.int 7], C07_hookMain.body⟩) X0 := by
  have hok : ∃ b n, compileProg a64Backend C07_hookProg true 0 = .ok (b, n, C07_hookRoutine) := ⟨_, _, rfl⟩
  obtain ⟨body, nargs, hcomp⟩ := hok
  have hrun : Pos.run C07_hookProg [7] 20 = ⟨[(true, 42)], .done 42⟩ := by decide
  obtain ⟨ops, c', ls, h1, h2, _, _, h5⟩ := C09_a64_programs C07_hookProg [7] true body C07_hookRoutine nargs
    C07_hookMain (by decide) (linTypedCheck_sound C07_hookProg rfl) C07_hookProg_checks hcomp rfl
    20 _ _ hrun {} cfgCC_default (by decide) (by decide) (by decide) (by decide)
  exact ⟨nargs, ops, c', ls, h1, h2, h5⟩

set_option maxRecDepth 100000 in
/-- `C09_a64_every_prefix_all` on the closure program with the trivial peak `Pk = A·fuel + 1` (`A = 1`): the first 5
steps of the run (a proper prefix: up to the second `create`) -/
example : ∃ nargs ops c' ls, (compile mockSym true C07_cloProg).run 0 = .ok ((ops, nargs), c') ∧
    parseText (printProg C07_cloRoutine) = .ok ls ∧
    ∃ n0 X0, StepsN (layout ls) defaultMem n0 (initMS defaultMem (hkOf hookVarsOf) C07_cloRoutine [37]) X0 ∧
      BChain (layout ls) defaultMem
        (fun st X => BoundaryOf C07_cloProg true C07_cloRoutine ops defaultMem (hkOf hookVarsOf) (layout ls) st X ∧
          HeapInvAt defaultMem X.σ (ctxKinds st.ctx) (0x10000000 + 0x2000000))
        (statesOf C07_cloProg 5 ⟨C07_cloMain.ctx, [.int 37], C07_cloMain.body⟩) X0 := by
  have hok : ∃ b n, compileProg a64Backend C07_cloProg true 0 = .ok (b, n, C07_cloRoutine) := ⟨_, _, rfl⟩
  obtain ⟨body, nargs, hcomp⟩ := hok
  have e1 : progMaxAlloc C07_cloProg = 1 := by decide
  have hnargs : ([37] : List Word).length = nargs := by
    obtain ⟨c1, hcompA, _⟩ := compileProg_ok hcomp
    obtain ⟨_, _, _, _, _, _, hn2⟩ := Ref.K.compile_a64_entry hcompA (d0 := C07_cloMain) rfl
    rw [hn2]; rfl
  obtain ⟨ops, c', ls, h1, h2, _, _, h5⟩ := C09_a64_every_prefix_all C07_cloProg [37] true body C07_cloRoutine nargs
    C07_cloMain (by decide) (linTypedCheck_sound C07_cloProg rfl) C07_cloProg_checks hcomp rfl hnargs 5 (by decide)
    {} cfgCC_default (by decide) (by decide) (progMaxAlloc C07_cloProg * 5 + 1) (by rw [e1]; decide) (by decide)
    (fun _ _ _ _ _ => ConcK.peakAtMost_trivial _ _ _ _ _ _ _ _ _)
  exact ⟨nargs, ops, c', ls, h1, h2, h5⟩

/-! ### non-vacuity of the theorems for runs that do not terminate: a loop that creates a closure and invokes it
FOREVER (the program of Props/C13X86All.lean, here with the declarations of Props/C07A64Full.lean) -/

/-- main(x) { create f : Fun = (x){ Ap(a) => subst (y := a); main(y) }; lit n <- 5;
      subst (n := n)(f := f); invoke f Ap(n) } -/
def C13A_cloLoopMain : Def :=
  { name := ⟨"main", 0⟩, ctx := [⟨⟨"x", 1⟩, .ext, .i64⟩],
    body := .create ⟨"f", 2⟩ C07_tFun (some [⟨⟨"x", 1⟩, .ext, .i64⟩])
      (.cons ⟨"Ap", 0⟩ [⟨⟨"a", 3⟩, .ext, .i64⟩]
        (.subst [(⟨⟨"y", 4⟩, .ext, .i64⟩, ⟨"a", 3⟩)] (.call ⟨"main", 0⟩ [⟨⟨"y", 4⟩, .ext, .i64⟩])) .nil)
      (.lit ⟨"n", 5⟩ 5
        (.subst [(⟨⟨"n", 6⟩, .ext, .i64⟩, ⟨"n", 5⟩), (⟨⟨"f", 7⟩, .cns, C07_tFun⟩, ⟨"f", 2⟩)]
          (.invoke ⟨"f", 7⟩ ⟨"Ap", 0⟩ C07_tFun [⟨⟨"n", 6⟩, .ext, .i64⟩])) none) none none }

def C13A_cloLoopProg : AxCut.Prog := { defs := [C13A_cloLoopMain], types := [C07_funDecl], maxId := 204 }

def C13A_cloLoopRoutine : List Code :=
  match compileProg a64Backend C13A_cloLoopProg true 0 with
  | .ok (_, _, r) => r
  | .error _ => []

/-- the clauses of the closure -/
def C13A_cloLoopClauses : Clauses :=
  .cons ⟨"Ap", 0⟩ [⟨⟨"a", 3⟩, .ext, .i64⟩]
    (.subst [(⟨⟨"y", 4⟩, .ext, .i64⟩, ⟨"a", 3⟩)] (.call ⟨"main", 0⟩ [⟨⟨"y", 4⟩, .ext, .i64⟩])) .nil

def C13A_cloLoopClo : Pos.Value := .clo [⟨⟨"x", 1⟩, .ext, .i64⟩] [.int 5] C13A_cloLoopClauses

/-- the six states of the loop (started with x = 5) -/
def C13A_cloS0 : Pos.State := ⟨C13A_cloLoopMain.ctx, [.int 5], C13A_cloLoopMain.body⟩
def C13A_cloS1 : Pos.State :=
  ⟨[⟨⟨"f", 2⟩, .cns, C07_tFun⟩], [C13A_cloLoopClo],
   .lit ⟨"n", 5⟩ 5
     (.subst [(⟨⟨"n", 6⟩, .ext, .i64⟩, ⟨"n", 5⟩), (⟨⟨"f", 7⟩, .cns, C07_tFun⟩, ⟨"f", 2⟩)]
       (.invoke ⟨"f", 7⟩ ⟨"Ap", 0⟩ C07_tFun [⟨⟨"n", 6⟩, .ext, .i64⟩])) none⟩
def C13A_cloS2 : Pos.State :=
  ⟨[⟨⟨"f", 2⟩, .cns, C07_tFun⟩, ⟨⟨"n", 5⟩, .ext, .i64⟩], [C13A_cloLoopClo, .int 5],
   .subst [(⟨⟨"n", 6⟩, .ext, .i64⟩, ⟨"n", 5⟩), (⟨⟨"f", 7⟩, .cns, C07_tFun⟩, ⟨"f", 2⟩)]
     (.invoke ⟨"f", 7⟩ ⟨"Ap", 0⟩ C07_tFun [⟨⟨"n", 6⟩, .ext, .i64⟩])⟩
def C13A_cloS3 : Pos.State :=
  ⟨[⟨⟨"n", 6⟩, .ext, .i64⟩, ⟨⟨"f", 7⟩, .cns, C07_tFun⟩], [.int 5, C13A_cloLoopClo],
   .invoke ⟨"f", 7⟩ ⟨"Ap", 0⟩ C07_tFun [⟨⟨"n", 6⟩, .ext, .i64⟩]⟩
def C13A_cloS4 : Pos.State :=
  ⟨[⟨⟨"a", 3⟩, .ext, .i64⟩, ⟨⟨"x", 1⟩, .ext, .i64⟩], [.int 5, .int 5],
   .subst [(⟨⟨"y", 4⟩, .ext, .i64⟩, ⟨"a", 3⟩)] (.call ⟨"main", 0⟩ [⟨⟨"y", 4⟩, .ext, .i64⟩])⟩
def C13A_cloS5 : Pos.State :=
  ⟨[⟨⟨"y", 4⟩, .ext, .i64⟩], [.int 5], .call ⟨"main", 0⟩ [⟨⟨"y", 4⟩, .ext, .i64⟩]⟩

theorem C13A_cloLoop_step0 : Pos.step C13A_cloLoopProg C13A_cloS0 = .next C13A_cloS1 none := by rfl
theorem C13A_cloLoop_step1 : Pos.step C13A_cloLoopProg C13A_cloS1 = .next C13A_cloS2 none := by rfl
theorem C13A_cloLoop_step2 : Pos.step C13A_cloLoopProg C13A_cloS2 = .next C13A_cloS3 none := by rfl
theorem C13A_cloLoop_step3 : Pos.step C13A_cloLoopProg C13A_cloS3 = .next C13A_cloS4 none := by rfl
theorem C13A_cloLoop_step4 : Pos.step C13A_cloLoopProg C13A_cloS4 = .next C13A_cloS5 none := by rfl
theorem C13A_cloLoop_step5 : Pos.step C13A_cloLoopProg C13A_cloS5 = .next C13A_cloS0 none := by rfl

theorem C13A_cloLoop_reachable (st : Pos.State) (h : Reachable C13A_cloLoopProg C13A_cloS0 st) :
    st = C13A_cloS0 ∨ st = C13A_cloS1 ∨ st = C13A_cloS2 ∨ st = C13A_cloS3 ∨ st = C13A_cloS4 ∨ st = C13A_cloS5 := by
  induction h with
  | refl => exact Or.inl rfl
  | step _ hs ih =>
    rcases ih with rfl | rfl | rfl | rfl | rfl | rfl
    · rw [C13A_cloLoop_step0] at hs; injection hs with e; exact Or.inr (Or.inl e.symm)
    · rw [C13A_cloLoop_step1] at hs; injection hs with e; exact Or.inr (Or.inr (Or.inl e.symm))
    · rw [C13A_cloLoop_step2] at hs; injection hs with e; exact Or.inr (Or.inr (Or.inr (Or.inl e.symm)))
    · rw [C13A_cloLoop_step3] at hs; injection hs with e
      exact Or.inr (Or.inr (Or.inr (Or.inr (Or.inl e.symm))))
    · rw [C13A_cloLoop_step4] at hs; injection hs with e
      exact Or.inr (Or.inr (Or.inr (Or.inr (Or.inr e.symm))))
    · rw [C13A_cloLoop_step5] at hs; injection hs with e; exact Or.inl e.symm

/-- the loop never ends and never gets stuck -/
theorem C13A_cloLoop_runs : ∀ (fuel : Nat) (acc : List (Bool × Word)),
    (Pos.runState C13A_cloLoopProg fuel C13A_cloS0 acc).res = .outOfFuel ∧
    (Pos.runState C13A_cloLoopProg fuel C13A_cloS1 acc).res = .outOfFuel ∧
    (Pos.runState C13A_cloLoopProg fuel C13A_cloS2 acc).res = .outOfFuel ∧
    (Pos.runState C13A_cloLoopProg fuel C13A_cloS3 acc).res = .outOfFuel ∧
    (Pos.runState C13A_cloLoopProg fuel C13A_cloS4 acc).res = .outOfFuel ∧
    (Pos.runState C13A_cloLoopProg fuel C13A_cloS5 acc).res = .outOfFuel
  | 0, _ => ⟨rfl, rfl, rfl, rfl, rfl, rfl⟩
  | fuel + 1, acc => by
    obtain ⟨h0, h1, h2, h3, h4, h5⟩ := C13A_cloLoop_runs fuel acc
    refine ⟨?_, ?_, ?_, ?_, ?_, ?_⟩
    · simp only [Pos.runState, C13A_cloLoop_step0]; exact h1
    · simp only [Pos.runState, C13A_cloLoop_step1]; exact h2
    · simp only [Pos.runState, C13A_cloLoop_step2]; exact h3
    · simp only [Pos.runState, C13A_cloLoop_step3]; exact h4
    · simp only [Pos.runState, C13A_cloLoop_step4]; exact h5
    · simp only [Pos.runState, C13A_cloLoop_step5]; exact h0

theorem C13A_cloLoop_nostuck (fuel : Nat) (w : Pos.Why) :
    (Pos.run C13A_cloLoopProg [5] fuel).res ≠ .stuck w := by
  intro h
  have hrs : Pos.run C13A_cloLoopProg [5] fuel = Pos.runState C13A_cloLoopProg fuel C13A_cloS0 [] :=
    Scc.X86.Conc.run_eq_runState rfl rfl fuel
  rw [hrs, (C13A_cloLoop_runs fuel []).1] at h
  cases h

/-- at no state of the loop do the variables hold more than one field of closure data -/
theorem C13A_cloLoop_size (st : Pos.State) (h : Reachable C13A_cloLoopProg C13A_cloS0 st) :
    valsFields st.env ≤ 1 := by
  rcases C13A_cloLoop_reachable st h with rfl | rfl | rfl | rfl | rfl | rfl <;> decide

set_option maxRecDepth 100000 in
theorem C13A_cloLoopProg_checks : C07_a64Checks C13A_cloLoopProg = true := by decide +kernel

theorem C13A_cloLoop_compiles : ∃ b n, compileProg a64Backend C13A_cloLoopProg true 0 = .ok (b, n, C13A_cloLoopRoutine) :=
  ⟨_, _, rfl⟩

set_option maxRecDepth 100000 in
theorem C13A_cloLoopRoutine_fits : defaultMem.codeBase + 4 * ninstr C13A_cloLoopRoutine < 2 ^ 64 := by decide

theorem C13A_cloLoop_consts : progMaxAlloc C13A_cloLoopProg = 1 ∧
    Scc.X86.Conc.progMaxSize C13A_cloLoopProg = 7 ∧ Scc.X86.Conc.stmtSize C13A_cloLoopMain.body = 7 := by decide

/-- THE CLOSURE LOOP (it never terminates): for EVERY number `k` of steps of the positional machine the machine on
the text of the routine passes through a statement boundary for each of the first `k` states — among them, in
every round, the boundary reached by the `BR reg` of the `invoke` —, and the heap invariant holds at each of them -/
theorem C09A_cloLoop_every_boundary (k : Nat) (hk : k + 1 < 2 ^ 64) :
    ∃ nargs ops c' ls, (compile mockSym true C13A_cloLoopProg).run 0 = .ok ((ops, nargs), c') ∧
      parseText (printProg C13A_cloLoopRoutine) = .ok ls ∧
      ∃ n0 X0, StepsN (layout ls) defaultMem n0 (initMS defaultMem (hkOf hookVarsOf) C13A_cloLoopRoutine [5]) X0 ∧
        BChain (layout ls) defaultMem
          (fun st X => BoundaryOf C13A_cloLoopProg true C13A_cloLoopRoutine ops defaultMem (hkOf hookVarsOf)
              (layout ls) st X ∧ HeapInvAt defaultMem X.σ (ctxKinds st.ctx) (0x10000000 + 0x2000000))
          (statesOf C13A_cloLoopProg k C13A_cloS0) X0 := by
  obtain ⟨body, nargs, hcomp⟩ := C13A_cloLoop_compiles
  have e1 := C13A_cloLoop_consts.1
  have hnargs : ([5] : List Word).length = nargs := by
    obtain ⟨c1, hcompA, _⟩ := compileProg_ok hcomp
    obtain ⟨_, _, _, _, _, _, hn2⟩ := Ref.K.compile_a64_entry hcompA (d0 := C13A_cloLoopMain) rfl
    rw [hn2]; rfl
  obtain ⟨ops, c', ls, h1, h2, _, _, h5⟩ := C09_a64_every_prefix_all_size C13A_cloLoopProg [5] true body
    C13A_cloLoopRoutine nargs C13A_cloLoopMain (by decide) (linTypedCheck_sound C13A_cloLoopProg rfl)
    C13A_cloLoopProg_checks hcomp rfl hnargs 1 C13A_cloLoop_size k hk
    {} cfgCC_default (by decide) (by decide) (by rw [e1]; decide) C13A_cloLoopRoutine_fits
  exact ⟨nargs, ops, c', ls, h1, h2, h5⟩

end Scc.A64

#print axioms Scc.A64.C07_setup_of_checks
#print axioms Scc.A64.C09_run_passes
#print axioms Scc.A64.C09_a64_boundary_all
#print axioms Scc.A64.C09_a64_monitor_roots
#print axioms Scc.A64.C09_a64_heapMonitor_boundary_all
#print axioms Scc.A64.C09_a64_programs_lines
#print axioms Scc.A64.C09_a64_programs
#print axioms Scc.A64.C09_a64_reachable_all
#print axioms Scc.A64.C09_a64_every_prefix_all_lines
#print axioms Scc.A64.C09_a64_every_prefix_all
#print axioms Scc.A64.C09_a64_every_prefix_all_size
#print axioms Scc.A64.C09A_cloLoop_every_boundary
