/-
  Scc/Props/C11.lean  --  property C11 (fixed text):

  "For every explicit substitution, i.e. any assignment of old variables to a list of new variables, with
   any mix of integer and object variables and any placement across registers and spill slots, the
   emitted code leaves every new variable holding what its source held before, as one simultaneous
   assignment (cycles, chains, fan-out included), increases the count of each object by the number of
   extra copies, releases each dropped object exactly once, and changes nothing else."

  Sources: /repo/lang/axcut2backend/src/{parallel_moves,substitution}.rs, statements/substitute.rs,
           /repo/lang/axcut2{x86_64,aarch64,rv64}/src/{parallel_moves,code,config}.rs
  Models:  Scc/PMoves/Model.lean (generic part), Scc/PMoves/Backends.lean (per backend).

  What is proved here (all for inputs of ANY size)
  -------------------------------------------------
  T1  C11_parallelMoves_correct   generic algorithm = simultaneous assignment on the abstract machine
      C11_fuel_suffices           the recursion of `spanning_tree` terminates on functional maps
      C11_each_target_written_once  destinations of the emitted `mov`/`restore`s = targets, each once
  T2  C11_x86_correct / C11_aarch64_correct / C11_rv64_correct   the concrete instruction sequences
      C11_x86_containsSpillEdge_complete                        the key lemma of the x86 scratch discipline
  T3  C11_refcount_ops            which erase/share instructions a substitution emits
  T1+T3 on the level of a `Substitute` statement: C11_connections_wellformed, C11_substitution_correct
      (abstract machine), C11_substitution_x86 / _aarch64 / _rv64 (machine state, real placement of
      variables in registers and spill slots).

  What is NOT covered here: the effect of `erase`/`share` on the heap ("increases the count ... releases
  exactly once") is the meaning of `Backend::erase_block` / `share_block_n`, which belongs to the memory
  component (C09/C10); T3 pins down exactly which of these operations are emitted, on which temporary,
  with which argument, and that they precede all moves (`SubstRes.ok refcount moves`).
-/
import Scc.PMoves.ProofsSubst
import Scc.PMoves.ProofsX86
import Scc.PMoves.ProofsA64RV
import Scc.PMoves.ProofsOnce
import Scc.PMoves.ProofsCheck
import Scc.PMoves.ProofsSubstBackends

namespace Scc.Props.C11
open Scc.PMoves

/-! ## T1: the generic algorithm -/

/-- C11-T1.  `pm` sorted (the `BTreeMap<_, BTreeSet<_>>` invariant) and functional (every temporary is the
    target of at most one source).  Then `parallelMoves` does not run out of fuel and the emitted
    instructions, run on any store `σ` and scratch value, give `σ'` with `σ' t = σ s` for every move
    `s ↦ t` (all reads see the OLD store) and `σ' x = σ x` for every `x` that is not a target. -/
theorem C11_parallelMoves_correct {V : Type} (pm : PMap) (hs : Sorted pm) (hf : Functional pm)
    (csE : Root → Bool) :
    ∃ ops, parallelMoves pm csE = .ok ops ∧ ∀ (σ : Nat → V) (sc : V),
      (∀ s t, Edge pm s t → (run ops (σ, sc)).1 t = σ s) ∧
      (∀ x, (∀ s, ¬ Edge pm s x) → (run ops (σ, sc)).1 x = σ x) :=
  parallelMovesFuel_correct pm hs.keysNodup hs.targetsNodup hf csE (fuelFor pm)
    (by unfold fuelFor; omega)

/-- C11 fuel: any fuel `≥` the number of distinct temporaries of a sorted functional map is enough; in
    particular `fuelFor pm = that number + 1`.  (On non-functional maps the Rust recursion may not
    terminate: `1 ↦ {2}, 2 ↦ {2, 3}` -- see the example below.) -/
theorem C11_fuel_suffices (pm : PMap) (hs : Sorted pm) (hf : Functional pm) (csE : Root → Bool)
    (fuel : Nat) (hfuel : (allNodes pm).length ≤ fuel) :
    ∃ ops, parallelMovesFuel fuel pm csE = .ok ops := by
  obtain ⟨ops, h, _⟩ := parallelMovesFuel_correct (V := Unit) pm hs.keysNodup hs.targetsNodup hf csE
    fuel hfuel
  exact ⟨ops, h⟩

/-- the result does not depend on the fuel once it is sufficient -/
theorem C11_fuelFor_suffices (pm : PMap) (hs : Sorted pm) (hf : Functional pm) (csE : Root → Bool) :
    ∃ ops, parallelMoves pm csE = .ok ops :=
  C11_fuel_suffices pm hs hf csE (fuelFor pm) (by unfold fuelFor; omega)

/-- Each target of a non-self move `s ↦ t` (`s ≠ t`) is the destination of exactly one emitted
    `mov`/`restore` (`dests ops` is duplicate free), and no other temporary is ever a destination. -/
theorem C11_each_target_written_once (pm : PMap) (hs : Sorted pm) (hf : Functional pm)
    (csE : Root → Bool) :
    ∃ ops, parallelMoves pm csE = .ok ops ∧ (dests ops).Nodup ∧
      ∀ t, t ∈ dests ops ↔ ∃ s, s ≠ t ∧ Edge pm s t :=
  parallelMoves_dests pm hs.keysNodup hs.targetsNodup hf csE

/-! ## T2: the three backends -/

/-- C11-T2 for x86-64.  Temporaries are location codes (`X86.decode`: `n < 16` register `n`, otherwise
    spill slot `n - 16`); `usable` excludes `TEMP` (register 1) and `SPILL_TEMP` (slot 0). -/
def C11_x86_statement : Prop :=
  ∀ (V : Type) (pm : PMap), Sorted pm → Functional pm → (∀ x ∈ allNodes pm, X86.usable x = true) →
    ∃ code, X86.parallelMovesX86 pm = .ok code ∧ ∀ m : MState V,
      (∀ s t, Edge pm s t → (X86.runCode code m).rd (X86.decode t) = m.rd (X86.decode s)) ∧
      (∀ x, X86.usable x = true → (∀ s, ¬ Edge pm s x) →
        (X86.runCode code m).rd (X86.decode x) = m.rd (X86.decode x))

theorem C11_x86_correct : C11_x86_statement :=
  fun _ pm hs hf hu => X86.parallelMoves_correct_codes pm hs hf (edge_ok_of_allNodes hu)

/-- The key lemma: whenever a root's moves include a spill-to-spill `mov` (which clobbers `TEMP`),
    `contains_spill_edge` is `true`, so the saved value lives in `SPILL_TEMP`. -/
theorem C11_x86_containsSpillEdge_complete (k : Nat) (trees : List Tree) (a b : Nat)
    (hab : (a, b) ∈ edgesList k trees) (hs : 16 ≤ a ∧ 16 ≤ b) :
    X86.containsSpillEdge (.startNode k trees) = true := by
  cases h : X86.containsSpillEdge (.startNode k trees) with
  | true => rfl
  | false => exact absurd hs (X86.containsSpillEdge_complete k trees h a b hab)

/-- C11-T2 for AArch64 (`n < 30` register `Xn`, otherwise spill slot `n - 30`; scratch `X2`, `X3`). -/
def C11_aarch64_statement : Prop :=
  ∀ (V : Type) (pm : PMap), Sorted pm → Functional pm → (∀ x ∈ allNodes pm, A64.usable x = true) →
    ∃ code, A64.parallelMovesA64 pm = .ok code ∧ ∀ m : MState V,
      (∀ s t, Edge pm s t → (A64.runCode code m).rd (A64.decode t) = m.rd (A64.decode s)) ∧
      (∀ x, A64.usable x = true → (∀ s, ¬ Edge pm s x) →
        (A64.runCode code m).rd (A64.decode x) = m.rd (A64.decode x))

theorem C11_aarch64_correct : C11_aarch64_statement :=
  fun _ pm hs hf hu => A64.parallelMoves_correct_codes pm hs hf (edge_ok_of_allNodes hu)

/-- C11-T2 for RV64 (registers only; scratch register 1). -/
def C11_rv64_statement : Prop :=
  ∀ (V : Type) (pm : PMap), Sorted pm → Functional pm → (∀ x ∈ allNodes pm, RV64.usable x = true) →
    ∃ code, RV64.parallelMovesRV64 pm = .ok code ∧ ∀ m : MState V,
      (∀ s t, Edge pm s t → (RV64.runCode code m).regs t = m.regs s) ∧
      (∀ x, RV64.usable x = true → (∀ s, ¬ Edge pm s x) → (RV64.runCode code m).regs x = m.regs x)

theorem C11_rv64_correct : C11_rv64_statement :=
  fun _ pm hs hf hu => RV64.parallelMoves_correct_codes pm hs hf (edge_ok_of_allNodes hu)

/-- The executable checkers run by the test driver agree with the theorems: they always answer `true`
    (on inputs outside the hypotheses by definition, inside by T2). -/
theorem C11_checkers_true (pm : PMap) :
    checkSubstX86 pm = true ∧ checkSubstA64 pm = true ∧ checkSubstRV64 pm = true :=
  ⟨checkSubstX86_true pm, checkSubstA64_true pm, checkSubstRV64_true pm⟩

/-! ## T3: reference counts -/

/-- C11-T3.  `code_weakening_contraction` does not panic on the transposed rearrangement (as long as
    `temporary_from_position` is defined on the context's positions) and emits, in context order, for
    every old binding `b` exactly `refOpsFor tfp re ctx b`:
    nothing for `ext` bindings; for the others, with `k = targetCount re b.1` new variables bound to `b`:
    `k = 0`: one `erase`, `k = 1`: nothing, `k ≥ 2`: one `share (k-1)`; each on the `Fst` temporary of `b`
    (`refOpsFor_spec`, `C11_refcount_temporaries`).  They come before all moves: `codeSubstitute`
    returns `.ok refcount moves` (see `C11_substitution_correct`). -/
theorem C11_refcount_ops (tfp : Nat → Option Nat) (re : Rearrange) (ctx : Ctx)
    (htot : TfpTotal tfp ctx.length) :
    codeWeakeningContraction tfp (transpose re ctx) ctx = some (ctx.flatMap (refOpsFor tfp re ctx)) :=
  codeWeakeningContraction_eq tfp re ctx htot

/-- what `refOpsFor` is, case by case (abstract temporaries: position `p` owns `2p` and `2p+1`) -/
theorem refOpsFor_spec (re : Rearrange) (ctx : Ctx) (b : Nat × Chi) (hb : b ∈ ctx) :
    ∃ p, getPosition ctx b.1 = some p ∧ p < ctx.length ∧
      refOpsFor genericTemporary re ctx b =
        if b.2 = Chi.ext then []
        else if targetCount re b.1 = 0 then [.comment 0 b.1, .erase (2 * p)]
        else if targetCount re b.1 = 1 then []
        else [.comment 1 b.1, .share (2 * p) (targetCount re b.1 - 1)] := by
  obtain ⟨p, hp, hlt⟩ := getPosition_of_mem hb
  refine ⟨p, hp, hlt, ?_⟩
  unfold refOpsFor
  split
  · rfl
  · simp only [variableTemporary, hp, genericTemporary]
    rcases h : targetCount re b.1 with _ | _ | n <;> simp

/-- the refcount instructions mention only `Fst` temporaries of non-`ext` old bindings -/
theorem C11_refcount_temporaries (tfp : Nat → Option Nat) (re : Rearrange) (ctx : Ctx) (op : ROp)
    (h : op ∈ ctx.flatMap (refOpsFor tfp re ctx)) :
    ∃ b ∈ ctx, b.2 ≠ Chi.ext ∧
      ∀ t, (op = .erase t ∨ ∃ n, op = .share t n) → variableTemporary tfp 0 ctx b.1 = some t := by
  obtain ⟨b, hb, hop⟩ := List.mem_flatMap.mp h
  exact ⟨b, hb, refOpsFor_temporaries hop⟩

/-! ## the `Substitute` statement as a whole -/

/-- `connections` yields a map that satisfies the hypotheses of T1/T2, with exactly the required moves
    (`SubstEdge`: for every `(new := old)` with `old` in the context, `Snd(old) ↦ Snd(new)` and, unless
    `old` is `ext`, `Fst(old) ↦ Fst(new)`). -/
theorem C11_connections_wellformed (re : Rearrange) (ctx : Ctx) (hctx : (ctx.map (·.1)).Nodup)
    (hnew : (re.map (·.1.1)).Nodup) :
    ∃ pm, connections genericTemporary (transpose re ctx) ctx (newContext re) = some pm ∧ Sorted pm ∧
      Functional pm ∧ ∀ s t, Edge pm s t ↔ SubstEdge genericTemporary re ctx s t :=
  connections_spec genericTemporary genericTemporary_injective re ctx (genericTemporary_total _)
    (genericTemporary_total _) hctx hnew

/-- Abstract machine.  For a context with pairwise distinct ids and a rearrangement with pairwise
    distinct new ids: the statement's code is `refcount` instructions (exactly those of T3) followed by
    moves which leave every temporary of every new variable holding what the corresponding temporary
    of its source held (`SubstEdge`), and change no other temporary. -/
theorem C11_substitution_correct {V : Type} (re : Rearrange) (ctx : Ctx) (csE : Root → Bool)
    (hctx : (ctx.map (·.1)).Nodup) (hnew : (re.map (·.1.1)).Nodup) :
    ∃ rc mv, codeSubstitute genericTemporary re ctx csE = .ok rc mv ∧
      rc = ctx.flatMap (refOpsFor genericTemporary re ctx) ∧
      ∀ (σ : Nat → V) (sc : V),
        (∀ s t, SubstEdge genericTemporary re ctx s t → (run mv (σ, sc)).1 t = σ s) ∧
        (∀ x, (∀ s, ¬ SubstEdge genericTemporary re ctx s x) → (run mv (σ, sc)).1 x = σ x) :=
  codeSubstitute_correct genericTemporary genericTemporary_injective re ctx csE
    (genericTemporary_total _) (genericTemporary_total _) hctx hnew

/-- x86-64: the `Substitute` statement on the machine state (registers + spill slots), with the real
    placement `temporary_from_position` (at most 133 variables before and after). -/
def C11_substitution_x86_statement : Prop :=
  ∀ (V : Type) (re : Rearrange) (ctx : Ctx), 2 * ctx.length ≤ 267 → 2 * re.length ≤ 267 →
    (ctx.map (·.1)).Nodup → (re.map (·.1.1)).Nodup →
    ∃ mv, X86.codeSubstituteX86 re ctx =
        (.ok (ctx.flatMap (refOpsFor X86.temporaryFromPosition re ctx)) mv, X86.lowerAll mv) ∧
      ∀ m : MState V,
        (∀ s t, SubstEdge X86.temporaryFromPosition re ctx s t →
          (X86.runCode (X86.lowerAll mv) m).rd (X86.decode t) = m.rd (X86.decode s)) ∧
        (∀ x, X86.usable x = true → (∀ s, ¬ SubstEdge X86.temporaryFromPosition re ctx s x) →
          (X86.runCode (X86.lowerAll mv) m).rd (X86.decode x) = m.rd (X86.decode x))

theorem C11_substitution_x86 : C11_substitution_x86_statement :=
  fun _ re ctx h1 h2 h3 h4 => X86.codeSubstitute_correct re ctx h1 h2 h3 h4

/-- AArch64 (at most 140 variables). -/
def C11_substitution_aarch64_statement : Prop :=
  ∀ (V : Type) (re : Rearrange) (ctx : Ctx), 2 * ctx.length ≤ 281 → 2 * re.length ≤ 281 →
    (ctx.map (·.1)).Nodup → (re.map (·.1.1)).Nodup →
    ∃ mv, A64.codeSubstituteA64 re ctx =
        (.ok (ctx.flatMap (refOpsFor A64.temporaryFromPosition re ctx)) mv, A64.lowerAll mv) ∧
      ∀ m : MState V,
        (∀ s t, SubstEdge A64.temporaryFromPosition re ctx s t →
          (A64.runCode (A64.lowerAll mv) m).rd (A64.decode t) = m.rd (A64.decode s)) ∧
        (∀ x, A64.usable x = true → (∀ s, ¬ SubstEdge A64.temporaryFromPosition re ctx s x) →
          (A64.runCode (A64.lowerAll mv) m).rd (A64.decode x) = m.rd (A64.decode x))

theorem C11_substitution_aarch64 : C11_substitution_aarch64_statement :=
  fun _ re ctx h1 h2 h3 h4 => A64.codeSubstitute_correct re ctx h1 h2 h3 h4

/-- RV64 (at most 14 variables, registers only). -/
def C11_substitution_rv64_statement : Prop :=
  ∀ (V : Type) (re : Rearrange) (ctx : Ctx), 2 * ctx.length ≤ 28 → 2 * re.length ≤ 28 →
    (ctx.map (·.1)).Nodup → (re.map (·.1.1)).Nodup →
    ∃ mv, RV64.codeSubstituteRV64 re ctx =
        (.ok (ctx.flatMap (refOpsFor RV64.temporaryFromPosition re ctx)) mv, RV64.lowerAll mv) ∧
      ∀ m : MState V,
        (∀ s t, SubstEdge RV64.temporaryFromPosition re ctx s t →
          (RV64.runCode (RV64.lowerAll mv) m).regs t = m.regs s) ∧
        (∀ x, RV64.usable x = true → (∀ s, ¬ SubstEdge RV64.temporaryFromPosition re ctx s x) →
          (RV64.runCode (RV64.lowerAll mv) m).regs x = m.regs x)

theorem C11_substitution_rv64 : C11_substitution_rv64_statement :=
  fun _ re ctx h1 h2 h3 h4 => RV64.codeSubstitute_correct re ctx h1 h2 h3 h4

/-! ## `normalize` -/

theorem C11_normalize_sorted (edges : List (Nat × Nat)) : Sorted (normalize edges) :=
  normalize_sorted edges

theorem C11_normalize_edges (edges : List (Nat × Nat)) (s t : Nat) :
    Edge (normalize edges) s t ↔ (s, t) ∈ edges := edge_normalize edges s t

/-! ## Non-vacuity: concrete instances of the hypotheses, and what the model emits for them -/

/-- value `x + 1000` in location `x` -/
def σ0 : Nat → Nat := fun x => x + 1000

-- 3-cycle 1 → 2 → 3 → 1
def pmCycle : PMap := [(1, [2]), (2, [3]), (3, [1])]
example : Sorted pmCycle ∧ Functional pmCycle :=
  ⟨sorted_of_isSorted (by decide), functional_of_isFunctional (by decide)⟩
example : parallelMoves pmCycle (fun _ => false) =
    .ok [.comment "#move variables", .save 3 false, .mov 3 2, .mov 2 1, .restore 1 false] := rfl
example : (run [.comment "#move variables", .save 3 false, .mov 3 2, .mov 2 1, .restore 1 false]
    (σ0, 0)).1 1 = σ0 3 := rfl
example : (run [.comment "#move variables", .save 3 false, .mov 3 2, .mov 2 1, .restore 1 false]
    (σ0, 0)).1 3 = σ0 2 := rfl
example : dests [.comment "#move variables", .save 3 false, .mov 3 2, .mov 2 1, .restore 1 false]
    = [3, 2, 1] := rfl

-- chain 1 → 2 → 3
def pmChain : PMap := [(1, [2]), (2, [3])]
example : Sorted pmChain ∧ Functional pmChain :=
  ⟨sorted_of_isSorted (by decide), functional_of_isFunctional (by decide)⟩
example : parallelMoves pmChain (fun _ => false) =
    .ok [.comment "#move variables", .mov 3 2, .mov 2 1] := rfl

-- fan-out 1 → {2, 3, 4}
def pmFan : PMap := [(1, [2, 3, 4])]
example : Sorted pmFan ∧ Functional pmFan :=
  ⟨sorted_of_isSorted (by decide), functional_of_isFunctional (by decide)⟩
example : parallelMoves pmFan (fun _ => false) =
    .ok [.comment "#move variables", .mov 2 1, .mov 3 1, .mov 4 1] := rfl

-- cycle 1 ⇄ 2 with a tail 2 → 5 → 6
def pmCycleTail : PMap := [(1, [2]), (2, [1, 5]), (5, [6])]
example : Sorted pmCycleTail ∧ Functional pmCycleTail :=
  ⟨sorted_of_isSorted (by decide), functional_of_isFunctional (by decide)⟩
example : parallelMoves pmCycleTail (fun _ => false) =
    .ok [.comment "#move variables", .save 2 false, .mov 6 5, .mov 5 2, .mov 2 1, .restore 1 false] := rfl

-- self-move 1 → {1, 2}: the self edge needs no instruction; 3 → {3}: no instruction, no comment
def pmSelf : PMap := [(1, [1, 2])]
example : Sorted pmSelf ∧ Functional pmSelf :=
  ⟨sorted_of_isSorted (by decide), functional_of_isFunctional (by decide)⟩
example : parallelMoves pmSelf (fun _ => false) = .ok [.comment "#move variables", .mov 2 1] := rfl
example : parallelMoves [(3, [3])] (fun _ => false) = .ok [] := rfl

-- a NON-functional map on which the recursion of `spanning_tree` does not terminate
example : isFunctional [(1, [2]), (2, [2, 3])] = false := by decide
example : parallelMoves [(1, [2]), (2, [2, 3])] (fun _ => false) = .outOfFuel := rfl
example : parallelMovesFuel 40 [(1, [2]), (2, [2, 3])] (fun _ => false) = .outOfFuel := rfl

-- x86-64: cycle  rax → slot 1 → slot 2 → rax  (codes 4, 17, 18): spill-to-spill move, saved value in SPILL_TEMP
def pmX86 : PMap := [(4, [17]), (17, [18]), (18, [4])]
example : Sorted pmX86 ∧ Functional pmX86 ∧ ∀ x ∈ allNodes pmX86, X86.usable x = true :=
  ⟨sorted_of_isSorted (by decide), functional_of_isFunctional (by decide), by decide⟩
example : X86.parallelMovesX86 pmX86 = .ok [.COMMENT "#move variables", .MOVL 1 2, .MOVS 1 0,
    .MOVL 1 1, .MOVS 1 2, .MOVS 4 1, .MOVL 4 0] := rfl
example : X86.containsSpillEdge (.startNode 4 [.node 17 [.node 18 [.backEdge]]]) = true := rfl
example : checkSubstX86 pmX86 = true := rfl
-- x86-64, no spill-to-spill move: saved value in TEMP
example : X86.parallelMovesX86 [(4, [17]), (17, [4])] =
    .ok [.COMMENT "#move variables", .MOVL 1 1, .MOVS 4 1, .MOV 4 1] := rfl

-- AArch64: cycle between spill slots 1, 2, 3 (codes 31, 32, 33)
def pmA64 : PMap := [(31, [32]), (32, [33]), (33, [31])]
example : Sorted pmA64 ∧ Functional pmA64 ∧ ∀ x ∈ allNodes pmA64, A64.usable x = true :=
  ⟨sorted_of_isSorted (by decide), functional_of_isFunctional (by decide), by decide⟩
example : A64.parallelMovesA64 pmA64 = .ok [.COMMENT "#move variables", .LDR 2 3, .LDR 3 2, .STR 3 3,
    .LDR 3 1, .STR 3 2, .STR 2 1] := rfl
example : checkSubstA64 pmA64 = true := rfl

-- RV64
def pmRV : PMap := [(4, [5]), (5, [4, 6])]
example : Sorted pmRV ∧ Functional pmRV ∧ ∀ x ∈ allNodes pmRV, RV64.usable x = true :=
  ⟨sorted_of_isSorted (by decide), functional_of_isFunctional (by decide), by decide⟩
example : RV64.parallelMovesRV64 pmRV =
    .ok [.COMMENT "#move variables", .MV 1 5, .MV 6 5, .MV 5 4, .MV 4 1] := rfl
example : checkSubstRV64 pmRV = true := rfl

-- substitution: context [1:prd, 2:ext, 3:cns], new variables 7 := 1, 8 := 1, 9 := 2  (3 is dropped)
def ctxEx : Ctx := [(1, .prd), (2, .ext), (3, .cns)]
def reEx : Rearrange := [((7, .prd), 1), ((8, .prd), 1), ((9, .ext), 2)]
example : (ctxEx.map (·.1)).Nodup ∧ (reEx.map (·.1.1)).Nodup ∧ 2 * ctxEx.length ≤ 28 ∧ 2 * reEx.length ≤ 28 := by
  decide
example : codeSubstitute genericTemporary reEx ctxEx (fun _ => false) =
    .ok [.comment 1 1, .share 0 1, .comment 0 3, .erase 4]
        [.comment "#move variables", .mov 2 0, .mov 5 3, .mov 3 1] := rfl
example : ctxEx.flatMap (refOpsFor genericTemporary reEx ctxEx) = [.comment 1 1, .share 0 1, .comment 0 3, .erase 4] := rfl
-- the same statement on x86-64: positions 0..5 are rax, rdx, rsi, rdi, r8, r9 (codes 4..9)
example : X86.codeSubstituteX86 reEx ctxEx =
    (.ok [.comment 1 1, .share 4 1, .comment 0 3, .erase 8]
         [.comment "#move variables", .mov 6 4, .mov 9 7, .mov 7 5],
     [.COMMENT "#move variables", .MOV 6 4, .MOV 9 7, .MOV 7 5]) := rfl
example : SubstEdge genericTemporary reEx ctxEx 1 3 :=   -- Snd of variable 1 goes to Snd of variable 8
  ⟨(1, .prd), by decide, ((8, .prd), 1), by decide, rfl, 1, Or.inl rfl, rfl, rfl⟩
example : normalize [(3, 1), (1, 2), (3, 0), (1, 2)] = [(1, [2]), (3, [0, 1])] := rfl

end Scc.Props.C11

open Scc.Props.C11 in
#print axioms C11_parallelMoves_correct
open Scc.Props.C11 in
#print axioms C11_fuel_suffices
open Scc.Props.C11 in
#print axioms C11_each_target_written_once
open Scc.Props.C11 in
#print axioms C11_checkers_true
open Scc.Props.C11 in
#print axioms C11_x86_correct
open Scc.Props.C11 in
#print axioms C11_x86_containsSpillEdge_complete
open Scc.Props.C11 in
#print axioms C11_aarch64_correct
open Scc.Props.C11 in
#print axioms C11_rv64_correct
open Scc.Props.C11 in
#print axioms C11_refcount_ops
open Scc.Props.C11 in
#print axioms C11_refcount_temporaries
open Scc.Props.C11 in
#print axioms C11_connections_wellformed
open Scc.Props.C11 in
#print axioms C11_substitution_correct
open Scc.Props.C11 in
#print axioms C11_substitution_x86
open Scc.Props.C11 in
#print axioms C11_substitution_aarch64
open Scc.Props.C11 in
#print axioms C11_substitution_rv64
open Scc.Props.C11 in
#print axioms C11_normalize_sorted
