/-
  Scc.Props.C12Fun2Core — the link `C12_link_fun2core` of property C12 as a THEOREM:
  THE TRANSLATION Fun → Core PRESERVES TYPING.

  Statement proved (`C12_link_fun2core_proved`): for every accepted program `p'` (`checkProgram p = ok p'`,
  names of `p` identifiers) with a valid `main`, in which no definition calls `main`, and in which no
  parameter / binder is called `ς`:
      `compileProg p'` succeeds with some `q2`, the executable Core type checker accepts it
      (`q2.wellTyped = true`), all binder ids are 0, all occurrence ids are `≤ maxId = 0`, no name is `ς`
      (C03's `Input q2`), and no type name is both a data and a codata type (`typesDisjoint q2`).
  This is `C12_link_fun2core` (Props/C12.lean) plus ONE hypothesis, `C02_noSigmaNames p'` (Props/C02Sem.lean).
  The hypothesis is necessary for the statement as formulated over ASTs: `C12_link_fun2core_false` — the
  AST `def main(): i64 { let ς: i64 = 1; ς }` (not producible by the lexer: `ς` is not an identifier
  character) satisfies all premises of `C12_link_fun2core`, and its translation has a binder called `ς`,
  so `Input`'s `noSigma` fails.  This is an imprecision of the formal statement, NOT a defect of /repo.
  `C12_chain_fun2core_proved` is `C12_chain` with the fun2core link discharged.

  Route (proof files Scc/Fun2Core/Typed*.lean):
    TypedSrc    `TypedM` — monomorphic, annotated typing of checked programs (what fun2core reads); every
                type is instantiated, clauses are in declaration order
    TypedCheck  the checker's output satisfies it (`checkProgram_progM`; second induction over the checker
                model with the invariant of C15's soundness proof; the two type printers agree)
    TypedCore   facts about the executable Core checker: it depends on the context only through the typed
                free variables (`term_congr`), `share` preserves typing (`share_check`)
    TypedTerm   the invariant: if `Γ ⊢ t : τ` and the consumer `c` checks at `⟦τ⟧` in a context related to
                `Γ`, then `⟦t⟧ c` checks — all term forms, incl. label/goto, case/new, `share`, the guard
    TypedTotal  the translation of a typed term does not hit an `expect` / exhaust the guard
    TypedProg   definitions (`compile_def`, `compile_main`), the loop, `compile_prog`
  Known finding D13 (a program that calls `main` is mistranslated) is excluded by `noMainCall`, as in C12.
-/
import Scc.Props.C12
import Scc.Props.C02Sem
import Scc.Fun2Core.TypedProg
import Scc.Fun2Core.TypedCheck

namespace Scc.Props

open Scc Scc.Pipeline Scc.Core Scc.Fun2Core Scc.Fun2Core.Typed
open Scc.Fun.Check (checkProgram programNamesOk)

/-! ## the statements -/

/-- `C12_link_fun2core` for programs without a parameter / binder called `ς` -/
def C12_link_fun2core_sigma : Prop :=
  ∀ (p : Fun.Program) (p' : Fun.CheckedProgram),
    programNamesOk p = true → checkProgram p = .ok p' → validMain p' = true →
    Fun.noMainCall p' = true → C02_noSigmaNames p' = true →
    ∃ q2, Fun2Core.compileProg p' = .ok q2 ∧ Input q2 ∧ typesDisjoint q2 = true

/-! ## the term-level invariant (all forms; fragments named for reference) -/

/-- **typing preservation for terms, full statement**: for every term `t` (all sixteen forms), w.r.t.
every target program `P` with the translated declarations and signatures (`Env p P`):
`TCwc`: if `TypedM p t Γ τ`, `t` does not call `main`, `Δ` is related to `Γ`, the names of `Δ` and the
binders of `t` are in the used-names set, the consumer `c` checks at `compileTy τ` in `Δ`, and
`compile_with_cont t c st = ok (s, st')`, then `s` checks in `Δ` and so do the definitions lifted on the
way (given that `P` maps their labels to them);  `TComp`: `compile t` yields a producer of type
`compileTy τ`.  (`G` is any predicate on names that holds of the generated names; identifiers of the
output have id 0 and a name satisfying `G`.) -/
theorem fun2core_typed_term {p : Fun.CheckedProgram} {P : Core.Prog} {G : String → Prop}
    (env : Env p P) (hg : FreshGood G) (t : Fun.Term) : TCwc p P G t ∧ TComp p P G t :=
  typed_term env hg t

section
variable {p : Fun.CheckedProgram} {P : Core.Prog} {G : String → Prop} (env : Env p P) (hg : FreshGood G)
include env hg

/-- fragment: integer terms -/
theorem fun2core_typed_int (x : String) (ty : Option Fun.Ty) (chi : Option Fun.Chi) (n : Int)
    (a b : Fun.Term) (o : Fun.BinOp) (an : Option Fun.Ty) (nl : Bool) :
    TCwc p P G (.var x ty chi) ∧ TCwc p P G (.lit n) ∧ TCwc p P G (.op a o b) ∧
    TCwc p P G (.print nl a b an) ∧ TCwc p P G (.exit a an) ∧ TCwc p P G (.paren a) :=
  ⟨(typed_term env hg _).1, (typed_term env hg _).1, (typed_term env hg _).1, (typed_term env hg _).1,
    (typed_term env hg _).1, (typed_term env hg _).1⟩

/-- fragment: let / if / call -/
theorem fun2core_typed_let_if_call (x f : String) (σ : Fun.Ty) (a b t e : Fun.Term) (args : Fun.Terms)
    (s : Fun.IfSort) (an : Option Fun.Ty) :
    TCwc p P G (.letIn x σ a b an) ∧ TCwc p P G (.ifc s a b t e an) ∧ TCwc p P G (.ifz s a t e an) ∧
    TCwc p P G (.call f args an) :=
  ⟨(typed_term env hg _).1, (typed_term env hg _).1, (typed_term env hg _).1, (typed_term env hg _).1⟩

/-- fragment: data (constructors, `case` with shared continuation and capture guard) -/
theorem fun2core_typed_data (k : String) (args : Fun.Terms) (s : Fun.Term) (ta : Fun.Tys)
    (cs : Fun.Clauses) (an : Option Fun.Ty) :
    TCwc p P G (.ctor k args an) ∧ TCwc p P G (.case s ta cs an) :=
  ⟨(typed_term env hg _).1, (typed_term env hg _).1⟩

/-- fragment: codata (destructor calls, `new`) -/
theorem fun2core_typed_codata (k : String) (args : Fun.Terms) (s : Fun.Term) (ta : Fun.Tys)
    (cs : Fun.Clauses) (an : Option Fun.Ty) :
    TCwc p P G (.dtor s k ta args an) ∧ TCwc p P G (.new cs an) :=
  ⟨(typed_term env hg _).1, (typed_term env hg _).1⟩

/-- fragment: label / goto (covariables) -/
theorem fun2core_typed_label_goto (a : String) (t : Fun.Term) (an : Option Fun.Ty) :
    TCwc p P G (.label a t an) ∧ TCwc p P G (.goto a t an) :=
  ⟨(typed_term env hg _).1, (typed_term env hg _).1⟩

end

/-! ## from "all identifiers are good" to C03's `Input` -/

/-- the names that are not the machine's `ς` -/
def C12_notSigma (n : String) : Prop := n ≠ "ς"

theorem C12_freshGood : FreshGood C12_notSigma := by
  constructor
  · intro used
    obtain ⟨k, hk⟩ := Fun2Core.Sem.freshNameLoop_form used "x" (used.length + 1) 0
    simp only [freshName, hk, C12_notSigma]
    intro h
    have h1 := congrArg String.toList h
    simp at h1
  · intro used
    obtain ⟨k, hk⟩ := Fun2Core.Sem.freshNameLoop_form used "a" (used.length + 1) 0
    simp only [freshName, hk, C12_notSigma]
    intro h
    have h1 := congrArg String.toList h
    simp at h1

mutual
  theorem C12_ids_term : ∀ (t : Term), allIdsTerm (GoodId C12_notSigma) t →
      (∀ b ∈ t.binderIds, b = 0) ∧ (∀ i ∈ t.occIds, i = 0) ∧ t.noSigma = true
    | .var _ v _, h => by
      simp only [allIdsTerm, GoodId, C12_notSigma] at h
      simp [Term.binderIds, Term.occIds, Term.noSigma, h.1, h.2]
    | .lit _, _ => by simp [Term.binderIds, Term.occIds, Term.noSigma]
    | .op a _ b, h => by
      simp only [allIdsTerm] at h
      obtain ⟨a1, a2, a3⟩ := C12_ids_term a h.1
      obtain ⟨b1, b2, b3⟩ := C12_ids_term b h.2
      simp only [Term.binderIds, Term.occIds, Term.noSigma, List.mem_append, a3, b3, Bool.and_self,
        and_true]
      exact ⟨fun x hx => hx.elim (a1 x) (b1 x), fun x hx => hx.elim (a2 x) (b2 x)⟩
    | .mu _ v _ s, h => by
      simp only [allIdsTerm, GoodId, C12_notSigma] at h
      obtain ⟨s1, s2, s3⟩ := C12_ids_stmt s h.2
      simp only [Term.binderIds, Term.occIds, Term.noSigma, List.mem_cons, s3, Bool.and_true,
        bne_iff_ne, ne_eq]
      exact ⟨fun x hx => hx.elim (fun e => e ▸ h.1.1) (s1 x), s2, h.1.2⟩
    | .xtor _ _ as _, h => by
      simp only [allIdsTerm] at h
      simpa [Term.binderIds, Term.occIds, Term.noSigma] using C12_ids_args as h
    | .xcase _ _ cl, h => by
      simp only [allIdsTerm] at h
      simpa [Term.binderIds, Term.occIds, Term.noSigma] using C12_ids_clauses cl h
  theorem C12_ids_args : ∀ (as : Args), allIdsArgs (GoodId C12_notSigma) as →
      (∀ b ∈ as.binderIds, b = 0) ∧ (∀ i ∈ as.occIds, i = 0) ∧ as.noSigma = true
    | .nil, _ => by simp [Args.binderIds, Args.occIds, Args.noSigma]
    | .cons _ t r, h => by
      simp only [allIdsArgs] at h
      obtain ⟨a1, a2, a3⟩ := C12_ids_term t h.1
      obtain ⟨b1, b2, b3⟩ := C12_ids_args r h.2
      simp only [Args.binderIds, Args.occIds, Args.noSigma, List.mem_append, a3, b3, Bool.and_self,
        and_true]
      exact ⟨fun x hx => hx.elim (a1 x) (b1 x), fun x hx => hx.elim (a2 x) (b2 x)⟩
  theorem C12_ids_clauses : ∀ (cl : Clauses), allIdsClauses (GoodId C12_notSigma) cl →
      (∀ b ∈ cl.binderIds, b = 0) ∧ (∀ i ∈ cl.occIds, i = 0) ∧ cl.noSigma = true
    | .nil, _ => by simp [Clauses.binderIds, Clauses.occIds, Clauses.noSigma]
    | .cons _ ctx s r, h => by
      simp only [allIdsClauses, GoodId, C12_notSigma] at h
      obtain ⟨a1, a2, a3⟩ := C12_ids_stmt s h.2.1
      obtain ⟨b1, b2, b3⟩ := C12_ids_clauses r h.2.2
      have hc : ∀ x ∈ ctxIds ctx, x = 0 := by
        intro x hx
        simp only [ctxIds, List.mem_map] at hx
        obtain ⟨b, hb, rfl⟩ := hx
        exact (h.1 b hb).1
      have hs : ctx.all (fun x => x.var.name != "ς") = true := by
        simp only [List.all_eq_true, bne_iff_ne, ne_eq]
        exact fun b hb => (h.1 b hb).2
      simp only [Clauses.binderIds, Clauses.occIds, Clauses.noSigma, List.mem_append, a3, b3, hs,
        Bool.and_self, and_true]
      exact ⟨fun x hx => hx.elim (fun hx => hx.elim (hc x) (a1 x)) (b1 x),
        fun x hx => hx.elim (a2 x) (b2 x)⟩
  theorem C12_ids_stmt : ∀ (s : Stmt), allIdsStmt (GoodId C12_notSigma) s →
      (∀ b ∈ s.binderIds, b = 0) ∧ (∀ i ∈ s.occIds, i = 0) ∧ s.noSigma = true
    | .cut _ p c, h => by
      simp only [allIdsStmt] at h
      obtain ⟨a1, a2, a3⟩ := C12_ids_term p h.1
      obtain ⟨b1, b2, b3⟩ := C12_ids_term c h.2
      simp only [Stmt.binderIds, Stmt.occIds, Stmt.noSigma, List.mem_append, a3, b3, Bool.and_self,
        and_true]
      exact ⟨fun x hx => hx.elim (a1 x) (b1 x), fun x hx => hx.elim (a2 x) (b2 x)⟩
    | .ifc _ a b t e, h => by
      simp only [allIdsStmt] at h
      obtain ⟨a1, a2, a3⟩ := C12_ids_term a h.1
      obtain ⟨b1, b2, b3⟩ := C12_ids_term b h.2.1
      obtain ⟨c1, c2, c3⟩ := C12_ids_stmt t h.2.2.1
      obtain ⟨d1, d2, d3⟩ := C12_ids_stmt e h.2.2.2
      simp only [Stmt.binderIds, Stmt.occIds, Stmt.noSigma, List.mem_append, a3, b3, c3, d3,
        Bool.and_self, and_true]
      exact ⟨fun x hx => hx.elim (fun hx => hx.elim (fun hx => hx.elim (a1 x) (b1 x)) (c1 x)) (d1 x),
        fun x hx => hx.elim (fun hx => hx.elim (fun hx => hx.elim (a2 x) (b2 x)) (c2 x)) (d2 x)⟩
    | .ifz _ a t e, h => by
      simp only [allIdsStmt] at h
      obtain ⟨a1, a2, a3⟩ := C12_ids_term a h.1
      obtain ⟨c1, c2, c3⟩ := C12_ids_stmt t h.2.1
      obtain ⟨d1, d2, d3⟩ := C12_ids_stmt e h.2.2
      simp only [Stmt.binderIds, Stmt.occIds, Stmt.noSigma, List.mem_append, a3, c3, d3,
        Bool.and_self, and_true]
      exact ⟨fun x hx => hx.elim (fun hx => hx.elim (a1 x) (c1 x)) (d1 x),
        fun x hx => hx.elim (fun hx => hx.elim (a2 x) (c2 x)) (d2 x)⟩
    | .print _ a n, h => by
      simp only [allIdsStmt] at h
      obtain ⟨a1, a2, a3⟩ := C12_ids_term a h.1
      obtain ⟨b1, b2, b3⟩ := C12_ids_stmt n h.2
      simp only [Stmt.binderIds, Stmt.occIds, Stmt.noSigma, List.mem_append, a3, b3, Bool.and_self,
        and_true]
      exact ⟨fun x hx => hx.elim (a1 x) (b1 x), fun x hx => hx.elim (a2 x) (b2 x)⟩
    | .call _ as _, h => by
      simp only [allIdsStmt] at h
      simpa [Stmt.binderIds, Stmt.occIds, Stmt.noSigma] using C12_ids_args as h
    | .exit a _, h => by
      simp only [allIdsStmt] at h
      simpa [Stmt.binderIds, Stmt.occIds, Stmt.noSigma] using C12_ids_term a h
end

/-! ## the premises of C12 give the hypotheses of the program-level theorem -/

theorem C12_mainRet {p' : Fun.CheckedProgram} (hv : validMain p' = true) :
    ∀ d ∈ p'.defs, d.name = "main" → d.retTy = .i64 := by
  intro d hd hn
  unfold validMain at hv
  have hmem : d ∈ mainDefs p' := by
    simp only [mainDefs, List.mem_filter]
    exact ⟨hd, by simp [hn]⟩
  split at hv
  · rename_i d0 heq
    rw [heq] at hmem
    simp only [List.mem_singleton] at hmem
    subst hmem
    simp only [mainSigOk, Bool.and_eq_true] at hv
    have := hv.2
    unfold isI64 at this
    split at this
    · assumption
    · cases this
  · cases hv

theorem C12_progHyp {p : Fun.Program} {p' : Fun.CheckedProgram} (hn : programNamesOk p = true)
    (hc : checkProgram p = .ok p') (hv : validMain p' = true) (hmc : Fun.noMainCall p' = true)
    (hs : C02_noSigmaNames p' = true) : ProgHyp p' C12_notSigma := by
  refine ⟨checkProgram_progM hn hc, ?_, C12_mainRet hv, ?_⟩
  · intro d hd
    simp only [Fun.noMainCall, List.all_eq_true] at hmc
    simpa using hmc d hd
  · intro d hd
    simp only [C02_noSigmaNames, List.all_eq_true, Bool.and_eq_true, Bool.not_eq_true',
      List.contains_eq_mem, decide_eq_false_iff_not] at hs
    obtain ⟨h1, h2⟩ := hs d hd
    refine ⟨?_, ?_⟩
    · intro b hb e
      exact h1 (List.mem_map.2 ⟨b, hb, e⟩)
    · intro x hx e
      refine h2 ?_
      show "ς" ∈ binderNames d.body
      rw [← e]
      exact hx

/-! ## the link, proved -/

/-- **C12_link_fun2core_proved**: the translation Fun → Core is total on accepted programs with a valid
`main` that is not called, and PRESERVES TYPING: the output passes the executable Core type checker, has
binder ids 0, occurrence ids `≤ maxId`, no `ς` (C03's `Input`), and disjoint data / codata type names. -/
theorem C12_link_fun2core_proved : C12_link_fun2core_sigma := by
  intro p p' hn hc hv hmc hs
  have hp := C12_progHyp hn hc hv hmc hs
  obtain ⟨q2, hq⟩ := compileProg_ok (p := p') hp.typed
  obtain ⟨_, _, hmax, hd⟩ := compileProg_typed C12_freshGood hp hq
  refine ⟨q2, hq, ⟨?_, ?_, ?_, ?_⟩, ?_⟩
  · exact compileProg_wellTyped C12_freshGood hp hq
  · intro D hD b hb
    obtain ⟨_, hids, hctx, _⟩ := hd D hD
    simp only [Def.ids, List.mem_append] at hb
    rcases hb with hb | hb
    · simp only [ctxIds, List.mem_map] at hb
      obtain ⟨x, hx, rfl⟩ := hb
      exact (hctx x hx).1
    · exact (C12_ids_stmt D.body hids).1 b hb
  · intro D hD i hi
    obtain ⟨_, hids, _, _⟩ := hd D hD
    rw [(C12_ids_stmt D.body hids).2.1 i hi]
    exact Nat.zero_le _
  · simp only [Prog.noSigma, List.all_eq_true, Bool.and_eq_true, bne_iff_ne, ne_eq]
    intro D hD
    obtain ⟨_, hids, hctx, _⟩ := hd D hD
    exact ⟨fun x hx => (hctx x hx).2, (C12_ids_stmt D.body hids).2.2⟩
  · simp only [typesDisjoint, List.all_eq_true, decide_eq_true_eq]
    exact compileProg_disjoint hp.typed hq

/-! ## the chain with the fun2core link discharged -/

/-- `C12_facts` with the fun2core link proved: from the two remaining typing links -/
theorem C12_facts_fun2core_proved (h3 : C12_link_focus) (h4 : C12_link_shrink)
    (p : Fun.Program) (p' : Fun.CheckedProgram)
    (hn : programNamesOk p = true) (hc : checkProgram p = .ok p') (hv : validMain p' = true)
    (hmc : Fun.noMainCall p' = true) (hs : C02_noSigmaNames p' = true) :
    ∃ st, C12_Facts p p' st := by
  obtain ⟨q2, e2, hin, hdis⟩ := C12_link_fun2core_proved p p' hn hc hv hmc hs
  have hpf := focusPanicFree_of_wellTyped hdis hin.typed
  have hs3 := h3 p p' q2 hn hc hv hmc e2
  obtain ⟨q4, e4⟩ := C04_no_panic (Core.focusProg q2) (wtFsCheck_of_scoped hs3)
  obtain ⟨hax, hwf⟩ := h4 p p' q2 q4 hn hc hv hmc e2 e4
  obtain ⟨q5, e5, _, _⟩ := C05.C05_linearize_LinTyped q4 hwf
  have e3 : Core.focusProgE q2 = .ok (Core.focusProg q2) := focusProgE_ok_iff.2 ⟨hpf, rfl⟩
  refine ⟨⟨q2, Core.focusProg q2, q4, q5⟩, ?_⟩
  exact C12_facts_core hn hc hv (stages_ok_iff.2 ⟨e2, e3, e4, e5⟩) hin hs3 hax hwf

/-- **`C12_chain` with the fun2core link discharged**: C12 (for programs without a name `ς`) follows from
the THREE remaining links -/
theorem C12_chain_fun2core_proved (h3 : C12_link_focus) (h4 : C12_link_shrink)
    (h6 : C12_link_codegen) :
    ∀ (p : Fun.Program) (p' : Fun.CheckedProgram),
      programNamesOk p = true → checkProgram p = .ok p' → validMain p' = true →
      Fun.noMainCall p' = true → C02_noSigmaNames p' = true → C12_conclusion p p' := by
  intro p p' hn hc hv hmc hs
  obtain ⟨st, F⟩ := C12_facts_fun2core_proved h3 h4 p p' hn hc hv hmc hs
  exact ⟨F.wt, F.annotated, st, F.ok, F.input2.typed, wtFsCheck_of_scoped F.scoped3, F.unique3,
    F.wtAx4, F.lin5, h6 p p' st hn hc hv hmc F.ok⟩

/-! ## `C12_link_fun2core` as formulated (over ASTs, without the `ς` hypothesis) is false -/

/-- `def main(): i64 { let ς: i64 = 1; ς }` as an AST (the lexer does not produce the name `ς`) -/
def C12_sigmaProg : Fun.Program :=
  ⟨[.defn ⟨"main", [], .i64, .letIn "ς" .i64 (.lit 1) (.var "ς" none none) none⟩]⟩

/-- the premises of `C12_link_fun2core` hold for `C12_sigmaProg`, the translation succeeds, and its
output has a binder called `ς` -/
def C12_sigmaCheck : Bool :=
  programNamesOk C12_sigmaProg &&
  match checkProgram C12_sigmaProg with
  | .ok p' =>
    validMain p' && Fun.noMainCall p' && !C02_noSigmaNames p' &&
    match Fun2Core.compileProg p' with
    | .ok q2 => !q2.noSigma
    | .error _ => false
  | _ => false

set_option maxRecDepth 100000 in
theorem C12_sigma_checks : C12_sigmaCheck = true := by decide +kernel

theorem C12_link_fun2core_false : ¬ C12_link_fun2core := by
  intro hlink
  have h := C12_sigma_checks
  unfold C12_sigmaCheck at h
  simp only [Bool.and_eq_true] at h
  obtain ⟨hn, h⟩ := h
  cases hc : checkProgram C12_sigmaProg with
  | ok p' =>
    rw [hc] at h
    simp only [Bool.and_eq_true] at h
    obtain ⟨⟨⟨hv, hmc⟩, _⟩, h⟩ := h
    obtain ⟨q2, hq, hin, _⟩ := hlink C12_sigmaProg p' hn hc hv hmc
    rw [hq] at h
    simp [hin.noSigma] at h
  | diag c => rw [hc] at h; cases h
  | panic c => rw [hc] at h; cases h

/-! ## non-vacuity -/

/-- the premises of `C12_link_fun2core_proved` hold for the program `C12_exSrc` of Props/C12.lean (a
polymorphic data type, a recursive definition with `case`, `let`, a call, `println_i64`) -/
def C12_f2cExChecks (src : String) : Bool :=
  match Fun.Parse.parse .diagOnOverflow src with
  | .ok p =>
    programNamesOk p &&
    match checkProgram p with
    | .ok p' => validMain p' && Fun.noMainCall p' && C02_noSigmaNames p'
    | _ => false
  | _ => false

set_option maxRecDepth 100000 in
theorem C12_f2c_example_checks : C12_f2cExChecks C12_exSrc = true := by decide +kernel

/-- a second instance with codata, `new`, a destructor call, label / goto and a covariable parameter -/
def C12_f2cExSrc2 : String := "codata Fun[A, B] { apply(x: A): B }
def esc(n: i64, k:cns i64): i64 { if n == 0 { goto k (7) } else { n } }
def main(n: i64): i64 { let f: Fun[i64, i64] = new { apply(y) => y + n }; let r: i64 = label a { esc(n, a) }; let s: i64 = f.apply[i64, i64](r); println_i64(s); 0 }"

set_option maxRecDepth 100000 in
theorem C12_f2c_example2_checks : C12_f2cExChecks C12_f2cExSrc2 = true := by decide +kernel

example : ∃ p p', Fun.Parse.parse .diagOnOverflow C12_exSrc = .ok p ∧ programNamesOk p = true ∧
    checkProgram p = .ok p' ∧ validMain p' = true ∧ Fun.noMainCall p' = true ∧
    C02_noSigmaNames p' = true := by
  have h := C12_f2c_example_checks
  unfold C12_f2cExChecks at h
  cases hp : Fun.Parse.parse .diagOnOverflow C12_exSrc with
  | ok p =>
    rw [hp] at h
    simp only [Bool.and_eq_true] at h
    obtain ⟨hn, h⟩ := h
    cases hc : checkProgram p with
    | ok p' =>
      rw [hc] at h
      simp only [Bool.and_eq_true] at h
      exact ⟨p, p', rfl, hn, hc, h.1.1, h.1.2, h.2⟩
    | diag c => rw [hc] at h; cases h
    | panic c => rw [hc] at h; cases h
  | diag c => rw [hp] at h; cases h
  | panic c => rw [hp] at h; cases h

#print axioms fun2core_typed_term
#print axioms Scc.Fun2Core.Typed.checkProgram_progM
#print axioms Scc.Fun2Core.Typed.compileProg_ok
#print axioms Scc.Fun2Core.Typed.compileProg_typed
#print axioms C12_link_fun2core_proved
#print axioms C12_facts_fun2core_proved
#print axioms C12_chain_fun2core_proved
#print axioms C12_link_fun2core_false
#print axioms C12_f2c_example_checks
#print axioms C12_f2c_example2_checks

end Scc.Props
