/-
  Scc.Props.C18 — "a result or a diagnostic, never a crash": the lexer/parser part (C18-T1).

  Property C18 (as given): "For every input text, parsing and type checking terminate with either a
  program or a reported error, and for every accepted program with a valid entry point (a main taking
  at most five integer parameters and returning an integer) every later stage terminates normally; the
  compiler never panics or aborts on user input, the only exception being the explicit 'out of
  temporaries/registers' capacity assertion of the backends."

  This file covers `parse_module` (model: Scc.Fun.Lex, Scc.Fun.Parse; tied to the real lalrpop parser
  by the differential test on the repo files, the corpus /verif/gen/corpus/parse and seeded mutants:
  outcome class, tree and diagnostic code equal on all of them).  Termination of lexer and parser is
  by construction (total Lean functions).  About THE CODE AS IT IS (`LiteralMode.panicOnOverflow`):

    * C18_literal_witness            `def main():i64{9223372036854775808}` panics        (defect D2)
    * C18_parse_statement_false      hence the "never panics" statement is FALSE for the parser
    * C18_lex_parse_total            the literal conversion is the ONLY panic: a panic implies a number
                                     token > 2^63-1 in the token stream                  (proved)
    * C18_parse_no_panic_in_range    no such token => ok or diagnostic                   (proved)
  About the repaired code (`LiteralMode.diagOnOverflow`: the action returns `ParseError::User`):
    * C18_parse_statement_fixed      the FULL parser statement: no input panics          (proved)

  Not covered here: the type checker (C18-T2) and the later stages (C18-T3 = C12).
  proved in Props/C18Fuel.lean (`C18_fuel`); at the time of writing this file: NOT proved: that the model never answers `DiagCode.fuel` (the model's fuel `fuelFor` is generous;
  a fuel shortage would show up in the differential test as DIAG-vs-OK) — kept as
  `C18_fuel_statement`.
-/
import Scc.Fun.ParseProofs

namespace Scc.Props
open Scc.Fun Scc.Fun.Lex Scc.Fun.Parse

/-- C18, lexer+parser part: no input text makes `parse_module` panic. -/
def C18_parse_statement (mode : LiteralMode) : Prop :=
  ∀ (src : String) (site : PanicSite), parse mode src ≠ .panic site

/-- The model's out-of-fuel answer is never given (proved in Props/C18Fuel.lean (`C18_fuel`); at the time of writing this file: NOT proved; see header). -/
def C18_fuel_statement : Prop :=
  ∀ (mode : LiteralMode) (src : String), parse mode src ≠ .diag .fuel

/-- the text `def main():i64{9223372036854775808}` -/
def C18_literalWitnessSrc : List Char :=
  ['d','e','f',' ','m','a','i','n','(',')',':','i','6','4','{',
   '9','2','2','3','3','7','2','0','3','6','8','5','4','7','7','5','8','0','8','}']

/-- D2: the literal 2^63 makes the parser panic (`i64::from_str(s).unwrap()`); confirmed on the
real parser: `S0 PANIC … called Result::unwrap() on an Err value: ParseIntError { kind: PosOverflow }`. -/
theorem C18_literal_witness :
    (parseChars .panicOnOverflow C18_literalWitnessSrc).isPanic = true := by decide

/-- the same input is a diagnostic (P-005) for the repaired action -/
theorem C18_literal_witness_fixed :
    (parseChars .diagOnOverflow C18_literalWitnessSrc).isPanic = false := by decide

/-- `-9223372036854775808` cannot be written either: the literal is converted before negation. -/
theorem C18_min_literal_witness :
    (parseChars .panicOnOverflow
      ['d','e','f',' ','m','(',')',':','i','6','4','{','-',
       '9','2','2','3','3','7','2','0','3','6','8','5','4','7','7','5','8','0','8','}']).isPanic = true := by
  decide

/-- the largest literal is fine -/
example : (parseChars .panicOnOverflow
      ['d','e','f',' ','m','(',')',':','i','6','4','{','-',
       '9','2','2','3','3','7','2','0','3','6','8','5','4','7','7','5','8','0','7','}']).isOk = true := by
  decide

/-- The parser statement is false for the code as it is. -/
theorem C18_parse_statement_false : ¬ C18_parse_statement .panicOnOverflow := by
  intro h
  have hw := C18_literal_witness
  cases hp : parseChars .panicOnOverflow C18_literalWitnessSrc with
  | ok a => rw [hp] at hw; exact absurd hw (by simp [Outcome.isPanic])
  | diag c => rw [hp] at hw; exact absurd hw (by simp [Outcome.isPanic])
  | panic site =>
    apply h (String.ofList C18_literalWitnessSrc) site
    unfold parse
    rw [String.toList_ofList]
    exact hp

/-- C18-T1 `lex_parse_total`: lexer and parser are total functions (by construction) and the literal
conversion is the only panic: if the parser panics on `src`, the token stream of `src` contains a
number token whose value does not fit `i64`. -/
theorem C18_lex_parse_total (mode : LiteralMode) (src : String)
    (h : (parse mode src).isPanic = true) :
    mode = .panicOnOverflow ∧
      ∃ ds, Token.num ds ∈ lexStream src.toList ∧ i64Max < digitsToNat ds := by
  cases hp : parse mode src with
  | ok a => rw [hp] at h; exact absurd h (by simp [Outcome.isPanic])
  | diag c => rw [hp] at h; exact absurd h (by simp [Outcome.isPanic])
  | panic site => exact parseTokens_panic hp

/-- non-vacuity of `C18_lex_parse_total`: the witness input satisfies the hypothesis -/
example : (parse .panicOnOverflow (String.ofList C18_literalWitnessSrc)).isPanic = true := by
  unfold parse
  rw [String.toList_ofList]
  exact C18_literal_witness

/-- Contrapositive: a text all of whose number tokens fit `i64` is parsed to a program or a
diagnostic. -/
theorem C18_parse_no_panic_in_range (mode : LiteralMode) (src : String)
    (h : ∀ ds, Token.num ds ∈ lexStream src.toList → digitsToNat ds ≤ i64Max) :
    ∀ site, parse mode src ≠ .panic site := by
  intro site hp
  have ⟨_, ds, hm, ho⟩ := C18_lex_parse_total mode src (by rw [hp]; rfl)
  have := h ds hm
  omega

/-- non-vacuity: `def m():i64{7}` has only in-range literals -/
example : ∀ ds, Token.num ds ∈ lexStream ['d','e','f',' ','m','(',')',':','i','6','4','{','7','}'] →
    digitsToNat ds ≤ i64Max := by
  have h : lexStream ['d','e','f',' ','m','(',')',':','i','6','4','{','7','}'] =
      [.kw .def_, .lower ['m'], .lparen, .rparen, .colon, .kw .i64, .lbrace, .num ['7'], .rbrace] := by
    decide
  intro ds hm
  rw [h] at hm
  simp at hm
  subst hm
  decide

/-- C18, parser part, FULL statement for the repaired literal action: no input text panics. -/
theorem C18_parse_statement_fixed : C18_parse_statement .diagOnOverflow := by
  intro src site hp
  have := (C18_lex_parse_total .diagOnOverflow src (by rw [hp]; rfl)).1
  exact absurd this (by decide)

/-- Every outcome of the model parser is a program, a diagnostic or the literal panic (the "either a
program or a reported error" part, by construction of `Outcome`). -/
theorem C18_outcome_cases (mode : LiteralMode) (src : String) :
    (∃ p, parse mode src = .ok p) ∨ (∃ c, parse mode src = .diag c) ∨
      parse mode src = .panic .literal := by
  cases parse mode src with
  | ok p => exact .inl ⟨p, rfl⟩
  | diag c => exact .inr (.inl ⟨c, rfl⟩)
  | panic s => cases s; exact .inr (.inr rfl)

/-! ## axioms -/

#print axioms C18_literal_witness
#print axioms C18_min_literal_witness
#print axioms C18_parse_statement_false
#print axioms C18_lex_parse_total
#print axioms C18_parse_no_panic_in_range
#print axioms C18_parse_statement_fixed
#print axioms C18_outcome_cases

end Scc.Props
