/-
  Scc.Props.C12Fun2CoreStrict — the second fact about the output of fun2core that the middle passes need
  (`C12_link_fun2core_strict`, Props/C12Mid.lean: `q2.strictOk`, Scc/Core/TypedStrict.lean) as a THEOREM,
  and C12 for the stages S1 … S5 with NO typing link left as a hypothesis.

  * `C12_link_fun2core_strict_proved`  for every accepted program with a valid `main` that is not called
      and WITHOUT AN INSTANCE DECLARATION CALLED `_Cont`: the translation's output satisfies `strictOk`
      (no type `_Cont`; xtor names of each declaration pairwise distinct; every cut / μ type is `i64` or
      declared; the clauses of every (co)case are those of the declaration, in declaration order).
  * `C12_link_fun2core_strict_false`   the link as formulated (over ASTs, without the `_Cont` hypothesis) is
      false: the AST `data _Cont { K }  def main(): i64 { let x: _Cont = K; 0 }`.  The real lexer rejects
      `_Cont` (type names are `[A-Z][a-zA-Z0-9_]*`; checked with /repo/target/debug/scc): an imprecision
      of the formal statement, like `ς` for `C12_link_fun2core`, NOT a defect of /repo.
  * `C12_mid_fun2core_proved`          S3 passes the scoped shape typing, S4 passes the AxCut checker and is
      `WfNonLinear` — from `C12_link_fun2core_proved`, this file and `C12_mid_typed` (Props/C12Mid.lean).
  * `C12_chain_codegen_only`           C12 from the code-generator link ALONE (for programs without a name
      `ς` and without a type `_Cont`).
  * SOURCE LEVEL (`C12_source_*`): for every source TEXT that lexer + parser accept, the three side
      conditions on names (`programNamesOk`, no `ς`, no `_Cont`) are theorems (Scc/Fun2Core/TypedParse.lean,
      from C16-T3 `parseChars_good`), so:
      `C12_source_S1_S5`      parse ok → check ok → valid `main`, not called  ⇒  S1 … S5 succeed and are typed
      `C12_source_codegen_only`  … ⇒ `C12_conclusion`, given the code-generator link.
-/
import Scc.Props.C12Fun2Core
import Scc.Props.C12Mid
import Scc.Fun2Core.TypedParse

namespace Scc.Props

open Scc Scc.Pipeline Scc.Core Scc.Fun2Core Scc.Fun2Core.Typed
open Scc.Fun.Check (checkProgram programNamesOk)

/-- no instance declaration of the checked program is called `_Cont` (the name shrinking reserves for
the continuation type) -/
def C12_noContType (p' : Fun.CheckedProgram) : Bool :=
  p'.dataTypes.all (fun d => d.name != "_Cont") && p'.codataTypes.all (fun d => d.name != "_Cont")

/-- `C12_link_fun2core_strict` for programs without a type called `_Cont` -/
def C12_link_fun2core_strict_cont : Prop :=
  ∀ (p : Fun.Program) (p' : Fun.CheckedProgram) (q2 : Core.Prog),
    programNamesOk p = true → checkProgram p = .ok p' → validMain p' = true →
    Fun.noMainCall p' = true → C12_noContType p' = true →
    Fun2Core.compileProg p' = .ok q2 → q2.strictOk = true

theorem C12_freshGood_true : FreshGood (fun _ => True) := ⟨fun _ => trivial, fun _ => trivial⟩

/-- **C12_link_fun2core_strict_proved** -/
theorem C12_link_fun2core_strict_proved : C12_link_fun2core_strict_cont := by
  intro p p' q2 hn hc hv hmc hcont hq
  have hp : ProgHyp p' (fun _ => True) := by
    refine ⟨checkProgram_progM hn hc, ?_, C12_mainRet hv, fun d _ => ⟨fun _ _ => trivial, fun _ _ => trivial⟩⟩
    intro d hd
    simp only [Fun.noMainCall, List.all_eq_true] at hmc
    simpa using hmc d hd
  simp only [C12_noContType, Bool.and_eq_true, List.all_eq_true, bne_iff_ne, ne_eq] at hcont
  exact compileProg_strictOk C12_freshGood_true hp hcont.1 hcont.2 hq

/-! ## the middle passes, with both facts about fun2core discharged -/

/-- S3 is scoped-typed, S4 passes the AxCut checker and is well-formed non-linear AxCut -/
theorem C12_mid_fun2core_proved (p : Fun.Program) (p' : Fun.CheckedProgram)
    (hn : programNamesOk p = true) (hc : checkProgram p = .ok p') (hv : validMain p' = true)
    (hmc : Fun.noMainCall p' = true) (hs : C02_noSigmaNames p' = true)
    (hcont : C12_noContType p' = true) :
    ∃ q2, Fun2Core.compileProg p' = .ok q2 ∧ Input q2 ∧ typesDisjoint q2 = true ∧
      q2.strictOk = true ∧
      Core2AxCut.wtFsScopedCheck (Core.focusProg q2) = true ∧
      ∀ q4, Core2AxCut.shrinkProg (Core.focusProg q2) = .ok q4 →
        AxCut.Named.wtAxCheck q4 = .ok () ∧ AxCut.WfNonLinear q4 := by
  obtain ⟨q2, e2, hin, hdis⟩ := C12_link_fun2core_proved p p' hn hc hv hmc hs
  have hst := C12_link_fun2core_strict_proved p p' q2 hn hc hv hmc hcont e2
  obtain ⟨h3, h4⟩ := C12_mid_typed q2 hin hdis hst
  exact ⟨q2, e2, hin, hdis, hst, h3, h4⟩

/-- everything the chain knows about the stages, with no typing link as a hypothesis -/
theorem C12_facts_proved (p : Fun.Program) (p' : Fun.CheckedProgram)
    (hn : programNamesOk p = true) (hc : checkProgram p = .ok p') (hv : validMain p' = true)
    (hmc : Fun.noMainCall p' = true) (hs : C02_noSigmaNames p' = true)
    (hcont : C12_noContType p' = true) : ∃ st, C12_Facts p p' st := by
  obtain ⟨q2, e2, hin, hdis, _, hs3, h4⟩ := C12_mid_fun2core_proved p p' hn hc hv hmc hs hcont
  have hpf := focusPanicFree_of_wellTyped hdis hin.typed
  obtain ⟨q4, e4⟩ := C04_no_panic (Core.focusProg q2) (wtFsCheck_of_scoped hs3)
  obtain ⟨hax, hwf⟩ := h4 q4 e4
  obtain ⟨q5, e5, _, _⟩ := C05.C05_linearize_LinTyped q4 hwf
  have e3 : Core.focusProgE q2 = .ok (Core.focusProg q2) := focusProgE_ok_iff.2 ⟨hpf, rfl⟩
  refine ⟨⟨q2, Core.focusProg q2, q4, q5⟩, ?_⟩
  exact C12_facts_core hn hc hv (stages_ok_iff.2 ⟨e2, e3, e4, e5⟩) hin hs3 hax hwf

/-- **C12 for S1 … S5, proved**: every accepted program with a valid `main` that is not called (no name
`ς`, no type `_Cont`) goes through the whole middle end without an internal error, and every stage's
output is well-typed in that stage's own type system -/
theorem C12_S1_S5_proved (p : Fun.Program) (p' : Fun.CheckedProgram)
    (hn : programNamesOk p = true) (hc : checkProgram p = .ok p') (hv : validMain p' = true)
    (hmc : Fun.noMainCall p' = true) (hs : C02_noSigmaNames p' = true)
    (hcont : C12_noContType p' = true) :
    Fun.Typing.WT p ∧ Fun.Typing.annotatedProgram p' = true ∧
    ∃ st : Stages, stages p' = .ok st ∧ st.s2.wellTyped = true ∧
      Core2AxCut.wtFsCheck st.s3 = true ∧ Core.uniqueBindersCheck st.s3 = true ∧
      AxCut.Named.wtAxCheck st.s4 = .ok () ∧ AxCut.LinTypedProg st.s5 := by
  obtain ⟨st, F⟩ := C12_facts_proved p p' hn hc hv hmc hs hcont
  exact ⟨F.wt, F.annotated, st, F.ok, F.input2.typed, wtFsCheck_of_scoped F.scoped3, F.unique3,
    F.wtAx4, F.lin5⟩

/-- **C12 from the code-generator link alone** -/
theorem C12_chain_codegen_only (h6 : C12_link_codegen) :
    ∀ (p : Fun.Program) (p' : Fun.CheckedProgram),
      programNamesOk p = true → checkProgram p = .ok p' → validMain p' = true →
      Fun.noMainCall p' = true → C02_noSigmaNames p' = true → C12_noContType p' = true →
      C12_conclusion p p' := by
  intro p p' hn hc hv hmc hs hcont
  obtain ⟨st, F⟩ := C12_facts_proved p p' hn hc hv hmc hs hcont
  exact ⟨F.wt, F.annotated, st, F.ok, F.input2.typed, wtFsCheck_of_scoped F.scoped3, F.unique3,
    F.wtAx4, F.lin5, h6 p p' st hn hc hv hmc F.ok⟩

/-! ## source level: the side conditions on names hold for everything lexer + parser accept -/

theorem C12_source_names {mode : Fun.Parse.LiteralMode} {src : String} {p : Fun.Program}
    {p' : Fun.CheckedProgram} (hparse : Fun.Parse.parse mode src = .ok p)
    (hc : checkProgram p = .ok p') :
    programNamesOk p = true ∧ C02_noSigmaNames p' = true ∧ C12_noContType p' = true := by
  refine ⟨programNamesOk_of_parse hparse, ?_, ?_⟩
  · simp only [C02_noSigmaNames, List.all_eq_true, Bool.and_eq_true, Bool.not_eq_true',
      List.contains_eq_mem, decide_eq_false_iff_not]
    intro d hd
    obtain ⟨h1, h2⟩ := binders_lower_of_parse hparse hc d hd
    refine ⟨?_, ?_⟩
    · intro hm
      obtain ⟨b, hb, e⟩ := List.mem_map.1 hm
      exact lower_ne_sigma (h1 b hb) e
    · intro hm
      exact lower_ne_sigma (h2 _ hm) rfl
  · obtain ⟨h1, h2⟩ := instances_upper_of_parse hparse hc
    simp only [C12_noContType, Bool.and_eq_true, List.all_eq_true, bne_iff_ne, ne_eq]
    exact ⟨h1, h2⟩

/-- **C12 for S1 … S5, for every source text**: if lexer + parser accept `src`, the checker accepts the
result, `main` is valid and is not called, then the translation to Core, uniquification + focusing,
shrinking and linearization all succeed (no internal error) and each stage's output is well-typed in
that stage's own type system. -/
theorem C12_source_S1_S5 (mode : Fun.Parse.LiteralMode) (src : String) (p : Fun.Program)
    (p' : Fun.CheckedProgram) (hparse : Fun.Parse.parse mode src = .ok p)
    (hc : checkProgram p = .ok p') (hv : validMain p' = true) (hmc : Fun.noMainCall p' = true) :
    Fun.Typing.WT p ∧ Fun.Typing.annotatedProgram p' = true ∧
    ∃ st : Stages, stages p' = .ok st ∧ st.s2.wellTyped = true ∧
      Core2AxCut.wtFsCheck st.s3 = true ∧ Core.uniqueBindersCheck st.s3 = true ∧
      AxCut.Named.wtAxCheck st.s4 = .ok () ∧ AxCut.LinTypedProg st.s5 := by
  obtain ⟨hn, hs, hcont⟩ := C12_source_names hparse hc
  exact C12_S1_S5_proved p p' hn hc hv hmc hs hcont

/-- **C12 for every source text, from the code-generator link alone** -/
theorem C12_source_codegen_only (h6 : C12_link_codegen) (mode : Fun.Parse.LiteralMode) (src : String)
    (p : Fun.Program) (p' : Fun.CheckedProgram) (hparse : Fun.Parse.parse mode src = .ok p)
    (hc : checkProgram p = .ok p') (hv : validMain p' = true) (hmc : Fun.noMainCall p' = true) :
    C12_conclusion p p' := by
  obtain ⟨hn, hs, hcont⟩ := C12_source_names hparse hc
  exact C12_chain_codegen_only h6 p p' hn hc hv hmc hs hcont

/-- the fun2core facts, for every source text -/
theorem C12_source_fun2core (mode : Fun.Parse.LiteralMode) (src : String) (p : Fun.Program)
    (p' : Fun.CheckedProgram) (hparse : Fun.Parse.parse mode src = .ok p)
    (hc : checkProgram p = .ok p') (hv : validMain p' = true) (hmc : Fun.noMainCall p' = true) :
    ∃ q2, Fun2Core.compileProg p' = .ok q2 ∧ Input q2 ∧ typesDisjoint q2 = true ∧
      q2.strictOk = true := by
  obtain ⟨hn, hs, hcont⟩ := C12_source_names hparse hc
  obtain ⟨q2, e2, hin, hdis, hst, _⟩ := C12_mid_fun2core_proved p p' hn hc hv hmc hs hcont
  exact ⟨q2, e2, hin, hdis, hst⟩

/-! ## the strict link as formulated (over ASTs, without the `_Cont` hypothesis) is false -/

/-- `data _Cont { K }  def main(): i64 { let x: _Cont = K; 0 }` as an AST -/
def C12_contProg : Fun.Program :=
  ⟨[.data ⟨"_Cont", [], [⟨"K", []⟩]⟩,
    .defn ⟨"main", [], .i64, .letIn "x" (.decl "_Cont" .nil) (.ctor "K" .nil none) (.lit 0) none⟩]⟩

def C12_contCheck : Bool :=
  programNamesOk C12_contProg &&
  match checkProgram C12_contProg with
  | .ok p' =>
    validMain p' && Fun.noMainCall p' && !C12_noContType p' &&
    match Fun2Core.compileProg p' with
    | .ok q2 => !q2.strictOk
    | .error _ => false
  | _ => false

set_option maxRecDepth 100000 in
theorem C12_cont_checks : C12_contCheck = true := by decide +kernel

theorem C12_link_fun2core_strict_false : ¬ C12_link_fun2core_strict := by
  intro hlink
  have h := C12_cont_checks
  unfold C12_contCheck at h
  simp only [Bool.and_eq_true] at h
  obtain ⟨hn, h⟩ := h
  cases hc : checkProgram C12_contProg with
  | ok p' =>
    rw [hc] at h
    simp only [Bool.and_eq_true] at h
    obtain ⟨⟨⟨hv, hmc⟩, _⟩, h⟩ := h
    cases hq : Fun2Core.compileProg p' with
    | ok q2 =>
      rw [hq] at h
      have := hlink C12_contProg p' q2 hn hc hv hmc hq
      simp [this] at h
    | error e => rw [hq] at h; cases h
  | diag c => rw [hc] at h; cases h
  | panic c => rw [hc] at h; cases h

/-! ## non-vacuity: the two example programs of Props/C12Fun2Core.lean have no type `_Cont` -/

def C12_strictExChecks (src : String) : Bool :=
  match Fun.Parse.parse .diagOnOverflow src with
  | .ok p =>
    programNamesOk p &&
    match checkProgram p with
    | .ok p' =>
      validMain p' && Fun.noMainCall p' && C02_noSigmaNames p' && C12_noContType p' &&
      match Fun2Core.compileProg p' with
      | .ok q2 => q2.strictOk   -- re-evaluated here, independently of the theorem
      | .error _ => false
    | _ => false
  | _ => false

set_option maxRecDepth 100000 in
theorem C12_strict_example_checks : C12_strictExChecks C12_exSrc = true := by decide +kernel

set_option maxRecDepth 100000 in
theorem C12_strict_example2_checks : C12_strictExChecks C12_f2cExSrc2 = true := by decide +kernel

#print axioms C12_link_fun2core_strict_proved
#print axioms C12_mid_fun2core_proved
#print axioms C12_facts_proved
#print axioms C12_S1_S5_proved
#print axioms C12_chain_codegen_only
#print axioms C12_source_names
#print axioms C12_source_S1_S5
#print axioms C12_source_codegen_only
#print axioms C12_source_fun2core
#print axioms C12_link_fun2core_strict_false
#print axioms C12_strict_example_checks
#print axioms C12_strict_example2_checks

end Scc.Props
