/-
  Scc.Props.C08RVHeap — property C08 (RISC-V backend), Theorem B for RV64 WITH THE HEAP (rung 4): allocation
  (`let`) and pattern matching (`switch`) on data types, and THEOREM A ∘ THEOREM B FOR PROGRAMS WITH DATA TYPES.

  The relation is THREE-WAY at statement boundaries (Scc/RV/RefDefs.lean, see the header of
  Props/C08RVInt.lean); the abstract heap is represented by the machine memory through the heap refinement
  `HRef` (Props/C09Refine.lean) composed with the memory contracts' `HeapRel` (Props/C08RV.lean).

  PROVED (no `sorry`, axioms: propext, Classical.choice, Quot.sound):
  * `C08_erase_refines`, `C08_share_refines`: the abstract `erase` / `share` against the emitted
    `Memory::erase_block` / `share_block_n` (Scc/RV/RefMem.lean ∘ `href_erase` / `href_share`); the
    "no overflow" side condition of `share_block_n` is discharged from the counting invariant.
  * `C08_store_refines` (`store_x3`): the abstract `store kinds n` against the emitted `Memory::store`
    (`C08_store_correct` ∘ `href_store`).
  * `C08_load_refines` (`load_x3`): the abstract `load kinds n` (unique: the object is freed; shared: count
    decremented, children shared) against the emitted `Memory::load` (`C08_load_correct` ∘ `href_load_full`);
    the "no overflow" side condition of the shared branch of `C08_load_correct` is DISCHARGED from the
    counting invariant (`live_header_lt`).
  * `C08_let_rv` (`let_x3`): three-way simulation of `let`: the positional machine's step, two steps of the
    abstract machine and the machine's execution of comments, `Memory::store`, tag load (`LI t (4·pos)`).
    Hypothesis besides those of `sim2_let`: room for the blocks (C10: frontier + 64·(fields + 1) ≤ limit).
  * `C08_switch_rv` (`switch_x3`): three-way simulation of `switch` on an object: single clause (fall
    through) and jump table (`LA TEMP table; ADD TEMP TEMP tag; JALR X0 TEMP 0` lands on the `tag/4`-th 4-byte
    `JAL` of the table: byte addresses of the laid-out program, `Loaded.addrs`), then `Memory::load` of the
    clause.  Hypothesis besides those of `sim2_switch`: the routine ends below 2^64 (`hfitX`) and the
    capacity of 14 variables.
  * `C08_step_rv` (`step3`): Theorem A's `TheoremA_full` with the machine carried along, for EVERY statement
    form (lit, op, ifc, exit, call, subst, let, switch, create, invoke; `print` has no RV64 code).
  * `C08_data_programs`: END TO END for print-free programs with data types (no closures) and at most 14
    variables at every reachable state, on the parsed LINES of the emitted routine: a terminating run of
    the positional machine with result `v` is reproduced by the RV64 SPEC machine started at the first
    label: it reaches `cleanup` with `v` in `X10`.  The heap frontier is tracked along the run (`FrLe` /
    `Room`): 64·15 bytes per step suffice.  `C08_data_programs_text`: on the TEXT, given `C08_TextLoads`.
  * `C08_capacity_of_liveAtMost`, `C08_data_programs_live`: the bound on the reachable states follows from the
    STATIC hypothesis `LiveAtMost maxVariables p` of `C08_statement` (closure-free programs).
  KEPT AS `def : Prop`: `C08_data_programs_statement`, the run theorem without the side hypotheses of
  `C08_data_programs` that are not yet derived from the others (all decidable on the program / the emitted
  routine): success of the mock code generator and `CodeFits` of its code, pairwise distinct labels of the
  routine, routine below 2^64, `fuel + 1 < 2^64`; and `C08_loader_statement` (Props/C08RVInt.lean).
  Closures (`create` / `invoke`) and the run theorem for ALL programs: Props/C08RVClo.lean (the statements
  `C08_let_rv`, `C08_switch_rv` … here already carry the machine words `cw`, `τ` of the closures along).
-/
import Scc.Props.C08RVInt
import Scc.RV.RefEval

namespace Scc.RV

open Scc.AxCut Scc.AxCut.Pos Scc.Backend Scc.Backend.Abs Scc.Backend.Sim Scc.Backend.Sim2 Scc.RV.Ref
open Scc.Backend.Subst (rp)
open Scc.Heap (HState InvS)
open Scc.Heap.Refine (FrLe Room loadAbs)
open Scc.Props.C06Generic (Reachable WithinCapacity CodeFits EnoughHeap)
open Scc.Props.C14Generic (LabelSafe)

section Heap4

variable {mc : MonCfg} {cw : Nat → Word} {τ : Nat → Nat → Word}

/-- the abstract `erase` against the emitted `Memory::erase_block` -/
theorem C08_erase_refines {la : String → Option Nat}
    {Γ : Ctx} {cfg cfg1 : Config} {rsKeep : List Nat} {hs : HState} {ι : Nat → Nat} {st : State}
    {i : Nat} (hi : i < Γ.length) (hc : Γ[i].chi ≠ .ext) {p : Word}
    (X : X3R mc cw τ Γ cfg (rsKeep ++ rp p) hs ι st)
    (hp : cfg.temps.get (2 * i) = some p) {h' : Heap} (he : cfg.heap.erase p = .ok h')
    (hcfg1 : cfg1 =
      { cfg with pc := cfg.pc + 1, temps := (clobberTemp cfg.temps).unset (2 * i), heap := h' })
    (kk : Nat) :
    ∃ code, (eraseBlock (posTemp (2 * i))).run kk = .ok (code, kk + 3) ∧ MemFree code ∧
      Code.LAB "cleanup" ∉ code ∧
      ∃ st' hs', execFwd mc la code st = .ok (st', .fall) ∧
        X3R mc cw τ Γ cfg1 rsKeep hs' ι st' ∧ FrLe hs hs' 0 :=
  erase_x3 hi hc X hp he hcfg1 kk

/-- the abstract `share` against the emitted `Memory::share_block_n` -/
theorem C08_share_refines {la : String → Option Nat}
    {Γ : Ctx} {cfg cfg1 : Config} {rs : List Nat} {hs : HState} {ι : Nat → Nat} {st : State}
    {i : Nat} (hi : i < Γ.length) (hc : Γ[i].chi ≠ .ext) {p : Word}
    (X : X3R mc cw τ Γ cfg rs hs ι st) (hmem : p ≠ 0 → p.toNat ∈ rs) (hrs : rs.length ≤ 2 ^ 40)
    (hp : cfg.temps.get (2 * i) = some p) {k : Nat} (hk : k < 2 ^ 31) {h' : Heap}
    (he : cfg.heap.share p k = .ok h')
    (hcfg1 : cfg1 = { cfg with pc := cfg.pc + 1, temps := clobberTemp cfg.temps, heap := h' })
    (kk : Nat) :
    ∃ code, (shareBlockN (posTemp (2 * i)) k).run kk = .ok (code, kk + 1) ∧ MemFree code ∧
      Code.LAB "cleanup" ∉ code ∧
      ∃ st' hs', execFwd mc la code st = .ok (st', .fall) ∧
        X3R mc cw τ Γ cfg1 (rs ++ (List.replicate k (rp p)).flatten) hs' ι st' ∧ FrLe hs hs' 0 :=
  share_x3 hi hc X hmem hrs hp hk he hcfg1 kk

/-- the abstract `store` (at least one field) against the emitted `Memory::store` -/
theorem C08_store_refines {la : String → Option Nat}
    {Γ : Ctx} {cfg cfg1 : Config} {hs : HState} {ι : Nat → Nat} {st : State}
    (X : X3 mc cw τ Γ cfg hs ι st) {n : Nat} (hn : n < Γ.length) {fields : List Abs.Field}
    (hf : readFields cfg.temps (Mock.kindsOf (Γ.drop n)) n = some fields)
    (hch : Obj.children ⟨0, fields⟩ = roots.go cfg.temps (Γ.drop n) n)
    (hnext : cfg.next < 2 ^ 64)
    (hlow : ∀ t, t < 2 * n → cfg1.temps.get t = cfg.temps.get t)
    (hheap : cfg1.heap = (cfg.next, ⟨0, fields⟩) :: cfg.heap) (hnx : cfg1.next = cfg.next + 1)
    (hroom : Room hs (64 * (Γ.length - n) + 64)) (kk : Nat) :
    ∃ code kk', (store (Γ.drop n) (Γ.take n)).run kk = .ok (code, kk') ∧ MemFree code ∧
      Code.LAB "cleanup" ∉ code ∧
      ∃ st' hs' p, execFwd mc la code st = .ok (st', .fall) ∧
        X3R mc cw (storeTau τ cfg.next cw n) (Γ.take n) cfg1 (roots (Γ.take n) cfg.temps ++ [cfg.next]) hs'
          (fun i => if i = cfg.next then p else ι i) st' ∧
        rv st' (2 * n) = some (BitVec.ofNat 64 p) ∧ p ≠ 0 ∧ p < 2 ^ 64 ∧
        FrLe hs hs' (64 * (Γ.length - n)) :=
  store_x3 X hn hf hch hnext hlow hheap hnx hroom kk

/-- the abstract `load` (at least one field) against the emitted `Memory::load` -/
theorem C08_load_refines {la : String → Option Nat}
    {Γ' Δ : Ctx} {b : Binding} {cfg cfg4 cfg' : Config} {hs : HState} {ι : Nat → Nat} {st : State}
    {r : Word} {o : Obj} {h' : Heap}
    (X : X3 mc cw τ (Γ' ++ [b]) cfg hs ι st) (hb : b.chi ≠ .ext)
    (hr : cfg.temps.get (2 * Γ'.length) = some r) (hr0 : r ≠ 0)
    (hg : cfg.heap.get r.toNat = some o)
    (hk : o.fields.map (·.chi) = Mock.kindsOf Δ) (hne : o.fields ≠ [])
    (hcapΔ : Γ'.length + Δ.length ≤ 14)
    (h4next : cfg4.next = cfg.next)
    (h4temps : ∀ t, t < 2 * (Γ'.length + 1) → cfg4.temps.get t = cfg.temps.get t)
    (hlo : loadAbs cfg.heap r.toNat o = .ok h')
    (hcfg' : cfg' =
      { cfg4 with pc := cfg4.pc + 1, temps := writeFields (clobberTemp cfg4.temps) o.fields Γ'.length, heap := h' })
    (kk : Nat) :
    ∃ code kk', (load Δ Γ').run kk = .ok (code, kk') ∧ MemFree code ∧ Code.LAB "cleanup" ∉ code ∧
      ∃ st' hs', execFwd mc la code st = .ok (st', .fall) ∧
        X3 mc (loadCw cw Γ'.length (τ r.toNat)) τ (Γ' ++ Δ) cfg' hs' ι st' ∧ FrLe hs hs' 0 :=
  load_x3 X hb hr hr0 hg hk hne hcapΔ h4next h4temps hlo hcfg' kk

variable {pr : RV.Program} {ks : List Code} (L : Loaded pr ks) (hnd : (labs ks).Nodup)
  (hheap : mc.heap = false)

include L hnd hheap in
/-- THREE-WAY SIMULATION OF `let` on RV64 -/
theorem C08_let_rv {P : Abs.Program} {hooks : Bool} {prog : AxCut.Prog} {Γ : Ctx} {ρ : List Value} {x : Ident}
    {ty : Ty} {tag : Ident} {args : Ctx} {next : Stmt} {fv : FV} {cfg : Config} {pos : Nat}
    (R : RelX P hooks prog ⟨Γ, ρ, .letS x ty tag args next fv⟩ cfg)
    (hk : args.length ≤ Γ.length)
    (hfresh : ∀ b ∈ Γ.take (Γ.length - args.length), b.var.id ≠ x.id)
    (hpos : Pos.tagPosition prog.types ty tag = .ok pos)
    (hcap : 2 * (Γ.length - args.length + 1) + 2 < Mock.T_TEMP)
    (hnext : cfg.next < 2 ^ 64)
    {hs : HState} {ι : Nat → Nat} {st : State} (X : X3 mc cw τ Γ cfg hs ι st)
    {k k' : Nat} {items : List Code}
    (hrun : (codeStatementR rvBackend hooks natRen prog.types (.letS x ty tag args next fv) Γ).run k =
      .ok (items, k'))
    (hat : KAt ks st.pc items)
    (hroom : Room hs (64 * args.length + 64)) :
    ∃ cfg' st' hs' ι', stepsTo P 2 cfg cfg' ∧ Reach pr mc st st' ∧ FrLe hs hs' (64 * args.length) ∧
      cfg'.out = cfg.out ∧ cfg'.next ≤ cfg.next + 1 ∧
      RelX P hooks prog ⟨Γ.take (Γ.length - args.length) ++ [⟨x, .prd, ty⟩],
        ρ.take (Γ.length - args.length) ++ [.obj pos (ρ.drop (Γ.length - args.length))], next⟩ cfg' ∧
      X3 mc cw (letTau τ cfg.next cw (Γ.length - args.length) args.length)
        (Γ.take (Γ.length - args.length) ++ [⟨x, .prd, ty⟩]) cfg' hs' ι' st' ∧
      ∃ k1 k1' items', (codeStatementR rvBackend hooks natRen prog.types next
          (Γ.take (Γ.length - args.length) ++ [⟨x, .prd, ty⟩])).run k1 = .ok (items', k1') ∧
        KAt ks st'.pc items' :=
  let_x3 L hnd hheap R hk hfresh hpos hcap hnext X hrun hat hroom

include L hnd hheap in
/-- THREE-WAY SIMULATION OF `switch` on RV64 -/
theorem C08_switch_rv (hfitX : codeBase + 4 * icount ks < 2 ^ 64)
    {P : Abs.Program} {hooks : Bool} {prog : AxCut.Prog} {Γ' : Ctx} {b : Binding}
    {ρ' : List Value} {pos : Nat} {fields : List Value} {x : Ident} {ty : Ty} {clauses : Clauses}
    {fv : FV} {cfg : Config} {c : Clause}
    (R : RelX P hooks prog ⟨Γ' ++ [b], ρ' ++ [.obj pos fields], .switch x ty clauses fv⟩ cfg)
    (hfits : Fits P)
    (hb : b.var.id = x.id) (hfresh : ∀ b' ∈ Γ', b'.var.id ≠ x.id)
    (hclause : nthClause clauses pos = some c)
    (hkinds : fields.map Sim2.kindOf = Mock.kindsOf c.ctx)
    (hcap : 2 * (Γ'.length + c.ctx.length) + 2 < Mock.T_TEMP)
    {hs : HState} {ι : Nat → Nat} {st : State} (X : X3 mc cw τ (Γ' ++ [b]) cfg hs ι st)
    {k k' : Nat} {items : List Code}
    (hrun : (codeStatementR rvBackend hooks natRen prog.types (.switch x ty clauses fv) (Γ' ++ [b])).run k =
      .ok (items, k'))
    (hat : KAt ks st.pc items)
    (hcapX : Γ'.length + c.ctx.length ≤ 14)
    {Q : Word → Ctx → Clauses → Prop}
    (CVh : CVals P hooks prog.types Q cw τ cfg.heap cfg.temps (Γ' ++ [b]) (ρ' ++ [.obj pos fields])) :
    ∃ kk cfg' st' hs', stepsTo P kk cfg cfg' ∧ Reach pr mc st st' ∧ FrLe hs hs' 0 ∧
      cfg'.out = cfg.out ∧ cfg'.next = cfg.next ∧
      RelX P hooks prog ⟨Γ' ++ c.ctx, ρ' ++ fields, c.body⟩ cfg' ∧
      (∃ r, cfg.temps.get (2 * Γ'.length) = some r ∧
        X3 mc (loadCw cw Γ'.length (τ r.toNat)) τ (Γ' ++ c.ctx) cfg' hs' ι st' ∧
        CVals P hooks prog.types Q (loadCw cw Γ'.length (τ r.toNat)) τ cfg'.heap cfg'.temps (Γ' ++ c.ctx)
          (ρ' ++ fields)) ∧
      ∃ k1 k1' items', (codeStatementR rvBackend hooks natRen prog.types c.body (Γ' ++ c.ctx)).run k1 =
          .ok (items', k1') ∧ KAt ks st'.pc items' :=
  switch_x3 L hnd hheap hfitX R hfits hb hfresh hclause hkinds hcap X hrun hat hcapX CVh

end Heap4

/-! ## the run theorem for programs with data types -/

/-- THE THREE-WAY STEP: every step of the positional machine from a typed state in the three-way relation is
reproduced by the RV64 machine, and the relation holds again (`StepSim3`: with the bound on the object counter
and on the heap frontier).  ALL statements: `print` has no RV64 code, so it is never the current statement. -/
theorem C08_step_rv {mc : MonCfg} {pr : RV.Program} {ks : List Code} (L : Loaded pr ks)
    (hndL : (labs ks).Nodup) (hheap : mc.heap = false) {ic : Nat} (hclean : labIdx ks "cleanup" = some ic)
    (hicl : ic + 1 = ks.length)
    (hfitX : codeBase + 4 * icount ks < 2 ^ 64)
    (hooks : Bool) (prog : AxCut.Prog) (c : Nat) (code : List MockOp) (nargs c' : Nat)
    (hcomp : (compile mockSym hooks prog).run c = .ok ((code, nargs), c'))
    (hsafe : LabelSafe prog = true) (htp : LinTypedProg prog) (hfit : CodeFits code)
    (DX : KDefsAt ks hooks prog)
    (st : Pos.State) (cfg : Config) (hs : HState) (X : State)
    (R : Rel3 mc ks (Program.ofOps code) hooks prog st cfg hs X)
    (T : Pos.StateTyped prog st) (hheapA : EnoughHeap cfg)
    (hroom : Room hs (64 * 15)) :
    StepSim3 mc pr ks (Program.ofOps code) hooks prog st cfg hs X :=
  step3 L hndL hheap hclean hicl hfitX hooks prog c code nargs c' hcomp hsafe htp hfit DX st cfg hs X R T hheapA
    hroom

mutual
  /-- no `create` / `invoke` anywhere -/
  def closureFreeStmt : Stmt → Bool
    | .subst _ next => closureFreeStmt next
    | .call _ _ => true
    | .letS _ _ _ _ next _ => closureFreeStmt next
    | .switch _ _ cs _ => closureFreeClauses cs
    | .create _ _ _ _ _ _ _ => false
    | .invoke _ _ _ _ => false
    | .lit _ _ next _ => closureFreeStmt next
    | .op _ _ _ _ next _ => closureFreeStmt next
    | .print _ _ next _ => closureFreeStmt next
    | .ifc _ _ _ t e => closureFreeStmt t && closureFreeStmt e
    | .exit _ => true
  def closureFreeClauses : Clauses → Bool
    | .nil => true
    | .cons _ _ body rest => closureFreeStmt body && closureFreeClauses rest
end

/-- programs with data types: no closures -/
def ClosureFree (p : AxCut.Prog) : Prop := ∀ d ∈ p.defs, closureFreeStmt d.body = true

/-- END TO END for print-free programs with data types (no closures), on the parsed LINES of the emitted
routine, FULL STRENGTH.  Proved with further decidable side hypotheses as `C08_data_programs`. -/
def C08_data_programs_statement : Prop :=
  ∀ (p : AxCut.Prog) (args : List Word) (hooks : Bool) (instrs hdr : List Code) (nargs cX : Nat) (d0 : Def),
    LabelSafe p = true → LinTypedProg p → ClosureFree p → PrintFree p →
    (compile rvBackend hooks p).run 0 = .ok ((instrs, nargs), cX) →
    p.defs.head? = some d0 → (∀ b ∈ d0.ctx, b.chi = .ext ∧ b.ty = .i64) →
    (∀ st, Reachable p ⟨d0.ctx, args.map .int, d0.body⟩ st → st.ctx.length ≤ maxVariables) →
    ∀ (fuel : Nat) (v : Word), (Pos.run p args fuel).res = .done v →
    ∃ heapBytes, ∀ (mc : MonCfg), mc.heap = false → heapBase + mc.heapBytes ≤ 2 ^ 63 →
      heapBytes ≤ mc.heapBytes →
      ∀ (lines : List (Nat × Code)), (∀ c ∈ hdr, c.isComment = true) →
      (lines.map (·.2)).map stripC = (hdr ++ instrs ++ [Code.LAB "cleanup"]).map stripC →
      (∀ x ∈ lines, ¬ badHook x.2) →
      ∃ fuel', (runLines lines args fuel' mc).res = .done v

/-- THEOREM A ∘ THEOREM B FOR PROGRAMS WITH DATA TYPES (print-free, no closures, at most 14 variables at
every reachable state), on the parsed LINES of the emitted routine: a terminating run of the AxCut positional
machine with result `v` is reproduced by the RV64 SPEC machine started at the first label: it reaches
`cleanup` with `v` in `X10`.  Side hypotheses (all decidable on the program, the emitted code or the machine
configuration): the mock code generator succeeds and its code fits the address space (`hcompM`, `hfit`:
Theorem A), the labels of the routine are pairwise distinct (`hnd`), the routine ends below 2^64 (`hfitX`),
the heap monitor is off, the heap region lies below 2^63 and has 64·15 bytes per step of the run. -/
theorem C08_data_programs (p : AxCut.Prog) (args : List Word) (hooks : Bool) (instrs hdr : List Code)
    (nargs cX : Nat) (d0 : Def) (ops : List MockOp) (c' : Nat)
    (hsafe : LabelSafe p = true) (htp : LinTypedProg p) (hcf : ClosureFree p) (hpf : PrintFree p)
    (hcompM : (compile mockSym hooks p).run 0 = .ok ((ops, nargs), c')) (hfit : CodeFits ops)
    (hcompX : (compile rvBackend hooks p).run 0 = .ok ((instrs, nargs), cX))
    (hnd : (labs (instrs ++ [Code.LAB "cleanup"])).Nodup) (hfitX : codeBase + 4 * instrs.length < 2 ^ 64)
    (hd : p.defs.head? = some d0) (hentry : ∀ b ∈ d0.ctx, b.chi = .ext ∧ b.ty = .i64)
    (hcap : ∀ st, Reachable p ⟨d0.ctx, args.map .int, d0.body⟩ st → st.ctx.length ≤ maxVariables)
    (fuel : Nat) (v : Word) (hfuel : fuel + 1 < 2 ^ 64)
    (hrun : (Pos.run p args fuel).res = .done v)
    (mc : MonCfg) (hheap : mc.heap = false) (htop : heapBase + mc.heapBytes ≤ 2 ^ 63)
    (hbytes : 128 + 64 * 15 * fuel ≤ mc.heapBytes)
    (lines : List (Nat × Code)) (hhdr : ∀ c ∈ hdr, c.isComment = true)
    (hlines : (lines.map (·.2)).map stripC = (hdr ++ instrs ++ [Code.LAB "cleanup"]).map stripC)
    (hhook : ∀ x ∈ lines, ¬ badHook x.2) :
    ∃ fuel', (runLines lines args fuel' mc).res = .done v :=
  programs_lines p args hooks instrs hdr nargs cX d0 ops c' hsafe htp
    hcompM hfit hcompX hnd hfitX hd hentry hcap
    fuel v hfuel hrun mc hheap htop hbytes lines hhdr hlines hhook

/-- rung 4 on the TEXT: `RV.run` on the text of `compileRoutine`, given that this text loads -/
theorem C08_data_programs_text (p : AxCut.Prog) (args : List Word) (hooks : Bool) (text : String)
    (nargs : Nat) (d0 : Def) (ops : List MockOp) (c' : Nat)
    (hsafe : LabelSafe p = true) (htp : LinTypedProg p) (hcf : ClosureFree p) (hpf : PrintFree p)
    (hcompM : (compile mockSym hooks p).run 0 = .ok ((ops, nargs), c')) (hfit : CodeFits ops)
    (hcompX : compileRoutine p hooks 0 = .ok (nargs, text))
    (hnd : ∀ instrs, intoRoutine instrs = text → (labs (instrs ++ [Code.LAB "cleanup"])).Nodup ∧
      codeBase + 4 * instrs.length < 2 ^ 64)
    (hload : ∀ instrs, intoRoutine instrs = text → C08_TextLoads instrs)
    (hd : p.defs.head? = some d0) (hentry : ∀ b ∈ d0.ctx, b.chi = .ext ∧ b.ty = .i64)
    (hcap : ∀ st, Reachable p ⟨d0.ctx, args.map .int, d0.body⟩ st → st.ctx.length ≤ maxVariables)
    (fuel : Nat) (v : Word) (hfuel : fuel + 1 < 2 ^ 64)
    (hrun : (Pos.run p args fuel).res = .done v)
    (mc : MonCfg) (hheap : mc.heap = false) (hwf : mc.wf = false) (htop : heapBase + mc.heapBytes ≤ 2 ^ 63)
    (hbytes : 128 + 64 * 15 * fuel ≤ mc.heapBytes) :
    ∃ fuel', (run text args fuel' mc).res = .done v := by
  unfold compileRoutine at hcompX
  cases hx : (compile rvBackend hooks p).run 0 with
  | error e => rw [hx] at hcompX; cases hcompX
  | ok r =>
    obtain ⟨⟨instrs, nargs'⟩, cX⟩ := r
    rw [hx] at hcompX
    simp only [Except.ok.injEq, Prod.mk.injEq] at hcompX
    obtain ⟨rfl, rfl⟩ := hcompX
    obtain ⟨lines, hparse, hlines, hhook⟩ := hload instrs rfl
    obtain ⟨fuel', hf⟩ := C08_data_programs p args hooks instrs [Code.COMMENT "actual code"] nargs' cX d0 ops c'
      hsafe htp hcf hpf hcompM hfit hx (hnd instrs rfl).1 (hnd instrs rfl).2 hd hentry hcap fuel v hfuel hrun mc hheap
      htop hbytes lines (fun c hc => by simp at hc; subst hc; rfl) hlines hhook
    exact ⟨fuel', by rw [run_eq_runLines hparse args fuel' mc hwf]; exact hf⟩

/-! ## the capacity hypothesis from the static bound `LiveAtMost` of the C08 statement -/

theorem ctxWithinClauses_nth (k : Nat) : ∀ (cs : Clauses) (pre post : Ctx) (i : Nat) (c : Clause),
    ctxWithinClauses k cs pre post = true → nthClause cs i = some c →
    ctxWithinStmt k c.body (pre ++ c.ctx ++ post) = true
  | .nil, _, _, _, _, _, h => by simp [nthClause] at h
  | .cons x ctx body rest, pre, post, 0, c, hw, h => by
    simp only [nthClause, Option.some.injEq] at h
    subst h
    simp only [ctxWithinClauses, Bool.and_eq_true] at hw
    exact hw.1
  | .cons x ctx body rest, pre, post, i + 1, c, hw, h => by
    simp only [nthClause] at h
    simp only [ctxWithinClauses, Bool.and_eq_true] at hw
    exact ctxWithinClauses_nth k rest pre post i c hw.2 h

theorem closureFreeClauses_nth : ∀ (cs : Clauses) (i : Nat) (c : Clause),
    closureFreeClauses cs = true → nthClause cs i = some c → closureFreeStmt c.body = true
  | .nil, _, _, _, h => by simp [nthClause] at h
  | .cons x ctx body rest, 0, c, hw, h => by
    simp only [nthClause, Option.some.injEq] at h
    subst h
    simp only [closureFreeClauses, Bool.and_eq_true] at hw
    exact hw.1
  | .cons x ctx body rest, i + 1, c, hw, h => by
    simp only [nthClause] at h
    simp only [closureFreeClauses, Bool.and_eq_true] at hw
    exact closureFreeClauses_nth rest i c hw.2 h

theorem ctxWithin_length {k : Nat} {s : Stmt} {Γ : Ctx} (h : ctxWithinStmt k s Γ = true) : Γ.length ≤ k := by
  cases s <;> simp only [ctxWithinStmt, Bool.and_eq_true, decide_eq_true_eq] at h
  all_goals first | exact h | exact h.1 | exact h.1.1

/-- one step of the positional machine keeps the static invariant of closure-free programs -/
theorem liveInv_step {k : Nat} {p : AxCut.Prog} (hcf : ClosureFree p) (hlive : LiveAtMost k p)
    {st st' : Pos.State} {o : Option (Bool × Word)} (hs : Pos.step p st = .next st' o)
    (h1 : ctxWithinStmt k st.stmt st.ctx = true) (h2 : closureFreeStmt st.stmt = true) :
    ctxWithinStmt k st'.stmt st'.ctx = true ∧ closureFreeStmt st'.stmt = true := by
  obtain ⟨Γ, ρ, s⟩ := st
  simp only at h1 h2
  cases s with
  | lit x n next fv =>
    simp only [Pos.step, Pos.StepResult.next.injEq] at hs
    obtain ⟨rfl, _⟩ := hs
    simp only [ctxWithinStmt, closureFreeStmt, Bool.and_eq_true] at h1 h2 ⊢
    exact ⟨h1.2, h2⟩
  | op x a o' b next fv =>
    simp only [Pos.step] at hs
    split at hs
    · cases hs
    · split at hs
      · cases hs
      · split at hs
        · cases hs
        · simp only [Pos.StepResult.next.injEq] at hs
          obtain ⟨rfl, _⟩ := hs
          simp only [ctxWithinStmt, closureFreeStmt, Bool.and_eq_true] at h1 h2 ⊢
          exact ⟨h1.2, h2⟩
  | print nl a next fv =>
    simp only [Pos.step] at hs
    split at hs
    · cases hs
    · simp only [Pos.StepResult.next.injEq] at hs
      obtain ⟨rfl, _⟩ := hs
      simp only [ctxWithinStmt, closureFreeStmt, Bool.and_eq_true] at h1 h2 ⊢
      exact ⟨h1.2, h2⟩
  | ifc srt a b t e =>
    simp only [ctxWithinStmt, closureFreeStmt, Bool.and_eq_true] at h1 h2
    simp only [Pos.step] at hs
    split at hs
    · cases hs
    · split at hs
      · simp only [Pos.StepResult.next.injEq] at hs
        obtain ⟨rfl, _⟩ := hs
        simp only
        split
        · exact ⟨h1.1.2, h2.1⟩
        · exact ⟨h1.2, h2.2⟩
      · split at hs
        · cases hs
        · simp only [Pos.StepResult.next.injEq] at hs
          obtain ⟨rfl, _⟩ := hs
          simp only
          split
          · exact ⟨h1.1.2, h2.1⟩
          · exact ⟨h1.2, h2.2⟩
  | exit a =>
    simp only [Pos.step] at hs
    split at hs <;> cases hs
  | letS x ty tag args next fv =>
    simp only [Pos.step] at hs
    split at hs
    · cases hs
    · split at hs
      · cases hs
      · simp only [Pos.StepResult.next.injEq] at hs
        obtain ⟨rfl, _⟩ := hs
        simp only [ctxWithinStmt, closureFreeStmt, Bool.and_eq_true] at h1 h2 ⊢
        exact ⟨h1.2, h2⟩
  | switch x ty clauses fv =>
    simp only [ctxWithinStmt, closureFreeStmt, Bool.and_eq_true] at h1 h2
    simp only [Pos.step] at hs
    split at hs
    · split at hs
      · cases hs
      · split at hs
        · split at hs
          · cases hs
          · rename_i c hc
            split at hs
            · cases hs
            · simp only [Pos.StepResult.next.injEq] at hs
              obtain ⟨rfl, _⟩ := hs
              simp only
              have := ctxWithinClauses_nth k clauses Γ.dropLast [] _ c h1.2 hc
              rw [List.append_nil] at this
              exact ⟨this, closureFreeClauses_nth clauses _ c h2 hc⟩
        · cases hs
    · cases hs
  | create x ty env clauses next fc fn => simp [closureFreeStmt] at h2
  | invoke x tag ty args => simp [closureFreeStmt] at h2
  | call l args =>
    simp only [Pos.step] at hs
    split at hs
    · cases hs
    · rename_i d hd
      split at hs
      · cases hs
      · simp only [Pos.StepResult.next.injEq] at hs
        obtain ⟨rfl, _⟩ := hs
        have hdm : d ∈ p.defs := List.mem_of_find?_eq_some hd
        exact ⟨hlive d hdm, hcf d hdm⟩
  | subst pairs next =>
    simp only [Pos.step] at hs
    split at hs
    · cases hs
    · simp only [Pos.StepResult.next.injEq] at hs
      obtain ⟨rfl, _⟩ := hs
      simp only [ctxWithinStmt, closureFreeStmt, Bool.and_eq_true] at h1 h2 ⊢
      exact ⟨h1.2, h2⟩

/-- THE CAPACITY HYPOTHESIS FROM THE STATIC BOUND: in a closure-free program with at most `k` simultaneously
live variables (`LiveAtMost`, the hypothesis of `C08_statement`), every state the positional machine reaches
from the entry of a definition has at most `k` variables -/
theorem C08_capacity_of_liveAtMost {k : Nat} {p : AxCut.Prog} (hcf : ClosureFree p) (hlive : LiveAtMost k p)
    {d0 : Def} (hd0 : d0 ∈ p.defs) (ρ : List Value) :
    ∀ st, Reachable p ⟨d0.ctx, ρ, d0.body⟩ st → st.ctx.length ≤ k := by
  intro st hr
  have key : ctxWithinStmt k st.stmt st.ctx = true ∧ closureFreeStmt st.stmt = true := by
    induction hr with
    | refl => exact ⟨hlive d0 hd0, hcf d0 hd0⟩
    | step _ hs ih => exact liveInv_step hcf hlive hs ih.1 ih.2
  exact ctxWithin_length key.1

/-- `C08_data_programs` with the static hypothesis `LiveAtMost maxVariables p` of the C08 statement in place
of the bound on the reachable states -/
theorem C08_data_programs_live (p : AxCut.Prog) (args : List Word) (hooks : Bool) (instrs hdr : List Code)
    (nargs cX : Nat) (d0 : Def) (ops : List MockOp) (c' : Nat)
    (hsafe : LabelSafe p = true) (htp : LinTypedProg p) (hcf : ClosureFree p) (hpf : PrintFree p)
    (hlive : LiveAtMost maxVariables p)
    (hcompM : (compile mockSym hooks p).run 0 = .ok ((ops, nargs), c')) (hfit : CodeFits ops)
    (hcompX : (compile rvBackend hooks p).run 0 = .ok ((instrs, nargs), cX))
    (hnd : (labs (instrs ++ [Code.LAB "cleanup"])).Nodup) (hfitX : codeBase + 4 * instrs.length < 2 ^ 64)
    (hd : p.defs.head? = some d0) (hentry : ∀ b ∈ d0.ctx, b.chi = .ext ∧ b.ty = .i64)
    (fuel : Nat) (v : Word) (hfuel : fuel + 1 < 2 ^ 64)
    (hrun : (Pos.run p args fuel).res = .done v)
    (mc : MonCfg) (hheap : mc.heap = false) (htop : heapBase + mc.heapBytes ≤ 2 ^ 63)
    (hbytes : 128 + 64 * 15 * fuel ≤ mc.heapBytes)
    (lines : List (Nat × Code)) (hhdr : ∀ c ∈ hdr, c.isComment = true)
    (hlines : (lines.map (·.2)).map stripC = (hdr ++ instrs ++ [Code.LAB "cleanup"]).map stripC)
    (hhook : ∀ x ∈ lines, ¬ badHook x.2) :
    ∃ fuel', (runLines lines args fuel' mc).res = .done v := by
  have hmem : d0 ∈ p.defs := by
    cases hdefs : p.defs with
    | nil => rw [hdefs] at hd; simp at hd
    | cons d ds => rw [hdefs] at hd; simp at hd; subst hd; simp
  exact C08_data_programs p args hooks instrs hdr nargs cX d0 ops c' hsafe htp hcf hpf hcompM hfit hcompX hnd hfitX
    hd hentry (C08_capacity_of_liveAtMost hcf hlive hmem _) fuel v hfuel hrun mc hheap htop hbytes lines hhdr hlines
    hhook

/-! ### non-vacuity: objects (let, subst with duplication = share, switch shared and unique) -/

def C08_tBox : Ty := .decl ⟨"Box", 0⟩
def C08_boxDecl : TypeDecl := { name := ⟨"Box", 0⟩, xtors := [⟨⟨"B", 0⟩, [⟨⟨"v", 102⟩, .ext, .i64⟩]⟩] }

/-- main(x) { let b = B(x); subst (b1 := b)(b2 := b); switch b2 { B(y) => subst (y := y)(b1 := b1);
      switch b1 { B(z) => s <- y + z; exit s } } } -/
def C08_boxMain : Def :=
  { name := ⟨"main", 0⟩, ctx := [⟨⟨"x", 1⟩, .ext, .i64⟩],
    body := .letS ⟨"b", 2⟩ C08_tBox ⟨"B", 0⟩ [⟨⟨"x", 1⟩, .ext, .i64⟩]
      (.subst [(⟨⟨"b1", 3⟩, .prd, C08_tBox⟩, ⟨"b", 2⟩), (⟨⟨"b2", 4⟩, .prd, C08_tBox⟩, ⟨"b", 2⟩)]
        (.switch ⟨"b2", 4⟩ C08_tBox
          (.cons ⟨"B", 0⟩ [⟨⟨"y", 5⟩, .ext, .i64⟩]
            (.subst [(⟨⟨"y", 6⟩, .ext, .i64⟩, ⟨"y", 5⟩), (⟨⟨"b1", 7⟩, .prd, C08_tBox⟩, ⟨"b1", 3⟩)]
              (.switch ⟨"b1", 7⟩ C08_tBox
                (.cons ⟨"B", 0⟩ [⟨⟨"z", 8⟩, .ext, .i64⟩]
                  (.op ⟨"s", 9⟩ ⟨"y", 6⟩ .sum ⟨"z", 8⟩ (.exit ⟨"s", 9⟩) none) .nil) none))
            .nil) none)) none }

def C08_boxProg : AxCut.Prog := { defs := [C08_boxMain], types := [C08_boxDecl], maxId := 102 }

def C08_boxOps : List MockOp :=
  match (compile mockSym true C08_boxProg).run 0 with
  | .ok ((code, _), _) => code
  | .error _ => []

/-- the emitted code (computed through `rvBackendF`, the backend with the structurally recursive clones of
`store` / `load`, Scc/RV/RefEval.lean: `rvBackendF = rvBackend`) -/
def C08_boxInstrs : List Code :=
  match (compile rvBackendF true C08_boxProg).run 0 with
  | .ok ((code, _), _) => code
  | .error _ => []

theorem C08_boxProg_closureFree : ClosureFree C08_boxProg := by
  intro d hd
  simp only [C08_boxProg, List.mem_singleton] at hd
  subst hd
  rfl

theorem C08_boxProg_printFree : PrintFree C08_boxProg := by
  intro d hd
  simp only [C08_boxProg, List.mem_singleton] at hd
  subst hd
  rfl

set_option maxRecDepth 100000 in
theorem C08_boxInstrs_nodup : (labs (C08_boxInstrs ++ [Code.LAB "cleanup"])).Nodup := by decide

set_option maxRecDepth 100000 in
theorem C08_boxInstrs_fits : codeBase + 4 * C08_boxInstrs.length < 2 ^ 64 := by decide

/-- the box program started with x = 21: every hypothesis of `C08_data_programs` holds, so the RV64 machine on
the (canonical) lines of the emitted routine reaches `cleanup` with 42 in `X10` (the block is allocated by
`let`, shared by `subst`, loaded once shared and once unique — and freed) -/
example : ∃ fuel', (runLines (canonLines [Code.COMMENT "actual code"] C08_boxInstrs) [21] fuel' {}).res = .done 42 := by
  have hcompM : ∃ k, (compile mockSym true C08_boxProg).run 0 = .ok ((C08_boxOps, 1), k) := ⟨_, rfl⟩
  obtain ⟨c', hcompM⟩ := hcompM
  have hcompX : ∃ k, (compile rvBackend true C08_boxProg).run 0 = .ok ((C08_boxInstrs, 1), k) := by
    rw [← rvBackendF_eq]; exact ⟨_, rfl⟩
  obtain ⟨cX, hcompX⟩ := hcompX
  have hrun : (Pos.run C08_boxProg [21] 20).res = .done 42 := by decide
  exact C08_data_programs C08_boxProg [21] true C08_boxInstrs [Code.COMMENT "actual code"] 1 cX C08_boxMain
    C08_boxOps c' (by decide) (linTypedCheck_sound C08_boxProg rfl) C08_boxProg_closureFree C08_boxProg_printFree
    hcompM (by decide) hcompX C08_boxInstrs_nodup C08_boxInstrs_fits rfl (by decide)
    (C08_capacity_of_run C08_boxProg 20 _ (by decide) (by decide)) 20 42 (by decide) hrun {} rfl (by decide)
    (by decide) _ (fun c hc => by simp at hc; subst hc; rfl) (canonLines_codes _ _) (canonLines_hooks _ _)

/-- the static bound of the C08 statement holds for the box program: at most 14 (here: 3) live variables -/
theorem C08_boxProg_live : LiveAtMost maxVariables C08_boxProg := by
  intro d hd
  simp only [C08_boxProg, List.mem_singleton] at hd
  subst hd
  rfl

/-- … so `C08_data_programs_live` applies as well -/
example : ∃ fuel', (runLines (canonLines [Code.COMMENT "actual code"] C08_boxInstrs) [21] fuel' {}).res = .done 42 := by
  have hcompM : ∃ k, (compile mockSym true C08_boxProg).run 0 = .ok ((C08_boxOps, 1), k) := ⟨_, rfl⟩
  obtain ⟨c', hcompM⟩ := hcompM
  have hcompX : ∃ k, (compile rvBackend true C08_boxProg).run 0 = .ok ((C08_boxInstrs, 1), k) := by
    rw [← rvBackendF_eq]; exact ⟨_, rfl⟩
  obtain ⟨cX, hcompX⟩ := hcompX
  have hrun : (Pos.run C08_boxProg [21] 20).res = .done 42 := by decide
  exact C08_data_programs_live C08_boxProg [21] true C08_boxInstrs [Code.COMMENT "actual code"] 1 cX C08_boxMain
    C08_boxOps c' (by decide) (linTypedCheck_sound C08_boxProg rfl) C08_boxProg_closureFree C08_boxProg_printFree
    C08_boxProg_live hcompM (by decide) hcompX C08_boxInstrs_nodup C08_boxInstrs_fits rfl (by decide)
    20 42 (by decide) hrun {} rfl (by decide)
    (by decide) _ (fun c hc => by simp at hc; subst hc; rfl) (canonLines_codes _ _) (canonLines_hooks _ _)

end Scc.RV

#print axioms Scc.RV.C08_erase_refines
#print axioms Scc.RV.C08_share_refines
#print axioms Scc.RV.C08_store_refines
#print axioms Scc.RV.C08_load_refines
#print axioms Scc.RV.C08_let_rv
#print axioms Scc.RV.C08_switch_rv
#print axioms Scc.RV.C08_step_rv
#print axioms Scc.RV.C08_data_programs
#print axioms Scc.RV.C08_data_programs_text
#print axioms Scc.RV.C08_capacity_of_liveAtMost
#print axioms Scc.RV.C08_data_programs_live
