/-
  Scc.Props.C14LoaderA64Compose — the AArch64 loader round trip (Props/C14LoaderA64.lean) COMPOSED with
  the text-level run theorem of C13 (Props/C13A64.lean, `C13_cc_never_fires_int_text`, whose header
  names "the parser ∘ printer round trip" as the only part not proved):

    `C14A_lines`              the printed text of a text-safe routine parses to lines that ARE the routine
                              in the sense of `CC.Lines` (Scc/A64/CCProofsLayout.lean), with
                              `hkv := Loader.hookVarsOf` (what the loader reads a comment as);
    `C13_cc_never_fires_int_printed`   for every compiled integer program whose routine is text-safe
                              (`codeTextOK`, decidable), the machine ON THE PRINTED TEXT
                              `run (printProg routine)` never ends in a calling-convention violation —
                              no hypothesis about the parser is left.
    `C14A_routine_lines`      … for every compiled routine, from the decidable checks on the PROGRAM
                              (`C14A_inRangeB`, `C14A_namesTextSafe`, Props/C14LoaderA64Names.lean);
    `C13_cc_never_fires_int_names`     the C13 theorem on the printed text with NO hypothesis about the
                              routine: names check + bounds of the program instead of `codeTextOK`.
  Kept in a file of its own so that Props/C14LoaderA64.lean does not depend on the C13 development.
-/
import Scc.Props.C14LoaderA64Names
import Scc.A64.LoaderLines
import Scc.Props.C13A64

namespace Scc.A64

open Scc.A64.Loader Scc.AxCut
open Scc.Props.C06Generic (IntProg)
open Scc.A64.CC (CCSafe CfgCC cfgCC_default Lines)

/-- the printed text of a text-safe routine parses to lines that are the routine -/
theorem C14A_lines (cs : List Code) (h : ∀ c ∈ cs, codeTextOK c = true) :
    ∃ ls, parseText (printProg cs) = .ok ls ∧ CC.Lines hookVarsOf ls cs :=
  parseText_lines cs (progOK_of_codeTextOK h)

example : ∃ ls, parseText (printProg C14A_loaderExample) = .ok ls ∧ CC.Lines hookVarsOf ls C14A_loaderExample :=
  C14A_lines _ (by decide)

/-- C13 (integer programs) on the PRINTED TEXT of the compiled routine: the calling-convention monitor
    never fires, for all arguments, all fuel, every memory configuration -/
theorem C13_cc_never_fires_int_printed (p : AxCut.Prog) (htp : LinTypedProg p) (hip : IntProg p) (hooks : Bool)
    (c0 : Nat) (body routine : List Code) (nargs : Nat)
    (hc : compileProg a64Backend p hooks c0 = .ok (body, nargs, routine))
    (htext : ∀ c ∈ routine, codeTextOK c = true)
    (cfg : MonCfg) (H : CfgCC cfg.mem) (hwf : cfg.wf = false) (args : List Word) (fuel : Nat) :
    CCSafe (run (printProg routine) args fuel cfg).res := by
  obtain ⟨ls, hparse, hl⟩ := C14A_lines routine htext
  exact C13_cc_never_fires_int_text p htp hip hooks c0 body routine nargs hc cfg H hwf hookVarsOf
    (printProg routine) ls hparse hl args fuel

/-- non-vacuity: the counting loop of Props/C13A64.lean, compiled WITH hooks; its routine is text-safe -/
example : ∃ routine : List Code, ∀ (args : List Word) (fuel : Nat),
    CCSafe (run (printProg routine) args fuel {}).res := by
  have hok : ∃ r, compileProg a64Backend C13_loopProg true 0 = .ok r := ⟨_, rfl⟩
  obtain ⟨⟨body, nargs, routine⟩, hcomp⟩ := hok
  have hall : ∀ c ∈ routine, codeTextOK c = true := by
    have : routine = (compileProg a64Backend C13_loopProg true 0 |>.toOption.getD ([], 0, [])).2.2 := by
      rw [hcomp]; rfl
    rw [this]
    decide
  exact ⟨routine, fun args fuel => C13_cc_never_fires_int_printed C13_loopProg
    (linTypedCheck_sound C13_loopProg rfl) C13_loopProg_int true 0 body routine nargs hcomp hall {}
    cfgCC_default rfl args fuel⟩

/-- the printed text of EVERY compiled routine parses to lines that are the routine -/
theorem C14A_routine_lines {p : AxCut.Prog} {hooks : Bool} {c0 : Nat} {body routine : List Code} {nargs : Nat}
    (hrange : C14A_inRangeB p = true) (hnames : C14A_namesTextSafe p = true)
    (h : compileProg a64Backend p hooks c0 = .ok (body, nargs, routine)) :
    ∃ ls, parseText (printProg routine) = .ok ls ∧ CC.Lines hookVarsOf ls routine :=
  C14A_lines routine (C14A_routine_textOK hrange hnames h).2

/-- C13 (integer programs) on the PRINTED TEXT, no hypothesis about the routine: the names check and the
    bounds are decidable checks on the linearized program -/
theorem C13_cc_never_fires_int_names (p : AxCut.Prog) (htp : LinTypedProg p) (hip : IntProg p) (hooks : Bool)
    (c0 : Nat) (body routine : List Code) (nargs : Nat)
    (hc : compileProg a64Backend p hooks c0 = .ok (body, nargs, routine))
    (hrange : C14A_inRangeB p = true) (hnames : C14A_namesTextSafe p = true)
    (cfg : MonCfg) (H : CfgCC cfg.mem) (hwf : cfg.wf = false) (args : List Word) (fuel : Nat) :
    CCSafe (run (printProg routine) args fuel cfg).res :=
  C13_cc_never_fires_int_printed p htp hip hooks c0 body routine nargs hc
    (C14A_routine_textOK hrange hnames hc).2 cfg H hwf args fuel

example : ∀ (hooks : Bool) (c0 : Nat) (body routine : List Code) (nargs : Nat),
    compileProg a64Backend C13_loopProg hooks c0 = .ok (body, nargs, routine) →
    ∀ (args : List Word) (fuel : Nat), CCSafe (run (printProg routine) args fuel {}).res :=
  fun hooks c0 body routine nargs hc args fuel =>
    C13_cc_never_fires_int_names C13_loopProg (linTypedCheck_sound C13_loopProg rfl) C13_loopProg_int hooks c0
      body routine nargs hc (by decide) (by decide) {} cfgCC_default rfl args fuel

end Scc.A64

#print axioms Scc.A64.C14A_routine_lines
#print axioms Scc.A64.C13_cc_never_fires_int_names
#print axioms Scc.A64.C14A_lines
#print axioms Scc.A64.C13_cc_never_fires_int_printed
