/-
  Scc.Props.C08RV — property C08 (RISC-V backend):

    "For every linearly well-typed, print-free AxCut program with at most 14 simultaneously live
     variables, the emitted RISC-V instruction sequence, read with 64-bit loads and stores and
     started at the first label with heap and free pointers initialised as on the other backends,
     reaches its exit point with the same result in the return register as the AxCut abstract
     machine computes, and it agrees with the other two backends on every such program."

  Objects: the backend model `Scc.RV.rvBackend` / `Scc.RV.compileRoutine` (Scc/RV/Backend.lean,
  text-equal to the real backend on the test corpus), the machine `Scc.RV.run` (Scc/RV/Machine.lean:
  `LW`/`SW` are 64-bit accesses there — on real RV64 they are 32-bit, which is why the property says
  "read with 64-bit loads and stores"), the positional AxCut machine `Scc.AxCut.Pos.run`
  (Scc/AxCut/SemPos.lean), the typing `Scc.AxCut.LinTypedProg` (Scc/AxCut/LinTyping.lean).

  Proved here (Theorem B of DESIGN.md §5 "C06, C07, C08" for RV64, the rungs B-arith / B-compare /
  B-literal / B-moves, the first rung of B-memory, and the capacity theorem): contracts of the
  instruction lists the backend emits, for ALL operand values, on the block semantics
  `Scc.RV.execList` (consecutive instructions of the machine's `exec`) and, for code with the local
  forward labels of memory.rs, `Scc.RV.execFwd` (Scc/RV/MemLemmas.lean).  B-memory: the combinators
  `skip_if_zero` / `if_zero_then_else`, `share_block_n` and `erase_block` (all three cases), and the
  MEMORY CONTRACTS against the heap model Scc/Heap/Model.lean (same vocabulary as the x86-64 contracts
  `C06_*_correct`: `Boundary` / `HeapRel` + "the model operation succeeds" ⟹ the generator run succeeds,
  the emitted list executes (`execFwd`) to a state that again satisfies `Boundary` / `HeapRel` for the
  model's result, results in the right registers, a frame condition `FrameR` on everything else):
      `C08_acquire_block_correct`  `acquire_block` against `Scc.Heap.acquire`: (1) next block of the linear
        free list, (2) head of the lazy free list with erasure of its children, (3) bump allocation.
      `C08_store_correct`  `store` against `Scc.Heap.storeObj` for ANY number of fields (one block for
        up to 3 fields, otherwise a chain of linked blocks) — within the capacity of the real code
        (14 variables; beyond it the Rust code panics "Out of registers" and emits nothing).
      `C08_load_correct`  `load` against `Scc.Heap.loadObj` for ANY number of fields: unique branch
        (count 0: the blocks go back onto the linear free list, the children move) and shared branch
        (count > 0: decrement, every pointer child is shared); `C08_load_unique_correct` /
        `C08_load_shared_correct` are the two branches separately.  The only side condition (shared
        branch): the incremented reference counts of the model, which are unbounded naturals, fit in 64 bits.
      `C08_machine_run_fwd`  THE BRIDGE from `execFwd` to the machine's `runLoop`: if the laid-out
        program contains the (comment-free part of the) block at the current item and the block's labels
        resolve into the block, then whenever `execFwd` runs the block to its end, `runLoop` does the
        same and continues just behind the block.
      `C08_acquire_block_runs` / `C08_store_runs` / `C08_load_runs`  the three contracts ON THE RUN LOOP:
        the code of memory.rs is runnable item by item for ALL arguments (`store_free`, `load_free`,
        `acquireBlock_free`: no use of the own code address; `LabsIn`: labels `lab<n>`, never `cleanup`),
        so wherever the laid-out program contains the block, `runLoop` executes it with the contract's effect.
  NOT proved (kept as `def … : Prop`): the full statement `C08_statement`
  (needs Theorem A = the generic simulation on top of these contracts) and the
  agreement with the other backends `C08_agreement_statement`; both are tested by
  /verif/gen/cross_backend.py (RV = A64 = positional machine on 371 generated programs × 3 inputs).
-/
import Scc.RV.Lemmas
import Scc.RV.MemLemmas
import Scc.RV.MemProofsHeap
import Scc.RV.MemProofsStore
import Scc.RV.MemProofsLoad
import Scc.RV.MemProofsRun
import Scc.RV.MemProofsFree
import Scc.AxCut.LinTyping

namespace Scc.RV

open Scc.AxCut Scc.Backend

/-! ## the statement -/

mutual
  /-- no `print_i64` / `println_i64` anywhere -/
  def printFreeStmt : Stmt → Bool
    | .subst _ next => printFreeStmt next
    | .call _ _ => true
    | .letS _ _ _ _ next _ => printFreeStmt next
    | .switch _ _ cs _ => printFreeClauses cs
    | .create _ _ _ cs next _ _ => printFreeClauses cs && printFreeStmt next
    | .invoke _ _ _ _ => true
    | .lit _ _ next _ => printFreeStmt next
    | .op _ _ _ _ next _ => printFreeStmt next
    | .print _ _ _ _ => false
    | .ifc _ _ _ t e => printFreeStmt t && printFreeStmt e
    | .exit _ => true
  def printFreeClauses : Clauses → Bool
    | .nil => true
    | .cons _ _ body rest => printFreeStmt body && printFreeClauses rest
end

def PrintFree (p : Prog) : Prop := ∀ d ∈ p.defs, printFreeStmt d.body = true

mutual
  /-- every environment reached from `Γ` (threaded exactly as the typing rules and the code
  generator thread it) has at most `k` variables -/
  def ctxWithinStmt (k : Nat) : Stmt → Ctx → Bool
    | .subst pairs next, Γ => decide (Γ.length ≤ k) && ctxWithinStmt k next (pairs.map (·.1))
    | .call _ _, Γ => decide (Γ.length ≤ k)
    | .letS x ty _ args next _, Γ =>
      decide (Γ.length ≤ k) &&
        ctxWithinStmt k next (Γ.take (Γ.length - args.length) ++ [⟨x, .prd, ty⟩])
    | .switch _ _ cs _, Γ => decide (Γ.length ≤ k) && ctxWithinClauses k cs Γ.dropLast []
    | .create x ty env cs next _ _, Γ =>
      let e := env.getD []
      decide (Γ.length ≤ k) && ctxWithinClauses k cs [] e &&
        ctxWithinStmt k next (Γ.take (Γ.length - e.length) ++ [⟨x, .cns, ty⟩])
    | .invoke _ _ _ _, Γ => decide (Γ.length ≤ k)
    | .lit x _ next _, Γ => decide (Γ.length ≤ k) && ctxWithinStmt k next (Γ ++ [⟨x, .ext, .i64⟩])
    | .op x _ _ _ next _, Γ => decide (Γ.length ≤ k) && ctxWithinStmt k next (Γ ++ [⟨x, .ext, .i64⟩])
    | .print _ _ next _, Γ => decide (Γ.length ≤ k) && ctxWithinStmt k next Γ
    | .ifc _ _ _ t e, Γ => decide (Γ.length ≤ k) && ctxWithinStmt k t Γ && ctxWithinStmt k e Γ
    | .exit _, Γ => decide (Γ.length ≤ k)
  def ctxWithinClauses (k : Nat) : Clauses → Ctx → Ctx → Bool
    | .nil, _, _ => true
    | .cons _ ctx body rest, pre, post =>
      ctxWithinStmt k body (pre ++ ctx ++ post) && ctxWithinClauses k rest pre post
end

/-- "at most `k` simultaneously live variables" (the environments of a linearized program are
exactly its live variables) -/
def LiveAtMost (k : Nat) (p : Prog) : Prop := ∀ d ∈ p.defs, ctxWithinStmt k d.body d.ctx = true

/-- C08, first half: the emitted text, run on the RV64 machine from the entry state (first label,
`X2 = heap base`, `X3 = X2 + 64`, arguments in the second temporaries of positions 0..), ends at
`cleanup` with the result of the AxCut positional machine in `X10` — for a heap that is large
enough.  (Faults of the positional machine — division by zero, MIN / -1 — are excluded by
`res = done v`.) -/
def C08_statement : Prop :=
  ∀ (p : Prog) (hooks : Bool) (counter nargs : Nat) (text : String) (args : List Word) (v : Word),
    LinTypedProg p → PrintFree p → LiveAtMost maxVariables p →
    compileRoutine p hooks counter = .ok (nargs, text) →
    (∃ fuel, (Pos.run p args fuel).res = .done v) →
    ∃ heapBytes fuel, ∀ cfg : MonCfg, cfg.heapBytes = heapBytes →
      (run text args fuel cfg).res = .done v

/-- the same without claiming termination of the compiler model: it does not panic on such programs -/
def C08_compiles_statement : Prop :=
  ∀ (p : Prog) (hooks : Bool) (counter : Nat),
    LinTypedProg p → PrintFree p → LiveAtMost maxVariables p → p.defs ≠ [] →
    ∃ r, compileRoutine p hooks counter = .ok r

/-- C08, second half: agreement with the other two backends.  The other backends' compilers and
machines are parameters (`compile… p = some routineText`, `run… text args fuel = some result` when
the run ends normally with that result) so that this file does not depend on their files. -/
def C08_agreement_statement
    (compileX86 compileA64 : Prog → Option String)
    (runX86 runA64 : String → List Word → Nat → Option Word) : Prop :=
  ∀ (p : Prog) (hooks : Bool) (counter nargs : Nat) (text textX textA : String) (args : List Word)
    (v : Word),
    LinTypedProg p → PrintFree p → LiveAtMost maxVariables p →
    compileRoutine p hooks counter = .ok (nargs, text) →
    compileX86 p = some textX → compileA64 p = some textA →
    (∃ fuel cfg, (run text args fuel cfg).res = .done v) →
    (∃ fuel, runX86 textX args fuel = some v) ∧ (∃ fuel, runA64 textA args fuel = some v)

/-! ## capacity: 14 variables -/

/-- `variable_temporary` succeeds iff the variable's position is at most 13 (so: 14 variables),
and then it is register `X(2·position + number + 4)`; otherwise it is the panic "Out of registers". -/
theorem C08_capacity (number : TempNum) (context : Ctx) (id pos c : Nat)
    (hpos : getPosition context id = some pos) :
    ((∃ r, (variableTemporary number context id).run c = .ok (r, c)) ↔ pos ≤ 13) ∧
    (∀ r, (variableTemporary number context id).run c = .ok (r, c) →
      r = ⟨2 * pos + number.toNat + reserved⟩) ∧
    ((variableTemporary number context id).run c = .error "Out of registers" ↔ 14 ≤ pos) := by
  have hvt : variableTemporary number context id = positionRegister number pos := by
    simp [variableTemporary, hpos]
  rw [hvt]
  refine ⟨⟨?_, ?_⟩, ?_, positionRegister_error_iff number pos c⟩
  · rintro ⟨r, hr⟩
    exact ((positionRegister_ok_iff number pos c r).mp hr).1
  · intro h
    exact ⟨_, (positionRegister_ok_iff number pos c _).mpr ⟨h, rfl⟩⟩
  · intro r hr
    exact ((positionRegister_ok_iff number pos c r).mp hr).2

/-- `fresh_temporary` succeeds iff the context has at most 13 variables (the new one is the 14th) -/
theorem C08_capacity_fresh (number : TempNum) (context : Ctx) (c : Nat) :
    ((∃ r, (freshTemporary number context).run c = .ok (r, c)) ↔ context.length ≤ 13) ∧
    ((freshTemporary number context).run c = .error "Out of registers" ↔ 14 ≤ context.length) := by
  unfold freshTemporary
  refine ⟨⟨?_, ?_⟩, positionRegister_error_iff number _ c⟩
  · rintro ⟨r, hr⟩
    exact ((positionRegister_ok_iff number _ c r).mp hr).1
  · intro h
    exact ⟨_, (positionRegister_ok_iff number _ c _).mpr ⟨h, rfl⟩⟩

/-- the registers of variables are never the reserved ones (`X0`, `TEMP`, `HEAP`, `FREE`), and
different (position, number) pairs get different registers -/
theorem C08_temporaries_disjoint (n1 n2 : TempNum) (p1 p2 : Nat) :
    (2 * p1 + n1.toNat + reserved ≥ 4) ∧
    (2 * p1 + n1.toNat + reserved = 2 * p2 + n2.toNat + reserved → p1 = p2 ∧ n1 = n2) := by
  have h1 := TempNum.toNat_le_one n1
  have h2 := TempNum.toNat_le_one n2
  refine ⟨by simp [reserved], ?_⟩
  intro h
  have hp : p1 = p2 := by omega
  refine ⟨hp, ?_⟩
  subst hp
  cases n1 <;> cases n2 <;> simp [TempNum.toNat] at h ⊢

-- non-vacuity: position 13 is the last one that works, position 14 panics
example : (variableTemporary .snd (List.replicate 13 ⟨⟨"a", 1⟩, .ext, .i64⟩ ++ [⟨⟨"x", 7⟩, .ext, .i64⟩]) 7).run 0
    = .ok (⟨31⟩, 0) := by rfl
example : (variableTemporary .fst (List.replicate 14 ⟨⟨"a", 1⟩, .ext, .i64⟩ ++ [⟨⟨"x", 7⟩, .ext, .i64⟩]) 7).run 0
    = .error "Out of registers" := by rfl

/-! ## Theorem B for RV64: contracts of the emitted instruction lists (all operand values) -/

section contracts
variable (cfg : MonCfg) (la : String → Option Nat) (pc : Nat)

/-- B-arith: every operator.  Where the AxCut machine computes `v` (`Pos.evalOp`), the emitted
instruction leaves `v` in the target (which may coincide with a source) and nothing else changes;
where the AxCut machine is stuck (x / 0, MIN / -1) the RV machine faults. -/
theorem C08_B_op (o : BinOp) (t a b : Register) (s : State) (va vb : Word)
    (ha : s.readReg a = .ok va) (hb : s.readReg b = .ok vb) :
    (∀ v, Pos.evalOp o va vb = .ok v →
      execList cfg la pc (rvBackend.binop o t a b) s = .ok (s.writeReg t v, .fall)) ∧
    (∀ w, Pos.evalOp o va vb = .error w →
      ∃ e, execList cfg la pc (rvBackend.binop o t a b) s = .error e) :=
  ⟨fun v hv => exec_binop cfg la pc o t a b s va vb v ha hb hv,
   fun w hw => exec_binop_fault cfg la pc o t a b s va vb w ha hb hw⟩

/-- B-compare: every comparison in its two-operand and its zero form: the branch to the label is
taken iff the AxCut comparison (`Pos.evalCmp`) holds; the state is unchanged.  (`<=` and `>` are
the pseudo-instructions `BLE`/`BGT` = `BGE`/`BLT` with swapped operands.) -/
theorem C08_B_compare (sort : IfSort) (a b : Register) (l : String) (s : State) (va vb : Word)
    (ha : s.readReg a = .ok va) (hb : s.readReg b = .ok vb) :
    execList cfg la pc (rvBackend.jumpLabelIf sort a b l) s =
        .ok (s, if Pos.evalCmp sort va vb then .label l else .fall) ∧
    execList cfg la pc (rvBackend.jumpLabelIfZero sort a l) s =
        .ok (s, if Pos.evalCmp sort va 0 then .label l else .fall) :=
  ⟨exec_jumpLabelIf cfg la pc sort a b l s va vb ha hb, exec_jumpLabelIfZero cfg la pc sort a l s va ha⟩

/-- B-literal: `load_immediate` puts the 64-bit value of ANY literal into the target -/
theorem C08_B_literal (t : Register) (n : Int) (s : State) (hs : s.WF) (ht : t.Usable) :
    ∃ s', execList cfg la pc (rvBackend.loadImmediate t n) s = .ok (s', .fall) ∧
      s'.readReg t = .ok (BitVec.ofInt 64 n) ∧
      (∀ r : Register, r.n ≠ t.n → s'.readReg r = s.readReg r) ∧ s'.mem = s.mem :=
  ⟨_, exec_loadImmediate cfg la pc t n s, readReg_writeReg_same hs ht _,
    fun _ hne => readReg_writeReg_other s hne _, writeReg_mem _ _ _⟩

/-- B-moves: `mov` -/
theorem C08_B_mov (t a : Register) (s : State) (hs : s.WF) (ht : t.Usable) (v : Word)
    (ha : s.readReg a = .ok v) :
    ∃ s', execList cfg la pc (rvBackend.mov t a) s = .ok (s', .fall) ∧ s'.WF ∧
      s'.readReg t = .ok v ∧ (∀ r : Register, r.n ≠ t.n → s'.readReg r = s.readReg r) ∧
      s'.mem = s.mem :=
  exec_mov_spec cfg la pc t a s hs ht v ha

/-- B-moves: a cycle is broken through `TEMP` (`store_temporary` / `restore_temporary`) -/
theorem C08_B_swap (x y : Register) (spill : Bool) (s : State) (hs : s.WF)
    (hx : x.Usable) (hy : y.Usable) (hxy : x.n ≠ y.n) (hxt : x.n ≠ TEMP.n) (hyt : y.n ≠ TEMP.n)
    (vx vy : Word) (hvx : s.readReg x = .ok vx) (hvy : s.readReg y = .ok vy) :
    ∃ s', execList cfg la pc (rvBackend.storeTemporary y spill ++ rvBackend.mov y x ++
          rvBackend.restoreTemporary x spill) s = .ok (s', .fall) ∧
      s'.readReg x = .ok vy ∧ s'.readReg y = .ok vx ∧
      (∀ r : Register, r.n ≠ x.n → r.n ≠ y.n → r.n ≠ TEMP.n → s'.readReg r = s.readReg r) ∧
      s'.mem = s.mem :=
  exec_swap_through_temp cfg la pc x y spill s hs hx hy hxy hxt hyt vx vy hvx hvy

/-- B-jumps: `load_label` then `add_and_jump (jump_length k)` reaches `address(label) + 4 k`: the
k-th entry of a table of 4-byte `JAL`s (invoke of a closure whose table address is in `t`) -/
theorem C08_B_addAndJump (t : Register) (k : Nat) (s : State) (hs : s.WF) (A : Nat)
    (ht : s.readReg t = .ok (BitVec.ofNat 64 A)) (hA : A % 2 = 0) :
    ∃ s', execList cfg la pc (rvBackend.addAndJump t (rvBackend.jumpLength k)) s =
        .ok (s', .addr (BitVec.ofNat 64 (A + 4 * k))) ∧
      (∀ r : Register, r.n ≠ TEMP.n → s'.readReg r = s.readReg r) ∧ s'.mem = s.mem :=
  exec_addAndJump cfg la pc t k s hs A ht hA

/-- B-jumps: the dispatch sequence of `switch` on the tag `jump_length k` stored by `let` -/
theorem C08_B_switch_dispatch (tag : Register) (L : String) (A k : Nat) (s : State) (hs : s.WF)
    (hl : la L = some A) (hA : A % 2 = 0) (htag : tag.n ≠ TEMP.n)
    (hv : s.readReg tag = .ok (BitVec.ofInt 64 (rvBackend.jumpLength k))) :
    ∃ s', execList cfg la pc (rvBackend.loadLabel rvBackend.temp L ++
          rvBackend.binop .sum rvBackend.temp rvBackend.temp tag ++ rvBackend.jump rvBackend.temp) s =
        .ok (s', .addr (BitVec.ofNat 64 (A + 4 * k))) ∧
      (∀ r : Register, r.n ≠ TEMP.n → s'.readReg r = s.readReg r) ∧ s'.mem = s.mem :=
  exec_switch_dispatch cfg la pc tag L A k s hs hl hA htag hv

/-- B-exit: `MV X10 t; JAL X0 cleanup` leaves the result in `X10` for EVERY operand register `t`,
including `t = X11` / `t = X10` (`RETURN1`/`RETURN2` are the temporaries of position 3). -/
theorem C08_B_exit (t : Register) (s : State) (hs : s.WF) (v : Word) (ht : s.readReg t = .ok v) :
    ∃ s', execList cfg la pc (rvBackend.mov rvBackend.return1 t ++ rvBackend.jumpLabel "cleanup") s =
        .ok (s', .label "cleanup") ∧ s'.readReg RETURN1 = .ok v :=
  exec_exit cfg la pc t s hs v ht

/-! ### B-memory, first rung (memory.rs): combinators, share_block_n, erase_block -/

/-- `skip_if_zero`: with condition 0 the code is skipped, otherwise it runs (the fresh label is
not defined inside the skipped code) -/
theorem C08_B_skipIfZero (cond : Register) (body : List Code) (c : Nat) (s : State) (v : Word)
    (hv : s.readReg cond = .ok v) (hfresh : skipTo (labName (c + 1)) body = none) :
    ∃ code, (skipIfZero cond body).run c = .ok (code, c + 1) ∧
      (v = 0 → execFwd cfg la code s = .ok (s, .fall)) ∧
      (v ≠ 0 → ∀ s', execFwd cfg la body s = .ok (s', .fall) → execFwd cfg la code s = .ok (s', .fall)) :=
  ⟨_, skipIfZero_run cond body c,
    fun h0 => execFwd_skip_zero cfg la cond body _ s (h0 ▸ hv) hfresh,
    fun hne s' hb => execFwd_skip_nonzero cfg la cond body _ s s' v hv hne hb⟩

/-- `if_zero_then_else`: exactly one branch runs (the two fresh labels are different because
`fresh_label` counts and `usize` printing is injective) -/
theorem C08_B_ifZeroThenElse (cond : Register) (thenB elseB : List Code) (c : Nat) (s : State)
    (v : Word) (hv : s.readReg cond = .ok v)
    (hf1 : skipTo (labName (c + 1)) elseB = none) (hf2 : skipTo (labName (c + 2)) thenB = none) :
    ∃ code, (ifZeroThenElse cond thenB elseB).run c = .ok (code, c + 2) ∧
      (v = 0 → ∀ s', execFwd cfg la thenB s = .ok (s', .fall) → execFwd cfg la code s = .ok (s', .fall)) ∧
      (v ≠ 0 → ∀ s', execFwd cfg la elseB s = .ok (s', .fall) → execFwd cfg la code s = .ok (s', .fall)) :=
  ⟨_, ifZeroThenElse_run cond thenB elseB c,
    fun h0 s' hb => execFwd_ite_zero cfg la cond thenB elseB _ _ s s' (h0 ▸ hv) hf1 hb,
    fun hne s' hb => execFwd_ite_nonzero cfg la cond thenB elseB _ _ s s' v hv hne
      (fun h => by have := labName_inj.mp h; omega) hf2 hb⟩

/-- `share_block_n`: `if p ≠ 0 { [p] += n }` — only `TEMP` and the count word change -/
theorem C08_B_shareBlockN (r : Register) (n c : Nat) (s : State) (hs : s.WF) (p : Word)
    (hr : s.readReg r = .ok p) (hrt : r.n ≠ TEMP.n) :
    (p = 0 → ∃ code c', (rvBackend.shareBlockN r n).run c = .ok (code, c') ∧
      execFwd cfg la code s = .ok (s, .fall)) ∧
    (p ≠ 0 → checkAddr cfg p.toNat = .ok () →
      ∃ code c' s', (rvBackend.shareBlockN r n).run c = .ok (code, c') ∧
        execFwd cfg la code s = .ok (s', .fall) ∧
        s'.mem = s.mem.insert p.toNat (s.mem.getD p.toNat 0 + BitVec.ofInt 64 n) ∧
        (∀ x : Register, x.n ≠ TEMP.n → s'.readReg x = s.readReg x) ∧ s'.WF) :=
  ⟨fun h0 => shareBlockN_null cfg la r n c s (h0 ▸ hr),
   fun hp hok => shareBlockN_spec cfg la r n c s hs p hr hp hrt hok⟩

/-- `erase_block`: null pointer — nothing; count 0 — the block becomes the head of the lazy free
list (`[p] := FREE; FREE := p`); otherwise the count is decremented -/
theorem C08_B_eraseBlock (r : Register) (c : Nat) (s : State) (hs : s.WF) (p f : Word)
    (hr : s.readReg r = .ok p) (hrt : r.n ≠ TEMP.n) (hf : s.readReg FREE = .ok f) :
    (p = 0 → ∃ code c', (rvBackend.eraseBlock r).run c = .ok (code, c') ∧
      execFwd cfg la code s = .ok (s, .fall)) ∧
    (p ≠ 0 → checkAddr cfg p.toNat = .ok () → s.mem.getD p.toNat 0 = 0 →
      ∃ code c' s', (rvBackend.eraseBlock r).run c = .ok (code, c') ∧
        execFwd cfg la code s = .ok (s', .fall) ∧
        s'.mem = s.mem.insert p.toNat f ∧ s'.readReg FREE = .ok p ∧
        (∀ x : Register, x.n ≠ TEMP.n → x.n ≠ FREE.n → s'.readReg x = s.readReg x) ∧ s'.WF) ∧
    (p ≠ 0 → checkAddr cfg p.toNat = .ok () → s.mem.getD p.toNat 0 ≠ 0 →
      ∃ code c' s', (rvBackend.eraseBlock r).run c = .ok (code, c') ∧
        execFwd cfg la code s = .ok (s', .fall) ∧
        s'.mem = s.mem.insert p.toNat (s.mem.getD p.toNat 0 + BitVec.ofInt 64 (-1)) ∧
        (∀ x : Register, x.n ≠ TEMP.n → s'.readReg x = s.readReg x) ∧ s'.WF) :=
  ⟨fun h0 => eraseBlock_null cfg la r c s (h0 ▸ hr),
   fun hp hok hc => eraseBlock_spec_zero cfg la r c s hs p f hr hp hrt hf hok hc,
   fun hp hok hc => eraseBlock_spec_nonzero cfg la r c s hs p hr hp hrt hok hc⟩

end contracts

/-! ### memory contracts against the heap model (Scc/Heap/Model.lean): acquire_block -/

section memory
variable {cfg : MonCfg} {la : String → Option Nat} {st : State}

/-- `acquire_block` implements `Scc.Heap.acquire`: the target `nb` ends up holding the acquired block,
HEAP/FREE/heap represent the model's result; besides `nb` only the additional temporary `at'` (through
which the children of a lazily freed block are erased), TEMP, HEAP, FREE and the heap change; the code
defines exactly fresh labels.  (`nb`, `at'`: any two different variable registers X4..X31; in `store`
they are the two temporaries of one context position.) -/
theorem C08_acquire_block_correct (B : Boundary cfg st) {h h' : Scc.Heap.HState} (R : HeapRel cfg st h)
    {nb at' : Register} (hn1 : 4 ≤ nb.n) (hn2 : nb.n < 32) (ha1 : 4 ≤ at'.n) (ha2 : at'.n < 32)
    (hna : nb.n ≠ at'.n) {new : Nat} (hop : Scc.Heap.acquire h = .ok (h', new)) (k : Nat) :
    ∃ code, (acquireBlock nb at').run k = .ok (code, k + 13) ∧ LabsIn code k (k + 13) ∧
      ∃ st', execFwd cfg la code st = .ok (st', .fall) ∧ Boundary cfg st' ∧ HeapRel cfg st' h' ∧
        (∃ w, st'.readReg nb = .ok w ∧ w.toNat = new) ∧
        FrameR st st' (fun u => u = nb.n ∨ u = at'.n ∨ u = TEMP.n ∨ u = HEAP.n ∨ u = FREE.n) :=
  acquireBlock_contract B R hn1 hn2 ha1 ha2 hna hop k

/-- `store` implements `Scc.Heap.storeObj`: the variables `toStore` at context positions `|rem| …`
(`EnvFieldsM`: an `ext` variable holds an integer in its second register, any other variable a pointer
in its first and a word in its second register — `posReg n = n + 4` is utils.rs
`2 * position + number + RESERVED`) are stored as one object; the first register of position `|rem|`
ends up holding the object pointer.  Changed besides TEMP/HEAP/FREE/heap: only registers of the stored
positions (`StoredReg`: targets and additional temporaries of `acquire_block`).  Preserved: every
variable of `rem`, every register beyond the stored positions, pc, step counter.
Capacity: `rem ++ toStore` has at most 14 variables and position `|rem|` (where the result goes) exists;
this is exactly when the real generator does not panic. -/
theorem C08_store_correct (B : Boundary cfg st) {h h' : Scc.Heap.HState} (R : HeapRel cfg st h)
    {toStore rem : Ctx} {fs : List Scc.Heap.Field} (hcap : 2 * (rem.length + toStore.length) ≤ 28)
    (hrem : rem.length < 14) (hE : EnvFieldsM st rem.length toStore fs) {ptr : Nat}
    (hop : Scc.Heap.storeObj h fs = .ok (h', ptr)) (k : Nat) :
    ∃ code k', (rvBackend.store toStore rem).run k = .ok (code, k') ∧ k ≤ k' ∧ LabsIn code k k' ∧
      ∃ st', execFwd cfg la code st = .ok (st', .fall) ∧ Boundary cfg st' ∧ HeapRel cfg st' h' ∧
        (∃ w, st'.readReg (posTemp (2 * rem.length)) = .ok w ∧ w.toNat = ptr) ∧
        FrameR st st' (fun u => u = TEMP.n ∨ u = HEAP.n ∨ u = FREE.n ∨
          StoredReg rem.length toStore.length u) :=
  store_contract B R hcap hrem hE hop k

/-- `load` implements `Scc.Heap.loadObj` (`kindOf b` = the variable has a pointer part): the object
whose pointer is in the first register of position `|existing|` is unpacked into the variables
`toLoad`; afterwards they hold the loaded fields (`EnvFieldsM`).  Changed: TEMP, HEAP, the heap, the
registers of the loaded positions.  Preserved: FREE, every variable of `existing`, every register beyond
the loaded positions, pc, step counter. -/
theorem C08_load_correct (B : Boundary cfg st) {h h' : Scc.Heap.HState} (R : HeapRel cfg st h)
    {toLoad existing : Ctx} (hcap : 2 * (existing.length + toLoad.length) ≤ 28) {pw : Word}
    (hp : st.readReg (posTemp (2 * existing.length)) = .ok pw) {vals : List Scc.Heap.Field}
    (hop : Scc.Heap.loadObj h pw.toNat (toLoad.map kindOf) = .ok (h', vals))
    (hno : h.mem.get pw.toNat ≠ 0 → ∀ a, h'.mem.get a < 2 ^ 64) (k : Nat) :
    ∃ code k', (rvBackend.load toLoad existing).run k = .ok (code, k') ∧ k ≤ k' ∧ LabsIn code k k' ∧
      ∃ st', execFwd cfg la code st = .ok (st', .fall) ∧ Boundary cfg st' ∧ HeapRel cfg st' h' ∧
        EnvFieldsM st' existing.length toLoad vals ∧
        FrameR st st' (fun u => u = TEMP.n ∨ u = HEAP.n ∨
          ∃ m, 2 * existing.length ≤ m ∧ m < 2 * (existing.length + toLoad.length) ∧ u = posReg m) :=
  load_contract B R hcap hp hop hno k

/-- the UNIQUE branch of `load` (the object's count is 0): no side condition -/
theorem C08_load_unique_correct (B : Boundary cfg st) {h h' : Scc.Heap.HState} (R : HeapRel cfg st h)
    {toLoad existing : Ctx} (hcap : 2 * (existing.length + toLoad.length) ≤ 28) {pw : Word}
    (hp : st.readReg (posTemp (2 * existing.length)) = .ok pw) (hcnt : h.mem.get pw.toNat = 0)
    {vals : List Scc.Heap.Field}
    (hop : Scc.Heap.loadObj h pw.toNat (toLoad.map kindOf) = .ok (h', vals)) (k : Nat) :
    ∃ code k', (rvBackend.load toLoad existing).run k = .ok (code, k') ∧ k ≤ k' ∧ LabsIn code k k' ∧
      ∃ st', execFwd cfg la code st = .ok (st', .fall) ∧ Boundary cfg st' ∧ HeapRel cfg st' h' ∧
        EnvFieldsM st' existing.length toLoad vals ∧
        FrameR st st' (fun u => u = TEMP.n ∨ u = HEAP.n ∨
          ∃ m, 2 * existing.length ≤ m ∧ m < 2 * (existing.length + toLoad.length) ∧ u = posReg m) :=
  load_contract B R hcap hp hop (fun hne => absurd hcnt hne) k

set_option linter.unusedVariables false in
/-- the SHARED branch of `load` (the object's count is not 0) -/
theorem C08_load_shared_correct (B : Boundary cfg st) {h h' : Scc.Heap.HState} (R : HeapRel cfg st h)
    {toLoad existing : Ctx} (hcap : 2 * (existing.length + toLoad.length) ≤ 28) {pw : Word}
    (hp : st.readReg (posTemp (2 * existing.length)) = .ok pw) (hcnt : h.mem.get pw.toNat ≠ 0)
    {vals : List Scc.Heap.Field}
    (hop : Scc.Heap.loadObj h pw.toNat (toLoad.map kindOf) = .ok (h', vals))
    (hno : ∀ a, h'.mem.get a < 2 ^ 64) (k : Nat) :
    ∃ code k', (rvBackend.load toLoad existing).run k = .ok (code, k') ∧ k ≤ k' ∧ LabsIn code k k' ∧
      ∃ st', execFwd cfg la code st = .ok (st', .fall) ∧ Boundary cfg st' ∧ HeapRel cfg st' h' ∧
        EnvFieldsM st' existing.length toLoad vals ∧
        FrameR st st' (fun u => u = TEMP.n ∨ u = HEAP.n ∨
          ∃ m, 2 * existing.length ≤ m ∧ m < 2 * (existing.length + toLoad.length) ∧ u = posReg m) :=
  load_contract B R hcap hp hop (fun _ => hno) k

end memory

/-- THE BRIDGE for blocks with forward local labels: if the laid-out program contains the comment-free
part of the block at item `s.pc` (`layout` drops plain comments) and the labels the block defines
resolve into the block (`BlockAt`: they are defined nowhere earlier in the text), and the block can be
run item by item (`Runnable`, decided by `runnableB`: no instruction uses its own code address — no
`JALR`, no `JAL` with a link register — and the label `cleanup` is not defined in it), then whenever
`execFwd` runs the block to its end, the machine's `runLoop` does the same: it consumes `k` units of
fuel and continues just behind the block with the registers and memory `execFwd` computed. -/
theorem C08_machine_run_fwd (p : Program) (cfg : MonCfg) (codes : List Code) (s s' : State)
    (hb : BlockAt p s.pc (stripComments codes)) (hr : Runnable (stripComments codes))
    (hx : execFwd cfg p.labelAddr codes s = .ok (s', .fall)) :
    ∃ k steps', ∀ fuel, runLoop p cfg (fuel + k) s =
      runLoop p cfg fuel (setPS s' (s.pc + (stripComments codes).length) steps') :=
  run_fwd_block p cfg codes s s' hb hr hx

/-! ### the memory contracts on the machine's run loop -/

section runs
variable {cfg : MonCfg} {st : State} (p : Program)

/-- `acquire_block` on the run loop: wherever the laid-out program `p` contains the emitted block at the
current item (`BlockAt`), `runLoop` executes it: after `n` units of fuel it continues behind the block in
the state `s'` of `C08_acquire_block_correct` (up to pc and step counter, `setPS`). -/
theorem C08_acquire_block_runs (B : Boundary cfg st) {h h' : Scc.Heap.HState} (R : HeapRel cfg st h)
    {nb at' : Register} (hn1 : 4 ≤ nb.n) (hn2 : nb.n < 32) (ha1 : 4 ≤ at'.n) (ha2 : at'.n < 32)
    (hna : nb.n ≠ at'.n) {new : Nat} (hop : Scc.Heap.acquire h = .ok (h', new)) (k : Nat) :
    ∃ code, (acquireBlock nb at').run k = .ok (code, k + 13) ∧
      (BlockAt p st.pc (stripComments code) →
        ∃ n s' steps', (∀ fuel, runLoop p cfg (fuel + n) st =
            runLoop p cfg fuel (setPS s' (st.pc + (stripComments code).length) steps')) ∧
          Boundary cfg s' ∧ HeapRel cfg s' h' ∧ (∃ w, s'.readReg nb = .ok w ∧ w.toNat = new) ∧
          FrameR st s' (fun u => u = nb.n ∨ u = at'.n ∨ u = TEMP.n ∨ u = HEAP.n ∨ u = FREE.n)) := by
  obtain ⟨code, hrun, hl, s', hx, B', R', hw, F⟩ :=
    C08_acquire_block_correct (la := p.labelAddr) B R hn1 hn2 ha1 ha2 hna hop k
  refine ⟨code, hrun, fun hb => ?_⟩
  obtain ⟨n, steps', hn⟩ := mem_block_runs p cfg (acquireBlock_free nb at' k code _ hrun) hl hb hx
  exact ⟨n, s', steps', hn, B', R', hw, F⟩

/-- `store` on the run loop -/
theorem C08_store_runs (B : Boundary cfg st) {h h' : Scc.Heap.HState} (R : HeapRel cfg st h)
    {toStore rem : Ctx} {fs : List Scc.Heap.Field} (hcap : 2 * (rem.length + toStore.length) ≤ 28)
    (hrem : rem.length < 14) (hE : EnvFieldsM st rem.length toStore fs) {ptr : Nat}
    (hop : Scc.Heap.storeObj h fs = .ok (h', ptr)) (k : Nat) :
    ∃ code k', (rvBackend.store toStore rem).run k = .ok (code, k') ∧
      (BlockAt p st.pc (stripComments code) →
        ∃ n s' steps', (∀ fuel, runLoop p cfg (fuel + n) st =
            runLoop p cfg fuel (setPS s' (st.pc + (stripComments code).length) steps')) ∧
          Boundary cfg s' ∧ HeapRel cfg s' h' ∧
          (∃ w, s'.readReg (posTemp (2 * rem.length)) = .ok w ∧ w.toNat = ptr) ∧
          FrameR st s' (fun u => u = TEMP.n ∨ u = HEAP.n ∨ u = FREE.n ∨
            StoredReg rem.length toStore.length u)) := by
  obtain ⟨code, k', hrun, _, hl, s', hx, B', R', hw, F⟩ :=
    C08_store_correct (la := p.labelAddr) B R hcap hrem hE hop k
  refine ⟨code, k', hrun, fun hb => ?_⟩
  obtain ⟨n, steps', hn⟩ := mem_block_runs p cfg (store_free toStore rem k code _ hrun) hl hb hx
  exact ⟨n, s', steps', hn, B', R', hw, F⟩

/-- `load` on the run loop (both branches; `hno` concerns the shared branch only) -/
theorem C08_load_runs (B : Boundary cfg st) {h h' : Scc.Heap.HState} (R : HeapRel cfg st h)
    {toLoad existing : Ctx} (hcap : 2 * (existing.length + toLoad.length) ≤ 28) {pw : Word}
    (hp : st.readReg (posTemp (2 * existing.length)) = .ok pw) {vals : List Scc.Heap.Field}
    (hop : Scc.Heap.loadObj h pw.toNat (toLoad.map kindOf) = .ok (h', vals))
    (hno : h.mem.get pw.toNat ≠ 0 → ∀ a, h'.mem.get a < 2 ^ 64) (k : Nat) :
    ∃ code k', (rvBackend.load toLoad existing).run k = .ok (code, k') ∧
      (BlockAt p st.pc (stripComments code) →
        ∃ n s' steps', (∀ fuel, runLoop p cfg (fuel + n) st =
            runLoop p cfg fuel (setPS s' (st.pc + (stripComments code).length) steps')) ∧
          Boundary cfg s' ∧ HeapRel cfg s' h' ∧ EnvFieldsM s' existing.length toLoad vals ∧
          FrameR st s' (fun u => u = TEMP.n ∨ u = HEAP.n ∨
            ∃ m, 2 * existing.length ≤ m ∧ m < 2 * (existing.length + toLoad.length) ∧ u = posReg m)) := by
  obtain ⟨code, k', hrun, _, hl, s', hx, B', R', hE, F⟩ :=
    C08_load_correct (la := p.labelAddr) B R hcap hp hop hno k
  refine ⟨code, k', hrun, fun hb => ?_⟩
  obtain ⟨n, steps', hn⟩ := mem_block_runs p cfg (load_free toLoad existing k code _ hrun) hl hb hx
  exact ⟨n, s', steps', hn, B', R', hE, F⟩

end runs

/-! ## non-vacuity: a concrete well-formed state satisfying the hypotheses -/

/-- a state with `X5 = 7`, `X7 = -3`, everything else undefined -/
def demoState : State :=
  { regs := ((Array.replicate 32 none).setIfInBounds 5 (some 7#64)).setIfInBounds 7 (some (-3 : Word)),
    mem := ∅, pc := 0 }

example : demoState.WF := by simp [State.WF, demoState, registerNum]
example : demoState.readReg ⟨5⟩ = .ok 7#64 ∧ demoState.readReg ⟨7⟩ = .ok (-3 : Word) := by
  constructor <;> simp [State.readReg, demoState]
example : (⟨9⟩ : Register).Usable ∧ (⟨5⟩ : Register).Usable ∧ (⟨7⟩ : Register).Usable := by
  simp [Register.Usable, registerNum]
example : Pos.evalOp .div 7#64 (-3 : Word) = .ok (-2 : Word) := by
  simp [Pos.evalOp, Pos.minInt]
example : Pos.evalOp .rem (-3 : Word) 0#64 = .error .divByZero := by simp [Pos.evalOp]
-- the swap hypotheses hold for X5, X7 in `demoState`; a table address is even: codeBase + 4 n
example : (5 : Nat) ≠ 7 ∧ (5 : Nat) ≠ TEMP.n ∧ (7 : Nat) ≠ TEMP.n ∧ (codeBase + 4 * 3) % 2 = 0 := by decide

-- a heap address passes the address check of the default configuration; the code of the
-- combinators' branches in memory.rs contains no labels at all
example : checkAddr {} heapBase = .ok () := by simp [checkAddr, heapBase]
example : skipTo (labName 1) [.COMMENT "x", .LW TEMP ⟨6⟩ 0, .ADDI TEMP TEMP 1, .SW TEMP ⟨6⟩ 0] = none := by
  rfl

/-! ### memory contracts: a concrete machine state with a heap -/

/-- the entry state of the machine (`X2 = heap base`, `X3 = X2 + 64`) with `X5 = 7`, `X7 = -3` and a
heap pointer (block 2 of the heap) in `X6` -/
def exStateH : State :=
  { regs := (((((Array.replicate 32 none).setIfInBounds 2 (some 0x10000000#64)).setIfInBounds 3
      (some 0x10000040#64)).setIfInBounds 5 (some 7#64)).setIfInBounds 6 (some 0x10000080#64)).setIfInBounds 7
        (some (-3 : Word)),
    mem := ∅, pc := 0 }

theorem exStateH_boundary : Boundary {} exStateH := ⟨by simp [State.WF, exStateH, registerNum], by decide⟩

def exHeap : Scc.Heap.HState := Scc.Heap.init 0x10000000 (0x10000000 + 0x2000000)

theorem exStateH_heapRel : HeapRel {} exStateH exHeap :=
  ⟨rfl, rfl, fun a => by simp [exHeap, Scc.Heap.init, exStateH],
   ⟨0x10000000#64, by simp [State.readReg, exStateH, HEAP], by decide⟩,
   ⟨0x10000040#64, by simp [State.readReg, exStateH, FREE], by decide⟩⟩

theorem exAcquire : Scc.Heap.acquire exHeap =
    .ok ({ exHeap with heap := 0x10000040, free := 0x10000080 }, 0x10000000) := by
  simp [Scc.Heap.acquire, Scc.Heap.rd, exHeap, Scc.Heap.init, Scc.Heap.blockSize]

/-- bump allocation into `X8` (additional temporary `X9`): `X8` ends up holding the old HEAP, `X5`
(= 7) is kept -/
example : ∃ code st', (acquireBlock ⟨8⟩ ⟨9⟩).run 0 = .ok (code, 13) ∧
    execFwd {} (fun _ => none) code exStateH = .ok (st', .fall) ∧
    st'.readReg ⟨8⟩ = .ok 0x10000000#64 ∧ st'.readReg ⟨5⟩ = .ok 7#64 := by
  obtain ⟨code, hrun, _, st', hx, _, _, ⟨w, hw, ew⟩, F⟩ := C08_acquire_block_correct (la := fun _ => none)
    exStateH_boundary exStateH_heapRel (nb := ⟨8⟩) (at' := ⟨9⟩) (by decide) (by decide) (by decide)
    (by decide) (by decide) exAcquire 0
  refine ⟨code, st', hrun, hx, ?_, ?_⟩
  · rw [hw]; congr 1; exact BitVec.eq_of_toNat_eq (by rw [ew]; rfl)
  · rw [F.readReg ⟨5⟩ (by simp) (by decide)]
    simp [State.readReg, exStateH]

/-- a heap whose linear free list is exhausted (`[HEAP] = 0`) and whose lazy free list starts with the
block 0x10000040 (next: 0x10000100) that still references the child 0x100000c0 (count 1) -/
def exMemLazy : Scc.Heap.Mem :=
  ((Scc.Heap.Mem.empty.set 0x10000040 0x10000100).set 0x10000050 0x100000c0).set 0x100000c0 1

def exHeapLazy : Scc.Heap.HState := { exHeap with mem := exMemLazy }

def exStateLazy : State :=
  { exStateH with mem := (((∅ : Std.HashMap Nat Word).insert 0x10000040 0x10000100#64).insert 0x10000050
      0x100000c0#64).insert 0x100000c0 1#64 }

theorem exStateLazy_boundary : Boundary {} exStateLazy :=
  ⟨by simp [State.WF, exStateLazy, exStateH, registerNum], by decide⟩

theorem exStateLazy_heapRel : HeapRel {} exStateLazy exHeapLazy := by
  refine ⟨rfl, rfl, fun a => ?_, ⟨0x10000000#64, by simp [State.readReg, exStateLazy, exStateH, HEAP], rfl⟩,
    ⟨0x10000040#64, by simp [State.readReg, exStateLazy, exStateH, FREE], rfl⟩⟩
  simp only [exHeapLazy, exMemLazy, exStateLazy, Scc.Heap.Mem.get_set, Std.HashMap.getD_insert,
    Scc.Heap.Mem.get_empty]
  by_cases h1 : 0x100000c0 = a
  · subst h1; simp
  by_cases h2 : 0x10000050 = a
  · subst h2; simp
  by_cases h3 : 0x10000040 = a
  · subst h3; simp
  simp [h1, h2, h3]

theorem exAcquireLazy : ∃ h', Scc.Heap.acquire exHeapLazy = .ok (h', 0x10000000) ∧ h'.heap = 0x10000040 ∧
    h'.free = 0x10000100 ∧ h'.mem.get 0x10000040 = 0 ∧ h'.mem.get 0x100000c0 = 0 := by
  simp [Scc.Heap.acquire, Scc.Heap.eraseFields, Scc.Heap.eraseBlock, Scc.Heap.rd, Scc.Heap.wr,
    Scc.Heap.Mem.get_set, exHeapLazy, exMemLazy, exHeap, Scc.Heap.init, Scc.Heap.fstOff, Scc.Heap.fieldOffset,
    Scc.Heap.blockSize]

/-- case (2) of `acquire_block`: the head of the lazy free list becomes the next free block, its child
is erased (count 1 ↦ 0) through the additional temporary `X9` -/
example : ∃ code st' h', (acquireBlock ⟨8⟩ ⟨9⟩).run 0 = .ok (code, 13) ∧
    execFwd {} (fun _ => none) code exStateLazy = .ok (st', .fall) ∧ HeapRel {} st' h' ∧
    st'.readReg ⟨8⟩ = .ok 0x10000000#64 ∧ h'.heap = 0x10000040 ∧ h'.free = 0x10000100 ∧
    h'.mem.get 0x100000c0 = 0 := by
  obtain ⟨h', hop, hh, hf, _, hc⟩ := exAcquireLazy
  obtain ⟨code, hrun, _, st', hx, _, R', ⟨w, hw, ew⟩, _⟩ := C08_acquire_block_correct (la := fun _ => none)
    exStateLazy_boundary exStateLazy_heapRel (nb := ⟨8⟩) (at' := ⟨9⟩) (by decide) (by decide) (by decide)
    (by decide) (by decide) hop 0
  refine ⟨code, st', h', hrun, hx, R', ?_, hh, hf, hc⟩
  rw [hw]; congr 1; exact BitVec.eq_of_toNat_eq (by rw [ew]; rfl)

/-- `exStateH` viewed as an environment: position 0 = (X4: undefined, X5 = 7), an `ext` variable;
position 1 = (X6 = pointer 0x10000080, X7 = -3), a producer -/
def exCtx : Ctx := [⟨⟨"a", 1⟩, .ext, .i64⟩, ⟨⟨"b", 2⟩, .prd, .i64⟩]

theorem exEnv : EnvFieldsM exStateH 0 exCtx [.int 7, .ptr 0x10000080 18446744073709551613] := by
  refine ⟨?_, ?_, trivial⟩
  · exact ⟨7#64, rfl, by simp [mview, exStateH, posReg]⟩
  · exact ⟨0x10000080#64, (-3 : Word), rfl, by simp [mview, exStateH, posReg], by simp [mview, exStateH, posReg]⟩

theorem exStore : ∃ h', Scc.Heap.storeObj exHeap [.int 7, .ptr 0x10000080 18446744073709551613] =
    .ok (h', 0x10000000) := by
  simp [Scc.Heap.storeObj, heap_storeFields_cons, heap_storeFields_nil, Scc.Heap.restLength, Scc.Heap.storeValues,
    Scc.Heap.storeValuesRev, Scc.Heap.storeValue, Scc.Heap.storeZeros, Scc.Heap.storeZerosFrom, Scc.Heap.wr,
    Scc.Heap.acquire, Scc.Heap.rd, Scc.Heap.Mem.get_set, exHeap, Scc.Heap.init, Scc.Heap.fieldsPerBlock,
    Scc.Heap.BlockPosition.toNat, Scc.Heap.sndOff, Scc.Heap.fstOff, Scc.Heap.fieldOffset, Scc.Heap.blockSize]

/-- one block: both variables of `exCtx` are stored; X4 (first register of position 0) ends up
holding the object pointer = the old HEAP -/
example : ∃ code k' st', (rvBackend.store exCtx []).run 0 = .ok (code, k') ∧
    execFwd {} (fun _ => none) code exStateH = .ok (st', .fall) ∧
    st'.readReg ⟨4⟩ = .ok 0x10000000#64 := by
  obtain ⟨h', hop⟩ := exStore
  obtain ⟨code, k', hrun, _, _, st', hx, _, _, ⟨w, hw, ew⟩, _⟩ := C08_store_correct (la := fun _ => none)
    exStateH_boundary exStateH_heapRel (toStore := exCtx) (rem := []) (by decide) (by decide) exEnv hop 0
  refine ⟨code, k', st', hrun, hx, ?_⟩
  have : posTemp (2 * ([] : Ctx).length) = ⟨4⟩ := rfl
  rw [this] at hw
  rw [hw]; congr 1; exact BitVec.eq_of_toNat_eq (by rw [ew]; rfl)

/-- four integer variables in X5, X7, X9, X11 (second registers of positions 0..3) -/
def exStateS : State :=
  { regs := ((((((Array.replicate 32 none).setIfInBounds 2 (some 0x10000000#64)).setIfInBounds 3
      (some 0x10000040#64)).setIfInBounds 5 (some 1#64)).setIfInBounds 7 (some 2#64)).setIfInBounds 9
        (some 3#64)).setIfInBounds 11 (some 4#64),
    mem := ∅, pc := 0 }

theorem exStateS_boundary : Boundary {} exStateS := ⟨by simp [State.WF, exStateS, registerNum], by decide⟩

theorem exStateS_heapRel : HeapRel {} exStateS exHeap :=
  ⟨rfl, rfl, fun a => by simp [exHeap, Scc.Heap.init, exStateS],
   ⟨0x10000000#64, by simp [State.readReg, exStateS, HEAP], by decide⟩,
   ⟨0x10000040#64, by simp [State.readReg, exStateS, FREE], by decide⟩⟩

def exCtx4 : Ctx := [⟨⟨"a", 1⟩, .ext, .i64⟩, ⟨⟨"b", 2⟩, .ext, .i64⟩, ⟨⟨"c", 3⟩, .ext, .i64⟩, ⟨⟨"d", 4⟩, .ext, .i64⟩]

theorem exEnv4 : EnvFieldsM exStateS 0 exCtx4 [.int 1, .int 2, .int 3, .int 4] :=
  ⟨⟨1#64, rfl, by simp [mview, exStateS, posReg]⟩, ⟨2#64, rfl, by simp [mview, exStateS, posReg]⟩,
   ⟨3#64, rfl, by simp [mview, exStateS, posReg]⟩, ⟨4#64, rfl, by simp [mview, exStateS, posReg]⟩, trivial⟩

theorem exStore4 : ∃ h', Scc.Heap.storeObj exHeap [.int 1, .int 2, .int 3, .int 4] = .ok (h', 0x10000040) := by
  simp [Scc.Heap.storeObj, heap_storeFields_cons, heap_storeFields_nil, Scc.Heap.restLength, Scc.Heap.storeValues,
    Scc.Heap.storeValuesRev, Scc.Heap.storeValue, Scc.Heap.storeZeros, Scc.Heap.storeZerosFrom, Scc.Heap.wr,
    Scc.Heap.acquire, Scc.Heap.rd, Scc.Heap.Mem.get_set, exHeap, Scc.Heap.init, Scc.Heap.fieldsPerBlock,
    Scc.Heap.BlockPosition.toNat, Scc.Heap.sndOff, Scc.Heap.fstOff, Scc.Heap.fieldOffset, Scc.Heap.blockSize]

/-- a chain of TWO blocks (4 fields): the object pointer is the second acquired block -/
example : ∃ code k' st', (rvBackend.store exCtx4 []).run 0 = .ok (code, k') ∧
    execFwd {} (fun _ => none) code exStateS = .ok (st', .fall) ∧
    st'.readReg ⟨4⟩ = .ok 0x10000040#64 := by
  obtain ⟨h', hop⟩ := exStore4
  obtain ⟨code, k', hrun, _, _, st', hx, _, _, ⟨w, hw, ew⟩, _⟩ := C08_store_correct (la := fun _ => none)
    exStateS_boundary exStateS_heapRel (toStore := exCtx4) (rem := []) (by decide) (by decide) exEnv4 hop 0
  refine ⟨code, k', st', hrun, hx, ?_⟩
  have : posTemp (2 * ([] : Ctx).length) = ⟨4⟩ := rfl
  rw [this] at hw
  rw [hw]; congr 1; exact BitVec.eq_of_toNat_eq (by rw [ew]; rfl)

/-- the capacity hypotheses of `C08_store_correct` are the capacity of the real code: with 14 variables
remaining there is no register for the result (position 14): the Rust panic "Out of registers" -/
example (rem : Ctx) (h : rem.length = 14) (k : Nat) :
    (rvBackend.store [] rem).run k = .error "Out of registers" := by
  show (storeFields [] rem .last).run k = _
  rw [storeFields]
  simp only [List.isEmpty_nil, dite_true, beq_self_eq_true, if_true]
  unfold freshTemporary positionRegister
  rw [h]
  rfl

/-- a heap holding at 0x10000080 an object of two fields — an integer 7 and a pointer 0x100000c0 with
word 9 — whose count is `cnt` -/
def exMemObj (cnt : Nat) : Scc.Heap.Mem :=
  (((Scc.Heap.Mem.empty.set 0x10000080 cnt).set 0x100000a8 7).set 0x100000b0 0x100000c0).set 0x100000b8 9

def exHeapObj (cnt : Nat) : Scc.Heap.HState := { exHeap with mem := exMemObj cnt }

/-- `exStateH` (X6 = 0x10000080: first register of position 1) with that heap -/
def exStateObj (cnt : Word) : State :=
  { exStateH with mem := ((((∅ : Std.HashMap Nat Word).insert 0x10000080 cnt).insert 0x100000a8 7#64).insert
      0x100000b0 0x100000c0#64).insert 0x100000b8 9#64 }

theorem exStateObj_boundary (cnt : Word) : Boundary {} (exStateObj cnt) :=
  ⟨by simp [State.WF, exStateObj, exStateH, registerNum], by decide⟩

theorem exStateObj_heapRel (cnt : Word) : HeapRel {} (exStateObj cnt) (exHeapObj cnt.toNat) := by
  refine ⟨rfl, rfl, fun a => ?_, ⟨0x10000000#64, by simp [State.readReg, exStateObj, exStateH, HEAP], rfl⟩,
    ⟨0x10000040#64, by simp [State.readReg, exStateObj, exStateH, FREE], rfl⟩⟩
  simp only [exHeapObj, exMemObj, exStateObj, Scc.Heap.Mem.get_set, Std.HashMap.getD_insert, exHeap, Scc.Heap.init,
    Scc.Heap.Mem.get_empty]
  by_cases h1 : 0x100000b8 = a
  · subst h1; simp
  by_cases h2 : 0x100000b0 = a
  · subst h2; simp
  by_cases h3 : 0x100000a8 = a
  · subst h3; simp
  by_cases h4 : 0x10000080 = a
  · subst h4; simp
  simp [h1, h2, h3, h4]

/-- the variables to load: an integer and a producer, at positions 1 and 2 (after `a` at position 0) -/
def exLoadCtx : Ctx := [⟨⟨"x", 3⟩, .ext, .i64⟩, ⟨⟨"y", 4⟩, .prd, .i64⟩]

theorem exLoadUnique : ∃ h', Scc.Heap.loadObj (exHeapObj 0) (0x10000080#64).toNat (exLoadCtx.map kindOf) =
    .ok (h', [.int 7, .ptr 0x100000c0 9]) := by
  simp [Scc.Heap.loadObj, heap_loadFields_cons, heap_loadFields_nil, Scc.Heap.restLength, Scc.Heap.loadValues,
    Scc.Heap.loadValuesRev, Scc.Heap.loadValue, Scc.Heap.releaseBlock, Scc.Heap.wr, Scc.Heap.rd,
    Scc.Heap.Mem.get_set, exHeapObj, exMemObj, exHeap, Scc.Heap.init, Scc.Heap.fieldsPerBlock,
    Scc.Heap.BlockPosition.toNat, Scc.Heap.sndOff, Scc.Heap.fstOff, Scc.Heap.fieldOffset, exLoadCtx, kindOf,
    show (Chi.prd != Chi.ext) = true from rfl, show (Chi.ext != Chi.ext) = false from rfl]

theorem exLoadShared : ∃ h', Scc.Heap.loadObj (exHeapObj 1) (0x10000080#64).toNat (exLoadCtx.map kindOf) =
    .ok (h', [.int 7, .ptr 0x100000c0 9]) ∧ h'.mem.get 0x10000080 = 0 ∧ h'.mem.get 0x100000c0 = 1 ∧
      ∀ a, h'.mem.get a < 2 ^ 64 := by
  simp [Scc.Heap.loadObj, heap_loadFields_cons, heap_loadFields_nil, Scc.Heap.restLength, Scc.Heap.loadValues,
    Scc.Heap.loadValuesRev, Scc.Heap.loadValue, Scc.Heap.shareBlock, Scc.Heap.wr, Scc.Heap.rd,
    Scc.Heap.Mem.get_set, exHeapObj, exMemObj, exHeap, Scc.Heap.init, Scc.Heap.fieldsPerBlock,
    Scc.Heap.BlockPosition.toNat, Scc.Heap.sndOff, Scc.Heap.fstOff, Scc.Heap.fieldOffset, exLoadCtx, kindOf,
    show (Chi.prd != Chi.ext) = true from rfl, show (Chi.ext != Chi.ext) = false from rfl]
  intro a
  repeat' split
  all_goals omega

theorem exStateObj_ptr (cnt : Word) :
    (exStateObj cnt).readReg (posTemp (2 * [(⟨⟨"a", 1⟩, .ext, .i64⟩ : Binding)].length)) = .ok 0x10000080#64 := by
  simp [State.readReg, exStateObj, exStateH, posTemp, posReg]

/-- unique load: X8 (first register of position 2) ends up holding the child pointer, X9 the word 9,
X7 (second register of position 1) the integer 7; X5 (variable `a` of the existing context) is kept -/
example : ∃ code k' st', (rvBackend.load exLoadCtx [⟨⟨"a", 1⟩, .ext, .i64⟩]).run 0 = .ok (code, k') ∧
    execFwd {} (fun _ => none) code (exStateObj 0) = .ok (st', .fall) ∧
    EnvFieldsM st' 1 exLoadCtx [.int 7, .ptr 0x100000c0 9] ∧
    st'.readReg ⟨5⟩ = .ok 7#64 := by
  obtain ⟨h', hop⟩ := exLoadUnique
  obtain ⟨code, k', hrun, _, _, st', hx, _, _, hE, F⟩ := C08_load_unique_correct (la := fun _ => none)
    (exStateObj_boundary 0) (exStateObj_heapRel 0) (toLoad := exLoadCtx)
    (existing := [⟨⟨"a", 1⟩, .ext, .i64⟩]) (by decide) (pw := 0x10000080#64) (exStateObj_ptr 0)
    (by simp [exHeapObj, exMemObj, Scc.Heap.Mem.get_set]) hop 0
  refine ⟨code, k', st', hrun, hx, hE, ?_⟩
  rw [F.readReg ⟨5⟩ (by
    rintro (e | e | ⟨m, h1, _, e⟩)
    · cases e
    · cases e
    · simp [posReg] at h1 e; omega) (by decide)]
  simp [State.readReg, exStateObj, exStateH]

/-- shared load: the object's count drops to 0, the child's count rises to 1 -/
example : ∃ code k' st' h', (rvBackend.load exLoadCtx [⟨⟨"a", 1⟩, .ext, .i64⟩]).run 0 = .ok (code, k') ∧
    execFwd {} (fun _ => none) code (exStateObj 1) = .ok (st', .fall) ∧ HeapRel {} st' h' ∧
    EnvFieldsM st' 1 exLoadCtx [.int 7, .ptr 0x100000c0 9] ∧
    h'.mem.get 0x10000080 = 0 ∧ h'.mem.get 0x100000c0 = 1 := by
  obtain ⟨h', hop, hc1, hc2, hno⟩ := exLoadShared
  obtain ⟨code, k', hrun, _, _, st', hx, _, R', hE, _⟩ := C08_load_shared_correct (la := fun _ => none)
    (exStateObj_boundary 1) (exStateObj_heapRel 1) (toLoad := exLoadCtx)
    (existing := [⟨⟨"a", 1⟩, .ext, .i64⟩]) (by decide) (pw := 0x10000080#64) (exStateObj_ptr 1)
    (by simp [exHeapObj, exMemObj, Scc.Heap.Mem.get_set]) hop hno 0
  exact ⟨code, k', st', h', hrun, hx, R', hE, hc1, hc2⟩

/-- the heap after `store exCtx4` (the chain of two blocks of the example above): the object is at
0x10000040 (field 1 = 1, link to 0x10000000), the block 0x10000000 holds 2, 3, 4 -/
def exMemChain : Scc.Heap.Mem :=
  ((((Scc.Heap.Mem.empty.set 0x10000068 1).set 0x10000070 0x10000000).set 0x10000018 2).set 0x10000028 3).set
    0x10000038 4

def exHeapChain : Scc.Heap.HState :=
  { exHeap with mem := exMemChain, heap := 0x10000080, free := 0x100000c0 }

/-- the object pointer in X4 (first register of position 0), HEAP and FREE as after the store -/
def exStateChain : State :=
  { regs := (((Array.replicate 32 none).setIfInBounds 2 (some 0x10000080#64)).setIfInBounds 3
      (some 0x100000c0#64)).setIfInBounds 4 (some 0x10000040#64),
    mem := (((((∅ : Std.HashMap Nat Word).insert 0x10000068 1#64).insert 0x10000070 0x10000000#64).insert
      0x10000018 2#64).insert 0x10000028 3#64).insert 0x10000038 4#64,
    pc := 0 }

theorem exStateChain_boundary : Boundary {} exStateChain :=
  ⟨by simp [State.WF, exStateChain, registerNum], by decide⟩

theorem exStateChain_heapRel : HeapRel {} exStateChain exHeapChain := by
  refine ⟨rfl, rfl, fun a => ?_, ⟨0x10000080#64, by simp [State.readReg, exStateChain, HEAP], rfl⟩,
    ⟨0x100000c0#64, by simp [State.readReg, exStateChain, FREE], rfl⟩⟩
  simp only [exHeapChain, exMemChain, exStateChain, Scc.Heap.Mem.get_set, Std.HashMap.getD_insert,
    Scc.Heap.Mem.get_empty]
  by_cases h1 : 0x10000038 = a
  · subst h1; simp
  by_cases h2 : 0x10000028 = a
  · subst h2; simp
  by_cases h3 : 0x10000018 = a
  · subst h3; simp
  by_cases h4 : 0x10000070 = a
  · subst h4; simp
  by_cases h5 : 0x10000068 = a
  · subst h5; simp
  simp [h1, h2, h3, h4, h5]

theorem exLoadChain : ∃ h', Scc.Heap.loadObj exHeapChain (0x10000040#64).toNat (exCtx4.map kindOf) =
    .ok (h', [.int 1, .int 2, .int 3, .int 4]) ∧ h'.heap = 0x10000000 := by
  simp [Scc.Heap.loadObj, heap_loadFields_cons, heap_loadFields_nil, Scc.Heap.restLength, Scc.Heap.loadValues,
    Scc.Heap.loadValuesRev, Scc.Heap.loadValue, Scc.Heap.releaseBlock, Scc.Heap.wr, Scc.Heap.rd,
    Scc.Heap.Mem.get_set, exHeapChain, exMemChain, exHeap, Scc.Heap.init, Scc.Heap.fieldsPerBlock,
    Scc.Heap.BlockPosition.toNat, Scc.Heap.sndOff, Scc.Heap.fstOff, Scc.Heap.fieldOffset, exCtx4, kindOf,
    show (Chi.ext != Chi.ext) = false from rfl]

/-- unique load of a chain of TWO blocks (4 fields): the four integers end up in X5, X7, X9, X11, both
blocks are back on the linear free list (HEAP = the second block of the chain) -/
example : ∃ code k' st' h', (rvBackend.load exCtx4 []).run 0 = .ok (code, k') ∧
    execFwd {} (fun _ => none) code exStateChain = .ok (st', .fall) ∧ HeapRel {} st' h' ∧
    EnvFieldsM st' 0 exCtx4 [.int 1, .int 2, .int 3, .int 4] ∧ h'.heap = 0x10000000 := by
  obtain ⟨h', hop, hh⟩ := exLoadChain
  obtain ⟨code, k', hrun, _, _, st', hx, _, R', hE, _⟩ := C08_load_unique_correct (la := fun _ => none)
    exStateChain_boundary exStateChain_heapRel (toLoad := exCtx4) (existing := []) (by decide)
    (pw := 0x10000040#64) (by simp [State.readReg, exStateChain, posTemp, posReg])
    (by simp [exHeapChain, exMemChain, Scc.Heap.Mem.get_set]) hop 0
  exact ⟨code, k', st', h', hrun, hx, R', hE, hh⟩

/-! ### the bridge: a concrete laid-out program -/

/-- the code of `share_block_n X6 2` (label `lab1`) -/
def exShareCode : List Code :=
  [.BEQ ⟨6⟩ ZERO (labName 1), .COMMENT "####increment refcount", .LW TEMP ⟨6⟩ referenceCountOffset,
   .ADDI TEMP TEMP 2, .SW TEMP ⟨6⟩ referenceCountOffset, .LAB (labName 1)]

/-- … laid out at item 0 (the comment is dropped; `lab1` is item 4) -/
def exProg : Program :=
  { items := #[⟨1, .BEQ ⟨6⟩ ZERO (labName 1), 0x400000, none⟩, ⟨3, .LW TEMP ⟨6⟩ referenceCountOffset, 0x400004, none⟩,
      ⟨4, .ADDI TEMP TEMP 2, 0x400008, none⟩, ⟨5, .SW TEMP ⟨6⟩ referenceCountOffset, 0x40000c, none⟩,
      ⟨7, .LAB (labName 1), 0x400010, none⟩],
    labelIdx := (∅ : Std.HashMap String Nat).insert (labName 1) 4, addrIdx := ∅, entry := none }

theorem exProg_blockAt : BlockAt exProg exStateH.pc (stripComments exShareCode) := by
  have hs : stripComments exShareCode = [.BEQ ⟨6⟩ ZERO (labName 1), .LW TEMP ⟨6⟩ referenceCountOffset,
      .ADDI TEMP TEMP 2, .SW TEMP ⟨6⟩ referenceCountOffset, .LAB (labName 1)] := rfl
  rw [hs]
  refine ⟨fun i h => ?_, fun j l h => ?_⟩
  · match i, h with
    | 0, _ => exact ⟨_, rfl, rfl⟩
    | 1, _ => exact ⟨_, rfl, rfl⟩
    | 2, _ => exact ⟨_, rfl, rfl⟩
    | 3, _ => exact ⟨_, rfl, rfl⟩
    | 4, _ => exact ⟨_, rfl, rfl⟩
    | n + 5, h => simp at h; omega
  · match j, h with
    | 0, h => simp at h
    | 1, h => simp at h
    | 2, h => simp at h
    | 3, h => simp at h
    | 4, h =>
      simp at h
      subst h
      simp [exProg, exStateH]
    | n + 5, h => simp at h

theorem exProg_runnable : Runnable (stripComments exShareCode) := runnable_of_B (by decide)

/-- `share_block_n X6 2` run by the machine's loop from `exStateH`: after `k` units of fuel the loop is
behind the block (item 5) and the count of the block 0x10000080 is 2 -/
example : ∃ k st', (∀ fuel, runLoop exProg {} (fuel + k) exStateH = runLoop exProg {} fuel st') ∧
    st'.pc = 5 ∧ st'.mem.getD 0x10000080 0 = 2#64 := by
  obtain ⟨code, c', s', hrun, hx, hmem, _, _⟩ := shareBlockN_spec {} exProg.labelAddr ⟨6⟩ 2 0 exStateH
    exStateH_boundary.wf 0x10000080#64 (by simp [State.readReg, exStateH]) (by decide) (by decide)
    (by simp [checkAddr, heapBase])
  rw [shareBlockN_run] at hrun
  simp only [Except.ok.injEq, Prod.mk.injEq] at hrun
  obtain ⟨rfl, _⟩ := hrun
  obtain ⟨k, steps', hk⟩ := C08_machine_run_fwd exProg {} exShareCode exStateH s' exProg_blockAt
    exProg_runnable hx
  refine ⟨k, _, hk, rfl, ?_⟩
  simp only [setPS]
  rw [hmem]
  simp [exStateH, imm]

end Scc.RV

#print axioms Scc.RV.C08_capacity
#print axioms Scc.RV.C08_capacity_fresh
#print axioms Scc.RV.C08_temporaries_disjoint
#print axioms Scc.RV.C08_B_op
#print axioms Scc.RV.C08_B_compare
#print axioms Scc.RV.C08_B_literal
#print axioms Scc.RV.C08_B_mov
#print axioms Scc.RV.C08_B_swap
#print axioms Scc.RV.C08_B_addAndJump
#print axioms Scc.RV.C08_B_switch_dispatch
#print axioms Scc.RV.C08_B_exit
#print axioms Scc.RV.C08_B_skipIfZero
#print axioms Scc.RV.C08_B_ifZeroThenElse
#print axioms Scc.RV.C08_B_shareBlockN
#print axioms Scc.RV.C08_B_eraseBlock
#print axioms Scc.RV.C08_acquire_block_correct
#print axioms Scc.RV.C08_store_correct
#print axioms Scc.RV.C08_load_correct
#print axioms Scc.RV.C08_load_unique_correct
#print axioms Scc.RV.C08_load_shared_correct
#print axioms Scc.RV.C08_machine_run_fwd
#print axioms Scc.RV.C08_acquire_block_runs
#print axioms Scc.RV.C08_store_runs
#print axioms Scc.RV.C08_load_runs
